import PyamgV.Proofs.ExtC05BridgeF1

/-! PyamgV (C05, extension E23, complex case, part F2): **the executable cycle model read as functions is
the abstract recursion `cyc`, over an arbitrary field** -- the refinement theorems of
`Proofs/GsArrayRefine.lean`, `C02Refine.lean`, `C02Jacobi.lean`, `C02Model.lean` (`kiter_refines`) and
`ExtC05Refine.lean` (`applySm_refines`, `solveLvl_refines`) re-proved without the order instances, about the
same executable definitions (`K.gaussSeidel`, `K.sorGaussSeidel`, `K.jacobi`, `K.jacobiIndexed`, `C05.applySm`,
`C05.solveLvl`, ...); generated from the originals. `CF.csrOp`, `CF.C05.absLvl` are the order-free twins of
`csrOp`, `C05.absLvl` (same bodies). -/
set_option linter.unusedSectionVars false
set_option linter.unusedVariables false
set_option linter.unusedSimpArgs false

/-! ### from GsArrayRefine.lean -/
namespace PyamgV.CF
open PyamgV PyamgV.C05
variable {R : Type} [Field R] [DecidableEq R]
theorem fn_wr (x : Array R) (i : Nat) (v : R) (hi : i < x.size) :
    fn (K.wr x i v) = Function.update (fn x) i v := by
  funext j
  unfold fn K.rd K.wr
  simp only [Array.getD_eq_getD_getElem?, Array.getElem?_setIfInBounds]
  by_cases h : i = j
  · subst h; simp [hi]
  · simp [h, Function.update_of_ne (Ne.symm h)]
/-- one row of the executable kernel = one row of the proof model -/
theorem gsStep_refines (A : K.Csr R) (b x : Array R) (i : Nat) (hi : i < x.size) :
    fn ((fun (x : Array R) (i : Nat) =>
      let (rsum, diag) := (A.jjs i).foldl (fun (acc : R × R) jj =>
        let j := K.rdN A.aj jj
        if i = j then (acc.1, K.rd A.ax jj) else (acc.1 + K.rd A.ax jj * K.rd x j, acc.2))
        ((0:R), (0:R))
      if diag = 0 then x else K.wr x i ((K.rd b i - rsum) / diag)) x i) =
    gsRowFn i (rowOf A i) (fn b) (fn x) := by
  have hscan : (A.jjs i).foldl (fun (acc : R × R) jj =>
        let j := K.rdN A.aj jj
        if i = j then (acc.1, K.rd A.ax jj) else (acc.1 + K.rd A.ax jj * K.rd x j, acc.2))
        ((0:R), (0:R)) = rowScan i (rowOf A i) (fn x) := by
    unfold rowScan rowOf
    rw [List.foldl_map]
    apply List.foldl_ext
    intro acc jj _
    by_cases h : i = K.rdN A.aj jj
    · simp only [h, if_true]
    · have h' : ¬ K.rdN A.aj jj = i := fun e => h e.symm
      simp only [h, h', if_false]
      rfl
  simp only
  rw [hscan]
  unfold gsRowFn
  rw [show rowScan i (rowOf A i) (fn x) = ((rowScan i (rowOf A i) (fn x)).1,
    (rowScan i (rowOf A i) (fn x)).2) from rfl]
  simp only
  by_cases hd : (rowScan i (rowOf A i) (fn x)).2 = 0
  · rw [if_pos hd, if_pos hd]
  · rw [if_neg hd, if_neg hd, fn_wr _ _ _ hi]
    rfl
/-- **the executable sweep refines `gsSweepFn`** -/
theorem gaussSeidel_refines (A : K.Csr R) (b : Array R) :
    ∀ (rows : List Nat) (x : Array R), (∀ i ∈ rows, i < x.size) →
      (K.gaussSeidel A b rows x).size = x.size ∧
      fn (K.gaussSeidel A b rows x) = gsSweepFn (rowOf A) (fn b) rows (fn x) := by
  intro rows
  induction rows with
  | nil => intro x _; exact ⟨rfl, rfl⟩
  | cons i rows ih =>
    intro x hrows
    have hi : i < x.size := hrows i (by simp)
    unfold K.gaussSeidel gsSweepFn
    rw [List.foldl_cons, List.foldl_cons]
    have hstep := gsStep_refines A b x i hi
    simp only at hstep
    -- the step keeps the size
    have hsz : ((fun (x : Array R) (i : Nat) =>
        let (rsum, diag) := (A.jjs i).foldl (fun (acc : R × R) jj =>
          let j := K.rdN A.aj jj
          if i = j then (acc.1, K.rd A.ax jj) else (acc.1 + K.rd A.ax jj * K.rd x j, acc.2))
          ((0:R), (0:R))
        if diag = 0 then x else K.wr x i ((K.rd b i - rsum) / diag)) x i).size = x.size := by
      simp only
      split
      · rfl
      · simp [K.wr]
    have := ih _ (fun j hj => by rw [hsz]; exact hrows j (by simp [hj]))
    unfold K.gaussSeidel gsSweepFn at this
    refine ⟨this.1.trans hsz, ?_⟩
    rw [this.2, hstep]
end PyamgV.CF

/-! ### from C02Refine.lean -/
namespace PyamgV.CF
open PyamgV PyamgV.C05
variable {R : Type} [Field R] [DecidableEq R]
theorem fn_map_range (n : Nat) (f : Nat → R) (i : Nat) :
    fn ((Array.range n).map f) i = if i < n then f i else 0 := by
  unfold fn K.rd
  by_cases h : i < n
  · simp [h]
  · simp [h]
theorem size_map_range (n : Nat) (f : Nat → R) : ((Array.range n).map f).size = n := by simp
theorem foldl_add_eq_sum {β : Type} (l : List β) (g : β → R) (s : R) :
    l.foldl (fun s j => s + g j) s = s + (l.map g).sum := by
  induction l generalizing s with
  | nil => simp
  | cons a l ih => simp only [List.foldl_cons, List.map_cons, List.sum_cons]; rw [ih]; ring
/-- `A @ x` of the model is the CSR operator of the proofs -/
theorem spmv_refines (A : K.Csr R) (x : Array R) :
    fn (C02.spmv A x) = csrOp A.n (rowOf A) (fn x) := by
  funext i
  unfold C02.spmv
  rw [fn_map_range]
  by_cases h : i < A.n
  · rw [if_pos h, csrOp_apply _ _ _ _ h, foldl_add_eq_sum]
    unfold rowDot rowOf fn
    simp [List.map_map, Function.comp_def]
  · rw [if_neg h]; simp [csrOp, h]
theorem spmv_size (A : K.Csr R) (x : Array R) : (C02.spmv A x).size = A.n := by
  unfold C02.spmv; simp
theorem fn_zero_of_size (x : Array R) (i : Nat) (h : x.size ≤ i) : fn x i = 0 := by
  unfold fn K.rd; simp [h]
theorem vsub_refines (x y : Array R) (h : y.size ≤ x.size) : fn (C02.vsub x y) = fn x - fn y := by
  funext i
  unfold C02.vsub
  rw [fn_map_range]
  by_cases hi : i < x.size
  · simp [hi, fn]
  · have h1 := fn_zero_of_size x i (by omega)
    have h2 := fn_zero_of_size y i (by omega)
    simp [hi, h1, h2]
theorem vadd_refines (x y : Array R) (h : y.size ≤ x.size) : fn (C02.vadd x y) = fn x + fn y := by
  funext i
  unfold C02.vadd
  rw [fn_map_range]
  by_cases hi : i < x.size
  · simp [hi, fn]
  · have h1 := fn_zero_of_size x i (by omega)
    have h2 := fn_zero_of_size y i (by omega)
    simp [hi, h1, h2]
theorem vsub_size (x y : Array R) : (C02.vsub x y).size = x.size := by unfold C02.vsub; simp
theorem vadd_size (x y : Array R) : (C02.vadd x y).size = x.size := by unfold C02.vadd; simp
theorem zeros_refines (n : Nat) : fn (C02.zeros n : Array R) = 0 := by
  funext i
  unfold C02.zeros fn K.rd
  by_cases h : i < n <;> simp [h]
theorem zeros_size (n : Nat) : (C02.zeros n : Array R).size = n := by unfold C02.zeros; simp
/-- one row of the executable SOR kernel = one row of the proof model -/
theorem sorStep_refines (ω : R) (A : K.Csr R) (b x : Array R) (i : Nat) (hi : i < x.size) :
    fn ((fun (x : Array R) (i : Nat) =>
      let (rsum, diag) := (A.jjs i).foldl (fun (acc : R × R) jj =>
        let j := K.rdN A.aj jj
        if i = j then (acc.1, K.rd A.ax jj) else (acc.1 + K.rd A.ax jj * K.rd x j, acc.2))
        ((0:R), (0:R))
      if diag = 0 then x else K.wr x i (ω * ((K.rd b i - rsum) / diag) + (1 - ω) * K.rd x i)) x i) =
    sorRowFn ω i (rowOf A i) (fn b) (fn x) := by
  have hscan : (A.jjs i).foldl (fun (acc : R × R) jj =>
        let j := K.rdN A.aj jj
        if i = j then (acc.1, K.rd A.ax jj) else (acc.1 + K.rd A.ax jj * K.rd x j, acc.2))
        ((0:R), (0:R)) = rowScan i (rowOf A i) (fn x) := by
    unfold rowScan rowOf
    rw [List.foldl_map]
    apply List.foldl_ext
    intro acc jj _
    by_cases h : i = K.rdN A.aj jj
    · simp only [h, if_true]
    · have h' : ¬ K.rdN A.aj jj = i := fun e => h e.symm
      simp only [h, h', if_false]
      rfl
  simp only
  rw [hscan]
  unfold sorRowFn
  rw [show rowScan i (rowOf A i) (fn x) = ((rowScan i (rowOf A i) (fn x)).1,
    (rowScan i (rowOf A i) (fn x)).2) from rfl]
  simp only
  by_cases hd : (rowScan i (rowOf A i) (fn x)).2 = 0
  · rw [if_pos hd, if_pos hd]
  · rw [if_neg hd, if_neg hd, fn_wr _ _ _ hi]
    rfl
/-- **the executable SOR sweep refines `sorSweepFn`** -/
theorem sorGaussSeidel_refines (ω : R) (A : K.Csr R) (b : Array R) :
    ∀ (rows : List Nat) (x : Array R), (∀ i ∈ rows, i < x.size) →
      (K.sorGaussSeidel ω A b rows x).size = x.size ∧
      fn (K.sorGaussSeidel ω A b rows x) = sorSweepFn ω (rowOf A) (fn b) rows (fn x) := by
  intro rows
  induction rows with
  | nil => intro x _; exact ⟨rfl, rfl⟩
  | cons i rows ih =>
    intro x hrows
    have hi : i < x.size := hrows i (by simp)
    unfold K.sorGaussSeidel sorSweepFn
    rw [List.foldl_cons, List.foldl_cons]
    have hstep := sorStep_refines ω A b x i hi
    simp only at hstep
    have hsz : ((fun (x : Array R) (i : Nat) =>
        let (rsum, diag) := (A.jjs i).foldl (fun (acc : R × R) jj =>
          let j := K.rdN A.aj jj
          if i = j then (acc.1, K.rd A.ax jj) else (acc.1 + K.rd A.ax jj * K.rd x j, acc.2))
          ((0:R), (0:R))
        if diag = 0 then x else K.wr x i (ω * ((K.rd b i - rsum) / diag) + (1 - ω) * K.rd x i)) x i).size
          = x.size := by
      simp only
      split
      · rfl
      · simp [K.wr]
    have := ih _ (fun j hj => by rw [hsz]; exact hrows j (by simp [hj]))
    unfold K.sorGaussSeidel sorSweepFn at this
    refine ⟨this.1.trans hsz, ?_⟩
    rw [this.2, hstep]
end PyamgV.CF

/-! ### from C02Jacobi.lean -/
namespace PyamgV.CF
open PyamgV PyamgV.C05
variable {R : Type} [Field R] [DecidableEq R]
/-- the copy phase `temp[i] = x[i]` over the swept rows -/
theorem copy_refines (x : Array R) :
    ∀ (rows : List Nat) (t : Array R), t.size = x.size → (∀ i ∈ rows, i < x.size) →
      (rows.foldl (fun t i => K.wr t i (K.rd x i)) t).size = x.size ∧
      ∀ j, fn (rows.foldl (fun t i => K.wr t i (K.rd x i)) t) j = if j ∈ rows then fn x j else fn t j := by
  intro rows
  induction rows with
  | nil => intro t ht _; exact ⟨ht, fun j => by simp⟩
  | cons i rest ih =>
    intro t ht hrows
    have hi : i < t.size := by rw [ht]; exact hrows i (by simp)
    have hsz : (K.wr t i (K.rd x i)).size = x.size := by simp [K.wr, ht]
    obtain ⟨h1, h2⟩ := ih (K.wr t i (K.rd x i)) hsz (fun j hj => hrows j (by simp [hj]))
    rw [List.foldl_cons]
    refine ⟨h1, fun j => ?_⟩
    rw [h2 j, fn_wr _ _ _ hi]
    by_cases hjr : j ∈ rest
    · simp [hjr]
    · by_cases hji : j = i
      · subst hji; simp [hjr, fn]
      · simp [hjr, hji, Function.update_of_ne hji]
/-- one row of the executable Jacobi kernel = `jacRowFn` -/
theorem jacStep_refines (ω : R) (A : K.Csr R) (b temp x : Array R) (i : Nat) (hi : i < x.size) :
    fn ((fun (x : Array R) (i : Nat) =>
      let (rsum, diag) := (A.jjs i).foldl (fun (acc : R × R) jj =>
        let j := K.rdN A.aj jj
        if i = j then (acc.1, K.rd A.ax jj) else (acc.1 + K.rd A.ax jj * K.rd temp j, acc.2))
        ((0:R), (0:R))
      if diag = 0 then x else K.wr x i ((1 - ω) * K.rd temp i + ω * ((K.rd b i - rsum) / diag))) x i) =
    jacRowFn ω i (rowOf A i) (fn b) (fn temp) (fn x) := by
  have hscan : (A.jjs i).foldl (fun (acc : R × R) jj =>
        let j := K.rdN A.aj jj
        if i = j then (acc.1, K.rd A.ax jj) else (acc.1 + K.rd A.ax jj * K.rd temp j, acc.2))
        ((0:R), (0:R)) = rowScan i (rowOf A i) (fn temp) := by
    unfold rowScan rowOf
    rw [List.foldl_map]
    apply List.foldl_ext
    intro acc jj _
    by_cases h : i = K.rdN A.aj jj
    · simp only [h, if_true]
    · have h' : ¬ K.rdN A.aj jj = i := fun e => h e.symm
      simp only [h, h', if_false]
      rfl
  simp only
  rw [hscan]
  unfold jacRowFn
  rw [show rowScan i (rowOf A i) (fn temp) = ((rowScan i (rowOf A i) (fn temp)).1,
    (rowScan i (rowOf A i) (fn temp)).2) from rfl]
  simp only
  by_cases hd : (rowScan i (rowOf A i) (fn temp)).2 = 0
  · rw [if_pos hd, if_pos hd]
  · rw [if_neg hd, if_neg hd, fn_wr _ _ _ hi]
    rfl
theorem jacLoop_refines (ω : R) (A : K.Csr R) (b temp : Array R) :
    ∀ (rows : List Nat) (x : Array R), (∀ i ∈ rows, i < x.size) →
      (rows.foldl (fun x i =>
        let (rsum, diag) := (A.jjs i).foldl (fun (acc : R × R) jj =>
          let j := K.rdN A.aj jj
          if i = j then (acc.1, K.rd A.ax jj) else (acc.1 + K.rd A.ax jj * K.rd temp j, acc.2))
          ((0:R), (0:R))
        if diag = 0 then x else K.wr x i ((1 - ω) * K.rd temp i + ω * ((K.rd b i - rsum) / diag))) x).size
        = x.size ∧
      fn (rows.foldl (fun x i =>
        let (rsum, diag) := (A.jjs i).foldl (fun (acc : R × R) jj =>
          let j := K.rdN A.aj jj
          if i = j then (acc.1, K.rd A.ax jj) else (acc.1 + K.rd A.ax jj * K.rd temp j, acc.2))
          ((0:R), (0:R))
        if diag = 0 then x else K.wr x i ((1 - ω) * K.rd temp i + ω * ((K.rd b i - rsum) / diag))) x) =
      jacSweepFn ω (rowOf A) (fn b) (fn temp) rows (fn x) := by
  intro rows
  induction rows with
  | nil => intro x _; exact ⟨rfl, rfl⟩
  | cons i rows ih =>
    intro x hrows
    have hi : i < x.size := hrows i (by simp)
    unfold jacSweepFn
    rw [List.foldl_cons, List.foldl_cons]
    have hstep := jacStep_refines ω A b temp x i hi
    simp only at hstep
    have hsz : ((fun (x : Array R) (i : Nat) =>
        let (rsum, diag) := (A.jjs i).foldl (fun (acc : R × R) jj =>
          let j := K.rdN A.aj jj
          if i = j then (acc.1, K.rd A.ax jj) else (acc.1 + K.rd A.ax jj * K.rd temp j, acc.2))
          ((0:R), (0:R))
        if diag = 0 then x else K.wr x i ((1 - ω) * K.rd temp i + ω * ((K.rd b i - rsum) / diag))) x i).size
          = x.size := by
      simp only
      split
      · rfl
      · simp [K.wr]
    have := ih _ (fun j hj => by rw [hsz]; exact hrows j (by simp [hj]))
    unfold jacSweepFn at this
    refine ⟨this.1.trans hsz, ?_⟩
    rw [this.2, hstep]
/-- the whole kernel call `jacobi(Ap, Aj, Ax, x, b, temp, 0, n, 1, omega)` with `x.size = n` -/
theorem jacobi_refines (ω : R) (A : K.Csr R) (b x : Array R) (n : Nat) (hx : x.size = n) :
    (K.jacobi ω A b (List.range n) (Array.replicate x.size 0) x).size = n ∧
    fn (K.jacobi ω A b (List.range n) (Array.replicate x.size 0) x) =
      jacSweepFn ω (rowOf A) (fn b) (fn x) (List.range n) (fn x) := by
  have hrows : ∀ i ∈ List.range n, i < x.size := fun i hi => by rw [hx]; simpa using hi
  obtain ⟨_, hc2⟩ := copy_refines x (List.range n) (Array.replicate x.size 0) (by simp) hrows
  have htemp : fn ((List.range n).foldl (fun t i => K.wr t i (K.rd x i)) (Array.replicate x.size 0)) = fn x := by
    funext j
    rw [hc2 j]
    by_cases hj : j ∈ List.range n
    · simp [hj]
    · have : x.size ≤ j := by rw [hx]; simpa using hj
      rw [if_neg hj, fn_zero_of_size x j this]
      exact fn_zero_of_size _ j (by simpa using this)
  unfold K.jacobi
  simp only
  obtain ⟨h1, h2⟩ := jacLoop_refines ω A b
    ((List.range n).foldl (fun t i => K.wr t i (K.rd x i)) (Array.replicate x.size 0)) (List.range n) x hrows
  refine ⟨by rw [h1, hx], ?_⟩
  rw [h2, htemp]
theorem hasDiag_diagFn (A : K.Csr R) (i : Nat) (d : R) (h : HasDiag i (rowOf A i) d) : diagFn A i = d := by
  unfold diagFn; unfold HasDiag at h; rw [h]; simp
end PyamgV.CF

/-! ### from C02Model.lean -/
namespace PyamgV.CF
open PyamgV PyamgV.C05
variable {R : Type} [Field R] [DecidableEq R]
theorem kiter_refines (f : Array R → Array R) (g : (Nat → R) → (Nat → R) → (Nat → R)) (b : Nat → R) (n : Nat)
    (h : ∀ x : Array R, x.size = n → (f x).size = n ∧ fn (f x) = g (fn x) b) :
    ∀ (k : Nat) (x : Array R), x.size = n →
      (K.iter f k x).size = n ∧ fn (K.iter f k x) = iter g b k (fn x) := by
  intro k
  induction k with
  | zero => intro x hx; exact ⟨hx, rfl⟩
  | succ k ih =>
    intro x hx
    obtain ⟨h1, h2⟩ := h x hx
    have := ih (f x) h1
    simp only [K.iter, PyamgV.iter]
    rw [← h2]; exact this
end PyamgV.CF

/-! ### from ExtC05Refine.lean -/
namespace PyamgV.CF.C05
open PyamgV PyamgV.C05
open PyamgV
set_option linter.unusedSectionVars false
variable {R : Type} [Field R] [DecidableEq R]
theorem spmv_eq (M : K.Csr R) (x : Array R) : spmv M x = C02.spmv M x := rfl
theorem vadd_eq (x y : Array R) : vadd x y = C02.vadd x y := rfl
theorem vsub_eq (x y : Array R) : vsub x y = C02.vsub x y := rfl
theorem zeros_eq (n : Nat) : (zeros n : Array R) = C02.zeros n := rfl
theorem fpts_lt (A : K.Csr R) (C : List Nat) : ∀ i ∈ fpts A C, i < A.n := by
  intro i hi
  exact List.mem_range.1 (List.mem_filter.1 hi).1
theorem fpts_nodup (A : K.Csr R) (C : List Nat) : (fpts A C).Nodup :=
  List.Nodup.filter _ List.nodup_range
theorem sorSweepFn_one (rows : Nat → Row R) (b : Nat → R) (order : List Nat) (x : Nat → R) :
    sorSweepFn (1 : R) rows b order x = gsSweepFn rows b order x := by
  unfold sorSweepFn gsSweepFn
  congr 1
  funext x i
  rw [sorRow_eq]
  simp
/-- one directional pass of `relaxation.gauss_seidel` (plain kernel iff `ω = 1`) is an SOR sweep -/
theorem gsPass_refines (ω : R) (A : K.Csr R) (b : Array R) (bw : Bool) (x : Array R)
    (hx : x.size = A.n) :
    (K.gsPass ω A b bw x).size = A.n ∧
    fn (K.gsPass ω A b bw x) = sorSweepFn ω (rowOf A) (fn b) (K.dirRows A.n bw) (fn x) := by
  have hrows : ∀ i ∈ K.dirRows A.n bw, i < x.size := by
    intro i hi
    rw [hx]
    unfold K.dirRows at hi
    split at hi
    · simpa using hi
    · simpa using hi
  unfold K.gsPass
  by_cases hω : ω = 1
  · rw [if_pos hω]
    obtain ⟨h1, h2⟩ := gaussSeidel_refines A b _ x hrows
    refine ⟨by rw [h1, hx], ?_⟩
    rw [h2, hω, sorSweepFn_one]
  · rw [if_neg hω]
    obtain ⟨h1, h2⟩ := sorGaussSeidel_refines ω A b _ x hrows
    exact ⟨by rw [h1, hx], h2⟩
theorem dirRows_false (n : Nat) : K.dirRows n false = List.range n := by simp [K.dirRows]
theorem dirRows_true (n : Nat) : K.dirRows n true = (List.range n).reverse := by simp [K.dirRows]
theorem jacSweepFn_eq (ω : R) (rows : Nat → Row R) (b : Nat → R) (idx : List Nat) (x : Nat → R) :
    PyamgV.C05.jacSweepFn ω rows b idx x = PyamgV.jacSweepFn ω rows b x idx x := rfl
/-- `jacobi_indexed` (frozen copy = the whole of `x`) -/
theorem jacobiIndexed_refines (ω : R) (A : K.Csr R) (b : Array R) (idx : List Nat) (x : Array R)
    (hidx : ∀ i ∈ idx, i < x.size) :
    (K.jacobiIndexed ω A b idx x).size = x.size ∧
    fn (K.jacobiIndexed ω A b idx x) = PyamgV.C05.jacSweepFn ω (rowOf A) (fn b) idx (fn x) := by
  rw [jacSweepFn_eq]
  exact jacLoop_refines ω A b x idx x hidx
/-- **the smoothers of the executable cycle model are the function-level smoothers `smFn`** -/
theorem applySm_refines (ofRat : Rat → R) (hof : ∀ q, ofRat q = (q : R)) (s : Sm) (A : K.Csr R)
    (C : List Nat) (hC : ∀ i ∈ C, i < A.n) (x b : Array R) (hx : x.size = A.n) :
    (applySm ofRat s A C x b).size = A.n ∧
    fn (applySm ofRat s A C x b) = smFn (rowOf A) A.n C (fpts A C) s (fn x) (fn b) := by
  cases s with
  | none => exact ⟨hx, rfl⟩
  | gs ω sw it =>
    show (K.pyGaussSeidel (ofRat ω) A b it sw x).size = A.n ∧
      fn (K.pyGaussSeidel (ofRat ω) A b it sw x) = _
    rw [hof]
    cases sw with
    | forward =>
      exact kiter_refines (K.gsPass (ω : R) A b false) (gsFn (ω : R) (rowOf A) A.n .forward) (fn b) A.n
        (fun x hx => by
          have := gsPass_refines (ω : R) A b false x hx
          rw [dirRows_false] at this
          exact this) it x hx
    | backward =>
      exact kiter_refines (K.gsPass (ω : R) A b true) (gsFn (ω : R) (rowOf A) A.n .backward) (fn b) A.n
        (fun x hx => by
          have := gsPass_refines (ω : R) A b true x hx
          rw [dirRows_true] at this
          exact this) it x hx
    | symmetric =>
      exact kiter_refines (fun x => K.gsPass (ω : R) A b true (K.gsPass (ω : R) A b false x))
        (gsFn (ω : R) (rowOf A) A.n .symmetric) (fn b) A.n
        (fun x hx => by
          obtain ⟨h1, h2⟩ := gsPass_refines (ω : R) A b false x hx
          obtain ⟨h3, h4⟩ := gsPass_refines (ω : R) A b true _ h1
          rw [dirRows_false] at h2
          rw [dirRows_true, h2] at h4
          exact ⟨h3, h4⟩) it x hx
  | jac ω it =>
    show (K.pyJacobi (ofRat ω) A b it x).size = A.n ∧ fn (K.pyJacobi (ofRat ω) A b it x) = _
    rw [hof]
    exact kiter_refines (fun x => K.jacobi (ω : R) A b (List.range A.n) (Array.replicate x.size 0) x)
      (fun x b => PyamgV.C05.jacSweepFn (ω : R) (rowOf A) b (List.range A.n) x) (fn b) A.n
      (fun x hx => jacobi_refines (ω : R) A b x A.n hx) it x hx
  | cfjac cFirst ω it fi ci =>
    show (K.pyCFJacobi cFirst (ofRat ω) A b C (fpts A C) it fi ci x).size = A.n ∧
      fn (K.pyCFJacobi cFirst (ofRat ω) A b C (fpts A C) it fi ci x) = _
    rw [hof]
    have hstep : ∀ (idx : List Nat), (∀ i ∈ idx, i < A.n) → ∀ x : Array R, x.size = A.n →
        (K.jacobiIndexed (ω : R) A b idx x).size = A.n ∧
        fn (K.jacobiIndexed (ω : R) A b idx x) = PyamgV.C05.jacSweepFn (ω : R) (rowOf A) (fn b) idx (fn x) := by
      intro idx hidx x hx
      obtain ⟨h1, h2⟩ := jacobiIndexed_refines (ω : R) A b idx x (fun i hi => by rw [hx]; exact hidx i hi)
      exact ⟨by rw [h1, hx], h2⟩
    have hcs := kiter_refines (K.jacobiIndexed (ω : R) A b C)
      (fun x b => PyamgV.C05.jacSweepFn (ω : R) (rowOf A) b C x) (fn b) A.n (hstep C hC) ci
    have hfs := kiter_refines (K.jacobiIndexed (ω : R) A b (fpts A C))
      (fun x b => PyamgV.C05.jacSweepFn (ω : R) (rowOf A) b (fpts A C) x) (fn b) A.n (hstep _ (fpts_lt A C)) fi
    unfold K.pyCFJacobi
    cases cFirst with
    | true =>
      exact kiter_refines _
        (fun x b => PyamgV.iter (fun x b => PyamgV.C05.jacSweepFn (ω : R) (rowOf A) b (fpts A C) x) b fi
          (PyamgV.iter (fun x b => PyamgV.C05.jacSweepFn (ω : R) (rowOf A) b C x) b ci x)) (fn b) A.n
        (fun x hx => by
          obtain ⟨h1, h2⟩ := hcs x hx
          obtain ⟨h3, h4⟩ := hfs _ h1
          simp only [if_true]
          exact ⟨h3, by rw [h4, h2]⟩) it x hx
    | false =>
      exact kiter_refines _
        (fun x b => PyamgV.iter (fun x b => PyamgV.C05.jacSweepFn (ω : R) (rowOf A) b C x) b ci
          (PyamgV.iter (fun x b => PyamgV.C05.jacSweepFn (ω : R) (rowOf A) b (fpts A C) x) b fi x)) (fn b) A.n
        (fun x hx => by
          obtain ⟨h1, h2⟩ := hfs x hx
          obtain ⟨h3, h4⟩ := hcs _ h1
          simp only [Bool.false_eq_true, if_false]
          exact ⟨h3, by rw [h4, h2]⟩) it x hx
/-- a level of the executable model as a level of the abstract recursion, with the linear parts
`smOp` of its smoothers (diagonal = the stored diagonal `diagFn`) -/
def absLvl (L : Lvl R) : LinLevel R (Nat → R) where
  A := csrOp L.A.n (rowOf L.A)
  P := csrOp L.P.n (rowOf L.P)
  R := csrOp L.R.n (rowOf L.R)
  pre := smFn (rowOf L.A) L.A.n L.C (fpts L.A L.C) L.pre
  post := smFn (rowOf L.A) L.A.n L.C (fpts L.A L.C) L.post
  Qpre := smOp (csrOp L.A.n (rowOf L.A)) (diagFn L.A) L.A.n L.C (fpts L.A L.C) L.pre
  Qpost := smOp (csrOp L.A.n (rowOf L.A)) (diagFn L.A) L.A.n L.C (fpts L.A L.C) L.post
theorem solveLvl_cons (ofRat : Rat → R) (Ac : K.Csr R) (c : Cyc) (L : Lvl R) (rest : List (Lvl R))
    (x b : Array R) :
    solveLvl ofRat Ac c (L :: rest) x b =
      (coarseStep ofRat Ac c rest
        (spmv L.R (vsub b (spmv L.A (applySm ofRat L.pre L.A L.C x b))))).bind
      (fun cx => some (applySm ofRat L.post L.A L.C
        (vadd (applySm ofRat L.pre L.A L.C x b) (spmv L.P cx)) b)) := by
  cases rest with
  | nil => cases c <;> rfl
  | cons L' rest' =>
    cases c with
    | V => rfl
    | W =>
      rw [solveLvl]
      simp only [coarseStep]
      cases solveLvl ofRat Ac Cyc.W (L' :: rest')
        (zeros (spmv L.R (vsub b (spmv L.A (applySm ofRat L.pre L.A L.C x b)))).size)
        (spmv L.R (vsub b (spmv L.A (applySm ofRat L.pre L.A L.C x b)))) <;> rfl
/-- **the executable cycle model of C05, read as functions, is the abstract recursion `cyc`** (V and
W cycles, any depth), for a coarsest solve that acts as the map `S` -/
theorem solveLvl_refines (ofRat : Rat → R) (hof : ∀ q, ofRat q = (q : R)) (Ac : K.Csr R)
    (S : (Nat → R) → (Nat → R))
    (hS : ∀ b y : Array R, b.size = Ac.n → solveDense Ac.n (denseOfCsr Ac Ac.n) b = some y →
      y.size = Ac.n ∧ fn y = S (fn b)) :
    ∀ (Ls : List (Lvl R)) (c : Cyc) (n : Nat) (x b y : Array R),
      PyamgV.C05.Shaped Ac.n n Ls → x.size = n → b.size = n → solveLvl ofRat Ac c Ls x b = some y →
      y.size = n ∧
      fn y = cyc S (PyamgV.C05.ctype c) (Ls.map (fun L => (absLvl L).toLevel)) (fn x) (fn b) := by
  intro Ls
  induction Ls with
  | nil =>
    intro c n x b y hs hx hb h
    have hn : n = Ac.n := hs
    subst hn
    have h' : solveDense Ac.n (denseOfCsr Ac Ac.n) b = some y := by
      cases c <;> exact h
    obtain ⟨h1, h2⟩ := hS b y hb h'
    exact ⟨h1, by simpa [cyc] using h2⟩
  | cons L rest ih =>
    intro c n x b y hs hx hb h
    obtain ⟨hAn, hPn, hC, hrest⟩ := hs
    rw [solveLvl_cons] at h
    obtain ⟨hx1n, hx1⟩ := applySm_refines ofRat hof L.pre L.A L.C (by rw [hAn]; exact hC) x b
      (by rw [hx, hAn])
    set x1 := applySm ofRat L.pre L.A L.C x b with hx1def
    set residual := vsub b (spmv L.A x1) with hres
    have hresf : fn residual = fn b - csrOp L.A.n (rowOf L.A) (fn x1) := by
      rw [hres, vsub_eq, spmv_eq, vsub_refines _ _ (by rw [spmv_size, hb, hAn]), spmv_refines]
    set cb := spmv L.R residual with hcb
    have hcbs : cb.size = L.R.n := by rw [hcb, spmv_eq]; exact spmv_size _ _
    have hcbf : fn cb = csrOp L.R.n (rowOf L.R) (fn residual) := by
      rw [hcb, spmv_eq]; exact spmv_refines _ _
    have hz : (zeros cb.size : Array R).size = L.R.n := by rw [zeros_eq, zeros_size, hcbs]
    have hzf : fn (zeros cb.size : Array R) = 0 := by rw [zeros_eq]; exact zeros_refines _
    cases hco : coarseStep ofRat Ac c rest cb with
    | none => rw [hco] at h; exact absurd h (by simp)
    | some cx =>
      rw [hco] at h
      have hy : y = applySm ofRat L.post L.A L.C (vadd x1 (spmv L.P cx)) b := by
        simpa using h.symm
      have hcoarse : cx.size = L.R.n ∧
          fn cx = (match PyamgV.C05.ctype c with
            | .V => cyc S .V (rest.map (fun L => (absLvl L).toLevel)) 0 (fn cb)
            | .W => cyc S .W (rest.map (fun L => (absLvl L).toLevel))
                      (cyc S .W (rest.map (fun L => (absLvl L).toLevel)) 0 (fn cb)) (fn cb)
            | .F k => iter (cyc S .V (rest.map (fun L => (absLvl L).toLevel))) (fn cb) k
                        (cyc S (.F k) (rest.map (fun L => (absLvl L).toLevel)) 0 (fn cb))) := by
        cases rest with
        | nil =>
          have h0 : solveLvl ofRat Ac c [] (zeros cb.size) cb = some cx := by
            cases c <;> exact hco
          obtain ⟨h1, h2⟩ := ih c L.R.n _ cb cx hrest hz hcbs h0
          refine ⟨h1, ?_⟩
          rw [h2]
          cases c <;> simp only [PyamgV.C05.ctype, List.map_nil, cyc]
        | cons L' rest' =>
          cases c with
          | V =>
            have h0 : solveLvl ofRat Ac .V (L' :: rest') (zeros cb.size) cb = some cx := hco
            obtain ⟨h1, h2⟩ := ih .V L.R.n _ cb cx hrest hz hcbs h0
            refine ⟨h1, ?_⟩
            rw [h2, hzf]; rfl
          | W =>
            have h0 : (solveLvl ofRat Ac .W (L' :: rest') (zeros cb.size) cb).bind
                (fun c1 => solveLvl ofRat Ac .W (L' :: rest') c1 cb) = some cx := hco
            cases hc1 : solveLvl ofRat Ac .W (L' :: rest') (zeros cb.size) cb with
            | none => rw [hc1] at h0; exact absurd h0 (by simp)
            | some c1 =>
              rw [hc1] at h0
              have h0' : solveLvl ofRat Ac .W (L' :: rest') c1 cb = some cx := by simpa using h0
              obtain ⟨h1, h2⟩ := ih .W L.R.n _ cb c1 hrest hz hcbs hc1
              obtain ⟨h3, h4⟩ := ih .W L.R.n c1 cb cx hrest h1 hcbs h0'
              refine ⟨h3, ?_⟩
              rw [h4, h2, hzf]; rfl
      obtain ⟨hcxs, hcxf⟩ := hcoarse
      set x2 := vadd x1 (spmv L.P cx) with hx2
      have hx2s : x2.size = L.A.n := by rw [hx2, vadd_eq, vadd_size, hx1n]
      have hx2f : fn x2 = fn x1 + csrOp L.P.n (rowOf L.P) (fn cx) := by
        rw [hx2, vadd_eq, spmv_eq, vadd_refines _ _ (by rw [spmv_size, hx1n, hPn, hAn]), spmv_refines]
      obtain ⟨hps, hpf⟩ := applySm_refines ofRat hof L.post L.A L.C (by rw [hAn]; exact hC) x2 b hx2s
      rw [hy]
      refine ⟨by rw [hps, hAn], ?_⟩
      rw [hpf, hx2f, hcxf, hx1, hcbf, hresf, hx1]
      cases c <;> simp only [PyamgV.C05.ctype, List.map_cons, cyc, absLvl]
end PyamgV.CF.C05
