import PyamgV.Proofs.ExtC04YCompose
/-! PyamgV (extension E54, property C04): the composition theorem for `air_solver(filter_operator=(lump, theta))`.

`loop_hierOKF`: the loop model with the stored-row filter (`extendG (filterCsr theta lump)`) returns, for every
numerical step function with well-formed `P`, `R`, a hierarchy satisfying `C04X.HierOKF` with tolerance 0 and no
skipped decision needed: the first level carries `filter(A0)`, `A_1 = R_0 filter(A0) P_0`, every coarse level a step
was attempted on is stored as `filter(R A P)`, an untouched last level as `R A P`.  Hypothesis on the input beyond
well-formedness: no stored row of `A0` lists a column twice (the kernel reads the FIRST stored diagonal entry; with
duplicates the real filter is not a function of the dense meaning). -/
namespace PyamgV.C04Y
open PyamgV PyamgV.Spmm PyamgV.ExtC04 PyamgV.C04 PyamgV.C04X PyamgV.Coarsen

theorem workOK_filter (θ : Rat) (lump : Bool) : WorkOK NodupRows (filterCsr θ lump) :=
  ⟨fun A h => filterCsr_wf θ lump A h, fun _ => rfl, fun _ => rfl⟩

/-- a matrix that IS the filter of `G` entry by entry satisfies the filter clause with tolerance 0, nothing skipped -/
theorem filtOK_of_eq (c : FCfg) (S G B : Mat) (hr : S.rows = G.rows) (hc : S.cols = G.cols) (hsq : G.rows = G.cols)
    (h : ∀ i j, i < S.rows → j < S.cols → S.ent i j = (filterMat c.θ c.lump G).ent i j) : FiltOK c 0 S G B := by
  intro i hi j hj
  right
  by_cases hd : dropped c G i j = true
  · rw [if_pos hd, h i j hi hj, filterMat_ent c.θ c.lump G i j (by omega) (by omega) (by omega)]
    exact filtDef_dropped c G i j hd
  · rw [if_neg hd, h i j hi hj, sub_self, n1_zero, zero_mul]

/-- the filtered pair clause for a linked pair whose coarse level was filtered in place -/
theorem pairOKF_flagged (θ : Rat) (lump : Bool) (slack : Rat) (sym : Sym) (f c : SLv)
    (hf : Base NodupRows f) (hc : Base NodupRows c) (hl : Link (filterCsr θ lump) sym f c) :
    PairOKF ⟨θ, lump, slack⟩ sym 0 ⟨toMat (filterCsr θ lump f.A), viaP c, viaR c⟩ (toMat (filterCsr θ lump c.A)) true := by
  unfold PairOKF
  rw [if_pos rfl]
  have hw := workOK_filter θ lump
  refine ⟨shapeOK_of_link NodupRows _ hw sym f c hf hc hl (filterCsr θ lump c.A) rfl rfl, ?_⟩
  obtain ⟨P, R, hvia, hA, hP, hR, hPr, hPc, hRr, hRc, _, _⟩ := id hl
  have hvP : viaP c = toMat P := by unfold viaP; rw [hvia]
  have hvR : viaR c = toMat R := by unfold viaR; rw [hvia]
  apply filtOK_of_eq
  · show c.A.rows = (viaR c).rows; rw [hvR]; exact hRr.symm
  · show c.A.cols = (viaP c).cols; rw [hvP, ← hc.sq]; exact hPc.symm
  · show (viaR c).rows = (viaP c).cols; rw [hvR, hvP]; show R.rows = P.cols; rw [hRr, hPc]
  · intro i j hi hj
    have hi' : i < c.A.rows := hi
    have hj' : j < c.A.cols := hj
    apply filterCsr_meaning θ lump c.A _ hc.wf hc.sq hc.q
    · show (viaR c).rows = c.A.rows; rw [hvR]; exact hRr
    · show (viaP c).cols = c.A.cols; rw [hvP, ← hc.sq]; exact hPc
    · intro i k hi hk
      exact product_of_link NodupRows _ hw sym f c hf hl i k hi hk
    · exact hi'
    · exact hj'

/-- the filtered pair clause for a linked pair whose coarse level was not touched -/
theorem pairOKF_plain (θ : Rat) (lump : Bool) (slack : Rat) (sym : Sym) (f c : SLv)
    (hf : Base NodupRows f) (hc : Base NodupRows c) (hl : Link (filterCsr θ lump) sym f c) :
    PairOKF ⟨θ, lump, slack⟩ sym 0 ⟨toMat (filterCsr θ lump f.A), viaP c, viaR c⟩ (toMat c.A) false := by
  unfold PairOKF
  rw [if_neg (by simp)]
  exact pairOK_of_link NodupRows _ (workOK_filter θ lump) sym f c hf hc hl

theorem chainF_one (work : Csr CRat → Csr CRat) (att first : Bool) (s : SLv) :
    chainF work att first [s] = if first then [(⟨toMat (work s.A), matE, matE⟩, false)]
      else [(⟨toMat (if att then work s.A else s.A), matE, matE⟩, att)] := by
  rw [chainF]

theorem chainF_two (work : Csr CRat → Csr CRat) (att first : Bool) (s t : SLv) (rest : List SLv) :
    chainF work att first (s :: t :: rest)
      = (⟨toMat (work s.A), viaP t, viaR t⟩, !first) :: chainF work att false (t :: rest) := by
  rw [chainF]

theorem levelsOKF_of_chain (θ : Rat) (lump : Bool) (slack : Rat) (sym : Sym) (att : Bool) :
    ∀ (fl : List SLv) (first : Bool), fl ≠ [] →
      ChainOK (Link (filterCsr θ lump) sym) (Base NodupRows) fl →
      LevelsOKF ⟨θ, lump, slack⟩ sym 0 (chainF (filterCsr θ lump) att first fl) := by
  intro fl
  induction fl with
  | nil => intro _ h; exact absurd rfl h
  | cons s rest ih =>
    intro first _ h
    cases rest with
    | nil =>
      have hb : Base NodupRows s := h
      rw [chainF_one]
      cases first with
      | true => rw [if_pos rfl]; exact ⟨toMat_wf _, hb.sq, hb.pos⟩
      | false =>
        rw [if_neg (by simp)]
        cases att with
        | true => exact ⟨toMat_wf _, hb.sq, hb.pos⟩
        | false => exact ⟨toMat_wf _, hb.sq, hb.pos⟩
    | cons t rest =>
      obtain ⟨hs, hrel, hrest⟩ := h
      have ih' := ih false (by simp) hrest
      rw [chainF_two]
      cases rest with
      | nil =>
        have ht : Base NodupRows t := hrest
        rw [chainF_one, if_neg (by simp)] at ih' ⊢
        refine ⟨?_, ih'⟩
        cases att with
        | true => exact pairOKF_flagged θ lump slack sym s t hs ht hrel
        | false => exact pairOKF_plain θ lump slack sym s t hs ht hrel
      | cons u rest =>
        have ht : Base NodupRows t := hrest.1
        rw [chainF_two] at ih' ⊢
        exact ⟨pairOKF_flagged θ lump slack sym s t hs ht hrel, ih'⟩

/-- the first level of the chain carries the filtered copy of the first matrix -/
theorem chainF_head (work : Csr CRat → Csr CRat) (att : Bool) (s : SLv) (rest : List SLv) :
    ∃ x tl, chainF work att true (s :: rest) = x :: tl ∧ x.1.A = toMat (work s.A) := by
  cases rest with
  | nil => exact ⟨_, _, by rw [chainF_one, if_pos rfl], rfl⟩
  | cons t rest => exact ⟨_, _, chainF_two _ _ _ _ _ _, rfl⟩

theorem reverse_head_of_getLast {β : Type} (l : List β) (a : β) (h : l.getLast? = some a) :
    ∃ rest, l.reverse = a :: rest := by
  have : l.reverse.head? = some a := by rw [List.head?_reverse]; exact h
  cases hr : l.reverse with
  | nil => rw [hr] at this; cases this
  | cons x rest =>
    rw [hr] at this
    simp only [List.head?_cons, Option.some.injEq] at this
    exact ⟨rest, by rw [this]⟩

/-- **COMPOSITION, AIR with filtering**: for every numerical step function that returns well-formed transfer
operators, every limits, every fuel, every well-formed square non-empty input matrix without duplicate stored
entries, the hierarchy the loop with the stored-row filter builds satisfies `HierOKF` with tolerance 0 -/
theorem loop_hierOKF (θ : Rat) (lump : Bool) (slack : Rat) (sym : Sym) (num : Lv → Csr CRat → NumOut)
    (hnum : NumOK sym num) (bw : Bool) (ml mc fuel : Nat) (A0 : Csr CRat) (bs0 : Nat)
    (hA0 : A0.wf = true) (hsq : A0.rows = A0.cols) (hpos : 0 < A0.rows) (hnd : NodupRows A0) :
    HierOKF ⟨θ, lump, slack⟩ sym 0 (toMat A0)
      (hierF (filterCsr θ lump) bw ml mc (buildG (filterCsr θ lump) num bw ml mc fuel A0 bs0)) := by
  have hw := workOK_filter θ lump
  have hinv := build_inv NodupRows (filterCsr θ lump) hw sym num hnum (fun R A P hP => galerkin_nodupRows R A P hP)
    bw ml mc fuel [start A0 bs0] ⟨Linked.single _, by
      intro s hs
      rw [List.mem_singleton.1 hs]
      exact start_base _ A0 bs0 hA0 hsq hpos hnd⟩
  have hchain := chainOK_reverse _ _ _ hinv.1 hinv.2
  obtain ⟨rest, hrev⟩ := reverse_head_of_getLast _ _ (loop_finest (filterCsr θ lump) num bw ml mc fuel A0 bs0)
  unfold hierF
  unfold buildG at hrev hchain ⊢
  rw [hrev] at hchain ⊢
  have hlv := levelsOKF_of_chain θ lump slack sym
    (attempted bw ml mc (build (sizeS bw) (extendG (filterCsr θ lump) num) ml mc fuel [start A0 bs0]))
    (start A0 bs0 :: rest) true (by simp) hchain
  obtain ⟨x, tl, hx, hxA⟩ := chainF_head (filterCsr θ lump)
    (attempted bw ml mc (build (sizeS bw) (extendG (filterCsr θ lump) num) ml mc fuel [start A0 bs0])) (start A0 bs0) rest
  rw [hx] at hlv ⊢
  show _ ∧ _ ∧ _ ∧ _ ∧ _ ∧ _
  rw [hxA]
  refine ⟨toMat_wf _, toMat_wf _, rfl, rfl, ?_, hlv⟩
  apply filtOK_of_eq
  · rfl
  · rfl
  · exact hsq
  · intro i j hi hj
    exact filterCsr_meaning θ lump A0 (toMat A0) hA0 hsq hnd rfl rfl (fun i k hi hk => toMat_ent A0 i k hi hk) i j hi hj

/-- hence the Boolean checker the driver runs on the model's output answers `true` -/
theorem loop_checkF (θ : Rat) (lump : Bool) (slack : Rat) (sym : Sym) (num : Lv → Csr CRat → NumOut)
    (hnum : NumOK sym num) (bw : Bool) (ml mc fuel : Nat) (A0 : Csr CRat) (bs0 : Nat)
    (hA0 : A0.wf = true) (hsq : A0.rows = A0.cols) (hpos : 0 < A0.rows) (hnd : NodupRows A0) :
    checkHierF ⟨θ, lump, slack⟩ sym 0 (toMat A0)
      (hierF (filterCsr θ lump) bw ml mc (buildG (filterCsr θ lump) num bw ml mc fuel A0 bs0)) = true :=
  (checkHierF_iff _ sym 0 _ _).2 (loop_hierOKF θ lump slack sym num hnum bw ml mc fuel A0 bs0 hA0 hsq hpos hnd)

/-! ### the hypothesis `NumOK` is satisfiable, and discharged for the steps that compute `R` from `P` -/

/-- a step whose restriction is `R = P.T.tocsr()` needs a hypothesis on `P` only -/
theorem numOK_of_transpose (num : Lv → Csr CRat → NumOut)
    (hR : ∀ l A, (num l A).R = transpose (num l A).P)
    (hP : ∀ (l : Lv) (A : Csr CRat) (r b : Nat), A.wf = true → A.rows = A.cols → A.rows = l.rows →
      step l (num l A).guard = .proceed r b →
      (num l A).P.wf = true ∧ (num l A).P.rows = A.rows ∧ (num l A).P.cols = r ∧ 0 < r) :
    NumOK .symm num := by
  intro l A r b hA hsq hrows hs
  obtain ⟨h1, h2, h3, h4⟩ := hP l A r b hA hsq hrows hs
  rw [hR]
  refine ⟨h1, transpose_wf _, h2, h3, h3, h2, h4, ?_⟩
  intro i j
  exact val_transpose _ h1 i j

/-- ... and one with `R = P.T.conjugate()` likewise -/
theorem numOK_of_conjT (num : Lv → Csr CRat → NumOut)
    (hR : ∀ l A, (num l A).R = conjT CRat.conj (num l A).P)
    (hP : ∀ (l : Lv) (A : Csr CRat) (r b : Nat), A.wf = true → A.rows = A.cols → A.rows = l.rows →
      step l (num l A).guard = .proceed r b →
      (num l A).P.wf = true ∧ (num l A).P.rows = A.rows ∧ (num l A).P.cols = r ∧ 0 < r) :
    NumOK .herm num := by
  intro l A r b hA hsq hrows hs
  obtain ⟨h1, h2, h3, h4⟩ := hP l A r b hA hsq hrows hs
  rw [hR]
  refine ⟨h1, conjT_wf _ _, h2, h3, h3, h2, h4, ?_⟩
  intro i j
  exact val_conjT CRat.conj CRatInst.conj_zero CRatInst.conj_add _ h1 i j

/-- any `NumOK sym` step is a `NumOK .none` step (the plain Galerkin clauses need no relation between `R` and `P`) -/
theorem numOK_none (sym : Sym) (num : Lv → Csr CRat → NumOut) (h : NumOK sym num) : NumOK .none num := by
  intro l A r b hA hsq hrows hs
  obtain ⟨h1, h2, h3, h4, h5, h6, h7, _⟩ := h l A r b hA hsq hrows hs
  exact ⟨h1, h2, h3, h4, h5, h6, h7, trivial⟩

#print axioms loop_hierOKF
#print axioms numOK_of_transpose
end PyamgV.C04Y
