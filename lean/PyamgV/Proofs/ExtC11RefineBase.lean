import PyamgV.Model.C11
import PyamgV.Proofs.C11Refine
import Mathlib.Tactic.Linarith
import Mathlib.Algebra.Order.Ring.Rat
import Mathlib.Algebra.Field.Rat

/-! PyamgV (C11, extension E6): shared machinery for the refinement proofs between the array-level
kernel models (Model/C11.lean, Model/KNum.lean) and the proof-side operators (Proofs/C11Kernel.lean):

* `seg` / `rowAt`: the (column, value) list stored in a slice of the output arrays,
* `off len j = Σ_{i<j} len i`: the row pointer every pass 1 produces,
* `PushInv`: invariant of kernels that *append* rows (`one_point_interpolation`, the direct pass 2 of
  Model/KNum.lean),
* `writeList`: positional writes of one row into preallocated arrays (classical pass 2),
* small facts: `absQ = |·|`, `isF = !isC` on valid splittings, folds as sums. -/
namespace PyamgV.C11X
open PyamgV.N PyamgV.C11 PyamgV.C11M

/-! ### slices of output arrays -/

/-- entries `s .. s+len-1` of the pair of arrays `(pj, px)` as a (column, value) list -/
def seg {α β : Type} (da : α) (db : β) (pj : Array α) (px : Array β) (s len : Nat) : List (α × β) :=
  (List.range' s len).map (fun k => (pj.getD k da, px.getD k db))

/-- row `i` of the CSR triple `(pp, pj, px)` -/
def rowAt {α β : Type} (da : α) (db : β) (pp : Array Nat) (pj : Array α) (px : Array β) (i : Nat) :
    List (α × β) :=
  seg da db pj px (rdN pp i) (rdN pp (i + 1) - rdN pp i)

/-- `Σ_{i<j} len i` -/
def off (len : Nat → Nat) (j : Nat) : Nat := ((List.range j).map len).sum

theorem off_zero (len : Nat → Nat) : off len 0 = 0 := by simp [off]

theorem off_succ (len : Nat → Nat) (j : Nat) : off len (j + 1) = off len j + len j := by
  simp [off, List.range_succ]

theorem off_mono (len : Nat → Nat) {j k : Nat} (h : j ≤ k) : off len j ≤ off len k := by
  induction k, h using Nat.le_induction with
  | base => exact Nat.le_refl _
  | succ k _ ih => rw [off_succ]; omega

theorem seg_length {α β : Type} (da : α) (db : β) (pj : Array α) (px : Array β) (s len : Nat) :
    (seg da db pj px s len).length = len := by simp [seg]

theorem seg_congr {α β : Type} (da : α) (db : β) (pj pj' : Array α) (px px' : Array β) (s len : Nat)
    (h : ∀ k, s ≤ k → k < s + len → pj'.getD k da = pj.getD k da ∧ px'.getD k db = px.getD k db) :
    seg da db pj' px' s len = seg da db pj px s len := by
  unfold seg
  apply List.map_congr_left
  intro k hk
  rw [List.mem_range'_1] at hk
  obtain ⟨h1, h2⟩ := h k hk.1 hk.2
  rw [h1, h2]

theorem seg_eq_of_get {α β : Type} (da : α) (db : β) (pj : Array α) (px : Array β) (s : Nat)
    (row : List (α × β))
    (h : ∀ t (ht : t < row.length), pj.getD (s + t) da = (row[t]).1 ∧ px.getD (s + t) db = (row[t]).2) :
    seg da db pj px s row.length = row := by
  apply List.ext_getElem
  · simp [seg]
  · intro t h1 h2
    simp only [seg, List.getElem_map, List.getElem_range']
    obtain ⟨ha, hb⟩ := h t h2
    rw [Nat.one_mul, ha, hb]

/-- rows read through a row pointer that equals `off len` -/
theorem rowAt_of_off {α β : Type} (da : α) (db : β) (len : Nat → Nat) (pp : Array Nat) (pj : Array α)
    (px : Array β) (n : Nat) (hpp : ∀ j ≤ n, rdN pp j = off len j) {i : Nat} (hi : i < n) :
    rowAt da db pp pj px i = seg da db pj px (off len i) (len i) := by
  unfold rowAt
  rw [hpp i (Nat.le_of_lt hi), hpp (i + 1) hi, off_succ]
  congr 1
  omega

/-! ### kernels that append rows -/

/-- after `m` rows have been appended: sizes are `off m`, row `i < m` sits at `off i` -/
def PushInv {α β : Type} (da : α) (db : β) (rows : Nat → List (α × β)) (m : Nat)
    (pj : Array α) (px : Array β) : Prop :=
  pj.size = off (fun i => (rows i).length) m ∧ px.size = off (fun i => (rows i).length) m ∧
  ∀ i < m, seg da db pj px (off (fun i => (rows i).length) i) (rows i).length = rows i

theorem pushInv_zero {α β : Type} (da : α) (db : β) (rows : Nat → List (α × β)) :
    PushInv da db rows 0 #[] #[] := by
  refine ⟨by simp [off], by simp [off], ?_⟩
  intro i hi; omega

theorem getD_append_left {α : Type} (d : α) (a b : Array α) {k : Nat} (h : k < a.size) :
    (a ++ b).getD k d = a.getD k d := by
  rw [Array.getD_eq_getD_getElem?, Array.getD_eq_getD_getElem?, Array.getElem?_append_left h]

theorem getD_append_right {α : Type} (d : α) (a b : Array α) (t : Nat) :
    (a ++ b).getD (a.size + t) d = b.getD t d := by
  rw [Array.getD_eq_getD_getElem?, Array.getD_eq_getD_getElem?,
    Array.getElem?_append_right (Nat.le_add_right _ _)]
  simp

theorem pushInv_step {α β : Type} (da : α) (db : β) (rows : Nat → List (α × β)) (m : Nat)
    (pj : Array α) (px : Array β) (h : PushInv da db rows m pj px) :
    PushInv da db rows (m + 1) (pj ++ ((rows m).map Prod.fst).toArray)
      (px ++ ((rows m).map Prod.snd).toArray) := by
  obtain ⟨h1, h2, h3⟩ := h
  refine ⟨by simp [off_succ, h1], by simp [off_succ, h2], ?_⟩
  intro i hi
  rcases Nat.lt_succ_iff_lt_or_eq.1 hi with hlt | heq
  · rw [← h3 i hlt]
    rw [seg_length]
    apply seg_congr
    intro k hk1 hk2
    have hle : off (fun i => (rows i).length) (i + 1) ≤ off (fun i => (rows i).length) m :=
      off_mono _ hlt
    rw [off_succ] at hle
    exact ⟨getD_append_left da _ _ (by omega), getD_append_left db _ _ (by omega)⟩
  · subst heq
    apply seg_eq_of_get
    intro t ht
    rw [← h1]
    constructor
    · rw [getD_append_right, Array.getD_eq_getD_getElem?]
      simp [ht]
    · rw [← h2.trans h1.symm, getD_append_right, Array.getD_eq_getD_getElem?]
      simp [ht]

/-- `push` one by one = append -/
theorem foldl_push_eq {α γ : Type} (l : List γ) (f : γ → α) (a : Array α) :
    l.foldl (fun a x => a.push (f x)) a = a ++ (l.map f).toArray := by
  induction l generalizing a with
  | nil => simp
  | cons x rest ih =>
    simp only [List.foldl_cons, List.map_cons]
    rw [ih]
    apply Array.ext'
    simp

/-! ### small facts -/

theorem absQ_eq_abs (q : Rat) : absQ q = |q| := by
  unfold absQ; split
  · rw [abs_of_neg ‹_›]
  · rw [abs_of_nonneg (not_lt.1 ‹_›)]

theorem isF_eq_not_isC (split : Array Int) (n : Nat) (hv : Valid split n) {j : Nat} (hj : j < n) :
    isF split j = !isC split j := by
  unfold isF isC
  rcases hv j hj with h | h <;> simp [h]

theorem foldl_hom {σ τ γ : Type} (φ : σ → τ) (f : σ → γ → σ) (g : τ → γ → τ)
    (h : ∀ s x, g (φ s) x = φ (f s x)) (l : List γ) (s : σ) :
    l.foldl g (φ s) = φ (l.foldl f s) := by
  induction l generalizing s with
  | nil => rfl
  | cons x rest ih => simp only [List.foldl_cons]; rw [h, ih]

/-- a fold that adds `f x` is the sum of the mapped list -/
theorem foldl_add_eq_sum {γ : Type} (l : List γ) (f : γ → Rat) (a : Rat) :
    l.foldl (fun d x => d + f x) a = a + (l.map f).sum := by
  induction l generalizing a with
  | nil => simp
  | cons x rest ih => simp only [List.foldl_cons, List.map_cons, List.sum_cons]; rw [ih]; ring

/-- a fold restricted by a test is the fold over the filtered list -/
theorem foldl_filter_eq {σ γ : Type} (l : List γ) (p : γ → Bool) (f : σ → γ → σ) (s : σ) :
    l.foldl (fun s x => if p x = true then f s x else s) s = (l.filter p).foldl f s := by
  induction l generalizing s with
  | nil => rfl
  | cons x rest ih =>
    simp only [List.foldl_cons, List.filter_cons]
    by_cases h : p x = true
    · simp only [h, if_true, List.foldl_cons]; exact ih _
    · simp only [h]; exact ih _

end PyamgV.C11X
