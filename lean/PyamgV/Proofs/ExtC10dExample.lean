import PyamgV.Proofs.ExtC10dEnergy
import PyamgV.Proofs.ExtC10dHierarchy
import Mathlib.Analysis.Real.Sqrt

/-! PyamgV (extension E53, property C10): concrete runs of the composed models (non-vacuity of the
hypotheses of `energyFullCG_property`, `levelStep_fit`, `levelStep_smoothed`).

`exFull`: 1-D Poisson on 4 nodes, aggregates `{0,1}`, `{2,3}` with roots `0` and `3`, `degree = 1`, root-node
smoothing with the post-filter `k = 1`: the model makes both passes. -/
namespace PyamgV.C10d
open PyamgV PyamgV.C10M PyamgV.C10bM PyamgV.C10b PyamgV.C10c PyamgV.C10dM PyamgV.C10R Matrix

def exA : Mat Rat := #[#[2, -1, 0, 0], #[-1, 2, -1, 0], #[0, -1, 2, -1], #[0, 0, -1, 2]]
def exT : Mat Rat := #[#[1, 0], #[1, 0], #[0, 1], #[0, 1]]
def exB : Mat Rat := #[#[1], #[1]]
def exBf : Mat Rat := #[#[1], #[1], #[1], #[1]]
def exAtilde : PyamgV.C19.Rows Rat := [[(0, 1), (1, 1)], [(0, 1), (1, 1), (2, 1)], [(1, 1), (2, 1), (3, 1)], [(2, 1), (3, 1)]]
def exTpat : Pat := #[#[0], #[0], #[1], #[1]]
def exOpts : Opts := { degree := 1, pre := ⟨none, none⟩, post := ⟨none, some 1⟩, root := true, maxiter := 2 }

def exFull : Except String (Out Rat (EnergyOut Rat)) :=
  energyFullCG PyamgV.C19.nsqQ id (fun x y => decide (x < y)) false 0 1 #[] exOpts 4 2 1 1 1 exAtilde exTpat exA exT exB exBf
    #[0, 3] (1 / 100000000) (1 / 100000000)

/-- the run returns, selects the pattern `{0},{0,1},{0,1},{1}`, moves `T` in the first pass, makes the
post-filter pass on the pattern `{0},{0},{1},{1}` and returns a prolongator with `P·B_c = B` -/
theorem exFull_runs :
    (match exFull with
      | .ok o => o.pat1 == #[#[0], #[0, 1], #[0, 1], #[1]] && o.second && !o.fitted && (o.P1 != exT) &&
          o.pat2 == #[#[0], #[0], #[1], #[1]] && (Mat.mul o.P exB == exBf)
      | .error _ => false) = true := by decide +kernel

/-- every hypothesis of `energyFullCG_property` holds for it -/
theorem exFull_property (out : Out Rat (EnergyOut Rat)) (h : exFull = .ok out) :
    FullProp PyamgV.C19.nsqQ exOpts 4 2 1 1 1 exAtilde exTpat exT exB exBf #[0, 3] out :=
  energyFullCG_property PyamgV.C19.nsqQ id (fun x y => decide (x < y)) false 0 1 #[] exOpts 1 1 1 exAtilde exTpat exA exT exB exBf
    #[0, 3] (1 / 100000000) (1 / 100000000) out (by decide) (by decide) (by decide) ⟨rfl, rfl⟩ ⟨rfl, rfl⟩ rfl h

/-! a level of a smoothed-aggregation hierarchy over the real numbers: two nodes in one aggregate -/

noncomputable def exL : LvlIn ℝ := { nFine := 2, nCol := 1, cp := #[0, 2], ci := #[0, 1], atilde := [], cpts := #[], w := 0 }
noncomputable def exAR : Mat ℝ := #[#[2, -1], #[-1, 2]]
noncomputable def exBR : Mat ℝ := #[#[1], #[1]]

/-- the hypotheses of `levelStep_fit` / `levelStep_smoothed` are satisfiable: with the real square root the
level step returns on this input -/
theorem exLevel_runs : ∃ out, levelStep (fieldOps Real.sqrt (fun _ => true)) id id false (1 / 10 ^ 10)
    (smoNone (α := ℝ)) exL 1 exAR exBR = .ok out := by
  unfold levelStep
  have h1 : exAR.rows = 2 := rfl
  have h2 : exAR.cols = 2 := rfl
  have h3 : exBR.rows = 2 := rfl
  have h4 : exBR.cols = 1 := rfl
  have h5 : validAggB exL.nFine exL.nCol exL.cp exL.ci = true := by decide
  simp only [h1, h2, h3, h4, h5, smoNone]
  exact ⟨_, rfl⟩

#print axioms exFull_runs
#print axioms exFull_property
#print axioms exLevel_runs
end PyamgV.C10d
