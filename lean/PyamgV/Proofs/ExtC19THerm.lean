import PyamgV.Model.ExtC19TCx
import PyamgV.Proofs.ExtC19SArnoldi
import PyamgV.Proofs.ExtC07CRefine
import Mathlib.Algebra.BigOperators.Group.Finset.Basic
import Mathlib.Algebra.BigOperators.Ring.Finset
import Mathlib.Algebra.Module.BigOperators
import Mathlib.Algebra.Star.BigOperators

/-! PyamgV (C19, extension E52): the Arnoldi branch of the model of `_approximate_eigenvalues`
(`Model/ExtC19SArnoldi.lean`) in the **Hermitian setting**: scalars `K` with an involution (`StarRing`), a `K`-module
`V` with a definite Hermitian sesquilinear form `E : HForm K F V` (conjugate-linear in the first slot: the convention of
`np.dot(np.conjugate(v), w)`), vector operations `Ops.ofHerm`.

* `orthH` / `orthH_spec`: modified Gram-Schmidt with conjugated coefficients `<q, v>`;
* `arnStepH_inv` / `aeRunH_inv`: every state of the model carries pairwise `E`-orthogonal vectors of norm one (the one
  appended by the pass that detected a breakdown: norm zero or one) and columns with
  `A v_j = sum_{l <= j+1} H_{l j} v_l` (`ArnInvH`); hypotheses `ExactH`: the form is definite, the square root is exact and
  real on the diagonal of the form, a norm that passes the breakdown test is not zero;
* function level (`ArnFH`): `H_{ij} = <v_i, A v_j>` (`H = V^H A V`), `H_{ij} = conj H_{ji}` for Hermitian `A`,
  `A V y = V (H_m y) + (H_{m,m-1} y_{m-1}) v_m`, for an eigenpair `(theta, y)` of the leading block: the residual
  `A x - theta x = (H_{m,m-1} y_{m-1}) v_m`, the Galerkin condition, `x = V y != 0`, and the Rayleigh identity
  `<x, A x> = theta <x, x>`: **every Ritz value lies in the numerical range of `A`**. -/
set_option linter.unusedSectionVars false
namespace PyamgV.C19T
open PyamgV.C07 PyamgV.CHerm PyamgV.C19S PyamgV.GS PyamgV.C07.CH

variable {K F V : Type} [Field K] [StarRing K] [Field F] [LinearOrder F] [IsStrictOrderedRing F]
  [AddCommGroup V] [Module K V]

/-! ### list-level helpers (no order on the scalars) -/

theorem combH_append_right (c : List K) : ∀ (vs t : List V), c.length ≤ vs.length →
    comb c (vs ++ t) = comb c vs := by
  induction c with
  | nil => intro vs t _; cases vs <;> cases t <;> simp [comb]
  | cons a as ih =>
    intro vs t h
    cases vs with
    | nil => simp at h
    | cons q qs =>
      simp only [List.cons_append, comb]
      rw [ih qs t (by simpa using h)]

theorem combH_snoc (c : List K) : ∀ (vs : List V) (h : K) (v : V), c.length = vs.length →
    comb (c ++ [h]) (vs ++ [v]) = comb c vs + h • v := by
  induction c with
  | nil =>
    intro vs h v hl
    have : vs = [] := List.eq_nil_of_length_eq_zero hl.symm
    subst this; simp [comb]
  | cons a as ih =>
    intro vs h v hl
    cases vs with
    | nil => simp at hl
    | cons q qs =>
      simp only [List.cons_append, comb]
      rw [ih qs h v (by simpa using hl)]; abel

theorem combH_eq_sum : ∀ (c : List K) (vs : List V), c.length ≤ vs.length →
    comb c vs = ∑ i ∈ Finset.range vs.length, c.getD i 0 • vs.getD i 0 := by
  intro c
  induction c with
  | nil =>
    intro vs _
    have : comb ([] : List K) vs = 0 := by cases vs <;> rfl
    rw [this]
    symm
    apply Finset.sum_eq_zero
    intro i _
    simp
  | cons a as ih =>
    intro vs h
    cases vs with
    | nil => simp at h
    | cons q qs =>
      simp only [comb, List.length_cons]
      rw [Finset.sum_range_succ', ih qs (by simpa using h)]
      simp only [List.getD_cons_succ, List.getD_cons_zero]
      rw [add_comm]

/-! ### modified Gram-Schmidt with a Hermitian form -/

/-- the inner loop `for v in V: H[i, j] = <v, w>; w = w - H[i, j] v` -/
def orthH (E : HForm K F V) : List V → V → V × List K
  | [], v => (v, [])
  | q :: qs, v =>
    let d := E.h q v
    let r := orthH E qs (v - d • q)
    (r.1, d :: r.2)

/-- pairwise orthogonal, each of squared norm 0 or 1 -/
def ONZH (E : HForm K F V) : List V → Prop
  | [] => True
  | q :: qs => (E.h q q = 0 ∨ E.h q q = 1) ∧ (∀ p ∈ qs, E.h q p = 0) ∧ ONZH E qs

theorem orthO_eq_orthH (A AH M : V →ₗ[K] V) (E : HForm K F V) (vs : List V) (w : V) :
    orthO (Ops.ofHerm A AH M E) vs w = orthH E vs w := by
  induction vs generalizing w with
  | nil => rfl
  | cons q qs ih =>
    simp only [orthO, orthH]
    rw [← ih]
    rfl

theorem h_comb_zero (E : HForm K F V) (p : V) : ∀ (cs : List K) (l : List V), (∀ x ∈ l, E.h p x = 0) →
    E.h p (comb cs l) = 0 := by
  intro cs l
  induction l generalizing cs with
  | nil => intro _; cases cs <;> simp [comb]
  | cons x xs ihx =>
    intro hx
    cases cs with
    | nil => simp [comb]
    | cons c cs =>
      simp only [comb]
      rw [E.add_right, E.smul_right, hx x (by simp), ihx cs (fun y hy => hx y (by simp [hy]))]; ring

theorem orthH_spec (E : HForm K F V) : ∀ (qs : List V) (v : V), ONZH E qs →
    (∀ q ∈ qs, E.h q q = 0 → q = 0) →
    v = comb (orthH E qs v).2 qs + (orthH E qs v).1 ∧
    (∀ q ∈ qs, E.h q (orthH E qs v).1 = 0) ∧
    (orthH E qs v).2.length = qs.length := by
  intro qs
  induction qs with
  | nil => intro v _ _; simp [orthH, comb]
  | cons q qs ih =>
    intro v h hz
    obtain ⟨hq, hqp, hrest⟩ := h
    have ih' := ih (v - E.h q v • q) hrest (fun p hp => hz p (by simp [hp]))
    obtain ⟨i1, i2, i3⟩ := ih'
    simp only [orthH]
    refine ⟨?_, ?_, by simp [i3]⟩
    · simp only [comb]
      have : v = E.h q v • q + (v - E.h q v • q) := by abel
      conv_lhs => rw [this, i1]
      abel
    · intro p hp
      rcases List.mem_cons.1 hp with rfl | hp
      · have hrem : (orthH E qs (v - E.h p v • p)).1 =
            (v - E.h p v • p) - comb (orthH E qs (v - E.h p v • p)).2 qs := by
          have := i1; rw [eq_sub_iff_add_eq, add_comm]; exact this.symm
        rw [hrem, E.sub_right, E.sub_right, E.smul_right, h_comb_zero E p _ qs hqp]
        rcases hq with h0 | h1
        · have := hz p (by simp) h0; subst this; simp
        · rw [h1]; ring
      · exact i2 p hp

theorem ONZH_append (E : HForm K F V) (qs : List V) (c : V) (h : ONZH E qs)
    (hc : E.h c c = 0 ∨ E.h c c = 1) (hq : ∀ q ∈ qs, E.h c q = 0) : ONZH E (qs ++ [c]) := by
  induction qs with
  | nil => exact ⟨hc, fun p hp => by simp at hp, trivial⟩
  | cons q qs ih =>
    obtain ⟨h1, h2, h3⟩ := h
    refine ⟨h1, ?_, ih h3 (fun p hp => hq p (by simp [hp]))⟩
    intro p hp
    rcases List.mem_append.1 hp with hp | hp
    · exact h2 p hp
    · have : p = c := by simpa using hp
      rw [this]; exact E.orth_symm (hq q (by simp))

theorem onzH_getD (E : HForm K F V) : ∀ (vs : List V), ONZH E vs → ∀ i j, i < j → j < vs.length →
    E.h (vs.getD i 0) (vs.getD j 0) = 0 := by
  intro vs
  induction vs with
  | nil => intro _ i j _ hj; simp at hj
  | cons q qs ih =>
    intro h i j hij hj
    obtain ⟨_, h2, h3⟩ := h
    cases j with
    | zero => omega
    | succ j' =>
      have hj' : j' < qs.length := by simpa using hj
      cases i with
      | zero =>
        simp only [List.getD_cons_zero, List.getD_cons_succ]
        rw [List.getD_eq_getElem _ _ hj']
        exact h2 _ (List.getElem_mem hj')
      | succ i' =>
        simp only [List.getD_cons_succ]
        exact ih h3 i' j' (by omega) hj'

/-! ### one pass of the Arnoldi branch keeps the invariant -/

/-- what the theorems assume about the arithmetic: the form is definite; on the diagonal of the form the square root
is exact and fixed by the involution; a norm that is not below the breakdown tolerance is not zero; the zero test
is sound -/
structure ExactH (E : HForm K F V) (sqrt : K → K) (lt : K → K → Bool) (isz : K → Bool) (tol : K) : Prop where
  definite : ∀ v, E.h v v = 0 → v = 0
  sq : ∀ v, sqrt (E.h v v) * sqrt (E.h v v) = E.h v v
  sq_star : ∀ v, star (sqrt (E.h v v)) = sqrt (E.h v v)
  lt_ne : ∀ v, lt (sqrt (E.h v v)) tol = false → sqrt (E.h v v) ≠ 0
  isz_zero : ∀ z, isz z = true → z = 0

variable (A AH M : V →ₗ[K] V) (E : HForm K F V)
variable (sqrt : K → K) (lt : K → K → Bool) (isz : K → Bool) (tol : K)

/-- whichever vector the model appends (`w / h`, or `w` itself when `h = 0`): `h q = w`, norm 0/1, norm 1 when `h != 0` -/
theorem normaliseH_spec (hx : ExactH E sqrt lt isz tol) (rem q : V)
    (hq : q = mDiv rem (sqrt (E.h rem rem)) ∨ (sqrt (E.h rem rem) = 0 ∧ q = rem)) :
    sqrt (E.h rem rem) • q = rem ∧ (E.h q q = 0 ∨ E.h q q = 1) ∧ (sqrt (E.h rem rem) ≠ 0 → E.h q q = 1) ∧
    (∀ p, E.h p rem = 0 → E.h q p = 0) := by
  have hs := hx.sq rem
  have hst := hx.sq_star rem
  by_cases h0 : sqrt (E.h rem rem) = 0
  · have hrem : rem = 0 := by
      apply hx.definite
      rw [← hs, h0]; ring
    have hq0 : q = 0 := by
      rcases hq with hq | ⟨_, hq⟩
      · rw [hq, mDiv, hrem]; simp
      · rw [hq, hrem]
    subst hrem
    subst hq0
    refine ⟨by simp, Or.inl (by simp), fun hne => absurd h0 hne, fun p _ => by simp⟩
  · have hq' : q = (1 / sqrt (E.h rem rem)) • rem := by
      rcases hq with hq | ⟨hz, _⟩
      · exact hq
      · exact absurd hz h0
    have hstar : star (1 / sqrt (E.h rem rem)) = 1 / sqrt (E.h rem rem) := by
      rw [star_div₀, star_one, hst]
    have h1 : E.h q q = 1 := by
      rw [hq', E.smul_left, E.smul_right, hstar]
      generalize sqrt (E.h rem rem) = t at hs h0
      rw [← hs]; field_simp
    refine ⟨?_, Or.inr h1, fun _ => h1, ?_⟩
    · rw [hq', smul_smul, mul_one_div, div_self h0, one_smul]
    · intro p hp
      rw [hq', E.smul_left, E.orth_symm hp, mul_zero]

/-- Arnoldi invariant in list form -/
structure ArnLH (B : V →ₗ[K] V) (vs : List V) (cols : List (List K)) : Prop where
  onz : ONZH E vs
  len : cols.length + 1 = vs.length
  rel : ∀ j, j < cols.length → B (vs.getD j 0) = comb (cols.getD j []) vs
  clen : ∀ j, j < cols.length → (cols.getD j []).length ≤ vs.length

theorem arnLH_snoc (hdef : ∀ v, E.h v v = 0 → v = 0) (B : V →ₗ[K] V) (vs : List V) (cols : List (List K))
    (vk : V) (hlast : vs.getD cols.length 0 = vk) (h : ArnLH E B vs cols) (q : V) (hh : K)
    (hrem : hh • q = (orthH E vs (B vk)).1) (hq01 : E.h q q = 0 ∨ E.h q q = 1)
    (hqo : ∀ p ∈ vs, E.h q p = 0) :
    ArnLH E B (vs ++ [q]) (cols ++ [(orthH E vs (B vk)).2 ++ [hh]]) := by
  have hz : ∀ p ∈ vs, E.h p p = 0 → p = 0 := fun p _ hp => hdef p hp
  obtain ⟨o1, _, o3⟩ := orthH_spec E vs (B vk) h.onz hz
  refine ⟨ONZH_append E vs _ h.onz hq01 hqo, by simp [h.len], ?_, ?_⟩
  · intro j hj
    rw [List.length_append, List.length_singleton] at hj
    by_cases hjc : j < cols.length
    · have hjv : j < vs.length := by have := h.len; omega
      rw [List.getD_append _ _ _ _ hjv, List.getD_append _ _ _ _ hjc,
        combH_append_right _ _ _ (h.clen j hjc)]
      exact h.rel j hjc
    · have hje : j = cols.length := by omega
      subst hje
      have hjv : cols.length < vs.length := by have := h.len; omega
      rw [List.getD_append _ _ _ _ hjv, hlast, List.getD_append_right _ _ _ _ (Nat.le_refl _)]
      simp only [Nat.sub_self, List.getD_cons_zero]
      rw [combH_snoc _ _ _ _ o3, hrem]
      exact o1
  · intro j hj
    rw [List.length_append, List.length_singleton] at hj
    by_cases hjc : j < cols.length
    · rw [List.getD_append _ _ _ _ hjc, List.length_append]
      have := h.clen j hjc; omega
    · have hje : j = cols.length := by omega
      subst hje
      rw [List.getD_append_right _ _ _ _ (Nat.le_refl _)]
      simp only [Nat.sub_self, List.getD_cons_zero, List.length_append, List.length_singleton]
      omega

/-- the invariant of the Arnoldi branch -/
structure ArnInvH (s : AeSt K V) : Prop where
  arn : ArnLH E A s.vs s.cols
  unit : ∀ i, i < s.cols.length → E.h (s.vs.getD i 0) (s.vs.getD i 0) = 1
  last : s.brk = false → E.h (s.vs.getD s.cols.length 0) (s.vs.getD s.cols.length 0) = 1
  collen : ∀ j, j < s.cols.length → (s.cols.getD j []).length = j + 2

/-- the Arnoldi pass of the model over the module -/
abbrev arnStepH : AeSt K V → AeSt K V := arnStep (Ops.ofHerm A AH M E) mDiv sqrt lt isz tol

theorem arnStepH_inv (hx : ExactH E sqrt lt isz tol) (s : AeSt K V) (h : ArnInvH A E s) :
    ArnInvH A E (arnStepH A AH M E sqrt lt isz tol s) := by
  have hdef := hx.definite
  unfold arnStepH arnStep
  by_cases hb : s.brk = true
  · rw [if_pos hb]; exact h
  · rw [if_neg hb]
    have hbf : s.brk = false := by simpa using hb
    have hlen := h.arn.len
    have hlast : s.vs.getLast? = some (s.vs.getD s.cols.length 0) := by
      rw [List.getLast?_eq_getElem?]
      have : s.vs.length - 1 = s.cols.length := by omega
      rw [this, List.getD_eq_getElem?_getD]
      have hm : s.cols.length < s.vs.length := by omega
      simp [List.getElem?_eq_getElem hm]
    rw [hlast]
    simp only [orthO_eq_orthH]
    set vk := s.vs.getD s.cols.length 0 with hvk
    have hAvk : (Ops.ofHerm A AH M E).A vk = A vk := rfl
    rw [hAvk]
    set o := orthH E s.vs (A vk) with ho
    have hnrm : nrmO (Ops.ofHerm A AH M E) sqrt o.1 = sqrt (E.h o.1 o.1) := rfl
    rw [hnrm]
    set hh := sqrt (E.h o.1 o.1) with hhh
    have hz : ∀ p ∈ s.vs, E.h p p = 0 → p = 0 := fun p _ hp => hdef p hp
    obtain ⟨_, o2, o3⟩ := orthH_spec E s.vs (A vk) h.arn.onz hz
    have key : ∀ (q : V) (b : Bool), (q = mDiv o.1 hh ∨ (hh = 0 ∧ q = o.1)) → (b = false → hh ≠ 0) →
        ArnInvH A E ⟨s.vs ++ [q], s.cols ++ [o.2 ++ [hh]], s.beta, b⟩ := by
      intro q b hq hbq
      obtain ⟨n1, n2, n3, n4⟩ := normaliseH_spec E sqrt lt isz tol hx o.1 q hq
      have hqo : ∀ p ∈ s.vs, E.h q p = 0 := fun p hp => n4 p (o2 p hp)
      refine ⟨arnLH_snoc E hdef A s.vs s.cols vk hvk.symm h.arn q hh n1 n2 hqo, ?_, ?_, ?_⟩
      · intro i hi
        simp only [List.length_append, List.length_singleton] at hi
        have hiv : i < s.vs.length := by omega
        simp only
        rw [List.getD_append _ _ _ _ hiv]
        by_cases hic : i < s.cols.length
        · exact h.unit i hic
        · have : i = s.cols.length := by omega
          subst this
          exact h.last hbf
      · intro hbb
        simp only at hbb
        simp only [List.length_append, List.length_singleton]
        have : s.cols.length + 1 = s.vs.length := hlen
        rw [this, List.getD_append_right _ _ _ _ (Nat.le_refl _)]
        simp only [Nat.sub_self, List.getD_cons_zero]
        exact n3 (hbq hbb)
      · intro j hj
        simp only [List.length_append, List.length_singleton] at hj
        simp only
        by_cases hjc : j < s.cols.length
        · rw [List.getD_append _ _ _ _ hjc]; exact h.collen j hjc
        · have : j = s.cols.length := by omega
          subst this
          rw [List.getD_append_right _ _ _ _ (Nat.le_refl _)]
          simp only [Nat.sub_self, List.getD_cons_zero, List.length_append, List.length_singleton]
          rw [ho, o3]; omega
    by_cases hlt : lt hh tol = true
    · rw [if_pos hlt]
      apply key _ true
      · by_cases hz0 : isz hh = true
        · rw [if_pos hz0]
          right
          exact ⟨hx.isz_zero _ hz0, rfl⟩
        · rw [if_neg hz0]; left; rfl
      · intro hc; cases hc
    · rw [if_neg hlt]
      apply key _ false (Or.inl rfl)
      intro _
      exact hx.lt_ne o.1 (by simpa using hlt)

/-- the model run over the module, Arnoldi branch -/
abbrev arnRunH (v0 : V) (k : Nat) : AeSt K V :=
  aeRun (Ops.ofHerm A AH M E) mDiv sqrt lt isz tol false v0 k

theorem aeInitH_inv (hx : ExactH E sqrt lt isz tol) (v0 : V) (hv0 : v0 ≠ 0) :
    ArnInvH A E (aeInit (Ops.ofHerm A AH M E) mDiv sqrt v0) := by
  have hn : nrmO (Ops.ofHerm A AH M E) sqrt v0 = sqrt (E.h v0 v0) := rfl
  simp only [aeInit, hn]
  have hne : sqrt (E.h v0 v0) ≠ 0 := by
    intro h0
    apply hv0
    apply hx.definite
    rw [← hx.sq v0, h0]; ring
  obtain ⟨_, n2, n3, _⟩ := normaliseH_spec E sqrt lt isz tol hx v0 (mDiv v0 (sqrt (E.h v0 v0))) (Or.inl rfl)
  refine ⟨⟨⟨n2, by simp, trivial⟩, by simp, by simp, by simp⟩, by simp, ?_, by simp⟩
  intro _
  simpa using n3 hne

/-- **every state of the Arnoldi model satisfies the invariant** (any number of passes, through a breakdown) -/
theorem aeRunH_inv (hx : ExactH E sqrt lt isz tol) (v0 : V) (hv0 : v0 ≠ 0) (k : Nat) :
    ArnInvH A E (arnRunH A AH M E sqrt lt isz tol v0 k) := by
  induction k with
  | zero => exact aeInitH_inv A AH M E sqrt lt isz tol hx v0 hv0
  | succ k ih =>
    have : arnRunH A AH M E sqrt lt isz tol v0 (k + 1)
        = arnStepH A AH M E sqrt lt isz tol (arnRunH A AH M E sqrt lt isz tol v0 k) := by
      simp only [arnRunH, aeRun, iter]; rfl
    rw [this]
    exact arnStepH_inv A AH M E sqrt lt isz tol hx _ ih

/-! ### function level: `H = V^H A V`, Ritz pairs -/

/-- Arnoldi relation for `v_0 .. v_m`, `H` with `m` columns -/
structure ArnFH (m : Nat) (v : Nat → V) (H : Nat → Nat → K) : Prop where
  orth : ∀ i j, i ≤ m → j ≤ m → i ≠ j → E.h (v i) (v j) = 0
  unit : ∀ i, i < m → E.h (v i) (v i) = 1
  rel : ∀ j, j < m → A (v j) = ∑ l ∈ Finset.range (m + 1), H l j • v l
  hess : ∀ i j, j + 1 < i → H i j = 0

theorem ArnInvH.toF {s : AeSt K V} (h : ArnInvH A E s) :
    ArnFH A E s.cols.length (basisOf s) (hEntry s.cols) := by
  have hlen := h.arn.len
  refine ⟨?_, h.unit, ?_, ?_⟩
  · intro i j hi hj hij
    rcases Nat.lt_or_gt_of_ne hij with hlt | hgt
    · exact onzH_getD E s.vs h.arn.onz i j hlt (by omega)
    · exact E.orth_symm (onzH_getD E s.vs h.arn.onz j i hgt (by omega))
  · intro j hj
    have := h.arn.rel j hj
    rw [combH_eq_sum _ _ (h.arn.clen j hj), ← hlen] at this
    exact this
  · intro i j hij
    unfold hEntry
    by_cases hj : j < s.cols.length
    · apply List.getD_eq_default
      rw [h.collen j hj]; omega
    · have hc : s.cols.getD j [] = [] := List.getD_eq_default _ _ (by omega)
      rw [hc]; rfl

namespace ArnFH
variable {A E}
variable {m : Nat} {v : Nat → V} {H : Nat → Nat → K} (h : ArnFH A E m v H)
include h

/-- `H = V^H A V`: `H_{ij} = <v_i, A v_j>` for every unit `v_i`, `i <= m`, and every processed column -/
theorem entry' (i j : Nat) (hi : i ≤ m) (hu : E.h (v i) (v i) = 1) (hj : j < m) : E.h (v i) (A (v j)) = H i j := by
  rw [h.rel j hj, E.sum_right]
  simp only [E.smul_right]
  rw [Finset.sum_eq_single i]
  · rw [hu, mul_one]
  · intro l hl hli
    rw [h.orth i l hi (by have := Finset.mem_range.1 hl; omega) (Ne.symm hli), mul_zero]
  · intro hni
    exact absurd (Finset.mem_range.2 (by omega)) hni

theorem entry (i j : Nat) (hi : i < m) (hj : j < m) : E.h (v i) (A (v j)) = H i j :=
  h.entry' i j (le_of_lt hi) (h.unit i hi) hj

/-- for a Hermitian operator the leading block of `H` is Hermitian (so tridiagonal, with `hess`) -/
theorem herm (hA : ∀ x y, E.h (A x) y = E.h x (A y)) (i j : Nat) (hi : i < m) (hj : j < m) :
    H i j = star (H j i) := by
  rw [← h.entry i j hi hj, ← h.entry j i hj hi, ← hA, E.conj_symm]

theorem tridiag (hA : ∀ x y, E.h (A x) y = E.h x (A y)) (i j : Nat) (hi : i < m) (hj : j < m) (hij : i + 1 < j) :
    H i j = 0 := by
  rw [h.herm hA i j hi hj, h.hess j i hij, star_zero]

/-- `<V y, V z> = sum conj(y_j) z_j` -/
theorem inner_rv (y z : Nat → K) : E.h (ArnF.rv m v y) (ArnF.rv m v z) = ∑ j ∈ Finset.range m, star (y j) * z j := by
  simp only [ArnF.rv, E.sum_left, E.sum_right, E.smul_left, E.smul_right]
  refine Finset.sum_congr rfl (fun i hi => ?_)
  have him := Finset.mem_range.1 hi
  rw [Finset.sum_eq_single i]
  · rw [h.unit i him]; ring
  · intro l hl hli
    rw [h.orth i l (by omega) (by have := Finset.mem_range.1 hl; omega) (Ne.symm hli)]; ring
  · intro hni; exact absurd hi hni

/-- `<v_i, V z> = z_i` for `i < m` -/
theorem basis_rv (z : Nat → K) (i : Nat) (hi : i < m) : E.h (v i) (ArnF.rv m v z) = z i := by
  simp only [ArnF.rv, E.sum_right, E.smul_right]
  rw [Finset.sum_eq_single i]
  · rw [h.unit i hi, mul_one]
  · intro l hl hli
    rw [h.orth i l (by omega) (by have := Finset.mem_range.1 hl; omega) (Ne.symm hli), mul_zero]
  · intro hni; exact absurd (Finset.mem_range.2 hi) hni

theorem rv_last (z : Nat → K) : E.h (ArnF.rv m v z) (v m) = 0 := by
  simp only [ArnF.rv, E.sum_left, E.smul_left]
  apply Finset.sum_eq_zero
  intro l hl
  have := Finset.mem_range.1 hl
  rw [h.orth l m (by omega) (le_refl m) (by omega), mul_zero]

/-- `A V y = V (H_m y) + (H_{m,m-1} y_{m-1}) v_m` -/
theorem apply_ritz (hm : 1 ≤ m) (y : Nat → K) :
    A (ArnF.rv m v y) = ArnF.rv m v (fun l => ∑ j ∈ Finset.range m, H l j * y j) + (H m (m - 1) * y (m - 1)) • v m := by
  have h1 : A (ArnF.rv m v y) = ∑ j ∈ Finset.range m, ∑ l ∈ Finset.range (m + 1), (H l j * y j) • v l := by
    simp only [ArnF.rv, map_sum, map_smul]
    refine Finset.sum_congr rfl (fun j hj => ?_)
    rw [h.rel j (Finset.mem_range.1 hj), Finset.smul_sum]
    refine Finset.sum_congr rfl (fun l _ => ?_)
    rw [smul_smul, mul_comm]
  rw [h1, Finset.sum_comm]
  have h2 : ∀ l, ∑ j ∈ Finset.range m, (H l j * y j) • v l = (∑ j ∈ Finset.range m, H l j * y j) • v l := by
    intro l; rw [Finset.sum_smul]
  simp only [h2]
  rw [Finset.sum_range_succ]
  congr 1
  congr 1
  rw [Finset.sum_eq_single (m - 1)]
  · intro j hj hjm
    have := Finset.mem_range.1 hj
    rw [h.hess m j (by omega), zero_mul]
  · intro hni; exact absurd (Finset.mem_range.2 (by omega)) hni

omit h in
theorem isRitz_pos {θ : K} {y : Nat → K} (hr : ArnF.IsRitz m H θ y) : 1 ≤ m := by
  obtain ⟨⟨i, hi, _⟩, _⟩ := hr; omega

omit h in
theorem rvH_smul (c : K) (y : Nat → K) : ArnF.rv m v (fun i => c * y i) = c • ArnF.rv m v y := by
  simp only [ArnF.rv, Finset.smul_sum, smul_smul]

/-- **residual of a Ritz pair**: `A x - theta x = (H_{m,m-1} y_{m-1}) v_m`, `x = V y` (the quantity
`error = H[nvecs, nvecs-1] * evect[-1, max_index]` of `approximate_spectral_radius`) -/
theorem residual {θ : K} {y : Nat → K} (hr : ArnF.IsRitz m H θ y) :
    A (ArnF.rv m v y) - θ • ArnF.rv m v y = (H m (m - 1) * y (m - 1)) • v m := by
  rw [h.apply_ritz (isRitz_pos hr) y]
  have : ArnF.rv m v (fun l => ∑ j ∈ Finset.range m, H l j * y j) = θ • ArnF.rv m v y := by
    rw [← rvH_smul]
    simp only [ArnF.rv]
    refine Finset.sum_congr rfl (fun l hl => ?_)
    rw [hr.2 l (Finset.mem_range.1 hl)]
  rw [this]; abel

/-- the Ritz vector of a Ritz pair is not zero -/
theorem rv_ne {θ : K} {y : Nat → K} (hr : ArnF.IsRitz m H θ y) : ArnF.rv m v y ≠ 0 := by
  obtain ⟨⟨i, hi, hyi⟩, _⟩ := hr
  intro hz
  have := h.basis_rv y i hi
  rw [hz, E.zero_right] at this
  exact hyi this.symm

/-- Galerkin condition: `<V z, A x> = theta <z, y>` -/
theorem galerkin {θ : K} {y : Nat → K} (hr : ArnF.IsRitz m H θ y) (z : Nat → K) :
    E.h (ArnF.rv m v z) (A (ArnF.rv m v y)) = θ * ∑ j ∈ Finset.range m, star (z j) * y j := by
  have hres := h.residual hr
  have : A (ArnF.rv m v y) = θ • ArnF.rv m v y + (H m (m - 1) * y (m - 1)) • v m := by
    rw [← hres]; abel
  rw [this, E.add_right, E.smul_right, E.smul_right, h.inner_rv, h.rv_last, mul_zero, add_zero]

/-- **the Rayleigh quotient of the Ritz vector is the Ritz value**: `<x, A x> = theta <x, x>`, `x != 0` -- every Ritz
value lies in the numerical range of `A` -/
theorem rayleigh {θ : K} {y : Nat → K} (hr : ArnF.IsRitz m H θ y) :
    E.h (ArnF.rv m v y) (A (ArnF.rv m v y)) = θ * E.h (ArnF.rv m v y) (ArnF.rv m v y) := by
  rw [h.galerkin hr y, h.inner_rv]

/-- **breakdown = invariant subspace**: when `H_{m,m-1} = 0` every Ritz pair is an eigenpair of `A` -/
theorem eigen_of_breakdown {θ : K} {y : Nat → K} (hr : ArnF.IsRitz m H θ y) (h0 : H m (m - 1) = 0) :
    A (ArnF.rv m v y) = θ • ArnF.rv m v y ∧ ArnF.rv m v y ≠ 0 := by
  have hres := h.residual hr
  rw [h0, zero_mul, zero_smul, sub_eq_zero] at hres
  exact ⟨hres, h.rv_ne hr⟩

end ArnFH

#print axioms aeRunH_inv
#print axioms ArnFH.rayleigh
#print axioms ArnFH.herm
end PyamgV.C19T
