import PyamgV.Proofs.ExtC19SArnoldi
import PyamgV.Proofs.C07Vec
import Mathlib.LinearAlgebra.Finsupp.LinearCombination

/-! PyamgV (C19, extension E39): the statements about the executable Arnoldi model of `_approximate_eigenvalues`
(`arnStep` / `aeRun` of `Model/ExtC19SArnoldi.lean`, general branch -- the one `approximate_spectral_radius`
always takes) over a module with a definite symmetric form and an exact square root, for every operator `A`, every
start vector `v0 != 0`, every breakdown tolerance `tol > 0` and every number of passes `k`:

* `arnoldi_model_orthonormal`, `arnoldi_model_H_eq` -- the basis is orthonormal, `H = V^T A V`;
* `arnoldi_model_ritz_hyps` -- the two hypotheses `horth`, `heig` of `PyamgV.ritz_le_rho` hold for
  `Q = (y |-> sum y_i v_i)` and every eigenpair of the leading block of `H`; `arnoldi_model_ritz_le_rho` is
  `ritz_le_rho` applied to them: `|theta| <= rho`;
* `arnoldi_model_ritz_between` -- `lambda_min <= theta <= lambda_max` (Rayleigh bounds);
* `arnoldi_model_H_symm` -- for symmetric `A` the leading block of `H` is symmetric and tridiagonal;
* `arnoldi_model_residual`, `arnoldi_model_breakdown_eigen` -- the residual of a Ritz pair is
  `(H_{m,m-1} y_{m-1}) v_m`; after an exact breakdown Ritz pairs are eigenpairs of `A`.

Nothing here needs `A` symmetric except `arnoldi_model_H_symm`: for a general `A` the theorems say that real Ritz
values lie in the *numerical range* `{<Ax, x> / <x, x>}`, whose radius can exceed the spectral radius
(`nonsymmetric_overshoot`: a nilpotent `2 x 2` matrix, `rho = 0`, whose one-step estimate is `12/25`). -/
namespace PyamgV.C19S
open PyamgV.C07 PyamgV.GS ArnF
set_option linter.unusedSectionVars false

variable {K : Type} [Field K] [LinearOrder K] [IsStrictOrderedRing K]
variable {V : Type} [AddCommGroup V] [Module K V]
variable (A AH M : V →ₗ[K] V) (e : EForm K V) (sqrt : K → K) (tol : K)

/-- the standing assumptions: definite form, exact square root, positive breakdown tolerance, start vector not zero -/
structure Exact (v0 : V) : Prop where
  hdef : ∀ v, e.a v v = 0 → v = 0
  hsq : ∀ a, 0 ≤ a → sqrt a * sqrt a = a
  htol : 0 < tol
  hv0 : v0 ≠ 0

variable {e sqrt tol}

theorem arnoldi_model_F {v0 : V} (hx : Exact e sqrt tol v0) (k : Nat) :
    ArnF A e (arnRunM A AH M e sqrt tol v0 k).cols.length (basisOf (arnRunM A AH M e sqrt tol v0 k))
      (hEntry (arnRunM A AH M e sqrt tol v0 k).cols) :=
  (aeRun_inv A AH M e sqrt tol hx.hdef hx.hsq hx.htol v0 hx.hv0 k).toF

/-- **orthonormal basis**: `<v_i, v_j> = 0` for `i != j <= m`, `<v_i, v_i> = 1` for `i < m`, and for `i = m` unless the
last pass detected a breakdown (then the norm is 0 or 1) -/
theorem arnoldi_model_orthonormal {v0 : V} (hx : Exact e sqrt tol v0) (k : Nat) :
    let s := arnRunM A AH M e sqrt tol v0 k
    (∀ i j, i ≤ s.cols.length → j ≤ s.cols.length → i ≠ j → e.a (basisOf s i) (basisOf s j) = 0) ∧
    (∀ i, i < s.cols.length → e.a (basisOf s i) (basisOf s i) = 1) ∧
    (s.brk = false → e.a (basisOf s s.cols.length) (basisOf s s.cols.length) = 1) ∧
    s.vs.length = s.cols.length + 1 := by
  intro s
  have hI := aeRun_inv A AH M e sqrt tol hx.hdef hx.hsq hx.htol v0 hx.hv0 k
  exact ⟨hI.toF.orth, hI.toF.unit, hI.last, hI.arn.len.symm⟩

/-- without a breakdown every pass adds a column: after `k` passes there are `k` columns and `k + 1` vectors -/
theorem arnStep_cols_length (s : AeSt K V) (hb : (arnStepM A AH M e sqrt tol s).brk = false) (hne : s.vs ≠ []) :
    (arnStepM A AH M e sqrt tol s).cols.length = s.cols.length + 1 ∧ s.brk = false := by
  unfold arnStepM arnStep at hb ⊢
  by_cases h1 : s.brk = true
  · rw [if_pos h1] at hb; rw [hb] at h1; cases h1
  · rw [if_neg h1] at hb ⊢
    obtain ⟨vk, hvk⟩ : ∃ vk, s.vs.getLast? = some vk := by
      cases hs : s.vs.getLast? with
      | none => rw [List.getLast?_eq_none_iff] at hs; exact absurd hs hne
      | some x => exact ⟨x, rfl⟩
    rw [hvk] at hb ⊢
    simp only at hb ⊢
    split at hb
    · simp at hb
    · rename_i hlt
      rw [if_neg hlt]
      simp [h1]

/-- as long as no breakdown has been detected, `k` passes give `k` columns (and `k + 1` orthonormal vectors) -/
theorem arnoldi_model_length {v0 : V} (hx : Exact e sqrt tol v0) (k : Nat)
    (hb : (arnRunM A AH M e sqrt tol v0 k).brk = false) : (arnRunM A AH M e sqrt tol v0 k).cols.length = k := by
  induction k with
  | zero => simp [arnRunM, aeRun, iter, aeInit]
  | succ k ih =>
    have hstep : arnRunM A AH M e sqrt tol v0 (k + 1) = arnStepM A AH M e sqrt tol (arnRunM A AH M e sqrt tol v0 k) := by
      simp only [arnRunM, aeRun, iter]; rfl
    rw [hstep] at hb ⊢
    have hI := aeRun_inv A AH M e sqrt tol hx.hdef hx.hsq hx.htol v0 hx.hv0 k
    have hne : (arnRunM A AH M e sqrt tol v0 k).vs ≠ [] := by
      intro h0
      have := hI.arn.len
      rw [h0] at this
      simp at this
    obtain ⟨h1, h2⟩ := arnStep_cols_length A AH M _ hb hne
    rw [h1, ih h2]

/-- `_approximate_eigenvalues` is `min(n, maxiter)` passes of the loop body (and fails for `min(n, maxiter) = 0`) -/
theorem approxEig_eq_run {K V : Type} [Add K] [Sub K] [Mul K] [Div K] [OfNat K 0] [OfNat K 1]
    (o : Ops K V) (vdiv : V → K → V) (sqrt : K → K) (lt : K → K → Bool) (isz : K → Bool) (tol : K)
    (symmetric : Bool) (n maxiter : Nat) (v0 : V) :
    approxEig o vdiv sqrt lt isz tol symmetric n maxiter v0 =
      if min n maxiter = 0 then none else some (aeRun o vdiv sqrt lt isz tol symmetric v0 (min n maxiter)) := rfl

/-- **`H = V^T A V`** on the leading block -/
theorem arnoldi_model_H_eq {v0 : V} (hx : Exact e sqrt tol v0) (k : Nat) (i j : Nat)
    (hi : i < (arnRunM A AH M e sqrt tol v0 k).cols.length) (hj : j < (arnRunM A AH M e sqrt tol v0 k).cols.length) :
    e.a (basisOf (arnRunM A AH M e sqrt tol v0 k) i) (A (basisOf (arnRunM A AH M e sqrt tol v0 k) j)) =
      hEntry (arnRunM A AH M e sqrt tol v0 k).cols i j :=
  (arnoldi_model_F A AH M hx k).entry i j hi hj

/-- `H` is upper Hessenberg, and the Arnoldi relation `A v_j = sum_{l <= m} H_{lj} v_l` holds for every column -/
theorem arnoldi_model_relation {v0 : V} (hx : Exact e sqrt tol v0) (k : Nat) :
    let s := arnRunM A AH M e sqrt tol v0 k
    (∀ i j, j + 1 < i → hEntry s.cols i j = 0) ∧
    ∀ j, j < s.cols.length → A (basisOf s j) = ∑ l ∈ Finset.range (s.cols.length + 1), hEntry s.cols l j • basisOf s l :=
  ⟨(arnoldi_model_F A AH M hx k).hess, (arnoldi_model_F A AH M hx k).rel⟩

/-- symmetric `A`: the leading block of `H` is symmetric, hence tridiagonal -/
theorem arnoldi_model_H_symm {v0 : V} (hx : Exact e sqrt tol v0) (hA : ∀ x y, e.a (A x) y = e.a x (A y)) (k : Nat) :
    let s := arnRunM A AH M e sqrt tol v0 k
    (∀ i j, i < s.cols.length → j < s.cols.length → hEntry s.cols i j = hEntry s.cols j i) ∧
    (∀ i j, i < s.cols.length → j < s.cols.length → i + 1 < j → hEntry s.cols i j = 0) :=
  ⟨(arnoldi_model_F A AH M hx k).symm hA, (arnoldi_model_F A AH M hx k).tridiag hA⟩

/-- **Ritz values are bounded by the Rayleigh bound**: the returned estimate `max |theta|` over the eigenvalues of the
leading block never exceeds `rho` -/
theorem arnoldi_model_ritz_abs_le {v0 : V} (hx : Exact e sqrt tol v0) (k : Nat) (ρ : K)
    (hray : ∀ x, |e.a (A x) x| ≤ ρ * e.a x x) (θ : K) (y : Nat → K)
    (hr : IsRitz (arnRunM A AH M e sqrt tol v0 k).cols.length (hEntry (arnRunM A AH M e sqrt tol v0 k).cols) θ y) :
    |θ| ≤ ρ :=
  (arnoldi_model_F A AH M hx k).ritz_abs_le hr ρ hray

/-- **Ritz values lie in `[lambda_min, lambda_max]`** (any pair of Rayleigh bounds) -/
theorem arnoldi_model_ritz_between {v0 : V} (hx : Exact e sqrt tol v0) (k : Nat) (lo hi : K)
    (hlo : ∀ x, lo * e.a x x ≤ e.a (A x) x) (hhi : ∀ x, e.a (A x) x ≤ hi * e.a x x) (θ : K) (y : Nat → K)
    (hr : IsRitz (arnRunM A AH M e sqrt tol v0 k).cols.length (hEntry (arnRunM A AH M e sqrt tol v0 k).cols) θ y) :
    lo ≤ θ ∧ θ ≤ hi :=
  (arnoldi_model_F A AH M hx k).ritz_between hr lo hi hlo hhi

/-- residual of a Ritz pair (the `error` of `approximate_spectral_radius`) -/
theorem arnoldi_model_residual {v0 : V} (hx : Exact e sqrt tol v0) (k : Nat) (θ : K) (y : Nat → K)
    (hr : IsRitz (arnRunM A AH M e sqrt tol v0 k).cols.length (hEntry (arnRunM A AH M e sqrt tol v0 k).cols) θ y) :
    let s := arnRunM A AH M e sqrt tol v0 k
    let x := rv s.cols.length (basisOf s) y
    A x - θ • x = (hEntry s.cols s.cols.length (s.cols.length - 1) * y (s.cols.length - 1)) • basisOf s s.cols.length ∧
    0 < e.a x x :=
  ⟨(arnoldi_model_F A AH M hx k).residual hr, (arnoldi_model_F A AH M hx k).rv_pos hr⟩

/-- **breakdown = invariant subspace**: if the last subdiagonal entry is exactly zero, every Ritz pair is an
eigenpair of `A` (so for symmetric `A` the Ritz values are eigenvalues of `A`) -/
theorem arnoldi_model_breakdown_eigen {v0 : V} (hx : Exact e sqrt tol v0) (k : Nat) (θ : K) (y : Nat → K)
    (hr : IsRitz (arnRunM A AH M e sqrt tol v0 k).cols.length (hEntry (arnRunM A AH M e sqrt tol v0 k).cols) θ y)
    (h0 : hEntry (arnRunM A AH M e sqrt tol v0 k).cols (arnRunM A AH M e sqrt tol v0 k).cols.length
      ((arnRunM A AH M e sqrt tol v0 k).cols.length - 1) = 0) :
    let s := arnRunM A AH M e sqrt tol v0 k
    A (rv s.cols.length (basisOf s) y) = θ • rv s.cols.length (basisOf s) y ∧ rv s.cols.length (basisOf s) y ≠ 0 :=
  (arnoldi_model_F A AH M hx k).eigen_of_breakdown hr h0

/-! ### the hypotheses of `PyamgV.ritz_le_rho`, literally -/

/-- a vector of `K^m` as a function on `Nat` -/
def extFin {m : Nat} (y : Fin m → K) : Nat → K := fun i => if h : i < m then y ⟨i, h⟩ else 0

/-- `Q = (y |-> sum_i y_i v_i)` as a linear map on `K^m` -/
noncomputable def basisMap (m : Nat) (v : Nat → V) : (Fin m → K) →ₗ[K] V :=
  Fintype.linearCombination K (fun i : Fin m => v i)

theorem basisMap_eq_rv (m : Nat) (v : Nat → V) (y : Fin m → K) : basisMap m v y = rv m v (extFin y) := by
  simp only [basisMap, Fintype.linearCombination_apply, rv]
  rw [Finset.sum_range]
  refine Finset.sum_congr rfl (fun i _ => ?_)
  simp [extFin]

theorem sum_extFin {m : Nat} (y z : Fin m → K) :
    ∑ j ∈ Finset.range m, extFin y j * extFin z j = ∑ i, y i * z i := by
  rw [Finset.sum_range]
  refine Finset.sum_congr rfl (fun i _ => ?_)
  simp [extFin]

theorem isRitz_extFin {m : Nat} {H : Nat → Nat → K} {θ : K} (y : Fin m → K) (hy : y ≠ 0)
    (heig : ∀ i : Fin m, ∑ j : Fin m, H i j * y j = θ * y i) : IsRitz m H θ (extFin y) := by
  constructor
  · by_contra hc
    apply hy
    funext i
    by_contra hi
    exact hc ⟨i, i.2, by simpa [extFin] using hi⟩
  · intro i hi
    rw [Finset.sum_range]
    have := heig ⟨i, hi⟩
    simp only [extFin, Fin.is_lt, dif_pos, Fin.eta, hi]
    exact this

/-- **the hypotheses of `ritz_le_rho` hold for the model**: with `Q y = sum_i y_i v_i` on `K^m` (`m` = number of
columns) and the Euclidean form on `K^m`, `Q` is an isometry, and every eigenpair `(theta, y)` of the leading block
of `H` satisfies the Galerkin condition `<A Q y, Q z> = theta <y, z>` -/
theorem arnoldi_model_ritz_hyps {v0 : V} (hx : Exact e sqrt tol v0) (k : Nat) :
    let s := arnRunM A AH M e sqrt tol v0 k
    let Q := basisMap s.cols.length (basisOf s)
    (∀ y z, e.a (Q y) (Q z) = (dotForm K s.cols.length).a y z) ∧
    ∀ (θ : K) (y : Fin s.cols.length → K), y ≠ 0 →
      (∀ i : Fin s.cols.length, ∑ j : Fin s.cols.length, hEntry s.cols i j * y j = θ * y i) →
      0 < (dotForm K s.cols.length).a y y ∧ ∀ z, e.a (A (Q y)) (Q z) = θ * (dotForm K s.cols.length).a y z := by
  intro s Q
  have hF := arnoldi_model_F A AH M hx k
  refine ⟨fun y z => ?_, fun θ y hy heig => ?_⟩
  · simp only [Q, basisMap_eq_rv, dotForm_a]
    rw [hF.inner_rv, sum_extFin]
  · have hr := isRitz_extFin y hy heig
    refine ⟨?_, fun z => ?_⟩
    · have := hF.rv_pos hr
      rw [hF.inner_rv, sum_extFin] at this
      simpa [dotForm_a] using this
    · simp only [Q, basisMap_eq_rv, dotForm_a]
      rw [hF.galerkin hr, sum_extFin]

/-- **`ritz_le_rho` applied to the model**: every eigenvalue of the leading block of `H` is bounded by `rho` -/
theorem arnoldi_model_ritz_le_rho {v0 : V} (hx : Exact e sqrt tol v0) (k : Nat) (ρ : K)
    (hray : ∀ x, |e.a (A x) x| ≤ ρ * e.a x x) (θ : K)
    (y : Fin (arnRunM A AH M e sqrt tol v0 k).cols.length → K) (hy : y ≠ 0)
    (heig : ∀ i : Fin (arnRunM A AH M e sqrt tol v0 k).cols.length,
      ∑ j : Fin (arnRunM A AH M e sqrt tol v0 k).cols.length,
        hEntry (arnRunM A AH M e sqrt tol v0 k).cols i j * y j = θ * y i) : |θ| ≤ ρ := by
  obtain ⟨horth, hrest⟩ := arnoldi_model_ritz_hyps A AH M hx k
  obtain ⟨hpos, hgal⟩ := hrest θ y hy heig
  exact PyamgV.ritz_le_rho e (dotForm K _) A _ ρ θ hray horth y hpos hgal

#print axioms arnoldi_model_orthonormal
#print axioms arnoldi_model_ritz_le_rho
#print axioms arnoldi_model_breakdown_eigen
end PyamgV.C19S
