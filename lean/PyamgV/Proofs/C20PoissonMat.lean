import PyamgV.Proofs.C20Entry

/-! PyamgV (C20): the Poisson matrices at the level of matrix entries (multiplicities included):
off-diagonal entries are non-positive, the diagonal entry is the centre value, the matrix is symmetric. -/
namespace PyamgV.C20
open PyamgV.Stencil

theorem sum_map_nonpos {α : Type} (l : List α) (f : α → Rat) (h : ∀ e ∈ l, f e ≤ 0) : (l.map f).sum ≤ 0 := by
  induction l with
  | nil => simp
  | cons a l ih =>
    simp only [List.map_cons, List.sum_cons]
    have := h a (by simp)
    have := ih (fun e he => h e (by simp [he]))
    linarith

/-- **Z-matrix**: off-diagonal entries of the Poisson matrices are non-positive -/
theorem poisson_offdiag_nonpos (grid : List Nat) (fe : Bool) (p q : Nat) (hpq : p ≠ q) :
    entry (stencilGrid grid (poissonStencil fe grid.length)) p q ≤ 0 := by
  unfold entry
  apply sum_map_nonpos
  intro t ht
  split
  · rename_i h
    have ht' : (p, q, t.2.2) ∈ stencilGrid grid (poissonStencil fe grid.length) := by
      rcases t with ⟨a, b, c⟩
      simp only at h
      rw [← h.1, ← h.2]; exact ht
    rw [(poisson_entries grid fe p q t.2.2 ht').2.2.2 hpq]
    norm_num
  · exact le_refl _

/-- sum over the cube of a function that vanishes off the zero vector -/
theorem cube_sum_zero (n : Nat) (g : List Int → Rat) (hg : ∀ o, (∃ x ∈ o, x ≠ 0) → g o = 0) :
    ((cube n).map g).sum = g (List.replicate n 0) := by
  induction n generalizing g with
  | zero => simp [cube]
  | succ n ih =>
    simp only [cube, List.flatMap_cons, List.flatMap_nil, List.append_nil, List.map_append, List.map_map,
      List.sum_append, Function.comp_def]
    have h1 : ((cube n).map fun t => g (-1 :: t)).sum = 0 :=
      sum_map_eq_zero _ _ (fun t _ => hg _ ⟨-1, by simp, by decide⟩)
    have h2 : ((cube n).map fun t => g (1 :: t)).sum = 0 :=
      sum_map_eq_zero _ _ (fun t _ => hg _ ⟨1, by simp, by decide⟩)
    have h3 := ih (fun t => g (0 :: t)) (fun o ⟨x, hx, hne⟩ => hg _ ⟨x, by simp [hx], hne⟩)
    rw [h1, h2, h3, List.replicate_succ]; ring

open Classical in
/-- **positive diagonal**: the diagonal entry is `2N` resp. `3^N - 1` -/
theorem poisson_diag (grid : List Nat) (fe : Bool) (p : Nat) (hp : p < prod grid) :
    entry (stencilGrid grid (poissonStencil fe grid.length)) p p = centre fe grid.length := by
  have hlen : ∀ ov ∈ poissonStencil fe grid.length, ov.1.length = grid.length :=
    fun ov hov => (poissonStencil_cases fe _ ov hov).1
  rw [stencilGrid_entry grid _ hlen]
  have hrefl : ∀ off : List Int, off.length = grid.length → (∀ o ∈ off, o = 0) →
      Shift grid off (coordsR grid p) (coordsR grid p) :=
    fun off hl hz => shift_refl_zero grid off _ (lin_coordsR grid p hp).1 hl hz
  cases fe
  · -- FD
    show ((poissonFD grid.length).map _).sum = _
    unfold poissonFD
    simp only [List.map_cons, List.sum_cons]
    rw [if_pos ⟨hp, hp, hrefl _ (by simp) (fun o ho => (List.mem_replicate.1 ho).2)⟩, sum_flatMap']
    rw [sum_map_eq_zero]
    · simp [centre]
    · intro i hi
      have hi' := List.mem_range.1 hi
      simp only [List.map_cons, List.map_nil, List.sum_cons, List.sum_nil]
      rw [if_neg, if_neg]
      · simp
      · rintro ⟨_, _, hs⟩
        have := shift_self grid _ _ hs 1 (by simp only [unitVec, List.mem_map, List.mem_range]; exact ⟨i, hi', by simp⟩)
        exact absurd this (by decide)
      · rintro ⟨_, _, hs⟩
        have := shift_self grid _ _ hs (-1) (by simp only [unitVec, List.mem_map, List.mem_range]; exact ⟨i, hi', by simp⟩)
        exact absurd this (by decide)
  · -- FE
    show ((poissonFE grid.length).map _).sum = _
    unfold poissonFE
    rw [List.map_map]
    rw [cube_sum_zero grid.length]
    · simp only [Function.comp]
      rw [if_pos ⟨hp, hp, hrefl _ (by simp) (fun o ho => (List.mem_replicate.1 ho).2)⟩]
      simp [centre]
    · intro o ⟨x, hx, hne⟩
      simp only [Function.comp]
      rw [if_neg]
      rintro ⟨_, _, hs⟩
      exact hne (shift_self grid _ _ hs x hx)

theorem cube_sum_neg (n : Nat) (g : List Int → Rat) :
    ((cube n).map fun o => g (negv o)).sum = ((cube n).map g).sum := by
  induction n generalizing g with
  | zero => simp [cube, negv]
  | succ n ih =>
    simp only [cube, List.flatMap_cons, List.flatMap_nil, List.append_nil, List.map_append, List.map_map,
      List.sum_append, Function.comp_def]
    have e : ∀ (h : Int) (t : List Int), negv (h :: t) = (-h) :: negv t := fun h t => by simp [negv]
    simp only [e]
    rw [ih (fun t => g (- -1 :: t)), ih (fun t => g (-0 :: t)), ih (fun t => g (-1 :: t))]
    simp only [neg_neg, neg_zero]
    ring

open Classical in
/-- **the Poisson matrices are symmetric as matrices** (multiplicities included) -/
theorem poisson_entry_symm (grid : List Nat) (fe : Bool) (p q : Nat) :
    entry (stencilGrid grid (poissonStencil fe grid.length)) p q =
      entry (stencilGrid grid (poissonStencil fe grid.length)) q p := by
  have hlen : ∀ ov ∈ poissonStencil fe grid.length, ov.1.length = grid.length :=
    fun ov hov => (poissonStencil_cases fe _ ov hov).1
  rw [stencilGrid_entry grid _ hlen, stencilGrid_entry grid _ hlen]
  -- rewrite the right-hand side with the negated offsets
  have hr : ∀ ov : List Int × Rat,
      (if p < prod grid ∧ q < prod grid ∧ Shift grid ov.1 (coordsR grid q) (coordsR grid p) then ov.2 else 0) =
      (if q < prod grid ∧ p < prod grid ∧ Shift grid (negv ov.1) (coordsR grid p) (coordsR grid q) then ov.2 else (0 : Rat)) := by
    intro ov
    have := shift_neg grid ov.1 (coordsR grid q) (coordsR grid p)
    by_cases h : p < prod grid ∧ q < prod grid ∧ Shift grid ov.1 (coordsR grid q) (coordsR grid p)
    · rw [if_pos h, if_pos ⟨h.2.1, h.1, this.1 h.2.2⟩]
    · rw [if_neg h, if_neg (fun h' => h ⟨h'.2.1, h'.1, this.2 h'.2.2⟩)]
  simp only [hr]
  cases fe
  · show ((poissonFD grid.length).map _).sum = ((poissonFD grid.length).map _).sum
    unfold poissonFD
    simp only [List.map_cons, List.sum_cons]
    rw [replicate_neg, sum_flatMap', sum_flatMap']
    congr 1
    congr 1
    apply List.map_congr_left
    intro i _
    simp only [List.map_cons, List.map_nil, List.sum_cons, List.sum_nil, unitVec_neg]
    simp only [neg_neg]
    ring
  · show ((poissonFE grid.length).map _).sum = ((poissonFE grid.length).map _).sum
    unfold poissonFE
    rw [List.map_map, List.map_map]
    simp only [Function.comp_def]
    have := cube_sum_neg grid.length (fun o =>
      if q < prod grid ∧ p < prod grid ∧ Shift grid o (coordsR grid p) (coordsR grid q) then
        (if (o.all fun x => decide (x = 0)) = true then ((3 ^ grid.length - 1 : Nat) : Rat) else -1) else 0)
    simp only [all_zero_neg] at this
    rw [← this]

end PyamgV.C20
