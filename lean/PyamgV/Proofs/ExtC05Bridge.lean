import PyamgV.Proofs.ExtC05RefineSym
import PyamgV.Proofs.ExtC05BridgeCheck

/-! PyamgV (C05, extension E23): **the bridge from Boolean checks on the concrete CSR data to the
operator-level hypotheses of `flag_denseM_symmetric`.**

The checkers of `Proofs/ExtC05BridgeCheck.lean` (evaluated by the driver, op `ext_c05_symh`) are sound:

* `shaped_of_B` : `shapedB = true → Shaped`;
* `lvlOK_of_B` : `lvlOkB = true → LvlOK` (distinct C-points, one stored non-zero diagonal entry per row);
* `installed_of_B` : `installedB = true → Installed`;
* `csrOp_dense` : with in-range column indices the CSR operator of the proofs is the dense copy
  `denseOfCsr` of the model (duplicates summed), for every vector;
* `isAdj_of_dense` : `denseOfCsr Q = (denseOfCsr P)ᵀ` and in-range indices ⇒ `csrOp Q` is the adjoint of `csrOp P`;
* `symH_of_check` : `hermitianHierarchy id` (the model's Boolean) and `inRangeH` ⇒ `SymH`;
* `flag_denseM_symmetric_checked` : **flag `True` and `c05Check = true` ⇒ `denseM` is symmetric** -- no
  hypothesis that is not a Boolean evaluated on the concrete data. -/
namespace PyamgV.C05
open PyamgV Finset

set_option linter.unusedSectionVars false
variable {R : Type} [Field R] [LinearOrder R] [IsStrictOrderedRing R] [DecidableEq R]

/-! ### shapes, C-points, diagonals, installed smoothers -/

theorem shaped_of_B (nc : Nat) : ∀ (Ls : List (Lvl R)) (n : Nat), shapedB nc n Ls = true → Shaped nc n Ls := by
  intro Ls
  induction Ls with
  | nil =>
    intro n h
    have h' : decide (n = nc) = true := h
    have h'' : n = nc := of_decide_eq_true h'
    exact h''
  | cons L rest ih =>
    intro n h
    simp only [shapedB, Bool.and_eq_true, decide_eq_true_eq, List.all_eq_true] at h
    obtain ⟨⟨⟨h1, h2⟩, h3⟩, h4⟩ := h
    exact ⟨h1, h2, h3, ih L.R.n h4⟩

theorem topSize_eq_topN (Ac : K.Csr R) (Ls : List (Lvl R)) : topSize Ac Ls = topN Ac Ls := by
  cases Ls <;> rfl

theorem nodup_of_B : ∀ (l : List Nat), nodupB l = true → l.Nodup := by
  intro l
  induction l with
  | nil => intro _; exact List.nodup_nil
  | cons a l ih =>
    intro h
    simp only [nodupB, Bool.and_eq_true, Bool.not_eq_true', List.contains_eq_mem,
      decide_eq_false_iff_not] at h
    exact List.nodup_cons.2 ⟨h.1, ih h.2⟩

theorem diagOk_spec (A : K.Csr R) (h : diagOk A = true) (i : Nat) (hi : i < A.n) :
    HasDiag i (rowOf A i) (diagFn A i) ∧ diagFn A i ≠ 0 := by
  unfold diagOk at h
  rw [List.all_eq_true] at h
  have hi' := h i (List.mem_range.2 hi)
  have hf : (rowOf A i).filter (fun cv => cv.1 = i) =
      ((A.jjs i).filter (fun jj => decide (K.rdN A.aj jj = i))).map
        (fun jj => (K.rdN A.aj jj, K.rd A.ax jj)) := by
    unfold rowOf
    rw [List.filter_map]
    rfl
  cases hl : (A.jjs i).filter (fun jj => decide (K.rdN A.aj jj = i)) with
  | nil => rw [hl] at hi'; exact absurd hi' (by simp)
  | cons jj t =>
    cases t with
    | nil =>
      rw [hl] at hi'
      have hne : K.rd A.ax jj ≠ 0 := of_decide_eq_true hi'
      have hd : HasDiag i (rowOf A i) (K.rd A.ax jj) := by
        unfold HasDiag
        rw [hf, hl]
        rfl
      rw [hasDiag_diagFn A i _ hd]
      exact ⟨hd, hne⟩
    | cons _ _ => rw [hl] at hi'; exact absurd hi' (by simp)

theorem lvlOK_of_B (L : Lvl R) (h : lvlOkB L = true) : LvlOK L := by
  unfold lvlOkB at h
  rw [Bool.and_eq_true] at h
  exact ⟨nodup_of_B L.C h.1, fun i hi => diagOk_spec L.A h.2 i hi⟩

theorem installed_of_B (pre post : List Cfg) : ∀ (Ls : List (Lvl R)) (i : Nat),
    installedB pre post i Ls = true → Installed pre post i Ls := by
  intro Ls
  induction Ls with
  | nil => intro _ _; trivial
  | cons L rest ih =>
    intro i h
    simp only [installedB, Bool.and_eq_true, decide_eq_true_eq] at h
    exact ⟨h.1.1, h.1.2, ih (i+1) h.2⟩

/-! ### in-range column indices: the CSR operator is the dense copy -/

theorem colsOk_spec (A : K.Csr R) (cols : Nat) (h : colsOk A cols = true) (i : Nat) (hi : i < A.n) :
    ∀ cv ∈ rowOf A i, cv.1 < cols := by
  intro cv hcv
  unfold rowOf at hcv
  obtain ⟨jj, hjj, rfl⟩ := List.mem_map.1 hcv
  unfold colsOk at h
  rw [List.all_eq_true] at h
  have h2 := h i (List.mem_range.2 hi)
  rw [List.all_eq_true] at h2
  exact of_decide_eq_true (h2 jj hjj)

theorem rowDot_congr (row : Row R) (x y : Nat → R) (h : ∀ cv ∈ row, x cv.1 = y cv.1) :
    rowDot row x = rowDot row y := by
  unfold rowDot
  congr 1
  apply List.map_congr_left
  intro cv hcv
  rw [h cv hcv]

/-- `u` cut off after the first `m` coordinates -/
def trunc (m : Nat) (u : Nat → R) : Nat → R := fun k => if k < m then u k else 0

/-- **with in-range column indices the CSR operator of the proofs is the dense copy of the model**, for
every vector (cf. `denseOfCsr_dot`, which needs a vector supported on the first `cols` coordinates) -/
theorem csrOp_dense (M : K.Csr R) (cols : Nat) (hc : colsOk M cols = true) (x : Nat → R) (i : Nat)
    (hi : i < M.n) :
    csrOp M.n (rowOf M) x i = ∑ j ∈ range cols, mget (denseOfCsr M cols) i j * x j := by
  have h1 : csrOp M.n (rowOf M) x i = csrOp M.n (rowOf M) (trunc cols x) i := by
    rw [csrOp_apply _ _ _ _ hi, csrOp_apply _ _ _ _ hi]
    apply rowDot_congr
    intro cv hcv
    have := colsOk_spec M cols hc i hi cv hcv
    unfold trunc
    rw [if_pos this]
  have hsupp : ∀ j, cols ≤ j → trunc cols x j = 0 := by
    intro j hj
    unfold trunc
    rw [if_neg (by omega)]
  rw [h1, ← denseOfCsr_dot M cols (trunc cols x) hsupp i hi]
  apply Finset.sum_congr rfl
  intro j hj
  unfold trunc
  rw [if_pos (Finset.mem_range.1 hj)]

theorem mget_mconjT (conj : R → R) (A : Mat R) (rows cols : Nat) (j i : Nat) (hj : j < cols)
    (hi : i < rows) :
    mget (mconjT conj A rows cols) j i = conj (mget A i j) := by
  unfold mconjT
  show K.rd (((Array.range cols).map _).getD j #[]) i = _
  rw [getD_map_range cols _ j #[] hj, rd_map_range rows _ i hi]

/-- **`Q = Pᵀ` as dense copies, in-range indices ⇒ `csrOp Q` is the adjoint of `csrOp P`**
(`P : n × m`, `Q : m × n`) -/
theorem isAdj_of_dense (P Q : K.Csr R) (n m : Nat) (hPn : P.n = n) (hQn : Q.n = m)
    (hPc : colsOk P m = true) (hQc : colsOk Q n = true)
    (hd : denseOfCsr Q n = mconjT id (denseOfCsr P m) n m) :
    IsAdj (euc R n) (euc R m) (csrOp P.n (rowOf P)) (csrOp Q.n (rowOf Q)) := by
  intro u v
  rw [euc_apply, euc_apply]
  have e1 : ∀ i ∈ range n, csrOp P.n (rowOf P) u i * v i =
      ∑ k ∈ range m, mget (denseOfCsr P m) i k * u k * v i := by
    intro i hi
    rw [csrOp_dense P m hPc u i (by rw [hPn]; exact mem_range.1 hi), Finset.sum_mul]
  have e2 : ∀ k ∈ range m, u k * csrOp Q.n (rowOf Q) v k =
      ∑ i ∈ range n, mget (denseOfCsr P m) i k * u k * v i := by
    intro k hk
    rw [csrOp_dense Q n hQc v k (by rw [hQn]; exact mem_range.1 hk), Finset.mul_sum]
    apply sum_congr rfl
    intro i hi
    rw [hd, mget_mconjT id _ n m k i (mem_range.1 hk) (mem_range.1 hi)]
    simp only [id]
    ring
  rw [sum_congr rfl e1, sum_congr rfl e2, sum_comm]

/-! ### the model's Boolean `hermitianHierarchy` -/

theorem hermitianHierarchy_spec (conj : R → R) (Ac : K.Csr R) (Ls : List (Lvl R))
    (h : hermitianHierarchy conj Ac Ls = true) :
    (∀ L ∈ Ls, denseOfCsr L.A L.A.n = mconjT conj (denseOfCsr L.A L.A.n) L.A.n L.A.n ∧
      denseOfCsr L.R L.A.n = mconjT conj (denseOfCsr L.P L.R.n) L.A.n L.R.n) ∧
    denseOfCsr Ac Ac.n = mconjT conj (denseOfCsr Ac Ac.n) Ac.n Ac.n := by
  simp only [hermitianHierarchy, Bool.and_eq_true, List.all_eq_true, beq_iff_eq] at h
  exact h

theorem inRangeH_spec (Ac : K.Csr R) (Ls : List (Lvl R)) (h : inRangeH Ac Ls = true) :
    (∀ L ∈ Ls, colsOk L.A L.A.n = true ∧ colsOk L.P L.R.n = true ∧ colsOk L.R L.A.n = true) ∧
    colsOk Ac Ac.n = true := by
  simp only [inRangeH, Bool.and_eq_true, List.all_eq_true] at h
  exact ⟨fun L hL => ⟨(h.1 L hL).1.1, (h.1 L hL).1.2, (h.1 L hL).2⟩, h.2⟩

/-- **the model's Boolean `hermitianHierarchy id` (what the driver evaluates on the concrete data) and
in-range column indices give the operator-level hypothesis `SymH`** -/
theorem symH_of_check (Ac : K.Csr R) : ∀ (Ls : List (Lvl R)) (n : Nat), Shaped Ac.n n Ls →
    inRangeH Ac Ls = true → hermitianHierarchy id Ac Ls = true → SymH Ac Ls := by
  intro Ls n hs hr hh
  obtain ⟨hrL, hrc⟩ := inRangeH_spec Ac Ls hr
  obtain ⟨hhL, hhc⟩ := hermitianHierarchy_spec id Ac Ls hh
  clear hr hh
  induction Ls generalizing n with
  | nil => exact isAdj_of_dense Ac Ac Ac.n Ac.n rfl rfl hrc hrc hhc
  | cons L rest ih =>
    obtain ⟨hAn, hPn, _, hrest⟩ := hs
    obtain ⟨c1, c2, c3⟩ := hrL L (by simp)
    obtain ⟨d1, d2⟩ := hhL L (by simp)
    refine ⟨isAdj_of_dense L.A L.A L.A.n L.A.n rfl rfl c1 c1 d1,
      isAdj_of_dense L.P L.R L.A.n L.R.n (by rw [hPn, hAn]) rfl c2 c3 d2, ?_⟩
    exact ih L.R.n hrest (fun L' hL' => hrL L' (by simp [hL'])) (fun L' hL' => hhL L' (by simp [hL']))

/-! ### the checked form of `flag_denseM_symmetric` -/

/-- soundness of `dataOk id`: shapes, `LvlOK` on every level, `SymH` -/
theorem dataOk_sound (Ac : K.Csr R) (Ls : List (Lvl R)) (h : dataOk id Ac Ls = true) :
    Shaped Ac.n (topSize Ac Ls) Ls ∧ (∀ L ∈ Ls, LvlOK L) ∧ SymH Ac Ls := by
  unfold dataOk at h
  simp only [Bool.and_eq_true] at h
  obtain ⟨⟨⟨h1, h2⟩, h3⟩, h4⟩ := h
  have hs := shaped_of_B Ac.n Ls _ h1
  refine ⟨hs, ?_, symH_of_check Ac Ls _ hs h3 h4⟩
  intro L hL
  rw [List.all_eq_true] at h2
  exact lvlOK_of_B L (h2 L hL)

/-- **C05 for the executed definition, every hypothesis a Boolean evaluated on the concrete data.**
`pre`, `post`: the lists handed to `change_smoothers`; `Ls`, `Ac`: the model hierarchy. If the decision
table reports `symmetric_smoothing = True` and `c05Check id pre post Ac Ls = true` -- non-empty lists, the
hierarchy carries the smoothers the lists install, shapes match, C-points are distinct, every level matrix
stores one non-zero diagonal entry per row, column indices are in range, and the dense copies satisfy
`A = Aᵀ`, `R = Pᵀ` on every level and `Ac = Acᵀ` -- then **whenever `denseM` returns a matrix `M`
(V- and W-cycle) `M` is symmetric.** -/
theorem flag_denseM_symmetric_checked (ofRat : Rat → R) (hof : ∀ q, ofRat q = (q : R))
    (pre post : List Cfg) (Ac : K.Csr R) (Ls : List (Lvl R))
    (hflag : flag pre post Ls.length = some true)
    (hchk : c05Check id pre post Ac Ls = true)
    (c : Cyc) (M : Mat R) (h : denseM ofRat Ac c Ls = some M) :
    M.size = topSize Ac Ls ∧
    ∀ i j, i < topSize Ac Ls → j < topSize Ac Ls → mget M i j = mget M j i := by
  unfold c05Check at hchk
  simp only [Bool.and_eq_true, decide_eq_true_eq] at hchk
  obtain ⟨⟨⟨hp, hq⟩, hinst⟩, hdata⟩ := hchk
  obtain ⟨hs, hok, hsym⟩ := dataOk_sound Ac Ls hdata
  exact flag_denseM_symmetric ofRat hof pre post hp hq Ac Ls hflag (installed_of_B pre post Ls 0 hinst)
    (topSize Ac Ls) hs hok hsym c M h

/-- the instance the driver runs: scalars `ℚ`, `ofRat = id` -/
theorem flag_denseM_symmetric_checked_rat (pre post : List Cfg) (Ac : K.Csr ℚ) (Ls : List (Lvl ℚ))
    (hflag : flag pre post Ls.length = some true)
    (hchk : c05Check id pre post Ac Ls = true)
    (c : Cyc) (M : Mat ℚ) (h : denseM id Ac c Ls = some M) :
    M.size = topSize Ac Ls ∧
    ∀ i j, i < topSize Ac Ls → j < topSize Ac Ls → mget M i j = mget M j i :=
  flag_denseM_symmetric_checked id (fun q => (Rat.cast_id q).symm) pre post Ac Ls hflag hchk c M h

#print axioms symH_of_check
#print axioms flag_denseM_symmetric_checked
#print axioms flag_denseM_symmetric_checked_rat
end PyamgV.C05
