import PyamgV.Proofs.Ck
import PyamgV.Proofs.ColoringLoop

/-! PyamgV (C17): bounds-safety of `breadth_first_search` (graph.h:1075) in the `Ck` style — a
kernel whose safety depends on a *functional* invariant: the write `order[N] = j` is in range
only because `N` counts the labelled nodes and `j` was still unlabelled
(`N + #unlabelled = n`), and the read `Ap[order[ii]]` only because every stored entry of `order`
is a valid node. Literal model: arrays `order`, `level`, counters `N`, `level_begin`,
`level_end`, `current_level`; the `while` loop takes fuel (safety holds for any fuel; termination
is `PyamgV.Bfs.bfs_total`). Core Lean only. -/
namespace PyamgV.BfsCk
open PyamgV.Ck

structure Csr where
  n : Nat
  ap : Array Int
  aj : Array Int

structure WF (G : Csr) : Prop where
  ap_size : G.ap.size = G.n + 1
  ap0 : 0 ≤ G.ap.getD 0 0
  mono : ∀ i, i < G.n → G.ap.getD i 0 ≤ G.ap.getD (i+1) 0
  last_j : G.ap.getD G.n 0 ≤ (G.aj.size : Int)
  cols : ∀ jj, jj < G.aj.size → 0 ≤ G.aj.getD jj 0 ∧ G.aj.getD jj 0 < (G.n : Int)

theorem ap_nonneg (G : Csr) (h : WF G) : ∀ i, i ≤ G.n → 0 ≤ G.ap.getD i 0 := by
  intro i
  induction i with
  | zero => intro _; exact h.ap0
  | succ i ih => intro hi; exact Int.le_trans (ih (by omega)) (h.mono i (by omega))

theorem ap_le_last (G : Csr) (h : WF G) : ∀ i, i ≤ G.n → G.ap.getD i 0 ≤ G.ap.getD G.n 0 := by
  intro i hi
  induction hd : G.n - i generalizing i with
  | zero => have : i = G.n := by omega
            subst this; exact Int.le_refl _
  | succ d ih =>
    have hlt : i < G.n := by omega
    exact Int.le_trans (h.mono i hlt) (ih (i+1) (by omega) (by omega))

abbrev St := Array Int × Array Int × Int   -- order, level, N

/-- number of unlabelled nodes -/
def unl (n : Nat) (level : Array Int) : Nat :=
  (List.range n).countP (fun v => decide (level.getD v 0 = -1))

structure Inv (n : Nat) (s : St) : Prop where
  so : s.1.size = n
  sl : s.2.1.size = n
  n0 : 0 ≤ s.2.2
  cnt : s.2.2.toNat + unl n s.2.1 = n
  ord : ∀ p : Nat, (p : Int) < s.2.2 → 0 ≤ s.1.getD p 0 ∧ s.1.getD p 0 < (n : Int)

/-- `if(level[j] == -1){ order[N] = j; level[j] = current_level; N++; }` -/
def visit (G : Csr) (cur : Int) (jj : Int) (s : St) : Ck St := do
  let j ← Ck.rd G.aj jj
  let lj ← Ck.rd s.2.1 j
  if lj = -1 then do
    let order ← Ck.wr s.1 s.2.2 j
    let level ← Ck.wr s.2.1 j cur
    pure (order, level, s.2.2 + 1)
  else pure s

theorem getD_set (a : Array Int) (i j : Nat) (v : Int) :
    (a.setIfInBounds i v).getD j 0 = if i = j ∧ i < a.size then v else a.getD j 0 := by
  simp only [Array.getD_eq_getD_getElem?, Array.getElem?_setIfInBounds]
  by_cases h : i = j
  · subst h
    by_cases h2 : i < a.size <;> simp [h2]
  · simp [h]

theorem visit_safe (G : Csr) (hG : WF G) (cur : Int) (hcur : cur ≠ -1) (jj : Int) (h0 : 0 ≤ jj)
    (h1 : jj.toNat < G.aj.size) (s : St) (hI : Inv G.n s) :
    Safe (visit G cur jj s) (fun s' => Inv G.n s' ∧ s.2.2 ≤ s'.2.2) := by
  have hc := hG.cols jj.toNat h1
  unfold visit
  refine Safe.bind (rd_safe G.aj jj h0 h1) (fun j hj => ?_)
  have hj' : j = G.aj.getD jj.toNat 0 := hj
  have hj0 : 0 ≤ j := by rw [hj']; exact hc.1
  have hjn : j.toNat < G.n := by rw [hj']; omega
  refine Safe.bind (rd_safe s.2.1 j hj0 (by rw [hI.sl]; exact hjn)) (fun lj hlj => ?_)
  by_cases hneg : lj = -1
  · rw [if_pos hneg]
    have hlev : s.2.1.getD j.toNat 0 = -1 := by rw [← hneg]; exact hlj.symm
    -- j is unlabelled, so fewer than n nodes are labelled
    have hpos : 1 ≤ unl G.n s.2.1 := by
      unfold unl
      apply List.countP_pos_iff.2
      exact ⟨j.toNat, List.mem_range.2 hjn, by simpa using hlev⟩
    have hN : s.2.2.toNat < G.n := by have := hI.cnt; omega
    have hN0 := hI.n0
    refine Safe.bind (P := fun order => order = s.1.setIfInBounds s.2.2.toNat j) ?_
      (fun order hord => ?_)
    · unfold Ck.wr
      rw [if_pos ⟨hN0, by rw [hI.so]; exact hN⟩]
      exact ⟨rfl, rfl⟩
    refine Safe.bind (P := fun level => level = s.2.1.setIfInBounds j.toNat cur) ?_
      (fun level hlevel => ?_)
    · unfold Ck.wr
      rw [if_pos ⟨hj0, by rw [hI.sl]; exact hjn⟩]
      exact ⟨rfl, rfl⟩
    · refine Safe.pure ⟨⟨by rw [hord]; simpa using hI.so, by rw [hlevel]; simpa using hI.sl, by show 0 ≤ s.2.2 + 1; omega,
        ?_, ?_⟩, by show s.2.2 ≤ s.2.2 + 1; omega⟩
      · -- counting: one more labelled, one fewer unlabelled
        show (s.2.2 + 1).toNat + unl G.n level = G.n
        have hflip : unl G.n s.2.1 = unl G.n level + 1 := by
          unfold unl
          apply PyamgV.Col.countP_flip List.nodup_range (k := j.toNat) (List.mem_range.2 hjn)
          · intro m _ hm
            rw [hlevel, getD_set, if_neg (fun h => hm h.1.symm)]
          · rw [hlevel, getD_set, if_pos ⟨rfl, by rw [hI.sl]; exact hjn⟩]
            simpa using hcur
          · simpa using hlev
        have := hI.cnt
        omega
      · intro p hp
        show 0 ≤ order.getD p 0 ∧ order.getD p 0 < (G.n : Int)
        have hp' : (p : Int) < s.2.2 + 1 := hp
        rw [hord, getD_set]
        by_cases hpN : s.2.2.toNat = p
        · rw [if_pos ⟨hpN, by rw [hI.so]; exact hN⟩]
          exact ⟨hj0, by omega⟩
        · rw [if_neg (fun h => hpN h.1)]
          exact hI.ord p (by omega)
  · rw [if_neg hneg]
    exact Safe.pure ⟨hI, Int.le_refl _⟩

/-- the two nested `for` loops over one frontier node `i = order[ii]` -/
def expand (G : Csr) (cur : Int) (ii : Int) (s : St) : Ck St := do
  let i ← Ck.rd s.1 ii
  let b ← Ck.rd G.ap i
  let e ← Ck.rd G.ap (i+1)
  forRange b e s (visit G cur)

theorem expand_safe (G : Csr) (hG : WF G) (cur : Int) (hcur : cur ≠ -1) (ii : Int) (h0 : 0 ≤ ii)
    (s : St) (hI : Inv G.n s) (hii : ii < s.2.2) :
    Safe (expand G cur ii s) (fun s' => Inv G.n s' ∧ s.2.2 ≤ s'.2.2) := by
  have hNn : s.2.2.toNat ≤ G.n := by have := hI.cnt; omega
  have hiin : ii.toNat < G.n := by have := hI.n0; omega
  unfold expand
  refine Safe.bind (rd_safe s.1 ii h0 (by rw [hI.so]; exact hiin)) (fun i hi => ?_)
  have hval := hI.ord ii.toNat (by omega)
  have hi' : i = s.1.getD ii.toNat 0 := hi
  have hi0 : 0 ≤ i := by rw [hi']; exact hval.1
  have hin : i.toNat < G.n := by rw [hi']; omega
  have hs1 : (i+1).toNat = i.toNat + 1 := by omega
  refine Safe.bind (rd_safe G.ap i hi0 (by rw [hG.ap_size]; omega)) (fun b hb => ?_)
  refine Safe.bind (rd_safe G.ap (i+1) (by omega) (by rw [hG.ap_size]; omega)) (fun e he => ?_)
  rw [hs1] at he
  apply forRange_safe (fun s' => Inv G.n s' ∧ s.2.2 ≤ s'.2.2) b e s (visit G cur)
    ⟨hI, Int.le_refl _⟩
  intro jj h1 h2 st hst
  have a1 := ap_nonneg G hG i.toNat (by omega)
  have a2 := ap_le_last G hG (i.toNat + 1) (by omega)
  have a3 := hG.last_j
  have hb' : b = G.ap.getD i.toNat 0 := hb
  have he' : e = G.ap.getD (i.toNat + 1) 0 := he
  have hjj0 : 0 ≤ jj := by omega
  have hjj1 : jj.toNat < G.aj.size := by omega
  exact Safe.mono (visit_safe G hG cur hcur jj hjj0 hjj1 st hst.1)
    (fun s' h => ⟨h.1, Int.le_trans hst.2 h.2⟩)

/-- one level: `for(ii = level_begin; ii < level_end; ii++)` -/
theorem level_safe (G : Csr) (hG : WF G) (cur : Int) (hcur : cur ≠ -1) (lb le : Int)
    (h0 : 0 ≤ lb) (s : St) (hI : Inv G.n s) (hle : le ≤ s.2.2) :
    Safe (forRange lb le s (expand G cur)) (fun s' => Inv G.n s' ∧ s.2.2 ≤ s'.2.2) := by
  apply forRange_safe (fun s' => Inv G.n s' ∧ s.2.2 ≤ s'.2.2) lb le s (expand G cur)
    ⟨hI, Int.le_refl _⟩
  intro ii h1 h2 st hst
  exact Safe.mono (expand_safe G hG cur hcur ii (by omega) st hst.1 (by omega))
    (fun s' h => ⟨h.1, Int.le_trans hst.2 h.2⟩)

/-- `while(level_begin < level_end)` with fuel -/
def bfsLoop (G : Csr) : Nat → Int → Int → Int → Ck St → Ck St
  | 0, _, _, _, s => s
  | f+1, lb, le, cur, s =>
    if lb < le then
      let s' := s >>= fun st => forRange lb le st (expand G cur)
      -- level_begin = level_end; level_end = N; current_level++
      bfsLoop G f le (s'.val.2.2) (cur + 1) s'
    else s

theorem bfsLoop_safe (G : Csr) (hG : WF G) :
    ∀ (fuel : Nat) (lb le cur : Int) (s : Ck St), 0 ≤ lb → 1 ≤ cur →
      Safe s (fun st => Inv G.n st ∧ le ≤ st.2.2) →
      Safe (bfsLoop G fuel lb le cur s) (fun st => Inv G.n st) := by
  intro fuel
  induction fuel with
  | zero => intro lb le cur s _ _ hs; exact Safe.mono hs (fun _ h => h.1)
  | succ f ih =>
    intro lb le cur s hlb hcur hs
    unfold bfsLoop
    by_cases hlt : lb < le
    · rw [if_pos hlt]
      have hstep : Safe (s >>= fun st => forRange lb le st (expand G cur))
          (fun st => Inv G.n st ∧ st.2.2 ≤ st.2.2) := by
        refine Safe.bind hs (fun st hst => ?_)
        exact Safe.mono (level_safe G hG cur (by omega) lb le hlb st hst.1 hst.2)
          (fun s' h => ⟨h.1, Int.le_refl _⟩)
      apply ih le _ (cur + 1) _ (by omega) (by omega)
      exact ⟨hstep.1, hstep.2.1, Int.le_refl _⟩
    · rw [if_neg hlt]; exact Safe.mono hs (fun _ h => h.1)

/-- the whole kernel: `order[0] = seed; level[seed] = 0; N = 1; …` -/
def bfs (G : Csr) (seed : Int) (order level : Array Int) (fuel : Nat) : Ck St :=
  bfsLoop G fuel 0 1 1 (do
    let order ← Ck.wr order 0 seed
    let level ← Ck.wr level seed 0
    pure (order, level, 1))

/-- **C17 for `breadth_first_search`**: for every structurally valid graph with `n ≥ 1` rows,
a seed in range, an `order` buffer of size `n` and a `level` buffer of size `n` filled with
`-1` (as `pyamg/graph.py` allocates them), no access leaves its array — whatever the fuel. -/
theorem bfs_safe (G : Csr) (hG : WF G) (seed : Int) (hs0 : 0 ≤ seed) (hs1 : seed < (G.n : Int))
    (order level : Array Int) (ho : order.size = G.n) (hl : level.size = G.n)
    (hinit : ∀ v, v < G.n → level.getD v 0 = -1) (fuel : Nat) :
    Safe (bfs G seed order level fuel) (fun st => Inv G.n st) := by
  have hn : 0 < G.n := by omega
  unfold bfs
  apply bfsLoop_safe G hG fuel 0 1 1 _ (Int.le_refl 0) (Int.le_refl 1)
  refine Safe.bind (P := fun o => o = order.setIfInBounds 0 seed) ?_ (fun o ho' => ?_)
  · unfold Ck.wr
    rw [if_pos ⟨Int.le_refl 0, by simpa [ho] using hn⟩]
    exact ⟨rfl, rfl⟩
  refine Safe.bind (P := fun l => l = level.setIfInBounds seed.toNat 0) ?_ (fun l hl' => ?_)
  · unfold Ck.wr
    rw [if_pos ⟨hs0, by rw [hl]; omega⟩]
    exact ⟨rfl, rfl⟩
  refine Safe.pure ⟨⟨by rw [ho']; simpa using ho, by rw [hl']; simpa using hl, by show (0:Int) ≤ 1; omega, ?_, ?_⟩,
    Int.le_refl 1⟩
  · -- exactly one labelled node
    show (1 : Int).toNat + unl G.n l = G.n
    have hall : unl G.n level = G.n := by
      unfold unl
      have : (List.range G.n).countP (fun v => decide (level.getD v 0 = -1)) =
          (List.range G.n).length := by
        apply List.countP_eq_length.2
        intro v hv
        simpa using hinit v (List.mem_range.1 hv)
      rw [this, List.length_range]
    have hflip : unl G.n level = unl G.n l + 1 := by
      unfold unl
      apply PyamgV.Col.countP_flip List.nodup_range (k := seed.toNat)
        (List.mem_range.2 (by omega))
      · intro m _ hm
        rw [hl', getD_set, if_neg (fun h => hm h.1.symm)]
      · rw [hl', getD_set, if_pos ⟨rfl, by rw [hl]; omega⟩]; decide
      · simpa using hinit seed.toNat (by omega)
    have : (1 : Int).toNat = 1 := by decide
    omega
  · intro p hp
    show 0 ≤ o.getD p 0 ∧ o.getD p 0 < (G.n : Int)
    have hp0 : p = 0 := by
      have : (p : Int) < 1 := hp
      omega
    subst hp0
    rw [ho', getD_set, if_pos ⟨rfl, by simpa [ho] using hn⟩]
    exact ⟨hs0, hs1⟩

#print axioms bfs_safe
end PyamgV.BfsCk
