import PyamgV.Model.ExtC17R4Cljp
import PyamgV.Proofs.ExtC17R4Color

/-! PyamgV (C17, extension E32, round 4): bounds-safety of the `Ck` model of `cljp_naive_splitting`
(`Model/ExtC17R4Cljp.lean`): `S` and `T` any two structurally valid `n × n` patterns (nothing about `T = Sᵀ`), any
weights, any number of passes of `while(unassigned > 0)`.  The interesting accesses: `Dlist[nD]` (`nD ≤ i`), the nodes
read back from `Dlist`, `edgemark[jj]` / `edgemark[kk]` (positions of `S`, below `Sp[n]`).  Core Lean only. -/
namespace PyamgV.C17R4
open PyamgV.Ck PyamgV.C17

set_option linter.unusedSectionVars false
set_option linter.unusedVariables false

variable {α : Type} [Inhabited α]

/-- a position of row `i` is a position of `edgemark` (`Sp[n]` entries) -/
theorem pos_lt_nnz {n : Nat} {sp sj : Array Int} (hS : WFm (patS n sp sj) n) (i : Int) (i0 : 0 ≤ i) (i1 : i < (n : Int)) (jj : Int)
    (j1 : sp.getD i.toNat 0 ≤ jj) (j2 : jj < sp.getD (i.toNat + 1) 0) : 0 ≤ jj ∧ jj.toNat < (sp.getD n 0).toNat := by
  have a1 := ap_nonneg_m (patS n sp sj) hS i.toNat (by show i.toNat ≤ n; omega)
  have a2 := ap_le_last_m (patS n sp sj) hS (i.toNat + 1) (by show i.toNat + 1 ≤ n; omega)
  have a1' : 0 ≤ sp.getD i.toNat 0 := a1
  have a2' : sp.getD (i.toNat + 1) 0 ≤ sp.getD n 0 := a2
  omega

/-! ### the weights -/

theorem cjColorWeights_safe (o : CjOps α) {n : Nat} (hn : 0 < n) {sp sj : Array Int} (hS : WFm (patS n sp sj) n)
    (wt : Array α) (hwt : wt.size = n) : Safe (cjColorWeights o n sp sj wt) (fun wt' => wt'.size = n) := by
  unfold cjColorWeights
  refine Safe.bind (vertexColoringMis_safe hS (Array.replicate n 0) (by simp)) (fun c hc => ?_)
  refine Safe.bind (maxElem_safe n hn c.1 hc.1) (fun mx _ => ?_)
  apply forRange_safe (fun wt' : Array α => wt'.size = n) _ _ _ _ hwt
  intro i i0 i1 wt' hwt'
  refine Safe.bind (rd_safe c.1 i i0 (by rw [hc.1]; omega)) (fun ci _ => ?_)
  exact Safe.mono (wr_safe wt' i _ i0 (by rw [hwt']; omega)) (fun w h => by rw [h, hwt'])

theorem cjRandWeights_safe (n : Nat) (rnd wt : Array α) (hwt : wt.size = n) :
    Safe (cjRandWeights n rnd wt) (fun wt' => wt'.size = n) := by
  unfold cjRandWeights
  apply forRange_safe (fun wt' : Array α => wt'.size = n) _ _ _ _ hwt
  intro i i0 i1 wt' hwt'
  exact Safe.mono (wr_safe wt' i _ i0 (by rw [hwt']; omega)) (fun w h => by rw [h, hwt'])

theorem cjCount_safe (o : CjOps α) {n : Nat} {sp sj : Array Int} (hS : WFm (patS n sp sj) n) (wt : Array α) (hwt : wt.size = n) :
    Safe (cjCount o n sp sj wt) (fun wt' => wt'.size = n) := by
  unfold cjCount
  apply forRange_safe (fun wt' : Array α => wt'.size = n) _ _ _ _ hwt
  intro i i0 i1 wt' hwt'
  obtain ⟨q1, q2, hrow⟩ := row_facts hS i i0 i1
  refine Safe.bind q1 (fun s hs => ?_)
  refine Safe.bind q2 (fun e he => ?_)
  subst hs; subst he
  apply forRange_safe (fun wt' : Array α => wt'.size = n) _ _ _ _ hwt'
  intro jj j1 j2 w hw
  refine Safe.bind (hrow jj j1 j2) (fun j hj => ?_)
  by_cases hij : i ≠ j
  · rw [if_pos hij]
    refine Safe.bind (rd_safe w j hj.2.1 (by rw [hw]; omega)) (fun wj _ => ?_)
    exact Safe.mono (wr_safe w j _ hj.2.1 (by rw [hw]; omega)) (fun w' h => by rw [h, hw])
  · rw [if_neg hij]; exact Safe.pure hw

/-! ### the selection -/

theorem cjScan_safe (o : CjOps α) {n : Nat} {gp gj : Array Int} (hG : WFm (patS n gp gj) n) (spl : Array Int) (hspl : spl.size = n)
    (wt : Array α) (hwt : wt.size = n) (i : Int) (i0 : 0 ≤ i) (i1 : i < (n : Int)) (D : Array Int) (hD : D.size = n) :
    Safe (cjScan o gj spl wt i (gp.getD i.toNat 0) (gp.getD (i.toNat + 1) 0) D) (fun r => r.1.size = n) := by
  obtain ⟨_, _, hrow⟩ := row_facts hG i i0 i1
  unfold cjScan
  apply forRange_safe (fun r : Array Int × Bool => r.1.size = n) _ _ _ _ hD
  intro jj j1 j2 st hst
  by_cases hb : st.2 = true
  · rw [if_pos hb]; exact Safe.pure hst
  · rw [if_neg hb]
    refine Safe.bind (hrow jj j1 j2) (fun j hj => ?_)
    refine Safe.bind (rd_safe spl j hj.2.1 (by rw [hspl]; omega)) (fun sv _ => ?_)
    by_cases hu : sv = 2
    · rw [if_pos hu]
      refine Safe.bind (rd_safe wt j hj.2.1 (by rw [hwt]; omega)) (fun wj _ => ?_)
      refine Safe.bind (rd_safe wt i i0 (by rw [hwt]; omega)) (fun wi _ => ?_)
      by_cases hg : o.gt wj wi = true
      · rw [if_pos hg]
        refine Safe.bind (wr_safe st.1 i 0 i0 (by rw [hst]; omega)) (fun D' hD' => ?_)
        exact Safe.pure (by show D'.size = n; rw [hD', hst])
      · rw [if_neg hg]; exact Safe.pure hst
    · rw [if_neg hu]; exact Safe.pure hst

/-- the first `nD` entries of `Dlist` are nodes -/
def DlOK (n : Nat) (Dl : Array Int) (nD : Int) : Prop :=
  ∀ k : Nat, (k : Int) < nD → 0 ≤ Dl.getD k 0 ∧ Dl.getD k 0 < (n : Int)

/-- SELECT INDEPENDENT SET: `Dlist[nD]` is in range because `nD ≤ i` -/
theorem cjSelect_safe (o : CjOps α) {n : Nat} {sp sj tp tj : Array Int} (hS : WFm (patS n sp sj) n) (hT : WFm (patS n tp tj) n)
    (spl : Array Int) (hspl : spl.size = n) (wt : Array α) (hwt : wt.size = n) (D Dl : Array Int) (hD : D.size = n)
    (hDl : Dl.size = n) (un : Int) :
    Safe (cjSelect o n sp sj tp tj spl wt (D, Dl, un, 0))
      (fun r => r.1.size = n ∧ r.2.1.size = n ∧ 0 ≤ r.2.2.2 ∧ r.2.2.2 ≤ (n : Int) ∧ DlOK n r.2.1 r.2.2.2) := by
  unfold cjSelect
  refine Safe.mono (forRange_safe_idx
    (fun (i : Int) (r : Array Int × Array Int × Int × Int) =>
      r.1.size = n ∧ r.2.1.size = n ∧ 0 ≤ r.2.2.2 ∧ r.2.2.2 ≤ i ∧ DlOK n r.2.1 r.2.2.2)
    0 (n : Int) (by omega) _ _ ⟨hD, hDl, Int.le_refl 0, Int.le_refl 0, fun k hk => by have : (k : Int) < 0 := hk; omega⟩ ?_) (fun r h => h)
  intro i i0 i1 st hst
  obtain ⟨h1, h2, h3, h4, h5⟩ := hst
  refine Safe.bind (rd_safe spl i i0 (by rw [hspl]; omega)) (fun si _ => ?_)
  by_cases hu : si = 2
  · rw [if_pos hu]
    refine Safe.bind (wr_safe st.1 i 1 i0 (by rw [h1]; omega)) (fun D1 hD1 => ?_)
    have hD1s : D1.size = n := by rw [hD1, h1]
    obtain ⟨q1, q2, _⟩ := row_facts hS i i0 i1
    refine Safe.bind q1 (fun s hs => ?_)
    refine Safe.bind q2 (fun e he => ?_)
    subst hs; subst he
    refine Safe.bind (cjScan_safe o hS spl hspl wt hwt i i0 i1 D1 hD1s) (fun r hr => ?_)
    refine Safe.bind (rd_safe r.1 i i0 (by rw [hr]; omega)) (fun di _ => ?_)
    refine Safe.bind (P := fun D2 : Array Int => D2.size = n) ?_ (fun D2 hD2 => ?_)
    · by_cases hd : di = 1
      · rw [if_pos hd]
        obtain ⟨p1, p2, _⟩ := row_facts hT i i0 i1
        refine Safe.bind p1 (fun s2 hs2 => ?_)
        refine Safe.bind p2 (fun e2 he2 => ?_)
        subst hs2; subst he2
        exact Safe.bind (cjScan_safe o hT spl hspl wt hwt i i0 i1 r.1 hr) (fun r2 hr2 => Safe.pure hr2)
      · rw [if_neg hd]; exact Safe.pure hr
    · refine Safe.bind (rd_safe D2 i i0 (by rw [hD2]; omega)) (fun di2 _ => ?_)
      by_cases hd : di2 = 1
      · rw [if_pos hd]
        have hpos : st.2.2.2.toNat < st.2.1.size := by rw [h2]; omega
        refine Safe.bind (wr_val st.2.1 st.2.2.2 i h3 hpos) (fun Dl' hDl' => ?_)
        refine Safe.pure ⟨hD2, by show Dl'.size = n; rw [hDl']; simp [h2], by show 0 ≤ st.2.2.2 + 1; omega,
          by show st.2.2.2 + 1 ≤ i + 1; omega, fun k hk => ?_⟩
        show 0 ≤ Dl'.getD k 0 ∧ Dl'.getD k 0 < (n : Int)
        rw [hDl', getD_setInt]
        by_cases hkk : st.2.2.2.toNat = k
        · rw [if_pos ⟨hkk, hpos⟩]; exact ⟨i0, i1⟩
        · rw [if_neg (fun h => hkk h.1)]
          have hk' : (k : Int) < st.2.2.2 + 1 := hk
          exact h5 k (by omega)
      · rw [if_neg hd]
        exact Safe.pure ⟨hD2, h2, h3, by show st.2.2.2 ≤ i + 1; omega, h5⟩
  · rw [if_neg hu]
    refine Safe.bind (wr_safe st.1 i 0 i0 (by rw [h1]; omega)) (fun D1 hD1 => ?_)
    exact Safe.pure ⟨by show D1.size = n; rw [hD1, h1], h2, h3, by show st.2.2.2 ≤ i + 1; omega, h5⟩

/-! ### the weight updates -/

theorem cjDrop_safe (o : CjOps α) {n : Nat} (j : Int) (j0 : 0 ≤ j) (j1 : j < (n : Int)) (st : Array Int × Array α × Int)
    (h1 : st.1.size = n) (h2 : st.2.1.size = n) :
    Safe (cjDrop o j st) (fun r => r.1.size = n ∧ r.2.1.size = n) := by
  unfold cjDrop
  refine Safe.bind (rd_safe st.2.1 j j0 (by rw [h2]; omega)) (fun wj _ => ?_)
  refine Safe.bind (wr_safe st.2.1 j _ j0 (by rw [h2]; omega)) (fun wt hwt => ?_)
  have hws : wt.size = n := by rw [hwt, h2]
  refine Safe.bind (rd_safe wt j j0 (by rw [hws]; omega)) (fun wj2 _ => ?_)
  by_cases hl : o.ltOne wj2 = true
  · rw [if_pos hl]
    refine Safe.bind (wr_safe st.1 j 0 j0 (by rw [h1]; omega)) (fun spl hspl => ?_)
    exact Safe.pure ⟨by show spl.size = n; rw [hspl, h1], hws⟩
  · rw [if_neg hl]; exact Safe.pure ⟨h1, hws⟩

theorem cjP5_safe (o : CjOps α) {n : Nat} {sp sj : Array Int} (hS : WFm (patS n sp sj) n) (Dl : Array Int) (hDl : Dl.size = n)
    (nD : Int) (hnD : nD ≤ (n : Int)) (hok : DlOK n Dl nD) (st : Array Int × Array α × Array Int × Int) (h1 : st.1.size = n)
    (h2 : st.2.1.size = n) (h3 : st.2.2.1.size = (sp.getD n 0).toNat) :
    Safe (cjP5 o sp sj Dl nD st) (fun r => r.1.size = n ∧ r.2.1.size = n ∧ r.2.2.1.size = (sp.getD n 0).toNat) := by
  unfold cjP5
  apply forRange_safe (fun r : Array Int × Array α × Array Int × Int =>
    r.1.size = n ∧ r.2.1.size = n ∧ r.2.2.1.size = (sp.getD n 0).toNat) _ _ _ _ ⟨h1, h2, h3⟩
  intro iD d0 d1 s hs
  refine Safe.bind (rd_safe Dl iD d0 (by rw [hDl]; omega)) (fun c hc => ?_)
  have hc' : c = Dl.getD iD.toNat 0 := hc
  have hcr := hok iD.toNat (by omega)
  rw [← hc'] at hcr
  obtain ⟨q1, q2, hrow⟩ := row_facts hS c hcr.1 hcr.2
  refine Safe.bind q1 (fun a ha => ?_)
  refine Safe.bind q2 (fun b hb => ?_)
  subst ha; subst hb
  apply forRange_safe (fun r : Array Int × Array α × Array Int × Int =>
    r.1.size = n ∧ r.2.1.size = n ∧ r.2.2.1.size = (sp.getD n 0).toNat) _ _ _ _ hs
  intro jj j1 j2 t ht
  obtain ⟨t1, t2, t3⟩ := ht
  have hpos := pos_lt_nnz hS c hcr.1 hcr.2 jj j1 j2
  refine Safe.bind (hrow jj j1 j2) (fun j hj => ?_)
  refine Safe.bind (rd_safe t.1 j hj.2.1 (by rw [t1]; omega)) (fun sv _ => ?_)
  by_cases hu : sv = 2
  · rw [if_pos hu]
    refine Safe.bind (rd_safe t.2.2.1 jj hpos.1 (by rw [t3]; exact hpos.2)) (fun m _ => ?_)
    by_cases hm : m ≠ 0
    · rw [if_pos hm]
      refine Safe.bind (wr_safe t.2.2.1 jj 0 hpos.1 (by rw [t3]; exact hpos.2)) (fun em hem => ?_)
      refine Safe.bind (cjDrop_safe o j hj.2.1 hj.2.2 (t.1, t.2.1, t.2.2.2) t1 t2) (fun r hr => ?_)
      exact Safe.pure ⟨hr.1, hr.2, by show em.size = _; rw [hem, t3]⟩
    · rw [if_neg hm]; exact Safe.pure ⟨t1, t2, t3⟩
  · rw [if_neg hu]; exact Safe.pure ⟨t1, t2, t3⟩

theorem cjP6_safe (o : CjOps α) {n : Nat} {sp sj tp tj : Array Int} (hS : WFm (patS n sp sj) n) (hT : WFm (patS n tp tj) n)
    (Dl : Array Int) (hDl : Dl.size = n) (nD : Int) (hnD : nD ≤ (n : Int)) (hok : DlOK n Dl nD)
    (st : Array Int × Array α × Array Int × Array Int × Int) (h1 : st.1.size = n) (h2 : st.2.1.size = n)
    (h3 : st.2.2.1.size = (sp.getD n 0).toNat) (h4 : st.2.2.2.1.size = n) :
    Safe (cjP6 o sp sj tp tj Dl nD st)
      (fun r => r.1.size = n ∧ r.2.1.size = n ∧ r.2.2.1.size = (sp.getD n 0).toNat ∧ r.2.2.2.1.size = n) := by
  unfold cjP6
  apply forRange_safe (fun r : Array Int × Array α × Array Int × Array Int × Int =>
    r.1.size = n ∧ r.2.1.size = n ∧ r.2.2.1.size = (sp.getD n 0).toNat ∧ r.2.2.2.1.size = n) _ _ _ _ ⟨h1, h2, h3, h4⟩
  intro iD d0 d1 s hs
  obtain ⟨s1, s2, s3, s4⟩ := hs
  refine Safe.bind (rd_safe Dl iD d0 (by rw [hDl]; omega)) (fun c hc => ?_)
  have hc' : c = Dl.getD iD.toNat 0 := hc
  have hcr := hok iD.toNat (by omega)
  rw [← hc'] at hcr
  obtain ⟨q1, q2, hrow⟩ := row_facts hT c hcr.1 hcr.2
  refine Safe.bind q1 (fun a ha => ?_)
  refine Safe.bind q2 (fun b hb => ?_)
  subst ha; subst hb
  refine Safe.bind (P := fun cache : Array Int => cache.size = n) ?_ (fun cache hcache => ?_)
  · apply forRange_safe (fun cache : Array Int => cache.size = n) _ _ _ _ s4
    intro jj j1 j2 cache hca
    refine Safe.bind (hrow jj j1 j2) (fun j hj => ?_)
    refine Safe.bind (rd_safe s.1 j hj.2.1 (by rw [s1]; omega)) (fun sv _ => ?_)
    by_cases hu : sv = 2
    · rw [if_pos hu]
      exact Safe.mono (wr_safe cache j c hj.2.1 (by rw [hca]; omega)) (fun c' h => by rw [h, hca])
    · rw [if_neg hu]; exact Safe.pure hca
  · refine forRange_safe (fun r : Array Int × Array α × Array Int × Array Int × Int =>
      r.1.size = n ∧ r.2.1.size = n ∧ r.2.2.1.size = (sp.getD n 0).toNat ∧ r.2.2.2.1.size = n) _ _
      (s.1, s.2.1, s.2.2.1, cache, s.2.2.2.2) _ ⟨s1, s2, s3, hcache⟩ ?_
    intro jj j1 j2 t ht
    refine Safe.bind (hrow jj j1 j2) (fun j hj => ?_)
    obtain ⟨p1, p2, hrow2⟩ := row_facts hS j hj.2.1 hj.2.2
    refine Safe.bind p1 (fun a2 ha2 => ?_)
    refine Safe.bind p2 (fun b2 hb2 => ?_)
    subst ha2; subst hb2
    apply forRange_safe (fun r : Array Int × Array α × Array Int × Array Int × Int =>
      r.1.size = n ∧ r.2.1.size = n ∧ r.2.2.1.size = (sp.getD n 0).toNat ∧ r.2.2.2.1.size = n) _ _ _ _ ht
    intro kk k1 k2 u hu
    obtain ⟨u1, u2, u3, u4⟩ := hu
    have hpos := pos_lt_nnz hS j hj.2.1 hj.2.2 kk k1 k2
    refine Safe.bind (hrow2 kk k1 k2) (fun k hk => ?_)
    have hkn : k.toNat < n := by omega
    have hkk3 : kk.toNat < u.2.2.1.size := by rw [u3]; exact hpos.2
    have hkc : k.toNat < u.2.2.2.1.size := by rw [u4]; exact hkn
    refine Safe.bind (rd_safe u.1 k hk.2.1 (by rw [u1]; exact hkn)) (fun sv _ => ?_)
    by_cases hU : sv = 2
    · rw [if_pos hU]
      refine Safe.bind (rd_safe u.2.2.1 kk hpos.1 hkk3) (fun m _ => ?_)
      by_cases hm : m ≠ 0
      · rw [if_pos hm]
        refine Safe.bind (rd_safe u.2.2.2.1 k hk.2.1 hkc) (fun ck _ => ?_)
        by_cases hck : ck = c
        · rw [if_pos hck]
          refine Safe.bind (wr_safe u.2.2.1 kk 0 hpos.1 hkk3) (fun em hem => ?_)
          refine Safe.bind (cjDrop_safe o k hk.2.1 hk.2.2 (u.1, u.2.1, u.2.2.2.2) u1 u2) (fun r hr => ?_)
          exact Safe.pure ⟨hr.1, hr.2, by show em.size = _; rw [hem, u3], u4⟩
        · rw [if_neg hck]; exact Safe.pure ⟨u1, u2, u3, u4⟩
      · rw [if_neg hm]; exact Safe.pure ⟨u1, u2, u3, u4⟩
    · rw [if_neg hU]; exact Safe.pure ⟨u1, u2, u3, u4⟩

/-! ### the loop -/

/-- the six arrays keep their lengths -/
structure CJInv (n nnz : Nat) (st : CJ α) : Prop where
  spl : st.spl.size = n
  wt : st.wt.size = n
  em : st.em.size = nnz
  D : st.D.size = n
  Dl : st.Dl.size = n
  cache : st.cache.size = n

/-- **one pass of `while(unassigned > 0)`** -/
theorem cjPass_safe (o : CjOps α) {n : Nat} {sp sj tp tj : Array Int} (hS : WFm (patS n sp sj) n) (hT : WFm (patS n tp tj) n)
    (st : CJ α) (hst : CJInv n (sp.getD n 0).toNat st) : Safe (cjPass o n sp sj tp tj st) (CJInv n (sp.getD n 0).toNat) := by
  unfold cjPass
  refine Safe.bind (cjSelect_safe o hS hT st.spl hst.spl st.wt hst.wt st.D st.Dl hst.D hst.Dl st.un) (fun sel hsel => ?_)
  obtain ⟨e1, e2, e3, e4, e5⟩ := hsel
  refine Safe.bind (P := fun spl : Array Int => spl.size = n) ?_ (fun spl hspl => ?_)
  · apply forRange_safe (fun spl : Array Int => spl.size = n) _ _ _ _ hst.spl
    intro i i0 i1 spl hs
    refine Safe.bind (rd_safe sel.2.1 i i0 (by rw [e2]; omega)) (fun c hc => ?_)
    have hc' : c = sel.2.1.getD i.toNat 0 := hc
    have hcr := e5 i.toNat (by omega)
    rw [← hc'] at hcr
    exact Safe.mono (wr_safe spl c 1 hcr.1 (by rw [hs]; omega)) (fun s' h => by rw [h, hs])
  refine Safe.bind (cjP5_safe o hS sel.2.1 e2 sel.2.2.2 e4 e5 (spl, st.wt, st.em, sel.2.2.1) hspl hst.wt hst.em) (fun p5 h5 => ?_)
  refine Safe.bind (cjP6_safe o hS hT sel.2.1 e2 sel.2.2.2 e4 e5 (p5.1, p5.2.1, p5.2.2.1, st.cache, p5.2.2.2) h5.1 h5.2.1 h5.2.2
    hst.cache) (fun p6 h6 => ?_)
  exact Safe.pure ⟨h6.1, h6.2.1, h6.2.2.1, e1, e2, h6.2.2.2⟩

theorem cjWhile_safe (o : CjOps α) {n : Nat} {sp sj tp tj : Array Int} (hS : WFm (patS n sp sj) n) (hT : WFm (patS n tp tj) n) :
    ∀ (fuel : Nat) (st : Ck (CJ α)), Safe st (CJInv n (sp.getD n 0).toNat) → ∀ r,
      cjWhile o n sp sj tp tj fuel st = some r → Safe r (CJInv n (sp.getD n 0).toNat) := by
  intro fuel
  induction fuel with
  | zero =>
    intro st hst r hr
    unfold cjWhile at hr
    split at hr
    · cases hr
    · cases hr; exact hst
  | succ f ih =>
    intro st hst r hr
    unfold cjWhile at hr
    split at hr
    · exact ih _ (Safe.bind hst (fun s hs => cjPass_safe o hS hT s hs)) r hr
    · cases hr; exact hst

/-- **`cljp_naive_splitting`**: `S`, `T` any two structurally valid `n × n` patterns, `splitting` of length `n`, any weights
(for `n = 0` the kernel returns at once), any
number of passes: a run that returns made no access outside `Sp`, `Sj`, `Tp`, `Tj`, `splitting` and its six work arrays -/
theorem cljp_safe (o : CjOps α) (z : α) {n : Nat} {sp sj tp tj : Array Int} (hS : WFm (patS n sp sj) n) (hT : WFm (patS n tp tj) n)
    (spl : Array Int) (hspl : spl.size = n) (colorflag : Int) (rnd : Array α) (fuel : Nat) :
    ∀ r, cljp o z n sp sj tp tj spl colorflag rnd fuel = some r → Safe r (fun spl' => spl'.size = n) := by
  intro r hr
  unfold cljp at hr
  by_cases hn0 : n = 0
  · rw [if_pos hn0] at hr
    have e := (Option.some.inj hr).symm
    rw [e]; exact Safe.pure hspl
  rw [if_neg hn0] at hr
  have hcf : colorflag = 1 → 0 < n := fun _ => by omega
  simp only at hr
  have hsz : sp.size = n + 1 := hS.ap_size
  have hnn : Safe (rd sp (n : Int)) (fun _ => True) :=
    Safe.mono (rd_safe sp (n : Int) (by omega) (by rw [hsz]; omega)) (fun _ _ => trivial)
  have hinit : Safe (do
      let nnz ← rd sp (n : Int)
      let spl ← fillN n 2 spl
      let wt ← (if colorflag = 1 then cjColorWeights o n sp sj (Array.replicate n z)
        else cjRandWeights n rnd (Array.replicate n z))
      let wt ← cjCount o n sp sj wt
      pure (⟨spl, wt, Array.replicate nnz.toNat 1, Array.replicate n 0, Array.replicate n 0, Array.replicate n (-1), (n : Int)⟩ : CJ α))
      (CJInv n (sp.getD n 0).toNat) := by
    refine Safe.bind (rd_safe sp (n : Int) (by omega) (by rw [hsz]; omega)) (fun nnz hnnz => ?_)
    have hnnz' : nnz = sp.getD n 0 := by
      have : (n : Int).toNat = n := by omega
      rw [this] at hnnz; exact hnnz
    refine Safe.bind (fillN_safe n 2 spl hspl) (fun spl0 hspl0 => ?_)
    refine Safe.bind (P := fun wt : Array α => wt.size = n) ?_ (fun wt hwt => ?_)
    · by_cases hc : colorflag = 1
      · rw [if_pos hc]; exact cjColorWeights_safe o (hcf hc) hS _ (by simp)
      · rw [if_neg hc]; exact cjRandWeights_safe n rnd _ (by simp)
    refine Safe.bind (cjCount_safe o hS wt hwt) (fun wt2 hwt2 => ?_)
    exact Safe.pure ⟨hspl0.1, hwt2, by simp [hnnz'], by simp, by simp, by simp⟩
  revert hr
  generalize hl : cjWhile o n sp sj tp tj fuel _ = res
  intro hr
  cases res with
  | none => cases hr
  | some r0 =>
    simp only [Option.map_some] at hr
    have e := (Option.some.inj hr).symm
    rw [e]
    refine Safe.bind (cjWhile_safe o hS hT fuel _ hinit r0 hl) (fun st hst => ?_)
    refine Safe.bind (rd_safe sp (n : Int) (by omega) (by rw [hsz]; omega)) (fun nnz hnnz => ?_)
    have hnnz' : nnz = sp.getD n 0 := by
      have : (n : Int).toNat = n := by omega
      rw [this] at hnnz; exact hnnz
    refine Safe.bind (P := fun _ => True) ?_ (fun _ _ => ?_)
    · refine Safe.mono (forRange_safe (fun em : Array Int => em.size = (sp.getD n 0).toNat) _ _ _ _ hst.em ?_) (fun _ _ => trivial)
      intro i i0 i1 em hem
      refine Safe.bind (rd_safe em i i0 (by rw [hem]; omega)) (fun m _ => ?_)
      by_cases hm : m = 0
      · rw [if_pos hm]
        exact Safe.mono (wr_safe em i (-1) i0 (by rw [hem]; omega)) (fun e' h => by rw [h, hem])
      · rw [if_neg hm]; exact Safe.pure hem
    · apply forRange_safe (fun spl' : Array Int => spl'.size = n) _ _ _ _ hst.spl
      intro i i0 i1 spl' hs
      refine Safe.bind (rd_safe spl' i i0 (by rw [hs]; omega)) (fun s _ => ?_)
      by_cases h2 : s = 2
      · rw [if_pos h2]
        exact Safe.mono (wr_safe spl' i 0 i0 (by rw [hs]; omega)) (fun s' h => by rw [h, hs])
      · rw [if_neg h2]; exact Safe.pure hs

end PyamgV.C17R4
