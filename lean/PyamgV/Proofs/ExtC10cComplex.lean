import PyamgV.Proofs.ExtC10cCG
import PyamgV.Proofs.CRatStar
import PyamgV.Model.ExtC10cComplex
import Mathlib.LinearAlgebra.Matrix.ConjTranspose

/-! PyamgV (extension E48, property C10): complex energy minimisation and complex prolongation smoothing.

* the constraint theorem over a commutative ring with involution: with `Bh = Bᴴ` the local Gram matrix of
  `satisfy_constraints` is the conjugated, Hermitian `B_Jᴴ B_J` (`gram_conj`, `gram_conj_hermitian`), and
  whenever `BtBinv[i]` inverts it every projected update annihilates `B_c`, so `(P − T)·B_c = 0` for any
  sequence of updates generated from projected matrices (`conj_updates_constraint`);
* the executable models on Gaussian rationals (`Model/ExtC10cComplex.lean`, run by the driver in
  `ext_c10c_energy`, `ext_c10c_gmres`, `ext_c10c_jacf`): the property holds on every input on which they
  return (`cgC_run_property`, `cgC_run_plain`, `gmresC_run_property`, `filteredC_run_property`) -- instances
  of the theorems over an arbitrary field and an arbitrary conjugation function;
* filtered Jacobi for any field (`filtered_run_property`): `P'·B_c = P·B_c`, every update annihilates `B_c`
  and no entry outside the union of the step patterns changes. -/
namespace PyamgV.C10c
open PyamgV PyamgV.C10M PyamgV.C10bM PyamgV.C10b PyamgV.C10cM Matrix
set_option linter.unusedSectionVars false
set_option linter.unusedVariables false

/-! ### rings with involution -/
section star
variable {K : Type*} [CommRing K] [StarRing K]
variable {m n k : Type*} [Fintype n] [Fintype k] [DecidableEq n] [DecidableEq k]

/-- with `Bh = Bᴴ` the local Gram matrix is the conjugated one: `Σ_{j ∈ J i} conj(B[j,a])·B[j,b]` -/
theorem gram_conj (J : m → Finset n) (B : Matrix n k K) (i : m) (a b : k) :
    C10.gram J Bᴴ B i a b = ∑ j ∈ J i, star (B j a) * B j b := rfl

/-- ... and Hermitian -/
theorem gram_conj_hermitian (J : m → Finset n) (B : Matrix n k K) (i : m) :
    (C10.gram J Bᴴ B i)ᴴ = C10.gram J Bᴴ B i := by
  ext a b
  rw [Matrix.conjTranspose_apply, gram_conj, gram_conj, star_sum]
  apply Finset.sum_congr rfl
  intro j _
  rw [star_mul', star_star, mul_comm]

/-- `satisfy_constraints(U, B, BtBinv)` with `Bᴴ` and local inverses of the conjugated Gram matrices
returns `U` with `U·B = 0` -/
theorem satisfy_constraints_conj (J : m → Finset n) (Z : m → Matrix k k K) (B : Matrix n k K) (U : Matrix m n K)
    (h : ∀ i, Z i * C10.gram J Bᴴ B i = 1) : C10.project J Z Bᴴ (U * B) U * B = 0 :=
  C10.satisfy_constraints_spec J Z Bᴴ B U (fun i => by rw [h i, Matrix.vecMul_one])

/-- **complex energy minimisation keeps the constraint**: any sequence of updates `T ← T + α·X` whose
directions are generated (left scaling, linear combination: preconditioner, `beta`, Arnoldi and least-squares
coefficients) from matrices projected with `Bᴴ` satisfies `(P − T)·B_c = 0` -/
theorem conj_updates_constraint [Fintype m] (J : m → Finset n) (Z : m → Matrix k k K) (B : Matrix n k K)
    (h : ∀ i, Z i * C10.gram J Bᴴ B i = 1) (T : Matrix m n K) (ups : List (K × Matrix m n K))
    (hups : ∀ u ∈ ups, C10.Gen (fun X => C10.project J Z Bᴴ (X * B) X) u.2) :
    (C10.applyUpdates T ups - T) * B = 0 := by
  rw [Matrix.sub_mul, C10.updates_keep_product B ups T (fun u hu =>
    C10.gen_constrained _ B (fun X => satisfy_constraints_conj J Z B X h) u.2 (hups u hu)), sub_self]

end star

/-! ### filtered Jacobi, any field, any conjugation -/
section filtered
variable {K : Type} [Field K] [DecidableEq K] {n m : Nat}

/-- invariant of the filtered loop -/
def FInv (n m nd rpb cpb : Nat) (pats : List Pat) (B P0 : Mat K) (st : Mat K × List (Mat K)) : Prop :=
  Dim n m st.1 ∧ toMx n m st.1 * toMx m nd B = toMx n m P0 * toMx m nd B ∧
  (∀ U ∈ st.2, toMx n m U * toMx m nd B = 0) ∧
  (∀ i j, i < n → j < m → (∀ pat ∈ pats, ¬ ((pat.getD (i / rpb) #[]).contains (j / cpb) = true)) →
    st.1.get i j = P0.get i j)

theorem filtered_fold (conj : K → K) (rpb cpb nd : Nat) (M B P0 : Mat K) (all : List Pat)
    (hn : 0 < n) (hr : 0 < rpb) (hc : 0 < cpb) (hM : M.rows = n) (hB : B.cols = nd) :
    ∀ (pats : List Pat) (st : Mat K × List (Mat K)) (out : Mat K × List (Mat K)),
      (∀ pat ∈ pats, pat ∈ all ∧ PatIn m cpb pat) → FInv n m nd rpb cpb all B P0 st →
      pats.foldl (fun (st : Option (Mat K × List (Mat K))) pat =>
        match st with
        | none => none
        | some (P, us) =>
          let U := maskDense rpb cpb pat (Mat.mul M P)
          (satisfyDense conj rpb cpb nd pat U B).map (fun U' => (Mat.sub P U', us ++ [U']))) (some st) = some out →
      FInv n m nd rpb cpb all B P0 out := by
  intro pats
  induction pats with
  | nil =>
    intro st out _ hst h
    simp only [List.foldl_nil, Option.some.injEq] at h
    rw [← h]; exact hst
  | cons pat pats ih =>
    intro st out hp hst h
    rw [List.foldl_cons] at h
    obtain ⟨P, us⟩ := st
    dsimp only at h
    cases hU : satisfyDense conj rpb cpb nd pat (maskDense rpb cpb pat (Mat.mul M P)) B with
    | none =>
      rw [hU] at h
      simp only [Option.map_none] at h
      have : ∀ l : List Pat, l.foldl (fun (st : Option (Mat K × List (Mat K))) pat =>
          match st with
          | none => none
          | some (P, us) =>
            let U := maskDense rpb cpb pat (Mat.mul M P)
            (satisfyDense conj rpb cpb nd pat U B).map (fun U' => (Mat.sub P U', us ++ [U']))) none = none := by
        intro l; induction l with
        | nil => rfl
        | cons x l ihl => rw [List.foldl_cons]; exact ihl
      rw [this pats] at h
      cases h
    | some U' =>
      rw [hU] at h
      simp only [Option.map_some] at h
      obtain ⟨hpall, hpin⟩ := hp pat (List.mem_cons_self ..)
      have hW : Dim n m (Mat.mul M P) := by
        unfold Mat.mul; rw [hM, hst.1.2]; exact dim_ofFn n m hn _
      have hg := good_proj conj rpb cpb nd pat B _ U' hn hr hc hB hpin hW hU
      refine ih (Mat.sub P U', us ++ [U']) out (fun q hq => hp q (List.mem_cons_of_mem _ hq)) ?_ h
      refine ⟨dim_sub n m hn P U' hst.1, ?_, ?_, ?_⟩
      · show toMx n m (Mat.sub P U') * toMx m nd B = _
        rw [toMx_sub n m P U' hst.1, Matrix.sub_mul, hg.2.1, sub_zero]; exact hst.2.1
      · intro U hUm
        rcases List.mem_append.1 hUm with h1 | h1
        · exact hst.2.2.1 U h1
        · have : U = U' := by simpa using h1
          rw [this]; exact hg.2.1
      · intro i j hi hj hall
        show (Mat.sub P U').get i j = _
        unfold Mat.sub
        rw [ofFn_get' _ _ _ i j (by rw [hst.1.1]; exact hi) (by rw [hst.1.2]; exact hj),
          hg.2.2 i j hi hj (hall pat hpall), sub_zero]
        exact hst.2.2.2 i j hi hj hall

/-- **filtered Jacobi prolongation smoothing, executable model, every input on which it returns**:
`P'·B_c = P·B_c`, every projected update annihilates `B_c`, no entry outside the union of the step patterns
changes (any scaled matrix `M`: diagonal / local / block weighting, any `omega`, any degree) -/
theorem filtered_run_property (conj : K → K) (rpb cpb nd : Nat) (M B P : Mat K) (pats : List Pat)
    (out : Mat K × List (Mat K))
    (hn : 0 < n) (hr : 0 < rpb) (hc : 0 < cpb) (hM : M.rows = n) (hP : Dim n m P) (hB : B.cols = nd)
    (hpat : ∀ pat ∈ pats, PatIn m cpb pat)
    (h : filteredLoop conj rpb cpb nd M B pats P = some out) :
    toMx n m out.1 * toMx m nd B = toMx n m P * toMx m nd B ∧
    (∀ U ∈ out.2, toMx n m U * toMx m nd B = 0) ∧
    (∀ (i : Fin n) (j : Fin m), (∀ pat ∈ pats, ¬ ((pat.getD (i.val / rpb) #[]).contains (j.val / cpb) = true)) →
      toMx n m out.1 i j = toMx n m P i j) := by
  unfold filteredLoop at h
  have := filtered_fold conj rpb cpb nd M B P pats hn hr hc hM hB pats (P, []) out
    (fun pat hp => ⟨hp, hpat pat hp⟩)
    ⟨hP, rfl, fun U hU => (by cases hU), fun _ _ _ _ _ => rfl⟩ h
  exact ⟨this.2.1, this.2.2.1, fun i j hall => this.2.2.2 i.val j.val i.isLt j.isLt hall⟩

end filtered

/-! ### the models on Gaussian rationals (the functions the driver runs) -/
section crat
variable {n m : Nat}

/-- **complex CG / CGNR energy minimisation, executable model, every input** (`conj = CRat.conj`: local Gram
matrices `B_Jᴴ B_J`, correction `Y Z B_Jᴴ`, `Aᴴ` of cgnr, Frobenius product) -/
theorem cgC_run_property (cgnr : Bool) (rpb cpb nd : Nat) (pat : Pat) (A : Mat CRat)
    (pre : Precond CRat) (T B : Mat CRat) (maxiter : Nat) (tol : CRat) (cpts : Array Nat)
    (hn : 0 < n) (hr : 0 < rpb) (hc : 0 < cpb) (hA : Dim n n A) (hT : Dim n m T) (hB : B.cols = nd)
    (hpat : PatIn m cpb pat) (hpre : PreOK rpb pre) :
    (∀ i : Fin n, rootIdx cpts i.val = none →
      (∀ c : Fin nd, (toMx n m (energyCGC cgnr rpb cpb nd pat A pre T B maxiter tol cpts).T * toMx m nd B) i c =
        (toMx n m T * toMx m nd B) i c) ∧
      (∀ j : Fin m, ¬ ((pat.getD (i.val / rpb) #[]).contains (j.val / cpb) = true) →
        toMx n m (energyCGC cgnr rpb cpb nd pat A pre T B maxiter tol cpts).T i j = toMx n m T i j)) ∧
    (∀ (i : Fin n) (k : Nat), rootIdx cpts i.val = some k →
      (∀ j : Fin m, toMx n m (energyCGC cgnr rpb cpb nd pat A pre T B maxiter tol cpts).T i j = toMx n m T i j) ∨
      (∀ j : Fin m, toMx n m (energyCGC cgnr rpb cpb nd pat A pre T B maxiter tol cpts).T i j =
        if k = j.val then 1 else 0)) :=
  cg_run_property CRat.conj cratLt cgnr rpb cpb nd pat A pre T B maxiter tol cpts hn hr hc hA hT hB hpat hpre

/-- without root nodes: `(P − T)·B_c = 0` over the Gaussian rationals and `supp(P − T) ⊆ pattern` -/
theorem cgC_run_plain (cgnr : Bool) (rpb cpb nd : Nat) (pat : Pat) (A : Mat CRat)
    (pre : Precond CRat) (T B : Mat CRat) (maxiter : Nat) (tol : CRat)
    (hn : 0 < n) (hr : 0 < rpb) (hc : 0 < cpb) (hA : Dim n n A) (hT : Dim n m T) (hB : B.cols = nd)
    (hpat : PatIn m cpb pat) (hpre : PreOK rpb pre) :
    (toMx n m (energyCGC cgnr rpb cpb nd pat A pre T B maxiter tol #[]).T - toMx n m T) * toMx m nd B = 0 ∧
    (∀ (i : Fin n) (j : Fin m), ¬ ((pat.getD (i.val / rpb) #[]).contains (j.val / cpb) = true) →
      toMx n m (energyCGC cgnr rpb cpb nd pat A pre T B maxiter tol #[]).T i j = toMx n m T i j) := by
  obtain ⟨h1, h2⟩ := cg_run_plain CRat.conj cratLt cgnr rpb cpb nd pat A pre T B maxiter tol hn hr hc hA hT hB hpat hpre
  refine ⟨?_, h2⟩
  rw [Matrix.sub_mul]
  exact sub_eq_zero.2 h1

/-- **complex GMRES energy minimisation, executable model, every input on which it returns** -/
theorem gmresC_run_property (rpb cpb nd : Nat) (pat : Pat) (A : Mat CRat) (pre : Precond CRat)
    (T B : Mat CRat) (maxiter : Nat) (tol : CRat) (cpts : Array Nat) (out : EnergyGmresOut CRat)
    (hn : 0 < n) (hr : 0 < rpb) (hc : 0 < cpb) (hA : A.rows = n) (hT : Dim n m T) (hB : B.cols = nd)
    (hpat : PatIn m cpb pat) (hpre : PreOK rpb pre)
    (hrun : energyGmresC rpb cpb nd pat A pre T B maxiter tol cpts = some out) :
    toMx n m out.core.T * toMx m nd B = toMx n m T * toMx m nd B ∧
    (∀ (i : Fin n) (j : Fin m), ¬ ((pat.getD (i.val / rpb) #[]).contains (j.val / cpb) = true) →
      toMx n m out.core.T i j = toMx n m T i j) ∧
    out.T = resetRoots cpts out.core.T :=
  gmres_run_property cratScal rpb cpb nd pat A pre T B maxiter tol cpts out hn hr hc hA hT hB hpat hpre hrun

/-- the preconditioners `mkPrecondC` builds are accepted (`PreOK`) when the block size is the row block size -/
theorem mkPrecondC_ok (weighting bs : Nat) (A : Mat CRat) (aux : Array CRat) (pre : Precond CRat)
    (h : mkPrecondC weighting bs A aux = some pre) : PreOK bs pre :=
  mkPrecond_ok weighting bs A aux pre h

/-- **complex filtered Jacobi, executable model, every input on which it returns** -/
theorem filteredC_run_property (rpb cpb nd : Nat) (M B P : Mat CRat) (pats : List Pat)
    (out : Mat CRat × List (Mat CRat))
    (hn : 0 < n) (hr : 0 < rpb) (hc : 0 < cpb) (hM : M.rows = n) (hP : Dim n m P) (hB : B.cols = nd)
    (hpat : ∀ pat ∈ pats, PatIn m cpb pat)
    (h : filteredLoopC rpb cpb nd M B pats P = some out) :
    toMx n m out.1 * toMx m nd B = toMx n m P * toMx m nd B ∧
    (∀ U ∈ out.2, toMx n m U * toMx m nd B = 0) ∧
    (∀ (i : Fin n) (j : Fin m), (∀ pat ∈ pats, ¬ ((pat.getD (i.val / rpb) #[]).contains (j.val / cpb) = true)) →
      toMx n m out.1 i j = toMx n m P i j) :=
  filtered_run_property CRat.conj rpb cpb nd M B P pats out hn hr hc hM hP hB hpat h

end crat

/-! ### non-vacuity: a concrete complex run

`A = [[2, i], [-i, 3]]` (Hermitian), `T = I`, `B_c = (1, i)ᵀ`, full 2×2 pattern, diagonal preconditioner:
the hypotheses of `cgC_run_plain` hold and the run makes a real update (`T' ≠ T`). -/

def exAc : Mat CRat := #[#[⟨2, 0⟩, ⟨0, 1⟩], #[⟨0, -1⟩, ⟨3, 0⟩]]
def exTc : Mat CRat := #[#[1, 0], #[0, 1]]
def exBc : Mat CRat := #[#[1], #[⟨0, 1⟩]]
def exPat : Pat := #[#[0, 1], #[0, 1]]
def exPre : Precond CRat := .rows #[⟨1 / 2, 0⟩, ⟨1 / 3, 0⟩]

theorem exPat_in : PatIn 2 1 exPat := by
  intro ib hib jb hjb
  have hib' : ib < 2 := hib
  have : ∀ x ∈ (#[0, 1] : Array Nat).toList, (x + 1) * 1 ≤ 2 := by decide
  interval_cases ib <;> exact this jb hjb

theorem exC_plain (cgnr : Bool) :
    (toMx 2 2 (energyCGC cgnr 1 1 1 exPat exAc exPre exTc exBc 2 0 #[]).T - toMx 2 2 exTc) * toMx 2 1 exBc = 0 :=
  (cgC_run_plain cgnr 1 1 1 exPat exAc exPre exTc exBc 2 0 (by decide) (by decide) (by decide)
    ⟨rfl, rfl⟩ ⟨rfl, rfl⟩ rfl exPat_in trivial).1

/-- the run is not the trivial one: two updates are made and `T` changes -/
theorem exC_moves : (energyCGC false 1 1 1 exPat exAc exPre exTc exBc 2 0 #[]).ups.length = 2 ∧
    (energyCGC false 1 1 1 exPat exAc exPre exTc exBc 2 0 #[]).T ≠ exTc := by decide +kernel

#print axioms conj_updates_constraint
#print axioms filtered_run_property
#print axioms cgC_run_property
#print axioms cgC_run_plain
#print axioms gmresC_run_property
#print axioms exC_moves
end PyamgV.C10c
