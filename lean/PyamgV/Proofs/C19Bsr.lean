import PyamgV.Proofs.C19Scale

/-! PyamgV (C19): BSR scaling.  Expanding a BSR matrix to scalar rows commutes with the scalings:
`bsrExpand (bsrScaleRows v b) = scaleMajor v (bsrExpand b)` and the same for columns, so the BSR
branch of `scale_rows` / `scale_columns` is `diag(v) A` / `A diag(v)` by `scaleMajor_spec` /
`scaleMinor_spec`. -/
namespace PyamgV.C19

variable {K : Type} [Mul K] [OfNat K 0]

theorem rd_range_map (N : Nat) (F : Nat → K) (t : Nat) (ht : t < N) :
    rd ((Array.range N).map F) t = F t := by
  unfold rd
  simp [Array.getD_eq_getD_getElem?, ht]

/-- scalar rows of one block row -/
def expRow (R C : Nat) (r : List (Nat × Array K)) : Rows K :=
  (List.range R).map fun bi =>
    r.flatMap fun jb => (List.range C).map fun bj => (C * jb.1 + bj, rd jb.2 (C * bi + bj))

theorem bsrExpand_eq (R C : Nat) (b : BRows K) : bsrExpand R C b = b.flatMap (expRow R C) := rfl

theorem mapIdx_range_map {β γ : Type} (R : Nat) (F : Nat → β) (G : Nat → β → γ) :
    ((List.range R).map F).mapIdx G = (List.range R).map (fun k => G k (F k)) := by
  apply List.ext_getElem?
  intro i
  by_cases h : i < R
  · simp [List.getElem?_mapIdx, h]
  · simp [List.getElem?_mapIdx, h]

/-- `mapIdx` over a `flatMap` whose pieces all have length `R` -/
theorem mapIdx_flatMap_uniform {β γ δ : Type} (R : Nat) (l : List β) (g : β → List γ) (h : Nat → γ → δ)
    (hg : ∀ x ∈ l, (g x).length = R) :
    (l.flatMap g).mapIdx h = (l.mapIdx fun i x => (g x).mapIdx fun k y => h (R * i + k) y).flatten := by
  induction l using List.reverseRecOn with
  | nil => simp
  | append_singleton l a ih =>
    have hl : ∀ x ∈ l, (g x).length = R := fun x hx => hg x (List.mem_append_left _ hx)
    have hlen : (l.flatMap g).length = R * l.length := by
      clear ih hg
      induction l with
      | nil => simp
      | cons x t iht =>
        simp only [List.flatMap_cons, List.length_append, List.length_cons]
        rw [iht (fun y hy => hl y (List.mem_cons_of_mem _ hy)), hl x List.mem_cons_self]
        rw [Nat.mul_add, Nat.mul_one, Nat.add_comm]
    rw [List.flatMap_append, List.mapIdx_append, ih hl, List.mapIdx_append, List.flatten_append]
    simp only [List.flatMap_cons, List.flatMap_nil, List.append_nil, List.mapIdx_cons, List.mapIdx_nil,
      List.flatten_cons, List.flatten_nil, List.length_nil, Nat.zero_add, hlen]
    congr 1
    apply List.ext_getElem?
    intro k
    simp only [List.getElem?_mapIdx]
    cases (g a)[k]? with
    | none => rfl
    | some y => simp [Nat.add_comm]

theorem expRow_length (R C : Nat) (r : List (Nat × Array K)) : (expRow R C r).length = R := by
  simp [expRow]

/-- one block row: expanding the scaled blocks = scaling the expanded rows (row scaling) -/
theorem expRow_scaleRows (R C : Nat) (v : Array K) (i : Nat) (r : List (Nat × Array K)) :
    expRow R C (r.map fun jb => (jb.1, (Array.range (R * C)).map fun t => rd jb.2 t * rd v (R * i + t / C)))
      = (expRow R C r).mapIdx fun k row => row.map fun cv => (cv.1, cv.2 * rd v (R * i + k)) := by
  unfold expRow
  rw [mapIdx_range_map]
  apply List.map_congr_left
  intro bi hbi
  have hbi' : bi < R := List.mem_range.mp hbi
  rw [List.flatMap_map, List.map_flatMap]
  apply List.flatMap_congr
  intro jb _
  rw [List.map_map]
  apply List.map_congr_left
  intro bj hbj
  have hbj' : bj < C := List.mem_range.mp hbj
  have hC : 0 < C := Nat.lt_of_le_of_lt (Nat.zero_le _) hbj'
  have hlt : C * bi + bj < R * C := by
    calc C * bi + bj < C * bi + C := Nat.add_lt_add_left hbj' _
      _ = C * (bi + 1) := by rw [Nat.mul_add, Nat.mul_one]
      _ ≤ C * R := Nat.mul_le_mul_left _ hbi'
      _ = R * C := Nat.mul_comm _ _
  have hdiv : (C * bi + bj) / C = bi := by
    rw [Nat.add_comm, Nat.add_mul_div_left _ _ hC, Nat.div_eq_of_lt hbj', Nat.zero_add]
  simp only [Function.comp_def]
  rw [rd_range_map _ _ _ hlt, hdiv]

/-- **BSR row scaling commutes with the expansion to scalar rows** -/
theorem bsrExpand_scaleRows (R C : Nat) (v : Array K) (b : BRows K) :
    bsrExpand R C (bsrScaleRows R C v b) = scaleMajor v (bsrExpand R C b) := by
  rw [bsrExpand_eq, bsrExpand_eq]
  unfold scaleMajor bsrScaleRows
  rw [mapIdx_flatMap_uniform R b (expRow R C) _ (fun x _ => expRow_length R C x)]
  rw [List.flatMap_def]
  congr 1
  apply List.ext_getElem?
  intro i
  simp only [List.getElem?_map, List.getElem?_mapIdx]
  cases b[i]? with
  | none => rfl
  | some r => simp only [Option.map_some]; rw [expRow_scaleRows]

/-- one block row, column scaling -/
theorem expRow_scaleCols (R C : Nat) (v : Array K) (r : List (Nat × Array K)) :
    expRow R C (r.map fun jb => (jb.1, (Array.range (R * C)).map fun t => rd jb.2 t * rd v (C * jb.1 + t % C)))
      = (expRow R C r).map fun row => row.map fun cv => (cv.1, cv.2 * rd v cv.1) := by
  unfold expRow
  rw [List.map_map]
  apply List.map_congr_left
  intro bi hbi
  have hbi' : bi < R := List.mem_range.mp hbi
  simp only [Function.comp_def]
  rw [List.flatMap_map, List.map_flatMap]
  apply List.flatMap_congr
  intro jb _
  rw [List.map_map]
  apply List.map_congr_left
  intro bj hbj
  have hbj' : bj < C := List.mem_range.mp hbj
  have hlt : C * bi + bj < R * C := by
    calc C * bi + bj < C * bi + C := Nat.add_lt_add_left hbj' _
      _ = C * (bi + 1) := by rw [Nat.mul_add, Nat.mul_one]
      _ ≤ C * R := Nat.mul_le_mul_left _ hbi'
      _ = R * C := Nat.mul_comm _ _
  have hmod : (C * bi + bj) % C = bj := by
    rw [Nat.mul_add_mod, Nat.mod_eq_of_lt hbj']
  simp only [Function.comp_def]
  rw [rd_range_map _ _ _ hlt, hmod]

/-- **BSR column scaling commutes with the expansion to scalar rows** -/
theorem bsrExpand_scaleCols (R C : Nat) (v : Array K) (b : BRows K) :
    bsrExpand R C (bsrScaleCols R C v b) = scaleMinor v (bsrExpand R C b) := by
  rw [bsrExpand_eq, bsrExpand_eq]
  unfold scaleMinor bsrScaleCols
  rw [List.flatMap_map, List.map_flatMap]
  apply List.flatMap_congr
  intro r _
  exact expRow_scaleCols R C v r

#print axioms bsrExpand_scaleRows
#print axioms bsrExpand_scaleCols
end PyamgV.C19
