import PyamgV.Proofs.GsRefine
import Mathlib.Algebra.BigOperators.Group.Finset.Basic
import Mathlib.Algebra.BigOperators.Group.Finset.Piecewise
import Mathlib.Algebra.BigOperators.Ring.Finset
import Mathlib.Algebra.BigOperators.Pi
import Mathlib.Algebra.Module.Pi
import Mathlib.Algebra.Order.BigOperators.Group.Finset

/-! PyamgV: from CSR rows to the energy statement — one Gauss–Seidel row update never increases
the energy of the error (kernel model ⟶ T1). Carrier `Nat → K`, first `n` coordinates live. -/
namespace PyamgV
open Finset

variable {K : Type*} [Field K] [LinearOrder K] [IsStrictOrderedRing K] [DecidableEq K]

/-- Euclidean form on the first `n` coordinates of `Nat → K` -/
def euc (K : Type*) [Field K] [LinearOrder K] [IsStrictOrderedRing K] (n : Nat) : EForm K (Nat → K) where
  a := LinearMap.mk₂ K (fun u v => ∑ i ∈ range n, u i * v i)
    (by intro u u' v; simp [add_mul, sum_add_distrib])
    (by intro c u v; simp [mul_sum, mul_assoc])
    (by intro u v v'; simp [mul_add, sum_add_distrib])
    (by intro c u v; simp [mul_sum, mul_left_comm])
  symm := by intro u v; simp [LinearMap.mk₂_apply, mul_comm]
  nonneg := by
    intro v; simp only [LinearMap.mk₂_apply]
    exact sum_nonneg (fun i _ => mul_self_nonneg (v i))

@[simp] theorem euc_apply (n : Nat) (u v : Nat → K) : (euc K n).a u v = ∑ i ∈ range n, u i * v i := rfl

theorem rowDot_add (row : Row K) (u v : Nat → K) : rowDot row (u + v) = rowDot row u + rowDot row v := by
  unfold rowDot; induction row with
  | nil => simp
  | cons cv rest ih =>
    simp only [List.map_cons, List.sum_cons, Pi.add_apply] at ih ⊢
    rw [ih]; ring

theorem rowDot_smul (row : Row K) (c : K) (u : Nat → K) : rowDot row (c • u) = c * rowDot row u := by
  unfold rowDot; induction row with
  | nil => simp
  | cons cv rest ih =>
    simp only [List.map_cons, List.sum_cons, Pi.smul_apply, smul_eq_mul] at ih ⊢
    rw [ih]; ring

/-- the operator of a CSR matrix given by its rows -/
def csrOp (n : Nat) (rows : Nat → Row K) : (Nat → K) →ₗ[K] (Nat → K) where
  toFun u := fun i => if i < n then rowDot (rows i) u else 0
  map_add' u v := by funext i; by_cases h : i < n <;> simp [h, rowDot_add]
  map_smul' c u := by funext i; by_cases h : i < n <;> simp [h, rowDot_smul]

@[simp] theorem csrOp_apply (n : Nat) (rows : Nat → Row K) (u : Nat → K) (i : Nat) (h : i < n) :
    csrOp n rows u i = rowDot (rows i) u := by simp [csrOp, h]

theorem euc_single (n i : Nat) (h : i < n) (w : Nat → K) (c : K) :
    (euc K n).a w (c • Pi.single i 1) = c * w i := by
  simp only [euc_apply, Pi.smul_apply, Pi.single_apply, smul_eq_mul]
  rw [sum_eq_single i]
  · simp; ring
  · intro j _ hj; simp [hj]
  · intro hi; exact absurd (mem_range.2 h) hi

/-- the energy form `a(u,v) = ⟨A u, v⟩` of a symmetric positive semidefinite CSR matrix -/
def energy (n : Nat) (rows : Nat → Row K)
    (hsym : ∀ u v, (euc K n).a (csrOp n rows u) v = (euc K n).a u (csrOp n rows v))
    (hpsd : ∀ v, 0 ≤ (euc K n).a (csrOp n rows v) v) : EForm K (Nat → K) where
  a := (euc K n).a.comp (csrOp n rows)
  symm := by intro u v; simp only [LinearMap.comp_apply]; rw [hsym, (euc K n).symm]
  nonneg := by intro v; simpa using hpsd v

/-- **Kernel-level C02 fact**: one Gauss–Seidel row update (the literal inner loop of the C++
kernel) does not increase the energy of the error, for any symmetric PSD matrix, any `x`. -/
theorem gsRow_energy (n : Nat) (rows : Nat → Row K) (hsym) (hpsd) (i : Nat) (hi : i < n)
    (d : K) (hd : HasDiag i (rows i) d) (b x xs : Nat → K)
    (hxs : ∀ j, j < n → csrOp n rows xs j = b j) :
    (energy n rows hsym hpsd).en (xs - gsRowFn i (rows i) b x) ≤
    (energy n rows hsym hpsd).en (xs - x) := by
  by_cases hd0 : d = 0
  · -- zero diagonal: the kernel leaves x unchanged
    obtain ⟨_, h2⟩ := rowScan_spec i (rows i) x (0, 0)
    have hdiag : (rowScan i (rows i) x).2 = 0 := by
      unfold rowScan; rw [h2]; unfold HasDiag at hd; rw [hd]; simp [hd0]
    have : gsRowFn i (rows i) b x = x := by
      unfold gsRowFn
      rw [show rowScan i (rows i) x = ((rowScan i (rows i) x).1, (rowScan i (rows i) x).2) from rfl]
      simp [hdiag]
    rw [this]
  · set x' := gsRowFn i (rows i) b x with hx'
    -- x' differs from x only in coordinate i
    have hupd : ∃ c : K, x' = x + c • Pi.single i 1 := by
      obtain ⟨_, h2⟩ := rowScan_spec i (rows i) x (0, 0)
      have hdiag : (rowScan i (rows i) x).2 = d := by
        unfold rowScan; rw [h2]; unfold HasDiag at hd; rw [hd]; simp
      refine ⟨(b i - (rowScan i (rows i) x).1) / d - x i, ?_⟩
      rw [hx']; unfold gsRowFn
      rw [show rowScan i (rows i) x = ((rowScan i (rows i) x).1, (rowScan i (rows i) x).2) from rfl]
      simp only [hdiag, hd0, if_false]
      funext j
      by_cases hj : j = i
      · subst hj; simp
      · simp [Function.update_of_ne hj, Pi.single_apply, hj]
    obtain ⟨c, hc⟩ := hupd
    have hres := gsRow_residual_zero i (rows i) b x d hd hd0
    rw [← hx'] at hres
    have key : xs - x' = (xs - x) - c • Pi.single i 1 := by rw [hc]; abel
    rw [key]
    apply EForm.en_sub_le
    -- orthogonality: a(e', c • e_i) = c * (A e')_i = c * (b_i - (A x')_i) = 0
    rw [← key]
    show (euc K n).a (csrOp n rows (xs - x')) (c • Pi.single i 1) = 0
    rw [euc_single n i hi, map_sub]
    simp only [Pi.sub_apply, csrOp_apply n rows x' i hi]
    rw [hxs i hi, hres]; ring

#print axioms gsRow_energy
end PyamgV
