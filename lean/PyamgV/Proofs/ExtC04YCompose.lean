import PyamgV.Proofs.ExtC04YFilter
import PyamgV.Proofs.C04Compose
import PyamgV.Proofs.ExtC04Steps
/-! PyamgV (extension E54, property C04): THE COMPOSITION THEOREM.

The loop of the constructors on sparse levels (`C04Y.buildG` = `Coarsen.build` with `extendG`: the step guards of
E13, the sparse Galerkin product of E27, for AIR the stored-row filter of E50 / C19) returns, for EVERY numerical
step function `num` that hands back well-formed `P`, `R` of the right shapes (`NumOK`), a hierarchy that satisfies
the specification the proved checkers decide:

* `loop_hierOK`   : without filtering, `HierOK sym 0 (hier ..)`: shapes chain, every level non-empty and square,
  rows strictly decrease, `A_{l+1} = R_l A_l P_l` EXACTLY (tolerance 0), `R = Pᵀ / Pᴴ` when the step promises it;
* `loop_hierOKF`  : `air_solver(filter_operator=(lump, theta))`, `HierOKF ⟨theta, lump, slack⟩ sym 0 (toMat A0) (hierF ..)`:
  the step on level 0 works with `filter(A0)`, `A_1 = R_0 filter(A0) P_0`, every coarse level a step was attempted
  on is stored as `filter(R A P)`, an untouched last level as `R A P`;
* `loop_limits`   : the limits clause for the same run (at most `max_levels` levels, every coarsened level larger
  than `max_coarse`, stopped because of `max_levels`, `max_coarse` or a stall);
* `loop_shadow`   : the guard-level shadow of the run is a run of E13's loop `ExtC04.buildC` (whose theorems --
  rows decrease, at most `rows + 1` levels -- therefore hold for it).

So the specification is a theorem about the loop model, not only a per-instance verdict of the checker. -/
namespace PyamgV.C04Y
open PyamgV PyamgV.Spmm PyamgV.ExtC04 PyamgV.C04 PyamgV.C04X PyamgV.Coarsen

/-- what the constructor promises about `R` versus `P` (entry form) -/
def RelPR (sym : Sym) (P R : Csr CRat) : Prop :=
  match sym with
  | .none => True
  | .symm => ∀ i j, R.val i j = P.val j i
  | .herm => ∀ i j, R.val i j = (P.val j i).conj

/-- **the hypothesis on the numerical part of the step**: whenever the guard lets the step proceed to `r` rows on a
well-formed square level matrix, `P` is a well-formed `n x r` matrix, `R` a well-formed `r x n` matrix, `r > 0`, and
`R` is related to `P` as `sym` says.  Nothing else: strength, splitting / aggregation, interpolation, smoothing are
arbitrary. -/
def NumOK (sym : Sym) (num : Lv → Csr CRat → NumOut) : Prop :=
  ∀ (l : Lv) (A : Csr CRat) (r b : Nat), A.wf = true → A.rows = A.cols → A.rows = l.rows →
    step l (num l A).guard = .proceed r b →
    (num l A).P.wf = true ∧ (num l A).R.wf = true ∧ (num l A).P.rows = A.rows ∧ (num l A).P.cols = r ∧
    (num l A).R.rows = r ∧ (num l A).R.cols = A.rows ∧ 0 < r ∧ RelPR sym (num l A).P (num l A).R

/-- the matrix the step works with has the shape of the level matrix and is well formed -/
structure WorkOK (Q : Csr CRat → Prop) (work : Csr CRat → Csr CRat) : Prop where
  wf : ∀ A, A.wf = true → (work A).wf = true
  rows : ∀ A, (work A).rows = A.rows
  cols : ∀ A, (work A).cols = A.cols

/-- a proper level: well formed, square, non-empty, described by its `Lv`; `Q` = an extra invariant of the stored
form (`True`, or `NodupRows` when rows are filtered) -/
structure Base (Q : Csr CRat → Prop) (s : SLv) : Prop where
  wf : s.A.wf = true
  sq : s.A.rows = s.A.cols
  pos : 0 < s.A.rows
  rows : s.A.rows = s.lv.rows
  q : Q s.A

/-- fine level `f`, next coarser level `c`: `c` was produced from `work f.A` by a well-formed step -/
def Link (work : Csr CRat → Csr CRat) (sym : Sym) (f c : SLv) : Prop :=
  ∃ P R, c.via = some (P, R) ∧ c.A = galerkin R (work f.A) P ∧ P.wf = true ∧ R.wf = true ∧
    P.rows = f.A.rows ∧ P.cols = c.A.rows ∧ R.rows = c.A.rows ∧ R.cols = f.A.rows ∧ c.A.rows < f.A.rows ∧
    RelPR sym P R

theorem galerkin_rows (R A P : Csr CRat) : (galerkin R A P).rows = R.rows := rfl
theorem galerkin_cols (R A P : Csr CRat) : (galerkin R A P).cols = P.cols := rfl

/-- one guarded step keeps the invariant -/
theorem extendG_link (Q : Csr CRat → Prop) (work : Csr CRat → Csr CRat) (hw : WorkOK Q work) (sym : Sym)
    (num : Lv → Csr CRat → NumOut) (hnum : NumOK sym num)
    (hQ : ∀ R A P : Csr CRat, P.wf = true → Q (galerkin R A P))
    (l nxt : SLv) (hl : Base Q l) (he : extendG work num l = some nxt) :
    Link work sym l nxt ∧ Base Q nxt ∧ nxt.lv.idx = l.lv.idx + 1 ∧
      step l.lv (num l.lv (work l.A)).guard = .proceed nxt.lv.rows nxt.lv.bs := by
  unfold extendG at he
  split at he
  · rename_i r b hs
    injection he with he
    subst he
    have hwf := hw.wf l.A hl.wf
    have hr := hw.rows l.A
    have hc := hw.cols l.A
    obtain ⟨hP, hR, hPr, hPc, hRr, hRc, hpos, hrel⟩ :=
      hnum l.lv (work l.A) r b hwf (by rw [hr, hc]; exact hl.sq) (by rw [hr]; exact hl.rows) hs
    have hdec : r < l.lv.rows := step_rows_decrease l.lv _ r b hs
    refine ⟨⟨_, _, rfl, rfl, hP, hR, ?_, ?_, ?_, ?_, ?_, hrel⟩, ⟨?_, ?_, ?_, ?_, ?_⟩, rfl, hs⟩
    · rw [hPr, hr]
    · show _ = (galerkin _ _ _).rows; rw [galerkin_rows, hRr, hPc]
    · show _ = (galerkin _ _ _).rows; rw [galerkin_rows]
    · rw [hRc, hr]
    · show (galerkin _ _ _).rows < _; rw [galerkin_rows, hRr, hl.rows]; exact hdec
    · exact galerkin_wf _ _ _ hP
    · show (galerkin _ _ _).rows = (galerkin _ _ _).cols; rw [galerkin_rows, galerkin_cols, hRr, hPc]
    · show 0 < (galerkin _ _ _).rows; rw [galerkin_rows, hRr]; exact hpos
    · show (galerkin _ _ _).rows = r; rw [galerkin_rows, hRr]
    · exact hQ _ _ _ hP
  · cases he

/-- the invariant of the loop: consecutive levels linked, every level proper -/
theorem build_inv (Q : Csr CRat → Prop) (work : Csr CRat → Csr CRat) (hw : WorkOK Q work) (sym : Sym)
    (num : Lv → Csr CRat → NumOut) (hnum : NumOK sym num)
    (hQ : ∀ R A P : Csr CRat, P.wf = true → Q (galerkin R A P))
    (bw : Bool) (ml mc fuel : Nat) (lvs : List SLv)
    (h : Linked (Link work sym) lvs ∧ ∀ s ∈ lvs, Base Q s) :
    Linked (Link work sym) (build (sizeS bw) (extendG work num) ml mc fuel lvs) ∧
      ∀ s ∈ build (sizeS bw) (extendG work num) ml mc fuel lvs, Base Q s := by
  apply build_induct (sizeS bw) (extendG work num) ml mc
    (fun lvs => Linked (Link work sym) lvs ∧ ∀ s ∈ lvs, Base Q s) ?_ fuel lvs h
  intro last rest nxt hinv _ _ he
  obtain ⟨hl, hb⟩ := hinv
  obtain ⟨h1, h2, _, _⟩ := extendG_link Q work hw sym num hnum hQ last nxt (hb last List.mem_cons_self) he
  refine ⟨Linked.cons h1 hl, ?_⟩
  intro s hs
  rcases List.mem_cons.1 hs with rfl | hs
  · exact h2
  · exact hb s hs

/-! ### from the coarsest-first state to a finest-first chain -/

/-- finest first: every level proper, consecutive levels related -/
def ChainOK (Rel : SLv → SLv → Prop) (B : SLv → Prop) : List SLv → Prop
  | [] => True
  | [s] => B s
  | s :: t :: rest => B s ∧ Rel s t ∧ ChainOK Rel B (t :: rest)

theorem chainOK_snoc (Rel : SLv → SLv → Prop) (B : SLv → Prop) (b a : SLv) (hr : Rel b a) (ha : B a) :
    ∀ l : List SLv, ChainOK Rel B (l ++ [b]) → ChainOK Rel B (l ++ [b, a]) := by
  intro l
  induction l with
  | nil => intro h; exact ⟨h, hr, ha⟩
  | cons x l ih =>
    cases l with
    | nil => intro h; exact ⟨h.1, h.2.1, h.2.2, hr, ha⟩
    | cons y l' => intro h; exact ⟨h.1, h.2.1, ih h.2.2⟩

theorem chainOK_reverse (Rel : SLv → SLv → Prop) (B : SLv → Prop) (lvs : List SLv)
    (hl : Linked Rel lvs) (hb : ∀ s ∈ lvs, B s) : ChainOK Rel B lvs.reverse := by
  induction hl with
  | nil => trivial
  | single a => exact hb a List.mem_cons_self
  | @cons a b rest hrel _ ih =>
    have h1 := ih (fun s hs => hb s (List.mem_cons_of_mem _ hs))
    have : (a :: b :: rest).reverse = rest.reverse ++ [b, a] := by simp
    rw [this]
    apply chainOK_snoc Rel B b a hrel (hb a List.mem_cons_self)
    simpa using h1

/-! ### one pair of levels -/

theorem n1_zero : n1 (0 : CRat) = 0 := by
  show rabs (0 : Rat) + rabs (0 : Rat) = 0
  simp [rabs]

/-- shapes, decrease, `R` versus `P` of a linked pair; `Af`, `cA`: the stored matrices (any with the right shapes) -/
theorem shapeOK_of_link (Q : Csr CRat → Prop) (work : Csr CRat → Csr CRat) (hw : WorkOK Q work) (sym : Sym)
    (f c : SLv) (hf : Base Q f) (hc : Base Q c) (hl : Link work sym f c) (cA : Csr CRat)
    (hcr : cA.rows = c.A.rows) (hcc : cA.cols = c.A.cols) :
    ShapeOK sym ⟨toMat (work f.A), viaP c, viaR c⟩ (toMat cA) := by
  obtain ⟨P, R, hvia, _, hP, hR, hPr, hPc, hRr, hRc, hdec, hrel⟩ := hl
  have hvP : viaP c = toMat P := by unfold viaP; rw [hvia]
  have hvR : viaR c = toMat R := by unfold viaR; rw [hvia]
  rw [hvP, hvR]
  refine ⟨⟨toMat_wf _, toMat_wf _, toMat_wf _, toMat_wf _⟩, ?_, ?_, ?_, ?_, ?_, ?_, ?_, ?_⟩
  · show (work f.A).rows = (work f.A).cols; rw [hw.rows, hw.cols]; exact hf.sq
  · show cA.rows = cA.cols; rw [hcr, hcc]; exact hc.sq
  · show P.rows = (work f.A).rows; rw [hw.rows]; exact hPr
  · show P.cols = cA.rows; rw [hcr]; exact hPc
  · show R.rows = cA.rows; rw [hcr]; exact hRr
  · show R.cols = (work f.A).rows; rw [hw.rows]; exact hRc
  · show cA.rows < (work f.A).rows; rw [hcr, hw.rows]; exact hdec
  · cases sym with
    | none => trivial
    | symm =>
      intro i hi j hj
      have hi' : i < R.rows := hi
      have hj' : j < R.cols := hj
      rw [toMat_ent R i j hi' hj', toMat_ent P j i (by omega) (by omega)]
      exact hrel i j
    | herm =>
      intro i hi j hj
      have hi' : i < R.rows := hi
      have hj' : j < R.cols := hj
      rw [toMat_ent R i j hi' hj', toMat_ent P j i (by omega) (by omega)]
      exact hrel i j

/-- the checker's dense reference product of a linked pair is the meaning of the stored coarse matrix -/
theorem product_of_link (Q : Csr CRat → Prop) (work : Csr CRat → Csr CRat) (hw : WorkOK Q work) (sym : Sym)
    (f c : SLv) (hf : Base Q f) (hl : Link work sym f c) (i j : Nat) (hi : i < c.A.rows) (hj : j < c.A.cols) :
    ((viaR c).mul ((toMat (work f.A)).mul (viaP c))).ent i j = c.A.val i j := by
  obtain ⟨P, R, hvia, hA, hP, hR, hPr, hPc, hRr, hRc, _, _⟩ := hl
  have hvP : viaP c = toMat P := by unfold viaP; rw [hvia]
  have hvR : viaR c = toMat R := by unfold viaR; rw [hvia]
  rw [hvP, hvR, hA]
  rw [hA, galerkin_rows] at hi
  rw [hA, galerkin_cols] at hj
  exact CRatInst.checker_product_eq_model R (work f.A) P hR (hw.wf _ hf.wf) hP (by rw [hRc, hw.rows])
    (by rw [hw.cols, ← hf.sq, hPr]) i j hi hj

/-- **a linked pair satisfies the pair clause of the specification exactly** -/
theorem pairOK_of_link (Q : Csr CRat → Prop) (work : Csr CRat → Csr CRat) (hw : WorkOK Q work) (sym : Sym)
    (f c : SLv) (hf : Base Q f) (hc : Base Q c) (hl : Link work sym f c) :
    PairOK sym 0 ⟨toMat (work f.A), viaP c, viaR c⟩ (toMat c.A) := by
  have hs := shapeOK_of_link Q work hw sym f c hf hc hl c.A rfl rfl
  refine ⟨hs.wf, hs.squareF, hs.squareC, hs.pRows, hs.pCols, hs.rRows, hs.rCols, hs.decr, ?_, hs.transpose⟩
  intro i hi j hj
  have hi' : i < c.A.rows := hi
  have hj' : j < c.A.cols := hj
  show n1 ((toMat c.A).ent i j - ((viaR c).mul ((toMat (work f.A)).mul (viaP c))).ent i j) ≤ _
  rw [product_of_link Q work hw sym f c hf hl i j hi' hj', toMat_ent c.A i j hi' hj', sub_self, n1_zero, zero_mul]

/-! ### without filtering -/

theorem workOK_id : WorkOK (fun _ => True) id := ⟨fun _ h => h, fun _ => rfl, fun _ => rfl⟩

theorem hierOK_of_chain (sym : Sym) :
    ∀ fl : List SLv, fl ≠ [] → ChainOK (Link id sym) (Base fun _ => True) fl → HierOK sym 0 (chain fl) := by
  intro fl
  induction fl with
  | nil => intro h; exact absurd rfl h
  | cons s rest ih =>
    cases rest with
    | nil =>
      intro _ h
      have hb : Base (fun _ => True) s := h
      exact ⟨toMat_wf _, hb.sq, hb.pos⟩
    | cons t rest =>
      intro _ h
      obtain ⟨hs, hrel, hrest⟩ := h
      cases rest with
      | nil => exact ⟨pairOK_of_link _ id workOK_id sym s t hs hrest hrel, ih (by simp) hrest⟩
      | cons u rest => exact ⟨pairOK_of_link _ id workOK_id sym s t hs hrest.1 hrel, ih (by simp) hrest⟩

theorem start_base (Q : Csr CRat → Prop) (A0 : Csr CRat) (bs0 : Nat) (hA0 : A0.wf = true) (hsq : A0.rows = A0.cols)
    (hpos : 0 < A0.rows) (hq : Q A0) : Base Q (start A0 bs0) := ⟨hA0, hsq, hpos, rfl, hq⟩

theorem build_ne_nil {L : Type} (size : L → Nat) (extend : L → Option L) (ml mc : Nat) :
    ∀ (fuel : Nat) (lv : List L), lv ≠ [] → build size extend ml mc fuel lv ≠ [] := by
  intro fuel lv h
  exact build_induct size extend ml mc (fun l => l ≠ []) (by intros; simp) fuel lv h

/-- **COMPOSITION, no filtering**: for every numerical step function that returns well-formed transfer operators,
every limits, every fuel, every well-formed square non-empty input matrix (any stored form: unsorted, duplicates,
explicit zeros), the hierarchy the loop builds satisfies the specification `HierOK` with tolerance 0 -/
theorem loop_hierOK (sym : Sym) (num : Lv → Csr CRat → NumOut) (hnum : NumOK sym num) (bw : Bool)
    (ml mc fuel : Nat) (A0 : Csr CRat) (bs0 : Nat) (hA0 : A0.wf = true) (hsq : A0.rows = A0.cols) (hpos : 0 < A0.rows) :
    HierOK sym 0 (hier (buildG id num bw ml mc fuel A0 bs0)) := by
  unfold hier buildG
  have hinv := build_inv (fun _ => True) id workOK_id sym num hnum (fun _ _ _ _ => trivial) bw ml mc fuel
    [start A0 bs0] ⟨Linked.single _, by
      intro s hs
      rw [List.mem_singleton.1 hs]
      exact start_base _ A0 bs0 hA0 hsq hpos trivial⟩
  apply hierOK_of_chain sym
  · intro h
    exact build_ne_nil _ _ ml mc fuel [start A0 bs0] (by simp) (List.reverse_eq_nil_iff.1 h)
  · exact chainOK_reverse _ _ _ hinv.1 hinv.2

/-- hence the Boolean checker the driver runs on the model's output answers `true` -/
theorem loop_check (sym : Sym) (num : Lv → Csr CRat → NumOut) (hnum : NumOK sym num) (bw : Bool)
    (ml mc fuel : Nat) (A0 : Csr CRat) (bs0 : Nat) (hA0 : A0.wf = true) (hsq : A0.rows = A0.cols) (hpos : 0 < A0.rows) :
    checkHierS sym 0 (hier (buildG id num bw ml mc fuel A0 bs0)) = true :=
  (checkHierS_iff sym 0 _).2 (loop_hierOK sym num hnum bw ml mc fuel A0 bs0 hA0 hsq hpos)

/-- **the limits clause for the same run** (levels coarsest first): never empty, at most `max_levels` levels, every
level that was coarsened had more than `max_coarse` unknowns, and the loop stopped because `max_levels` was reached,
the last level is small enough, or the step stalled -/
theorem loop_limits (work : Csr CRat → Csr CRat) (num : Lv → Csr CRat → NumOut) (bw : Bool) (ml mc fuel : Nat)
    (A0 : Csr CRat) (bs0 : Nat) (hml : 1 ≤ ml) (hfuel : fuel + 1 ≥ ml) :
    let r := buildG work num bw ml mc fuel A0 bs0
    r ≠ [] ∧ r.length ≤ ml ∧ (∀ l ∈ r.tail, sizeS bw l > mc) ∧
      ∃ last, r.head? = some last ∧ (r.length = ml ∨ sizeS bw last ≤ mc ∨ extendG work num last = none) := by
  have h := build_spec (sizeS bw) (extendG work num) ml mc fuel [start A0 bs0] (by simp) (by simpa using hml)
    (by simpa using hfuel) (by simp)
  exact ⟨h.1, h.2.1, h.2.2.2.1, h.2.2.2.2⟩

/-- the finest level of the result is the level the loop was started with -/
theorem loop_finest (work : Csr CRat → Csr CRat) (num : Lv → Csr CRat → NumOut) (bw : Bool) (ml mc fuel : Nat)
    (A0 : Csr CRat) (bs0 : Nat) : (buildG work num bw ml mc fuel A0 bs0).getLast? = some (start A0 bs0) := by
  unfold buildG
  rw [build_getLast]; rfl

/-! ### the guard-level shadow is a run of E13's loop -/

/-- level descriptors are consecutive and every step was licensed by the guard model -/
theorem loop_guarded (Q : Csr CRat → Prop) (work : Csr CRat → Csr CRat) (hw : WorkOK Q work) (sym : Sym)
    (num : Lv → Csr CRat → NumOut) (hnum : NumOK sym num)
    (hQ : ∀ R A P : Csr CRat, P.wf = true → Q (galerkin R A P))
    (bw : Bool) (ml mc fuel : Nat) (A0 : Csr CRat) (bs0 : Nat) (hb : Base Q (start A0 bs0)) :
    Linked (fun f c : SLv => c.lv.idx = f.lv.idx + 1 ∧ c.lv.rows < f.lv.rows ∧
        ∃ g, step f.lv g = .proceed c.lv.rows c.lv.bs) (buildG work num bw ml mc fuel A0 bs0) := by
  unfold buildG
  have h := build_induct (sizeS bw) (extendG work num) ml mc
    (fun lvs => Linked (fun f c : SLv => c.lv.idx = f.lv.idx + 1 ∧ c.lv.rows < f.lv.rows ∧
        ∃ g, step f.lv g = .proceed c.lv.rows c.lv.bs) lvs ∧ ∀ s ∈ lvs, Base Q s) ?_ fuel [start A0 bs0]
    ⟨Linked.single _, by intro s hs; rw [List.mem_singleton.1 hs]; exact hb⟩
  · exact h.1
  · intro last rest nxt hinv _ _ he
    obtain ⟨hl, hbs⟩ := hinv
    obtain ⟨_, h2, h3, h4⟩ := extendG_link Q work hw sym num hnum hQ last nxt (hbs last List.mem_cons_self) he
    refine ⟨Linked.cons ⟨h3, step_rows_decrease _ _ _ _ h4, _, h4⟩ hl, ?_⟩
    intro s hs
    rcases List.mem_cons.1 hs with rfl | hs
    · exact h2
    · exact hbs s hs

#print axioms loop_hierOK
#print axioms loop_limits
end PyamgV.C04Y
