import PyamgV.Proofs.ExtC05Refine
import Mathlib.Tactic.FieldSimp

/-! PyamgV (C05, extension E12, part 2): the coarsest solve of the executable cycle model --
`C05.solveDense`, Gauss–Jordan elimination on `[A | b]` with the first non-zero pivot -- returns the
solution of the system whenever it returns anything:

* `gjStep_entries`: one elimination step in terms of the entries,
* `solveDense_unique`: if `x` solves `A x = b` (first `n` coordinates) and `solveDense n A b = some y`
  then `y` has size `n` and `y = x` on the first `n` coordinates (every row operation keeps the
  solutions; the left block ends up as the identity),
* `denseOfCsr_dot`: the dense copy of a CSR matrix (duplicates summed) applied to a vector is the CSR
  operator `csrOp` of the proofs,
* `solveDense_csr`: for a coarsest matrix with a right inverse `S` (`CoarseInv`), the coarsest solve of
  the model is `S` -- the hypothesis `hS` of `solveLvl_refines`. -/
namespace PyamgV.C05
open PyamgV Finset

set_option linter.unusedSectionVars false
variable {R : Type} [Field R] [LinearOrder R] [IsStrictOrderedRing R] [DecidableEq R]

/-! ### reading arrays -/

theorem getD_map_range {β : Type} (n : Nat) (f : Nat → β) (i : Nat) (d : β) (h : i < n) :
    ((Array.range n).map f).getD i d = f i := by
  simp [Array.getD_eq_getD_getElem?, h]

theorem getD_setIfInBounds {β : Type} (a : Array β) (i j : Nat) (v d : β) :
    (a.setIfInBounds i v).getD j d = if i = j ∧ i < a.size then v else a.getD j d := by
  simp only [Array.getD_eq_getD_getElem?, Array.getElem?_setIfInBounds]
  by_cases h : i = j
  · subst h
    by_cases h2 : i < a.size
    · simp [h2]
    · simp [h2]
  · simp [h]

theorem rd_map_div (row : Array R) (piv : R) (j : Nat) :
    K.rd (row.map (fun v => v / piv)) j = K.rd row j / piv := by
  unfold K.rd
  by_cases h : j < row.size
  · simp [Array.getD_eq_getD_getElem?, h]
  · simp [Array.getD_eq_getD_getElem?, h]

theorem rd_map_range (n : Nat) (f : Nat → R) (j : Nat) (h : j < n) :
    K.rd ((Array.range n).map f) j = f j := by
  unfold K.rd
  exact getD_map_range n f j 0 h

/-! ### one elimination step -/

/-- the body of the loop of `solveDense` -/
def gjStep (n k : Nat) (M : Mat R) : Option (Mat R) :=
  match (List.range' k (n - k)).find? (fun r => mget M r k ≠ 0) with
  | none => none
  | some p =>
    let rowp := M.getD p #[]
    let rowk := M.getD k #[]
    let M := (M.setIfInBounds p rowk).setIfInBounds k rowp
    let piv := K.rd rowp k
    let rown := rowp.map (fun v => v / piv)
    let M := M.setIfInBounds k rown
    some ((Array.range n).map (fun i =>
      if i = k then rown
      else
        let f := mget M i k
        let rowi := M.getD i #[]
        (Array.range (n+1)).map (fun j => K.rd rowi j - f * K.rd rown j)))

theorem solveDense_eq (n : Nat) (A : Mat R) (b : Array R) :
    solveDense n A b =
      ((List.range n).foldl (fun (st : Option (Mat R)) k => st.bind (gjStep n k))
        (some ((Array.range n).map (fun i => (A.getD i #[]).push (K.rd b i))))).map
      (fun M => (Array.range n).map (fun i => mget M i n)) := by
  unfold solveDense
  simp only
  congr 2
  funext st k
  cases st <;> rfl

/-- the row that sits in position `i ≠ k` after the exchange of the rows `p` and `k` -/
def swp (p k i : Nat) : Nat := if i = p then k else i

/-- **one step of the elimination, entry by entry**: a pivot row `p ≥ k` with `M[p][k] ≠ 0` is found;
the new row `k` is `M[p] / M[p][k]`, every other row `i` is `M[σ i] − M[σ i][k] · (M[p] / M[p][k])`
with `σ` the exchange of `p` and `k` -/
theorem gjStep_entries (n k : Nat) (M N : Mat R) (hk : k < n) (hM : M.size = n)
    (h : gjStep n k M = some N) :
    ∃ p, (List.range' k (n - k)).find? (fun r => mget M r k ≠ 0) = some p ∧
      k ≤ p ∧ p < n ∧ mget M p k ≠ 0 ∧ N.size = n ∧
      ∀ i j, i < n → j ≤ n → mget N i j =
        if i = k then mget M p j / mget M p k
        else mget M (swp p k i) j - mget M (swp p k i) k * (mget M p j / mget M p k) := by
  unfold gjStep at h
  cases hf : (List.range' k (n - k)).find? (fun r => mget M r k ≠ 0) with
  | none => rw [hf] at h; exact absurd h (by simp)
  | some p =>
    rw [hf] at h
    have hp1 := List.mem_of_find?_eq_some hf
    have hp2 : mget M p k ≠ 0 := by simpa using List.find?_some hf
    have hpk : k ≤ p ∧ p < n := by
      rw [List.mem_range'_1] at hp1
      omega
    have h := Option.some.inj h
    refine ⟨p, rfl, hpk.1, hpk.2, hp2, by rw [← h]; simp, ?_⟩
    intro i j hi hj
    rw [← h]
    unfold mget
    rw [getD_map_range n _ i #[] hi]
    by_cases hik : i = k
    · rw [if_pos hik, if_pos hik, rd_map_div]
    · rw [if_neg hik, if_neg hik]
      simp only
      rw [rd_map_range (n+1) _ j (by omega), rd_map_div]
      have hrow : (((M.setIfInBounds p (M.getD k #[])).setIfInBounds k (M.getD p #[])).setIfInBounds k
          ((M.getD p #[]).map (fun v => v / K.rd (M.getD p #[]) k))).getD i #[] =
          M.getD (swp p k i) #[] := by
        rw [getD_setIfInBounds, if_neg (by intro hh; exact hik hh.1.symm),
          getD_setIfInBounds, if_neg (by intro hh; exact hik hh.1.symm), getD_setIfInBounds]
        unfold swp
        by_cases hip : i = p
        · rw [if_pos hip, if_pos ⟨hip.symm, by rw [hM]; exact hpk.2⟩]
        · rw [if_neg hip, if_neg (by intro hh; exact hip hh.1.symm)]
      rw [hrow]

/-! ### the invariants -/

/-- the first `k` columns are unit vectors -/
def IdCols (n k : Nat) (M : Mat R) : Prop :=
  ∀ i j, i < n → j < k → mget M i j = if i = j then 1 else 0

/-- `x` solves the augmented system `M` -/
def Sol (n : Nat) (x : Nat → R) (M : Mat R) : Prop :=
  ∀ i, i < n → ∑ j ∈ range n, mget M i j * x j = mget M i n

theorem gjStep_idcols (n k : Nat) (M N : Mat R) (hk : k < n) (hM : M.size = n)
    (hI : IdCols n k M) (h : gjStep n k M = some N) :
    N.size = n ∧ IdCols n (k+1) N := by
  obtain ⟨p, _, hkp, hpn, hpiv, hNs, hN⟩ := gjStep_entries n k M N hk hM h
  have hsw : ∀ i, i < n → swp p k i < n := by
    intro i hi; unfold swp; split <;> omega
  refine ⟨hNs, ?_⟩
  intro i j hi hj
  rw [hN i j hi (by omega)]
  by_cases hjk : j < k
  · have hpj : mget M p j = 0 := by
      rw [hI p j hpn hjk, if_neg (by omega)]
    by_cases hik : i = k
    · rw [if_pos hik, hpj, zero_div, if_neg (by omega)]
    · rw [if_neg hik, hpj, zero_div, mul_zero, sub_zero, hI _ j (hsw i hi) hjk]
      unfold swp
      by_cases hip : i = p
      · rw [if_pos hip, if_neg (by omega), if_neg (by omega)]
      · rw [if_neg hip]
  · have hjk' : j = k := by omega
    subst hjk'
    by_cases hik : i = j
    · rw [if_pos hik, if_pos hik, div_self hpiv]
    · rw [if_neg hik, if_neg hik, div_self hpiv, mul_one, sub_self]

/-- a row operation keeps the solutions … -/
theorem gjStep_sol_fwd (n k : Nat) (x : Nat → R) (M N : Mat R) (hk : k < n) (hM : M.size = n)
    (hS : Sol n x M) (h : gjStep n k M = some N) : Sol n x N := by
  obtain ⟨p, _, hkp, hpn, hpiv, hNs, hN⟩ := gjStep_entries n k M N hk hM h
  have hsw : ∀ i, i < n → swp p k i < n := by
    intro i hi; unfold swp; split <;> omega
  intro i hi
  have hp := hS p hpn
  rw [hN i n hi (Nat.le_refl n)]
  by_cases hik : i = k
  · rw [if_pos hik]
    rw [← hp, div_eq_mul_inv, Finset.sum_mul]
    apply Finset.sum_congr rfl
    intro j hj
    rw [hN i j hi (by have := Finset.mem_range.1 hj; omega), if_pos hik]
    ring
  · rw [if_neg hik]
    have hs := hS _ (hsw i hi)
    rw [← hs, ← hp, div_eq_mul_inv, Finset.sum_mul, Finset.mul_sum, ← Finset.sum_sub_distrib]
    apply Finset.sum_congr rfl
    intro j hj
    rw [hN i j hi (by have := Finset.mem_range.1 hj; omega), if_neg hik]
    ring

/-- … and introduces none (the pivot is non-zero, the operations are invertible) -/
theorem gjStep_sol_bwd (n k : Nat) (x : Nat → R) (M N : Mat R) (hk : k < n) (hM : M.size = n)
    (hS : Sol n x N) (h : gjStep n k M = some N) : Sol n x M := by
  obtain ⟨p, _, hkp, hpn, hpiv, hNs, hN⟩ := gjStep_entries n k M N hk hM h
  have hk' := hS k hk
  -- the pivot row
  have hrowp : ∑ j ∈ range n, mget M p j * x j = mget M p n := by
    have e1 : ∑ j ∈ range n, mget M p j * x j = mget M p k * ∑ j ∈ range n, mget N k j * x j := by
      rw [Finset.mul_sum]
      apply Finset.sum_congr rfl
      intro j hj
      rw [hN k j hk (by have := Finset.mem_range.1 hj; omega), if_pos rfl]
      field_simp
    rw [e1, hk', hN k n hk (Nat.le_refl n), if_pos rfl]
    field_simp
  intro r hr
  by_cases hrp : r = p
  · rw [hrp]; exact hrowp
  · -- the row of `N` built from row `r` of `M`
    have hex : ∃ i, i < n ∧ i ≠ k ∧ swp p k i = r := by
      by_cases hrk : r = k
      · refine ⟨p, hpn, by omega, ?_⟩
        unfold swp; rw [if_pos rfl, hrk]
      · refine ⟨r, hr, hrk, ?_⟩
        unfold swp; rw [if_neg hrp]
    obtain ⟨i, hi, hik, hsi⟩ := hex
    have hi' := hS i hi
    have e1 : ∑ j ∈ range n, mget M r j * x j =
        ∑ j ∈ range n, mget N i j * x j + mget M r k * ∑ j ∈ range n, mget N k j * x j := by
      rw [Finset.mul_sum, ← Finset.sum_add_distrib]
      apply Finset.sum_congr rfl
      intro j hj
      have hjn : j ≤ n := by have := Finset.mem_range.1 hj; omega
      rw [hN i j hi hjn, if_neg hik, hN k j hk hjn, if_pos rfl, hsi]
      ring
    rw [e1, hi', hk', hN i n hi (Nat.le_refl n), if_neg hik, hN k n hk (Nat.le_refl n), if_pos rfl, hsi]
    ring

theorem gjFold_inv (n : Nat) (x : Nat → R) (M0 : Mat R) (hM0 : M0.size = n) :
    ∀ k, k ≤ n → ∀ N,
      (List.range k).foldl (fun (st : Option (Mat R)) k => st.bind (gjStep n k)) (some M0) = some N →
      N.size = n ∧ IdCols n k N ∧ (Sol n x M0 ↔ Sol n x N) := by
  intro k
  induction k with
  | zero =>
    intro _ N h
    simp only [List.range_zero, List.foldl_nil, Option.some.injEq] at h
    subst h
    exact ⟨hM0, fun i j _ hj => absurd hj (by omega), Iff.rfl⟩
  | succ k ih =>
    intro hk N h
    rw [List.range_succ, List.foldl_append] at h
    simp only [List.foldl_cons, List.foldl_nil] at h
    cases hst : (List.range k).foldl (fun (st : Option (Mat R)) k => st.bind (gjStep n k)) (some M0) with
    | none => rw [hst] at h; exact absurd h (by simp)
    | some M =>
      rw [hst] at h
      obtain ⟨h1, h2, h3⟩ := ih (by omega) M hst
      have hstep : gjStep n k M = some N := by simpa using h
      obtain ⟨h4, h5⟩ := gjStep_idcols n k M N (by omega) h1 h2 hstep
      exact ⟨h4, h5, h3.trans ⟨fun hs => gjStep_sol_fwd n k x M N (by omega) h1 hs hstep,
        fun hs => gjStep_sol_bwd n k x M N (by omega) h1 hs hstep⟩⟩

/-- **what `solveDense` returns is the solution**: if `x` solves the `n × n` system `A x = b` (rows of
`A` of length `n`) and the elimination succeeds, its result is `x` on the first `n` coordinates -/
theorem solveDense_unique (n : Nat) (A : Mat R) (hA : ∀ i, i < n → (A.getD i #[]).size = n)
    (b : Array R) (x : Nat → R)
    (hx : ∀ i, i < n → ∑ j ∈ range n, mget A i j * x j = K.rd b i)
    (y : Array R) (h : solveDense n A b = some y) :
    y.size = n ∧ ∀ i, i < n → K.rd y i = x i := by
  rw [solveDense_eq] at h
  set M0 : Mat R := (Array.range n).map (fun i => (A.getD i #[]).push (K.rd b i)) with hM0
  have haug : ∀ i j, i < n → mget M0 i j = if j = n then K.rd b i else if j < n then mget A i j else 0 := by
    intro i j hi
    unfold mget
    rw [hM0, getD_map_range n _ i #[] hi]
    unfold K.rd
    have hsz := hA i hi
    rw [Array.getD_eq_getD_getElem?, Array.getElem?_push, hsz]
    by_cases hjn : j = n
    · rw [if_pos hjn, if_pos hjn]; simp
    · rw [if_neg hjn, if_neg hjn]
      by_cases hj : j < n
      · rw [if_pos hj]; simp [Array.getD_eq_getD_getElem?]
      · rw [if_neg hj]
        have : (A.getD i #[])[j]? = none := by
          apply Array.getElem?_eq_none; omega
        rw [this]; rfl
  have hS0 : Sol n x M0 := by
    intro i hi
    rw [haug i n hi, if_pos rfl, ← hx i hi]
    apply Finset.sum_congr rfl
    intro j hj
    have hjn := Finset.mem_range.1 hj
    rw [haug i j hi, if_neg (by omega), if_pos hjn]
  cases hst : (List.range n).foldl (fun (st : Option (Mat R)) k => st.bind (gjStep n k)) (some M0) with
  | none => rw [hst] at h; exact absurd h (by simp)
  | some N =>
    rw [hst] at h
    obtain ⟨h1, h2, h3'⟩ := gjFold_inv n x M0 (by rw [hM0]; simp) n (Nat.le_refl n) N hst
    have h3 := h3'.1 hS0
    simp only [Option.map_some, Option.some.injEq] at h
    subst h
    refine ⟨by simp, ?_⟩
    intro i hi
    rw [rd_map_range n _ i hi, ← h3 i hi]
    rw [Finset.sum_eq_single i]
    · rw [h2 i i hi hi, if_pos rfl, one_mul]
    · intro j hj hji
      rw [h2 i j hi (Finset.mem_range.1 hj), if_neg (Ne.symm hji), zero_mul]
    · intro hni; exact absurd (Finset.mem_range.2 hi) hni

/-! ### the dense copy of a CSR matrix -/

theorem wr_size (r : Array R) (c : Nat) (v : R) : (K.wr r c v).size = r.size := by simp [K.wr]

theorem rd_wr' (r : Array R) (c j : Nat) (v : R) :
    K.rd (K.wr r c v) j = if c = j ∧ c < r.size then v else K.rd r j := by
  unfold K.rd K.wr
  exact getD_setIfInBounds r c j v 0

/-- accumulating one entry `(c, v)` into a dense row -/
theorem sum_wr (cols : Nat) (r : Array R) (hr : r.size = cols) (c : Nat) (v : R) (x : Nat → R)
    (hx : ∀ i, cols ≤ i → x i = 0) :
    ∑ j ∈ range cols, K.rd (K.wr r c (K.rd r c + v)) j * x j =
      ∑ j ∈ range cols, K.rd r j * x j + v * x c := by
  by_cases hc : c < cols
  · have : ∀ j ∈ range cols, K.rd (K.wr r c (K.rd r c + v)) j * x j =
        K.rd r j * x j + (if c = j then v * x c else 0) := by
      intro j _
      rw [rd_wr']
      by_cases hcj : c = j
      · subst hcj; rw [if_pos ⟨rfl, by rw [hr]; exact hc⟩, if_pos rfl]; ring
      · rw [if_neg (by intro hh; exact hcj hh.1), if_neg hcj, add_zero]
    rw [Finset.sum_congr rfl this, Finset.sum_add_distrib, Finset.sum_ite_eq (range cols) c]
    rw [if_pos (Finset.mem_range.2 hc)]
  · have : ∀ j ∈ range cols, K.rd (K.wr r c (K.rd r c + v)) j * x j = K.rd r j * x j := by
      intro j _
      rw [rd_wr', if_neg (by intro hh; rw [hr] at hh; exact hc hh.2)]
    rw [Finset.sum_congr rfl this, hx c (by omega), mul_zero, add_zero]

theorem denseRow_dot (cols : Nat) (aj : Array Nat) (ax : Array R) (x : Nat → R)
    (hx : ∀ i, cols ≤ i → x i = 0) :
    ∀ (jjs : List Nat) (r : Array R), r.size = cols →
      ((jjs.foldl (fun row jj => K.wr row (K.rdN aj jj) (K.rd row (K.rdN aj jj) + K.rd ax jj)) r).size = cols) ∧
      ∑ j ∈ range cols,
        K.rd (jjs.foldl (fun row jj => K.wr row (K.rdN aj jj) (K.rd row (K.rdN aj jj) + K.rd ax jj)) r) j * x j =
      ∑ j ∈ range cols, K.rd r j * x j + (jjs.map (fun jj => K.rd ax jj * x (K.rdN aj jj))).sum := by
  intro jjs
  induction jjs with
  | nil => intro r hr; exact ⟨hr, by simp⟩
  | cons jj rest ih =>
    intro r hr
    rw [List.foldl_cons]
    obtain ⟨h1, h2⟩ := ih (K.wr r (K.rdN aj jj) (K.rd r (K.rdN aj jj) + K.rd ax jj))
      (by rw [wr_size, hr])
    refine ⟨h1, ?_⟩
    rw [h2, sum_wr cols r hr _ _ x hx, List.map_cons, List.sum_cons]
    ring

theorem denseOfCsr_size (M : K.Csr R) (cols : Nat) (i : Nat) (hi : i < M.n) :
    ((denseOfCsr M cols).getD i #[]).size = cols := by
  unfold denseOfCsr
  rw [getD_map_range M.n _ i #[] hi]
  exact (denseRow_dot cols M.aj M.ax 0 (fun _ _ => rfl) (M.jjs i) (zeros cols) (by simp [zeros])).1

/-- **the dense copy of a CSR matrix applied to a vector supported on the first `cols` coordinates is
the CSR operator of the proofs** (duplicate entries are summed by both) -/
theorem denseOfCsr_dot (M : K.Csr R) (cols : Nat) (x : Nat → R) (hx : ∀ i, cols ≤ i → x i = 0)
    (i : Nat) (hi : i < M.n) :
    ∑ j ∈ range cols, mget (denseOfCsr M cols) i j * x j = csrOp M.n (rowOf M) x i := by
  rw [csrOp_apply _ _ _ _ hi]
  unfold mget denseOfCsr
  rw [getD_map_range M.n _ i #[] hi]
  rw [(denseRow_dot cols M.aj M.ax x hx (M.jjs i) (zeros cols) (by simp [zeros])).2]
  have h0 : ∑ j ∈ range cols, K.rd (zeros cols : Array R) j * x j = 0 := by
    apply Finset.sum_eq_zero
    intro j hj
    have : K.rd (zeros cols : Array R) j = 0 := by
      unfold K.rd zeros
      by_cases h : j < cols <;> simp [h]
    rw [this, zero_mul]
  rw [h0, zero_add]
  unfold rowDot rowOf
  rw [List.map_map]
  rfl

/-! ### the coarsest solve of the model -/

/-- `S` is a right inverse of the coarsest matrix on the first `Ac.n` coordinates, with values
supported there (an invertible coarsest matrix has exactly one such `S` up to the coordinates
`≥ Ac.n` of the argument) -/
structure CoarseInv (Ac : K.Csr R) (S : (Nat → R) →ₗ[R] (Nat → R)) : Prop where
  right : ∀ b i, i < Ac.n → csrOp Ac.n (rowOf Ac) (S b) i = b i
  supp : ∀ b i, Ac.n ≤ i → S b i = 0

/-- **the coarsest solve of the executable model is `S`** -/
theorem solveDense_csr (Ac : K.Csr R) (S : (Nat → R) →ₗ[R] (Nat → R)) (hS : CoarseInv Ac S)
    (b y : Array R) (hb : b.size = Ac.n) (h : solveDense Ac.n (denseOfCsr Ac Ac.n) b = some y) :
    y.size = Ac.n ∧ fn y = S (fn b) := by
  obtain ⟨h1, h2⟩ := solveDense_unique Ac.n (denseOfCsr Ac Ac.n)
    (fun i hi => denseOfCsr_size Ac Ac.n i hi) b (S (fn b))
    (fun i hi => by
      rw [denseOfCsr_dot Ac Ac.n (S (fn b)) (fun j hj => hS.supp (fn b) j hj) i hi, hS.right (fn b) i hi]
      rfl) y h
  refine ⟨h1, ?_⟩
  funext i
  by_cases hi : i < Ac.n
  · exact h2 i hi
  · rw [hS.supp (fn b) i (by omega)]
    exact fn_zero_of_size y i (by omega)

/-- a right inverse of a symmetric matrix is symmetric -/
theorem coarseInv_sym (Ac : K.Csr R) (S : (Nat → R) →ₗ[R] (Nat → R)) (hS : CoarseInv Ac S)
    (hA : IsAdj (euc R Ac.n) (euc R Ac.n) (csrOp Ac.n (rowOf Ac)) (csrOp Ac.n (rowOf Ac))) :
    IsAdj (euc R Ac.n) (euc R Ac.n) S S := by
  intro u v
  have h1 : (euc R Ac.n).a (S u) v = (euc R Ac.n).a (S u) (csrOp Ac.n (rowOf Ac) (S v)) := by
    rw [euc_apply, euc_apply]
    apply Finset.sum_congr rfl
    intro i hi
    rw [hS.right v i (Finset.mem_range.1 hi)]
  have h2 : (euc R Ac.n).a u (S v) = (euc R Ac.n).a (csrOp Ac.n (rowOf Ac) (S u)) (S v) := by
    rw [euc_apply, euc_apply]
    apply Finset.sum_congr rfl
    intro i hi
    rw [hS.right u i (Finset.mem_range.1 hi)]
  rw [h1, h2, (euc R Ac.n).symm, hA (S v) (S u), (euc R Ac.n).symm]

#print axioms solveDense_unique
#print axioms solveDense_csr
#print axioms coarseInv_sym
end PyamgV.C05
