import PyamgV.Generated.PyLogic
import PyamgV.Proofs.ExtPySame
import PyamgV.Model.C05Flag
import PyamgV.Proofs.C05Flag
/-! PyamgV (extension E31, property C05): the per-level test of the GENERATED `change_smoothers` slice,
as a closed Boolean formula `levelOkPy` on Python values, and its equality with the hand-written
decision-table model `PyamgV.C05.levelOk` (`Model/C05Flag.lean`) on keyword dictionaries with scalar
values and smoother names of the register. -/
open PyamgV.ExtPy PyamgV.Generated.PyLogic
namespace PyamgV.ExtPyFlag
open PyamgV.C05 (Val Cfg)

/-! ### scalars and their image in the model's value type -/

def scalar : PyVal → Bool
  | .list _ | .tuple _ | .dict _ => false
  | _ => true

/-- the harness' canonicalisation (`enc_val` of props/c05.py): numbers as exact rationals -/
def abs : PyVal → Val
  | .none => .none
  | .bool b => .num (if b then 1 else 0)
  | .int i => .num i
  | .float q => .num q
  | .str s => .str s
  | .obj t => .other t
  | _ => .other "?"

theorem pyEq_abs (u w : PyVal) (hu : scalar u = true) (hw : scalar w = true) :
    pyEq u w = decide (abs u = abs w) := by
  cases u <;> cases w <;> simp [scalar] at hu hw <;> simp [pyEq, abs] <;>
    (try split) <;> (try split) <;> simp_all <;> first | rfl | (norm_cast) | skip

theorem lookup_map_abs (a : Kvs) (k : String) :
    (a.map (fun kv => (kv.1, abs kv.2))).lookup k = (a.lookup k).map abs := by
  induction a with
  | nil => rfl
  | cons kv r ih =>
    obtain ⟨k', v⟩ := kv
    by_cases h : k = k'
    · subst h; simp [List.lookup]
    · have h' : (k == k') = false := by simpa using h
      simp [List.lookup, h', ih]

/-- the model's view of a `(name, kwargs)` pair -/
def cfg (n : Option String) (a : Kvs) : Cfg := ⟨n, a.map (fun kv => (kv.1, abs kv.2))⟩

def nameVal : Option String → PyVal
  | none => .none
  | some s => .str s

def scalarKw (a : Kvs) : Prop := (keys a).Nodup ∧ ∀ kv ∈ a, scalar kv.2 = true

theorem scalar_getD (a : Kvs) (ha : scalarKw a) (k : String) (d : PyVal) (hd : scalar d = true) :
    scalar ((a.lookup k).getD d) = true := by
  cases h : a.lookup k with
  | none => simpa using hd
  | some v => simpa using ha.2 (k, v) (mem_of_lookup a k v h)

theorem abs_getD (a : Kvs) (k : String) (d : PyVal) (n : Option String) :
    abs ((a.lookup k).getD d) = PyamgV.C05.get (cfg n a) k (abs d) := by
  simp only [PyamgV.C05.get, cfg, lookup_map_abs]
  cases a.lookup k <;> rfl

/-- `==` of two values taken from scalar keyword dictionaries, in the model -/
theorem pyEq_getD (a b : Kvs) (ha : scalarKw a) (hb : scalarKw b) (k : String) (d : PyVal) (hd : scalar d = true)
    (n m : Option String) :
    pyEq ((a.lookup k).getD d) ((b.lookup k).getD d)
      = decide (PyamgV.C05.get (cfg n a) k (abs d) = PyamgV.C05.get (cfg m b) k (abs d)) := by
  rw [pyEq_abs _ _ (scalar_getD a ha k d hd) (scalar_getD b hb k d hd), abs_getD a k d n, abs_getD b k d m]

/-! ### `_same_parameters` in the model -/

theorem optEq_abs (x y : Option PyVal) (hx : ∀ v, x = some v → scalar v = true) (hy : ∀ v, y = some v → scalar v = true) :
    optEq x y = decide (x.map abs = y.map abs) := by
  cases x <;> cases y <;> simp [optEq]
  exact pyEq_abs _ _ (hx _ rfl) (hy _ rfl)

/-- the generated `_same_parameters` agrees with the model's `sameParameters` -/
theorem same_model (a b : Kvs) (ha : scalarKw a) (hb : scalarKw b) (n m : Option String) :
    pyEq (.dict (PyamgV.ExtPySame.noSweep a)) (.dict (PyamgV.ExtPySame.noSweep b))
      = PyamgV.C05.sameParameters (cfg n a) (cfg m b) := by
  have key : ∀ k, optEq (a.lookup k) (b.lookup k)
      = decide ((cfg n a).kw.lookup k = (cfg m b).kw.lookup k) := by
    intro k
    rw [optEq_abs _ _ (fun v h => ha.2 (k, v) (mem_of_lookup a k v h)) (fun v h => hb.2 (k, v) (mem_of_lookup b k v h))]
    simp [cfg, lookup_map_abs]
  have lhs : pyEq (.dict (PyamgV.ExtPySame.noSweep a)) (.dict (PyamgV.ExtPySame.noSweep b)) = true ↔
      ∀ k, k ≠ "sweep" → optEq (a.lookup k) (b.lookup k) = true := by
    have := PyamgV.ExtPySame.same_true_iff a b ha.1 hb.1
    rw [PyamgV.ExtPySame.same_dict a b ha.1 hb.1] at this
    constructor
    · intro h; exact this.mp (by rw [h])
    · intro h
      have := this.mpr h
      cases hh : pyEq (.dict (PyamgV.ExtPySame.noSweep a)) (.dict (PyamgV.ExtPySame.noSweep b)) <;> simp [hh] at this ⊢
  have rhs : PyamgV.C05.sameParameters (cfg n a) (cfg m b) = true ↔
      ∀ k, k ≠ "sweep" → (cfg n a).kw.lookup k = (cfg m b).kw.lookup k := by
    constructor
    · intro h k hk; exact PyamgV.C05.sameParameters_lookup _ _ h k hk
    · intro h
      unfold PyamgV.C05.sameParameters
      rw [List.all_eq_true]
      intro k _
      by_cases hk : k = "sweep"
      · simp [hk]
      · simp [h k hk]
  have e : pyEq (.dict (PyamgV.ExtPySame.noSweep a)) (.dict (PyamgV.ExtPySame.noSweep b)) = true ↔
      PyamgV.C05.sameParameters (cfg n a) (cfg m b) = true := by
    rw [lhs, rhs]
    constructor
    · intro h k hk; have := h k hk; rw [key] at this; simpa using this
    · intro h k hk; rw [key]; simpa using h k hk
  cases h1 : pyEq (.dict (PyamgV.ExtPySame.noSweep a)) (.dict (PyamgV.ExtPySame.noSweep b)) <;>
    cases h2 : PyamgV.C05.sameParameters (cfg n a) (cfg m b) <;> simp_all

/-! ### membership tests of the generated code -/

theorem pyEq_nameVal (n m : Option String) : pyEq (nameVal n) (nameVal m) = decide (n = m) := by
  cases n <;> cases m <;> simp [nameVal, pyEq]
  rename_i a b
  by_cases h : a = b <;> simp [h]

theorem pyEq_nameVal_str (n : Option String) (x : String) : pyEq (nameVal n) (.str x) = decide (n = some x) :=
  pyEq_nameVal n (some x)

theorem pyIn_list (x : PyVal) (xs : List PyVal) : pyIn x (.list xs) = .ok (xs.any (fun y => pyEq x y)) := rfl
theorem pyIn_tuple (x : PyVal) (xs : List PyVal) : pyIn x (.tuple xs) = .ok (xs.any (fun y => pyEq x y)) := rfl

/-- a name in a list of names (`fn in KRYLOV_RELAXATION`, `fn in SYMMETRIC_RELAXATION`) -/
theorem name_in (n : Option String) (L : List (Option String)) :
    pyIn (nameVal n) (.list (L.map nameVal)) = .ok (decide (n ∈ L)) := by
  rw [pyIn_list]
  congr 1
  induction L with
  | nil => simp
  | cons m r ih => simp [pyEq_nameVal, ih]

theorem pyEq_pair (a b : PyVal) (x y : String) :
    pyEq (.tuple [a, b]) (.tuple [.str x, .str y]) = (pyEq a (.str x) && pyEq b (.str y)) := by
  simp [pyEq, pyEqL]

theorem any_pairs_names (n1 n2 : Option String) (L : List (String × String)) :
    (L.map (fun p => PyVal.tuple [.str p.1, .str p.2])).any (fun y => pyEq (.tuple [nameVal n1, nameVal n2]) y)
      = decide ((n1, n2) ∈ L.map (fun p => (some p.1, some p.2))) := by
  induction L with
  | nil => simp
  | cons p r ih =>
    rw [List.map_cons, List.any_cons, ih, pyEq_pair, pyEq_nameVal_str, pyEq_nameVal_str]
    simp only [List.map_cons, List.mem_cons, Prod.mk.injEq, Bool.decide_or, Bool.decide_and]

theorem any_pairs_vals (u w : PyVal) (hu : scalar u = true) (hw : scalar w = true) (L : List (String × String)) :
    (L.map (fun p => PyVal.tuple [.str p.1, .str p.2])).any (fun y => pyEq (.tuple [u, w]) y)
      = decide ((abs u, abs w) ∈ L.map (fun p => (Val.str p.1, Val.str p.2))) := by
  induction L with
  | nil => simp
  | cons p r ih =>
    have e1 : abs (.str p.1) = Val.str p.1 := rfl
    have e2 : abs (.str p.2) = Val.str p.2 := rfl
    rw [List.map_cons, List.any_cons, ih, pyEq_pair, pyEq_abs u (.str p.1) hu rfl, pyEq_abs w (.str p.2) hw rfl, e1, e2]
    simp only [List.map_cons, List.mem_cons, Prod.mk.injEq, Bool.decide_or, Bool.decide_and]

def cfL : List (String × String) :=
  [("cf_jacobi", "fc_jacobi"), ("fc_jacobi", "cf_jacobi"), ("cf_block_jacobi", "fc_block_jacobi"),
   ("fc_block_jacobi", "cf_block_jacobi")]
def swL : List (String × String) := [("forward", "backward"), ("backward", "forward"), ("symmetric", "symmetric")]

/-- `(fn1, fn2) in [('cf_jacobi', 'fc_jacobi'), ...]` -/
theorem cf_in (n1 n2 : Option String) :
    pyIn (.tuple [nameVal n1, nameVal n2])
      (.list [.tuple [.str "cf_jacobi", .str "fc_jacobi"], .tuple [.str "fc_jacobi", .str "cf_jacobi"],
              .tuple [.str "cf_block_jacobi", .str "fc_block_jacobi"],
              .tuple [.str "fc_block_jacobi", .str "cf_block_jacobi"]])
      = .ok (decide ((n1, n2) ∈ PyamgV.C05.cfPairs)) := by
  rw [pyIn_list]; exact congrArg _ (any_pairs_names n1 n2 cfL)

/-- `(sweep1, sweep2) in [('forward', 'backward'), ...]` (list or tuple of pairs) -/
theorem sw_in_list (u w : PyVal) (hu : scalar u = true) (hw : scalar w = true) :
    pyIn (.tuple [u, w])
      (.list [.tuple [.str "forward", .str "backward"], .tuple [.str "backward", .str "forward"],
              .tuple [.str "symmetric", .str "symmetric"]])
      = .ok (decide ((abs u, abs w) ∈ PyamgV.C05.sweepPairs)) := by
  rw [pyIn_list]; exact congrArg _ (any_pairs_vals u w hu hw swL)
theorem sw_in_tuple (u w : PyVal) (hu : scalar u = true) (hw : scalar w = true) :
    pyIn (.tuple [u, w])
      (.tuple [.tuple [.str "forward", .str "backward"], .tuple [.str "backward", .str "forward"],
               .tuple [.str "symmetric", .str "symmetric"]])
      = .ok (decide ((abs u, abs w) ∈ PyamgV.C05.sweepPairs)) := by
  rw [pyIn_tuple]; exact congrArg _ (any_pairs_vals u w hu hw swL)

/-- the generated tables are the model's tables (this is where a changed table in smoothing.py shows) -/
theorem krylov_in (n : Option String) :
    pyIn (nameVal n) smoothing_const_KRYLOV_RELAXATION = .ok (decide (n ∈ PyamgV.C05.krylovRelaxation)) :=
  name_in n PyamgV.C05.krylovRelaxation
theorem symmetric_in (n : Option String) :
    pyIn (nameVal n) smoothing_const_SYMMETRIC_RELAXATION = .ok (decide (n ∈ PyamgV.C05.symmetricRelaxation)) :=
  name_in n PyamgV.C05.symmetricRelaxation
theorem default_niter : smoothing_const_DEFAULT_NITER = .int 1 := rfl
theorem default_sweep : smoothing_const_DEFAULT_SWEEP = .str "forward" := rfl
theorem abs_default_niter : abs (.int 1) = PyamgV.C05.defaultNiter := by
  simp [abs, PyamgV.C05.defaultNiter]
theorem abs_default_sweep : abs (.str "forward") = PyamgV.C05.defaultSweep := rfl

/-- `fn.startswith(('cf_', 'fc_'))` -/
def startsCf : Option String → Bool
  | some s => "cf_".toList.isPrefixOf s.toList || "fc_".toList.isPrefixOf s.toList
  | none => false

theorem startswith_some (s : String) :
    pyStartswith (.str s) (.tuple [.str "cf_", .str "fc_"]) = .ok (startsCf (some s)) := by
  simp [pyStartswith, strPrefixes, startsCf, List.mapM_cons, List.mapM_nil]

/-- the names `_setup_call` knows -/
def regNames : List (Option String) := PyamgV.C05.registry.map (·.1)

/-- on the names of the register `startswith(('cf_', 'fc_'))` singles out the four cf/fc smoothers -/
theorem startsCf_reg (n : Option String) (h : n ∈ regNames) : startsCf n = decide (n ∈ PyamgV.C05.cfFcNames) := by
  simp only [regNames, PyamgV.C05.registry, List.map, List.mem_cons, List.mem_nil_iff, or_false] at h
  rcases h with h | h | h | h | h | h | h | h | h | h | h | h | h | h | h | h | h | h | h | h | h | h <;>
    subst h <;> decide

theorem valid_reg (c : Cfg) (h : PyamgV.C05.valid c = true) : c.name ∈ regNames := by
  unfold PyamgV.C05.valid at h
  cases hl : PyamgV.C05.registry.lookup c.name with
  | none => simp [hl] at h
  | some ks =>
    have : ∀ (l : List (Option String × List String)), l.lookup c.name = some ks → c.name ∈ l.map (·.1) := by
      intro l
      induction l with
      | nil => simp
      | cons x r ih =>
        obtain ⟨k, v⟩ := x
        by_cases hk : c.name = k
        · simp [hk]
        · have h' : (c.name == k) = false := by simpa using hk
          simp only [List.lookup, h', List.map_cons, List.mem_cons, hk, false_or]
          exact ih
    exact this _ hl

/-! ### the per-level test as a closed formula -/

def getv (a : Kvs) (k : String) (d : PyVal) : PyVal := (a.lookup k).getD d
def sameNS (a b : Kvs) : Bool := pyEq (.dict (PyamgV.ExtPySame.noSweep a)) (.dict (PyamgV.ExtPySame.noSweep b))

/-- what the three copies of the test in the generated `change_smoothers` compute for
`fn1, kwargs1 = n1, a1` and `fn2, kwargs2 = n2, a2`; `true` = the flag is kept -/
def levelOkPy (n1 : Option String) (a1 : Kvs) (n2 : Option String) (a2 : Kvs) : Bool :=
  if pyNe (getv a1 "iterations" (.int 1)) (getv a2 "iterations" (.int 1)) = true then false
  else if decide ((n1, n2) ∈ PyamgV.C05.cfPairs) = true then
    (pyEq (getv a1 "f_iterations" (.int 1)) (getv a2 "f_iterations" (.int 1)) &&
      (pyEq (getv a1 "c_iterations" (.int 1)) (getv a2 "c_iterations" (.int 1)) && sameNS a1 a2))
  else if ((!decide (n1 = n2)) || !sameNS a1 a2) = true then false
  else if (decide (n1 ∈ PyamgV.C05.krylovRelaxation) || decide (n2 ∈ PyamgV.C05.krylovRelaxation)) = true then false
  else if (!decide (n1 ∈ PyamgV.C05.symmetricRelaxation)) = true then
    (if startsCf n1 = true then false
     else decide ((abs (getv a1 "sweep" (.str "forward")), abs (getv a2 "sweep" (.str "forward"))) ∈ PyamgV.C05.sweepPairs))
  else true

theorem val_beq (x y : Val) : (x == y) = decide (x = y) := by
  by_cases h : x = y <;> simp [h]

/-- **the generated per-level test is the model's `levelOk`** (scalar option values, names of the register) -/
theorem levelOkPy_eq_model (n1 n2 : Option String) (a1 a2 : Kvs) (h1 : scalarKw a1) (h2 : scalarKw a2)
    (hr : n1 ∈ regNames) :
    levelOkPy n1 a1 n2 a2 = PyamgV.C05.levelOk (cfg n1 a1) (cfg n2 a2) := by
  unfold levelOkPy PyamgV.C05.levelOk
  have e1 := pyEq_getD a1 a2 h1 h2 "iterations" (.int 1) rfl n1 n2
  have e2 := pyEq_getD a1 a2 h1 h2 "f_iterations" (.int 1) rfl n1 n2
  have e3 := pyEq_getD a1 a2 h1 h2 "c_iterations" (.int 1) rfl n1 n2
  have e4 : sameNS a1 a2 = PyamgV.C05.sameParameters (cfg n1 a1) (cfg n2 a2) := same_model a1 a2 h1 h2 n1 n2
  have e5 := abs_getD a1 "sweep" (.str "forward") n1
  have e6 := abs_getD a2 "sweep" (.str "forward") n2
  rw [abs_default_niter] at e1 e2 e3
  rw [abs_default_sweep] at e5 e6
  simp only [getv, pyNe, e1, e2, e3, e4, e5, e6, startsCf_reg n1 hr]
  have hn1 : (cfg n1 a1).name = n1 := rfl
  have hn2 : (cfg n2 a2).name = n2 := rfl
  simp only [hn1, hn2]
  by_cases c1 : PyamgV.C05.get (cfg n1 a1) "iterations" PyamgV.C05.defaultNiter
      = PyamgV.C05.get (cfg n2 a2) "iterations" PyamgV.C05.defaultNiter
  · simp only [c1, decide_true, Bool.not_true, ne_eq, not_true_eq_false, if_false, Bool.false_eq_true]
    by_cases c2 : (n1, n2) ∈ PyamgV.C05.cfPairs
    · simp only [c2, if_true, decide_true]
      simp only [val_beq, Bool.and_assoc]
    · simp only [c2, if_false, decide_false, Bool.false_eq_true]
      by_cases c3 : n1 = n2 <;> by_cases c4 : PyamgV.C05.sameParameters (cfg n1 a1) (cfg n2 a2) = true <;>
        simp [c3, c4]
  · simp [c1]

end PyamgV.ExtPyFlag
