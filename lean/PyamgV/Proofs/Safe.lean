/-! PyamgV (C17 pattern): a kernel model with a threaded `ok` flag that is cleared by any
out-of-range access, and the safety theorem "well-formed CSR ⇒ ok stays true".
Kernel: `maximal_independent_set_serial`. Core only. -/
namespace PyamgV.Safe

structure Mem where
  x  : Array Int
  ok : Bool
deriving Repr

@[inline] def Mem.rd (m : Mem) (i : Nat) : Int × Mem :=
  if h : i < m.x.size then (m.x[i], m) else (0, { m with ok := false })
@[inline] def Mem.wr (m : Mem) (i : Nat) (v : Int) : Mem :=
  if i < m.x.size then { m with x := m.x.setIfInBounds i v } else { m with ok := false }

structure Csr where
  n : Nat
  ap : Array Nat
  aj : Array Nat

/-- checked reads of the (read-only) index arrays -/
@[inline] def rdIdx (a : Array Nat) (i : Nat) (ok : Bool) : Nat × Bool :=
  if h : i < a.size then (a[i], ok) else (0, false)

/-- structural validity of a CSR graph with `n` rows and `n` columns -/
structure WF (G : Csr) : Prop where
  ap_size : G.ap.size = G.n + 1
  mono : ∀ i, i < G.n → G.ap.getD i 0 ≤ G.ap.getD (i+1) 0
  last : G.ap.getD G.n 0 ≤ G.aj.size
  cols : ∀ jj, jj < G.aj.size → G.aj.getD jj 0 < G.n

def inner (G : Csr) (act F : Int) (m : Mem) (jjs : List Nat) : Mem :=
  jjs.foldl (fun m jj =>
    let (j, ok) := rdIdx G.aj jj m.ok
    let m := { m with ok := ok }
    let (xj, m) := m.rd j
    if xj = act then m.wr j F else m) m

def misSerial (G : Csr) (act C F : Int) (m : Mem) : Mem :=
  (List.range G.n).foldl (fun m i =>
    let (xi, m) := m.rd i
    if xi ≠ act then m else
      let m := m.wr i C
      let (s, ok1) := rdIdx G.ap i m.ok
      let (e, ok2) := rdIdx G.ap (i+1) ok1
      inner G act F { m with ok := ok2 } (List.range' s (e - s))) m

theorem wr_size (m : Mem) (i : Nat) (v : Int) : (m.wr i v).x.size = m.x.size := by
  unfold Mem.wr; split <;> simp

theorem wr_ok (m : Mem) (i : Nat) (v : Int) (h : i < m.x.size) : (m.wr i v).ok = m.ok := by
  unfold Mem.wr; simp [h]

theorem rd_ok (m : Mem) (i : Nat) (h : i < m.x.size) : (m.rd i).2 = m := by
  unfold Mem.rd; simp [h]

theorem ap_le_last (G : Csr) (h : WF G) : ∀ i, i ≤ G.n → G.ap.getD i 0 ≤ G.ap.getD G.n 0 := by
  intro i hi
  induction hd : G.n - i generalizing i with
  | zero => have : i = G.n := by omega
            subst this; exact Nat.le_refl _
  | succ d ih =>
    have hlt : i < G.n := by omega
    exact Nat.le_trans (h.mono i hlt) (ih (i+1) (by omega) (by omega))

theorem inner_safe (G : Csr) (hG : WF G) (act F : Int) (jjs : List Nat) (m : Mem)
    (hsz : m.x.size = G.n) (hok : m.ok = true) (hjj : ∀ jj ∈ jjs, jj < G.aj.size) :
    (inner G act F m jjs).ok = true ∧ (inner G act F m jjs).x.size = G.n := by
  induction jjs generalizing m with
  | nil => simp [inner, hok, hsz]
  | cons jj rest ih =>
    have hj : jj < G.aj.size := hjj jj (by simp)
    have hcol : G.aj[jj] < G.n := by
      have := hG.cols jj hj; simpa [Array.getD, hj] using this
    simp only [inner, List.foldl_cons]
    have e1 : rdIdx G.aj jj m.ok = (G.aj[jj], m.ok) := by simp [rdIdx, hj]
    simp only [e1]
    have hlt : G.aj[jj] < ({ m with ok := m.ok } : Mem).x.size := by simpa [hsz] using hcol
    have e2 := rd_ok { m with ok := m.ok } G.aj[jj] hlt
    have hm : ({ m with ok := m.ok } : Mem) = m := rfl
    rw [hm] at e2 hlt
    rw [hm]
    have e3 : (m.rd G.aj[jj]) = ((m.rd G.aj[jj]).1, m) := Prod.ext rfl e2
    rw [e3]
    by_cases hx : (m.rd G.aj[jj]).1 = act
    · simp only [hx, if_true]
      exact ih (m.wr G.aj[jj] F) (by rw [wr_size]; exact hsz) (by rw [wr_ok m _ _ hlt]; exact hok)
        (fun a ha => hjj a (by simp [ha]))
    · simp only [hx, if_false]
      exact ih m hsz hok (fun a ha => hjj a (by simp [ha]))

/-- **C17-style safety**: on every structurally valid graph the kernel model never touches an
index outside its arrays. -/
theorem misSerial_safe (G : Csr) (hG : WF G) (act C F : Int) (m : Mem)
    (hsz : m.x.size = G.n) (hok : m.ok = true) :
    (misSerial G act C F m).ok = true := by
  have key : ∀ (k : Nat), k ≤ G.n → ∀ m : Mem, m.x.size = G.n → m.ok = true →
      let r := (List.range k).foldl (fun m i =>
        let (xi, m) := m.rd i
        if xi ≠ act then m else
          let m := m.wr i C
          let (s, ok1) := rdIdx G.ap i m.ok
          let (e, ok2) := rdIdx G.ap (i+1) ok1
          inner G act F { m with ok := ok2 } (List.range' s (e - s))) m
      r.ok = true ∧ r.x.size = G.n := by
    intro k
    induction k with
    | zero => intro _ m h1 h2; simp [h1, h2]
    | succ k ih =>
      intro hk m h1 h2
      rw [List.range_succ, List.foldl_append]
      obtain ⟨ihok, ihsz⟩ := ih (by omega) m h1 h2
      simp only [List.foldl_cons, List.foldl_nil]
      generalize hm' : List.foldl _ m (List.range k) = m' at ihok ihsz ⊢
      have hk' : k < m'.x.size := by omega
      have e1 := rd_ok m' k hk'
      have e3 : (m'.rd k) = ((m'.rd k).1, m') := Prod.ext rfl e1
      rw [e3]
      by_cases hx : (m'.rd k).1 ≠ act
      · simp only [hx, ne_eq, not_false_eq_true, if_true]; exact ⟨ihok, ihsz⟩
      · simp only [hx, if_false]
        have hap1 : k < G.ap.size := by rw [hG.ap_size]; omega
        have hap2 : k + 1 < G.ap.size := by rw [hG.ap_size]; omega
        have r1 : rdIdx G.ap k (m'.wr k C).ok = (G.ap[k], (m'.wr k C).ok) := by simp [rdIdx, hap1]
        have r2 : rdIdx G.ap (k+1) (m'.wr k C).ok = (G.ap[k+1], (m'.wr k C).ok) := by simp [rdIdx, hap2]
        simp only [r1, r2]
        apply inner_safe G hG act F _ _ (by simp [wr_size, ihsz]) (by simp [wr_ok m' k C hk', ihok])
        intro jj hjj
        rw [List.mem_range'_1] at hjj
        have hle : G.ap.getD (k+1) 0 ≤ G.ap.getD G.n 0 := ap_le_last G hG (k+1) (by omega)
        have h3 : G.ap[k+1] = G.ap.getD (k+1) 0 := by simp [Array.getD, hap2]
        have h4 := hG.last
        have h5 : G.ap[k] = G.ap.getD k 0 := by simp [Array.getD, hap1]
        have h6 := hG.mono k (by omega)
        omega
  exact (key G.n (Nat.le_refl _) m hsz hok).1

#print axioms misSerial_safe
end PyamgV.Safe
