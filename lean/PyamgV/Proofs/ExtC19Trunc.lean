import PyamgV.Proofs.ExtC19Qsort

/-! PyamgV (C19, extension E9): `truncate_rows` without the per-instance sort certificate.

`truncateRow` sorts a long row `r` with `qsortTwo nsq (r.length + 1) r.toArray 0 (r.length - 1)`.
The fuel `r.length + 1` exceeds the bound `right - left = r.length - 1` of `qsortTwo_correct`, hence
the sorted row is a permutation of `r`, ascending in `nsq`, for EVERY row; the certificate
`truncCheck` is therefore always `true` and `TruncSpec` holds unconditionally. -/
namespace PyamgV.C19

variable {α : Type} [OfNat α 0]

theorem sortedRow_correct (nsq : α → Rat) (r : RowOf α) :
    Seg 0 ((r.length : Int) - 1) r.toArray (qsortTwo nsq (r.length + 1) r.toArray 0 ((r.length : Int) - 1)) ∧
    SortedSeg nsq 0 ((r.length : Int) - 1) (qsortTwo nsq (r.length + 1) r.toArray 0 ((r.length : Int) - 1)) :=
  qsortTwo_correct nsq (r.length + 1) r.toArray 0 ((r.length : Int) - 1) (Int.le_refl 0)
    (by simp) (by omega)

/-- the row after `qsort_twoarrays` is a permutation of the stored entries ... -/
theorem sortedRow_perm (nsq : α → Rat) (r : RowOf α) : (sortedRow nsq r).Perm r := by
  have h := (sortedRow_correct nsq r).1.perm
  simpa [sortedRow] using h

theorem sortedRow_length (nsq : α → Rat) (r : RowOf α) : (sortedRow nsq r).length = r.length :=
  (sortedRow_perm nsq r).length_eq

/-- ... ascending in modulus -/
theorem sortedRow_sorted (nsq : α → Rat) (r : RowOf α) (t u : Nat) (htu : t ≤ u) (hu : u < r.length) :
    nsq ((sortedRow nsq r).getD t (0, 0)).2 ≤ nsq ((sortedRow nsq r).getD u (0, 0)).2 := by
  have h := (sortedRow_correct nsq r).2 t u (by omega) htu (by omega)
  simpa [sortedRow, qg] using h

theorem sortedRow_pairwise (nsq : α → Rat) (r : RowOf α) :
    (sortedRow nsq r).Pairwise (fun x y => nsq x.2 ≤ nsq y.2) := by
  rw [List.pairwise_iff_getElem]
  intro i j hi hj hij
  have hl := sortedRow_length nsq r
  have h := sortedRow_sorted nsq r i j (Nat.le_of_lt hij) (by omega)
  simpa [List.getD_eq_getElem?_getD, hi, hj] using h

/-- the per-instance certificate of `truncateRow_spec` can never fail -/
theorem truncCheck_true [DecidableEq α] (nsq : α → Rat) (k : Nat) (r : RowOf α) :
    truncCheck nsq k r = true := by
  unfold truncCheck
  by_cases hk : r.length > k
  · rw [if_pos hk]
    simp only [Bool.and_eq_true, List.all_eq_true, decide_eq_true_eq, List.mem_range,
      List.mem_range'_1]
    refine ⟨List.isPerm_iff.mpr (sortedRow_perm nsq r), ?_⟩
    intro t ht u hu
    exact sortedRow_sorted nsq r t u (by omega) (by omega)
  · rw [if_neg hk]

/-- **`truncate_rows` specification, no certificate**: for every row and every `k` the model output is
the row itself (short rows) or a rearrangement of the stored entries with all but `k` of them zeroed,
no zeroed one larger in modulus than a kept one -/
theorem truncateRow_spec_unconditional (nsq : α → Rat) (k : Nat) (r : RowOf α) :
    TruncSpec nsq k r (truncateRow nsq k r) := by
  unfold TruncSpec truncateRow
  by_cases hk : r.length ≤ k
  · have : ¬ r.length > k := Nat.not_lt.mpr hk
    rw [if_pos hk, if_neg this]
  · have hk' : r.length > k := Nat.lt_of_not_le hk
    rw [if_neg hk, if_pos hk']
    refine ⟨sortedRow nsq r, sortedRow_perm nsq r, rfl, ?_⟩
    intro t u ht hu hul
    exact sortedRow_sorted nsq r t u (by omega) hul

#print axioms qsortTwo_correct
#print axioms truncCheck_true
#print axioms truncateRow_spec_unconditional
#print axioms sortedRow_pairwise
end PyamgV.C19
