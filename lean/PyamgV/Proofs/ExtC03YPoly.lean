import PyamgV.Proofs.ExtC03YGen

/-! PyamgV (extension E55, C03): the recorded `relaxation.polynomial` call (Richardson, Chebyshev) in the scalar-polymorphic extended
cycle model is a linear iteration of the level matrix, operator `p(A)` (`iterations` times), over any field. -/
set_option linter.unusedSectionVars false
namespace PyamgV.C03Y
open PyamgV
open PyamgV.C03 (Cyc iterN)

variable {𝕜 : Type} [Field 𝕜] [DecidableEq 𝕜] {conj : 𝕜 → 𝕜}

theorem csrLin_eq_csrOp (M : K.Csr 𝕜) : ExtC09.csrLin M = CF.csrOp M.n (rowOf M) := by
  apply LinearMap.ext
  intro u
  funext i
  rw [ExtC09.csrLin_apply]
  by_cases hi : i < M.n
  · rw [if_pos hi, CF.csrOp_apply _ _ _ _ hi]
    unfold ExtC09.csrRow rowDot rowOf
    rw [List.map_map]
    rfl
  · rw [if_neg hi]; simp [CF.csrOp, hi]

/-- operator of the recorded `polynomial` call: `p(A)` composed `iterations` times -/
noncomputable def polyQ (M : K.Csr 𝕜) (cs : List 𝕜) (it : Nat) : Fn 𝕜 →ₗ[𝕜] Fn 𝕜 :=
  match cs with
  | [] => 0
  | c0 :: rest => powM (ExtC09.csrLin M) (polyOp (ExtC09.csrLin M) c0 rest) it

/-- function-level model of the recorded call -/
noncomputable def polyF (M : K.Csr 𝕜) (cs : List 𝕜) (it : Nat) : Fn 𝕜 → Fn 𝕜 → Fn 𝕜 :=
  match cs with
  | [] => fun x _ => x
  | c0 :: rest => fun x b => iter (polyFn (ExtC09.csrLin M) c0 rest) b it x

theorem poly_refines (M : K.Csr 𝕜) (cs : List 𝕜) (it : Nat) (hcs : cs ≠ [] ∨ it = 0) :
    Refines M.n (Sm.arr conj (.poly M cs it)) (polyF M cs it) := by
  intro x b hx hb
  cases cs with
  | nil =>
    have hit : it = 0 := by rcases hcs with h | h; exact absurd rfl h; exact h
    subst hit
    exact ⟨hx, rfl⟩
  | cons c0 rest =>
    obtain ⟨y, hy, hn, hf⟩ := polynomial_refines M c0 rest it b x hb hx
    simp only [Sm.arr, hy, Option.getD_some, polyF]
    refine ⟨hn, ?_⟩
    rw [csrLin_eq_csrOp]
    exact hf

theorem poly_isLinIter (M : K.Csr 𝕜) (cs : List 𝕜) (it : Nat) :
    IsLinIter (ExtC09.csrLin M) (polyF M cs it) (polyQ M cs it) := by
  cases cs with
  | nil => exact IsLinIter.id _
  | cons c0 rest => exact polynomial_iter_isLinIter _ c0 rest it

/-- **Richardson / Chebyshev / `polynomial` in the extended cycle model is `x ← x + p(A)^{(it)} (b − A x)`** -/
theorem poly_semLin (M : K.Csr 𝕜) (cs : List 𝕜) (it : Nat) (hc : ColsOK M) (hcs : cs ≠ [] ∨ it = 0) :
    SemLin (csrDense M) (viaArr M.n (Sm.arr conj (.poly M cs it))) (Tn M.n ∘ₗ polyQ M cs it ∘ₗ Tn M.n) :=
  semLin_csr M hc _ _ _ (poly_refines M cs it hcs) (poly_isLinIter M cs it)

end PyamgV.C03Y
