import PyamgV.Model.ExtC16Relax
import PyamgV.Proofs.C02Refine
import PyamgV.Proofs.Kaczmarz

/-! PyamgV (C16, extension E29): the executable kernels `K.gaussSeidelNE` / `K.gaussSeidelNR` (the C09 kernel
models) read as functions are sequences of damped orthogonal projections: the 2-norm of the error
(`gauss_seidel_ne`) resp. of the residual (`gauss_seidel_nr`) never increases for `0 ≤ ω ≤ 2`.

* `rowVec row`            the stored entries of a row / column accumulated at their indices;
* `scatter_refines`       the `for jj: y[Aj[jj]] += g(jj)` loops of the kernels, as functions;
* `neStep_refines`, `ne_sweep_nonexp`, `pyGaussSeidelNE_error`  — `gauss_seidel_ne`;
* `nrStep_refines`, `nr_sweep`, `pyGaussSeidelNR_residual`      — `gauss_seidel_nr` (with the invariant
  `r = b − A x` of the residual the kernel updates in place). -/
namespace PyamgV.C16R
open PyamgV PyamgV.K Finset
set_option linter.unusedSectionVars false
set_option linter.unusedVariables false

variable {R : Type} [Field R] [LinearOrder R] [IsStrictOrderedRing R] [DecidableEq R]

/-! ### rows as vectors -/

/-- the vector of a stored row: entry `k` = the sum of the stored values with index `k` -/
def rowVec (row : Row R) : Nat → R := fun k => ((row.filter (fun cv => cv.1 = k)).map (·.2)).sum

theorem rowVec_nil : rowVec ([] : Row R) = 0 := by funext k; simp [rowVec]

theorem rowVec_cons (cv : Nat × R) (rest : Row R) :
    rowVec (cv :: rest) = Pi.single cv.1 cv.2 + rowVec rest := by
  funext k
  unfold rowVec
  by_cases h : cv.1 = k
  · subst h; simp
  · simp [h, Ne.symm h]

theorem rowVec_zero_of_not_mem (row : Row R) (k : Nat) (h : ∀ cv ∈ row, cv.1 ≠ k) : rowVec row k = 0 := by
  unfold rowVec
  rw [List.filter_eq_nil_iff.2 (by intro cv hcv; simpa using h cv hcv)]
  simp

theorem rowVec_smul (row : Row R) (c : R) :
    rowVec (row.map (fun cv => (cv.1, cv.2 * c))) = c • rowVec row := by
  induction row with
  | nil => simp [rowVec_nil]
  | cons cv rest ih =>
    rw [List.map_cons, rowVec_cons, rowVec_cons, ih]
    funext k
    simp only [Pi.add_apply, Pi.smul_apply, Pi.single_apply, smul_eq_mul]
    by_cases h : k = cv.1
    · simp [h]; ring
    · simp [h]

/-- `Σ v · u(c)` over the stored entries = the Euclidean product with the row vector (indices `< n`) -/
theorem rowDot_eq_euc (n : Nat) (row : Row R) (hc : ∀ cv ∈ row, cv.1 < n) (u : Nat → R) :
    rowDot row u = (euc R n).a (rowVec row) u := by
  induction row with
  | nil => simp [rowDot, rowVec_nil]
  | cons cv rest ih =>
    have ih' := ih (fun c hcm => hc c (by simp [hcm]))
    have hlt : cv.1 < n := hc cv (by simp)
    rw [rowVec_cons, map_add, LinearMap.add_apply, ← ih']
    unfold rowDot
    simp only [List.map_cons, List.sum_cons, euc_apply, Pi.single_apply]
    congr 1
    rw [sum_eq_single cv.1]
    · simp
    · intro j _ hj; simp [hj]
    · intro h; exact absurd (mem_range.2 hlt) h

/-- without duplicate indices, `⟨a, a⟩ = Σ v²` over the stored entries -/
theorem euc_rowVec_self (n : Nat) (row : Row R) (hc : ∀ cv ∈ row, cv.1 < n)
    (hnd : (row.map Prod.fst).Nodup) :
    (euc R n).a (rowVec row) (rowVec row) = (row.map (fun cv => cv.2 * cv.2)).sum := by
  induction row with
  | nil => simp [rowVec_nil]
  | cons cv rest ih =>
    have hc' : ∀ c ∈ rest, c.1 < n := fun c hcm => hc c (by simp [hcm])
    rw [List.map_cons, List.nodup_cons] at hnd
    have ih' := ih hc' hnd.2
    have hz : rowVec rest cv.1 = 0 := by
      apply rowVec_zero_of_not_mem
      intro c hcm he
      exact hnd.1 (List.mem_map.2 ⟨c, hcm, he⟩)
    have hlt : cv.1 < n := hc cv (by simp)
    have h1 : (euc R n).a (Pi.single cv.1 cv.2) (rowVec rest) = 0 := by
      simp only [euc_apply, Pi.single_apply]
      rw [sum_eq_single cv.1]
      · simp [hz]
      · intro j _ hj; simp [hj]
      · intro h; exact absurd (mem_range.2 hlt) h
    have h2 : (euc R n).a (Pi.single cv.1 cv.2) (Pi.single cv.1 cv.2 : Nat → R) = cv.2 * cv.2 := by
      simp only [euc_apply, Pi.single_apply]
      rw [sum_eq_single cv.1]
      · simp
      · intro j _ hj; simp [hj]
      · intro h; exact absurd (mem_range.2 hlt) h
    rw [rowVec_cons]
    simp only [map_add, LinearMap.add_apply, List.map_cons, List.sum_cons]
    rw [h2, (euc R n).symm (rowVec rest) (Pi.single cv.1 cv.2), h1, ih']
    ring

/-- a row vector vanishes beyond the index bound -/
theorem rowVec_zero_ge (n : Nat) (row : Row R) (hc : ∀ cv ∈ row, cv.1 < n) (k : Nat) (hk : n ≤ k) :
    rowVec row k = 0 :=
  rowVec_zero_of_not_mem row k (fun cv hcv he => by have := hc cv hcv; omega)

/-- `⟨a, a⟩ = 0` forces `a = 0` -/
theorem rowVec_eq_zero_of_euc (n : Nat) (row : Row R) (hc : ∀ cv ∈ row, cv.1 < n)
    (h : (euc R n).a (rowVec row) (rowVec row) = 0) : rowVec row = 0 := by
  funext k
  by_cases hk : k < n
  · simp only [euc_apply] at h
    have := (sum_eq_zero_iff_of_nonneg (fun i _ => mul_self_nonneg (rowVec row i))).1 h k (mem_range.2 hk)
    simpa using this
  · exact rowVec_zero_ge n row hc k (by omega)

/-! ### the scatter loops -/

/-- `for jj in l: y[idx jj] += g jj` -/
theorem scatter_refines (idx : Nat → Nat) (g : Nat → R) :
    ∀ (l : List Nat) (y : Array R), (∀ jj ∈ l, idx jj < y.size) →
      (l.foldl (fun y jj => wr y (idx jj) (rd y (idx jj) + g jj)) y).size = y.size ∧
      fn (l.foldl (fun y jj => wr y (idx jj) (rd y (idx jj) + g jj)) y) =
        fn y + rowVec (l.map (fun jj => (idx jj, g jj))) := by
  intro l
  induction l with
  | nil => intro y _; simp [rowVec_nil]
  | cons jj rest ih =>
    intro y h
    have hj : idx jj < y.size := h jj (by simp)
    have hsz : (wr y (idx jj) (rd y (idx jj) + g jj)).size = y.size := by simp [wr]
    obtain ⟨h1, h2⟩ := ih (wr y (idx jj) (rd y (idx jj) + g jj))
      (fun k hk => by rw [hsz]; exact h k (by simp [hk]))
    rw [List.foldl_cons]
    refine ⟨h1.trans hsz, ?_⟩
    rw [h2, fn_wr _ _ _ hj, List.map_cons, rowVec_cons]
    funext k
    simp only [Pi.add_apply, Pi.single_apply]
    by_cases hk : k = idx jj
    · subst hk; simp [fn]; ring
    · simp [hk]

theorem rowOf_map (A : Csr R) (i : Nat) (f : Nat × R → Nat × R) :
    (A.jjs i).map (fun jj => f (rdN A.aj jj, rd A.ax jj)) = (rowOf A i).map f := by
  unfold rowOf; rw [List.map_map]; rfl

theorem mem_rowOf_idx (A : Csr R) (i n : Nat) (hc : ∀ cv ∈ rowOf A i, cv.1 < n) :
    ∀ jj ∈ A.jjs i, rdN A.aj jj < n := by
  intro jj hjj
  exact hc (rdN A.aj jj, rd A.ax jj) (by unfold rowOf; exact List.mem_map.2 ⟨jj, hjj, rfl⟩)

/-- the dot product loop of the kernels -/
theorem dot_loop (A : Csr R) (i : Nat) (x : Array R) :
    (A.jjs i).foldl (fun s jj => s + rd A.ax jj * rd x (rdN A.aj jj)) (0 : R) = rowDot (rowOf A i) (fn x) := by
  rw [foldl_add_eq_sum]
  unfold rowDot rowOf fn
  simp [List.map_map, Function.comp_def]

/-! ### `gauss_seidel_ne` -/

/-- the row step of the executable `gauss_seidel_ne` kernel (real data: `conj = id`) -/
def neStep (ω : R) (A : Csr R) (b Dinv : Array R) (x : Array R) (i : Nat) : Array R :=
  let s := (A.jjs i).foldl (fun s jj => s + rd A.ax jj * rd x (rdN A.aj jj)) (0:R)
  let delta := (rd b i - s) * rd Dinv i * ω
  (A.jjs i).foldl (fun x jj => wr x (rdN A.aj jj) (rd x (rdN A.aj jj) + id (rd A.ax jj) * delta)) x

theorem gaussSeidelNE_eq (ω : R) (A : Csr R) (b Dinv : Array R) (rows : List Nat) (x : Array R) :
    gaussSeidelNE id ω A b Dinv rows x = rows.foldl (neStep ω A b Dinv) x := rfl

/-- one row: `x ← x + δ·a_i`, `δ = (b_i − ⟨a_i, x⟩)·Dinv_i·ω` -/
theorem neStep_refines (ω : R) (A : Csr R) (b Dinv x : Array R) (i : Nat)
    (hc : ∀ cv ∈ rowOf A i, cv.1 < x.size) :
    (neStep ω A b Dinv x i).size = x.size ∧
    fn (neStep ω A b Dinv x i) =
      fn x + ((fn b i - rowDot (rowOf A i) (fn x)) * fn Dinv i * ω) • rowVec (rowOf A i) := by
  unfold neStep
  simp only
  rw [dot_loop]
  obtain ⟨h1, h2⟩ := scatter_refines (fun jj => rdN A.aj jj)
    (fun jj => id (rd A.ax jj) * ((rd b i - rowDot (rowOf A i) (fn x)) * rd Dinv i * ω)) (A.jjs i) x
    (mem_rowOf_idx A i x.size hc)
  refine ⟨h1, ?_⟩
  rw [h2]
  congr 1
  have := rowOf_map A i (fun cv => (cv.1, cv.2 * ((rd b i - rowDot (rowOf A i) (fn x)) * rd Dinv i * ω)))
  simp only [id] at this ⊢
  rw [this, rowVec_smul]
  rfl

/-- the weights `get_diagonal(A, norm_eq=2, inv=True)` of the model -/
theorem fn_dinvRows (A : Csr R) (i : Nat) (hi : i < A.n) :
    fn (dinvRows id A) i =
      if ((rowOf A i).map (fun cv => cv.2 * cv.2)).sum = 0 then 0
      else 1 / ((rowOf A i).map (fun cv => cv.2 * cv.2)).sum := by
  unfold dinvRows
  rw [fn_map_range, if_pos hi]
  simp only [id]
  rw [foldl_add_eq_sum]
  unfold rowOf
  simp [List.map_map, Function.comp_def]

/-- well-formed rows: indices `< n`, no index stored twice (canonical CSR / CSC) -/
def RowsOK (n : Nat) (rows : Nat → Row R) : Prop :=
  ∀ i, i < n → (∀ cv ∈ rows i, cv.1 < n) ∧ ((rows i).map Prod.fst).Nodup

/-- **Kaczmarz row step**: with `Dinv = 1/‖a_i‖²` (0 for an empty row) and `0 ≤ ω ≤ 2` the Euclidean norm of
the error does not increase -/
theorem neStep_nonexp (ω : R) (h0 : 0 ≤ ω) (h2 : ω ≤ 2) (A : Csr R) (hA : RowsOK A.n (rowOf A))
    (b x : Array R) (hx : x.size = A.n) (i : Nat) (hi : i < A.n)
    (xs : Nat → R) (hxs : csrOp A.n (rowOf A) xs = fn b) :
    (neStep ω A b (dinvRows id A) x i).size = A.n ∧
    (euc R A.n).en (xs - fn (neStep ω A b (dinvRows id A) x i)) ≤ (euc R A.n).en (xs - fn x) := by
  obtain ⟨hc, hnd⟩ := hA i hi
  obtain ⟨h1, hfn⟩ := neStep_refines ω A b (dinvRows id A) x i (by rw [hx]; exact hc)
  refine ⟨h1.trans hx, ?_⟩
  rw [hfn]
  set a := rowVec (rowOf A i) with ha
  have hdot : ∀ u, rowDot (rowOf A i) u = (euc R A.n).a a u := fun u => rowDot_eq_euc A.n _ hc u
  have hbi : (euc R A.n).a a xs = fn b i := by
    rw [← hdot, ← hxs, csrOp_apply _ _ _ _ hi]
  have haa : (euc R A.n).a a a = ((rowOf A i).map (fun cv => cv.2 * cv.2)).sum :=
    euc_rowVec_self A.n _ hc hnd
  rw [fn_dinvRows A i hi, ← haa, hdot]
  by_cases hz : (euc R A.n).a a a = 0
  · have : a = 0 := rowVec_eq_zero_of_euc A.n _ hc hz
    rw [this]; simp
  · rw [if_neg hz, ne_row_error (euc R A.n) a (fn x) xs (fn b i) ω hbi]
    exact proj_step_nonexp (euc R A.n) a (xs - fn x) ω h0 h2 hz

/-- a sweep over any row list -/
theorem ne_sweep_nonexp (ω : R) (h0 : 0 ≤ ω) (h2 : ω ≤ 2) (A : Csr R) (hA : RowsOK A.n (rowOf A))
    (b : Array R) (xs : Nat → R) (hxs : csrOp A.n (rowOf A) xs = fn b) :
    ∀ (rows : List Nat), (∀ i ∈ rows, i < A.n) → ∀ (x : Array R), x.size = A.n →
      (gaussSeidelNE id ω A b (dinvRows id A) rows x).size = A.n ∧
      (euc R A.n).en (xs - fn (gaussSeidelNE id ω A b (dinvRows id A) rows x)) ≤ (euc R A.n).en (xs - fn x) := by
  intro rows
  induction rows with
  | nil => intro _ x hx; exact ⟨hx, le_refl _⟩
  | cons i rest ih =>
    intro hr x hx
    obtain ⟨s1, e1⟩ := neStep_nonexp ω h0 h2 A hA b x hx i (hr i (by simp)) xs hxs
    obtain ⟨s2, e2⟩ := ih (fun j hj => hr j (by simp [hj])) _ s1
    rw [gaussSeidelNE_eq, List.foldl_cons, ← gaussSeidelNE_eq]
    exact ⟨s2, le_trans e2 e1⟩

theorem dirRows_lt (n : Nat) (bw : Bool) : ∀ i ∈ dirRows n bw, i < n := by
  intro i hi
  unfold dirRows at hi
  cases bw <;> simp at hi <;> exact hi

/-- an invariant that every step of an iteration keeps is kept by `K.iter` -/
theorem iter_invariant {β : Type} (P : β → Prop) (f : β → β) (hf : ∀ x, P x → P (f x)) :
    ∀ (k : Nat) (x : β), P x → P (K.iter f k x) := by
  intro k
  induction k with
  | zero => intro x hx; exact hx
  | succ k ih => intro x hx; exact ih (f x) (hf x hx)

/-- **`relaxation.gauss_seidel_ne`** (the Python driver of the model): any sweep, any number of iterations,
`0 ≤ ω ≤ 2`, consistent square system with canonical rows — the 2-norm of the error does not increase -/
theorem pyGaussSeidelNE_error (ω : R) (h0 : 0 ≤ ω) (h2 : ω ≤ 2) (A : Csr R) (hA : RowsOK A.n (rowOf A))
    (b : Array R) (xs : Nat → R) (hxs : csrOp A.n (rowOf A) xs = fn b)
    (iters : Nat) (sw : Sweep) (x : Array R) (hx : x.size = A.n) :
    (pyGaussSeidelNE id ω A b iters sw x).size = A.n ∧
    (euc R A.n).en (xs - fn (pyGaussSeidelNE id ω A b iters sw x)) ≤ (euc R A.n).en (xs - fn x) := by
  have hpass : ∀ (bw : Bool) (y : Array R),
      (y.size = A.n ∧ (euc R A.n).en (xs - fn y) ≤ (euc R A.n).en (xs - fn x)) →
      ((nePass id ω A b (dinvRows id A) bw y).size = A.n ∧
        (euc R A.n).en (xs - fn (nePass id ω A b (dinvRows id A) bw y)) ≤ (euc R A.n).en (xs - fn x)) := by
    intro bw y ⟨hy, he⟩
    unfold nePass
    obtain ⟨s, e⟩ := ne_sweep_nonexp ω h0 h2 A hA b xs hxs (dirRows y.size bw)
      (by rw [hy]; exact dirRows_lt A.n bw) y hy
    exact ⟨s, le_trans e he⟩
  unfold pyGaussSeidelNE
  cases sw
  · exact iter_invariant (fun y => y.size = A.n ∧ (euc R A.n).en (xs - fn y) ≤ (euc R A.n).en (xs - fn x))
      _ (hpass false) iters x ⟨hx, le_refl _⟩
  · exact iter_invariant (fun y => y.size = A.n ∧ (euc R A.n).en (xs - fn y) ≤ (euc R A.n).en (xs - fn x))
      _ (hpass true) iters x ⟨hx, le_refl _⟩
  · exact iter_invariant (fun y => y.size = A.n ∧ (euc R A.n).en (xs - fn y) ≤ (euc R A.n).en (xs - fn x))
      _ (fun y hy => hpass true _ (hpass false y hy)) iters x ⟨hx, le_refl _⟩

/-! ### `gauss_seidel_nr` (CSC arrays `C`: `rowOf C i` = the stored entries of column `i`) -/

/-- the matrix of CSC arrays as an operator: `(A u)_k = Σ_i u_i (c_i)_k` -/
def cscOp (n : Nat) (cols : Nat → Row R) (u : Nat → R) : Nat → R :=
  fun k => ∑ i ∈ range n, u i * rowVec (cols i) k

theorem cscOp_update (n : Nat) (cols : Nat → Row R) (u : Nat → R) (i : Nat) (hi : i < n) (δ : R) :
    cscOp n cols (Function.update u i (u i + δ)) = cscOp n cols u + δ • rowVec (cols i) := by
  funext k
  have hu : Function.update u i (u i + δ) = u + Pi.single i δ := by
    funext j
    by_cases hj : j = i
    · subst hj; simp
    · simp [hj]
  unfold cscOp
  rw [hu]
  simp only [Pi.add_apply, add_mul, sum_add_distrib, Pi.smul_apply, smul_eq_mul]
  congr 1
  rw [sum_eq_single i]
  · simp
  · intro j _ hj; simp [hj]
  · intro h; exact absurd (mem_range.2 hi) h

/-- the column step of the executable `gauss_seidel_nr` kernel (real data) -/
def nrStep (ω : R) (C : Csr R) (Dinv : Array R) (xr : Array R × Array R) (i : Nat) : Array R × Array R :=
  let (x, r) := xr
  let d0 := (C.jjs i).foldl (fun s jj => s + id (rd C.ax jj) * rd r (rdN C.aj jj)) (0:R)
  let delta := d0 * (rd Dinv i * ω)
  let x := wr x i (rd x i + delta)
  let r := (C.jjs i).foldl (fun r jj => wr r (rdN C.aj jj) (rd r (rdN C.aj jj) - delta * rd C.ax jj)) r
  (x, r)

theorem gaussSeidelNR_eq (ω : R) (C : Csr R) (Dinv : Array R) (cols : List Nat) (x r : Array R) :
    gaussSeidelNR id ω C Dinv cols x r = cols.foldl (nrStep ω C Dinv) (x, r) := rfl

/-- one column: `x_i += δ`, `r −= δ·c_i`, `δ = ⟨c_i, r⟩·Dinv_i·ω` -/
theorem nrStep_refines (ω : R) (C : Csr R) (Dinv x r : Array R) (i : Nat) (hi : i < x.size)
    (hc : ∀ cv ∈ rowOf C i, cv.1 < r.size) :
    (nrStep ω C Dinv (x, r) i).1.size = x.size ∧ (nrStep ω C Dinv (x, r) i).2.size = r.size ∧
    fn (nrStep ω C Dinv (x, r) i).1 =
      Function.update (fn x) i (fn x i + rowDot (rowOf C i) (fn r) * (fn Dinv i * ω)) ∧
    fn (nrStep ω C Dinv (x, r) i).2 =
      fn r - (rowDot (rowOf C i) (fn r) * (fn Dinv i * ω)) • rowVec (rowOf C i) := by
  unfold nrStep
  simp only [id]
  rw [dot_loop]
  set δ := rowDot (rowOf C i) (fn r) * (rd Dinv i * ω) with hδ
  have hfun : (fun (r : Array R) jj => wr r (rdN C.aj jj) (rd r (rdN C.aj jj) - δ * rd C.ax jj)) =
      (fun (r : Array R) jj => wr r (rdN C.aj jj) (rd r (rdN C.aj jj) + rd C.ax jj * (-δ))) := by
    funext r jj; congr 1; ring
  rw [hfun]
  obtain ⟨h1, h2⟩ := scatter_refines (fun jj => rdN C.aj jj) (fun jj => rd C.ax jj * (-δ)) (C.jjs i) r
    (mem_rowOf_idx C i r.size hc)
  refine ⟨by simp [wr], h1, fn_wr _ _ _ hi, ?_⟩
  rw [h2]
  have := rowOf_map C i (fun cv => (cv.1, cv.2 * (-δ)))
  simp only at this
  rw [this, rowVec_smul]
  funext k
  simp only [Pi.add_apply, Pi.sub_apply, Pi.smul_apply, smul_eq_mul, fn, hδ]
  ring

/-- the state a sweep keeps: sizes, the residual invariant `r = b − A x`, and a bound on `‖r‖²` -/
def NrInv (C : Csr R) (b : Array R) (bound : R) (xr : Array R × Array R) : Prop :=
  xr.1.size = C.n ∧ xr.2.size = C.n ∧ fn xr.2 = fn b - cscOp C.n (rowOf C) (fn xr.1) ∧
    (euc R C.n).en (fn xr.2) ≤ bound

theorem nrStep_inv (ω : R) (h0 : 0 ≤ ω) (h2 : ω ≤ 2) (C : Csr R) (hC : RowsOK C.n (rowOf C))
    (b : Array R) (bound : R) (xr : Array R × Array R) (h : NrInv C b bound xr) (i : Nat) (hi : i < C.n) :
    NrInv C b bound (nrStep ω C (dinvRows id C) xr i) := by
  obtain ⟨x, r⟩ := xr
  obtain ⟨hx, hr, hinv, hb⟩ := h
  simp only at hx hr hinv hb
  obtain ⟨hc, hnd⟩ := hC i hi
  obtain ⟨s1, s2, f1, f2⟩ := nrStep_refines ω C (dinvRows id C) x r i (by rw [hx]; exact hi) (by rw [hr]; exact hc)
  refine ⟨s1.trans hx, s2.trans hr, ?_, ?_⟩
  · rw [f2, f1, cscOp_update _ _ _ _ hi, hinv]
    funext k; simp only [Pi.sub_apply, Pi.add_apply]; ring
  · refine le_trans ?_ hb
    rw [f2]
    set c := rowVec (rowOf C i) with hcdef
    have hdot : rowDot (rowOf C i) (fn r) = (euc R C.n).a c (fn r) := rowDot_eq_euc C.n _ hc _
    have hcc : (euc R C.n).a c c = ((rowOf C i).map (fun cv => cv.2 * cv.2)).sum := euc_rowVec_self C.n _ hc hnd
    rw [fn_dinvRows C i hi, ← hcc, hdot]
    by_cases hz : (euc R C.n).a c c = 0
    · have : c = 0 := rowVec_eq_zero_of_euc C.n _ hc hz
      rw [this]; simp
    · rw [if_neg hz]
      have : (euc R C.n).a c (fn r) * (1 / (euc R C.n).a c c * ω) = ω * (euc R C.n).a c (fn r) / (euc R C.n).a c c := by
        field_simp
      rw [this]
      exact proj_step_nonexp (euc R C.n) c (fn r) ω h0 h2 hz

theorem nr_sweep_inv (ω : R) (h0 : 0 ≤ ω) (h2 : ω ≤ 2) (C : Csr R) (hC : RowsOK C.n (rowOf C))
    (b : Array R) (bound : R) :
    ∀ (cols : List Nat), (∀ i ∈ cols, i < C.n) → ∀ (xr : Array R × Array R), NrInv C b bound xr →
      NrInv C b bound (gaussSeidelNR id ω C (dinvRows id C) cols xr.1 xr.2) := by
  intro cols
  induction cols with
  | nil => intro _ xr h; exact h
  | cons i rest ih =>
    intro hcols xr h
    rw [gaussSeidelNR_eq, List.foldl_cons]
    have h1 := nrStep_inv ω h0 h2 C hC b bound xr h i (hcols i (by simp))
    have := ih (fun j hj => hcols j (by simp [hj])) _ h1
    rw [gaussSeidelNR_eq] at this
    exact this

/-- `A @ x` from the CSC arrays -/
theorem cscMv_refines (C : Csr R) (hC : ∀ i, i < C.n → ∀ cv ∈ rowOf C i, cv.1 < C.n) (x : Array R) :
    (cscMv C x).size = C.n ∧ fn (cscMv C x) = cscOp C.n (rowOf C) (fn x) := by
  have key : ∀ m, m ≤ C.n →
      ((List.range m).foldl (fun y i =>
        (C.jjs i).foldl (fun y jj => wr y (rdN C.aj jj) (rd y (rdN C.aj jj) + rd C.ax jj * rd x i)) y)
        (Array.replicate C.n (0 : R))).size = C.n ∧
      fn ((List.range m).foldl (fun y i =>
        (C.jjs i).foldl (fun y jj => wr y (rdN C.aj jj) (rd y (rdN C.aj jj) + rd C.ax jj * rd x i)) y)
        (Array.replicate C.n (0 : R))) = cscOp m (rowOf C) (fn x) := by
    intro m
    induction m with
    | zero =>
      intro _
      refine ⟨by simp, ?_⟩
      have hz : fn (Array.replicate C.n (0 : R)) = 0 := zeros_refines C.n
      rw [List.range_zero, List.foldl_nil, hz]
      funext k
      simp [cscOp]
    | succ m ih =>
      intro hm
      obtain ⟨s, f⟩ := ih (by omega)
      rw [List.range_succ, List.foldl_append, List.foldl_cons, List.foldl_nil]
      obtain ⟨h1, h2⟩ := scatter_refines (fun jj => rdN C.aj jj) (fun jj => rd C.ax jj * rd x m) (C.jjs m) _
        (by rw [s]; exact mem_rowOf_idx C m C.n (hC m (by omega)))
      refine ⟨h1.trans s, ?_⟩
      rw [h2, f]
      have := rowOf_map C m (fun cv => (cv.1, cv.2 * rd x m))
      simp only at this
      rw [this, rowVec_smul]
      funext k
      simp only [cscOp, Pi.add_apply, Pi.smul_apply, smul_eq_mul, sum_range_succ, fn]
  exact key C.n (le_refl _)

/-- one non-symmetric call: `r = b − A x`, `iters` kernel sweeps -/
theorem nrRun_residual (ω : R) (h0 : 0 ≤ ω) (h2 : ω ≤ 2) (C : Csr R) (hC : RowsOK C.n (rowOf C))
    (b : Array R) (hb : b.size = C.n) (bw : Bool) (iters : Nat) (x : Array R) (hx : x.size = C.n) :
    NrInv C b ((euc R C.n).en (fn b - cscOp C.n (rowOf C) (fn x)))
      (nrRun id ω C b (dinvRows id C) bw iters x) := by
  obtain ⟨ms, mf⟩ := cscMv_refines C (fun i hi => (hC i hi).1) x
  unfold nrRun
  apply iter_invariant (NrInv C b ((euc R C.n).en (fn b - cscOp C.n (rowOf C) (fn x))))
  · intro xr h
    exact nr_sweep_inv ω h0 h2 C hC b _ (dirRows x.size bw) (by rw [hx]; exact dirRows_lt C.n bw) xr h
  · refine ⟨hx, by rw [vsub_size, hb], ?_, ?_⟩
    · show fn (C02.vsub b (cscMv C x)) = _
      rw [vsub_refines _ _ (by rw [ms, hb]), mf]
    · show (euc R C.n).en (fn (C02.vsub b (cscMv C x))) ≤ _
      rw [vsub_refines _ _ (by rw [ms, hb]), mf]

/-- **`relaxation.gauss_seidel_nr`** (the Python driver of the model) on CSC arrays with canonical columns: any
sweep, any number of iterations, `0 ≤ ω ≤ 2` — the 2-norm of the residual `b − A x` does not increase -/
theorem pyGaussSeidelNR_residual (ω : R) (h0 : 0 ≤ ω) (h2 : ω ≤ 2) (C : Csr R) (hC : RowsOK C.n (rowOf C))
    (b : Array R) (hb : b.size = C.n) (iters : Nat) (sw : Sweep) (x : Array R) (hx : x.size = C.n) :
    (pyGaussSeidelNR id ω C b iters sw x).size = C.n ∧
    (euc R C.n).en (fn b - cscOp C.n (rowOf C) (fn (pyGaussSeidelNR id ω C b iters sw x))) ≤
      (euc R C.n).en (fn b - cscOp C.n (rowOf C) (fn x)) := by
  have hrun : ∀ (bw : Bool) (k : Nat) (y : Array R), y.size = C.n →
      (nrRun id ω C b (dinvRows id C) bw k y).1.size = C.n ∧
      (euc R C.n).en (fn b - cscOp C.n (rowOf C) (fn (nrRun id ω C b (dinvRows id C) bw k y).1)) ≤
        (euc R C.n).en (fn b - cscOp C.n (rowOf C) (fn y)) := by
    intro bw k y hy
    obtain ⟨s1, _, f, e⟩ := nrRun_residual ω h0 h2 C hC b hb bw k y hy
    exact ⟨s1, by rw [← f]; exact e⟩
  unfold pyGaussSeidelNR
  cases sw
  · exact hrun false iters x hx
  · exact hrun true iters x hx
  · apply iter_invariant (fun y : Array R => y.size = C.n ∧
        (euc R C.n).en (fn b - cscOp C.n (rowOf C) (fn y)) ≤ (euc R C.n).en (fn b - cscOp C.n (rowOf C) (fn x)))
    · intro y ⟨hy, he⟩
      obtain ⟨s1, e1⟩ := hrun false 1 y hy
      obtain ⟨s2, e2⟩ := hrun true 1 _ s1
      exact ⟨s2, le_trans e2 (le_trans e1 he)⟩
    · exact ⟨hx, le_refl _⟩

/-! ### `jacobi_ne` -/

/-- `for i in range(m): for jj in row i: y[Aj[jj]] += Ax[jj]·w_i` — the transposed product `Aᵀ w` accumulated into `y` -/
theorem scatter_rows_refines (C : Csr R) (hC : ∀ i, i < C.n → ∀ cv ∈ rowOf C i, cv.1 < C.n) (w : Nat → R)
    (y0 : Array R) (hy0 : y0.size = C.n) :
    ∀ m, m ≤ C.n →
      ((List.range m).foldl (fun y i =>
        (C.jjs i).foldl (fun y jj => wr y (rdN C.aj jj) (rd y (rdN C.aj jj) + rd C.ax jj * w i)) y) y0).size = C.n ∧
      fn ((List.range m).foldl (fun y i =>
        (C.jjs i).foldl (fun y jj => wr y (rdN C.aj jj) (rd y (rdN C.aj jj) + rd C.ax jj * w i)) y) y0) =
        fn y0 + cscOp m (rowOf C) w := by
  intro m
  induction m with
  | zero =>
    intro _
    refine ⟨by simpa using hy0, ?_⟩
    rw [List.range_zero, List.foldl_nil]
    funext k
    simp [cscOp]
  | succ m ih =>
    intro hm
    obtain ⟨s, f⟩ := ih (by omega)
    rw [List.range_succ, List.foldl_append, List.foldl_cons, List.foldl_nil]
    obtain ⟨h1, h2⟩ := scatter_refines (fun jj => rdN C.aj jj) (fun jj => rd C.ax jj * w m) (C.jjs m) _
      (by rw [s]; exact mem_rowOf_idx C m C.n (hC m (by omega)))
    refine ⟨h1.trans s, ?_⟩
    rw [h2, f]
    have := rowOf_map C m (fun cv => (cv.1, cv.2 * w m))
    simp only at this
    rw [this, rowVec_smul]
    funext k
    simp only [cscOp, Pi.add_apply, Pi.smul_apply, smul_eq_mul, sum_range_succ]
    ring

/-- `for i in range(m): x[i] += t[i]` -/
theorem addLoop_refines (t x : Array R) :
    ∀ m, m ≤ x.size →
      ((List.range m).foldl (fun x i => wr x i (rd x i + rd t i)) x).size = x.size ∧
      ∀ k, fn ((List.range m).foldl (fun x i => wr x i (rd x i + rd t i)) x) k =
        if k < m then fn x k + fn t k else fn x k := by
  intro m
  induction m with
  | zero => intro _; exact ⟨rfl, fun k => by simp⟩
  | succ m ih =>
    intro hm
    obtain ⟨s, f⟩ := ih (by omega)
    rw [List.range_succ, List.foldl_append, List.foldl_cons, List.foldl_nil]
    refine ⟨(by simp [wr] : (wr _ m _).size = _).trans s, ?_⟩
    intro k
    rw [fn_wr _ _ _ (by rw [s]; omega)]
    by_cases hk : k = m
    · subst hk
      have := f k
      simp only [lt_irrefl, if_false] at this
      simp [fn] at this ⊢
      rw [this]
    · rw [Function.update_of_ne hk, f k]
      by_cases h1 : k < m
      · simp [h1, Nat.lt_succ_of_lt h1]
      · have : ¬ k < m + 1 := by omega
        simp [h1, this]

theorem zeroLoop_refines (rows : List Nat) (n : Nat) :
    (rows.foldl (fun t i => wr t i (0 : R)) (Array.replicate n (0 : R))).size = n ∧
    fn (rows.foldl (fun t i => wr t i (0 : R)) (Array.replicate n (0 : R))) = 0 := by
  have : ∀ (rows : List Nat) (t : Array R), fn t = 0 →
      (rows.foldl (fun t i => wr t i (0 : R)) t).size = t.size ∧ fn (rows.foldl (fun t i => wr t i (0 : R)) t) = 0 := by
    intro rows
    induction rows with
    | nil => intro t h; exact ⟨rfl, h⟩
    | cons i rest ih =>
      intro t h
      have h1 : fn (wr t i (0 : R)) = 0 := by
        funext k
        by_cases hi : i < t.size
        · rw [fn_wr _ _ _ hi, h]
          by_cases hk : k = i
          · subst hk; simp
          · simp [hk]
        · have : wr t i (0 : R) = t := by simp [wr, Array.setIfInBounds, hi]
          rw [this, h]
      obtain ⟨s, f⟩ := ih (wr t i 0) h1
      exact ⟨by rw [List.foldl_cons, s]; simp [wr], by rw [List.foldl_cons, f]⟩
  obtain ⟨s, f⟩ := this rows (Array.replicate n (0 : R)) (zeros_refines n)
  exact ⟨by rw [s]; simp, f⟩

/-- **the `jacobi_ne` kernel over all rows is `x ← x + ω Aᵀ δ`** (`Aᵀ δ = Σ_i δ_i a_i`) -/
theorem jacobiNE_refines (ω : R) (A : Csr R) (hA : ∀ i, i < A.n → ∀ cv ∈ rowOf A i, cv.1 < A.n)
    (delta x : Array R) (hx : x.size = A.n) :
    (jacobiNE id ω A delta (List.range A.n) x).size = A.n ∧
    fn (jacobiNE id ω A delta (List.range A.n) x) =
      fn x + ω • cscOp A.n (rowOf A) (fn delta) := by
  unfold jacobiNE
  simp only [id]
  obtain ⟨zs, zf⟩ := zeroLoop_refines (R := R) (List.range A.n) x.size
  have hfun : (fun (t : Array R) i => (A.jjs i).foldl (fun t jj =>
        wr t (rdN A.aj jj) (rd t (rdN A.aj jj) + ω * rd A.ax jj * rd delta i)) t) =
      (fun (t : Array R) i => (A.jjs i).foldl (fun t jj =>
        wr t (rdN A.aj jj) (rd t (rdN A.aj jj) + rd A.ax jj * (ω * fn delta i))) t) := by
    funext t i
    congr 1
    funext t jj
    congr 1
    simp only [fn]; ring
  rw [hfun]
  obtain ⟨ts, tf⟩ := scatter_rows_refines A hA (fun i => ω * fn delta i) _ (by rw [zs, hx]) A.n (le_refl _)
  obtain ⟨as, af⟩ := addLoop_refines
    ((List.range A.n).foldl (fun y i => (A.jjs i).foldl (fun y jj =>
      wr y (rdN A.aj jj) (rd y (rdN A.aj jj) + rd A.ax jj * (ω * fn delta i))) y)
      ((List.range A.n).foldl (fun t i => wr t i (0 : R)) (Array.replicate x.size 0))) x A.n (by omega)
  refine ⟨as.trans hx, ?_⟩
  funext k
  rw [af k, tf, zf]
  have hlin : cscOp A.n (rowOf A) (fun i => ω * fn delta i) k = ω * cscOp A.n (rowOf A) (fn delta) k := by
    simp only [cscOp, mul_sum]
    exact sum_congr rfl (fun i _ => by ring)
  by_cases hk : k < A.n
  · simp [hk, hlin]
  · have h1 : fn x k = 0 := fn_zero_of_size x k (by omega)
    have h2 : ∀ i, rowVec (rowOf A i) k = 0 ∨ ¬ i < A.n := by
      intro i
      by_cases hi : i < A.n
      · exact Or.inl (rowVec_zero_ge A.n _ (hA i hi) k (by omega))
      · exact Or.inr hi
    have h3 : cscOp A.n (rowOf A) (fn delta) k = 0 := by
      unfold cscOp
      apply sum_eq_zero
      intro i hi
      rcases h2 i with h | h
      · rw [h, mul_zero]
      · exact absurd (mem_range.1 hi) h
    simp [hk, h3]

theorem vmul_refines (u v : Array R) : (vmul u v).size = u.size ∧ fn (vmul u v) = fun i => fn u i * fn v i := by
  refine ⟨by simp [vmul], ?_⟩
  funext i
  unfold vmul
  rw [fn_map_range]
  by_cases h : i < u.size
  · simp [h, fn]
  · have : fn u i = 0 := fn_zero_of_size u i (by omega)
    simp [h, this]

/-- `v ↦ Aᵀ D⁻¹ A v`, `D = diag(A Aᵀ)` as the model computes it -/
def neOp (A : Csr R) (v : Nat → R) : Nat → R :=
  cscOp A.n (rowOf A) (fun i => csrOp A.n (rowOf A) v i * fn (dinvRows id A) i)

/-- an update `e ← e − ω w` with `ω‖w‖² ≤ 2⟨e, w⟩` does not increase the norm -/
theorem damped_step_nonexp {V : Type*} [AddCommGroup V] [Module R V] (e : EForm R V) (err w : V) (ω : R) (h0 : 0 ≤ ω)
    (h : ω * e.en w ≤ 2 * e.a err w) : e.en (err - ω • w) ≤ e.en err := by
  have hexp : e.en (err - ω • w) = e.en err - 2 * ω * e.a err w + ω * ω * e.en w := by
    unfold EForm.en
    simp only [map_sub, map_smul, LinearMap.sub_apply, LinearMap.smul_apply, smul_eq_mul]
    rw [e.symm w err]; ring
  rw [hexp]
  nlinarith [mul_nonneg h0 (sub_nonneg.2 h)]

/-- one iteration of `relaxation.jacobi_ne`: `x ← x + ω Aᵀ D⁻¹ (b − A x)`; under the damping bound
`ω‖Aᵀ D⁻¹ A v‖² ≤ 2⟨v, Aᵀ D⁻¹ A v⟩` (i.e. `ω·λ_max(Aᵀ D⁻¹ A) ≤ 2`) the 2-norm of the error does not increase -/
theorem jacobiNE_step_error (ω : R) (h0 : 0 ≤ ω) (A : Csr R) (hA : ∀ i, i < A.n → ∀ cv ∈ rowOf A i, cv.1 < A.n)
    (hD : ∀ v, ω * (euc R A.n).en (neOp A v) ≤ 2 * (euc R A.n).a v (neOp A v))
    (b : Array R) (hb : b.size = A.n) (xs : Nat → R) (hxs : csrOp A.n (rowOf A) xs = fn b)
    (x : Array R) (hx : x.size = A.n) :
    (jacobiNE id ω A (vmul (C02.vsub b (C02.spmv A x)) (dinvRows id A)) (List.range A.n) x).size = A.n ∧
    (euc R A.n).en (xs - fn (jacobiNE id ω A (vmul (C02.vsub b (C02.spmv A x)) (dinvRows id A)) (List.range A.n) x)) ≤
      (euc R A.n).en (xs - fn x) := by
  obtain ⟨s, f⟩ := jacobiNE_refines ω A hA (vmul (C02.vsub b (C02.spmv A x)) (dinvRows id A)) x hx
  refine ⟨s, ?_⟩
  rw [f, (vmul_refines _ _).2, vsub_refines _ _ (by rw [spmv_size, hb]), spmv_refines, ← hxs]
  have hd : (fun i => (csrOp A.n (rowOf A) xs - csrOp A.n (rowOf A) (fn x)) i * fn (dinvRows id A) i) =
      (fun i => csrOp A.n (rowOf A) (xs - fn x) i * fn (dinvRows id A) i) := by
    funext i; rw [map_sub]
  rw [hd]
  have : xs - (fn x + ω • cscOp A.n (rowOf A) (fun i => csrOp A.n (rowOf A) (xs - fn x) i * fn (dinvRows id A) i)) =
      (xs - fn x) - ω • neOp A (xs - fn x) := by
    unfold neOp; abel
  rw [this]
  exact damped_step_nonexp (euc R A.n) (xs - fn x) (neOp A (xs - fn x)) ω h0 (hD _)

/-- **`relaxation.jacobi_ne`** (the Python driver of the model), any number of iterations -/
theorem pyJacobiNE_error (ω : R) (h0 : 0 ≤ ω) (A : Csr R) (hA : ∀ i, i < A.n → ∀ cv ∈ rowOf A i, cv.1 < A.n)
    (hD : ∀ v, ω * (euc R A.n).en (neOp A v) ≤ 2 * (euc R A.n).a v (neOp A v))
    (b : Array R) (hb : b.size = A.n) (xs : Nat → R) (hxs : csrOp A.n (rowOf A) xs = fn b)
    (iters : Nat) (x : Array R) (hx : x.size = A.n) :
    (pyJacobiNE id ω A b iters x).size = A.n ∧
    (euc R A.n).en (xs - fn (pyJacobiNE id ω A b iters x)) ≤ (euc R A.n).en (xs - fn x) := by
  unfold pyJacobiNE
  apply iter_invariant (fun y : Array R => y.size = A.n ∧ (euc R A.n).en (xs - fn y) ≤ (euc R A.n).en (xs - fn x))
  · intro y ⟨hy, he⟩
    obtain ⟨s, e⟩ := jacobiNE_step_error ω h0 A hA hD b hb xs hxs y hy
    exact ⟨s, le_trans e he⟩
  · exact ⟨hx, le_refl _⟩

end PyamgV.C16R
