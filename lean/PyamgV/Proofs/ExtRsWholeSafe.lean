import PyamgV.Proofs.ExtRsWholeInit
import PyamgV.Proofs.RsSafe

/-! PyamgV (C17/C13, extension E25): **the whole of `rs_cf_splitting` stays inside its arrays and its
main loop ends within `n` iterations**, for every pair of structurally valid CSR patterns `S`, `T`
with `n` rows (`WFp`; nothing about `T = Sᵀ`, sortedness, duplicates or diagonals is needed for
safety).  The bucket invariant `BInv`/`VInv` (Proofs/RsBucket*.lean, RsInit.lean) supplies every
index bound; here it is threaded through the checked model `RS.runCk` loop by loop.  No Mathlib. -/
namespace PyamgV.RS
open PyamgV.Ck

/-- structural validity of CSR arrays with `n` rows and `n` columns (natural-number arrays: the
driver rejects negative entries) -/
structure WFp (G : Csr) (n : Nat) : Prop where
  ap_size : G.ap.size = n + 1
  mono : ∀ i, i < n → rdN G.ap i ≤ rdN G.ap (i+1)
  last : rdN G.ap n ≤ G.aj.size
  cols : ∀ jj, rdN G.ap 0 ≤ jj → jj < rdN G.ap n → rdN G.aj jj < n

theorem WFp.ap_le {G : Csr} {n : Nat} (h : WFp G n) : ∀ d i, i + d ≤ n → rdN G.ap i ≤ rdN G.ap (i + d) := by
  intro d
  induction d with
  | zero => intro i _; exact Nat.le_refl _
  | succ d ih =>
    intro i hi
    exact Nat.le_trans (ih i (by omega)) (h.mono (i + d) (by omega))

theorem WFp.ap_le' {G : Csr} {n : Nat} (h : WFp G n) {i j : Nat} (hij : i ≤ j) (hj : j ≤ n) :
    rdN G.ap i ≤ rdN G.ap j := by
  have := h.ap_le (j - i) i (by omega)
  rwa [show i + (j - i) = j by omega] at this

theorem WFp.sok {G : Csr} {n : Nat} (h : WFp G n) : SOK G n := by
  refine ⟨fun i hi j hj => ?_⟩
  unfold Csr.row at hj
  obtain ⟨jj, hjj, rfl⟩ := List.mem_map.1 hj
  rw [List.mem_range'_1] at hjj
  have h1 := h.ap_le' (Nat.zero_le i) (by omega)
  have h2 := h.ap_le' (show i + 1 ≤ n by omega) (Nat.le_refl n)
  exact h.cols jj (by omega) (by omega)

/-- row loops: the reads of `Gp[i]`, `Gp[i+1]`, `Gj[jj]` are in range and the loop variable `j` is a node -/
theorem forRow_safe {σ : Type} (G : Csr) (n : Nat) (hG : WFp G n) (i : Nat) (hi : i < n)
    (body : σ → Nat → Ck σ) (Inv : σ → Prop) (s : σ) (h0 : Inv s)
    (hstep : ∀ j, j < n → ∀ s, Inv s → (body s j).ok = true ∧ Inv (body s j).val) :
    (forRow G i body s).ok = true ∧ Inv (forRow G i body s).val := by
  unfold forRow
  have h1 : i < G.ap.size := by rw [hG.ap_size]; omega
  have h2 : i + 1 < G.ap.size := by rw [hG.ap_size]; omega
  simp only [bind_ok, bind_val, rdc_ok, rdc_val, decide_eq_true h1, decide_eq_true h2, Bool.true_and]
  apply foldCk_safe _ Inv _ _ h0
  intro jj hjj s hs
  rw [List.mem_range'_1] at hjj
  have hle := hG.ap_le' (show i + 1 ≤ n by omega) (Nat.le_refl n)
  have hge := hG.ap_le' (Nat.zero_le i) (show i ≤ n by omega)
  have hjs : jj < G.aj.size := by have := hG.last; omega
  have hcol := hG.cols jj (by omega) (by omega)
  simp only [bind_ok, bind_val, rdc_ok, rdc_val, decide_eq_true hjs, Bool.true_and]
  exact hstep _ hcol s hs

/-! ### the two bucket moves -/

/-- `incr_bounds` plus the non-emptiness of the interval the node leaves -/
theorem incr_bounds' {n L top1 : Nat} {s : St} (hB : BInv n L top1 s) (hV : VInv n top1 s)
    {k : Nat} (hk : k < n) (hU : rdI s.sp k = U) : 1 ≤ rdN s.icnt (rdN s.lam k) := by
  have hpos := pos_of_U hB hV hk hU
  obtain ⟨_, hi2n⟩ := hB.p2 k hk
  have hblk := hB.blk (rdN s.n2i k) hpos
  have hlamAt : lamAt s (rdN s.n2i k) = rdN s.lam k := by unfold lamAt; rw [hi2n]
  rw [hlamAt] at hblk
  omega

theorem incrCk_safe {n L top1 : Nat} {s : St} (h : AllInv n L top1 s) (hnL : n + 1 ≤ L)
    {k : Nat} (hk : k < n) :
    (incrCk n s k).ok = true ∧ AllInv n L top1 (incrCk n s k).val := by
  refine ⟨?_, ?_⟩
  · unfold incrCk
    have hksp : k < s.sp.size := by rw [h.spsz]; exact hk
    simp only [bind_ok, rdcI_ok, rdcI_val, decide_eq_true hksp, Bool.true_and]
    by_cases hU : rdI s.sp k ≠ U
    · rw [if_pos hU]; rfl
    · rw [if_neg hU]
      have hk2 : k < s.lam.size := by rw [h.B.szl]; exact hk
      simp only [bind_ok, rdc_ok, rdc_val, decide_eq_true hk2, Bool.true_and]
      by_cases hg : rdN s.lam k ≥ n - 1
      · rw [if_pos hg]; rfl
      · rw [if_neg hg]
        have hUe : rdI s.sp k = U := by simpa using hU
        have hb := incr_bounds h.B h.V hnL hk hUe hg
        have hb' := incr_bounds' h.B h.V hk hUe
        simp only [bind_ok, bind_val, rdc_ok, rdc_val, wrc_ok, wrc_val, subc_ok, subc_val, pure_ok,
          size_wrN, Bool.and_eq_true, decide_eq_true_eq, Bool.and_true]
        omega
  · rw [incrCk_val]
    obtain ⟨b, v, e⟩ := incr_BV n L top1 s k h.B h.V hk hnL h.spsz
    exact ⟨b, v, by rw [e]; exact h.spsz⟩

/-- the interval below a non-empty interval ends before it -/
theorem decr_gap {n L top1 : Nat} {s : St} (hB : BInv n L top1 s) {l : Nat} (hl : l < L)
    (hl1 : 1 ≤ l) (hne : 1 ≤ rdN s.icnt l) : rdN s.icnt (l-1) ≤ rdN s.iptr l := by
  by_cases h0 : rdN s.icnt (l-1) = 0
  · omega
  · obtain ⟨p1, p2⟩ := hB.blk' (l-1) (by omega) (rdN s.iptr (l-1) + rdN s.icnt (l-1) - 1) (by omega) (by omega)
    obtain ⟨q1, q2⟩ := hB.blk' l hl (rdN s.iptr l) (Nat.le_refl _) (by omega)
    by_cases hlt : rdN s.iptr (l-1) + rdN s.icnt (l-1) - 1 < rdN s.iptr l
    · omega
    · exfalso
      by_cases heq : rdN s.iptr l = rdN s.iptr (l-1) + rdN s.icnt (l-1) - 1
      · rw [heq] at q2; omega
      · have := hB.sorted (rdN s.iptr l) (rdN s.iptr (l-1) + rdN s.icnt (l-1) - 1) (by omega) p1
        omega

theorem decrCk_safe {n L top1 : Nat} {s : St} (h : AllInv n L top1 s) {j : Nat} (hj : j < n) :
    (decrCk s j).ok = true ∧ AllInv n L top1 (decrCk s j).val := by
  refine ⟨?_, ?_⟩
  · unfold decrCk
    have hjsp : j < s.sp.size := by rw [h.spsz]; exact hj
    simp only [bind_ok, rdcI_ok, rdcI_val, decide_eq_true hjsp, Bool.true_and]
    by_cases hU : rdI s.sp j ≠ U
    · rw [if_pos hU]; rfl
    · rw [if_neg hU]
      have hj2 : j < s.lam.size := by rw [h.B.szl]; exact hj
      simp only [bind_ok, rdc_ok, rdc_val, decide_eq_true hj2, Bool.true_and]
      by_cases hg : rdN s.lam j = 0
      · rw [if_pos hg]; rfl
      · rw [if_neg hg]
        have hUe : rdI s.sp j = U := by simpa using hU
        have hb := decr_bounds h.B h.V hj hUe hg
        have hlL := h.B.lamL j hj
        have hgap := decr_gap h.B hlL (by omega) hb.2.2.2.2.2.1
        have hszp := h.B.szp
        have hszc := h.B.szc
        have e1 : rdN (wrN s.iptr (rdN s.lam j) (rdN s.iptr (rdN s.lam j) + 1)) (rdN s.lam j)
            = rdN s.iptr (rdN s.lam j) + 1 := by
          rw [rdN_wrN, if_pos ⟨rfl, by omega⟩]
        have e2 : rdN (wrN (wrN s.icnt (rdN s.lam j) (rdN s.icnt (rdN s.lam j) - 1)) (rdN s.lam j - 1)
              (rdN (wrN s.icnt (rdN s.lam j) (rdN s.icnt (rdN s.lam j) - 1)) (rdN s.lam j - 1) + 1))
              (rdN s.lam j - 1) = rdN s.icnt (rdN s.lam j - 1) + 1 := by
          rw [rdN_wrN, size_wrN, if_pos ⟨rfl, by omega⟩, rdN_wrN, if_neg (by omega)]
        simp only [bind_ok, bind_val, rdc_ok, rdc_val, wrc_ok, wrc_val, subc_ok, subc_val, pure_ok,
          size_wrN, Bool.and_eq_true, decide_eq_true_eq, Bool.and_true, e1, e2]
        omega
  · rw [decrCk_val]
    obtain ⟨b, v, e⟩ := decr_BV n L top1 s j h.B h.V hj
    exact ⟨b, v, by rw [e]; exact h.spsz⟩

/-! ### the inner loops -/
theorem markCk_safe {n L top1 : Nat} {s : St} (h : AllInv n L top1 s) {j : Nat} (hj : j < n) :
    (markCk s j).ok = true ∧ AllInv n L top1 (markCk s j).val := by
  refine ⟨?_, ?_⟩
  · unfold markCk
    have hjsp : j < s.sp.size := by rw [h.spsz]; exact hj
    simp only [bind_ok, rdcI_ok, rdcI_val, decide_eq_true hjsp, Bool.true_and]
    split
    · simp only [bind_ok, wrcI_ok, decide_eq_true hjsp, Bool.true_and]; rfl
    · rfl
  · rw [markCk_val]
    exact loop1_All n L top1 [j] s h

theorem bumpCk_safe (S : Csr) {n L top1 : Nat} (hSn : S.n = n) (hS : WFp S n) (hnL : n + 1 ≤ L)
    {s : St} (h : AllInv n L top1 s) {j : Nat} (hj : j < n) :
    (bumpCk S s j).ok = true ∧ AllInv n L top1 (bumpCk S s j).val := by
  refine ⟨?_, ?_⟩
  · unfold bumpCk
    have hjsp : j < s.sp.size := by rw [h.spsz]; exact hj
    simp only [bind_ok, rdcI_ok, rdcI_val, decide_eq_true hjsp, Bool.true_and]
    split
    · simp only [bind_ok, bind_val, wrcI_ok, wrcI_val, decide_eq_true hjsp, Bool.true_and]
      have h1 : AllInv n L top1 { s with sp := wrI s.sp j F } := by
        apply h.setsp _ (by simp [wrI, h.spsz])
        intro k hk; rw [rdI_wrI] at hk
        split at hk
        · exact absurd hk (by decide)
        · exact hk
      rw [hSn]
      exact (forRow_safe S n hS j hj (incrCk n) (AllInv n L top1) _ h1
        (fun k hk s hs => incrCk_safe hs hnL hk)).1
    · rfl
  · rw [bumpCk_val]
    exact loop2_All S n L top1 hSn hS.sok hnL [j] s (by simpa using hj) h

/-! ### one iteration of the main loop, and the main loop -/
theorem stepCk_safe (S T : Csr) (n L top : Nat) (hSn : S.n = n) (hS : WFp S n) (hT : WFp T n)
    (hnL : n + 1 ≤ L) (s : St) (h : AllInv n L (top+1) s) :
    (stepCk S T s top).ok = true := by
  have htop := h.B.top
  have hb := step_bounds h.B (Nat.lt_succ_self top)
  have hB0 := popTop_inv n L top s h.B
  obtain ⟨hin, _⟩ := h.B.p1 top (by omega)
  have hisp : rdN s.i2n top < s.sp.size := by rw [h.spsz]; exact hin
  unfold stepCk
  simp only [bind_ok, bind_val, rdc_ok, rdc_val, wrc_ok, wrc_val, subc_ok, subc_val,
    decide_eq_true hb.1, decide_eq_true hb.2.1, decide_eq_true hb.2.2.1, decide_eq_true hb.2.2.2,
    Bool.true_and]
  split
  · rfl
  · simp only [bind_ok, bind_val, rdcI_ok, rdcI_val, decide_eq_true hisp, Bool.true_and]
    split
    · rfl
    · rename_i hU
      have hUe : rdI s.sp (rdN s.i2n top) = U := by simpa using hU
      simp only [bind_ok, bind_val, wrcI_ok, wrcI_val, decide_eq_true hisp, Bool.true_and, pure_ok,
        Bool.and_true]
      -- the state after the pop and the C mark satisfies the invariant with `top` unvisited positions
      have h1 : AllInv n L top { popTop s top with sp := wrI s.sp (rdN s.i2n top) C } := by
        refine ⟨⟨hB0.szl, hB0.szi, hB0.szn, hB0.szp, hB0.szc, hB0.top, hB0.p1, hB0.p2, hB0.lamL,
          hB0.blk, hB0.blk', hB0.sorted⟩, ?_, by simp [wrI, h.spsz]⟩
        intro p hp1 hp2
        show rdI (wrI s.sp (rdN s.i2n top) C) (rdN s.i2n p) ≠ U
        by_cases hpt : p = top
        · rw [hpt, rdI_wrI, if_pos ⟨rfl, hisp⟩]; decide
        · intro hU'
          rw [rdI_wrI] at hU'
          split at hU'
          · exact absurd hU' (by decide)
          · exact h.V p (by omega) hp2 hU'
      obtain ⟨a1, a2⟩ := forRow_safe T n hT _ hin markCk (AllInv n L top) _ h1
        (fun j hj s hs => markCk_safe hs hj)
      obtain ⟨b1, b2⟩ := forRow_safe T n hT _ hin (bumpCk S) (AllInv n L top) _ a2
        (fun j hj s hs => bumpCk_safe S hSn hS hnL hs hj)
      obtain ⟨c1, _⟩ := forRow_safe S n hS _ hin decrCk (AllInv n L top) _ b2
        (fun j hj s hs => decrCk_safe hs hj)
      unfold popTop at a1 a2 b1 b2 c1
      rw [a1, b1, c1]; rfl

/-- the main loop started at position `top` with `top + 1` unvisited positions ends, in bounds,
within `top + 1` iterations -/
theorem goCk_ok (S T : Csr) (n L : Nat) (hSn : S.n = n) (hS : WFp S n) (hT : WFp T n)
    (hnL : n + 1 ≤ L) : ∀ (fuel top : Nat) (s : St), top + 1 ≤ fuel → AllInv n L (top+1) s →
    (goCk S T fuel top s).ok = true := by
  intro fuel
  induction fuel with
  | zero => intro top s h _; omega
  | succ fuel ih =>
    intro top s hf h
    unfold goCk
    have hok := stepCk_safe S T n L top hSn hS hT hnL s h
    have hval := stepCk_val S T s top
    simp only [bind_ok, hok, Bool.true_and]
    cases hst : step S T s top with
    | none => rw [hval, hst]; rfl
    | some s' =>
      rw [hval, hst]
      simp only
      have h' := step_All S T n L top hSn hS.sok hT.sok hnL s s' h hst
      split
      · rfl
      · rename_i h0
        have e : top - 1 + 1 = top := by omega
        exact ih (top - 1) s' (by omega) (by rw [e]; exact h')

/-! ### the initialisation loops -/
theorem lamCk_ok (S T : Csr) (hT : WFp T S.n) : (lamCk S T).ok = true := by
  unfold lamCk
  refine (foldCk_safe _ (fun lam => lam.size = S.n) _ _ (by simp) ?_).1
  intro i hi lam hl
  have hi' : i < S.n := List.mem_range.1 hi
  have h1 : i + 1 < T.ap.size := by rw [hT.ap_size]; omega
  have h2 : i < T.ap.size := by rw [hT.ap_size]; omega
  have h3 := hT.mono i hi'
  have h4 : i < lam.size := by omega
  simp only [bind_ok, bind_val, rdc_ok, rdc_val, subc_ok, wrc_ok, wrc_val, size_wrN,
    decide_eq_true h1, decide_eq_true h2, decide_eq_true h3, decide_eq_true h4, Bool.true_and]
  exact ⟨trivial, hl⟩

theorem rdN_lamArr (S T : Csr) (i : Nat) (hi : i < S.n) :
    rdN (lamArr S T) i = rdN T.ap (i+1) - rdN T.ap i := by
  unfold lamArr; rw [rdN_map_range _ _ _ hi]

theorem histCk_ok (S T : Csr) :
    (histCk (lamArr S T) S.n (lmaxOf S T)).ok = true := by
  unfold histCk
  refine (foldCk_safe _ (fun c => c.size = lmaxOf S T) _ _ (by simp) ?_).1
  intro i hi c hc
  have hi' : i < S.n := List.mem_range.1 hi
  have h1 : i < (lamArr S T).size := by rw [lamArr_size]; exact hi'
  have h2 : rdN (lamArr S T) i < c.size := by
    rw [hc, rdN_lamArr S T i hi']; exact lam_lt_lmax S T i hi'
  simp only [bind_ok, bind_val, rdc_ok, rdc_val, wrc_ok, wrc_val, size_wrN,
    decide_eq_true h1, decide_eq_true h2, Bool.true_and]
  exact ⟨trivial, hc⟩

theorem prefixCk_ok (icnt0 : Array Nat) (L : Nat) (hsz : icnt0.size = L) :
    (prefixCk icnt0 L).ok = true := by
  unfold prefixCk
  refine (foldCk_safe _ (fun acc => acc.1.size = L ∧ acc.2.2.size = L) _ _ ⟨by simp, hsz⟩ ?_).1
  intro v hv acc hacc
  have hv' : v < L := List.mem_range.1 hv
  have h1 : v < acc.1.size := by omega
  have h2 : v < acc.2.2.size := by omega
  simp only [bind_ok, bind_val, rdc_ok, wrc_ok, wrc_val, pure_ok, pure_val, size_wrN,
    decide_eq_true h1, decide_eq_true h2, Bool.true_and]
  exact ⟨trivial, hacc⟩

open PyamgV.CS in
theorem placeCk_ok (S T : Csr) :
    (placeCk (lamArr S T) (prefixFold (histFold (lamArr S T) (lmaxOf S T)) (lmaxOf S T)).1
      (Array.replicate (lmaxOf S T) 0) S.n).ok = true := by
  let lamf : Nat → Nat := fun i => rdN T.ap (i+1) - rdN T.ap i
  have hL : ∀ i, i < S.n → lamf i < lmaxOf S T := fun i hi => lam_lt_lmax S T i hi
  have hlam : ∀ i, i < S.n → rdN (lamArr S T) i = lamf i := fun i hi => rdN_lamArr S T i hi
  obtain ⟨_, hs2⟩ := hist_spec lamf (lmaxOf S T) S.n hL
  rw [← histFold_list S T (lmaxOf S T)] at hs2
  obtain ⟨ps1, _, ps3⟩ := prefix_spec lamf S.n (lmaxOf S T) (histFold (lamArr S T) (lmaxOf S T))
    (fun v hv => by rw [hs2 v, if_pos hv]) (lmaxOf S T) (Nat.le_refl _)
  have hiptr : ∀ v, v < lmaxOf S T →
      rdN (prefixFold (histFold (lamArr S T) (lmaxOf S T)) (lmaxOf S T)).1 v = P lamf S.n v :=
    fun v hv => ps3 v hv
  have hipsz : (prefixFold (histFold (lamArr S T) (lmaxOf S T)) (lmaxOf S T)).1.size = lmaxOf S T := ps1
  unfold placeCk
  apply foldCk_range_ok
  intro t ht
  obtain ⟨q1, q2, q3, q4, _⟩ := place_spec lamf S.n (lmaxOf S T) (lamArr S T)
    (prefixFold (histFold (lamArr S T) (lmaxOf S T)) (lmaxOf S T)).1 hlam hL hiptr t (by omega)
  simp only [bind_val, rdc_val, wrc_val, pure_val]
  generalize (List.range t).foldl (fun (acc : Array Nat × Array Nat × Array Nat) i =>
      (wrN acc.1 (rdN (prefixFold (histFold (lamArr S T) (lmaxOf S T)) (lmaxOf S T)).1 (rdN (lamArr S T) i)
          + rdN acc.2.2 (rdN (lamArr S T) i)) i,
       wrN acc.2.1 i (rdN (prefixFold (histFold (lamArr S T) (lmaxOf S T)) (lmaxOf S T)).1 (rdN (lamArr S T) i)
          + rdN acc.2.2 (rdN (lamArr S T) i)),
       wrN acc.2.2 (rdN (lamArr S T) i) (rdN acc.2.2 (rdN (lamArr S T) i) + 1)))
      (Array.replicate S.n 0, Array.replicate S.n 0, Array.replicate (lmaxOf S T) 0) = acc at q1 q2 q3 q4
  have hl := hlam t ht
  have hlL := hL t ht
  have hidx : rdN (prefixFold (histFold (lamArr S T) (lmaxOf S T)) (lmaxOf S T)).1 (rdN (lamArr S T) t)
      + rdN acc.2.2 (rdN (lamArr S T) t) = pos lamf S.n t := by
    rw [hl, hiptr _ hlL, q4, if_pos hlL]; rfl
  have hpt := pos_lt lamf S.n (lmaxOf S T) hL t ht
  have b1 : t < (lamArr S T).size := by rw [lamArr_size]; exact ht
  simp only [bind_ok, bind_val, rdc_ok, rdc_val, wrc_ok, wrc_val, pure_ok, size_wrN, hidx,
    Bool.and_eq_true, decide_eq_true_eq, Bool.and_true]
  rw [hl, hipsz, q1, q2, q3]
  exact ⟨b1, hlL, hlL, hpt, ht, hlL⟩

theorem spCk_ok (S T : Csr) (hT : WFp T S.n) : (spCk T (lamArr S T) S.n).ok = true := by
  unfold spCk
  refine (foldCk_safe _ (fun sp => sp.size = S.n) _ _ (by simp) ?_).1
  intro i hi sp hsp
  have hi' : i < S.n := List.mem_range.1 hi
  have h1 : i < (lamArr S T).size := by rw [lamArr_size]; exact hi'
  have h2 : i < sp.size := by omega
  simp only [bind_ok, bind_val, rdc_ok, rdc_val, decide_eq_true h1, Bool.true_and]
  split
  · simp only [wrcI_ok, wrcI_val, size_wrI, decide_eq_true h2]; exact ⟨trivial, hsp⟩
  · split
    · rename_i _ hl1
      rw [rdN_lamArr S T i hi'] at hl1
      have h3 : i < T.ap.size := by rw [hT.ap_size]; omega
      have h4 : rdN T.ap i < T.aj.size := by
        have := hT.ap_le' (show i + 1 ≤ S.n by omega) (Nat.le_refl _)
        have := hT.last
        omega
      simp only [bind_ok, bind_val, rdc_ok, rdc_val, decide_eq_true h3, decide_eq_true h4, Bool.true_and]
      split
      · simp only [wrcI_ok, wrcI_val, size_wrI, decide_eq_true h2]; exact ⟨trivial, hsp⟩
      · exact ⟨rfl, hsp⟩
    · exact ⟨rfl, hsp⟩

/-- **everything before the main loop is in range** -/
theorem initCk_ok (S T : Csr) (hT : WFp T S.n) : (initCk S T).ok = true := by
  unfold initCk
  have hL : max (2 * Array.foldl max 0 (lamArr S T)) (S.n + 1) = lmaxOf S T := rfl
  obtain ⟨p1, p2⟩ := prefixCk_val (histFold (lamArr S T) (lmaxOf S T)) (lmaxOf S T) (histFold_size S T _)
  simp only [bind_ok, bind_val, pure_ok, lamCk_val, lamCk_ok S T hT, hL,
    histCk_val _ _ _ (lamArr_size S T), histCk_ok, prefixCk_ok _ _ (histFold_size S T _), p1, p2,
    placeCk_ok, spCk_ok S T hT, Bool.and_self]

theorem finalCk_ok (sp : Array Int) (n : Nat) (hn : sp.size = n) : (finalCk sp n).ok = true := by
  unfold finalCk
  refine (foldCk_safe _ (fun sp => sp.size = n) _ _ hn ?_).1
  intro i hi sp hsp
  have hi' : i < n := List.mem_range.1 hi
  have h2 : i < sp.size := by omega
  simp only [bind_ok, bind_val, rdcI_ok, decide_eq_true h2, Bool.true_and]
  split
  · simp only [wrcI_ok, wrcI_val, size_wrI, decide_eq_true h2]; exact ⟨trivial, hsp⟩
  · exact ⟨rfl, hsp⟩

/-- **`rs_cf_splitting`, the whole kernel**: for every pair of structurally valid CSR patterns
`S`, `T` with `n = S.n` rows (any `n`, `T = Sᵀ` or not) the checked run performs only in-range
array accesses, never produces a negative count/position/lambda, its main loop ends within `n`
iterations (`ok = true`), and it returns exactly what the executable model `RS.run` returns (the
model the driver compares with the kernel and the C13 theorems are about) -/
theorem rs_cf_splitting_safe (S T : Csr) (hS : WFp S S.n) (hT : WFp T S.n) :
    (runCk S T).ok = true ∧ (runCk S T).val = run S T := by
  refine ⟨?_, runCk_val S T⟩
  unfold runCk
  have hnL : S.n + 1 ≤ lmaxOf S T := by unfold lmaxOf; omega
  by_cases h0 : S.n = 0
  · simp only [bind_ok, bind_val, initCk_ok S T hT, initCk_val, if_pos h0, pure_ok, pure_val, Bool.true_and]
    exact finalCk_ok _ _ (init_sp_size S T)
  · have e : S.n - 1 + 1 = S.n := by omega
    have hgo := goCk_ok S T S.n (lmaxOf S T) rfl hS hT hnL S.n (S.n - 1) (init S T) (by omega)
      (by rw [e]; exact init_AllInv S T)
    simp only [bind_ok, bind_val, initCk_ok S T hT, initCk_val, if_neg h0, hgo, Bool.true_and, goCk_val]
    exact finalCk_ok (run.go S T S.n (S.n - 1) (init S T)).sp S.n (by rw [go_sp_size, init_sp_size])

/-- the main loop alone: fuel `top + 1` suffices from any state satisfying the invariant, i.e. the
loop over `top_index = n-1, ..., 0` makes at most `n` iterations -/
theorem rs_main_loop_terminates (S T : Csr) (hS : WFp S S.n) (hT : WFp T S.n) (h0 : S.n ≠ 0) :
    (goCk S T S.n (S.n - 1) (init S T)).ok = true := by
  have hnL : S.n + 1 ≤ lmaxOf S T := by unfold lmaxOf; omega
  have e : S.n - 1 + 1 = S.n := by omega
  exact goCk_ok S T S.n (lmaxOf S T) rfl hS hT hnL S.n (S.n - 1) (init S T) (by omega)
    (by rw [e]; exact init_AllInv S T)

#print axioms rs_cf_splitting_safe
end PyamgV.RS
