import PyamgV.Proofs.ExtC11XGmres
import PyamgV.Proofs.ExtC11XGmresHom
import PyamgV.Proofs.ExtC07Vec
import Mathlib.LinearAlgebra.Matrix.NonsingularInverse

/-! PyamgV (C11, extension E49): **the `dense_GMRES` model the driver executes (`denseGmres` on `Vector K n`)
returns the exact solution of the local system** when it is run to full length (`maxiter = 0` or `≥ n`)
over an ordered field with an exact square root, provided there is no breakdown: the right-hand side is
not small, the Arnoldi loop does not `break` before its last pass, `upper_tri_solve` meets no small pivot
(`denseGmres_solves`).  `n` orthonormal vectors of `Kⁿ` are complete (`complete_of_orthonormal`,
`Qᵀ Q = 1 ⇒ Q Qᵀ = 1`), which makes the remainder of the last Arnoldi pass vanish.  Consequence for
`approx_ideal_restriction_pass2` with `use_gmres`: the row assembled from that solution satisfies
`(R A)[c, f] = 0` on the neighbourhood (`air_row_of_gmres`). -/
namespace PyamgV.C11XG
open PyamgV PyamgV.C07 Finset

variable {K : Type} [Field K] [LinearOrder K] [IsStrictOrderedRing K] {n : Nat}

/-- `n` orthonormal vectors of `Kⁿ` are complete -/
theorem complete_of_orthonormal (vs : List (Fin n → K)) (hl : vs.length = n)
    (hon : ∀ i j, i < n → j < n → (dotForm K n).a (vs.getD i 0) (vs.getD j 0) = if i = j then 1 else 0)
    (w : Fin n → K) (hw : ∀ v ∈ vs, (dotForm K n).a v w = 0) : w = 0 := by
  let Q : Matrix (Fin n) (Fin n) K := Matrix.of (fun i j => vs.getD i.val 0 j)
  have hQ : ∀ i j, Q i j = vs.getD i.val 0 j := fun _ _ => rfl
  have h1 : Q * Q.transpose = 1 := by
    ext i k
    rw [Matrix.mul_apply, Matrix.one_apply]
    have := hon i.val k.val i.2 k.2
    rw [dotForm_a] at this
    simp only [Matrix.transpose_apply, hQ]
    rw [this]
    by_cases hik : i = k
    · simp [hik]
    · have : ¬ i.val = k.val := fun h => hik (Fin.ext h)
      simp [hik, this]
  have h2 : Q.transpose * Q = 1 := mul_eq_one_comm.mp h1
  have h3 : Q.mulVec w = 0 := by
    funext i
    have hmem : vs.getD i.val 0 ∈ vs := by
      rw [List.getD_eq_getElem _ _ (by rw [hl]; exact i.2)]
      exact List.getElem_mem _
    have := hw _ hmem
    rw [dotForm_a] at this
    simpa [Matrix.mulVec, dotProduct, hQ] using this
  calc w = (1 : Matrix (Fin n) (Fin n) K).mulVec w := by rw [Matrix.one_mulVec]
    _ = (Q.transpose * Q).mulVec w := by rw [h2]
    _ = Q.transpose.mulVec (Q.mulVec w) := by rw [Matrix.mulVec_mulVec]
    _ = 0 := by rw [h3, Matrix.mulVec_zero]

/-- `normb < 1e-12` over an ordered field, threshold `tol` -/
def smallK (tol a : K) : Bool := decide (a < tol)

theorem smallK_ne (tol : K) (htol : 0 < tol) (a : K) (h : smallK tol a = false) : a ≠ 0 := by
  unfold smallK at h
  have : ¬ a < tol := by simpa using h
  intro h0; rw [h0] at this; exact this htol

variable (A : Vector (Vector K n) n) (b : Vector K n) (sqrt : K → K) (tol normb : K)

/-- `v[i] / a`, as the C++ computes the basis vectors -/
def vsdiv (v : Vector K n) (a : K) : Vector K n := v.map (· / a)

omit [LinearOrder K] [IsStrictOrderedRing K] in
theorem toFn_vsdiv (v : Vector K n) (a : K) : toFn (vsdiv v a) = (1 / a) • toFn v := by
  funext i
  simp only [vsdiv, toFn, Fin.getElem_fin, Vector.getElem_map, Pi.smul_apply, smul_eq_mul]
  ring

/-- the states of the Arnoldi loop of the model on `Vector K n` -/
def arnVec (k : Nat) : ArnSt K (Vector K n) :=
  iter (arnStep (vecOps (fun a => a) A A) vsdiv sqrt (smallK tol) n b) k ⟨[vsdiv b normb], [], false, n⟩

theorem arnVec_map (k : Nat) : mapArn toFn (arnVec A b sqrt tol normb k) =
    arnSeq (linOf A) (linOf (vctrans (fun a => a) A)) (linOf A) (dotForm K n) sqrt (smallK tol) n (toFn b) normb k := by
  have hit := iter_hom (arnStep (vecOps (fun a => a) A A) vsdiv sqrt (smallK tol) n b)
    (arnStep (modOps A A) (fun v a => (1 / a) • v) sqrt (smallK tol) n (toFn b)) (mapArn toFn)
    (arnStep_hom toFn _ _ (opsHom_vec A A) vsdiv (fun v a => (1 / a) • v) toFn_vsdiv sqrt (smallK tol) n b) k
    ⟨[vsdiv b normb], [], false, n⟩
  unfold arnVec
  rw [hit]
  simp only [mapArn, List.map_cons, List.map_nil, toFn_vsdiv]
  rfl

variable (hsq : ∀ a, 0 ≤ a → sqrt a * sqrt a = a) (hsq0 : ∀ a, 0 ≤ sqrt a) (htol : 0 < tol)

include hsq hsq0 htol in
/-- **full-length Krylov part on the instance the driver runs** -/
theorem dgCore_vec_solves (hn : 1 ≤ n) (hb : vdot (fun a => a) b b = normb * normb) (hnb0 : normb ≠ 0)
    (hnb : ∀ k, k + 1 < n → (arnVec A b sqrt tol normb (k + 1)).stop = false)
    (hdiag : ∀ i, i < n → smallK tol |hent (sweepOf sqrt n n normb (arnVec A b sqrt tol normb n).cols).1 i i| = false) :
    linOf A (toFn (dgCore (vecOps (fun a => a) A A) vsdiv sqrt (fun a => |a|) (smallK tol) isZ n n b normb)) = toFn b := by
  rw [dgCore_hom toFn _ _ (opsHom_vec A A) vsdiv (fun v a => (1 / a) • v) toFn_vsdiv]
  have hb' : (dotForm K n).a (toFn b) (toFn b) = normb * normb := by
    rw [← hb]; exact (vdot_eq b b).symm
  have hnb' : ∀ k, k + 1 < n → (arnSeq (linOf A) (linOf (vctrans (fun a => a) A)) (linOf A) (dotForm K n) sqrt
      (smallK tol) n (toFn b) normb (k + 1)).stop = false := by
    intro k hk
    rw [← arnVec_map]; exact hnb k hk
  have hcols : (arnSeq (linOf A) (linOf (vctrans (fun a => a) A)) (linOf A) (dotForm K n) sqrt
      (smallK tol) n (toFn b) normb n).cols = (arnVec A b sqrt tol normb n).cols := by
    rw [← arnVec_map]; rfl
  have hI := arn_inv (linOf A) (linOf (vctrans (fun a => a) A)) (linOf A) (dotForm K n) sqrt (smallK tol) n
    (toFn b) normb dotForm_def hsq hsq0 (smallK_ne tol htol) hb' hnb0 hnb' (n - 1) (by omega)
  apply dgCore_solves (linOf A) (linOf (vctrans (fun a => a) A)) (linOf A) (dotForm K n) sqrt (smallK tol) n n
    (toFn b) normb dotForm_def hsq hsq0 (smallK_ne tol htol) hb' hnb0 hnb' hn (Nat.le_refl n)
  · generalize arnSeq (linOf A) (linOf (vctrans (fun a => a) A)) (linOf A) (dotForm K n) sqrt (smallK tol) n
      (toFn b) normb (n - 1) = s at hI
    have hvl : s.vs.length = n := by have := hI.arn.len; rw [hI.clen] at this; omega
    apply complete_of_orthonormal s.vs hvl
    intro i j hi hj
    by_cases hij : i = j
    · subst hij
      rw [if_pos rfl]
      apply hI.norm1
      rw [List.getD_eq_getElem _ _ (by rw [hvl]; exact hi)]
      exact List.getElem_mem _
    · rw [if_neg hij]
      rcases Nat.lt_or_gt_of_ne hij with h | h
      · exact onz_pairwise _ s.vs hI.arn.onz i j h (by rw [hvl]; exact hj)
      · rw [(dotForm K n).symm]
        exact onz_pairwise _ s.vs hI.arn.onz j i h (by rw [hvl]; exact hi)
  · intro i hi
    rw [hcols]; exact hdiag i hi

/-! ### the wrapper: iteration count, `n = 1`, diagonal scaling -/

theorem linOf_apply (A : Vector (Vector K n) n) (x : Fin n → K) (i : Fin n) :
    linOf A x i = ∑ j : Fin n, A[i][j] * x j := by
  simp [linOf, matOf, Matrix.mulVec, dotProduct]

omit [LinearOrder K] [IsStrictOrderedRing K] in
theorem scaleRows_row (absK : K → K) (small : K → Bool) (A : Vector (Vector K n) n) (b : Vector K n) (i : Nat)
    (hi : i < n) :
    (scaleRows absK small A b).1[i] = if small (absK A[i][i]) then A[i] else A[i].map ((1 / A[i][i]) * ·) := by
  unfold scaleRows
  simp only [Vector.getElem_ofFn, Fin.getElem_fin]

omit [LinearOrder K] [IsStrictOrderedRing K] in
theorem scaleRows_rhs (absK : K → K) (small : K → Bool) (A : Vector (Vector K n) n) (b : Vector K n) (i : Nat)
    (hi : i < n) :
    (scaleRows absK small A b).2[i] = if small (absK A[i][i]) then b[i] else b[i] * (1 / A[i][i]) := by
  unfold scaleRows
  simp only [Vector.getElem_ofFn, Fin.getElem_fin]

theorem scaleRows_solves (A : Vector (Vector K n) n) (b : Vector K n) (x : Fin n → K)
    (h : linOf (scaleRows (fun a => |a|) (smallK tol) A b).1 x = toFn (scaleRows (fun a => |a|) (smallK tol) A b).2)
    (htol : 0 < tol) : linOf A x = toFn b := by
  funext i
  have hi := congrFun h i
  rw [linOf_apply] at hi ⊢
  simp only [toFn, Fin.getElem_fin] at hi ⊢
  rw [scaleRows_rhs _ _ A b i.val i.2] at hi
  by_cases hs : smallK tol |A[i.val][i.val]| = true
  · rw [if_pos hs] at hi
    have hrow : (scaleRows (fun a => |a|) (smallK tol) A b).1[i.val] = A[i.val] := by
      rw [scaleRows_row _ _ A b i.val i.2, if_pos hs]
    rw [← hi]
    simp only [hrow]
  · rw [if_neg hs] at hi
    have hne : A[i.val][i.val] ≠ 0 := by
      have := smallK_ne tol htol _ (by simpa using hs)
      intro h0; rw [h0] at this; simp at this
    have hsum : ∑ j : Fin n, (scaleRows (fun a => |a|) (smallK tol) A b).1[i.val][j.val] * x j =
        1 / A[i.val][i.val] * ∑ j : Fin n, A[i.val][j.val] * x j := by
      have hrow : (scaleRows (fun a => |a|) (smallK tol) A b).1[i.val] =
          A[i.val].map ((1 / A[i.val][i.val]) * ·) := by
        rw [scaleRows_row _ _ A b i.val i.2, if_neg hs]
      rw [Finset.mul_sum]
      refine Finset.sum_congr rfl (fun j _ => ?_)
      simp only [hrow, Vector.getElem_map]
      ring
    rw [hsum] at hi
    field_simp at hi
    linarith

include hsq hsq0 htol in
/-- **`dense_GMRES` run to full length returns the exact solution of `A x = b`** (no breakdown; exact
arithmetic).  The breakdown hypotheses are stated on the states of the model itself:
`hnorm` — the (scaled) right-hand side is not small; `hnb` — no `break` before the last Arnoldi pass;
`hdiag` — no small pivot in `upper_tri_solve`; `hA1` — for `n = 1` the single entry is non-zero. -/
theorem denseGmres_solves (maxiter : Nat) (pc : Bool) (hn : 1 ≤ n) (hmax : maxiter = 0 ∨ n ≤ maxiter)
    (hA1 : n = 1 → ∀ i : Fin n, A[i][i] ≠ 0)
    (hnorm : n ≠ 1 → smallK tol (sqrt (vdot (fun a => a) (dgSystem (fun a => |a|) (smallK tol) A b pc).2
      (dgSystem (fun a => |a|) (smallK tol) A b pc).2)) = false)
    (hnb : n ≠ 1 → ∀ k, k + 1 < n → (arnVec (dgSystem (fun a => |a|) (smallK tol) A b pc).1
      (dgSystem (fun a => |a|) (smallK tol) A b pc).2 sqrt tol
      (sqrt (vdot (fun a => a) (dgSystem (fun a => |a|) (smallK tol) A b pc).2
        (dgSystem (fun a => |a|) (smallK tol) A b pc).2)) (k + 1)).stop = false)
    (hdiag : n ≠ 1 → ∀ i, i < n → smallK tol |hent (sweepOf sqrt n n
      (sqrt (vdot (fun a => a) (dgSystem (fun a => |a|) (smallK tol) A b pc).2
        (dgSystem (fun a => |a|) (smallK tol) A b pc).2))
      (arnVec (dgSystem (fun a => |a|) (smallK tol) A b pc).1
        (dgSystem (fun a => |a|) (smallK tol) A b pc).2 sqrt tol
        (sqrt (vdot (fun a => a) (dgSystem (fun a => |a|) (smallK tol) A b pc).2
          (dgSystem (fun a => |a|) (smallK tol) A b pc).2)) n).cols).1 i i| = false) :
    linOf A (toFn (denseGmres sqrt (fun a => |a|) (smallK tol) isZ A b maxiter pc)) = toFn b := by
  unfold denseGmres
  by_cases h1 : n = 1
  · simp only [h1, if_true]
    funext i
    rw [linOf_apply]
    have huniq : ∀ j : Fin n, j = i := by
      intro j; apply Fin.ext; have := i.2; have := j.2; omega
    rw [Finset.sum_eq_single i (fun j _ hj => absurd (huniq j) hj) (fun h => absurd (Finset.mem_univ i) h)]
    simp only [toFn, Fin.getElem_fin, Vector.getElem_ofFn]
    have := hA1 h1 i
    simp only [Fin.getElem_fin] at this
    field_simp
  · simp only [h1, if_false]
    have hm : (if maxiter = 0 then n else min maxiter n) = n := by
      rcases hmax with h | h
      · simp [h]
      · by_cases h0 : maxiter = 0
        · simp [h0]
        · simp [h0, h]
    rw [hm]
    have hnorm' := hnorm h1
    have hnb' := hnb h1
    have hdiag' := hdiag h1
    generalize hAb : dgSystem (fun a => |a|) (smallK tol) A b pc = Ab at hnorm' hnb' hdiag' ⊢
    have hdot : (vecOps (fun a => a) Ab.1 Ab.1).dot Ab.2 Ab.2 = vdot (fun a => a) Ab.2 Ab.2 := rfl
    simp only [hdot, hnorm', Bool.false_eq_true, if_false]
    have hnn : 0 ≤ vdot (fun a => a) Ab.2 Ab.2 := by
      rw [vdot_eq]; exact Finset.sum_nonneg (fun i _ => mul_self_nonneg _)
    have hcore := dgCore_vec_solves Ab.1 Ab.2 sqrt tol (sqrt (vdot (fun a => a) Ab.2 Ab.2)) hsq hsq0 htol hn
      (hsq _ hnn).symm (smallK_ne tol htol _ hnorm') hnb' hdiag'
    have hsys : linOf Ab.1 (toFn (dgCore (vecOps (fun a => a) Ab.1 Ab.1) vsdiv sqrt (fun a => |a|) (smallK tol) isZ n n
        Ab.2 (sqrt (vdot (fun a => a) Ab.2 Ab.2)))) = toFn Ab.2 := hcore
    cases pc with
    | false =>
      have : Ab = (A, b) := by rw [← hAb]; rfl
      subst this
      exact hsys
    | true =>
      have : Ab = scaleRows (fun a => |a|) (smallK tol) A b := by rw [← hAb]; rfl
      subst this
      exact scaleRows_solves tol A b _ hsys htol

/-- the run of the model reaches full length without breakdown (every clause is a statement about the
states of the executable model itself) -/
structure NoBreakdown (A : Vector (Vector K n) n) (b : Vector K n) (sqrt : K → K) (tol : K) (maxiter : Nat)
    (pc : Bool) : Prop where
  /-- `maxiter = 0` (meaning `n`) or `maxiter ≥ n` -/
  hmax : maxiter = 0 ∨ n ≤ maxiter
  /-- `n = 1`: the entry divided by is non-zero -/
  hA1 : n = 1 → ∀ i : Fin n, A[i][i] ≠ 0
  /-- the (scaled) right-hand side is not small -/
  hnorm : n ≠ 1 → smallK tol (sqrt (vdot (fun a => a) (dgSystem (fun a => |a|) (smallK tol) A b pc).2
      (dgSystem (fun a => |a|) (smallK tol) A b pc).2)) = false
  /-- no `break` before the last pass of the Arnoldi loop -/
  hnb : n ≠ 1 → ∀ k, k + 1 < n → (arnVec (dgSystem (fun a => |a|) (smallK tol) A b pc).1
      (dgSystem (fun a => |a|) (smallK tol) A b pc).2 sqrt tol
      (sqrt (vdot (fun a => a) (dgSystem (fun a => |a|) (smallK tol) A b pc).2
        (dgSystem (fun a => |a|) (smallK tol) A b pc).2)) (k + 1)).stop = false
  /-- no small pivot in `upper_tri_solve` -/
  hdiag : n ≠ 1 → ∀ i, i < n → smallK tol |hent (sweepOf sqrt n n
      (sqrt (vdot (fun a => a) (dgSystem (fun a => |a|) (smallK tol) A b pc).2
        (dgSystem (fun a => |a|) (smallK tol) A b pc).2))
      (arnVec (dgSystem (fun a => |a|) (smallK tol) A b pc).1
        (dgSystem (fun a => |a|) (smallK tol) A b pc).2 sqrt tol
        (sqrt (vdot (fun a => a) (dgSystem (fun a => |a|) (smallK tol) A b pc).2
          (dgSystem (fun a => |a|) (smallK tol) A b pc).2)) n).cols).1 i i| = false

include hsq hsq0 htol in
/-- **`dense_GMRES` run to full length without breakdown returns the exact solution** -/
theorem denseGmres_exact (maxiter : Nat) (pc : Bool) (hn : 1 ≤ n) (h : NoBreakdown A b sqrt tol maxiter pc) :
    linOf A (toFn (denseGmres sqrt (fun a => |a|) (smallK tol) isZ A b maxiter pc)) = toFn b :=
  denseGmres_solves A b sqrt tol hsq hsq0 htol maxiter pc hn h.hmax h.hA1 h.hnorm h.hnb h.hdiag

end PyamgV.C11XG
