import PyamgV.Proofs.CljpCount

/-! PyamgV (C13): the selection loop of `cljp_naive_splitting` terminates — every pass that starts with
an undecided node selects at least one (an undecided node of maximal weight has no heavier undecided
neighbour), and the P5/P6 updates never raise the counter; so `n` passes suffice and the model's
exit flag is `true`.  Needs the comparison of the weights to be irreflexive and transitive. Core only. -/
namespace PyamgV.KCljp
variable {W : Type} [Inhabited W]

/-- the comparison used by the kernel (`weight[j] > weight[i]`) is a strict partial order -/
structure LtOrd (o : WOps W) : Prop where
  irr : ∀ a, o.lt a a = false
  trans : ∀ a b c, o.lt a b = true → o.lt b c = true → o.lt a c = true

theorem guardedRemove_le (o : WOps W) (guard : St W → Nat × Nat × Nat → Bool) (s : St W) (e : Nat × Nat × Nat) :
    (guardedRemove o guard s e).unassigned ≤ s.unassigned := by
  unfold guardedRemove removeEdge
  split
  · simp only
    split
    · simp only; omega
    · exact Int.le_refl _
  · exact Int.le_refl _

theorem fold_remove_le (o : WOps W) (guard : St W → Nat × Nat × Nat → Bool) :
    ∀ (l : List (Nat × Nat × Nat)) (s : St W), (l.foldl (guardedRemove o guard) s).unassigned ≤ s.unassigned := by
  intro l
  induction l with
  | nil => intro s; exact Int.le_refl _
  | cons e l ih =>
    intro s
    rw [List.foldl_cons]
    exact Int.le_trans (ih _) (guardedRemove_le o guard s e)

theorem p5_le (o : WOps W) (S : Csr) (s : St W) (c : Nat) : (p5 o S s c).unassigned ≤ s.unassigned :=
  fold_remove_le o g5 _ s

theorem p6_le (o : WOps W) (S T : Csr) (s : St W) (c : Nat) : (p6 o S T s c).unassigned ≤ s.unassigned := by
  unfold p6
  have h4 : (p6Cache T s c).unassigned = s.unassigned := p6Cache_unassigned (W := W) T c (T.rowPos c) s
  have key : ∀ (l : List (Nat × Nat)) (s1 : St W),
      (l.foldl (fun s pj => (S.rowE pj.2).foldl (guardedRemove o (g6 c)) s) s1).unassigned ≤ s1.unassigned := by
    intro l
    induction l with
    | nil => intro s1; exact Int.le_refl _
    | cons pj l ih =>
      intro s1
      rw [List.foldl_cons]
      exact Int.le_trans (ih _) (fold_remove_le o (g6 c) _ s1)
  rw [← h4]
  exact key _ _

theorem phase_le (f : St W → Nat → St W) (hf : ∀ s c, (f s c).unassigned ≤ s.unassigned) :
    ∀ (dl : List Nat) (s : St W), (dl.foldl f s).unassigned ≤ s.unassigned := by
  intro dl
  induction dl with
  | nil => intro s; exact Int.le_refl _
  | cons c dl ih => intro s; rw [List.foldl_cons]; exact Int.le_trans (ih _) (hf s c)

theorem markC_unassigned (s : St W) (dl : List Nat) :
    (markC s dl).unassigned = s.unassigned - dl.length := by
  unfold markC
  rw [markC_fold_unassigned]

theorem pass_le (o : WOps W) (S T : Csr) (s : St W) :
    (pass o S T s).unassigned ≤ s.unassigned - (select o S T s).length := by
  unfold pass
  simp only
  have h1 := phase_le (p6 o S T) (p6_le o S T) (select o S T s)
    ((select o S T s).foldl (p5 o S) (markC s (select o S T s)))
  have h2 := phase_le (p5 o S) (p5_le o S) (select o S T s) (markC s (select o S T s))
  rw [markC_unassigned] at h2
  omega

theorem exists_maximal (lt : Nat → Nat → Bool) (irr : ∀ a, lt a a = false)
    (tr : ∀ a b c, lt a b = true → lt b c = true → lt a c = true) :
    ∀ l : List Nat, l ≠ [] → ∃ m ∈ l, ∀ x ∈ l, lt m x = false := by
  intro l
  induction l with
  | nil => intro h; exact absurd rfl h
  | cons a l ih =>
    intro _
    by_cases hl : l = []
    · subst hl
      exact ⟨a, by simp, fun x hx => by simp at hx; subst hx; exact irr _⟩
    · obtain ⟨m, hm, hmax⟩ := ih hl
      by_cases hma : lt m a = true
      · refine ⟨a, by simp, ?_⟩
        intro x hx
        rcases List.mem_cons.1 hx with rfl | hx
        · exact irr _
        · cases hax : lt a x with
          | false => rfl
          | true => have := tr m a x hma hax; rw [hmax x hx] at this; exact absurd this (by decide)
      · refine ⟨m, by simp [hm], ?_⟩
        intro x hx
        rcases List.mem_cons.1 hx with rfl | hx
        · simpa using hma
        · exact hmax x hx

theorem select_nonempty {S T : Csr} (o : WOps W) (hO : LtOrd o) (s : St W) (hC : Cnt S s)
    (hpos : s.unassigned > 0) : select o S T s ≠ [] := by
  -- the undecided nodes
  have hne : (List.range S.n).filter (fun v => rdI s.split v == UN) ≠ [] := by
    intro e
    have h0 : nU S.n s.split = 0 := by
      unfold nU
      rw [List.countP_eq_length_filter]
      have : (List.range S.n).filter (fun v => decide (rdI s.split v = UN)) = [] := by
        rw [← e]; congr 1
      rw [this]; rfl
    have := hC.ucnt
    omega
  obtain ⟨m, hm, hmax⟩ := exists_maximal (fun i j => o.lt (rdW s.wt i) (rdW s.wt j))
    (fun a => hO.irr _) (fun a b c => hO.trans _ _ _) _ hne
  rw [List.mem_filter] at hm
  have hnoheavy : ∀ cols : List Nat, heavier o s m cols = false := by
    intro cols
    unfold heavier
    rw [List.any_eq_false]
    intro j _
    by_cases hj : rdI s.split j = UN
    · have hjn : j < S.n := by
        by_cases hjn : j < S.n
        · exact hjn
        · exfalso
          have : rdI s.split j = 0 := by unfold rdI; simp [Array.getD, hC.ssz, hjn]
          rw [this] at hj; exact absurd hj (by decide)
      have := hmax j (List.mem_filter.2 ⟨List.mem_range.2 hjn, by simpa using hj⟩)
      simp [this]
    · simp [hj]
  intro e
  have : m ∈ select o S T s := by
    unfold select
    rw [List.mem_filter]
    refine ⟨hm.1, ?_⟩
    rw [hnoheavy, hnoheavy]
    simpa using hm.2
  rw [e] at this; simp at this

/-- **the CLJP selection loop exits**: with fuel `≥` the number of undecided nodes the model's exit
flag is `true` -/
theorem go_exits {S T : Csr} (hS : SOK S T) (o : WOps W) (hO : LtOrd o) :
    ∀ (fuel : Nat) (s : St W), Cnt S s → s.unassigned ≤ fuel → (run.go o S T fuel s).2 = true := by
  intro fuel
  induction fuel with
  | zero =>
    intro s _ hle
    simp only [run.go]
    simpa using hle
  | succ f ih =>
    intro s hC hle
    unfold run.go
    by_cases hu : s.unassigned > 0
    · rw [if_pos hu]
      apply ih _ (pass_cnt hS o s hC)
      have h1 := pass_le o S T s
      have h2 : 1 ≤ (select o S T s).length := by
        cases h : select o S T s with
        | nil => exact absurd h (select_nonempty o hO s hC hu)
        | cons a l => simp
      omega
    · rw [if_neg hu]

theorem run_exits {S T : Csr} (hS : SOK S T) (o : WOps W) (hO : LtOrd o) (w0 : Array W) (fuel : Nat)
    (hf : S.n ≤ fuel) : (run.go o S T fuel (initState o S w0)).2 = true := by
  apply go_exits hS o hO fuel _ (init_cnt o S w0)
  show ((S.n : Nat) : Int) ≤ fuel
  omega

end PyamgV.KCljp
