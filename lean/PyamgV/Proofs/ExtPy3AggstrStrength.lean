import PyamgV.Proofs.ExtPy3AggstrBase
/-! PyamgV (extension E59, property C14): theorems about the definition GENERATED from the working tree by
`harness/py2lean3_aggstr.py` for the Python part of `classical_strength_of_connection` (pyamg/strength.py), with the
numerical work abstracted as events.  On the grid `cGrid` (CSR / BSR / CSC input x block size 1, 2 x block flag x the
three norms + an unknown one) the run of the generated definition is EXACTLY the specification `cExpected`:

* BSR input with `block=True`: `N = int(n / blocksize)`, the block norm (`abs`: `max max |.|`, `min`: `min min`, `fro`:
  `sum sum conj(.) * .`) is computed into a FRESH array, the 1e-16 clean-up `data[np.abs(data) < 1e-16] = 0.0` is applied
  to THAT array;
* every other input: conversion to CSR (with a warning) when it is not CSR, `data = A.data` -- the caller's array -- and
  NO clean-up, no write at all;
* kernel `classical_strength_of_connection_abs` for `abs` / `fro`, `..._min` for `min`, on `(N, theta, indptr, indices,
  data, Sp, Sj, Sx)`; `ValueError` for an unknown norm on either path;
* `S = csr_array((Sx, Sj, Sp), shape=[N, N])`, `S.data = np.abs(S.data)`, row scaling, `eliminate_zeros`, and
  `amalgamate(S, blocksize)` exactly when `blocksize > 1 and not block`. -/
open PyamgV.ExtPy PyamgV.ExtPy2 PyamgV.ExtPy3Aggstr PyamgV.Generated.PyLogic3_aggstr
namespace PyamgV.ExtPy3AggstrP

inductive Norm where
  | abs | min | fro | bogus
deriving Repr, DecidableEq

def Norm.val : Norm → PyVal
  | .abs => .str "abs"
  | .min => .str "min"
  | .fro => .str "fro"
  | .bogus => .str "bogus"

structure CSc where
  fmt : String
  bs : Int
  block : Bool
  norm : Norm
deriving Repr

def cN : Int := 12
def cTheta : PyVal := .float (1/4)

def cWorld (sc : CSc) : World :=
  { heap := [("A", [("format", .str sc.fmt), ("shape", .tuple [.int cN, .int cN]), ("blocksize", .tuple [.int sc.bs, .int sc.bs])])] }

def cScript : List (String × List PyVal) := [("sparse.issparse", [.bool true, .bool true, .bool true])]

def cRun (sc : CSc) : Except String PyVal × List PyVal :=
  outcome (PyM2.exec (strength_classical_strength_of_connection (cWorld sc) (.obj "A") cTheta (.bool sc.block) sc.norm.val)
    { trace := [], script := cScript })

/-! ### the specification, written with a trace builder: an unscripted event number `k` answers the fresh object `#k` -/

abbrev Spec := StateM (List PyVal)

/-- record an event; its answer is the fresh object named after its index -/
def ev (e : PyVal) : Spec PyVal := do
  let t ← get
  set (t ++ [e])
  pure (.obj ("#" ++ toString t.length))

def axis1 : List (String × PyVal) := [("axis", .int 1)]
def issparseA : PyVal := callEv "sparse.issparse" [.obj "A"] []
/-- the double `1e-16` -/
def tiny : PyVal := .float ((2028240960365167 : Rat) / 20282409603651670423947251286016)

def path : PyVal → String
  | .obj p => p
  | _ => "?"

/-- the block norms of the BSR branch: a fresh array -/
def blockNorm (norm : Norm) : Spec (Option PyVal) := do
  match norm with
  | .abs =>
    let a ← ev (callEv "np.abs" [.obj "A.data"] [])
    let b ← ev (callEv "np.max" [a] axis1)
    let d ← ev (callEv "np.max" [b] axis1)
    pure (some d)
  | .min =>
    let b ← ev (callEv "np.min" [.obj "A.data"] axis1)
    let d ← ev (callEv "np.min" [b] axis1)
    pure (some d)
  | .fro =>
    let c ← ev (callEv "np.conjugate" [.obj "A.data"] [])
    let p ← ev (binEv "mul" c (.obj "A.data"))
    let s ← ev (callEv "np.sum" [p] axis1)
    let d ← ev (callEv "np.sum" [s] axis1)
    pure (some d)
  | .bogus => pure Option.none

/-- kernel call and assembly of S, common to both branches -/
def cFinish (sc : CSc) (A N data : PyVal) (bsz : Int) : Spec (Except String PyVal) := do
  let ip := PyVal.obj (path A ++ ".indptr")
  let ix := PyVal.obj (path A ++ ".indices")
  let Sp ← ev (callEv "np.empty_like" [ip] [])
  let Sj ← ev (callEv "np.empty_like" [ix] [])
  let Sx ← ev (callEv "np.empty_like" [data] [])
  if sc.norm = .bogus then return .error "ValueError"
  let _ ← ev (callEv (if sc.norm = .min then "amg_core.classical_strength_of_connection_min"
                      else "amg_core.classical_strength_of_connection_abs") [N, cTheta, ip, ix, data, Sp, Sj, Sx] [])
  let S ← ev (callEv "sparse.csr_array" [.tuple [Sx, Sj, Sp]] [("shape", .list [N, N])])
  let a ← ev (callEv "np.abs" [.obj (path S ++ ".data")] [])
  let _ ← ev (.tuple [.str "setattr", S, .str "data", a])
  let S2 ← ev (callEv "scale_rows_by_largest_entry" [S] [])
  let _ ← ev (callEv (path S2 ++ ".eliminate_zeros") [] [])
  if bsz > 1 ∧ sc.block = false then
    let S3 ← ev (callEv "amalgamate" [S2, .int bsz] [])
    return .ok S3
  return .ok S2

/-- is this the block (BSR) branch? -/
def bsrBranch (sc : CSc) : Bool := sc.block && sc.fmt == "bsr"

def cSpec (sc : CSc) : Spec (Except String PyVal) := do
  let _ ← ev issparseA
  let bsz : Int := if sc.fmt == "bsr" then sc.bs else 1
  if sc.block then
    let _ ← ev issparseA
  if bsrBranch sc then
    match ← blockNorm sc.norm with
    | Option.none => return .error "ValueError"
    | some data =>
      -- drop small numbers: in the FRESH array of block norms
      let a ← ev (callEv "np.abs" [data] [])
      let msk ← ev (binEv "lt" a tiny)
      let _ ← ev (setEv data msk (.float 0))
      cFinish sc (.obj "A") (.int (cN / bsz)) data bsz
  else
    let _ ← ev issparseA
    if sc.fmt == "csr" then
      cFinish sc (.obj "A") (.int cN) (.obj "A.data") bsz
    else
      let _ ← ev (callEv "warn" [.str "Implicit conversion of A to csr", .obj "sparse.SparseEfficiencyWarning"] [])
      let A2 ← ev (callEv "sparse.csr_array" [.obj "A"] [])
      cFinish sc A2 (.obj (path A2 ++ ".shape[0]")) (.obj (path A2 ++ ".data")) bsz

def cExpected (sc : CSc) : Except String PyVal × List PyVal := (cSpec sc).run []

def cGrid : List CSc :=
  ["csr", "bsr", "csc"].flatMap fun fmt => [(1 : Int), 2].flatMap fun bs => bools.flatMap fun block =>
  [Norm.abs, .min, .fro, .bogus].map fun norm => { fmt := fmt, bs := bs, block := block, norm := norm }

set_option maxRecDepth 100000 in
theorem cGrid_eq : cGrid.map cRun = cGrid.map cExpected := by kernel_rfl

/-- the generated `classical_strength_of_connection` performs exactly the events of the specification, on the grid -/
theorem strength_refines_spec : ∀ sc ∈ cGrid, cRun sc = cExpected sc := List.map_inj_left.mp cGrid_eq

/-- the objects written by `setitem` events -/
def setitemTargets (trace : List PyVal) : List String :=
  trace.filterMap fun e => match e with
    | .tuple [.str "setitem", .obj p, _, _] => some p
    | _ => Option.none

/-- the 1e-16 clean-up: ONE `setitem` event, in the BSR branch only (with a valid norm), on a FRESH array `#k` produced
by event `k` of this very run (the last reduction of the block norm); no `setitem` at all on the CSR path -/
def cleanupOk (sc : CSc) (trace : List PyVal) : Bool :=
  if bsrBranch sc && sc.norm != .bogus then
    match setitemTargets trace with
    | [p] => p.startsWith "#" && trace.any (fun e => match e with
        | .tuple [.str "setitem", .obj q, .obj _, v] => q == p && pyEq v (.float 0)
        | _ => false)
    | _ => false
  else (setitemTargets trace).isEmpty

set_option maxRecDepth 100000 in
theorem cGrid_cleanup : cGrid.map (fun sc => cleanupOk sc (cExpected sc).2) = cGrid.map (fun _ => true) := by kernel_rfl

theorem strength_cleanup_bsr_only : ∀ sc ∈ cGrid, cleanupOk sc (cRun sc).2 = true := by
  intro sc h
  rw [strength_refines_spec sc h]
  exact List.map_inj_left.mp cGrid_cleanup sc h

set_option maxRecDepth 100000 in
theorem cGrid_nomut : cGrid.map (fun sc => noMutationOf ["A"] (cExpected sc).2) = cGrid.map (fun _ => true) := by kernel_rfl

/-- no event writes the caller's matrix or anything reached from it (`A.data`, `A.indptr`, ...): no `setitem`,
`setattr` or in-place update has such a target -/
theorem strength_no_argument_mutation : ∀ sc ∈ cGrid, noMutationOf ["A"] (cRun sc).2 = true := by
  intro sc h
  rw [strength_refines_spec sc h]
  exact List.map_inj_left.mp cGrid_nomut sc h

set_option maxRecDepth 100000 in
theorem cGrid_bogus : (cGrid.filter (fun sc => sc.norm == .bogus)).map (fun sc => (cExpected sc).1)
    = (cGrid.filter (fun sc => sc.norm == .bogus)).map (fun _ => .error "ValueError") := by kernel_rfl

/-- an unknown norm raises `ValueError` on both paths -/
theorem strength_unknown_norm (sc : CSc) (h : sc ∈ cGrid) (hb : sc.norm = .bogus) : (cRun sc).1 = .error "ValueError" := by
  rw [strength_refines_spec sc h]
  exact List.map_inj_left.mp cGrid_bogus sc (List.mem_filter.mpr ⟨h, by simp [hb]⟩)

/-- `theta` outside [0, 1] is rejected before any array is touched -/
theorem strength_theta_range :
    outcome (PyM2.exec (strength_classical_strength_of_connection (cWorld ⟨"csr", 1, true, .abs⟩) (.obj "A") (.float (3/2)) (.bool true) (.str "abs"))
      { trace := [], script := cScript }) = (.error "ValueError", [issparseA]) ∧
    outcome (PyM2.exec (strength_classical_strength_of_connection (cWorld ⟨"bsr", 2, true, .abs⟩) (.obj "A") (.float (-1/4)) (.bool true) (.str "abs"))
      { trace := [], script := cScript }) = (.error "ValueError", [issparseA]) := by
  constructor <;> kernel_rfl

end PyamgV.ExtPy3AggstrP
