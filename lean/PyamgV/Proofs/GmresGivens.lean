import PyamgV.Proofs.Gmres
import PyamgV.Proofs.Givens

/-! PyamgV (C07, GMRES end to end at the algorithmic level): Arnoldi data (orthonormal basis,
Arnoldi relation, Hessenberg `H`) + a Givens sweep with unit rotations zeroing the subdiagonal +
a solution of the resulting triangular system ⇒ the iterate `x₀ + Σ y_j z_j` minimises the
residual norm over `x₀ + span{z_j}`. Joins `PyamgV.Gmres.gmres_optimal` with
`PyamgV.Givens.normal_eq`; the only inputs left as contracts are `lartg` (`c² + s² = 1`, the
zeroing equation) and the triangular solve. -/
namespace PyamgV.Gmres
open PyamgV Finset

variable {K : Type*} [Field K] [LinearOrder K] [IsStrictOrderedRing K]
variable {V : Type*} [AddCommGroup V] [Module K V]
variable {e : EForm K V} {B : V →ₗ[K] V} {k : Nat}

/-- the Hessenberg matrix of the Arnoldi data as a function of (column, row), zero outside -/
def hfun (Ar : Arnoldi e B k) (j l : Nat) : K :=
  if hl : l < k + 1 then if hj : j < k then Ar.H ⟨l, hl⟩ ⟨j, hj⟩ else 0 else 0

theorem gmres_optimal_of_givens (Ar : Arnoldi e B k) (β : K) (c x0 : V)
    (hr0 : c - B x0 = β • Ar.v 0)
    (cs sn : Nat → K) (y : Nat → K)
    (hhess : ∀ j l, j + 1 < l → hfun Ar j l = 0)
    (hunit : ∀ j, j < k → cs j * cs j + sn j * sn j = 1)
    (hzero : ∀ j, j < k → Givens.rot j (cs j) (sn j) (Givens.Q cs sn j (hfun Ar j)) (j+1) = 0)
    (hsolve : ∀ l, l < k → ∑ i ∈ range k, y i * Givens.Q cs sn k (hfun Ar i) l =
      Givens.Q cs sn k (fun r => if r = 0 then β else 0) l) :
    ∀ x', x' - x0 ∈ Submodule.span K (Set.range Ar.z) →
      e.en (c - B (x0 + ∑ j : Fin k, y j • Ar.z j)) ≤ e.en (c - B x') := by
  apply gmres_optimal Ar β (fun j : Fin k => y j) c x0 hr0
  intro j
  have hne := Givens.normal_eq (k := k) ⟨hfun Ar, cs, sn, hhess, hunit, hzero⟩ β y hsolve j j.2
  unfold Givens.dotN at hne
  rw [← Fin.sum_univ_eq_sum_range
    (fun l => hfun Ar j l * ((if l = 0 then β else 0) - ∑ i ∈ range k, y i * hfun Ar i l))
    (k+1)] at hne
  rw [← hne]
  refine Finset.sum_congr rfl (fun l _ => ?_)
  unfold rho
  have h1 : hfun Ar j l = Ar.H l j := by
    unfold hfun; rw [dif_pos l.2, dif_pos j.2]
  have h2 : (∑ i ∈ range k, y i * hfun Ar i l) = ∑ i : Fin k, Ar.H l i * y i := by
    rw [← Fin.sum_univ_eq_sum_range (fun i => y i * hfun Ar i l) k]
    refine Finset.sum_congr rfl (fun i _ => ?_)
    unfold hfun; rw [dif_pos l.2, dif_pos i.2]; ring
  have h3 : ((l : Nat) = 0) ↔ (l = 0) := by
    constructor
    · intro h; exact Fin.ext h
    · intro h; rw [h]; rfl
  rw [h1, h2]
  by_cases hl0 : l = 0
  · rw [if_pos hl0, if_pos (h3.2 hl0)]; ring
  · rw [if_neg hl0, if_neg (fun h => hl0 (h3.1 h))]; ring

#print axioms gmres_optimal_of_givens
end PyamgV.Gmres
