import PyamgV.Model.ExtC17R4Graph
import PyamgV.Proofs.ExtC17SafeR3CC

/-! PyamgV (C17, extension E32, round 4): bounds-safety (and termination where stated) of the `Ck` models of
`Model/ExtC17R4Graph.lean`: `maximal_independent_set_serial`, `vertex_coloring_mis` (including the termination of
`while(N < num_rows)`: every pass colours a node as long as one is left), `maximal_independent_set_parallel`.
Core Lean only. -/
namespace PyamgV.C17R4
open PyamgV.Ck PyamgV.C17

set_option linter.unusedSectionVars false
set_option linter.unusedVariables false

variable {ρ : Type} [Inhabited ρ]

/-- a safe computation returns its own value -/
theorem Safe.and_val {β : Type} {x : Ck β} {P : β → Prop} (h : Safe x P) : Safe x (fun a => P a ∧ a = x.val) :=
  ⟨h.1, h.2, rfl⟩

/-! ### counting -/

theorem nzc_congr {α : Type} [Inhabited α] (isZ : α → Bool) (a b : Array α) :
    ∀ m, (∀ k, k < m → isZ (a.getD k default) = isZ (b.getD k default)) → nzc isZ a m = nzc isZ b m := by
  intro m
  induction m with
  | zero => intro _; rfl
  | succ k ih =>
    intro h
    show nzc isZ a k + zind isZ (a.getD k default) = nzc isZ b k + zind isZ (b.getD k default)
    rw [ih (fun j hj => h j (by omega))]
    unfold zind
    rw [h k (by omega)]

theorem nzc_set_ge {α : Type} [Inhabited α] (isZ : α → Bool) (a : Array α) (i : Nat) (v : α) :
    ∀ m, nzc isZ a m ≤ nzc isZ (a.setIfInBounds i v) m + 1 := by
  intro m
  induction m with
  | zero => show 0 ≤ 0 + 1; omega
  | succ k ih =>
    show nzc isZ a k + zind isZ (a.getD k default)
      ≤ nzc isZ (a.setIfInBounds i v) k + zind isZ ((a.setIfInBounds i v).getD k default) + 1
    by_cases hc : i = k ∧ i < a.size
    · obtain ⟨hik, _⟩ := hc
      subst hik
      have e : nzc isZ (a.setIfInBounds i v) i = nzc isZ a i := by
        apply nzc_congr
        intro j hj
        rw [getD_setG, if_neg (fun h => by omega)]
      rw [e]
      have := zind_le isZ (a.getD i default)
      omega
    · have e : (a.setIfInBounds i v).getD k default = a.getD k default := by rw [getD_setG, if_neg hc]
      rw [e]; omega

theorem nzc_all {α : Type} [Inhabited α] (isZ : α → Bool) (a : Array α) :
    ∀ m, (∀ k, k < m → isZ (a.getD k default) = false) → nzc isZ a m = m := by
  intro m
  induction m with
  | zero => intro _; rfl
  | succ k ih =>
    intro h
    show nzc isZ a k + zind isZ (a.getD k default) = k + 1
    rw [ih (fun j hj => h j (by omega)), zind_false (h k (by omega))]

theorem nzc_pos {α : Type} [Inhabited α] (isZ : α → Bool) (a : Array α) :
    ∀ m, 0 < nzc isZ a m → ∃ k, k < m ∧ isZ (a.getD k default) = false := by
  intro m
  induction m with
  | zero => intro h; exact absurd h (by show ¬ (0 < 0); omega)
  | succ k ih =>
    intro h
    have h' : 0 < nzc isZ a k + zind isZ (a.getD k default) := h
    by_cases hz : isZ (a.getD k default) = true
    · rw [zind_true hz] at h'
      obtain ⟨j, hj, hj2⟩ := ih (by omega)
      exact ⟨j, by omega, hj2⟩
    · exact ⟨k, by omega, by cases hb : isZ (a.getD k default) <;> simp_all⟩

/-- `true` for the coloured (non-negative) entries -/
def nonneg (v : Int) : Bool := decide (0 ≤ v)

/-- number of negative entries among the first `n` -/
def cntNeg (n : Nat) (x : Array Int) : Nat := nzc nonneg x n

/-! ### rows of a pattern -/

/-- what the proofs need of a row `i` of a structurally valid `n × n` pattern -/
theorem row_facts {n m : Nat} {ap aj : Array Int} (hA : WFm (patS n ap aj) m) (i : Int) (i0 : 0 ≤ i) (i1 : i < (n : Int)) :
    Safe (rd ap i) (fun s => s = ap.getD i.toNat 0) ∧ Safe (rd ap (i+1)) (fun e => e = ap.getD (i.toNat + 1) 0) ∧
    ∀ jj, ap.getD i.toNat 0 ≤ jj → jj < ap.getD (i.toNat + 1) 0 →
      Safe (rd aj jj) (fun j => j = aj.getD jj.toNat 0 ∧ 0 ≤ j ∧ j < (m : Int)) := by
  obtain ⟨q1, q2⟩ := rd_ap_safe (patS n ap aj) hA i i0 i1
  refine ⟨q1, q2, fun jj j1 j2 => ?_⟩
  have hr := row_range_m (patS n ap aj) hA i.toNat (by show i.toNat < n; omega) jj j1 j2
  refine Safe.mono (rd_safe aj jj hr.1 hr.2.1) (fun j hj => ?_)
  have hcc := col_ok (patS n ap aj) hA jj hr.1 hr.2.1 j hj
  exact ⟨hj, hcc.1, by omega⟩

/-! ### `if(x[j] == active) x[j] = F` over a row -/

/-- only entries equal to `active` changed, and they became `F` -/
def Upd (active F : Int) (x x' : Array Int) : Prop :=
  x'.size = x.size ∧ ∀ k, x'.getD k 0 = x.getD k 0 ∨ (x.getD k 0 = active ∧ x'.getD k 0 = F)

theorem Upd.refl (active F : Int) (x : Array Int) : Upd active F x x := ⟨rfl, fun _ => Or.inl rfl⟩

theorem Upd.trans {active F : Int} {x x' x'' : Array Int} (h1 : Upd active F x x') (h2 : Upd active F x' x'') :
    Upd active F x x'' := by
  refine ⟨by rw [h2.1, h1.1], fun k => ?_⟩
  rcases h2.2 k with e2 | ⟨e2, e3⟩
  · rcases h1.2 k with e1 | ⟨e1, e4⟩
    · exact Or.inl (by rw [e2, e1])
    · exact Or.inr ⟨e1, by rw [e2, e4]⟩
  · rcases h1.2 k with e1 | ⟨e1, e4⟩
    · exact Or.inr ⟨by rw [← e1]; exact e2, e3⟩
    · exact Or.inr ⟨e1, e3⟩

theorem Upd.set {active F : Int} (x : Array Int) (j : Nat) (h : x.getD j 0 = active) :
    Upd active F x (x.setIfInBounds j F) := by
  refine ⟨by simp, fun k => ?_⟩
  rw [getD_setInt]
  by_cases hc : j = k ∧ j < x.size
  · rw [if_pos hc]; obtain ⟨hjk, _⟩ := hc; subst hjk; exact Or.inr ⟨h, rfl⟩
  · rw [if_neg hc]; exact Or.inl rfl

/-- values after the marking loop: nothing but `active → F`, and (when `F != active`) no neighbour is `active` any more -/
theorem markRow_safe {n : Nat} {ap aj : Array Int} (hA : WFm (patS n ap aj) n) (active F : Int)
    (i : Int) (i0 : 0 ≤ i) (i1 : i < (n : Int)) (x : Array Int) (hx : x.size = n) :
    Safe (markRow aj active F (ap.getD i.toNat 0) (ap.getD (i.toNat + 1) 0) x)
      (fun x' => Upd active F x x' ∧ (F ≠ active →
        ∀ jj, ap.getD i.toNat 0 ≤ jj → jj < ap.getD (i.toNat + 1) 0 → x'.getD (aj.getD jj.toNat 0).toNat 0 ≠ active)) := by
  obtain ⟨_, _, hrow⟩ := row_facts hA i i0 i1
  have hmono : ap.getD i.toNat 0 ≤ ap.getD (i.toNat + 1) 0 := hA.mono i.toNat (by show i.toNat < n; omega)
  unfold markRow
  refine Safe.mono (forRange_safe_idx
    (fun (jj : Int) (x' : Array Int) => Upd active F x x' ∧ (F ≠ active →
      ∀ jj', ap.getD i.toNat 0 ≤ jj' → jj' < jj → x'.getD (aj.getD jj'.toNat 0).toNat 0 ≠ active))
    _ _ hmono _ _ ⟨Upd.refl _ _ _, fun _ jj' h1 h2 => by omega⟩ ?_) (fun x' h => h)
  intro jj j1 j2 x' hx'
  refine Safe.bind (hrow jj j1 j2) (fun j hj => ?_)
  obtain ⟨hje, hj0, hj1⟩ := hj
  have hsz : x'.size = n := by rw [hx'.1.1, hx]
  have hjs : j.toNat < x'.size := by rw [hsz]; omega
  refine Safe.bind (rd_safe x' j hj0 hjs) (fun xj hxj => ?_)
  have hxj' : xj = x'.getD j.toNat 0 := hxj
  by_cases hact : xj = active
  · rw [if_pos hact]
    refine Safe.mono (wr_val x' j F hj0 hjs) (fun x'' hx'' => ?_)
    have hu : Upd active F x' x'' := by rw [hx'']; exact Upd.set x' j.toNat (by rw [← hxj']; exact hact)
    refine ⟨Upd.trans hx'.1 hu, fun hFa jj' h1 h2 => ?_⟩
    by_cases hl : jj' < jj
    · rcases hu.2 (aj.getD jj'.toNat 0).toNat with e | ⟨_, e⟩
      · rw [e]; exact hx'.2 hFa jj' h1 hl
      · rw [e]; exact hFa
    · have : jj' = jj := by omega
      subst this
      rw [← hje, hx'', getD_setInt, if_pos ⟨rfl, hjs⟩]; exact hFa
  · rw [if_neg hact]
    refine Safe.pure ⟨hx'.1, fun hFa jj' h1 h2 => ?_⟩
    by_cases hl : jj' < jj
    · exact hx'.2 hFa jj' h1 hl
    · have : jj' = jj := by omega
      subst this
      rw [← hje, ← hxj']; exact hact

/-! ### `maximal_independent_set_serial` -/

/-- **`maximal_independent_set_serial`** in the checked style, with what `vertex_coloring_mis` needs: on an array whose
negative entries are all `active`, with `active, F < 0 ≤ C`: afterwards every negative entry is `F`, the returned count
pays for every entry that stopped being negative, and it is positive when there was an `active` entry -/
theorem misSerial_safe {n : Nat} {ap aj : Array Int} (hA : WFm (patS n ap aj) n) (active C F : Int)
    (ha : active < 0) (hF : F < 0) (hFa : F ≠ active) (hC : 0 ≤ C) (x : Array Int) (hx : x.size = n)
    (hv : ∀ k, k < n → x.getD k 0 = active ∨ 0 ≤ x.getD k 0) :
    Safe (misSerial n ap aj active C F x) (fun r => r.1.size = n ∧ (∀ k, k < n → r.1.getD k 0 = F ∨ 0 ≤ r.1.getD k 0) ∧
      0 ≤ r.2 ∧ (cntNeg n x : Int) ≤ r.2 + (cntNeg n r.1 : Int) ∧ ((∃ k, k < n ∧ x.getD k 0 = active) → 1 ≤ r.2)) := by
  unfold misSerial
  refine Safe.mono (forRange_safe_idx
    (fun (i : Int) (st : Array Int × Int) => st.1.size = n ∧
      (∀ k, k < n → st.1.getD k 0 = active ∨ st.1.getD k 0 = F ∨ 0 ≤ st.1.getD k 0) ∧
      (∀ k : Nat, (k : Int) < i → st.1.getD k 0 ≠ active) ∧ 0 ≤ st.2 ∧
      (cntNeg n x : Int) ≤ st.2 + (cntNeg n st.1 : Int) ∧ (st.2 = 0 → st.1 = x))
    0 (n : Int) (by omega) _ _ ?_ ?_) ?_
  · exact ⟨hx, fun k hk => (hv k hk).elim Or.inl (fun h => Or.inr (Or.inr h)), fun k hk => by omega, Int.le_refl 0,
      by show (cntNeg n x : Int) ≤ 0 + (cntNeg n x : Int); omega, fun _ => rfl⟩
  · intro i i0 i1 st hst
    obtain ⟨h1, h2, h3, h4, h5, h6⟩ := hst
    have his : i.toNat < st.1.size := by rw [h1]; omega
    refine Safe.bind (rd_safe st.1 i i0 his) (fun xi hxi => ?_)
    have hxi' : xi = st.1.getD i.toNat 0 := hxi
    by_cases hact : xi ≠ active
    · rw [if_pos hact]
      refine Safe.pure ⟨h1, h2, fun k hk => ?_, h4, h5, h6⟩
      by_cases hl : (k : Int) < i
      · exact h3 k hl
      · have : k = i.toNat := by omega
        subst this; rw [← hxi']; exact hact
    · rw [if_neg hact]
      have hact' : xi = active := Classical.not_not.mp hact
      refine Safe.bind (wr_val st.1 i C i0 his) (fun x1 hx1 => ?_)
      obtain ⟨q1, q2, _⟩ := row_facts hA i i0 i1
      refine Safe.bind q1 (fun s hs => ?_)
      refine Safe.bind q2 (fun e he => ?_)
      subst hs; subst he
      have hx1s : x1.size = n := by rw [hx1]; simp [h1]
      refine Safe.bind (markRow_safe hA active F i i0 i1 x1 hx1s) (fun x2 hx2 => ?_)
      obtain ⟨hu, _⟩ := hx2
      have hx2s : x2.size = n := by rw [hu.1, hx1s]
      -- values of `x1`
      have hx1v : ∀ k, x1.getD k 0 = if i.toNat = k then C else st.1.getD k 0 := by
        intro k
        rw [hx1, getD_setInt]
        by_cases hk : i.toNat = k
        · rw [if_pos ⟨hk, his⟩, if_pos hk]
        · rw [if_neg (fun h => hk h.1), if_neg hk]
      have hnn : ∀ k, k < n → nonneg (x2.getD k default) = nonneg (x1.getD k default) := by
        intro k hk
        show nonneg (x2.getD k 0) = nonneg (x1.getD k 0)
        rcases hu.2 k with e | ⟨e1, e2⟩
        · rw [e]
        · rw [e1, e2]; unfold nonneg; rw [decide_eq_false (by omega), decide_eq_false (by omega)]
      have hc1 : cntNeg n x2 = cntNeg n x1 := nzc_congr nonneg x2 x1 n hnn
      have hc2 : cntNeg n st.1 ≤ cntNeg n x1 + 1 := by
        have := nzc_set_ge nonneg st.1 i.toNat C n
        rw [hx1]; exact this
      refine Safe.pure ⟨hx2s, fun k hk => ?_, fun k hk => ?_, by show 0 ≤ st.2 + 1; omega, ?_, fun h0 => ?_⟩
      · rcases hu.2 k with e | ⟨_, e⟩
        · show x2.getD k 0 = active ∨ x2.getD k 0 = F ∨ 0 ≤ x2.getD k 0
          rw [e, hx1v k]
          by_cases hki : i.toNat = k
          · rw [if_pos hki]; exact Or.inr (Or.inr hC)
          · rw [if_neg hki]; exact h2 k hk
        · exact Or.inr (Or.inl e)
      · show x2.getD k 0 ≠ active
        rcases hu.2 k with e | ⟨_, e⟩
        · rw [e, hx1v k]
          by_cases hki : i.toNat = k
          · rw [if_pos hki]; omega
          · rw [if_neg hki]; exact h3 k (by omega)
        · rw [e]; exact hFa
      · show (cntNeg n x : Int) ≤ st.2 + 1 + (cntNeg n x2 : Int)
        rw [hc1]; omega
      · exfalso
        have : st.2 + 1 = 0 := h0
        omega
  · intro r hr
    obtain ⟨h1, h2, h3, h4, h5, h6⟩ := hr
    refine ⟨h1, fun k hk => ?_, h4, h5, fun hex => ?_⟩
    · rcases h2 k hk with e | e
      · exact absurd e (h3 k (by omega))
      · exact e
    · obtain ⟨k, hk, hka⟩ := hex
      by_cases h0 : r.2 = 0
      · have := h6 h0
        rw [this] at h3
        exact absurd hka (h3 k (by omega))
      · omega

/-! ### `vertex_coloring_mis` -/

theorem fillN_safe (n : Nat) (v : Int) (x : Array Int) (hx : x.size = n) :
    Safe (fillN n v x) (fun x' => x'.size = n ∧ ∀ k, k < n → x'.getD k 0 = v) := by
  unfold fillN
  refine Safe.mono (forRange_safe_idx
    (fun (i : Int) (x' : Array Int) => x'.size = n ∧ ∀ k : Nat, (k : Int) < i → x'.getD k 0 = v)
    0 (n : Int) (by omega) _ _ ⟨hx, fun k hk => by omega⟩ ?_) (fun x' h => ⟨h.1, fun k hk => h.2 k (by omega)⟩)
  intro i i0 i1 x' hx'
  have his : i.toNat < x'.size := by rw [hx'.1]; omega
  refine Safe.mono (wr_val x' i v i0 his) (fun x'' hx'' => ?_)
  refine ⟨by rw [hx'']; simp [hx'.1], fun k hk => ?_⟩
  rw [hx'', getD_setInt]
  by_cases hki : i.toNat = k
  · rw [if_pos ⟨hki, his⟩]
  · rw [if_neg (fun h => hki h.1)]; exact hx'.2 k (by omega)

/-- the state between two passes: every uncoloured node carries the mark `-1-K`, and `N` pays for the coloured ones -/
def VCInv (n : Nat) (st : VC) : Prop :=
  st.1.size = n ∧ 0 ≤ st.2.2 ∧ (∀ k, k < n → st.1.getD k 0 = -1 - st.2.2 ∨ 0 ≤ st.1.getD k 0) ∧
  (n : Int) ≤ st.2.1 + (cntNeg n st.1 : Int)

theorem cntNeg_pos {n : Nat} {x : Array Int} (h : 0 < cntNeg n x) : ∃ k, k < n ∧ x.getD k 0 < 0 := by
  obtain ⟨k, hk, hz⟩ := nzc_pos nonneg x n h
  refine ⟨k, hk, ?_⟩
  have hz' : nonneg (x.getD k 0) = false := hz
  unfold nonneg at hz'
  have := of_decide_eq_false hz'
  omega

/-- one pass keeps the invariant and colours at least one node when one is left -/
theorem vcMisPass_safe {n : Nat} {ap aj : Array Int} (hA : WFm (patS n ap aj) n) (st : VC) (hst : VCInv n st) :
    Safe (vcMisPass n ap aj st) (fun st' => VCInv n st' ∧ (st.2.1 < (n : Int) → st.2.1 + 1 ≤ st'.2.1)) := by
  obtain ⟨h1, h2, h3, h4⟩ := hst
  unfold vcMisPass
  refine Safe.bind (misSerial_safe hA (-1 - st.2.2) st.2.2 (-2 - st.2.2) (by omega) (by omega) (by omega) h2 st.1 h1 h3)
    (fun r hr => ?_)
  obtain ⟨r1, r2, r3, r4, r5⟩ := hr
  refine Safe.pure ⟨⟨r1, by show 0 ≤ st.2.2 + 1; omega, fun k hk => ?_, ?_⟩, fun hlt => ?_⟩
  · show r.1.getD k 0 = -1 - (st.2.2 + 1) ∨ 0 ≤ r.1.getD k 0
    rcases r2 k hk with e | e
    · exact Or.inl (by rw [e]; omega)
    · exact Or.inr e
  · show (n : Int) ≤ st.2.1 + r.2 + (cntNeg n r.1 : Int)
    omega
  · show st.2.1 + 1 ≤ st.2.1 + r.2
    have hpos : 0 < cntNeg n st.1 := by omega
    obtain ⟨k, hk, hneg⟩ := cntNeg_pos hpos
    have := r5 ⟨k, hk, by rcases h3 k hk with e | e; exact e; omega⟩
    omega

/-- `while(N < num_rows)` terminates within `n - N` passes -/
theorem vcMisWhile_safe {n : Nat} {ap aj : Array Int} (hA : WFm (patS n ap aj) n) :
    ∀ (fuel : Nat) (st : Ck VC), Safe st (VCInv n) → ((n : Int) - st.val.2.1).toNat ≤ fuel →
      ∃ r, vcMisWhile n ap aj fuel st = some r ∧ Safe r (VCInv n) := by
  intro fuel
  induction fuel with
  | zero =>
    intro st hst hm
    have : ¬ st.val.2.1 < (n : Int) := by omega
    exact ⟨st, by unfold vcMisWhile; rw [if_neg this], hst⟩
  | succ f ih =>
    intro st hst hm
    unfold vcMisWhile
    by_cases hlt : st.val.2.1 < (n : Int)
    · rw [if_pos hlt]
      have hb := Safe.bind_val hst.1 (vcMisPass_safe hA st.val hst.2)
      refine ih _ (Safe.mono hb (fun _ h => h.1)) ?_
      have := hb.2.2 hlt
      omega
    · rw [if_neg hlt]; exact ⟨st, rfl, hst⟩

/-- **`vertex_coloring_mis`**: any structurally valid `n × n` pattern (symmetric or not, self loops, duplicates), `x` of
length `n`: no access leaves `Ap`, `Aj`, `x`, and the loop `while(N < num_rows)` terminates within `n` passes -/
theorem vertexColoringMis_safe {n : Nat} {ap aj : Array Int} (hA : WFm (patS n ap aj) n) (x : Array Int) (hx : x.size = n) :
    Safe (vertexColoringMis n ap aj x) (fun r => r.1.size = n ∧ 0 ≤ r.2) := by
  unfold vertexColoringMis
  refine Safe.bind (fillN_safe n (-1) x hx) (fun x0 hx0 => ?_)
  have hall : cntNeg n x0 = n := by
    apply nzc_all
    intro k hk
    show nonneg (x0.getD k 0) = false
    rw [hx0.2 k hk]; rfl
  refine Safe.bind (P := VCInv n) ?_ (fun r hr => Safe.pure ⟨hr.1, hr.2.1⟩)
  apply orFault_safe
  refine vcMisWhile_safe hA n (pure (x0, 0, 0)) (Safe.pure ⟨hx0.1, Int.le_refl 0, fun k hk => Or.inl (hx0.2 k hk), ?_⟩) ?_
  · show (n : Int) ≤ 0 + (cntNeg n x0 : Int)
    rw [hall]; omega
  · show ((n : Int) - 0).toNat ≤ n
    omega

end PyamgV.C17R4
