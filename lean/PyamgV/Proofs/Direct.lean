import Mathlib.Algebra.Order.Field.Basic
import Mathlib.Algebra.BigOperators.Group.List.Basic
import Mathlib.Algebra.BigOperators.Ring.List
import Mathlib.Tactic.FieldSimp
import Mathlib.Tactic.Linarith
import Mathlib.Tactic.Ring

/-! PyamgV (C11): direct interpolation, one F-row — model of `rs_direct_interpolation_pass2`'s row
body, structure, row sum on zero-row-sum M-matrix rows, and the published formula. -/
namespace PyamgV.Direct

variable {K : Type*} [Field K] [LinearOrder K] [IsStrictOrderedRing K]

abbrev Row (K : Type*) := List (Nat × K)

/-- strongly connected C-points of row `i` (strength row carries A's values) -/
def strongC (isC : Nat → Bool) (i : Nat) (srow : Row K) : Row K :=
  srow.filter (fun cv => isC cv.1 && decide (cv.1 ≠ i))

def sumNeg (r : Row K) : K := (r.map (fun cv => if cv.2 < 0 then cv.2 else 0)).sum
def sumPos (r : Row K) : K := (r.map (fun cv => if cv.2 < 0 then 0 else cv.2)).sum
def offd (i : Nat) (arow : Row K) : Row K := arow.filter (fun cv => decide (cv.1 ≠ i))
def diagOf (i : Nat) (arow : Row K) : K := ((arow.filter (fun cv => decide (cv.1 = i))).map (·.2)).sum

/-- the F-row of `rs_direct_interpolation_pass2`: (fine column, weight) -/
def directRow (isC : Nat → Bool) (i : Nat) (arow srow : Row K) : Row K :=
  let st := strongC isC i srow
  let ssn := sumNeg st
  let ssp := sumPos st
  let san := sumNeg (offd i arow)
  let sap := sumPos (offd i arow)
  let diag := if ssp = 0 then diagOf i arow + sap else diagOf i arow
  let alpha := san / ssn
  let beta := if ssp = 0 then 0 else sap / ssp
  let negc := -alpha / diag
  let posc := -beta / diag
  st.map (fun cv => (cv.1, if cv.2 < 0 then negc * cv.2 else posc * cv.2))

/-- support: every interpolation point of an F-row is a strongly connected C-point -/
theorem directRow_support (isC : Nat → Bool) (i : Nat) (arow srow : Row K) :
    ∀ cw ∈ directRow isC i arow srow, isC cw.1 = true ∧ cw.1 ≠ i ∧ ∃ v, (cw.1, v) ∈ srow := by
  intro cw h
  simp only [directRow, List.mem_map] at h
  obtain ⟨cv, hcv, rfl⟩ := h
  have := List.mem_filter.1 hcv
  simp only [Bool.and_eq_true, decide_eq_true_eq] at this
  exact ⟨this.2.1, this.2.2, cv.2, this.1⟩

theorem sum_map_if_neg (r : Row K) (c : K) (hneg : ∀ cv ∈ r, cv.2 < 0) (d : K) :
    (r.map (fun cv => if cv.2 < 0 then c * cv.2 else d * cv.2)).sum = c * (r.map (·.2)).sum := by
  induction r with
  | nil => simp
  | cons a rest ih =>
    have ha := hneg a (by simp)
    simp only [List.map_cons, List.sum_cons, ha, if_true]
    rw [ih (fun cv h => hneg cv (by simp [h]))]; ring

theorem sumNeg_of_neg (r : Row K) (hneg : ∀ cv ∈ r, cv.2 < 0) : sumNeg r = (r.map (·.2)).sum := by
  unfold sumNeg
  induction r with
  | nil => simp
  | cons a rest ih =>
    have ha := hneg a (by simp)
    simp only [List.map_cons, List.sum_cons, ha, if_true]
    rw [ih (fun cv h => hneg cv (by simp [h]))]

theorem sumPos_of_neg (r : Row K) (hneg : ∀ cv ∈ r, cv.2 < 0) : sumPos r = 0 := by
  unfold sumPos
  induction r with
  | nil => simp
  | cons a rest ih =>
    have ha := hneg a (by simp)
    simp only [List.map_cons, List.sum_cons, ha, if_true]
    rw [ih (fun cv h => hneg cv (by simp [h]))]; ring

/-- **row sum**: on an M-matrix row (all off-diagonals negative) with zero row sum and a
non-degenerate set of strong C-neighbours, the direct-interpolation weights sum to one. -/
theorem directRow_rowsum (isC : Nat → Bool) (i : Nat) (arow srow : Row K)
    (hoff : ∀ cv ∈ offd i arow, cv.2 < 0)
    (hstr : ∀ cv ∈ strongC isC i srow, cv.2 < 0)
    (hzero : diagOf i arow + ((offd i arow).map (·.2)).sum = 0)
    (hssn : ((strongC isC i srow).map (·.2)).sum ≠ 0)
    (hdiag : diagOf i arow ≠ 0) :
    ((directRow isC i arow srow).map (·.2)).sum = 1 := by
  have e1 := sumNeg_of_neg _ hstr
  have e2 := sumPos_of_neg _ hstr
  have e3 := sumNeg_of_neg _ hoff
  have e4 := sumPos_of_neg _ hoff
  simp only [directRow, List.map_map, Function.comp_def]
  rw [e2, e4]
  simp only [if_true, add_zero]
  rw [sum_map_if_neg _ _ hstr, e1, e3]
  have hd : ((offd i arow).map (·.2)).sum = -diagOf i arow := by linarith
  rw [hd]
  field_simp

/-- **formula**: each weight is `-(Σ_k a_ik⁻ / Σ_{k∈C_i^s} a_ik⁻) · a_ij / a_ii` on such rows -/
theorem directRow_formula (isC : Nat → Bool) (i : Nat) (arow srow : Row K)
    (hoff : ∀ cv ∈ offd i arow, cv.2 < 0) (hstr : ∀ cv ∈ strongC isC i srow, cv.2 < 0) :
    directRow isC i arow srow =
      (strongC isC i srow).map (fun cv =>
        (cv.1, -(((offd i arow).map (·.2)).sum / ((strongC isC i srow).map (·.2)).sum) / diagOf i arow * cv.2)) := by
  have e1 := sumNeg_of_neg _ hstr
  have e2 := sumPos_of_neg _ hstr
  have e3 := sumNeg_of_neg _ hoff
  have e4 := sumPos_of_neg _ hoff
  simp only [directRow]
  rw [e2, e4, e1, e3]
  simp only [if_true, add_zero]
  apply List.map_congr_left
  intro cv hcv
  simp [hstr cv hcv]

#print axioms directRow_rowsum
#print axioms directRow_formula
end PyamgV.Direct
