import PyamgV.Model.ExtC17CkR3Cr
import PyamgV.Proofs.ExtC17SafeInterp
import PyamgV.Proofs.ExtC17SafeR3Relax
import PyamgV.Proofs.ExtC17SafeR3Schwarz

/-! PyamgV (C17, extension E19): bounds-safety and termination of the `Ck` model of `cr_helper`
(`Model/ExtC17CkR3Cr.lean`).  Termination of `while(true)`: every pass that does not `break` selects a
candidate of positive (hence non-zero) weight and zeroes it (`omega[new_pt] = 0`, the repair of the
working tree), the other writes to `omega` either store `0` or modify a non-zero entry, so the number
of non-zero entries of `omega` drops; `n + 1` passes suffice.  Core Lean only. -/
namespace PyamgV.C17
open PyamgV.Ck

set_option linter.unusedSectionVars false
set_option linter.unusedVariables false
variable {α : Type} [Inhabited α]

/-! ### arrays: values after a write, `push`, counting non-zero entries -/

theorem getD_setG {β : Type} (a : Array β) (i j : Nat) (v d : β) :
    (a.setIfInBounds i v).getD j d = if i = j ∧ i < a.size then v else a.getD j d := by
  simp only [Array.getD_eq_getD_getElem?, Array.getElem?_setIfInBounds]
  by_cases h : i = j
  · subst h
    by_cases h2 : i < a.size <;> simp [h2]
  · simp [h]

theorem idxIn_empty (n : Nat) : IdxIn (#[] : Array Int) n := fun p hp => by simp at hp

theorem idxIn_push {a : Array Int} {n : Nat} (h : IdxIn a n) (v : Int) (v0 : 0 ≤ v) (v1 : v < (n : Int)) :
    IdxIn (a.push v) n := by
  intro p hp
  rw [Array.size_push] at hp
  by_cases hl : p < a.size
  · have e : (a.push v).getD p 0 = a.getD p 0 := by
      simp [Array.getD_eq_getD_getElem?, Array.getElem?_push, hl, Nat.ne_of_lt hl]
    rw [e]; exact h p hl
  · have hpe : p = a.size := by omega
    have e : (a.push v).getD p 0 = v := by
      subst hpe; simp [Array.getD_eq_getD_getElem?]
    rw [e]; exact ⟨v0, v1⟩

/-- `0` for a zero, `1` for a non-zero -/
def zind (isZ : α → Bool) (x : α) : Nat := if isZ x then 0 else 1

theorem zind_true {isZ : α → Bool} {x : α} (h : isZ x = true) : zind isZ x = 0 := by unfold zind; rw [if_pos h]
theorem zind_false {isZ : α → Bool} {x : α} (h : isZ x = false) : zind isZ x = 1 := by
  unfold zind; rw [if_neg (by rw [h]; exact Bool.false_ne_true)]
theorem zind_le (isZ : α → Bool) (x : α) : zind isZ x ≤ 1 := by unfold zind; split <;> omega

/-- number of entries `k < m` with `isZ a[k] = false` -/
def nzc (isZ : α → Bool) (a : Array α) : Nat → Nat
  | 0 => 0
  | k+1 => nzc isZ a k + zind isZ (a.getD k default)

theorem nzc_le (isZ : α → Bool) (a : Array α) : ∀ m, nzc isZ a m ≤ m := by
  intro m
  induction m with
  | zero => exact Nat.le_refl _
  | succ k ih =>
    show nzc isZ a k + zind isZ (a.getD k default) ≤ k + 1
    have := zind_le isZ (a.getD k default); omega

/-- a write that stores a zero, or that modifies a non-zero entry, does not increase the count -/
theorem nzc_set_le (isZ : α → Bool) (a : Array α) (i : Nat) (v : α)
    (h : isZ v = true ∨ isZ (a.getD i default) = false) :
    ∀ m, nzc isZ (a.setIfInBounds i v) m ≤ nzc isZ a m := by
  intro m
  induction m with
  | zero => exact Nat.le_refl _
  | succ k ih =>
    show nzc isZ (a.setIfInBounds i v) k + zind isZ ((a.setIfInBounds i v).getD k default)
      ≤ nzc isZ a k + zind isZ (a.getD k default)
    by_cases hc : i = k ∧ i < a.size
    · have e : (a.setIfInBounds i v).getD k default = v := by rw [getD_setG, if_pos hc]
      rw [e]
      obtain ⟨hik, _⟩ := hc
      subst hik
      rcases h with h | h
      · rw [zind_true h]; omega
      · rw [zind_false h]; have := zind_le isZ v; omega
    · have e : (a.setIfInBounds i v).getD k default = a.getD k default := by rw [getD_setG, if_neg hc]
      rw [e]; omega

/-- zeroing a non-zero entry below `m` decreases the count -/
theorem nzc_set_lt (isZ : α → Bool) (a : Array α) (i : Nat) (v : α) (hv : isZ v = true)
    (hi : isZ (a.getD i default) = false) (his : i < a.size) :
    ∀ m, i < m → nzc isZ (a.setIfInBounds i v) m + 1 ≤ nzc isZ a m := by
  intro m
  induction m with
  | zero => intro h; omega
  | succ k ih =>
    intro hik
    show nzc isZ (a.setIfInBounds i v) k + zind isZ ((a.setIfInBounds i v).getD k default) + 1
      ≤ nzc isZ a k + zind isZ (a.getD k default)
    by_cases hc : i = k
    · subst hc
      have e : (a.setIfInBounds i v).getD i default = v := by rw [getD_setG, if_pos ⟨rfl, his⟩]
      rw [e, zind_true hv, zind_false hi]
      have := nzc_set_le isZ a i v (Or.inl hv) i
      omega
    · have e : (a.setIfInBounds i v).getD k default = a.getD k default := by
        rw [getD_setG, if_neg (fun h => hc h.1)]
      rw [e]
      have := ih (by omega)
      omega

/-! ### the straight-line loops -/

/-- what `cr_helper` needs of `indices`: `n + 1` entries, `indices[0] ≤ n` F-points listed at `1..indices[0]` -/
structure CrIdx (n : Nat) (indices : Array Int) : Prop where
  size : indices.size = n + 1
  nf : indices.getD 0 0 ≤ (n : Int)
  fpts : ∀ p : Nat, 1 ≤ p → (p : Int) ≤ indices.getD 0 0 → 0 ≤ indices.getD p 0 ∧ indices.getD p 0 < (n : Int)

theorem cr_rd_idx {n : Nat} {indices : Array Int} (h : CrIdx n indices) (i : Int) (i1 : 1 ≤ i)
    (i2 : i < indices.getD 0 0 + 1) : Safe (rd indices i) (fun pt => 0 ≤ pt ∧ pt < (n : Int)) := by
  have hn := h.nf
  refine Safe.mono (rd_safe indices i (by omega) (by rw [h.size]; omega)) (fun pt hpt => ?_)
  have hpt' : pt = indices.getD i.toNat 0 := hpt
  have := h.fpts i.toNat (by omega) (by omega)
  rw [hpt']; exact this

theorem crNorm_safe (o : KOps α) (c : CrOps α) (n : Nat) (B : Array α) (hB : B.size = n) (indices : Array Int)
    (hidx : CrIdx n indices) (e : Array α) (he : e.size = n) :
    Safe (crNorm o c B indices (indices.getD 0 0) e) (fun st => st.1.size = n) := by
  unfold crNorm
  apply forRange_safe (fun st : Array α × α => st.1.size = n) _ _ _ _ he
  intro i i1 i2 st hst
  refine Safe.bind (cr_rd_idx hidx i i1 i2) (fun pt hpt => ?_)
  refine Safe.bind (rd_ok st.1 pt hpt.1 (by rw [hst]; exact hpt.2)) (fun ev _ => ?_)
  refine Safe.bind (rd_ok B pt hpt.1 (by rw [hB]; exact hpt.2)) (fun bv _ => ?_)
  refine Safe.bind (wr_ok st.1 pt _ hpt.1 (by rw [hst]; exact hpt.2)) (fun e' he' => ?_)
  have hsz : e'.size = n := by rw [he', hst]
  by_cases hg : c.gt (o.norm (o.div ev bv)) st.2 = true
  · rw [if_pos hg]; exact Safe.pure hsz
  · rw [if_neg hg]; exact Safe.pure hsz

theorem crCand_safe (o : KOps α) (c : CrOps α) (n : Nat) (e : Array α) (he : e.size = n) (indices : Array Int)
    (hidx : CrIdx n indices) (infn thetacs : α) (gamma : Array α) (hg : gamma.size = n) :
    Safe (crCand o c e indices (indices.getD 0 0) infn thetacs gamma) (fun st => st.1.size = n ∧ IdxIn st.2 n) := by
  unfold crCand
  apply forRange_safe (fun st : Array α × Array Int => st.1.size = n ∧ IdxIn st.2 n) _ _ _ _ ⟨hg, idxIn_empty n⟩
  intro i i1 i2 st hst
  refine Safe.bind (cr_rd_idx hidx i i1 i2) (fun pt hpt => ?_)
  refine Safe.bind (rd_ok e pt hpt.1 (by rw [he]; exact hpt.2)) (fun ev _ => ?_)
  refine Safe.bind (wr_ok st.1 pt _ hpt.1 (by rw [hst.1]; exact hpt.2)) (fun g' hg' => ?_)
  have hsz : g'.size = n := by rw [hg', hst.1]
  by_cases hgt : c.gt (o.div ev infn) thetacs = true
  · rw [if_pos hgt]; exact Safe.pure ⟨hsz, idxIn_push hst.2 pt hpt.1 hpt.2⟩
  · rw [if_neg hgt]; exact Safe.pure ⟨hsz, hst.2⟩

theorem crWeights_safe (o : KOps α) (c : CrOps α) (n : Nat) (ap aj : Array Int) (hA : WFm (patS n ap aj) n)
    (splitting : Array Int) (hsp : splitting.size = n) (gamma : Array α) (hg : gamma.size = n)
    (uindex : Array Int) (hu : IdxIn uindex n) (omega : Array α) (hom : omega.size = n) :
    Safe (crWeights o c ap aj splitting gamma uindex omega) (fun om => om.size = n) := by
  unfold crWeights
  apply forRange_safe (fun om : Array α => om.size = n) _ _ _ _ hom
  intro i i0 i1 om hom'
  refine Safe.bind (idx_rd_safe uindex n hu i i0 i1) (fun pt hpt => ?_)
  obtain ⟨q1, q2⟩ := rd_ap_safe (patS n ap aj) hA pt hpt.1 hpt.2
  refine Safe.bind q1 (fun a0 ha0 => ?_)
  refine Safe.bind q2 (fun a1 ha1 => ?_)
  have ha0' : a0 = ap.getD pt.toNat 0 := ha0
  have ha1' : a1 = ap.getD (pt.toNat + 1) 0 := ha1
  subst ha0'; subst ha1'
  refine Safe.bind (P := fun _ : Int => True) ?_ (fun nn _ => ?_)
  · apply forRange_safe (fun _ : Int => True) _ _ _ _ trivial
    intro j j1 j2 nn _
    have hr := row_range_m (patS n ap aj) hA pt.toNat (by show pt.toNat < n; omega) j j1 j2
    refine Safe.bind (rd_safe aj j hr.1 hr.2.1) (fun nb hnb => ?_)
    have hc := col_ok (patS n ap aj) hA j hr.1 hr.2.1 nb hnb
    refine Safe.bind (rd_safe splitting nb hc.1 (by rw [hsp]; exact hc.2)) (fun s _ => ?_)
    by_cases hs : s = 0
    · rw [if_pos hs]; exact Safe.pure trivial
    · rw [if_neg hs]; exact Safe.pure trivial
  refine Safe.bind (rd_ok gamma pt hpt.1 (by rw [hg]; exact hpt.2)) (fun g _ => ?_)
  exact Safe.mono (wr_ok om pt _ hpt.1 (by rw [hom']; exact hpt.2)) (fun a' h => by rw [h, hom'])

/-! ### the `while(true)` loop -/

/-- hypotheses on the abstract scalars: `0` tests as zero, a value above `0` does not, and `>` is
transitive towards `0` (true for IEEE doubles, NaN included, and for exact arithmetic) -/
structure CrOrd (o : KOps α) (c : CrOps α) : Prop where
  zero_isZero : o.isZero o.zero = true
  pos_ne : ∀ a, c.gt a o.zero = true → o.isZero a = false
  trans : ∀ a m, c.gt a m = true → c.gt m o.zero = true → c.gt a o.zero = true

/-- the scan returns `-1` or a node whose weight is non-zero -/
theorem crScan_safe (o : KOps α) (c : CrOps α) (hord : CrOrd o c) (n : Nat) (uindex : Array Int)
    (hu : IdxIn uindex n) (omega : Array α) (hom : omega.size = n) :
    Safe (crScan o c uindex omega)
      (fun sc => sc.2 < 0 ∨ (0 ≤ sc.2 ∧ sc.2 < (n : Int) ∧ o.isZero (omega.getD sc.2.toNat default) = false)) := by
  unfold crScan
  refine Safe.mono (forRange_safe
    (fun sc : α × Int => (sc.2 = -1 ∧ sc.1 = o.zero) ∨
      (0 ≤ sc.2 ∧ sc.2 < (n : Int) ∧ sc.1 = omega.getD sc.2.toNat default ∧ c.gt sc.1 o.zero = true))
    _ _ _ _ (Or.inl ⟨rfl, rfl⟩) ?_) (fun sc h => ?_)
  · intro i i0 i1 sc hsc
    refine Safe.bind (idx_rd_safe uindex n hu i i0 i1) (fun pt hpt => ?_)
    refine Safe.bind (rd_safe omega pt hpt.1 (by rw [hom]; omega)) (fun w hw => ?_)
    by_cases hg : c.gt w sc.1 = true
    · rw [if_pos hg]
      refine Safe.pure (Or.inr ⟨hpt.1, hpt.2, hw, ?_⟩)
      rcases hsc with hsc | hsc
      · have := hsc.2; rw [this] at hg; exact hg
      · exact hord.trans w sc.1 hg hsc.2.2.2
    · rw [if_neg hg]; exact Safe.pure hsc
  · rcases h with h | h
    · left; rw [h.1]; omega
    · right; refine ⟨h.1, h.2.1, ?_⟩
      rw [← h.2.2.1]; exact hord.pos_ne _ h.2.2.2

theorem crKill_safe (o : KOps α) (c : CrOps α) (hord : CrOrd o c) (n : Nat) (ap aj : Array Int)
    (hA : WFm (patS n ap aj) n) (np : Int) (p0 : 0 ≤ np) (p1 : np < (n : Int)) (omega : Array α)
    (hom : omega.size = n) :
    Safe (crKill o aj (ap.getD np.toNat 0) (ap.getD (np.toNat + 1) 0) omega)
      (fun r => r.1.size = n ∧ IdxIn r.2 n ∧ nzc o.isZero r.1 n ≤ nzc o.isZero omega n) := by
  unfold crKill
  apply forRange_safe
    (fun r : Array α × Array Int => r.1.size = n ∧ IdxIn r.2 n ∧ nzc o.isZero r.1 n ≤ nzc o.isZero omega n)
    _ _ _ _ ⟨hom, idxIn_empty n, Nat.le_refl _⟩
  intro i i1 i2 st hst
  have hr := row_range_m (patS n ap aj) hA np.toNat (by show np.toNat < n; omega) i i1 i2
  refine Safe.bind (rd_safe aj i hr.1 hr.2.1) (fun t ht => ?_)
  have hc := col_ok (patS n ap aj) hA i hr.1 hr.2.1 t ht
  refine Safe.bind (wr_val st.1 t o.zero hc.1 (by rw [hst.1]; exact hc.2)) (fun om hom' => ?_)
  refine Safe.pure ⟨by show om.size = n; rw [hom']; simp [hst.1], idxIn_push hst.2.1 t hc.1 (by omega), ?_⟩
  show nzc o.isZero om n ≤ nzc o.isZero omega n
  rw [hom']
  exact Nat.le_trans (nzc_set_le o.isZero st.1 t.toNat o.zero (Or.inl hord.zero_isZero) n) hst.2.2

theorem crBump_safe (o : KOps α) (n : Nat) (ap aj : Array Int) (hA : WFm (patS n ap aj) n)
    (neighbors : Array Int) (hnb : IdxIn neighbors n) (omega : Array α) (hom : omega.size = n) :
    Safe (crBump o ap aj neighbors omega)
      (fun om => om.size = n ∧ nzc o.isZero om n ≤ nzc o.isZero omega n) := by
  unfold crBump
  apply forRange_safe (fun om : Array α => om.size = n ∧ nzc o.isZero om n ≤ nzc o.isZero omega n)
    _ _ _ _ ⟨hom, Nat.le_refl _⟩
  intro i i0 i1 om hom'
  refine Safe.bind (idx_rd_safe neighbors n hnb i i0 i1) (fun pt hpt => ?_)
  obtain ⟨q1, q2⟩ := rd_ap_safe (patS n ap aj) hA pt hpt.1 hpt.2
  refine Safe.bind q1 (fun b0 hb0 => ?_)
  refine Safe.bind q2 (fun b1 hb1 => ?_)
  have hb0' : b0 = ap.getD pt.toNat 0 := hb0
  have hb1' : b1 = ap.getD (pt.toNat + 1) 0 := hb1
  subst hb0'; subst hb1'
  apply forRange_safe (fun om : Array α => om.size = n ∧ nzc o.isZero om n ≤ nzc o.isZero omega n) _ _ _ _ hom'
  intro j j1 j2 om2 hom2
  have hr := row_range_m (patS n ap aj) hA pt.toNat (by show pt.toNat < n; omega) j j1 j2
  refine Safe.bind (rd_safe aj j hr.1 hr.2.1) (fun t ht => ?_)
  have hc := col_ok (patS n ap aj) hA j hr.1 hr.2.1 t ht
  refine Safe.bind (rd_safe om2 t hc.1 (by rw [hom2.1]; exact hc.2)) (fun w hw => ?_)
  by_cases hz : o.isZero w = true
  · rw [if_pos hz]; exact Safe.pure hom2
  · rw [if_neg hz]
    refine Safe.mono (wr_val om2 t _ hc.1 (by rw [hom2.1]; exact hc.2)) (fun om3 hom3 => ?_)
    refine ⟨by rw [hom3]; simp [hom2.1], ?_⟩
    rw [hom3]
    have hnz : o.isZero (om2.getD t.toNat default) = false := by
      rw [← hw]; cases hh : o.isZero w with
      | true => exact absurd hh hz
      | false => rfl
    exact Nat.le_trans (nzc_set_le o.isZero om2 t.toNat _ (Or.inr hnz) n) hom2.2

/-- `splitting`, `gamma`, `omega` keep their length -/
def CrWInv (n : Nat) (st : CrW α) : Prop := st.1.size = n ∧ st.2.1.size = n ∧ st.2.2.size = n

theorem crIter_safe (o : KOps α) (c : CrOps α) (hord : CrOrd o c) (n : Nat) (ap aj : Array Int)
    (hA : WFm (patS n ap aj) n) (uindex : Array Int) (hu : IdxIn uindex n) (st : CrW α) (hst : CrWInv n st) :
    Safe (crIter o c ap aj uindex st)
      (fun r => CrWInv n r.1 ∧ (r.2 = true → nzc o.isZero r.1.2.2 n + 1 ≤ nzc o.isZero st.2.2 n)) := by
  obtain ⟨h1, h2, h3⟩ := hst
  unfold crIter
  refine Safe.bind (crScan_safe o c hord n uindex hu st.2.2 h3) (fun sc hsc => ?_)
  by_cases hneg : sc.2 < 0
  · rw [if_pos hneg]; exact Safe.pure ⟨⟨h1, h2, h3⟩, fun hc => (by cases hc)⟩
  · rw [if_neg hneg]
    have hnp : 0 ≤ sc.2 ∧ sc.2 < (n : Int) ∧ o.isZero (st.2.2.getD sc.2.toNat default) = false := by
      rcases hsc with h | h
      · exact absurd h hneg
      · exact h
    have hin : sc.2.toNat < n := by omega
    refine Safe.bind (wr_safe st.1 sc.2 1 hnp.1 (by rw [h1]; exact hin)) (fun spl hspl => ?_)
    refine Safe.bind (wr_safe st.2.1 sc.2 o.zero hnp.1 (by rw [h2]; exact hin)) (fun gam hgam => ?_)
    refine Safe.bind (wr_val st.2.2 sc.2 o.zero hnp.1 (by rw [h3]; exact hin)) (fun om hom => ?_)
    have homs : om.size = n := by rw [hom]; simp [h3]
    have hdrop : nzc o.isZero om n + 1 ≤ nzc o.isZero st.2.2 n := by
      rw [hom]
      exact nzc_set_lt o.isZero st.2.2 sc.2.toNat o.zero hord.zero_isZero hnp.2.2 (by rw [h3]; exact hin) n hin
    obtain ⟨q1, q2⟩ := rd_ap_safe (patS n ap aj) hA sc.2 hnp.1 hnp.2.1
    refine Safe.bind q1 (fun a0 ha0 => ?_)
    refine Safe.bind q2 (fun a1 ha1 => ?_)
    have ha0' : a0 = ap.getD sc.2.toNat 0 := ha0
    have ha1' : a1 = ap.getD (sc.2.toNat + 1) 0 := ha1
    subst ha0'; subst ha1'
    refine Safe.bind (crKill_safe o c hord n ap aj hA sc.2 hnp.1 hnp.2.1 om homs) (fun r hr => ?_)
    refine Safe.bind (crBump_safe o n ap aj hA r.2 hr.2.1 r.1 hr.1) (fun om2 hom2 => ?_)
    refine Safe.pure ⟨⟨by show spl.size = n; rw [hspl, h1], by show gam.size = n; rw [hgam, h2], hom2.1⟩, fun _ => ?_⟩
    show nzc o.isZero om2 n + 1 ≤ nzc o.isZero st.2.2 n
    have := hom2.2; have := hr.2.2; omega

/-- `while(true)` terminates: within `(number of non-zero weights) + 1` passes -/
theorem crWhile_safe (o : KOps α) (c : CrOps α) (hord : CrOrd o c) (n : Nat) (ap aj : Array Int)
    (hA : WFm (patS n ap aj) n) (uindex : Array Int) (hu : IdxIn uindex n) :
    ∀ (fuel : Nat) (st : Ck (CrW α)), Safe st (CrWInv n) → nzc o.isZero st.val.2.2 n + 1 ≤ fuel →
      ∃ r, crWhile o c ap aj uindex fuel st = some r ∧ Safe r (CrWInv n) := by
  intro fuel
  induction fuel with
  | zero => intro st _ hm; omega
  | succ f ih =>
    intro st hst hm
    unfold crWhile
    have hb := Safe.bind_val hst.1 (crIter_safe o c hord n ap aj hA uindex hu st.val hst.2)
    by_cases hgo : (st >>= crIter o c ap aj uindex).val.2 = true
    · simp only [hgo, if_true]
      have hdrop := hb.2.2 hgo
      refine ih _ (map_fst_safe (Safe.mono hb (fun _ h => h.1))) ?_
      show nzc o.isZero (st >>= crIter o c ap aj uindex).val.1.2.2 n + 1 ≤ f
      omega
    · simp only [hgo]
      exact ⟨_, rfl, map_fst_safe (Safe.mono hb (fun _ h => h.1))⟩

/-! ### the reordering of `indices` -/

theorem crReorder_safe (n : Nat) (splitting indices : Array Int) (hsp : splitting.size = n)
    (hind : indices.size = n + 1) :
    Safe (crReorder splitting indices) (fun ind => ind.size = n + 1) := by
  unfold crReorder
  refine Safe.bind (wr_safe indices 0 0 (Int.le_refl 0) (by rw [hind]; simp)) (fun ind0 hind0 => ?_)
  refine Safe.bind (P := fun st : Array Int × Int × Int => st.1.size = n + 1) ?_ (fun r hr => Safe.pure hr)
  rw [hsp]
  refine Safe.mono (forRange_safe_idx
    (fun (i : Int) (st : Array Int × Int × Int) =>
      st.1.size = n + 1 ∧ 1 ≤ st.2.1 ∧ st.2.2 ≤ (n : Int) ∧ st.2.1 - 1 + ((n : Int) - st.2.2) = i)
    0 (n : Int) (by omega) _ _ ⟨by rw [hind0, hind], Int.le_refl _, Int.le_refl _, by show (1 : Int) - 1 + ((n : Int) - (n : Int)) = 0; omega⟩ ?_)
    (fun st h => h.1)
  intro i i0 i1 st hst
  obtain ⟨g1, g2, g3, g4⟩ := hst
  refine Safe.bind (rd_ok splitting i i0 (by rw [hsp]; exact i1)) (fun s _ => ?_)
  by_cases hs : s = 0
  · rw [if_pos hs]
    refine Safe.bind (wr_ok st.1 st.2.1 i (by omega) (by rw [g1]; omega)) (fun ind1 hind1 => ?_)
    refine Safe.bind (rd_ok ind1 0 (Int.le_refl 0) (by rw [hind1, g1]; omega)) (fun cnt _ => ?_)
    refine Safe.bind (wr_ok ind1 0 _ (Int.le_refl 0) (by rw [hind1, g1]; omega)) (fun ind2 hind2 => ?_)
    exact Safe.pure ⟨by show ind2.size = n + 1; rw [hind2, hind1, g1], by show 1 ≤ st.2.1 + 1; omega, g3,
      by show st.2.1 + 1 - 1 + ((n : Int) - st.2.2) = i + 1; omega⟩
  · rw [if_neg hs]
    refine Safe.bind (wr_ok st.1 st.2.2 i (by omega) (by rw [g1]; omega)) (fun ind1 hind1 => ?_)
    exact Safe.pure ⟨by show ind1.size = n + 1; rw [hind1, g1], g2, by show st.2.2 - 1 ≤ (n : Int); omega,
      by show st.2.1 - 1 + ((n : Int) - (st.2.2 - 1)) = i + 1; omega⟩

/-! ### the kernel -/

/-- **`cr_helper`**: `A` a structurally valid `n × n` pattern (diagonal present or not), `B`, `e`, `gamma`,
`splitting` of length `n`, `indices` of length `n + 1` listing `indices[0] ≤ n` nodes at positions
`1..indices[0]`, any `thetacs`.  All accesses (including those through the vectors `Uindex`, `neighbors`,
`omega`) stay in range, the `while(true)` loop terminates within `n + 1` passes, and the final
reordering writes `indices[1..n]` only. -/
theorem crHelper_safe (o : KOps α) (c : CrOps α) (hord : CrOrd o c) (ap aj : Array Int) (B e : Array α)
    (indices splitting : Array Int) (gamma : Array α) (thetacs : α)
    (hA : WFm (patS splitting.size ap aj) splitting.size) (hB : B.size = splitting.size)
    (he : e.size = splitting.size) (hg : gamma.size = splitting.size) (hidx : CrIdx splitting.size indices) :
    Safe (crHelper o c ap aj B e indices splitting gamma thetacs)
      (fun r => r.1.size = e.size ∧ r.2.1.size = indices.size ∧ r.2.2.1.size = splitting.size ∧
        r.2.2.2.size = gamma.size) := by
  unfold crHelper
  refine Safe.bind (rd_safe indices 0 (Int.le_refl 0) (by rw [hidx.size]; simp)) (fun nF hnF => ?_)
  have hnF' : nF = indices.getD 0 0 := hnF
  subst hnF'
  refine Safe.bind (crNorm_safe o c _ B hB indices hidx e he) (fun en hen => ?_)
  refine Safe.bind (crCand_safe o c _ en.1 hen indices hidx en.2 thetacs gamma hg) (fun gu hgu => ?_)
  refine Safe.bind (crWeights_safe o c _ ap aj hA splitting rfl gu.1 hgu.1 gu.2 hgu.2 _ (by simp)) (fun om hom => ?_)
  refine Safe.bind (P := CrWInv splitting.size) ?_ (fun w hw => ?_)
  · apply orFault_safe
    refine crWhile_safe o c hord _ ap aj hA gu.2 hgu.2 _ (pure (splitting, gu.1, om))
      (Safe.pure ⟨rfl, hgu.1, hom⟩) ?_
    have := nzc_le o.isZero om splitting.size
    show nzc o.isZero om splitting.size + 1 ≤ splitting.size + 1
    omega
  refine Safe.bind (crReorder_safe _ w.1 indices hw.1 hidx.size) (fun ind hind => ?_)
  exact Safe.pure ⟨by show en.1.size = e.size; rw [hen, he], by show ind.size = indices.size; rw [hind, hidx.size],
    hw.1, by show w.2.1.size = gamma.size; rw [hw.2.1, hg]⟩

end PyamgV.C17
