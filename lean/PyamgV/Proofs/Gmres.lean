import PyamgV.Proofs.Petrov
import Mathlib.LinearAlgebra.Matrix.Notation
import Mathlib.Data.Matrix.Mul
import Mathlib.Algebra.BigOperators.Fin
import Mathlib.Algebra.Module.BigOperators

/-! PyamgV (C07, GMRES): why the iterate GMRES returns is residual-optimal over the Krylov space.

Two independent pieces, both abstract enough to cover `_gmres_mgs.py`, `_gmres_householder.py`
and (with `Z` ≠ `V`) `_fgmres.py`:

* `gmres_petrov`  — Arnoldi relation + orthonormal basis + *normal equations* of the small
  least-squares problem ⇒ the new residual is orthogonal to `B·span{z_j}`; with
  `petrov_optimal` this is optimality of the residual norm over `x₀ + span{z_j}`.
  (`B` = left-preconditioned operator `M A`, residuals are the preconditioned ones; for FGMRES
  `z_j = M_j v_j`, `B = A`.)
* `qr_normal_eq`  — what the Givens sweep establishes: if an orthogonal `Q` brings the
  `(k+1) × k` Hessenberg matrix to upper-triangular form with a zero last row and `y` solves the
  triangular system, then `y` satisfies the normal equations. -/
namespace PyamgV.Gmres
open PyamgV

variable {K : Type*} [Field K] [LinearOrder K] [IsStrictOrderedRing K]
variable {V : Type*} [AddCommGroup V] [Module K V]

/-- Arnoldi data after `k` steps: `v_0..v_k` orthonormal, `B z_j = Σ_l H l j • v_l`,
`r₀ = β v_0`. For GMRES `z = v ∘ castSucc`. -/
structure Arnoldi (e : EForm K V) (B : V →ₗ[K] V) (k : Nat) where
  v : Fin (k+1) → V
  z : Fin k → V
  H : Matrix (Fin (k+1)) (Fin k) K
  orth : ∀ i j, e.a (v i) (v j) = if i = j then 1 else 0
  rel : ∀ j, B (z j) = ∑ l, H l j • v l

variable {e : EForm K V} {B : V →ₗ[K] V} {k : Nat}

/-- coefficient vector of the residual in the basis `v`: `β e₁ − H y` -/
def rho (Ar : Arnoldi e B k) (β : K) (y : Fin k → K) : Fin (k+1) → K :=
  fun l => (if l = 0 then β else 0) - ∑ j, Ar.H l j * y j

theorem resid_expand (Ar : Arnoldi e B k) (β : K) (y : Fin k → K) (r0 : V)
    (hr0 : r0 = β • Ar.v 0) :
    r0 - B (∑ j, y j • Ar.z j) = ∑ l, rho Ar β y l • Ar.v l := by
  unfold rho
  simp only [sub_smul, Finset.sum_sub_distrib]
  congr 1
  · rw [hr0]
    simp [Finset.sum_ite_eq', ite_smul]
  · rw [map_sum]
    simp only [map_smul, Ar.rel, Finset.smul_sum, smul_smul]
    rw [Finset.sum_comm]
    refine Finset.sum_congr rfl (fun l _ => ?_)
    rw [Finset.sum_smul]
    refine Finset.sum_congr rfl (fun j _ => ?_)
    rw [mul_comm]

theorem inner_expand (Ar : Arnoldi e B k) (c : Fin (k+1) → K) (j : Fin k) :
    e.a (∑ l, c l • Ar.v l) (B (Ar.z j)) = ∑ l, c l * Ar.H l j := by
  rw [Ar.rel]
  simp only [map_sum, LinearMap.sum_apply, map_smul, LinearMap.smul_apply, smul_eq_mul, Ar.orth]
  refine Finset.sum_congr rfl (fun l _ => ?_)
  simp [mul_comm]

/-- **normal equations ⇒ Petrov–Galerkin condition** -/
theorem gmres_petrov (Ar : Arnoldi e B k) (β : K) (y : Fin k → K) (r0 : V)
    (hr0 : r0 = β • Ar.v 0)
    (hne : ∀ j, ∑ l, rho Ar β y l * Ar.H l j = 0) :
    ∀ j, e.a (r0 - B (∑ j, y j • Ar.z j)) (B (Ar.z j)) = 0 := by
  intro j
  rw [resid_expand Ar β y r0 hr0, inner_expand]
  exact hne j

/-- residual optimality of the GMRES iterate `x₀ + Σ y_j z_j` over `x₀ + span{z_j}` for the
(preconditioned) system `B x = c`, `r₀ = c − B x₀`. -/
theorem gmres_optimal (Ar : Arnoldi e B k) (β : K) (y : Fin k → K) (c x0 : V)
    (hr0 : c - B x0 = β • Ar.v 0)
    (hne : ∀ j, ∑ l, rho Ar β y l * Ar.H l j = 0) :
    ∀ x', x' - x0 ∈ Submodule.span K (Set.range Ar.z) →
      e.en (c - B (x0 + ∑ j, y j • Ar.z j)) ≤ e.en (c - B x') := by
  apply petrov_optimal B e c x0 _ (Submodule.span K (Set.range Ar.z))
  · have : x0 + ∑ j, y j • Ar.z j - x0 = ∑ j, y j • Ar.z j := by abel
    rw [this]
    exact Submodule.sum_mem _ (fun j _ => Submodule.smul_mem _ _
      (Submodule.subset_span ⟨j, rfl⟩))
  · apply petrov_of_span
    rintro w ⟨j, rfl⟩
    have h := gmres_petrov Ar β y (c - B x0) hr0 hne j
    have : c - B (x0 + ∑ j, y j • Ar.z j) = c - B x0 - B (∑ j, y j • Ar.z j) := by
      rw [map_add]; abel
    rw [this]; exact h

/-! ### what the Givens sweep provides -/

open Matrix

/-- If `Qᵀ Q = 1`, the last row of `Q H` vanishes, and `y` solves the remaining (triangular, but
that is irrelevant here) system `(Q H)_{top} y = (Q g)_{top}`, then `Hᵀ (g − H y) = 0`. -/
theorem qr_normal_eq (H : Matrix (Fin (k+1)) (Fin k) K) (Q : Matrix (Fin (k+1)) (Fin (k+1)) K)
    (g : Fin (k+1) → K) (y : Fin k → K)
    (hQ : Qᵀ * Q = 1)
    (hlast : ∀ j, (Q * H) (Fin.last k) j = 0)
    (hsolve : ∀ i : Fin k, ((Q * H) *ᵥ y) i.castSucc = (Q *ᵥ g) i.castSucc) :
    Hᵀ *ᵥ (g - H *ᵥ y) = 0 := by
  have h1 : Hᵀ *ᵥ (g - H *ᵥ y) = (Q * H)ᵀ *ᵥ (Q *ᵥ (g - H *ᵥ y)) := by
    rw [Matrix.transpose_mul, Matrix.mulVec_mulVec, Matrix.mul_assoc, hQ, Matrix.mul_one]
  rw [h1]
  have h2 : Q *ᵥ (g - H *ᵥ y) = Q *ᵥ g - (Q * H) *ᵥ y := by
    rw [Matrix.mulVec_sub, Matrix.mulVec_mulVec]
  rw [h2]
  funext j
  simp only [Matrix.mulVec, dotProduct, Matrix.transpose_apply, Pi.zero_apply, Pi.sub_apply]
  rw [Fin.sum_univ_castSucc]
  have htop : ∀ i : Fin k, (Q * H) i.castSucc j *
      ((Q *ᵥ g) i.castSucc - ((Q * H) *ᵥ y) i.castSucc) = 0 := by
    intro i; rw [hsolve i]; ring
  have hbot : (Q * H) (Fin.last k) j = 0 := hlast j
  simp only [Matrix.mulVec, dotProduct] at htop
  rw [Finset.sum_eq_zero (fun i _ => htop i), hbot]
  ring

/-- the two pieces joined: the iterate computed from a QR factorisation of the Hessenberg matrix
(Givens in `_gmres_mgs.py`, Householder + Givens in `_gmres_householder.py`) is
residual-optimal over `x₀ + span{z_j}`. -/
theorem gmres_optimal_of_qr (Ar : Arnoldi e B k) (β : K) (y : Fin k → K) (c x0 : V)
    (hr0 : c - B x0 = β • Ar.v 0)
    (Q : Matrix (Fin (k+1)) (Fin (k+1)) K) (hQ : Qᵀ * Q = 1)
    (hlast : ∀ j, (Q * Ar.H) (Fin.last k) j = 0)
    (hsolve : ∀ i : Fin k, ((Q * Ar.H) *ᵥ y) i.castSucc =
      (Q *ᵥ (fun l => if l = 0 then β else 0)) i.castSucc) :
    ∀ x', x' - x0 ∈ Submodule.span K (Set.range Ar.z) →
      e.en (c - B (x0 + ∑ j, y j • Ar.z j)) ≤ e.en (c - B x') := by
  apply gmres_optimal Ar β y c x0 hr0
  intro j
  have h := qr_normal_eq Ar.H Q (fun l => if l = 0 then β else 0) y hQ hlast hsolve
  have hj := congrFun h j
  simp only [Matrix.mulVec, dotProduct, Matrix.transpose_apply, Pi.sub_apply,
    Pi.zero_apply] at hj
  rw [← hj]
  refine Finset.sum_congr rfl (fun l _ => ?_)
  unfold rho
  rw [mul_comm]

#print axioms gmres_optimal
#print axioms qr_normal_eq
#print axioms gmres_optimal_of_qr
end PyamgV.Gmres
