import PyamgV.Generated.PyLogic2
import PyamgV.Proofs.ExtPyRtLemmas
import PyamgV.Model.C16Coarse
/-! PyamgV (extension E42, property C16): theorems about the definition GENERATED from the working tree by
`harness/py2lean2.py` for `coarse_grid_solver` (pyamg/multilevel.py): the dispatch on the solver name / `None` /
callable / `(solver, kwargs)` tuple, linked to the hand-written dispatch chain `C16.dispatch` of
`Model/C16Coarse.lean`.  Every statement is about `PyamgV.Generated.PyLogic2.multilevel_coarse_grid_solver`,
i.e. about what the source says now. -/
open PyamgV.ExtPy PyamgV.ExtPy2 PyamgV.Generated.PyLogic2
namespace PyamgV.ExtPy2Coarse

abbrev cgs := multilevel_coarse_grid_solver

/-- which of the seven Krylov names `pyamg.krylov` has (the others are taken from `scipy.sparse.linalg`); compared
with `hasattr` on the real modules by the check on every run (`ext_py2_coarse_world`) -/
def krylovHas : List String := ["bicgstab", "cg", "gmres"]
def slaHas : List String := ["bicg", "bicgstab", "cg", "cgs", "gmres", "qmr", "minres"]

/-- the world `coarse_grid_solver` looks at: the two solver modules; `nc` = the opaque objects that are not callable -/
def world (nc : List String) : World where
  heap := [("krylov", krylovHas.map (fun n => (n, PyVal.obj ("krylov." ++ n)))),
           ("sla", slaHas.map (fun n => (n, PyVal.obj ("sla." ++ n))))]
  closed := ["krylov", "sla"]
  noncallable := nc

def strsOf (xs : List PyVal) : List String := xs.filterMap (fun x => match x with | .str s => some s | _ => Option.none)

/-- how the returned object is read: which `solve` closure the `GenericSolver` instance captured, identified by what
its body calls, and (for the two families) the captured solver name -/
def kindOf (inst : PyVal) : Option C16.Kind :=
  match inst with
  | .tuple [.obj "<instance>", .str "GenericSolver", .dict cap] =>
    match cap.lookup "solve", cap.lookup "solver" with
    | some (.tuple [.obj "<closure>", .str "solve", .int _, .list calls, .dict _]), some sv =>
      let cs := strsOf calls
      if cs.contains "pinv" then some .pinv
      else if cs.contains "sp.linalg.lu_factor" then some .lu
      else if cs.contains "sp.linalg.cho_factor" then some .cholesky
      else if cs.contains "sp.sparse.linalg.splu" then some .splu
      else if cs.contains "set_tol" then (match sv with | .str s => some (.krylov s) | _ => Option.none)
      else if cs.contains "MultilevelSolver.Level" then (match sv with | .str s => some (.relax s) | _ => Option.none)
      else if cs.isEmpty then some .noSolve
      else if cs == ["solver"] then some .callable
      else Option.none
    | _, _ => Option.none
  | _ => Option.none

def allNames : List String := ["pinv", "pinv2", "lu", "cholesky", "splu"] ++ C16.krylovNames ++ C16.relaxNames

/-- the captured keyword dictionary of the `solve` closure -/
def kwargsOf (inst : PyVal) : Option PyVal :=
  match inst with
  | .tuple [.obj "<instance>", .str "GenericSolver", .dict cap] =>
    match cap.lookup "solve" with
    | some (.tuple [.obj "<closure>", .str "solve", .int _, .list _, .dict c]) => c.lookup "kwargs"
    | _ => Option.none
  | _ => Option.none

/-- the captured Krylov function and the name of its tolerance keyword -/
def krylovOf (inst : PyVal) : Option (PyVal × PyVal) :=
  match inst with
  | .tuple [.obj "<instance>", .str "GenericSolver", .dict cap] =>
    match cap.lookup "solve" with
    | some (.tuple [.obj "<closure>", .str "solve", .int _, .list _, .dict c]) =>
      (match c.lookup "fn", c.lookup "tolname" with
       | some f, some t => some (f, t)
       | _, _ => Option.none)
    | _ => Option.none
  | _ => Option.none

def allNames : List String := ["pinv", "pinv2", "lu", "cholesky", "splu"] ++ C16.krylovNames ++ C16.relaxNames

/-- the `solver` argument as the hand-written model classifies it (`unpack_arg` already applied) -/
def argOf (nc : List String) : PyVal → C16.Arg
  | .str s => .str s
  | .none => .none
  | .obj p => if nc.contains p then .other else .callable
  | _ => .other

theorem names_accepted : ∀ s ∈ allNames, (C16.dispatch (.str s)).isSome = true := by decide

theorem not_mem_of_dispatch_none (s : String) (h : C16.dispatch (.str s) = none) : s ∉ allNames := by
  intro hm
  have := names_accepted s hm
  rw [h] at this
  exact absurd this (by simp)

theorem dispatch_none_of_not_mem (s : String) (h : s ∉ allNames) : C16.dispatch (.str s) = none := by
  simp [allNames, C16.krylovNames, C16.relaxNames] at h
  simp [C16.dispatch, C16.krylovNames, C16.relaxNames, h]

/-- LINK (plain form, listed names): the closure the generated dispatch creates is the `Kind` of the model -/
theorem names_plain (nc : List String) :
    ∀ s ∈ allNames, ((cgs (world nc) (.str s)).toOption.bind kindOf) = C16.dispatch (.str s) := by
  intro s hs
  simp only [allNames, C16.krylovNames, C16.relaxNames, List.cons_append, List.nil_append, List.mem_cons,
    List.not_mem_nil, or_false] at hs
  rcases hs with rfl | rfl | rfl | rfl | rfl | rfl | rfl | rfl | rfl | rfl | rfl | rfl | rfl | rfl | rfl | rfl | rfl |
    rfl | rfl | rfl | rfl | rfl | rfl <;> rfl

/-- a string that is not one of the documented names: `ValueError('unknown solver')`, in every world, with any
second tuple entry -/
theorem unknown_name (w : World) (s : String) (h : C16.dispatch (.str s) = none) :
    ∃ e, cgs w (.str s) = .error e ∧ e.cls = "ValueError" := by
  have hs := not_mem_of_dispatch_none s h
  simp [allNames, C16.krylovNames, C16.relaxNames] at hs
  simp [cgs, multilevel_coarse_grid_solver, multilevel_coarse_grid_solver_unpack_arg, pyIsInst, PyVal.tyName,
    pyUnpack, pyIter, unpackAt, pyIn, pyEq, pyIsNone, isCallable, hs]
  exact ⟨_, rfl, rfl⟩

theorem unknown_name_pair (w : World) (s : String) (b : PyVal) (rest : List PyVal) (h : C16.dispatch (.str s) = none) :
    ∃ e, cgs w (.tuple (.str s :: b :: rest)) = .error e ∧ e.cls = "ValueError" := by
  have hs := not_mem_of_dispatch_none s h
  simp [allNames, C16.krylovNames, C16.relaxNames] at hs
  simp [cgs, multilevel_coarse_grid_solver, multilevel_coarse_grid_solver_unpack_arg, pyIsInst, PyVal.tyName,
    pyUnpack, pyIter, unpackAt, pyIn, pyEq, pyIsNone, isCallable, getItem2, pyGetItem, PyVal.int?, normIdx, hs]
  exact ⟨_, rfl, rfl⟩

/-- LINK (plain form, every string): `Generated.dispatch = C16.dispatch` -/
theorem str_refines (nc : List String) (s : String) :
    ((cgs (world nc) (.str s)).toOption.bind kindOf) = C16.dispatch (.str s) := by
  by_cases hs : s ∈ allNames
  · exact names_plain nc s hs
  · have hd := dispatch_none_of_not_mem s hs
    obtain ⟨e, he, _⟩ := unknown_name (world nc) s hd
    rw [he, hd]; rfl

end PyamgV.ExtPy2Coarse
