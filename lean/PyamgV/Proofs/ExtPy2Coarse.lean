import PyamgV.Generated.PyLogic2
import PyamgV.Proofs.ExtPy2RtLemmas
import PyamgV.Model.C16Coarse
import PyamgV.Model.ExtPy2Worlds
/-! PyamgV (extension E42, property C16): theorems about the definition GENERATED from the working tree by
`harness/py2lean2.py` for `coarse_grid_solver` (pyamg/multilevel.py): the dispatch on the solver name / `None` /
callable / `(solver, kwargs)` tuple, linked to the hand-written dispatch chain `C16.dispatch` of
`Model/C16Coarse.lean`.  Every statement is about `PyamgV.Generated.PyLogic2.multilevel_coarse_grid_solver`,
i.e. about what the source says now. -/
open PyamgV.ExtPy PyamgV.ExtPy2 PyamgV.Generated.PyLogic2
namespace PyamgV.ExtPy2Coarse

abbrev cgs := multilevel_coarse_grid_solver

/-- the world `coarse_grid_solver` looks at (Model/ExtPy2Worlds.lean): which of the seven Krylov names `pyamg.krylov`
has (`krylovHas`), the others come from `scipy.sparse.linalg`; `nc` = the opaque objects that are not callable -/
abbrev world (nc : List String) : World := PyamgV.ExtPy2W.coarseWorld nc
abbrev krylovHas : List String := PyamgV.ExtPy2W.krylovHas

def strsOf (xs : List PyVal) : List String := xs.filterMap (fun x => match x with | .str s => some s | _ => Option.none)

/-- how the returned object is read: which `solve` closure the `GenericSolver` instance captured, identified by what
its body calls, and (for the two families) the captured solver name -/
def kindOf (inst : PyVal) : Option C16.Kind :=
  match inst with
  | .tuple [.obj "<instance>", .str "GenericSolver", .dict cap] =>
    match cap.lookup "solve", cap.lookup "solver" with
    | some (.tuple [.obj "<closure>", .str "solve", .int _, .list calls, .dict _]), some sv =>
      let cs := strsOf calls
      if cs.contains "pinv" then some .pinv
      else if cs.contains "sp.linalg.lu_factor" then some .lu
      else if cs.contains "sp.linalg.cho_factor" then some .cholesky
      else if cs.contains "sp.sparse.linalg.splu" then some .splu
      else if cs.contains "set_tol" then (match sv with | .str s => some (.krylov s) | _ => Option.none)
      else if cs.contains "MultilevelSolver.Level" then (match sv with | .str s => some (.relax s) | _ => Option.none)
      else if cs.isEmpty then some .noSolve
      else if cs == ["solver"] then some .callable
      else Option.none
    | _, _ => Option.none
  | _ => Option.none


/-- the captured keyword dictionary of the `solve` closure -/
def kwargsOf (inst : PyVal) : Option PyVal :=
  match inst with
  | .tuple [.obj "<instance>", .str "GenericSolver", .dict cap] =>
    match cap.lookup "solve" with
    | some (.tuple [.obj "<closure>", .str "solve", .int _, .list _, .dict c]) => c.lookup "kwargs"
    | _ => Option.none
  | _ => Option.none

/-- the captured Krylov function and the name of its tolerance keyword -/
def krylovOf (inst : PyVal) : Option (PyVal × PyVal) :=
  match inst with
  | .tuple [.obj "<instance>", .str "GenericSolver", .dict cap] =>
    match cap.lookup "solve" with
    | some (.tuple [.obj "<closure>", .str "solve", .int _, .list _, .dict c]) =>
      (match c.lookup "fn", c.lookup "tolname" with
       | some f, some t => some (f, t)
       | _, _ => Option.none)
    | _ => Option.none
  | _ => Option.none

def allNames : List String := ["pinv", "pinv2", "lu", "cholesky", "splu"] ++ C16.krylovNames ++ C16.relaxNames

/-- the `solver` argument as the hand-written model classifies it (`unpack_arg` already applied) -/
def argOf (nc : List String) : PyVal → C16.Arg
  | .str s => .str s
  | .none => .none
  | .obj p => if nc.contains p then .other else .callable
  | _ => .other

theorem names_accepted : ∀ s ∈ allNames, (C16.dispatch (.str s)).isSome = true := by decide

theorem not_mem_of_dispatch_none (s : String) (h : C16.dispatch (.str s) = none) : s ∉ allNames := by
  intro hm
  have := names_accepted s hm
  rw [h] at this
  exact absurd this (by simp)

theorem dispatch_none_of_not_mem (s : String) (h : s ∉ allNames) : C16.dispatch (.str s) = none := by
  simp [allNames, C16.krylovNames, C16.relaxNames] at h
  simp [C16.dispatch, C16.krylovNames, C16.relaxNames, h]

/-- LINK (plain form, listed names): the closure the generated dispatch creates is the `Kind` of the model -/
theorem names_plain (nc : List String) :
    ∀ s ∈ allNames, ((cgs (world nc) (.str s)).toOption.bind kindOf) = C16.dispatch (.str s) := by
  intro s hs
  simp only [allNames, C16.krylovNames, C16.relaxNames, List.cons_append, List.nil_append, List.mem_cons,
    List.not_mem_nil, or_false] at hs
  rcases hs with rfl | rfl | rfl | rfl | rfl | rfl | rfl | rfl | rfl | rfl | rfl | rfl | rfl | rfl | rfl | rfl | rfl |
    rfl | rfl | rfl | rfl | rfl | rfl <;> rfl

/-- a string that is not one of the documented names: `ValueError('unknown solver')`, in every world, with any
second tuple entry -/
theorem unknown_name (w : World) (s : String) (h : C16.dispatch (.str s) = none) :
    ∃ e, cgs w (.str s) = .error e ∧ e.cls = "ValueError" := by
  have hs := not_mem_of_dispatch_none s h
  simp [allNames, C16.krylovNames, C16.relaxNames] at hs
  simp [cgs, multilevel_coarse_grid_solver, multilevel_coarse_grid_solver_unpack_arg, pyIsInst, PyVal.tyName,
    pyUnpack, pyIter, unpackAt, pyIn, pyEq, pyIsNone, isCallable, hs]
  exact ⟨_, rfl, rfl⟩

theorem unknown_name_pair (w : World) (s : String) (b : PyVal) (rest : List PyVal) (h : C16.dispatch (.str s) = none) :
    ∃ e, cgs w (.tuple (.str s :: b :: rest)) = .error e ∧ e.cls = "ValueError" := by
  have hs := not_mem_of_dispatch_none s h
  simp [allNames, C16.krylovNames, C16.relaxNames] at hs
  simp [cgs, multilevel_coarse_grid_solver, multilevel_coarse_grid_solver_unpack_arg, pyIsInst, PyVal.tyName,
    pyUnpack, pyIter, unpackAt, pyIn, pyEq, pyIsNone, isCallable, getItem2, pyGetItem, PyVal.int?, normIdx, hs]
  exact ⟨_, rfl, rfl⟩

/-- LINK (plain form, every string): `Generated.dispatch = C16.dispatch` -/
theorem str_refines (nc : List String) (s : String) :
    ((cgs (world nc) (.str s)).toOption.bind kindOf) = C16.dispatch (.str s) := by
  by_cases hs : s ∈ allNames
  · exact names_plain nc s hs
  · have hd := dispatch_none_of_not_mem s hs
    obtain ⟨e, he, _⟩ := unknown_name (world nc) s hd
    rw [he, hd]; rfl

/-- `None`: the solver that returns zero -/
theorem none_refines (w : World) : (cgs w .none).toOption.bind kindOf = some .noSolve := rfl

/-- a callable object: the pass-through closure -/
theorem obj_callable (w : World) (p : String) (hc : isCallable w (.obj p) = true) :
    (cgs w (.obj p)).toOption.bind kindOf = some .callable := by
  simp [cgs, multilevel_coarse_grid_solver, multilevel_coarse_grid_solver_unpack_arg, pyIsInst, PyVal.tyName,
    pyUnpack, pyIter, unpackAt, pyIn, pyEq, pyIsNone, hc]
  rfl

/-- an object that is not callable: `ValueError` -/
theorem obj_noncallable (w : World) (p : String) (hc : isCallable w (.obj p) = false) :
    ∃ e, cgs w (.obj p) = .error e ∧ e.cls = "ValueError" := by
  simp [cgs, multilevel_coarse_grid_solver, multilevel_coarse_grid_solver_unpack_arg, pyIsInst, PyVal.tyName,
    pyUnpack, pyIter, unpackAt, pyIn, pyEq, pyIsNone, hc]
  exact ⟨_, rfl, rfl⟩

/-- LINK (opaque objects): callable iff the model's `Arg.callable` -/
theorem obj_refines (nc : List String) (p : String) :
    ((cgs (world nc) (.obj p)).toOption.bind kindOf) = C16.dispatch (argOf nc (.obj p)) := by
  by_cases h : p ∈ nc
  · have hc : isCallable (world nc) (.obj p) = false := by simp [isCallable, world, PyamgV.ExtPy2W.coarseWorld, h]
    obtain ⟨e, he, _⟩ := obj_noncallable _ p hc
    rw [he]
    simp [argOf, h, C16.dispatch, Except.toOption]
  · have hc : isCallable (world nc) (.obj p) = true := by simp [isCallable, world, PyamgV.ExtPy2W.coarseWorld, h]
    rw [obj_callable _ p hc]
    simp [argOf, h, C16.dispatch]

/-- numbers, Booleans, lists, dictionaries: `ValueError` (`Arg.other`) -/
theorem other_raises (w : World) (v : PyVal)
    (hv : match v with | .bool _ | .int _ | .float _ | .list _ | .dict _ => True | _ => False) :
    ∃ e, cgs w v = .error e ∧ e.cls = "ValueError" := by
  cases v <;> simp at hv <;>
    simp [cgs, multilevel_coarse_grid_solver, multilevel_coarse_grid_solver_unpack_arg, pyIsInst, PyVal.tyName,
      pyUnpack, pyIter, unpackAt, pyIn, pyEq, pyIsNone, isCallable] <;>
    exact ⟨_, rfl, rfl⟩

/-- `(solver,)` and `()`: `unpack_arg` raises `IndexError` -/
theorem short_tuple_raises (w : World) (xs : List PyVal) (h : xs.length < 2) :
    ∃ e, cgs w (.tuple xs) = .error e ∧ e.cls = "IndexError" := by
  match xs, h with
  | [], _ =>
    simp [cgs, multilevel_coarse_grid_solver, multilevel_coarse_grid_solver_unpack_arg, pyIsInst, PyVal.tyName,
      getItem2, pyGetItem, PyVal.int?, normIdx, raise_def]
  | [a], _ =>
    simp [cgs, multilevel_coarse_grid_solver, multilevel_coarse_grid_solver_unpack_arg, pyIsInst, PyVal.tyName,
      getItem2, pyGetItem, PyVal.int?, normIdx, raise_def]

/-! ### the `(solver, kwargs)` form and the keyword handling -/

def directNames : List String := ["pinv", "pinv2", "lu", "cholesky", "splu"]

/-- direct and Krylov names: the kind is that of the name and the closure captures the caller's second tuple entry as
it is (whatever it is: it is only used as `**kwargs` inside `solve`) -/
theorem pair_direct_krylov (nc : List String) (b : PyVal) (rest : List PyVal) :
    ∀ s ∈ directNames ++ C16.krylovNames,
      ((cgs (world nc) (.tuple (.str s :: b :: rest))).toOption.bind kindOf) = C16.dispatch (.str s) ∧
      ((cgs (world nc) (.tuple (.str s :: b :: rest))).toOption.bind kwargsOf) = some b := by
  intro s hs
  simp only [directNames, C16.krylovNames, List.cons_append, List.nil_append, List.mem_cons,
    List.not_mem_nil, or_false] at hs
  rcases hs with rfl | rfl | rfl | rfl | rfl | rfl | rfl | rfl | rfl | rfl | rfl | rfl <;> exact ⟨rfl, rfl⟩

/-- `None` and callables in a tuple -/
theorem pair_none (w : World) (b : PyVal) (rest : List PyVal) :
    (cgs w (.tuple (.none :: b :: rest))).toOption.bind kindOf = some .noSolve := rfl

theorem pair_callable (w : World) (p : String) (b : PyVal) (rest : List PyVal) (hc : isCallable w (.obj p) = true) :
    ((cgs w (.tuple (.obj p :: b :: rest))).toOption.bind kindOf) = some .callable ∧
    ((cgs w (.tuple (.obj p :: b :: rest))).toOption.bind kwargsOf) = some b := by
  simp [cgs, multilevel_coarse_grid_solver, multilevel_coarse_grid_solver_unpack_arg, pyIsInst, PyVal.tyName,
    pyUnpack, pyIter, unpackAt, pyIn, pyEq, pyIsNone, getItem2, pyGetItem, PyVal.int?, normIdx, hc]
  exact ⟨rfl, rfl⟩

/-- `kwargs['iterations'] = 10` unless the caller gave `iterations` -/
def withIterations (kw : List (String × PyVal)) : List (String × PyVal) :=
  if kw.any (fun e => e.1 == "iterations") then kw else kw ++ [("iterations", .int 10)]

/-- relaxation names with a keyword dictionary: the kind is `relax name`, and the captured dictionary is the caller's
with `iterations` defaulting to 10 -/
theorem pair_relax (nc : List String) (kw : List (String × PyVal)) (rest : List PyVal) :
    ∀ s ∈ C16.relaxNames,
      ((cgs (world nc) (.tuple (.str s :: .dict kw :: rest))).toOption.bind kindOf) = some (.relax s) ∧
      ((cgs (world nc) (.tuple (.str s :: .dict kw :: rest))).toOption.bind kwargsOf) = some (.dict (withIterations kw)) := by
  intro s hs
  simp only [C16.relaxNames, List.mem_cons, List.not_mem_nil, or_false] at hs
  cases hk : kw.any (fun e => e.1 == "iterations") <;>
    rcases hs with rfl | rfl | rfl | rfl | rfl | rfl | rfl | rfl | rfl | rfl | rfl <;>
    · simp [cgs, multilevel_coarse_grid_solver, multilevel_coarse_grid_solver_unpack_arg, withIterations, dictInsert, hk]
      exact ⟨rfl, rfl⟩

/-- the plain form of a relaxation name: `{'iterations': 10}` -/
theorem plain_relax_kwargs (nc : List String) :
    ∀ s ∈ C16.relaxNames, ((cgs (world nc) (.str s)).toOption.bind kwargsOf) = some (.dict [("iterations", .int 10)]) := by
  intro s hs
  simp only [C16.relaxNames, List.mem_cons, List.not_mem_nil, or_false] at hs
  rcases hs with rfl | rfl | rfl | rfl | rfl | rfl | rfl | rfl | rfl | rfl | rfl <;> rfl

/-- a relaxation name with a second entry that is not a container: `'iterations' not in kwargs` raises `TypeError` -/
theorem pair_relax_bad_kwargs (w : World) (b : PyVal) (rest : List PyVal)
    (hb : match b with | .none | .bool _ | .int _ | .float _ | .obj _ => True | _ => False) :
    ∀ s ∈ C16.relaxNames, ∃ e, cgs w (.tuple (.str s :: b :: rest)) = .error e ∧ e.cls = "TypeError" := by
  intro s hs
  simp only [C16.relaxNames, List.mem_cons, List.not_mem_nil, or_false] at hs
  cases b <;> simp at hb <;>
    rcases hs with rfl | rfl | rfl | rfl | rfl | rfl | rfl | rfl | rfl | rfl | rfl <;>
    exact ⟨_, rfl, rfl⟩

/-- Krylov names: `pyamg.krylov` takes precedence (keyword `tol`), otherwise `scipy.sparse.linalg` (keyword `rtol`) -/
theorem krylov_source (nc : List String) :
    ∀ s ∈ C16.krylovNames,
      ((cgs (world nc) (.str s)).toOption.bind krylovOf) =
        some (if krylovHas.contains s then (.obj ("krylov." ++ s), .str "tol") else (.obj ("sla." ++ s), .str "rtol")) := by
  intro s hs
  simp only [C16.krylovNames, List.mem_cons, List.not_mem_nil, or_false] at hs
  rcases hs with rfl | rfl | rfl | rfl | rfl | rfl | rfl <;> rfl

/-- a Krylov name neither module has: `getattr` raises `AttributeError` (the closed world without `sla.qmr`) -/
example : ∃ e, cgs { heap := [("krylov", []), ("sla", [])], closed := ["krylov", "sla"] } (.str "qmr") = .error e
    ∧ e.cls = "AttributeError" := ⟨_, rfl, rfl⟩

end PyamgV.ExtPy2Coarse
