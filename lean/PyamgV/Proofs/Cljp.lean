/-! PyamgV (C13, CLJP cover): the argument as a transition system.

`cljp_naive_splitting` (ruge_stuben.h:578) only ever does four kinds of things to its state
(splitting flags, removed-edge marks, weights):

* select   — an unassigned node becomes C;
* removeP5 — for a C-point `c` and `j ∈ S_c` unassigned, edge (c,j) is removed  (weight[j]--);
* removeP6 — for a C-point `c`, `j` and `k` both depending on `c` and `j` depending on `k`,
             `k` unassigned, edge (j,k) is removed (weight[k]--);
* markF    — an unassigned node all of whose incoming dependence edges are removed becomes F
             (this is `weight < 1`, the weight being a fraction in [0,1) plus the number of
             unremoved incoming edges).

For every state reachable by these actions, in any order and any number, an F-point that depends
on some node depends on a C-point as soon as no node is unassigned. The kernel model refines
this system (each loop body is one action whose guard holds); that refinement is the
correspondence/proof obligation of the build round. Core Lean only. -/
namespace PyamgV.Cljp

inductive Flag | U | C | F
deriving DecidableEq

structure St where
  split : Nat → Flag
  rem : Nat → Nat → Prop

/-- `dep i j`: node `i` strongly depends on `j` (entry `j` in row `i` of `S`) -/
inductive Step (dep : Nat → Nat → Prop) : St → St → Prop
  | select (s : St) (c : Nat) (h : s.split c = .U) :
      Step dep s { s with split := fun v => if v = c then .C else s.split v }
  | removeP5 (s : St) (c j : Nat) (hc : s.split c = .C) (hd : dep c j) (hj : s.split j = .U) :
      Step dep s { s with rem := fun a b => s.rem a b ∨ (a = c ∧ b = j) }
  | removeP6 (s : St) (c j k : Nat) (hc : s.split c = .C) (hjc : dep j c) (hkc : dep k c)
      (hjk : dep j k) (hk : s.split k = .U) :
      Step dep s { s with rem := fun a b => s.rem a b ∨ (a = j ∧ b = k) }
  | markF (s : St) (m : Nat) (hm : s.split m = .U) (hall : ∀ i, dep i m → s.rem i m) :
      Step dep s { s with split := fun v => if v = m then .F else s.split v }

inductive Reach (dep : Nat → Nat → Prop) : St → Prop
  | init : Reach dep ⟨fun _ => .U, fun _ _ => False⟩
  | step {s t : St} : Reach dep s → Step dep s t → Reach dep t

structure Inv (dep : Nat → Nat → Prop) (s : St) : Prop where
  remOK : ∀ i m, s.rem i m → dep i m ∧ (s.split i = .C ∨ ∃ c, s.split c = .C ∧ dep i c)
  fOK : ∀ m, s.split m = .F → ∀ i, dep i m → s.rem i m

theorem step_inv {dep : Nat → Nat → Prop} {s t : St} (h : Inv dep s) (hs : Step dep s t) :
    Inv dep t := by
  cases hs with
  | select c hc =>
    refine ⟨?_, ?_⟩
    · intro i m hr
      obtain ⟨h1, h2⟩ := h.remOK i m hr
      refine ⟨h1, ?_⟩
      rcases h2 with h2 | ⟨c', h2, h3⟩
      · left; show (if i = c then Flag.C else s.split i) = Flag.C
        by_cases hic : i = c
        · rw [if_pos hic]
        · rw [if_neg hic]; exact h2
      · right
        refine ⟨c', ?_, h3⟩
        show (if c' = c then Flag.C else s.split c') = Flag.C
        by_cases hcc : c' = c
        · rw [if_pos hcc]
        · rw [if_neg hcc]; exact h2
    · intro m hm i hd
      have hm' : (if m = c then Flag.C else s.split m) = Flag.F := hm
      by_cases hmc : m = c
      · rw [if_pos hmc] at hm'; exact absurd hm' (by decide)
      · rw [if_neg hmc] at hm'; exact h.fOK m hm' i hd
  | removeP5 c j hc hd hj =>
    refine ⟨?_, ?_⟩
    · intro i m hr
      rcases hr with hr | ⟨rfl, rfl⟩
      · exact h.remOK i m hr
      · exact ⟨hd, Or.inl hc⟩
    · intro m hm i hdm
      exact Or.inl (h.fOK m hm i hdm)
  | removeP6 c j k hc hjc hkc hjk hk =>
    refine ⟨?_, ?_⟩
    · intro i m hr
      rcases hr with hr | ⟨rfl, rfl⟩
      · exact h.remOK i m hr
      · exact ⟨hjk, Or.inr ⟨c, hc, hjc⟩⟩
    · intro m hm i hdm
      exact Or.inl (h.fOK m hm i hdm)
  | markF m hm hall =>
    refine ⟨?_, ?_⟩
    · intro i m' hr
      obtain ⟨h1, h2⟩ := h.remOK i m' hr
      refine ⟨h1, ?_⟩
      rcases h2 with h2 | ⟨c', h2, h3⟩
      · left; show (if i = m then Flag.F else s.split i) = Flag.C
        by_cases him : i = m
        · rw [him, hm] at h2; exact absurd h2 (by decide)
        · rw [if_neg him]; exact h2
      · right
        refine ⟨c', ?_, h3⟩
        show (if c' = m then Flag.F else s.split c') = Flag.C
        by_cases hcm : c' = m
        · rw [hcm, hm] at h2; exact absurd h2 (by decide)
        · rw [if_neg hcm]; exact h2
    · intro m' hm' i hd
      have hm'' : (if m' = m then Flag.F else s.split m') = Flag.F := hm'
      by_cases hmm : m' = m
      · rw [hmm]; exact hall i (hmm ▸ hd)
      · rw [if_neg hmm] at hm''; exact h.fOK m' hm'' i hd

theorem reach_inv {dep : Nat → Nat → Prop} {s : St} (h : Reach dep s) : Inv dep s := by
  induction h with
  | init => exact ⟨fun _ _ hr => absurd hr id, fun m hm => by simp at hm⟩
  | step _ hs ih => exact step_inv ih hs

/-- **CLJP cover**: in a reachable state without unassigned nodes, every F-point that strongly
depends on some node strongly depends on a C-point. -/
theorem cljp_cover {dep : Nat → Nat → Prop} {s : St} (h : Reach dep s)
    (hnoU : ∀ v, s.split v ≠ .U) (k m : Nat) (hk : s.split k = .F) (hd : dep k m) :
    ∃ c, s.split c = .C ∧ dep k c := by
  have hI := reach_inv h
  cases hsm : s.split m with
  | U => exact absurd hsm (hnoU m)
  | C => exact ⟨m, hsm, hd⟩
  | F =>
    have hr := hI.fOK m hsm k hd
    rcases (hI.remOK k m hr).2 with h2 | h2
    · rw [hk] at h2; exact absurd h2 (by decide)
    · exact h2

#print axioms cljp_cover
end PyamgV.Cljp
