import PyamgV.Proofs.ExtC03YPoly
import PyamgV.Proofs.ExtC03YNE
import PyamgV.Proofs.ExtC03YNR
import PyamgV.Proofs.ExtC03YSchwarz
import PyamgV.Proofs.ExtC03YJac
import PyamgV.Proofs.ExtC03YBlock
import PyamgV.Proofs.ExtC03YBsr

/-! PyamgV (extension E55, C03): the property theorems for the scalar-polymorphic extended cycle model `cycY` / `solveY` / `precY` of
`Model/ExtC03YCyc.lean` over an ARBITRARY FIELD `𝕜` with an arbitrary conjugation `conj : 𝕜 → 𝕜` -- in particular over the
Gaussian rationals with `CRat.conj` (complex Hermitian and complex nonsymmetric hierarchies) and over `ℚ` with `id` -- the cycle
whose smoothers are the executed relaxation kernels on recorded data, now including the point smoothers of BSR levels and
CF / FC block Jacobi.

`Sm.opQ` is the operator of a recorded call, `sm_semLin` : every recorded call that is a call for the level matrix (`Sm.OK`,
decidable, evaluated by the driver) is the linear iteration `x + Q (b − A x)` of that matrix; hence `cycY_affine` (one cycle is
`x + M (b − A x)`, `M = MopY` the textbook composition), `cycY_fixed_point`, `cycY_iter_error`, `precY_eq`, `solveY_k_calls`.
No order is used anywhere: the affine structure is algebraic. -/
set_option linter.unusedSectionVars false
namespace PyamgV.C03Y
open PyamgV
open PyamgV.C03 (Cyc iterN)

variable {𝕜 : Type} [Field 𝕜] [DecidableEq 𝕜] (conj : 𝕜 → 𝕜)

/-- the operator `Q` of a recorded relaxation call (as a linear map on `ℕ → ℚ`) -/
noncomputable def Sm.opQ : Sm 𝕜 → (Fn 𝕜 →ₗ[𝕜] Fn 𝕜)
  | .mat Q => msem Q
  | .poly M cs it => Tn M.n ∘ₗ polyQ M cs it ∘ₗ Tn M.n
  | .bjac ω M Dinv it => Tn (M.nb * M.bs) ∘ₗ bjacQ ω M Dinv it ∘ₗ Tn (M.nb * M.bs)
  | .bgs M Dinv it sw => Tn (M.nb * M.bs) ∘ₗ bgsQ M Dinv it sw ∘ₗ Tn (M.nb * M.bs)
  | .jacne ω M it => Tn M.n ∘ₗ jacneQ conj ω M it ∘ₗ Tn M.n
  | .gsne ω M it sw => Tn M.n ∘ₗ gsneQ conj ω M it sw ∘ₗ Tn M.n
  | .gsnr ω M it sw => Tn M.n ∘ₗ gsnrQ conj ω M it sw ∘ₗ Tn M.n
  | .cfjac cf ω M C Fp it fIt cIt => Tn M.n ∘ₗ cfjacQ cf ω M C Fp it fIt cIt ∘ₗ Tn M.n
  | .schwarz M Tx Tp Sj Sp it sw => Tn M.n ∘ₗ schwarzQ M Tx Tp Sj Sp it sw ∘ₗ Tn M.n
  | .gs ω M it sw => Tn M.n ∘ₗ gsQ ω M it sw ∘ₗ Tn M.n
  | .jac ω M it => Tn M.n ∘ₗ jacQ ω M it ∘ₗ Tn M.n
  | .bsrgs ω M it sw => Tn (M.nb * M.bs) ∘ₗ bsrgsQ ω M it sw ∘ₗ Tn (M.nb * M.bs)
  | .bsrjac ω M it => Tn (M.nb * M.bs) ∘ₗ bsrjacQ ω M it ∘ₗ Tn (M.nb * M.bs)
  | .cfbjac cf ω M Dinv C Fp it fIt cIt => Tn (M.nb * M.bs) ∘ₗ cfbjacQ cf ω M Dinv C Fp it fIt cIt ∘ₗ Tn (M.nb * M.bs)

/-- **every recorded relaxation call for the level matrix `A` is the linear iteration `x ← x + Q (b − A x)`**:
polynomial / Chebyshev / Richardson, block Jacobi, block Gauss-Seidel, `jacobi_ne`, `gauss_seidel_ne`,
`gauss_seidel_nr`, CF / FC Jacobi, Schwarz, Gauss-Seidel / SOR, Jacobi, matrix smoothers -/
theorem sm_semLin (A : Mat 𝕜) (s : Sm 𝕜) (h : s.OK A) : SemLin A (applySm conj A s) (s.opQ conj) := by
  cases s with
  | mat Q => exact semLin_smooth A Q
  | poly M cs it =>
    obtain ⟨hA, hc, hcs⟩ := h
    subst hA
    exact poly_semLin M cs it hc hcs
  | bjac ω M Dinv it =>
    obtain ⟨hA, hc, hbs, hD, hL⟩ := h
    subst hA
    exact bjac_semLin ω M Dinv it hc hbs hD hL
  | bgs M Dinv it sw =>
    obtain ⟨hA, hc, hbs, hD, hL⟩ := h
    subst hA
    exact bgs_semLin M Dinv it sw hc hbs hD hL
  | jacne ω M it =>
    obtain ⟨hA, hc⟩ := h
    subst hA
    exact jacne_semLin conj ω M it hc
  | gsne ω M it sw =>
    obtain ⟨hA, hc⟩ := h
    subst hA
    exact gsne_semLin conj ω M it sw hc
  | gsnr ω M it sw =>
    obtain ⟨hA, _⟩ := h
    subst hA
    exact gsnr_semLin conj ω M it sw
  | cfjac cf ω M C Fp it fIt cIt =>
    obtain ⟨hA, hc, hd, hC, hF⟩ := h
    subst hA
    exact cfjac_semLin cf ω M C Fp it fIt cIt hc hd hC hF
  | schwarz M Tx Tp Sj Sp it sw =>
    obtain ⟨hA, hc, hs⟩ := h
    subst hA
    exact schwarz_semLin M Tx Tp Sj Sp it sw hc hs
  | gs ω M it sw =>
    obtain ⟨hA, hc, hd⟩ := h
    subst hA
    exact gs_semLin ω M it sw hc hd
  | jac ω M it =>
    obtain ⟨hA, hc, hd⟩ := h
    subst hA
    exact jac_semLin ω M it hc hd
  | bsrgs ω M it sw =>
    obtain ⟨hA, hbs, hc, hd⟩ := h
    subst hA
    exact bsrgs_semLin ω M it sw hbs hc hd
  | bsrjac ω M it =>
    obtain ⟨hA, hbs, hc, hd⟩ := h
    subst hA
    exact bsrjac_semLin ω M it hbs hc hd
  | cfbjac cf ω M Dinv C Fp it fIt cIt =>
    obtain ⟨hA, hc, hbs, hD, hL, hC, hF⟩ := h
    subst hA
    exact cfbjac_semLin cf ω M Dinv C Fp it fIt cIt hc hbs hD hL hC hF

/-- each added smoother, seen through `sem`, satisfies the `IsLinIter` hypothesis of the abstract cycle theorems -/
theorem sm_isLinIter (A : Mat 𝕜) (s : Sm 𝕜) :
    IsLinIter (msem A) (fun x b => x + s.opQ conj (b - msem A x)) (s.opQ conj) := fun _ _ => rfl

/-- the level with the operators of its recorded smoothers -/
noncomputable def LvlY.toQ (L : LvlY 𝕜) : LvlQ 𝕜 := ⟨L.toF conj, L.pre.opQ conj, L.post.opQ conj⟩

theorem LvlY.good (L : LvlY 𝕜) (h : L.OK) : (L.toQ conj).Good := ⟨sm_semLin conj L.A L.pre h.1, sm_semLin conj L.A L.post h.2⟩

/-- the abstract hierarchy denoted by recorded levels -/
noncomputable def absY (Ls : List (LvlY 𝕜)) : List (LinLevel 𝕜 (Fn 𝕜)) := (Ls.map (LvlY.toQ conj)).map LvlQ.abs

/-- **the textbook operator of the extended model**: pre-smoother, `P · Mc · R`, post-smoother, with the recorded
smoothers' operators (`MopL` of Proofs/C03Lin.lean; no Galerkin condition) -/
noncomputable def MopY (S : Mat 𝕜) (c : Cyc) (cpl : Nat) (Ls : List (LvlY 𝕜)) : Fn 𝕜 →ₗ[𝕜] Fn 𝕜 :=
  MopL (msem S) (ctype c cpl) (absY conj Ls)

theorem map_toQ_L (Ls : List (LvlY 𝕜)) : (Ls.map (LvlY.toQ conj)).map (·.L) = Ls.map (LvlY.toF conj) := by
  simp [List.map_map, LvlY.toQ, Function.comp_def]

/-- **refinement**: under `sem` the extended model is the abstract recursion `cyc` on the levels `absY` -/
theorem cycY_sem (S : Mat 𝕜) (c : Cyc) (cpl : Nat) (L : LvlY 𝕜) (Ls : List (LvlY 𝕜)) (h : AllOK (L :: Ls)) (x b : Vec 𝕜) :
    sem (cycY conj S c cpl (L :: Ls) x b) =
      cyc (fun v => msem S v) (ctype c cpl) ((absY conj (L :: Ls)).map (·.toLevel)) (sem x) (sem b) := by
  have hL : (L.toQ conj).Good := L.good conj (h L (by simp))
  have hLs : ∀ l ∈ Ls.map (LvlY.toQ conj), l.Good := by
    intro l hl
    obtain ⟨l', hl', rfl⟩ := List.mem_map.1 hl
    exact l'.good conj (h l' (by simp [hl']))
  have := cycF_sem S (Ls.map (LvlY.toQ conj)) hLs c cpl (L.toQ conj) hL x b
  rw [← List.map_cons, map_toQ_L, map_toLevelQ] at this
  exact this

/-- **one cycle of the extended model is `x ← x + M (b − A x)`**, `M = MopY` a function of the hierarchy data, the
recorded smoothers, the cycle type and `cycles_per_level` only -/
theorem cycY_affine (S : Mat 𝕜) (c : Cyc) (cpl : Nat) (L : LvlY 𝕜) (Ls : List (LvlY 𝕜)) (h : AllOK (L :: Ls)) (x b : Vec 𝕜) :
    sem (cycY conj S c cpl (L :: Ls) x b) =
      sem x + MopY conj S c cpl (L :: Ls) (sem b - msem L.A (sem x)) := by
  have hL : (L.toQ conj).Good := L.good conj (h L (by simp))
  have hLs : ∀ l ∈ Ls.map (LvlY.toQ conj), l.Good := by
    intro l hl
    obtain ⟨l', hl', rfl⟩ := List.mem_map.1 hl
    exact l'.good conj (h l' (by simp [hl']))
  have := cycF_affine S c cpl (L.toQ conj) (Ls.map (LvlY.toQ conj)) hL hLs x b
  rw [← List.map_cons, map_toQ_L] at this
  exact this

/-- the exact solution is a fixed point of every cycle of the extended model -/
theorem cycY_fixed_point (S : Mat 𝕜) (c : Cyc) (cpl : Nat) (L : LvlY 𝕜) (Ls : List (LvlY 𝕜)) (h : AllOK (L :: Ls))
    (xs b : Vec 𝕜) (hb : msem L.A (sem xs) = sem b) : sem (cycY conj S c cpl (L :: Ls) xs b) = sem xs := by
  rw [cycY_affine conj S c cpl L Ls h, hb]; simp

/-- a cycle from the zero guess applies `M` -/
theorem cycY_zero (S : Mat 𝕜) (c : Cyc) (cpl : Nat) (L : LvlY 𝕜) (Ls : List (LvlY 𝕜)) (h : AllOK (L :: Ls)) (n : Nat) (b : Vec 𝕜) :
    sem (cycY conj S c cpl (L :: Ls) (zeros n) b) = MopY conj S c cpl (L :: Ls) (sem b) := by
  rw [cycY_affine conj S c cpl L Ls h, sem_zeros]; simp

/-- `k` cycles propagate the error by `e ↦ e − M A e`, `k` times -/
theorem cycY_iter_error (S : Mat 𝕜) (c : Cyc) (cpl : Nat) (L : LvlY 𝕜) (Ls : List (LvlY 𝕜)) (h : AllOK (L :: Ls))
    (xs b : Vec 𝕜) (hb : msem L.A (sem xs) = sem b) (k : Nat) (x : Vec 𝕜) :
    sem xs - sem (iterN (fun x => cycY conj S c cpl (L :: Ls) x b) k x) =
      Nat.iterate (fun e => e - MopY conj S c cpl (L :: Ls) (msem L.A e)) k (sem xs - sem x) := by
  induction k generalizing x with
  | zero => rfl
  | succ k ih =>
    simp only [iterN, Nat.iterate]
    rw [ih, cycY_affine conj S c cpl L Ls h, ← hb]
    congr 1
    simp only [map_sub]
    abel

/-- **`aspreconditioner(cycle)` of the extended model is the linear map `M`** of the requested cycle type
(`cycles_per_level = 1`), whatever the tolerance test does -/
theorem precY_eq (S : Mat 𝕜) (c : Cyc) (L : LvlY 𝕜) (Ls : List (LvlY 𝕜)) (h : AllOK (L :: Ls)) (stop : Vec 𝕜 → Bool) (v : Vec 𝕜) :
    sem (precY conj S c (L :: Ls) stop v) = MopY conj S c 1 (L :: Ls) (sem v) := by
  simp only [precY, solveY, loopY_one, stepY]
  exact cycY_zero conj S c 1 L Ls h _ v

/-- `k` one-cycle calls equal one `k`-cycle call when the residual test of the latter does not fire early -/
theorem solveY_k_calls (S : Mat 𝕜) (c : Cyc) (cpl : Nat) (Ls : List (LvlY 𝕜)) (stop stop₁ : Vec 𝕜 → Bool)
    (b x0 : Vec 𝕜) (k : Nat)
    (hstop : ∀ j, 1 ≤ j → j ≤ k → stop (iterN (stepY conj S c cpl Ls b) j x0) = false) :
    iterN (fun x => solveY conj S c cpl Ls stop₁ 1 b x) (k + 1) x0 = solveY conj S c cpl Ls stop (k + 1) b x0 := by
  unfold solveY
  rw [loopY_eq_iterN _ _ k x0 hstop]
  exact iterN_congr _ _ (fun x => loopY_one _ _ x) _ _

end PyamgV.C03Y
