import PyamgV.Proofs.ExtC19TRestart

/-! PyamgV (C19, extension E52): the restart loop `asr` and `condestO` of `Model/ExtC19TCx.lean` commute with every
map `φ : V → W` that commutes with the vector operations (`asr_hom`, `condestO_hom`: purely structural); with
`toFn : Vector (Cx F) n → (Fin n → Cx F)` this carries `asr_spec` / `asr_estimate_le` to the `Vector` instance the
driver executes (`cvecAsr`, `cvec_asr_estimate_le`), and `asrCx_eq` ties the list-level function of the driver
(`asrCx`, binary64 in `asrCFloat`) to it. -/
set_option linter.unusedSectionVars false
namespace PyamgV.C19T
open PyamgV.C07 PyamgV.CHerm PyamgV.C19S PyamgV.C07.CH

section hom
variable {K V W : Type} [Add K] [Sub K] [Mul K] [Div K] [Neg K] [OfNat K 0] [OfNat K 1] [OfNat K 2]
variable (φ : V → W) (ov : Ops K V) (ow : Ops K W) (H : OpsHom φ ov ow)
variable (dv : V → K → V) (dw : W → K → W) (Hd : ∀ v c, φ (dv v c) = dw (φ v) c)

/-- a pass carried over -/
def mapCyc (c : Cyc K V) : Cyc K W := ⟨mapAe φ c.st, c.idx, c.theta, c.y, c.err, φ c.next, c.conv⟩

include H Hd

theorem rvO_hom (ys : List K) (vs : List V) : rvO ow ys (vs.map φ) = (rvO ov ys vs).map φ := by
  cases ys with
  | nil => rfl
  | cons y ys =>
    cases vs with
    | nil => rfl
    | cons v vs =>
      simp only [rvO, List.map_cons, Option.map_some]
      rw [combO_hom φ ov ow H, H.smul]

theorem asrCycle_hom (sqrt : K → K) (lt : K → K → Bool) (isz : K → Bool) (conj absf : K → K)
    (brkTol tol vtolSq tieTol : K) (n maxiter : Nat) (v0 : V) (ev : List K) (evect : List (List K)) (hint : Option Nat) :
    asrCycle ow dw sqrt lt isz conj absf brkTol tol vtolSq tieTol n maxiter (φ v0) ev evect hint
      = (asrCycle ov dv sqrt lt isz conj absf brkTol tol vtolSq tieTol n maxiter v0 ev evect hint).map (mapCyc φ) := by
  unfold asrCycle
  rw [approxEig_eq_run, approxEig_eq_run]
  by_cases hm : min n maxiter = 0
  · rw [if_pos hm, if_pos hm]; rfl
  · rw [if_neg hm, if_neg hm]
    rw [← aeRun_hom φ ov ow H dv dw Hd sqrt lt isz brkTol false v0 (min n maxiter)]
    generalize aeRun ov dv sqrt lt isz brkTol false v0 (min n maxiter) = s
    have hc : (mapAe φ s).cols = s.cols := rfl
    have hv : (mapAe φ s).vs = s.vs.map φ := rfl
    simp only [hc, hv]
    by_cases h1 : ev.length ≠ s.cols.length
    · rw [if_pos h1, if_pos h1]; rfl
    · rw [if_neg h1, if_neg h1]
      by_cases h2 : (!eigAllOk conj lt vtolSq s.cols s.cols.length ev evect) = true
      · rw [if_pos h2, if_pos h2]; rfl
      · rw [if_neg h2, if_neg h2]
        cases pickIdx lt absf tieTol ev hint with
        | none => rfl
        | some idx =>
          simp only
          rw [← List.map_dropLast, rvO_hom φ ov ow H dv dw Hd]
          cases rvO ov (evect.getD idx []) s.vs.dropLast with
          | none => rfl
          | some nx => rfl

theorem asrLoop_hom (sqrt : K → K) (lt : K → K → Bool) (isz : K → Bool) (conj absf : K → K)
    (brkTol tol vtolSq tieTol : K) (n maxiter : Nat) :
    ∀ (f : Nat) (v0 : V) (oracle : List (List K × List (List K) × Option Nat)) (acc : List (Cyc K V)),
    asrLoop ow dw sqrt lt isz conj absf brkTol tol vtolSq tieTol n maxiter f (φ v0) oracle (acc.map (mapCyc φ))
      = (asrLoop ov dv sqrt lt isz conj absf brkTol tol vtolSq tieTol n maxiter f v0 oracle acc).map
          (List.map (mapCyc φ))
  | 0, _, _, _ => rfl
  | _+1, _, [], _ => rfl
  | f+1, v0, (ev, evect, hint) :: rest, acc => by
    simp only [asrLoop]
    rw [asrCycle_hom φ ov ow H dv dw Hd]
    cases asrCycle ov dv sqrt lt isz conj absf brkTol tol vtolSq tieTol n maxiter v0 ev evect hint with
    | error e => rfl
    | ok c =>
      simp only [Except.map]
      have h1 : (mapCyc φ c).conv = c.conv := rfl
      have h2 : (mapCyc φ c).st.brk = c.st.brk := rfl
      have h3 : (mapCyc φ c).next = φ c.next := rfl
      have h4 : acc.map (mapCyc φ) ++ [mapCyc φ c] = (acc ++ [c]).map (mapCyc φ) := by simp
      rw [h1, h2, h3, h4]
      by_cases hs : (c.conv || c.st.brk) = true
      · rw [if_pos hs, if_pos hs]
      · rw [if_neg hs, if_neg hs]
        exact asrLoop_hom sqrt lt isz conj absf brkTol tol vtolSq tieTol n maxiter f c.next rest (acc ++ [c])

/-- **the restart loop commutes with homomorphisms of the vector operations** -/
theorem asr_hom (sqrt : K → K) (lt : K → K → Bool) (isz : K → Bool) (conj absf : K → K)
    (brkTol tol vtolSq tieTol : K) (n maxiter restart : Nat) (v0 : V)
    (oracle : List (List K × List (List K) × Option Nat)) :
    asr ow dw sqrt lt isz conj absf brkTol tol vtolSq tieTol n maxiter restart (φ v0) oracle
      = (asr ov dv sqrt lt isz conj absf brkTol tol vtolSq tieTol n maxiter restart v0 oracle).map
          (List.map (mapCyc φ)) :=
  asrLoop_hom φ ov ow H dv dw Hd sqrt lt isz conj absf brkTol tol vtolSq tieTol n maxiter (restart + 1) v0 oracle []

end hom

/-! ### the `Vector (Cx F) n` instance -/
section vec
variable {F : Type} [Field F] [LinearOrder F] [IsStrictOrderedRing F]
variable {n : Nat} (Am : Vector (Vector (Cx F) n) n) (sqrt : F → F) (t : F)

/-- the restart loop the driver executes (over `F` instead of binary64, verification tolerance zero) -/
abbrev cvecAsr (tol tieTol : Cx F) (maxiter restart : Nat) (v0 : Vector (Cx F) n)
    (oracle : List (List (Cx F) × List (List (Cx F)) × Option Nat)) :
    Except String (List (Cyc (Cx F) (Vector (Cx F) n))) :=
  asr (cvOps Am) cvDiv (Cx.sqrtC sqrt) (Cx.ltC ltF) (Cx.iszC iszF) Cx.conj (Cx.absC sqrt) (Cx.ofRe t) tol 0 tieTol n
    maxiter restart v0 oracle

/-- the list-level function the driver calls is that loop, once the arguments have passed the checks of
`approximate_spectral_radius` -/
theorem asrCx_eq (realA : Bool) (A : List (List (Cx F))) (tol tieTol : Cx F) (maxiter restart : Int)
    (guess : List (Cx F)) (oracle : List (List (Cx F) × List (List (Cx F)) × Option Nat))
    (A' : Vector (Vector (Cx F) A.length) A.length) (v0' : Vector (Cx F) A.length)
    (hA : toMat? A.length A = some A') (hv : toVec? A.length (guess.map (castRe realA)) = some v0')
    (hm : 1 ≤ maxiter) (hr : 0 ≤ restart) (hsq : A.any (·.length ≠ A.length) = false) (hg : guess.length = A.length) :
    asrCx sqrt ltF iszF realA A (Cx.ofRe t) tol 0 tieTol maxiter restart guess oracle =
      match cvecAsr A' sqrt t tol tieTol maxiter.toNat restart.toNat v0' oracle with
      | .error e => .error e
      | .ok cs => .ok (cs.map fun c => ⟨c.st.brk, c.st.vs.map (·.toList), c.st.cols, c.idx, c.theta, c.err,
          c.next.toList, c.conv⟩) := by
  have h1 : ¬ maxiter < 1 := by omega
  have h2 : ¬ restart < 0 := by omega
  have h3 : ¬ guess.length ≠ A.length := by simpa using hg
  simp only [asrCx, asrVec, h1, h2, h3, hsq, if_false, hA, hv, Bool.false_eq_true]
  have key : asr (vecOps Cx.conj A' A') (fun v c => Vector.map (fun x => x / c) v) (Cx.sqrtC sqrt) (Cx.ltC ltF) (Cx.iszC iszF)
      Cx.conj (Cx.absC sqrt) (Cx.ofRe t) tol 0 tieTol A.length maxiter.toNat restart.toNat v0' oracle
      = cvecAsr A' sqrt t tol tieTol maxiter.toNat restart.toNat v0' oracle := rfl
  rw [key]
  generalize cvecAsr A' sqrt t tol tieTol maxiter.toNat restart.toNat v0' oracle = r
  cases r <;> rfl

/-- **the restart loop on `Vector`s, exact arithmetic**: at least one and at most `restart + 1` passes; every `theta`
is an eigenvalue of the leading block of the `H` of a Krylov run `cvecRun` from a start vector `!= 0`; for a Hermitian
matrix with `|x^H A x| <= rho x^H x` every `|theta|` -- in particular the returned value -- is `<= rho` -/
theorem cvec_asr_estimate_le (hsq : ∀ a, 0 ≤ a → sqrt a * sqrt a = a) (hs0 : ∀ a, 0 ≤ sqrt a) (htol : 0 < t)
    (hA : IsHerm Am) (ρ : F) (hray : ∀ x, |(cdot n x (linOf Am x)).re| ≤ ρ * (cdot n x x).re)
    (tol tieTol : Cx F) (maxiter restart : Nat) (v0 : Vector (Cx F) n) (hv0 : toFn v0 ≠ 0)
    (oracle : List (List (Cx F) × List (List (Cx F)) × Option Nat)) (cs : List (Cyc (Cx F) (Vector (Cx F) n)))
    (h : cvecAsr Am sqrt t tol tieTol maxiter restart v0 oracle = .ok cs) :
    1 ≤ cs.length ∧ cs.length ≤ restart + 1 ∧
    (∀ c ∈ cs, (∃ w : Vector (Cx F) n, toFn w ≠ 0 ∧ c.st.cols = (cvecRun Am sqrt t false w (min n maxiter)).cols ∧
        ArnF.IsRitz c.st.cols.length (hEntry c.st.cols) c.theta (fun i => c.y.getD i 0)) ∧
      c.theta.im = 0 ∧ |c.theta.re| ≤ ρ ∧ (Cx.absC sqrt c.theta).re ≤ ρ) ∧
    ∃ r, asrRho (Cx.absC sqrt) cs = some r ∧ r.re ≤ ρ ∧ r.im = 0 := by
  have hx0 : ∀ w : Fin n → Cx F, w ≠ 0 → ExactC (dotH (cxRe (F := F)) n) sqrt t w :=
    fun w hw => ⟨dotH_def cxRe, fun _ => rfl, hsq, htol, hw⟩
  have hhom := asr_hom toFn (cvOps Am) (cmOps Am) (cvOps_hom Am) cvDiv mDiv cvDiv_hom (Cx.sqrtC sqrt) (Cx.ltC ltF)
    (Cx.iszC iszF) Cx.conj (Cx.absC sqrt) (Cx.ofRe t) tol 0 tieTol n maxiter restart v0 oracle
  have h' : asr (cvOps Am) cvDiv (Cx.sqrtC sqrt) (Cx.ltC ltF) (Cx.iszC iszF) Cx.conj (Cx.absC sqrt) (Cx.ofRe t) tol 0
      tieTol n maxiter restart v0 oracle = .ok cs := h
  rw [h'] at hhom
  simp only [Except.map] at hhom
  have hA' := linOf_herm (cxRe (F := F)) hA
  obtain ⟨s1, s2, hch⟩ := asr_spec (linOf Am) (linOf (vctrans star Am)) (linOf Am) hx0 tol tieTol n maxiter restart (toFn v0) hv0
    oracle _ hhom
  obtain ⟨e1, r, e2, e3, e4⟩ := asr_estimate_le (linOf Am) (linOf (vctrans star Am)) (linOf Am) hx0 hs0 hA' ρ hray
    tol tieTol n maxiter restart (toFn v0) hv0 oracle _ hhom
  rw [List.length_map] at s1 s2
  refine ⟨s1, s2, ?_, ?_⟩
  · intro c hc
    have hmem : mapCyc toFn c ∈ cs.map (mapCyc toFn) := List.mem_map_of_mem hc
    obtain ⟨w, hw⟩ := hch.all.2 _ hmem
    refine ⟨?_, e1 _ hmem⟩
    -- the start vector of the pass, as a `Vector`
    have hsurj : ∃ w' : Vector (Cx F) n, toFn w' = w := ⟨Vector.ofFn w, by funext i; simp [toFn]⟩
    obtain ⟨w', hw'⟩ := hsurj
    refine ⟨w', by rw [hw']; exact hw.start_ne, ?_, hw.ritz⟩
    have hrun : (mapCyc toFn c).st = cmodRun Am sqrt t w' (min n maxiter) := by rw [hw.run, cmodRun, hw']
    have hcols := (cvecRun_cols Am sqrt t w' (min n maxiter)).1
    rw [hcols, ← hrun]
    rfl
  · unfold asrRho at e2 ⊢
    rw [List.getLast?_map] at e2
    cases hl : cs.getLast? with
    | none => rw [hl] at e2; simp at e2
    | some c =>
      rw [hl] at e2
      simp only [Option.map_some, Option.some.injEq] at e2
      exact ⟨_, rfl, by rw [← e2] at e3; exact e3, rfl⟩

end vec

#print axioms asr_hom
#print axioms asrCx_eq
#print axioms cvec_asr_estimate_le
end PyamgV.C19T
