import PyamgV.Proofs.ExtC11RefineClassical

/-! PyamgV (C11, extension E6): the weights the array model `C11M.classicalPass2` stores are the
guarded proof-side rows `cOptRow` (unmodified) / `cOptRowM` (modified) of
Proofs/ExtC11RefineClassical.lean, and the final refinement theorems
`classicalPass2_refines` / `classicalPass2_refines_modified`. -/
namespace PyamgV.C11X
open PyamgV.N PyamgV.C11 PyamgV.C11M

/-! ### searches and sums of the model in proof-side terms -/

theorem entry_eq_lookup (A : Csr) (k j : Nat) : entry A k j = Classical.lookup (rowOf A k) j := by
  unfold entry Classical.lookup rowOf
  rw [List.find?_map]
  cases h : (A.jjs k).find? (fun s => rdN A.aj s == j) with
  | none =>
    have : List.find? ((fun (cv : Nat × Rat) => cv.1 == j) ∘ fun jj => (rdN A.aj jj, rdQ A.ax jj)) (A.jjs k) = none := h
    rw [this]; rfl
  | some s =>
    have : List.find? ((fun (cv : Nat × Rat) => cv.1 == j) ∘ fun jj => (rdN A.aj jj, rdQ A.ax jj)) (A.jjs k) = some s := h
    rw [this]; rfl

theorem searchRow_false (A : Csr) (k j : Nat) : searchRow false A k j = (entry A k j, 0) := by
  unfold searchRow entry
  simp only [Bool.false_eq_true, if_false]
  cases (A.jjs k).find? (fun s => rdN A.aj s == j) <;> rfl

theorem mAkj_false (A : Csr) (k j : Nat) : mAkj false A k j = Classical.lookup (rowOf A k) j := by
  unfold mAkj
  rw [searchRow_false, ← entry_eq_lookup]
  simp

theorem foldl_sub_filter (l : List Nat) (c : Nat → Nat) (v : Nat → Rat) (i : Nat) (a : Rat) :
    l.foldl (fun d mm => if c mm ≠ i then d - v mm else d) a =
      a - (((l.map (fun jj => (c jj, v jj))).filter (fun cv => decide (cv.1 ≠ i))).map (·.2)).sum := by
  induction l generalizing a with
  | nil => simp
  | cons x rest ih =>
    simp only [List.foldl_cons, List.map_cons, List.filter_cons]
    rw [ih]
    by_cases h : c x = i
    · simp [h]
    · simp only [ne_eq, h, not_false_eq_true, if_true, decide_true, List.map_cons, List.sum_cons]
      ring

theorem cDen_eq (A S : Csr) (i : Nat) : cDen A S i = Classical.denom i (rowOf A i) (rowOf S i) := by
  unfold cDen Classical.denom Classical.rsum rowOf
  rw [foldl_sub_filter, foldl_add_eq_sum]
  simp [List.map_map, Function.comp_def]

/-- inner denominator, unmodified -/
theorem innerDen_false (A S : Csr) (split : Array Int) (i k : Nat) (akk : Rat) :
    innerDen false A S split i k akk = Classical.inner (isC split) (rowOf S i) (rowOf A k) := by
  unfold Classical.inner Classical.strongC
  have h1 : innerDen false A S split i k akk = (S.jjs i).foldl (fun (acc : Rat) ll =>
      if isC split (rdN S.aj ll) = true then
        match (A.jjs k).find? (fun s => rdN A.aj s == rdN S.aj ll) with
        | some s => if (!false || decide (signof (rdQ A.ax s) ≠ signof akk)) = true then acc + rdQ A.ax s else acc
        | none => acc
      else acc) 0 := rfl
  have hstep : (fun (acc : Rat) ll =>
      if isC split (rdN S.aj ll) = true then
        match (A.jjs k).find? (fun s => rdN A.aj s == rdN S.aj ll) with
        | some s => if (!false || decide (signof (rdQ A.ax s) ≠ signof akk)) = true then acc + rdQ A.ax s else acc
        | none => acc
      else acc) =
      (fun (acc : Rat) ll => if (fun ll => isC split (rdN S.aj ll)) ll = true then
        (fun acc ll => acc + entry A k (rdN S.aj ll)) acc ll else acc) := by
    funext acc ll
    by_cases hC : isC split (rdN S.aj ll) = true
    · simp only [hC, if_true]
      unfold entry
      cases (A.jjs k).find? (fun s => rdN A.aj s == rdN S.aj ll) <;> simp
    · simp only [hC, Bool.false_eq_true, if_false]
  rw [h1, hstep, foldl_filter_eq, foldl_add_eq_sum]
  unfold rowOf
  rw [List.filter_map, List.map_map]
  simp only [Function.comp_def, zero_add, entry_eq_lookup]
  rfl

/-- inner denominator, modified -/
theorem innerDen_true (A S : Csr) (split : Array Int) (i k : Nat) (akk : Rat) :
    innerDen true A S split i k akk = Classical.innerM (isC split) (rowOf S i) (rowOf A k) akk := by
  unfold Classical.innerM Classical.strongC
  have h1 : innerDen true A S split i k akk = (S.jjs i).foldl (fun (acc : Rat) ll =>
      if isC split (rdN S.aj ll) = true then
        match (A.jjs k).find? (fun s => rdN A.aj s == rdN S.aj ll) with
        | some s => if (!true || decide (signof (rdQ A.ax s) ≠ signof akk)) = true then acc + rdQ A.ax s else acc
        | none => acc
      else acc) 0 := rfl
  have hstep : (fun (acc : Rat) ll =>
      if isC split (rdN S.aj ll) = true then
        match (A.jjs k).find? (fun s => rdN A.aj s == rdN S.aj ll) with
        | some s => if (!true || decide (signof (rdQ A.ax s) ≠ signof akk)) = true then acc + rdQ A.ax s else acc
        | none => acc
      else acc) =
      (fun (acc : Rat) ll => if (fun ll => isC split (rdN S.aj ll)) ll = true then
        (fun acc ll => acc + (if Classical.signof (entry A k (rdN S.aj ll)) ≠ Classical.signof akk
          then entry A k (rdN S.aj ll) else 0)) acc ll else acc) := by
    funext acc ll
    by_cases hC : isC split (rdN S.aj ll) = true
    · simp only [hC, if_true]
      unfold entry
      cases (A.jjs k).find? (fun s => rdN A.aj s == rdN S.aj ll) with
      | none => simp
      | some s =>
        simp only [Bool.not_true, Bool.false_or, decide_eq_true_eq]
        by_cases hs : signof (rdQ A.ax s) ≠ signof akk
        · have hs' : Classical.signof (rdQ A.ax s) ≠ Classical.signof akk := hs
          rw [if_pos hs, if_pos hs']
        · have hs' : ¬ Classical.signof (rdQ A.ax s) ≠ Classical.signof akk := hs
          rw [if_neg hs, if_neg hs']; simp
    · simp only [hC, Bool.false_eq_true, if_false]
  rw [h1, hstep, foldl_filter_eq, foldl_add_eq_sum]
  unfold rowOf
  rw [List.filter_map, List.map_map]
  simp only [Function.comp_def, zero_add, entry_eq_lookup]
  rfl

/-- the two searches of the modified kernel (no `break`): last matches of `j` and of `k ≠ j` -/
theorem searchRow_true (A : Csr) (k j : Nat) (hjk : j ≠ k) :
    searchRow true A k j =
      (Classical.lookupLast (rowOf A k) j, Classical.lookupLast (rowOf A k) k) := by
  unfold searchRow Classical.lookupLast rowOf
  simp only [if_true]
  rw [List.foldl_map, List.foldl_map]
  generalize (0 : Rat) = a
  have : ∀ (l : List Nat) (a b : Rat),
      l.foldl (fun (t : Rat × Rat) s =>
        if rdN A.aj s = j then (rdQ A.ax s, t.2) else if rdN A.aj s = k then (t.1, rdQ A.ax s) else t) (a, b) =
      (l.foldl (fun acc s => if rdN A.aj s = j then rdQ A.ax s else acc) a,
       l.foldl (fun acc s => if rdN A.aj s = k then rdQ A.ax s else acc) b) := by
    intro l
    induction l with
    | nil => intro a b; rfl
    | cons x rest ih =>
      intro a b
      simp only [List.foldl_cons]
      by_cases h1 : rdN A.aj x = j
      · have h2 : ¬ rdN A.aj x = k := fun h => hjk (h1.symm.trans h)
        simp only [if_pos h1, if_neg h2]
        rw [ih]
      · by_cases h2 : rdN A.aj x = k
        · simp only [if_neg h1, if_pos h2]
          rw [ih]
        · simp only [if_neg h1, if_neg h2]
          rw [ih]
  exact this (A.jjs k) a a

theorem mAkj_true (A : Csr) (k j : Nat) (hjk : j ≠ k) : mAkj true A k j = akjM (rowOf A) k j := by
  unfold mAkj akjM
  rw [searchRow_true A k j hjk]
  simp only [true_and]
  rfl

/-! ### the strong sets -/

theorem cC_map (S : Csr) (split : Array Int) (i : Nat) :
    ((S.jjs i).filter (fun jj => isC split (rdN S.aj jj))).map (fun jj => (rdN S.aj jj, rdQ S.ax jj)) =
      Classical.strongC (isC split) (rowOf S i) := by
  unfold Classical.strongC rowOf
  rw [List.filter_map]
  rfl

theorem cF_map (S : Csr) (split : Array Int) (n : Nat) (hv : Valid split n) (i : Nat)
    (hcols : ∀ jj ∈ S.jjs i, rdN S.aj jj < n) :
    (cF S split i).map (fun jj => (rdN S.aj jj, rdQ S.ax jj)) =
      Classical.strongF (isC split) i (rowOf S i) := by
  unfold Classical.strongF rowOf cF
  rw [List.filter_map]
  congr 1
  apply List.filter_congr
  intro jj hjj
  rw [isF_eq_not_isC split n hv (hcols jj hjj)]
  simp only [Function.comp_def]
  by_cases hC : isC split (rdN S.aj jj) = true
  · simp [hC]
  · have hC' : isC split (rdN S.aj jj) = false := by simpa using hC
    by_cases h : rdN S.aj jj = i <;> simp [hC', h]

/-! ### the stored row is the guarded proof-side row -/

theorem any_congr_mem {γ : Type} (l : List γ) (f g : γ → Bool) (h : ∀ x ∈ l, f x = g x) :
    l.any f = l.any g := by
  induction l with
  | nil => rfl
  | cons a rest ih =>
    simp only [List.any_cons]
    rw [h a (by simp), ih (fun x hx => h x (by simp [hx]))]

/-- generic form: whenever the kernel's `a_kj` and inner denominators are given by `akj`, `inn` on
(strong F-neighbour, strong C-column) pairs -/
theorem cModelRow_gen (eps : Rat) (modified : Bool) (A S : Csr) (split : Array Int) (hv : Valid split A.n)
    {i : Nat} (hcols : ∀ jj ∈ S.jjs i, rdN S.aj jj < A.n) (hF : isC split i = false)
    (akj : Nat → Nat → Rat) (inn : Nat → Rat)
    (hak : ∀ kk ∈ cF S split i, ∀ jj ∈ S.jjs i, isC split (rdN S.aj jj) = true →
      mAkj modified A (rdN S.aj kk) (rdN S.aj jj) = akj (rdN S.aj kk) (rdN S.aj jj) ∧
      mInn modified A S split i (rdN S.aj kk) (rdN S.aj jj) = inn (rdN S.aj kk)) :
    cModelRow eps modified A S split i =
      (gOptRow eps (Classical.denom i (rowOf A i) (rowOf S i)) (Classical.strongC (isC split) (rowOf S i))
        (Classical.strongF (isC split) i (rowOf S i)) akj inn).map (fun cv => (Int.ofNat cv.1, cv.2)) := by
  unfold cModelRow gOptRow
  rw [if_neg (by rw [hF]; simp), ← cC_map, ← cF_map S split A.n hv i hcols, ← cDen_eq]
  simp only [List.map_map, Function.comp_def]
  apply List.map_congr_left
  intro jj hjj
  obtain ⟨hjj1, hjj2⟩ := List.mem_filter.1 hjj
  congr 1
  rw [cWLit_eq]
  unfold gBad
  have hany : (cF S split i).any (fun kk => decide (cTest eps modified A S (rdN S.aj jj) kk) &&
        decide (mInn modified A S split i (rdN S.aj kk) (rdN S.aj jj) = 0)) =
      (cF S split i).any (fun kk => decide (|akj (rdN S.aj kk) (rdN S.aj jj)| > eps * |rdQ S.ax kk|) &&
        decide (inn (rdN S.aj kk) = 0)) := by
    apply any_congr_mem
    intro kk hkk
    obtain ⟨e1, e2⟩ := hak kk hkk jj hjj1 hjj2
    simp only [cTest, e1, e2, absQ_eq_abs]
  have hsum : (cF S split i).map (fun kk =>
        if cTest eps modified A S (rdN S.aj jj) kk then
          rdQ S.ax kk * mAkj modified A (rdN S.aj kk) (rdN S.aj jj) /
            mInn modified A S split i (rdN S.aj kk) (rdN S.aj jj)
        else 0) =
      (cF S split i).map (fun kk =>
        if |akj (rdN S.aj kk) (rdN S.aj jj)| > eps * |rdQ S.ax kk| then
          rdQ S.ax kk * akj (rdN S.aj kk) (rdN S.aj jj) / inn (rdN S.aj kk)
        else 0) := by
    apply List.map_congr_left
    intro kk hkk
    obtain ⟨e1, e2⟩ := hak kk hkk jj hjj1 hjj2
    simp only [cTest, e1, e2, absQ_eq_abs]
  rw [hany, hsum]
  by_cases hd : cDen A S i = 0
  · simp [hd]
  · simp only [hd, if_false, decide_false, Bool.false_or, List.any_map, Function.comp_def]

theorem isC_isF_ne (split : Array Int) {j k : Nat} (hj : isC split j = true) (hk : isF split k = true) :
    j ≠ k := by
  intro h
  subst h
  unfold isC at hj
  unfold isF at hk
  simp only [beq_iff_eq] at hj hk
  omega

theorem mem_cF (S : Csr) (split : Array Int) (i kk : Nat) (h : kk ∈ cF S split i) :
    isF split (rdN S.aj kk) = true := by
  unfold cF at h
  have := (List.mem_filter.1 h).2
  simp only [decide_eq_true_eq] at this
  exact this.1

theorem cModelRow_unmod (eps : Rat) (A S : Csr) (split : Array Int) (hv : Valid split A.n)
    {i : Nat} (hcols : ∀ jj ∈ S.jjs i, rdN S.aj jj < A.n) (hF : isC split i = false) :
    cModelRow eps false A S split i =
      (cOptRow eps (isC split) i (rowOf S i) (rowOf A)).map (fun cv => (Int.ofNat cv.1, cv.2)) := by
  unfold cOptRow
  apply cModelRow_gen eps false A S split hv hcols hF
  intro kk _ jj _ _
  refine ⟨mAkj_false A _ _, ?_⟩
  unfold mInn
  exact innerDen_false A S split i _ _

theorem cModelRow_mod (eps : Rat) (A S : Csr) (split : Array Int) (hv : Valid split A.n)
    {i : Nat} (hcols : ∀ jj ∈ S.jjs i, rdN S.aj jj < A.n) (hF : isC split i = false) :
    cModelRow eps true A S split i =
      (cOptRowM eps (isC split) i (rowOf S i) (rowOf A)).map (fun cv => (Int.ofNat cv.1, cv.2)) := by
  unfold cOptRowM
  apply cModelRow_gen eps true A S split hv hcols hF
  intro kk hkk jj _ hjC
  have hne : rdN S.aj jj ≠ rdN S.aj kk := isC_isF_ne split hjC (mem_cF S split i kk hkk)
  refine ⟨mAkj_true A _ _ hne, ?_⟩
  unfold mInn
  rw [searchRow_true A _ _ hne]
  exact innerDen_true A S split i _ _

/-! ### whole operators -/

/-- rows of the guarded unmodified operator (coarse columns as the kernel's integers) -/
def classicalPOptRow (eps : Rat) (isC : Nat → Bool) (A S : Nat → Classical.Row Rat) (i : Nat) :
    List (Int × Option Rat) :=
  if isC i then [((cidx isC i : Int), some 1)]
  else (cOptRow eps isC i (S i) A).map (fun cv => ((cidx isC cv.1 : Int), cv.2))

/-- rows of the guarded modified operator on the strength matrix `S'` handed to pass 2 (i.e. after
`remove_strong_FF_connections` + `eliminate_zeros`) -/
def classicalModPOptRow (eps : Rat) (isC : Nat → Bool) (A S' : Nat → Classical.Row Rat) (i : Nat) :
    List (Int × Option Rat) :=
  if isC i then [((cidx isC i : Int), some 1)]
  else (cOptRowM eps isC i (S' i) A).map (fun cv => ((cidx isC cv.1 : Int), cv.2))

theorem renum_row (n : Nat) (split : Array Int) (hv : Valid split n) (r : List (Nat × Option Rat))
    (h : ∀ cv ∈ r, cv.1 < n) :
    (r.map (fun cv => (Int.ofNat cv.1, cv.2))).map (fun cv => (cRenum n split cv.1, cv.2)) =
      r.map (fun cv => ((cidx (isC split) cv.1 : Int), cv.2)) := by
  rw [List.map_map]
  apply List.map_congr_left
  intro cv hcv
  simp only [Function.comp_def]
  rw [cRenum_ofNat n split hv (h cv hcv)]

theorem gOptRow_cols (eps den : Rat) (stC stF : Classical.Row Rat) (akj : Nat → Nat → Rat) (inn : Nat → Rat)
    (cv : Nat × Option Rat) (h : cv ∈ gOptRow eps den stC stF akj inn) : ∃ c ∈ stC, cv.1 = c.1 := by
  unfold gOptRow at h
  rw [List.mem_map] at h
  obtain ⟨c, hc, rfl⟩ := h
  exact ⟨c, hc, rfl⟩

theorem strongC_cols (S : Csr) (split : Array Int) (n i : Nat) (hcols : ∀ jj ∈ S.jjs i, rdN S.aj jj < n)
    (c : Nat × Rat) (h : c ∈ Classical.strongC (isC split) (rowOf S i)) : c.1 < n := by
  unfold Classical.strongC rowOf at h
  have := (List.mem_filter.1 h).1
  rw [List.mem_map] at this
  obtain ⟨jj, hjj, rfl⟩ := this
  exact hcols jj hjj

/-- **classical interpolation pass 2, `modified = false`: array model = proof-side operator.**
For a valid 0/1 splitting, strength columns below `n` and the row pointer of pass 1, row `i` of the
CSR triple `(Pp, Pj, Px)` is row `i` of the guarded operator `classicalPOptRow`, which by
`classicalPOptRow_forall₂` has the columns of `classicalP` and its weights wherever the kernel does
not divide by zero (and by `classicalPOptRow_defined` it never does under the non-degeneracy
hypotheses of `classical_rowsum`). -/
theorem classicalPass2_refines (eps : Rat) (A S : Csr) (split : Array Int) (hv : Valid split A.n)
    (hcols : ∀ i < A.n, ∀ jj ∈ S.jjs i, rdN S.aj jj < A.n) {i : Nat} (hi : i < A.n) :
    rowAt (-1 : Int) (none : Option Rat) (classicalPass1 A.n S split)
        (classicalPass2 eps false A S split (classicalPass1 A.n S split)).1
        (classicalPass2 eps false A S split (classicalPass1 A.n S split)).2 i =
      classicalPOptRow eps (isC split) (rowOf A) (rowOf S) i := by
  rw [classicalPass2_rows eps false A S split _ (classicalPass1_off eps false A S split) hi]
  unfold classicalPOptRow
  by_cases hC : isC split i = true
  · simp only [hC, if_true, cModelRow, List.map_cons, List.map_nil]
    rw [cRenum_ofNat A.n split hv hi]
  · have hF : isC split i = false := by simpa using hC
    rw [cModelRow_unmod eps A S split hv (hcols i hi) hF]
    simp only [hF, Bool.false_eq_true, if_false]
    apply renum_row A.n split hv
    intro cv hcv
    obtain ⟨c, hc, e⟩ := gOptRow_cols _ _ _ _ _ _ cv hcv
    rw [e]; exact strongC_cols S split A.n i (hcols i hi) c hc

/-- **classical interpolation pass 2, `modified = true`: array model = proof-side row body**
`Classical.classicalRowM` on the strength matrix handed to the kernel. -/
theorem classicalPass2_refines_modified (eps : Rat) (A S : Csr) (split : Array Int) (hv : Valid split A.n)
    (hcols : ∀ i < A.n, ∀ jj ∈ S.jjs i, rdN S.aj jj < A.n) {i : Nat} (hi : i < A.n) :
    rowAt (-1 : Int) (none : Option Rat) (classicalPass1 A.n S split)
        (classicalPass2 eps true A S split (classicalPass1 A.n S split)).1
        (classicalPass2 eps true A S split (classicalPass1 A.n S split)).2 i =
      classicalModPOptRow eps (isC split) (rowOf A) (rowOf S) i := by
  rw [classicalPass2_rows eps true A S split _ (classicalPass1_off eps true A S split) hi]
  unfold classicalModPOptRow
  by_cases hC : isC split i = true
  · simp only [hC, if_true, cModelRow, List.map_cons, List.map_nil]
    rw [cRenum_ofNat A.n split hv hi]
  · have hF : isC split i = false := by simpa using hC
    rw [cModelRow_mod eps A S split hv (hcols i hi) hF]
    simp only [hF, Bool.false_eq_true, if_false]
    apply renum_row A.n split hv
    intro cv hcv
    obtain ⟨c, hc, e⟩ := gOptRow_cols _ _ _ _ _ _ cv hcv
    rw [e]; exact strongC_cols S split A.n i (hcols i hi) c hc

/-! ### guarded operators vs `classicalP` / `classicalModP` -/

theorem classicalPOptRow_forall₂ (eps : Rat) (isC : Nat → Bool) (n : Nat) (A S : Nat → Classical.Row Rat)
    {i : Nat} (hi : i < n) :
    List.Forall₂ (fun (m : Int × Option Rat) (p : Nat × Rat) => m.1 = (p.1 : Int) ∧ ∀ x, m.2 = some x → x = p.2)
      (classicalPOptRow eps isC A S i) ((classicalP eps isC n A S).getD i []) := by
  rw [classicalP_row eps isC n A S hi]
  unfold classicalPOptRow
  by_cases hC : isC i = true
  · simp only [hC, if_true]
    exact List.Forall₂.cons ⟨rfl, fun x hx => (Option.some.inj hx).symm⟩ List.Forall₂.nil
  · simp only [hC, Bool.false_eq_true, if_false, renum]
    rw [List.forall₂_map_left_iff, List.forall₂_map_right_iff]
    refine (cOptRow_forall₂ eps isC i (S i) A).imp ?_
    intro m p h
    exact ⟨by rw [h.1], h.2⟩

theorem classicalPOptRow_defined (eps : Rat) (isC : Nat → Bool) (n : Nat) (A S : Nat → Classical.Row Rat)
    {i : Nat} (hi : i < n) (hF : isC i = false) (hden : Classical.denom i (A i) (S i) ≠ 0)
    (hinner : ∀ ck ∈ Classical.strongF isC i (S i), Classical.inner isC (S i) (A ck.1) ≠ 0) :
    classicalPOptRow eps isC A S i =
      ((classicalP eps isC n A S).getD i []).map (fun p => ((p.1 : Int), some p.2)) := by
  rw [classicalP_row eps isC n A S hi]
  unfold classicalPOptRow
  simp only [hF, Bool.false_eq_true, if_false, renum]
  rw [cOptRow_defined eps isC i (S i) A hden hinner]
  simp [List.map_map, Function.comp_def]

/-- the modified operator: the kernel is handed `S' = eliminate_zeros(remove_strong_FF(S))`; whenever
the rows of `S'` are the rows `removeFFRow` of the proof-side operator, the guarded rows are the
rows of `classicalModP` wherever defined -/
theorem classicalModPOptRow_forall₂ (eps : Rat) (isC : Nat → Bool) (n : Nat) (A S S' : Nat → Classical.Row Rat)
    {i : Nat} (hi : i < n) (hS' : isC i = false → S' i = removeFFRow isC S i) :
    List.Forall₂ (fun (m : Int × Option Rat) (p : Nat × Rat) => m.1 = (p.1 : Int) ∧ ∀ x, m.2 = some x → x = p.2)
      (classicalModPOptRow eps isC A S' i) ((classicalModP eps isC n A S).getD i []) := by
  rw [classicalModP_row eps isC n A S hi]
  unfold classicalModPOptRow
  by_cases hC : isC i = true
  · simp only [hC, if_true]
    exact List.Forall₂.cons ⟨rfl, fun x hx => (Option.some.inj hx).symm⟩ List.Forall₂.nil
  · have hF : isC i = false := by simpa using hC
    simp only [hC, Bool.false_eq_true, if_false, renum]
    rw [hS' hF, List.forall₂_map_left_iff, List.forall₂_map_right_iff]
    refine (cOptRowM_forall₂ eps isC i (removeFFRow isC S i) A).imp ?_
    intro m p h
    exact ⟨by rw [h.1], h.2⟩

end PyamgV.C11X
