import PyamgV.Proofs.ExtC16YSchwarz
import PyamgV.Proofs.ExtC16YBlock
import PyamgV.Proofs.ExtC16YCheb
import PyamgV.Proofs.ExtC16YComplex
import PyamgV.Proofs.ExtC16RelaxEx
import PyamgV.Proofs.ExtC02XBlockEx
import PyamgV.Proofs.ExtC02XComplexEx

/-! PyamgV (C16, extension E51): non-vacuity of the hypotheses of `relax_schwarz_energy`,
`relax_block_gauss_seidel_energy`, `relax_block_jacobi_energy`, `relax_chebyshev_energy` and of the complex clauses on
concrete instances: `A = [[2,-1],[-1,2]]` (Schwarz with the default subdomains `{0,1}`, `{0,1}`; Chebyshev with the
polynomial `(1/3, -4/3, 1)`, eigenpairs `(1, (1,1))`, `(3, (1,-1))`), the 1-D Poisson matrix of size 4 in 2x2 blocks,
the Hermitian matrix `[[2, i], [-i, 2]]`. -/
set_option linter.unusedSectionVars false
set_option linter.unusedVariables false
namespace PyamgV.C16Y
open PyamgV PyamgV.K PyamgV.C16 PyamgV.C16R PyamgV.ExtC09 PyamgV.C02X Finset

/-! ### schwarz -/

/-- the tuple `schwarz_parameters` returns for `[[2,-1],[-1,2]]`, with exact inverse blocks -/
def riS : Rec ℚ := { sj := #[0, 1, 0, 1], sp := #[0, 2, 4], tp := #[0, 4, 8],
                     tx := #[2/3, 1/3, 1/3, 2/3, 2/3, 1/3, 1/3, 2/3] }

theorem riS_ok : schwarzRecOK A2.n riS = true := by decide +kernel

theorem riS_inv : ∀ d, d < riS.sp.size - 1 → SubRightInv A2 riS.tx riS.tp riS.sj riS.sp d := by
  intro d hd
  have hd2 : d < 2 := hd
  have hsz : ∀ d, d < 2 → sSize riS.sp d = 2 := by intro d hd; interval_cases d <;> decide +kernel
  intro c hc c' hc'
  rw [hsz d hd2] at hc hc' ⊢
  interval_cases d <;> interval_cases c <;> interval_cases c' <;>
    simp only [Finset.sum_range_succ, Finset.sum_range_zero] <;> decide +kernel

/-- the same for the Hermitian matrix `[[2, i], [-i, 2]]`: inverse block `(1/3) [[2, -i], [i, 2]]` -/
def riSC : Rec CRat := { sj := #[0, 1, 0, 1], sp := #[0, 2, 4], tp := #[0, 4, 8],
                         tx := #[⟨2/3, 0⟩, ⟨0, -1/3⟩, ⟨0, 1/3⟩, ⟨2/3, 0⟩, ⟨2/3, 0⟩, ⟨0, -1/3⟩, ⟨0, 1/3⟩, ⟨2/3, 0⟩] }

theorem riSC_ok : schwarzRecOK CEx.A2.n riSC = true := by decide +kernel

theorem riSC_inv : ∀ d, d < riSC.sp.size - 1 → SubRightInv CEx.A2 riSC.tx riSC.tp riSC.sj riSC.sp d := by
  intro d hd
  have hd2 : d < 2 := hd
  have hsz : ∀ d, d < 2 → sSize riSC.sp d = 2 := by intro d hd; interval_cases d <;> decide +kernel
  intro c hc c' hc'
  rw [hsz d hd2] at hc hc' ⊢
  interval_cases d <;> interval_cases c <;> interval_cases c' <;>
    simp only [Finset.sum_range_succ, Finset.sum_range_zero] <;> decide +kernel

/-! ### block storage -/

/-- the 1-D Poisson matrix of size 4 stored in 2x2 blocks (all four blocks stored), as the arrays of the C16 model -/
def B4 : Csr ℚ :=
  ⟨(bsrOfDense BEx.Ad4 2 2).nb, (bsrOfDense BEx.Ad4 2 2).bp, (bsrOfDense BEx.Ad4 2 2).bj, (bsrOfDense BEx.Ad4 2 2).bx⟩

theorem toB_B4 : toB B4 2 = bsrOfDense BEx.Ad4 2 2 := rfl

theorem B4_op : bsrOp (toB B4 2) = denseOp BEx.Ad4 4 4 := by
  rw [toB_B4, bsrOp_ofDense BEx.Ad4 2 2 (by norm_num)]

theorem B4_damping : ∀ r, (1 : ℚ) * (euc ℚ (B4.n * 2)).a (bsrOp (toB B4 2) (bDinv B4.n 2 BEx.Dinv4 r)) (bDinv B4.n 2 BEx.Dinv4 r) ≤
    2 * (euc ℚ (B4.n * 2)).a (bDinv B4.n 2 BEx.Dinv4 r) r := by
  intro r
  rw [B4_op]
  show (1 : ℚ) * (euc ℚ 4).a (denseOp BEx.Ad4 4 4 (bDinv 2 2 BEx.Dinv4 r)) (bDinv 2 2 BEx.Dinv4 r) ≤
    2 * (euc ℚ 4).a (bDinv 2 2 BEx.Dinv4 r) r
  simp only [euc_apply, Finset.sum_range_succ, Finset.sum_range_zero, BEx.opA, BEx.opDinv]
  simp
  nlinarith [sq_nonneg (2/3 * r 0 + 1/3 * r 1), sq_nonneg (1/3 * r 0 - 1/3 * r 1),
    sq_nonneg (1/3 * r 0 + 2/3 * r 1 + (2/3 * r 2 + 1/3 * r 3)), sq_nonneg (1/3 * r 2 - 1/3 * r 3),
    sq_nonneg (1/3 * r 2 + 2/3 * r 3)]

/-! ### chebyshev -/

def lam2 : Bool → ℚ := fun i => if i then 1 else 3
def u2 : Bool → Nat → ℚ := fun i p => if i then (if p < 2 then 1 else 0) else (if p = 0 then 1 else if p = 1 then -1 else 0)

theorem A2_eig : ∀ i, csrOp A2.n (rowOf A2) (u2 i) = lam2 i • u2 i := by
  intro i
  funext p
  have hn : A2.n = 2 := rfl
  rcases p with _ | _ | p
  · rw [(C16R.A2_op _).1]; cases i <;> simp [u2, lam2] <;> norm_num
  · rw [(C16R.A2_op _).2]; cases i <;> simp [u2, lam2] <;> norm_num
  · have : ¬ p + 2 < 2 := by omega
    cases i <;> simp [csrOp, hn, u2, lam2]

/-! ### all together -/

/-- the hypotheses of the E51 clauses are satisfiable on non-trivial instances (together with `relaxR_hyps_satisfiable`:
symmetry, positive semidefiniteness and the solution `(1,1)` of `A x = (1,1)` for `A2 = [[2,-1],[-1,2]]`):
* schwarz: the record `riS` passes `schwarzRecOK` and its blocks are exact inverses;
* block storage: the block matrix `B4` is symmetric positive semidefinite, `BEx.Dinv4` holds right and left inverses of
  its diagonal blocks, stored block columns are in range, the block damping bound holds for `ω = 1`;
* chebyshev: `chebCoeffs (1/3, -4/3, 1) = [-1/3, 4/3]`, eigenpairs `(1, (1,1))`, `(3, (1,-1))` of `A2`, orthogonal,
  spanning the first two coordinates, `|1 − λ p(λ)| = 0 ≤ 1`;
* complex: `[[2, i], [-i, 2]]` is Hermitian positive semidefinite with stored diagonal `2`, and `x* = (1, 0)` solves
  `A x* = (2, -i)`; the Schwarz record `riSC` (inverse block `(1/3) [[2, -i], [i, 2]]`) is admissible and exact. -/
theorem relaxY_hyps_satisfiable :
    (schwarzRecOK A2.n riS = true ∧ ∀ d, d < riS.sp.size - 1 → SubRightInv A2 riS.tx riS.tp riS.sj riS.sp d) ∧
    (IsAdj (euc ℚ (B4.n * 2)) (euc ℚ (B4.n * 2)) (bsrOp (toB B4 2)) (bsrOp (toB B4 2)) ∧
      (∀ v, 0 ≤ (euc ℚ (B4.n * 2)).a (bsrOp (toB B4 2) v) v) ∧
      (∀ i, i < B4.n → RightInv (toB B4 2) BEx.Dinv4 i) ∧ (∀ i, i < B4.n → LeftInv (toB B4 2) BEx.Dinv4 i) ∧
      (∀ i, i < B4.n → ∀ jj ∈ B4.jjs i, rdN B4.aj jj < B4.n) ∧
      BEx.Dinv4.size = B4.n * (2 * 2) ∧
      effOmega ({ withrho := some false } : Opts ℚ) none id = some 1 ∧
      (∀ r, (1 : ℚ) * (euc ℚ (B4.n * 2)).a (bsrOp (toB B4 2) (bDinv B4.n 2 BEx.Dinv4 r)) (bDinv B4.n 2 BEx.Dinv4 r) ≤
        2 * (euc ℚ (B4.n * 2)).a (bDinv B4.n 2 BEx.Dinv4 r) r)) ∧
    (chebCoeffs (#[1/3, -4/3, 1] : Array ℚ) = [-1/3, 4/3] ∧
      (∀ i, csrOp A2.n (rowOf A2) (u2 i) = lam2 i • u2 i) ∧
      (∀ i j, i ≠ j → (euc ℚ A2.n).a (u2 i) (u2 j) = 0) ∧
      (∀ v : Nat → ℚ, ∃ c : Bool → ℚ, ∀ p, p < A2.n → v p = (∑ i, c i • u2 i) p) ∧
      (∀ i, |1 - lam2 i * polyScalar (-1/3) [4/3] (lam2 i)| ≤ 1)) ∧
    (IsCAdj (euc ℚ CEx.A2.n) (euc ℚ CEx.A2.n) (ccsrOp CEx.A2.n (rowOf CEx.A2)) (ccsrOp CEx.A2.n (rowOf CEx.A2)) ∧
      (∀ w, 0 ≤ (cip (euc ℚ CEx.A2.n) (ccsrOp CEx.A2.n (rowOf CEx.A2) w) w).1) ∧
      (∀ i, i < CEx.A2.n → HasDiag i (rowOf CEx.A2 i) (⟨2, 0⟩ : CRat)) ∧
      ccsrOp CEx.A2.n (rowOf CEx.A2) ((fun i => if i = 0 then 1 else 0), (fun _ => 0)) =
        toPair (fn (#[⟨2, 0⟩, ⟨0, -1⟩] : Array CRat)) ∧
      schwarzRecOK CEx.A2.n riSC = true ∧
      ∀ d, d < riSC.sp.size - 1 → SubRightInv CEx.A2 riSC.tx riSC.tp riSC.sj riSC.sp d) := by
  refine ⟨⟨riS_ok, riS_inv⟩, ⟨?_, ?_, ?_, ?_, ?_, by decide +kernel, by simp [effOmega], B4_damping⟩,
    ⟨by decide +kernel, A2_eig, ?_, ?_, ?_⟩, ⟨CEx.hermA, CEx.psdA, ?_, ?_, riSC_ok, riSC_inv⟩⟩
  · rw [B4_op]; exact BEx.symA
  · rw [B4_op]; exact BEx.psdA
  · exact BEx.rightInv4
  · exact BEx.leftInv4
  · exact bsrOfDense_cols BEx.Ad4 2 2
  · intro i j hij
    have hn : A2.n = 2 := rfl
    cases i <;> cases j <;> simp_all [u2, euc_apply, Finset.sum_range_succ]
  · intro v
    refine ⟨fun i => if i then (v 0 + v 1) / 2 else (v 0 - v 1) / 2, ?_⟩
    intro p hp
    have hp2 : p < 2 := hp
    rw [Fintype.sum_bool]
    interval_cases p <;> simp [u2] <;> ring
  · intro i
    cases i <;> simp [lam2, polyScalar] <;> norm_num
  · intro i hi
    have : i = 0 ∨ i = 1 := by have : i < 2 := hi; omega
    rcases this with rfl | rfl
    · rw [CEx.rowA0]; simp [HasDiag]
    · rw [CEx.rowA1]; simp [HasDiag]
  · have hn : CEx.A2.n = 2 := rfl
    rw [hn]
    apply Prod.ext
    · funext i
      rw [(CEx.opA _ i).1]
      rcases i with _ | _ | i <;> simp [toPair, fn, rd]
    · funext i
      rw [(CEx.opA _ i).2]
      rcases i with _ | _ | i <;> simp [toPair, fn, rd]

end PyamgV.C16Y
