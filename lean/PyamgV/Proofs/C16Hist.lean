import PyamgV.Model.C16Coarse

/-! PyamgV (C16): the solver object `GenericSolver` as a state machine (`C16.call`, `C16.run` — the
definitions the driver executes).  Core Lean only.

* `call_shape`        every returned array has the shape and the size of `b`
* `call_empty`        `A.nnz == 0`: zeros in the shape of `b`, whatever the solver, state untouched
* `call_fresh`        under the cache invariant a call answers exactly like a fresh object
* `run_same_matrix`   a whole history of calls with one matrix: every answer is the fresh answer
* `run_factor_once`   ... and the factorisation routine runs at most once when it succeeds -/
namespace PyamgV.C16
open PyamgV.K PyamgV.C02

set_option linter.unusedSectionVars false
variable {α : Type} [Add α] [Sub α] [Mul α] [Div α] [OfNat α 0] [OfNat α 1] [DecidableEq α]

theorem reshape_ok {x b r : Arr α} (h : reshape x b = .ok r) :
    r.shape = b.shape ∧ r.data.size = b.data.size ∧ r.data = x.data := by
  unfold reshape at h
  split at h
  · cases h; simp_all
  · cases h

/-- **shape clause**: whatever `solve` returned, the caller gets an array with the shape of `b` -/
theorem call_shape (conj : α → α) (isPos : α → Bool) (cb : Csr α → Arr α → Except String (Arr α))
    (k : Kind) (o : Opts α) (st : St α) (A : Csr α) (b : Arr α) (x : Arr α)
    (h : (call conj isPos cb k o st A b).2.1 = .ok x) :
    x.shape = b.shape ∧ x.data.size = b.data.size := by
  unfold call at h
  split at h
  · cases h; simp
  · simp only at h
    cases hr : (solve conj isPos cb k o st A b).2.1 with
    | error e => rw [hr] at h; cases h
    | ok y =>
      rw [hr] at h
      have := reshape_ok (x := y) (b := b) (r := x) h
      exact ⟨this.1, this.2.1⟩

/-- **empty-matrix clause**: a matrix without stored entries yields a zero correction in the shape of
`b` for every solver kind, options, callable and cache state; the state is not touched and no
factorisation is attempted -/
theorem call_empty (conj : α → α) (isPos : α → Bool) (cb : Csr α → Arr α → Except String (Arr α))
    (k : Kind) (o : Opts α) (st : St α) (A : Csr α) (b : Arr α) (h : nnz A = 0) :
    call conj isPos cb k o st A b = (st, .ok ⟨Array.replicate b.data.size (0 : α), b.shape⟩, false) := by
  unfold call; rw [if_pos h]

/-- the cache invariant for histories that always pass the matrix `A` -/
def Inv (conj : α → α) (isPos : α → Bool) (k : Kind) (A : Csr α) (st : St α) : Prop :=
  st.fact = Option.none ∨ ∃ f, factor conj isPos k A = .ok f ∧ st.fact = some f

theorem inv_fresh (conj : α → α) (isPos : α → Bool) (k : Kind) (A : Csr α) :
    Inv conj isPos k A ({} : St α) := Or.inl rfl

/-- the direct branch of `solve`, common to the four direct kinds -/
def solveDirect (conj : α → α) (isPos : α → Bool) (k : Kind) (st : St α) (A : Csr α) (b : Arr α) :
    St α × Except String (Arr α) × Bool :=
  match st.fact with
  | some f => (st, applyFact f b, false)
  | Option.none =>
    match factor conj isPos k A with
    | .ok f => (⟨some f⟩, applyFact f b, true)
    | .error e => (st, .error e, true)

theorem solve_direct (conj : α → α) (isPos : α → Bool) (cb : Csr α → Arr α → Except String (Arr α))
    (k : Kind) (hk : isDirect k = true) (o : Opts α) (st : St α) (A : Csr α) (b : Arr α) :
    solve conj isPos cb k o st A b = solveDirect conj isPos k st A b := by
  cases k <;> simp [isDirect] at hk <;> rfl

theorem solve_nondirect (conj : α → α) (isPos : α → Bool) (cb : Csr α → Arr α → Except String (Arr α))
    (k : Kind) (hk : isDirect k = false) (o : Opts α) (st : St α) (A : Csr α) (b : Arr α) :
    (solve conj isPos cb k o st A b).1 = st ∧
    (solve conj isPos cb k o st A b).2 = (solve conj isPos cb k o {} A b).2 := by
  cases k <;> simp [isDirect] at hk <;> exact ⟨rfl, rfl⟩

theorem solveDirect_inv (conj : α → α) (isPos : α → Bool) (k : Kind) (st : St α) (A : Csr α) (b : Arr α)
    (h : Inv conj isPos k A st) :
    Inv conj isPos k A (solveDirect conj isPos k st A b).1 ∧
    (solveDirect conj isPos k st A b).2.1 = (solveDirect conj isPos k {} A b).2.1 := by
  rcases h with h | ⟨f, hf, hs⟩
  · have hst : st = {} := by cases st; simp_all
    subst hst
    refine ⟨?_, rfl⟩
    unfold solveDirect
    simp only
    cases hf : factor conj isPos k A with
    | error e => exact Or.inl rfl
    | ok f => exact Or.inr ⟨f, hf, rfl⟩
  · unfold solveDirect
    simp only [hs, hf]
    exact ⟨Or.inr ⟨f, hf, hs⟩, trivial⟩

/-- **a call under the invariant = a call on a fresh object** (result), and the invariant is kept -/
theorem call_fresh (conj : α → α) (isPos : α → Bool) (cb : Csr α → Arr α → Except String (Arr α))
    (k : Kind) (o : Opts α) (st : St α) (A : Csr α) (b : Arr α) (h : Inv conj isPos k A st) :
    Inv conj isPos k A (call conj isPos cb k o st A b).1 ∧
    (call conj isPos cb k o st A b).2.1 = (call conj isPos cb k o {} A b).2.1 := by
  unfold call
  by_cases hz : nnz A = 0
  · simp only [if_pos hz]; exact ⟨h, trivial⟩
  · simp only [if_neg hz]
    cases hk : isDirect k with
    | true =>
      rw [solve_direct conj isPos cb k hk o st A b, solve_direct conj isPos cb k hk o {} A b]
      have := solveDirect_inv conj isPos k st A b h
      exact ⟨this.1, by rw [this.2]⟩
    | false =>
      have := solve_nondirect conj isPos cb k hk o st A b
      refine ⟨by rw [this.1]; exact h, ?_⟩
      have h2 : (solve conj isPos cb k o st A b).2.1 = (solve conj isPos cb k o {} A b).2.1 := by rw [this.2]
      rw [h2]

/-- **history clause**: when every call of a history passes the same matrix, each answer is the one a
fresh solver object gives for that right-hand side — the cached factorisation never carries anything
of an earlier right-hand side, and an earlier failure does not change a later answer -/
theorem run_same_matrix (conj : α → α) (isPos : α → Bool) (cb : Csr α → Arr α → Except String (Arr α))
    (k : Kind) (o : Opts α) (A : Csr α) :
    ∀ (hist : List (Csr α × Arr α)) (st : St α), Inv conj isPos k A st → (∀ e ∈ hist, e.1 = A) →
      (run conj isPos cb k o st hist).2.1 = hist.map (fun e => (call conj isPos cb k o {} A e.2).2.1) := by
  intro hist
  induction hist with
  | nil => intro st _ _; rfl
  | cons e rest ih =>
    intro st hinv hA
    obtain ⟨A', b⟩ := e
    have hA' : A' = A := hA (A', b) (by simp)
    subst hA'
    have hc := call_fresh conj isPos cb k o st A' b hinv
    have hrest := ih (call conj isPos cb k o st A' b).1 hc.1 (fun e he => hA e (by simp [he]))
    simp only [run, List.map_cons]
    rw [hrest, hc.2]

/-- number of factorisation calls of a history that starts with a stored factorisation: none -/
theorem run_count_cached (conj : α → α) (isPos : α → Bool) (cb : Csr α → Arr α → Except String (Arr α))
    (k : Kind) (hk : isDirect k = true) (o : Opts α) :
    ∀ (hist : List (Csr α × Arr α)) (st : St α) (f : Fact α), st.fact = some f →
      (run conj isPos cb k o st hist).2.2 = 0 := by
  intro hist
  induction hist with
  | nil => intro st f _; rfl
  | cons e rest ih =>
    intro st f hs
    obtain ⟨A, b⟩ := e
    have hcall : (call conj isPos cb k o st A b).1 = st ∧ (call conj isPos cb k o st A b).2.2 = false := by
      unfold call
      by_cases hz : nnz A = 0
      · simp [if_pos hz]
      · simp only [if_neg hz]
        rw [solve_direct conj isPos cb k hk o st A b]
        unfold solveDirect
        simp [hs]
    simp only [run]
    rw [hcall.2, hcall.1, ih st f hs]
    rfl

/-- **reuse**: over any history (any matrices, any right-hand sides) a direct solver whose first
factorisation succeeds calls the factorisation routine at most once -/
theorem run_factor_once (conj : α → α) (isPos : α → Bool) (cb : Csr α → Arr α → Except String (Arr α))
    (k : Kind) (hk : isDirect k = true) (o : Opts α)
    (hok : ∀ A : Csr α, ∃ f, factor conj isPos k A = .ok f) :
    ∀ (hist : List (Csr α × Arr α)) (st : St α), (run conj isPos cb k o st hist).2.2 ≤ 1 := by
  intro hist
  induction hist with
  | nil => intro st; simp [run]
  | cons e rest ih =>
    intro st
    obtain ⟨A, b⟩ := e
    simp only [run]
    cases hs : st.fact with
    | some f =>
      have := run_count_cached conj isPos cb k hk o ((A, b) :: rest) st f hs
      simp only [run] at this
      omega
    | none =>
      by_cases hz : nnz A = 0
      · have hcall : call conj isPos cb k o st A b = (st, .ok ⟨Array.replicate b.data.size (0 : α), b.shape⟩, false) :=
          call_empty conj isPos cb k o st A b hz
        rw [hcall]
        have := ih st
        simp only [Bool.false_eq_true, if_false]
        omega
      · obtain ⟨f, hf⟩ := hok A
        have hcall : (call conj isPos cb k o st A b).1 = ⟨some f⟩ := by
          unfold call
          simp only [if_neg hz]
          rw [solve_direct conj isPos cb k hk o st A b]
          unfold solveDirect
          simp [hs, hf]
        have h0 := run_count_cached conj isPos cb k hk o rest (call conj isPos cb k o st A b).1 f (by rw [hcall])
        rw [h0]
        split <;> omega

end PyamgV.C16
