import PyamgV.Proofs.ExtC05ZBlkCheck
import PyamgV.Proofs.ExtC05ZPd
import PyamgV.Proofs.ExtC05YBlock
import PyamgV.Proofs.ExtC05YRefine
import PyamgV.Proofs.ExtC09XDense

/-! PyamgV (C05, extension E47): **the executed block smoothers with every hypothesis a proved Boolean.**

E36 proved that `pyBlockGaussSeidel` / `pyBlockJacobi` on a BSR matrix `B` with inverse blocks `Dinv` are linear
iterations for `bsrLin B` under the hypotheses `Dinv_i B_ii = I` (`LeftInv`), symmetric inverse blocks (`DinvSym`), sizes,
in-range block columns -- none of them decided -- and nothing tied `bsrLin (A.tobsr)` to the CSR operator.  Here:

* `leftInv_of_B`, `dinvSym_of_B`, `blkCols_of_B`: the Booleans of `Proofs/ExtC05ZBlkCheck.lean` are sound;
* `bsrLin_toBsr`: `A.toBsr bs = some B → bsrLin B = csrLin A` (from `toBsr_rowDotB` of E33);
* `csrLin_eq_csrOp`: `csrLin A = csrOp A.n (rowOf A)`, the operator of the symmetry checker `c05Check`;
* `executed_bgs_smoother_checked`, `executed_bjac_smoother_checked`: `blkSmCheck A bs = true` ⇒ the smoother `applySmY` of the
  extended cycle model returns and is `x + powM A (…) k (b − A x)` for the **CSR operator** `A = csrLin`;
* `executed_bgs_pair_checked`, `executed_bjac_selfadj_checked`: for a symmetric CSR operator forward / backward are an
  adjoint pair, symmetric sweeps and block Jacobi self-adjoint. -/
namespace PyamgV.C05ZB
open PyamgV PyamgV.K PyamgV.C05 PyamgV.C05Y PyamgV.C05Z PyamgV.ExtC09 PyamgV.ExtC09X Finset

set_option linter.unusedSectionVars false
variable {R : Type} [Field R] [LinearOrder R] [IsStrictOrderedRing R] [DecidableEq R]

theorem foldl_cond_sum (js : List Nat) (c : Nat → Prop) [DecidablePred c] (g : Nat → R) : ∀ s : R,
    js.foldl (fun s jj => if c jj then s + g jj else s) s = s + ((js.filter (fun jj => decide (c jj))).map g).sum := by
  induction js with
  | nil => intro s; simp
  | cons a rest ih =>
    intro s
    rw [List.foldl_cons, ih]
    by_cases h : c a
    · rw [if_pos h, List.filter_cons_of_pos (by simpa using h), List.map_cons, List.sum_cons]; ring
    · rw [if_neg h, List.filter_cons_of_neg (by simpa using h)]

/-- the dense diagonal block of the executed model is the diagonal block of the proofs -/
theorem mget_diagBlock (B : Bsr R) (i l m : Nat) (hl : l < B.bs) (hm : m < B.bs) :
    mget (diagBlock B i) l m = diagBlk B i l m := by
  unfold diagBlock
  rw [mget_mk B.bs B.bs _ l m hl hm, foldl_cond_sum, zero_add]
  rfl

theorem leftInv_of_B (B : Bsr R) (Dinv : Array R) (h : leftInvB B Dinv = true) : ∀ i, i < B.nb → LeftInv B Dinv i := by
  unfold leftInvB at h
  simp only [List.all_eq_true, List.mem_range, decide_eq_true_eq] at h
  intro i hi k hk m hm
  have := h i hi k hk m hm
  rw [sumTo_eq] at this
  rw [← this]
  apply Finset.sum_congr rfl
  intro l hl
  rw [mget_diagBlock B i l m (mem_range.1 hl) hm]
  rfl

theorem dinvSym_of_B (B : Bsr R) (Dinv : Array R) (h : dinvSymB B Dinv = true) : DinvSym B Dinv := by
  unfold dinvSymB at h
  simp only [List.all_eq_true, List.mem_range, decide_eq_true_eq] at h
  intro i hi k hk l hl
  exact h i hi k hk l hl

theorem blkCols_of_B (B : Bsr R) (h : blkColsB B = true) : ∀ i, i < B.nb → ∀ jj ∈ B.jjs i, rdN B.bj jj < B.nb := by
  unfold blkColsB at h
  simp only [List.all_eq_true, List.mem_range, decide_eq_true_eq] at h
  exact h

/-! ### the BSR copy has the operator of the CSR matrix -/

/-- **`tobsr` preserves the operator** -/
theorem bsrLin_toBsr (A : Csr R) (bs : Nat) (B : Bsr R) (h : A.toBsr bs = some B) : bsrLin B = csrLin A := by
  obtain ⟨hbs, hBs, hn, _⟩ := toBsr_sem A bs B h
  apply LinearMap.ext
  intro u
  funext p
  rw [bsrLin_apply]
  show _ = if p < A.n then csrRow A p u else 0
  rw [hBs, hn]
  by_cases hp : p < A.n
  · rw [if_pos hp, if_pos hp]
    have hI : p / bs < B.nb := by
      rw [← hn] at hp
      exact Nat.div_lt_of_lt_mul (by rwa [Nat.mul_comm] at hp)
    rw [toBsr_rowDotB A bs B h (p / bs) hI (p % bs) (Nat.mod_lt _ hbs) u, Nat.div_add_mod']
  · rw [if_neg hp, if_neg hp]

/-- the CSR operator of the block / polynomial theorems is the CSR operator of the symmetry theorems -/
theorem csrLin_eq_csrOp (A : Csr R) : csrLin A = csrOp A.n (rowOf A) := by
  apply LinearMap.ext
  intro u
  funext i
  show (if i < A.n then csrRow A i u else 0) = if i < A.n then rowDot (rowOf A i) u else 0
  by_cases hi : i < A.n
  · rw [if_pos hi, if_pos hi]
    unfold csrRow rowDot rowOf
    rw [List.map_map]
    rfl
  · rw [if_neg hi, if_neg hi]

/-! ### the executed smoothers -/

/-- what `blkSmCheck = true` says -/
theorem blkSmCheck_spec (A : Csr R) (bs : Nat) (h : blkSmCheck A bs = true) :
    ∃ B D, A.toBsr bs = some B ∧ blockDinv B = some D ∧ 0 < B.bs ∧ B.bs = bs ∧ B.nb * B.bs = A.n ∧
      D.size = B.nb * (B.bs * B.bs) ∧ (∀ i, i < B.nb → LeftInv B D i) ∧ DinvSym B D ∧
      (∀ i, i < B.nb → ∀ jj ∈ B.jjs i, rdN B.bj jj < B.nb) ∧ bsrLin B = csrLin A := by
  unfold blkSmCheck at h
  cases hB : A.toBsr bs with
  | none => rw [hB] at h; exact absurd h (by simp)
  | some B =>
    rw [hB] at h
    cases hD : blockDinv B with
    | none => simp only [hD] at h; exact absurd h (by simp)
    | some D =>
      simp only [hD, Bool.and_eq_true] at h
      obtain ⟨⟨⟨h1, h2⟩, h3⟩, h4⟩ := h
      obtain ⟨hbs, hBs, hn, _⟩ := toBsr_sem A bs B hB
      refine ⟨B, D, rfl, hD, by rw [hBs]; exact hbs, hBs, by rw [hBs]; exact hn, ?_, leftInv_of_B B D h1,
        dinvSym_of_B B D h2, blkCols_of_B B h4, bsrLin_toBsr A bs B hB⟩
      unfold blkSizeB at h3
      exact of_decide_eq_true h3

/-- **the executed `block_gauss_seidel` smoother of the extended cycle model, all hypotheses checked**: it returns and is
`x + powM A (sweepM A (dirL sweep steps)) k (b − A x)` for the CSR operator `A = csrLin` -/
theorem executed_bgs_smoother_checked (ofRat : Rat → R) (conj : R → R) (A : Csr R) (bs : Nat) (sw : Sweep) (k : Nat)
    (C : List Nat) (x b : Array R) (hx : x.size = A.n) (hb : b.size = A.n) (h : blkSmCheck A bs = true) :
    ∃ B D y, A.toBsr bs = some B ∧ blockDinv B = some D ∧
      applySmY ofRat conj (.ext (.bgs bs) sw k) A C x b = some y ∧ y.size = A.n ∧
      vec y = vec x + powM (csrLin A) (sweepM (csrLin A) (dirL sw (bgsSteps B D))) k (vec b - csrLin A (vec x)) := by
  obtain ⟨B, D, hB, hD, hbs, _, hn, hDs, hinv, _, _, hop⟩ := blkSmCheck_spec A bs h
  obtain ⟨y, hy, hys, hv⟩ := executed_bgs_smoother B b D k sw hbs (by rw [hn]; exact hb) hDs hinv x (by rw [hn]; exact hx)
  refine ⟨B, D, y, hB, hD, ?_, by rw [← hn]; exact hys, by rw [← hop]; exact hv⟩
  show (A.toBsr bs).bind (fun B => (blockDinv B).bind (fun D => pyBlockGaussSeidel B b D k sw x)) = some y
  rw [hB, Option.bind_some, hD, Option.bind_some]
  exact hy

/-- **the executed `block_jacobi` smoother, all hypotheses checked**: `x + powM A (ω D⁻¹) k (b − A x)` -/
theorem executed_bjac_smoother_checked (ofRat : Rat → R) (conj : R → R) (A : Csr R) (bs : Nat) (ω : Rat) (sw : Sweep)
    (k : Nat) (C : List Nat) (x b : Array R) (hx : x.size = A.n) (hb : b.size = A.n) (h : blkSmCheck A bs = true) :
    ∃ B D y, A.toBsr bs = some B ∧ blockDinv B = some D ∧
      applySmY ofRat conj (.ext (.bjac bs ω) sw k) A C x b = some y ∧ y.size = A.n ∧
      vec y = vec x + powM (csrLin A) (ofRat ω • bdQ B D) k (vec b - csrLin A (vec x)) := by
  obtain ⟨B, D, hB, hD, hbs, _, hn, hDs, hinv, _, hcols, hop⟩ := blkSmCheck_spec A bs h
  obtain ⟨y, hy, hys, hv⟩ := executed_bjac_smoother (ofRat ω) B b D k hbs (by rw [hn]; exact hb) hDs hcols hinv x
    (by rw [hn]; exact hx)
  refine ⟨B, D, y, hB, hD, ?_, by rw [← hn]; exact hys, by rw [← hop]; exact hv⟩
  show (A.toBsr bs).bind (fun B => (blockDinv B).bind (fun D => pyBlockJacobi (ofRat ω) B b D k x)) = some y
  rw [hB, Option.bind_some, hD, Option.bind_some]
  exact hy

/-- **executed forward / backward block Gauss–Seidel are an adjoint pair and the executed symmetric sweep is self-adjoint**
for a symmetric CSR level operator; the inverse blocks are the ones `blockDinv` returns -/
theorem executed_bgs_pair_checked (A : Csr R) (bs : Nat) (h : blkSmCheck A bs = true)
    (hA : IsAdj (euc R A.n) (euc R A.n) (csrLin A) (csrLin A)) (k : Nat) :
    ∃ B D, A.toBsr bs = some B ∧ blockDinv B = some D ∧
      IsAdj (euc R A.n) (euc R A.n)
        (powM (csrLin A) (sweepM (csrLin A) (dirL .forward (bgsSteps B D))) k)
        (powM (csrLin A) (sweepM (csrLin A) (dirL .backward (bgsSteps B D))) k) ∧
      IsAdj (euc R A.n) (euc R A.n)
        (powM (csrLin A) (sweepM (csrLin A) (dirL .symmetric (bgsSteps B D))) k)
        (powM (csrLin A) (sweepM (csrLin A) (dirL .symmetric (bgsSteps B D))) k) := by
  obtain ⟨B, D, hB, hD, hbs, _, hn, _, _, hsym, _, hop⟩ := blkSmCheck_spec A bs h
  refine ⟨B, D, hB, hD, ?_⟩
  have := executed_bgs_pair B D hbs hsym (by rw [hop, hn]; exact hA) k
  rw [hop, hn] at this
  exact this

/-- **the executed block Jacobi operator is self-adjoint** for a symmetric CSR level operator -/
theorem executed_bjac_selfadj_checked (ω : R) (A : Csr R) (bs : Nat) (h : blkSmCheck A bs = true)
    (hA : IsAdj (euc R A.n) (euc R A.n) (csrLin A) (csrLin A)) (k : Nat) :
    ∃ B D, A.toBsr bs = some B ∧ blockDinv B = some D ∧
      IsAdj (euc R A.n) (euc R A.n) (powM (csrLin A) (ω • bdQ B D) k) (powM (csrLin A) (ω • bdQ B D) k) := by
  obtain ⟨B, D, hB, hD, hbs, _, hn, _, _, hsym, _, hop⟩ := blkSmCheck_spec A bs h
  refine ⟨B, D, hB, hD, ?_⟩
  have := executed_bjac_selfadj ω B D hbs hsym (by rw [hop, hn]; exact hA) k
  rw [hop, hn] at this
  exact this

/-- symmetry of the CSR operator from the Boolean the driver evaluates (`hermitianHierarchy` / `c05Check`): in-range
column indices and a symmetric dense copy -/
theorem csrLin_sym_of_dense (A : Csr R) (hc : colsOk A A.n = true)
    (hd : denseOfCsr A A.n = mconjT id (denseOfCsr A A.n) A.n A.n) :
    IsAdj (euc R A.n) (euc R A.n) (csrLin A) (csrLin A) := by
  rw [csrLin_eq_csrOp]
  exact isAdj_of_dense A A A.n A.n rfl rfl hc hc hd

#print axioms leftInv_of_B
#print axioms bsrLin_toBsr
#print axioms csrLin_eq_csrOp
#print axioms executed_bgs_smoother_checked
#print axioms executed_bjac_smoother_checked
#print axioms executed_bgs_pair_checked
#print axioms executed_bjac_selfadj_checked
end PyamgV.C05ZB
