import PyamgV.Proofs.ExtC16Relax
import PyamgV.Proofs.ExtC02XComplex
import PyamgV.Proofs.ExtC16YSchwarz

/-! PyamgV (C16, extension E51): **complex matrices, energy clauses for gauss_seidel / sor / jacobi** as relaxation-type
coarse solvers.

The C16 relaxation model `C16R.relaxSolveR CRat.conj` run on Gaussian rationals (the run the check compares with the real
complex output) is connected with E35's complex energy lemmas (Proofs/ExtC02XComplex.lean: `csmF_cnonexp` =
`cgsSweep_cnonexp` / `csorSweep_cnonexp` / `cjacobi_cnonexp` through the refinement `csm_refines`).

A complex vector `x : Array CRat` is read as the pair `toPair (fn x) = (Re x, Im x)`, the matrix as its realification
`ccsrOp A.n (rowOf A)`, the energy is `cEnergy`: `‖e‖²_A = Re ⟨e, A e⟩` for a Hermitian positive semidefinite `A`
(`IsCAdj`, `0 ≤ Re ⟨A w, w⟩`). -/
set_option linter.unusedSectionVars false
set_option linter.unusedVariables false
namespace PyamgV.C16Y
open PyamgV PyamgV.K PyamgV.C16 PyamgV.C16R PyamgV.C02X PyamgV.ExtC09 Finset

theorem fn_zerosC (n : Nat) : fn (Array.replicate n (0 : CRat)) = 0 := by
  funext i
  simp only [fn, rd, Array.getD_eq_getD_getElem?, Array.getElem?_replicate, Pi.zero_apply]
  split <;> rfl

/-- a smoother of the model (`C02.Sm.run`: the Python drivers `gauss_seidel` / `jacobi` on the kernel models) started
from zeros on Gaussian rationals, admissible in the sense of `csmOK`, Hermitian positive semidefinite matrix: the
complex energy norm of the error does not exceed that of the solution -/
theorem csm_from_zero_energy (s : C02.Sm CRat) (A : Csr CRat)
    (hH : IsCAdj (euc ℚ A.n) (euc ℚ A.n) (ccsrOp A.n (rowOf A)) (ccsrOp A.n (rowOf A)))
    (hp : ∀ w, 0 ≤ (cip (euc ℚ A.n) (ccsrOp A.n (rowOf A) w) w).1)
    (diag : Nat → CRat) (hdiag : ∀ i, i < A.n → HasDiag i (rowOf A i) (diag i)) (hok : csmOK s A diag)
    (b : Array CRat) (hb : b.size = A.n) (XS : CPair) (hxs : ccsrOp A.n (rowOf A) XS = toPair (fn b)) :
    (s.run A b (x0 b)).size = b.size ∧
    (cEnergy (euc ℚ A.n) (ccsrOp A.n (rowOf A)) hH hp).en (XS - toPair (fn (s.run A b (x0 b)))) ≤
      (cEnergy (euc ℚ A.n) (ccsrOp A.n (rowOf A)) hH hp).en XS := by
  obtain ⟨h1, h2⟩ := csm_refines s A b (x0 b) (by simp [hb])
  refine ⟨by rw [h1]; simp, ?_⟩
  have h2' : toPair (fn (s.run A b (x0 b))) = csmF s A (toPair (fn (x0 b))) (toPair (fn b)) := h2
  have hne := (cNonExp_iff (euc ℚ A.n) (ccsrOp A.n (rowOf A)) hH hp (csmF s A)).1
    (csmF_cnonexp s A hH hp diag hdiag hok) (toPair (fn (x0 b))) (toPair (fn b)) XS hxs
  rw [← h2', fn_zerosC, toPair_zero, sub_zero] at hne
  exact hne

/-- **energy clause, gauss_seidel, complex matrices** (`('gauss_seidel', {iterations, sweep})` on a Hermitian positive
semidefinite matrix with one stored diagonal entry per row): `‖x* − x‖_A ≤ ‖x*‖_A` from the zero guess -/
theorem relax_gs_energy_complex (o : Opts CRat) (ri : Rec CRat) (A : Csr CRat)
    (ho : o.omega = none) (hr : o.withrho = none) (b : Array CRat) (hb : b.size = A.n)
    (hH : IsCAdj (euc ℚ A.n) (euc ℚ A.n) (ccsrOp A.n (rowOf A)) (ccsrOp A.n (rowOf A)))
    (hp : ∀ w, 0 ≤ (cip (euc ℚ A.n) (ccsrOp A.n (rowOf A) w) w).1)
    (diag : Nat → CRat) (hdiag : ∀ i, i < A.n → HasDiag i (rowOf A i) (diag i))
    (XS : CPair) (hxs : ccsrOp A.n (rowOf A) XS = toPair (fn b)) :
    ∃ x, relaxSolveR CRat.conj "gauss_seidel" o ri A b = .ok x ∧ x.size = b.size ∧
      (cEnergy (euc ℚ A.n) (ccsrOp A.n (rowOf A)) hH hp).en (XS - toPair (fn x)) ≤
        (cEnergy (euc ℚ A.n) (ccsrOp A.n (rowOf A)) hH hp).en XS := by
  have hsolve : relaxSolveR CRat.conj "gauss_seidel" o ri A b =
      .ok ((C02.Sm.gs (1 : CRat) (o.sweep.getD .forward) (o.iterations.getD 10)).run A b (x0 b)) := by
    rw [relaxSolveR_gs_sor CRat.conj "gauss_seidel" (Or.inl rfl)]
    unfold relaxSolve
    simp [hb, ho, hr, C02.Sm.run, x0]
  refine ⟨_, hsolve, ?_⟩
  exact csm_from_zero_energy (C02.Sm.gs (1 : CRat) (o.sweep.getD .forward) (o.iterations.getD 10)) A hH hp diag hdiag
    (show (1 : CRat).im = 0 ∧ 0 ≤ (1 : CRat).re ∧ (1 : CRat).re ≤ 2 from
      ⟨rfl, by rw [CRat.one_re]; norm_num, by rw [CRat.one_re]; norm_num⟩) b hb XS hxs

/-- **energy clause, sor, complex matrices** (`('sor', {omega, iterations, sweep})`, real `0 ≤ ω ≤ 2`, default `1/2`) -/
theorem relax_sor_energy_complex (o : Opts CRat) (ri : Rec CRat) (A : Csr CRat)
    (hr : o.withrho = none)
    (him : (o.omega.getD ((1 : CRat) / ((1 : CRat) + 1))).im = 0)
    (h0 : 0 ≤ (o.omega.getD ((1 : CRat) / ((1 : CRat) + 1))).re)
    (h2 : (o.omega.getD ((1 : CRat) / ((1 : CRat) + 1))).re ≤ 2)
    (b : Array CRat) (hb : b.size = A.n)
    (hH : IsCAdj (euc ℚ A.n) (euc ℚ A.n) (ccsrOp A.n (rowOf A)) (ccsrOp A.n (rowOf A)))
    (hp : ∀ w, 0 ≤ (cip (euc ℚ A.n) (ccsrOp A.n (rowOf A) w) w).1)
    (diag : Nat → CRat) (hdiag : ∀ i, i < A.n → HasDiag i (rowOf A i) (diag i))
    (XS : CPair) (hxs : ccsrOp A.n (rowOf A) XS = toPair (fn b)) :
    ∃ x, relaxSolveR CRat.conj "sor" o ri A b = .ok x ∧ x.size = b.size ∧
      (cEnergy (euc ℚ A.n) (ccsrOp A.n (rowOf A)) hH hp).en (XS - toPair (fn x)) ≤
        (cEnergy (euc ℚ A.n) (ccsrOp A.n (rowOf A)) hH hp).en XS := by
  have hsolve : relaxSolveR CRat.conj "sor" o ri A b =
      .ok ((C02.Sm.gs (o.omega.getD ((1 : CRat) / ((1 : CRat) + 1))) (o.sweep.getD .forward)
        (o.iterations.getD 10)).run A b (x0 b)) := by
    rw [relaxSolveR_gs_sor CRat.conj "sor" (Or.inr rfl)]
    unfold relaxSolve
    simp [hb, hr, C02.Sm.run, x0]
  refine ⟨_, hsolve, ?_⟩
  exact csm_from_zero_energy (C02.Sm.gs (o.omega.getD ((1 : CRat) / ((1 : CRat) + 1))) (o.sweep.getD .forward)
    (o.iterations.getD 10)) A hH hp diag hdiag
    (show _ ∧ _ ∧ _ from ⟨him, h0, h2⟩) b hb XS hxs

/-- **energy clause, jacobi, complex matrices** (`('jacobi', {omega, withrho, iterations})`, also `block_jacobi` on
point storage): `ω = omega/rho` (recorded estimate) resp. `omega` real and `≥ 0`, non-zero (complex) stored diagonal,
damping bound `ω ‖D⁻¹ r‖²_A ≤ 2 Re⟨D⁻¹ r, r⟩` on the realified space -/
theorem relax_jacobi_energy_complex (name : String) (o : Opts CRat) (ri : Rec CRat)
    (hn : name = "jacobi" ∨ (name = "block_jacobi" ∧ ri.bs = 1)) (A : Csr CRat) (hs : o.sweep = none)
    (ω : CRat) (hω : effOmega o ri.rho id = some ω) (him : ω.im = 0) (h0 : 0 ≤ ω.re)
    (b : Array CRat) (hb : b.size = A.n)
    (hH : IsCAdj (euc ℚ A.n) (euc ℚ A.n) (ccsrOp A.n (rowOf A)) (ccsrOp A.n (rowOf A)))
    (hp : ∀ w, 0 ≤ (cip (euc ℚ A.n) (ccsrOp A.n (rowOf A) w) w).1)
    (diag : Nat → CRat) (hdiag : ∀ i, i < A.n → HasDiag i (rowOf A i) (diag i)) (hnz : ∀ i, i < A.n → diag i ≠ 0)
    (hD : ∀ r, ω.re * (euc ℚ A.n).realify.a (ccsrOp A.n (rowOf A) (cjacDinv A.n diag r)) (cjacDinv A.n diag r) ≤
        2 * (euc ℚ A.n).realify.a (cjacDinv A.n diag r) r)
    (XS : CPair) (hxs : ccsrOp A.n (rowOf A) XS = toPair (fn b)) :
    ∃ x, relaxSolveR CRat.conj name o ri A b = .ok x ∧ x.size = b.size ∧
      (cEnergy (euc ℚ A.n) (ccsrOp A.n (rowOf A)) hH hp).en (XS - toPair (fn x)) ≤
        (cEnergy (euc ℚ A.n) (ccsrOp A.n (rowOf A)) hH hp).en XS := by
  have hsolve : relaxSolveR CRat.conj name o ri A b =
      .ok ((C02.Sm.jac ω (o.iterations.getD 10)).run A b (x0 b)) := by
    rw [relaxSolveR_jacobi CRat.conj name o ri hn A b hb hs ω hω]
    rfl
  refine ⟨_, hsolve, ?_⟩
  exact csm_from_zero_energy (C02.Sm.jac ω (o.iterations.getD 10)) A hH hp diag hdiag
    (show _ ∧ _ ∧ _ ∧ _ from ⟨him, h0, hnz, hD⟩) b hb XS hxs

/-! ## schwarz on complex matrices

The kernel model contains no conjugation; `ExtC09.schwarzStep_residual_zero` holds over any field, so one subdomain step
with an exact inverse block is an exact subspace correction for the complex energy form as well. -/

/-- **one subdomain step, complex Hermitian positive semidefinite matrix, exact inverse block** -/
theorem schwarzStep_cenergy (A : Csr CRat)
    (hH : IsCAdj (euc ℚ A.n) (euc ℚ A.n) (ccsrOp A.n (rowOf A)) (ccsrOp A.n (rowOf A)))
    (hp : ∀ w, 0 ≤ (cip (euc ℚ A.n) (ccsrOp A.n (rowOf A) w) w).1)
    (b Tx : Array CRat) (Tp Sj Sp : Array Nat) (x : Array CRat) (hx : x.size = A.n) (d : Nat)
    (hin : ∀ c < sSize Sp d, sIdx Sj Sp d c < A.n) (hT : SubRightInv A Tx Tp Sj Sp d)
    (XS : CPair) (hxs : ccsrOp A.n (rowOf A) XS = toPair (fn b)) :
    (cEnergy (euc ℚ A.n) (ccsrOp A.n (rowOf A)) hH hp).en (XS - toPair (fn (schwarzStep A b Tx Tp Sj Sp x d))) ≤
      (cEnergy (euc ℚ A.n) (ccsrOp A.n (rowOf A)) hH hp).en (XS - toPair (fn x)) := by
  set x' := schwarzStep A b Tx Tp Sj Sp x d with hx'
  have key : XS - toPair (fn x') = (XS - toPair (fn x)) - (toPair (fn x') - toPair (fn x)) := by abel
  rw [key]
  apply EForm.en_sub_le
  rw [← key]
  show (euc ℚ A.n).realify.a (ccsrOp A.n (rowOf A) (XS - toPair (fn x'))) (toPair (fn x') - toPair (fn x)) = 0
  rw [EForm.realify_apply, euc_apply, euc_apply, ← Finset.sum_add_distrib]
  apply Finset.sum_eq_zero
  intro p hp'
  have hpn : p < A.n := mem_range.1 hp'
  by_cases hex : ∃ c, c < sSize Sp d ∧ sIdx Sj Sp d c = p
  · obtain ⟨c, hc, hcp⟩ := hex
    have hres : rowDot (rowOf A p) (fn x') = fn b p := by
      rw [← C16Y.csrRow_eq_rowDot, ← C16Y.vec_eq_fn, ← hcp]
      exact schwarzStep_residual_zero A b Tx Tp Sj Sp x d (fun c hc => by rw [hx]; exact hin c hc) hT c hc
    obtain ⟨h1, h2⟩ := ccsrOp_apply A.n (rowOf A) (fn x') p hpn
    have e1 : (ccsrOp A.n (rowOf A) (XS - toPair (fn x'))).1 p = 0 := by
      rw [map_sub, hxs, Prod.fst_sub, Pi.sub_apply, h1, hres]; simp [toPair]
    have e2 : (ccsrOp A.n (rowOf A) (XS - toPair (fn x'))).2 p = 0 := by
      rw [map_sub, hxs, Prod.snd_sub, Pi.sub_apply, h2, hres]; simp [toPair]
    rw [e1, e2]; ring
  · have h2 : fn x' p = fn x p := by
      show rd (schwarzStep A b Tx Tp Sj Sp x d) p = rd x p
      rw [schwarzStep_entry A b Tx Tp Sj Sp x d p (by rw [hx]; exact hpn)]
      have : (∑ c ∈ range (sSize Sp d), if sIdx Sj Sp d c = p then sCorr A b Tx x Tp Sj Sp d c else 0) = 0 := by
        apply Finset.sum_eq_zero
        intro c hc
        rw [if_neg (fun e => hex ⟨c, mem_range.1 hc, e⟩)]
      rw [this, add_zero]
    have e1 : (toPair (fn x') - toPair (fn x)).1 p = 0 := by simp [toPair, h2]
    have e2 : (toPair (fn x') - toPair (fn x)).2 p = 0 := by simp [toPair, h2]
    rw [e1, e2]; ring

/-- the Python driver `relaxation.schwarz` on Gaussian rationals: sizes kept, complex energy never increases -/
theorem pySchwarz_cenergy (A : Csr CRat)
    (hH : IsCAdj (euc ℚ A.n) (euc ℚ A.n) (ccsrOp A.n (rowOf A)) (ccsrOp A.n (rowOf A)))
    (hp : ∀ w, 0 ≤ (cip (euc ℚ A.n) (ccsrOp A.n (rowOf A) w) w).1)
    (b Tx : Array CRat) (Tp Sj Sp : Array Nat)
    (hin : ∀ d, d < Sp.size - 1 → ∀ c < sSize Sp d, sIdx Sj Sp d c < A.n)
    (hT : ∀ d, d < Sp.size - 1 → SubRightInv A Tx Tp Sj Sp d)
    (iters : Nat) (sw : Sweep) (XS : CPair) (hxs : ccsrOp A.n (rowOf A) XS = toPair (fn b))
    (x : Array CRat) (hx : x.size = A.n) :
    (pySchwarz A b Tx Tp Sj Sp iters sw x).size = A.n ∧
      (cEnergy (euc ℚ A.n) (ccsrOp A.n (rowOf A)) hH hp).en (XS - toPair (fn (pySchwarz A b Tx Tp Sj Sp iters sw x))) ≤
        (cEnergy (euc ℚ A.n) (ccsrOp A.n (rowOf A)) hH hp).en (XS - toPair (fn x)) := by
  have hsweep : ∀ (doms : List Nat), (∀ d ∈ doms, d < Sp.size - 1) → ∀ x : Array CRat, x.size = A.n →
      (schwarzSweep A b Tx Tp Sj Sp doms x).size = A.n ∧
      (cEnergy (euc ℚ A.n) (ccsrOp A.n (rowOf A)) hH hp).en (XS - toPair (fn (schwarzSweep A b Tx Tp Sj Sp doms x))) ≤
        (cEnergy (euc ℚ A.n) (ccsrOp A.n (rowOf A)) hH hp).en (XS - toPair (fn x)) := by
    intro doms
    induction doms with
    | nil => intro _ x hx; exact ⟨hx, le_refl _⟩
    | cons d rest ih =>
      intro hd x hx
      have h1 := schwarzStep_cenergy A hH hp b Tx Tp Sj Sp x hx d (hin d (hd d (by simp))) (hT d (hd d (by simp))) XS hxs
      have hsz : (schwarzStep A b Tx Tp Sj Sp x d).size = A.n := by rw [schwarzStep_size, hx]
      obtain ⟨h2, h3⟩ := ih (fun e he => hd e (by simp [he])) (schwarzStep A b Tx Tp Sj Sp x d) hsz
      unfold K.schwarzSweep at h2 h3 ⊢
      simp only [List.foldl_cons]
      exact ⟨h2, le_trans h3 h1⟩
  have hpass : ∀ bw, ∀ x : Array CRat, x.size = A.n →
      (schwarzSweep A b Tx Tp Sj Sp (dirRows (Sp.size - 1) bw) x).size = A.n ∧
      (cEnergy (euc ℚ A.n) (ccsrOp A.n (rowOf A)) hH hp).en
          (XS - toPair (fn (schwarzSweep A b Tx Tp Sj Sp (dirRows (Sp.size - 1) bw) x))) ≤
        (cEnergy (euc ℚ A.n) (ccsrOp A.n (rowOf A)) hH hp).en (XS - toPair (fn x)) :=
    fun bw x hx => hsweep _ (fun d hd => (mem_dirRows _ _ _).1 hd) x hx
  unfold K.pySchwarz
  cases sw with
  | forward =>
    exact kiter_energy (fun x : Array CRat => x.size = A.n)
      (fun x => (cEnergy (euc ℚ A.n) (ccsrOp A.n (rowOf A)) hH hp).en (XS - toPair (fn x))) _ (hpass false) iters x hx
  | backward =>
    exact kiter_energy (fun x : Array CRat => x.size = A.n)
      (fun x => (cEnergy (euc ℚ A.n) (ccsrOp A.n (rowOf A)) hH hp).en (XS - toPair (fn x))) _ (hpass true) iters x hx
  | symmetric =>
    exact kiter_energy (fun x : Array CRat => x.size = A.n)
      (fun x => (cEnergy (euc ℚ A.n) (ccsrOp A.n (rowOf A)) hH hp).en (XS - toPair (fn x)))
      (fun x => schwarzSweep A b Tx Tp Sj Sp (dirRows (Sp.size - 1) true)
        (schwarzSweep A b Tx Tp Sj Sp (dirRows (Sp.size - 1) false) x))
      (fun x hx => by
        obtain ⟨a1, a2⟩ := hpass false x hx
        obtain ⟨a3, a4⟩ := hpass true _ a1
        exact ⟨a3, le_trans a4 a2⟩) iters x hx

/-- **energy clause, schwarz, complex matrices**: exact recorded inverse blocks, Hermitian positive semidefinite matrix -/
theorem relax_schwarz_energy_complex (o : Opts CRat) (ri : Rec CRat) (A : Csr CRat)
    (ho : o.omega = none) (hr : o.withrho = none) (hrec : schwarzRecOK A.n ri = true)
    (hT : ∀ d, d < ri.sp.size - 1 → SubRightInv A ri.tx ri.tp ri.sj ri.sp d)
    (b : Array CRat) (hb : b.size = A.n)
    (hH : IsCAdj (euc ℚ A.n) (euc ℚ A.n) (ccsrOp A.n (rowOf A)) (ccsrOp A.n (rowOf A)))
    (hp : ∀ w, 0 ≤ (cip (euc ℚ A.n) (ccsrOp A.n (rowOf A) w) w).1)
    (XS : CPair) (hxs : ccsrOp A.n (rowOf A) XS = toPair (fn b)) :
    ∃ x, relaxSolveR CRat.conj "schwarz" o ri A b = .ok x ∧ x.size = b.size ∧
      (cEnergy (euc ℚ A.n) (ccsrOp A.n (rowOf A)) hH hp).en (XS - toPair (fn x)) ≤
        (cEnergy (euc ℚ A.n) (ccsrOp A.n (rowOf A)) hH hp).en XS := by
  refine ⟨_, (relaxSolveR_schwarz CRat.conj o ri A b hb ho hr hrec).1, ?_⟩
  obtain ⟨s, e⟩ := pySchwarz_cenergy A hH hp b ri.tx ri.tp ri.sj ri.sp
    (fun d hd c hc => schwarzRecOK_idx A.n ri hrec d hd c hc) hT (o.iterations.getD 10) (o.sweep.getD .forward)
    XS hxs (x0 b) (by simp [hb])
  refine ⟨by rw [s, hb], ?_⟩
  rw [fn_zerosC, toPair_zero, sub_zero] at e
  exact e

end PyamgV.C16Y
