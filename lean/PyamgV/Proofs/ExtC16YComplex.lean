import PyamgV.Proofs.ExtC16Relax
import PyamgV.Proofs.ExtC02XComplex

/-! PyamgV (C16, extension E51): **complex matrices, energy clauses for gauss_seidel / sor / jacobi** as relaxation-type
coarse solvers.

The C16 relaxation model `C16R.relaxSolveR CRat.conj` run on Gaussian rationals (the run the check compares with the real
complex output) is connected with E35's complex energy lemmas (Proofs/ExtC02XComplex.lean: `csmF_cnonexp` =
`cgsSweep_cnonexp` / `csorSweep_cnonexp` / `cjacobi_cnonexp` through the refinement `csm_refines`).

A complex vector `x : Array CRat` is read as the pair `toPair (fn x) = (Re x, Im x)`, the matrix as its realification
`ccsrOp A.n (rowOf A)`, the energy is `cEnergy`: `‖e‖²_A = Re ⟨e, A e⟩` for a Hermitian positive semidefinite `A`
(`IsCAdj`, `0 ≤ Re ⟨A w, w⟩`). -/
set_option linter.unusedSectionVars false
set_option linter.unusedVariables false
namespace PyamgV.C16Y
open PyamgV PyamgV.K PyamgV.C16 PyamgV.C16R PyamgV.C02X Finset

theorem fn_zerosC (n : Nat) : fn (Array.replicate n (0 : CRat)) = 0 := by
  funext i
  simp only [fn, rd, Array.getD_eq_getD_getElem?, Array.getElem?_replicate, Pi.zero_apply]
  split <;> rfl

/-- a smoother of the model (`C02.Sm.run`: the Python drivers `gauss_seidel` / `jacobi` on the kernel models) started
from zeros on Gaussian rationals, admissible in the sense of `csmOK`, Hermitian positive semidefinite matrix: the
complex energy norm of the error does not exceed that of the solution -/
theorem csm_from_zero_energy (s : C02.Sm CRat) (A : Csr CRat)
    (hH : IsCAdj (euc ℚ A.n) (euc ℚ A.n) (ccsrOp A.n (rowOf A)) (ccsrOp A.n (rowOf A)))
    (hp : ∀ w, 0 ≤ (cip (euc ℚ A.n) (ccsrOp A.n (rowOf A) w) w).1)
    (diag : Nat → CRat) (hdiag : ∀ i, i < A.n → HasDiag i (rowOf A i) (diag i)) (hok : csmOK s A diag)
    (b : Array CRat) (hb : b.size = A.n) (XS : CPair) (hxs : ccsrOp A.n (rowOf A) XS = toPair (fn b)) :
    (s.run A b (x0 b)).size = b.size ∧
    (cEnergy (euc ℚ A.n) (ccsrOp A.n (rowOf A)) hH hp).en (XS - toPair (fn (s.run A b (x0 b)))) ≤
      (cEnergy (euc ℚ A.n) (ccsrOp A.n (rowOf A)) hH hp).en XS := by
  obtain ⟨h1, h2⟩ := csm_refines s A b (x0 b) (by simp [hb])
  refine ⟨by rw [h1]; simp, ?_⟩
  have h2' : toPair (fn (s.run A b (x0 b))) = csmF s A (toPair (fn (x0 b))) (toPair (fn b)) := h2
  have hne := (cNonExp_iff (euc ℚ A.n) (ccsrOp A.n (rowOf A)) hH hp (csmF s A)).1
    (csmF_cnonexp s A hH hp diag hdiag hok) (toPair (fn (x0 b))) (toPair (fn b)) XS hxs
  rw [← h2', fn_zerosC, toPair_zero, sub_zero] at hne
  exact hne

/-- **energy clause, gauss_seidel, complex matrices** (`('gauss_seidel', {iterations, sweep})` on a Hermitian positive
semidefinite matrix with one stored diagonal entry per row): `‖x* − x‖_A ≤ ‖x*‖_A` from the zero guess -/
theorem relax_gs_energy_complex (o : Opts CRat) (ri : Rec CRat) (A : Csr CRat)
    (ho : o.omega = none) (hr : o.withrho = none) (b : Array CRat) (hb : b.size = A.n)
    (hH : IsCAdj (euc ℚ A.n) (euc ℚ A.n) (ccsrOp A.n (rowOf A)) (ccsrOp A.n (rowOf A)))
    (hp : ∀ w, 0 ≤ (cip (euc ℚ A.n) (ccsrOp A.n (rowOf A) w) w).1)
    (diag : Nat → CRat) (hdiag : ∀ i, i < A.n → HasDiag i (rowOf A i) (diag i))
    (XS : CPair) (hxs : ccsrOp A.n (rowOf A) XS = toPair (fn b)) :
    ∃ x, relaxSolveR CRat.conj "gauss_seidel" o ri A b = .ok x ∧ x.size = b.size ∧
      (cEnergy (euc ℚ A.n) (ccsrOp A.n (rowOf A)) hH hp).en (XS - toPair (fn x)) ≤
        (cEnergy (euc ℚ A.n) (ccsrOp A.n (rowOf A)) hH hp).en XS := by
  have hsolve : relaxSolveR CRat.conj "gauss_seidel" o ri A b =
      .ok ((C02.Sm.gs (1 : CRat) (o.sweep.getD .forward) (o.iterations.getD 10)).run A b (x0 b)) := by
    rw [relaxSolveR_gs_sor CRat.conj "gauss_seidel" (Or.inl rfl)]
    unfold relaxSolve
    simp [hb, ho, hr, C02.Sm.run, x0]
  refine ⟨_, hsolve, ?_⟩
  exact csm_from_zero_energy (C02.Sm.gs (1 : CRat) (o.sweep.getD .forward) (o.iterations.getD 10)) A hH hp diag hdiag
    (show (1 : CRat).im = 0 ∧ 0 ≤ (1 : CRat).re ∧ (1 : CRat).re ≤ 2 from
      ⟨rfl, by rw [CRat.one_re]; norm_num, by rw [CRat.one_re]; norm_num⟩) b hb XS hxs

/-- **energy clause, sor, complex matrices** (`('sor', {omega, iterations, sweep})`, real `0 ≤ ω ≤ 2`, default `1/2`) -/
theorem relax_sor_energy_complex (o : Opts CRat) (ri : Rec CRat) (A : Csr CRat)
    (hr : o.withrho = none)
    (him : (o.omega.getD ((1 : CRat) / ((1 : CRat) + 1))).im = 0)
    (h0 : 0 ≤ (o.omega.getD ((1 : CRat) / ((1 : CRat) + 1))).re)
    (h2 : (o.omega.getD ((1 : CRat) / ((1 : CRat) + 1))).re ≤ 2)
    (b : Array CRat) (hb : b.size = A.n)
    (hH : IsCAdj (euc ℚ A.n) (euc ℚ A.n) (ccsrOp A.n (rowOf A)) (ccsrOp A.n (rowOf A)))
    (hp : ∀ w, 0 ≤ (cip (euc ℚ A.n) (ccsrOp A.n (rowOf A) w) w).1)
    (diag : Nat → CRat) (hdiag : ∀ i, i < A.n → HasDiag i (rowOf A i) (diag i))
    (XS : CPair) (hxs : ccsrOp A.n (rowOf A) XS = toPair (fn b)) :
    ∃ x, relaxSolveR CRat.conj "sor" o ri A b = .ok x ∧ x.size = b.size ∧
      (cEnergy (euc ℚ A.n) (ccsrOp A.n (rowOf A)) hH hp).en (XS - toPair (fn x)) ≤
        (cEnergy (euc ℚ A.n) (ccsrOp A.n (rowOf A)) hH hp).en XS := by
  have hsolve : relaxSolveR CRat.conj "sor" o ri A b =
      .ok ((C02.Sm.gs (o.omega.getD ((1 : CRat) / ((1 : CRat) + 1))) (o.sweep.getD .forward)
        (o.iterations.getD 10)).run A b (x0 b)) := by
    rw [relaxSolveR_gs_sor CRat.conj "sor" (Or.inr rfl)]
    unfold relaxSolve
    simp [hb, hr, C02.Sm.run, x0]
  refine ⟨_, hsolve, ?_⟩
  exact csm_from_zero_energy (C02.Sm.gs (o.omega.getD ((1 : CRat) / ((1 : CRat) + 1))) (o.sweep.getD .forward)
    (o.iterations.getD 10)) A hH hp diag hdiag
    (show _ ∧ _ ∧ _ from ⟨him, h0, h2⟩) b hb XS hxs

/-- **energy clause, jacobi, complex matrices** (`('jacobi', {omega, withrho, iterations})`, also `block_jacobi` on
point storage): `ω = omega/rho` (recorded estimate) resp. `omega` real and `≥ 0`, non-zero (complex) stored diagonal,
damping bound `ω ‖D⁻¹ r‖²_A ≤ 2 Re⟨D⁻¹ r, r⟩` on the realified space -/
theorem relax_jacobi_energy_complex (name : String) (o : Opts CRat) (ri : Rec CRat)
    (hn : name = "jacobi" ∨ (name = "block_jacobi" ∧ ri.bs = 1)) (A : Csr CRat) (hs : o.sweep = none)
    (ω : CRat) (hω : effOmega o ri.rho id = some ω) (him : ω.im = 0) (h0 : 0 ≤ ω.re)
    (b : Array CRat) (hb : b.size = A.n)
    (hH : IsCAdj (euc ℚ A.n) (euc ℚ A.n) (ccsrOp A.n (rowOf A)) (ccsrOp A.n (rowOf A)))
    (hp : ∀ w, 0 ≤ (cip (euc ℚ A.n) (ccsrOp A.n (rowOf A) w) w).1)
    (diag : Nat → CRat) (hdiag : ∀ i, i < A.n → HasDiag i (rowOf A i) (diag i)) (hnz : ∀ i, i < A.n → diag i ≠ 0)
    (hD : ∀ r, ω.re * (euc ℚ A.n).realify.a (ccsrOp A.n (rowOf A) (cjacDinv A.n diag r)) (cjacDinv A.n diag r) ≤
        2 * (euc ℚ A.n).realify.a (cjacDinv A.n diag r) r)
    (XS : CPair) (hxs : ccsrOp A.n (rowOf A) XS = toPair (fn b)) :
    ∃ x, relaxSolveR CRat.conj name o ri A b = .ok x ∧ x.size = b.size ∧
      (cEnergy (euc ℚ A.n) (ccsrOp A.n (rowOf A)) hH hp).en (XS - toPair (fn x)) ≤
        (cEnergy (euc ℚ A.n) (ccsrOp A.n (rowOf A)) hH hp).en XS := by
  have hsolve : relaxSolveR CRat.conj name o ri A b =
      .ok ((C02.Sm.jac ω (o.iterations.getD 10)).run A b (x0 b)) := by
    rw [relaxSolveR_jacobi CRat.conj name o ri hn A b hb hs ω hω]
    rfl
  refine ⟨_, hsolve, ?_⟩
  exact csm_from_zero_energy (C02.Sm.jac ω (o.iterations.getD 10)) A hH hp diag hdiag
    (show _ ∧ _ ∧ _ ∧ _ from ⟨him, h0, hnz, hD⟩) b hb XS hxs

end PyamgV.C16Y
