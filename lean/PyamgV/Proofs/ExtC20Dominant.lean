import PyamgV.Proofs.ExtC20Sums
import Mathlib.Algebra.Order.Field.Rat
import Mathlib.Tactic.Positivity

/-! PyamgV (C20, extension E21): the energy identity of a symmetric matrix,

  `xᵀ M x = Σ_p (Σ_q M p q) x_p² + ½ Σ_p Σ_q (-M p q) (x_p - x_q)²`,

so a symmetric Z-matrix with non-negative row sums (weakly diagonally dominant) is positive semi-definite,
and `xᵀ M x = 0` forces `x_p = 0` wherever the row sum is positive and `x_p = x_q` wherever `M p q ≠ 0`.
Pure algebra over `Rat`, no model involved. -/
namespace PyamgV.C20
open Finset

/-- row sum of the leading `n × n` block -/
def rsum (n : Nat) (M : Nat → Nat → Rat) (p : Nat) : Rat := ∑ q ∈ range n, M p q

theorem qf_energy (n : Nat) (M : Nat → Nat → Rat) (hsym : ∀ p < n, ∀ q < n, M p q = M q p) (x : Nat → Rat) :
    qf n M x = (∑ p ∈ range n, rsum n M p * x p ^ 2) +
      (1 / 2) * ∑ p ∈ range n, ∑ q ∈ range n, (-M p q) * (x p - x q) ^ 2 := by
  have hA : (∑ p ∈ range n, ∑ q ∈ range n, M p q * x p ^ 2) = ∑ p ∈ range n, rsum n M p * x p ^ 2 := by
    apply Finset.sum_congr rfl
    intro p _
    unfold rsum
    rw [Finset.sum_mul]
  have hC : (∑ p ∈ range n, ∑ q ∈ range n, M p q * x q ^ 2) = ∑ p ∈ range n, ∑ q ∈ range n, M p q * x p ^ 2 := by
    rw [Finset.sum_comm]
    apply Finset.sum_congr rfl
    intro p hp
    apply Finset.sum_congr rfl
    intro q hq
    rw [hsym q (Finset.mem_range.1 hq) p (Finset.mem_range.1 hp)]
  have hB : qf n M x = ∑ p ∈ range n, ∑ q ∈ range n, M p q * x p * x q := by
    unfold qf mv
    apply Finset.sum_congr rfl
    intro p _
    rw [Finset.mul_sum]
    apply Finset.sum_congr rfl
    intro q _
    ring
  have hE : (∑ p ∈ range n, ∑ q ∈ range n, (-M p q) * (x p - x q) ^ 2) =
      -(∑ p ∈ range n, ∑ q ∈ range n, M p q * x p ^ 2) + 2 * (∑ p ∈ range n, ∑ q ∈ range n, M p q * x p * x q) -
        ∑ p ∈ range n, ∑ q ∈ range n, M p q * x q ^ 2 := by
    rw [Finset.mul_sum, ← Finset.sum_neg_distrib, ← Finset.sum_add_distrib, ← Finset.sum_sub_distrib]
    apply Finset.sum_congr rfl
    intro p _
    rw [Finset.mul_sum, ← Finset.sum_neg_distrib, ← Finset.sum_add_distrib, ← Finset.sum_sub_distrib]
    apply Finset.sum_congr rfl
    intro q _
    ring
  rw [hE, hC, hA, hB]
  ring

/-- a symmetric Z-matrix with non-negative row sums is positive semi-definite -/
theorem qf_dominant_nonneg (n : Nat) (M : Nat → Nat → Rat) (hsym : ∀ p < n, ∀ q < n, M p q = M q p)
    (hz : ∀ p < n, ∀ q < n, p ≠ q → M p q ≤ 0) (hr : ∀ p < n, 0 ≤ rsum n M p) (x : Nat → Rat) :
    0 ≤ qf n M x := by
  rw [qf_energy n M hsym x]
  apply add_nonneg
  · exact Finset.sum_nonneg fun p hp => mul_nonneg (hr p (Finset.mem_range.1 hp)) (sq_nonneg _)
  · apply mul_nonneg (by norm_num)
    apply Finset.sum_nonneg
    intro p hp
    apply Finset.sum_nonneg
    intro q hq
    by_cases hpq : p = q
    · subst hpq; simp
    · exact mul_nonneg (by have := hz p (Finset.mem_range.1 hp) q (Finset.mem_range.1 hq) hpq; linarith) (sq_nonneg _)

/-- zero energy: `x` vanishes where the row sum is positive and is constant across nonzero couplings -/
theorem qf_dominant_zero (n : Nat) (M : Nat → Nat → Rat) (hsym : ∀ p < n, ∀ q < n, M p q = M q p)
    (hz : ∀ p < n, ∀ q < n, p ≠ q → M p q ≤ 0) (hr : ∀ p < n, 0 ≤ rsum n M p) (x : Nat → Rat)
    (h : qf n M x = 0) :
    (∀ p < n, 0 < rsum n M p → x p = 0) ∧ (∀ p < n, ∀ q < n, M p q ≠ 0 → x p = x q) := by
  rw [qf_energy n M hsym x] at h
  have t1 : ∀ p ∈ range n, 0 ≤ rsum n M p * x p ^ 2 :=
    fun p hp => mul_nonneg (hr p (Finset.mem_range.1 hp)) (sq_nonneg _)
  have t2 : ∀ p ∈ range n, ∀ q ∈ range n, 0 ≤ (-M p q) * (x p - x q) ^ 2 := by
    intro p hp q hq
    by_cases hpq : p = q
    · subst hpq; simp
    · exact mul_nonneg (by have := hz p (Finset.mem_range.1 hp) q (Finset.mem_range.1 hq) hpq; linarith) (sq_nonneg _)
  have s1 := Finset.sum_nonneg t1
  have s2 : 0 ≤ ∑ p ∈ range n, ∑ q ∈ range n, (-M p q) * (x p - x q) ^ 2 :=
    Finset.sum_nonneg fun p hp => Finset.sum_nonneg fun q hq => t2 p hp q hq
  have z1 : (∑ p ∈ range n, rsum n M p * x p ^ 2) = 0 := by linarith
  have z2 : (∑ p ∈ range n, ∑ q ∈ range n, (-M p q) * (x p - x q) ^ 2) = 0 := by linarith
  refine ⟨?_, ?_⟩
  · intro p hp hpos
    have := (Finset.sum_eq_zero_iff_of_nonneg t1).1 z1 p (Finset.mem_range.2 hp)
    rcases mul_eq_zero.1 this with h0 | h0
    · linarith
    · exact pow_eq_zero_iff (by decide) |>.1 h0
  · intro p hp q hq hne
    have hp' := Finset.mem_range.2 hp
    have hq' := Finset.mem_range.2 hq
    have a1 := (Finset.sum_eq_zero_iff_of_nonneg
      (fun p hp => Finset.sum_nonneg fun q hq => t2 p hp q hq)).1 z2 p hp'
    have a2 := (Finset.sum_eq_zero_iff_of_nonneg (t2 p hp')).1 a1 q hq'
    rcases mul_eq_zero.1 a2 with h0 | h0
    · exact absurd (by linarith : M p q = 0) hne
    · have : x p - x q = 0 := pow_eq_zero_iff (by decide) |>.1 h0
      linarith

end PyamgV.C20
