import PyamgV.Proofs.ExtGraphBridge

/-! PyamgV (C18 extension): `vertex_coloring_jones_plassmann` and `vertex_coloring_LDF`
(graph.h:296, 350) — the validated CSR-array models `G.coloringJP`, `G.coloringLDF` terminate within
`n` rounds (fuel `n + 1`) for every symmetric graph and every weight assignment, and return a proper
colouring whose colours are exactly `0..K-1`; the returned value is `K - 1`.

Round `K`: one sweep of the parallel MIS (`act = -1`, `C = K`, `F = -2`) on the uncoloured nodes,
`-2 → -1`, then `vertex_coloring_first_fit` recolours every `K` node with the smallest colour not
used by a neighbour.  Invariant between rounds (`RJ`): entries are colours `< K` or `-1`; coloured
nodes differ from their neighbours; the set of used colours is downward closed (first fit).
Core Lean only. -/
namespace PyamgV.Ext
open PyamgV PyamgV.Col

variable {W : Type} [LT W] [DecidableRel (α := W) (· < ·)] [DecidableEq W] [Inhabited W]

/-! ### `-2 → -1` -/

theorem resetF_spec (n : Nat) (x : Array Int) :
    (G.resetF n x).size = x.size ∧
    ∀ m, rd (G.resetF n x) m = if m < n ∧ rd x m = -2 then -1 else rd x m := by
  unfold G.resetF
  have key := foldl_range_inv
    (fun (k : Nat) (s : Array Int) => s.size = x.size ∧
      ∀ m, rd s m = if m < k ∧ rd x m = -2 then -1 else rd x m)
    (fun x i => if G.rdI x i = -2 then G.wrI x i (-1) else x) n x
    ⟨rfl, by intro m; simp⟩
    (by
      intro k s _ ⟨h1, h2⟩
      have hk : G.rdI s k = rd x k := by
        show rd s k = rd x k
        rw [h2 k]; simp
      show (if G.rdI s k = -2 then G.wrI s k (-1) else s).size = x.size ∧ _
      by_cases hc : rd x k = -2
      · rw [if_pos (by rw [hk]; exact hc)]
        refine ⟨by show (wr s k (-1)).size = _; simpa using h1, ?_⟩
        intro m
        show rd (wr s k (-1)) m = _
        rw [rd_wr]
        by_cases hmk : k = m
        · subst hmk
          have hks : k < s.size := by
            apply Classical.byContradiction
            intro hn
            have : rd x k = 0 := by
              unfold rd; rw [Array.getD_eq_getD_getElem?, Array.getElem?_eq_none (by omega)]; rfl
            omega
          simp [hks, hc]
        · have hmk' : m ≠ k := fun e => hmk e.symm
          rw [if_neg (fun h => hmk h.1), h2 m]
          by_cases hm : m < k
          · have : m < k + 1 := by omega
            simp [hm, this]
          · have : ¬ m < k + 1 := by omega
            simp [hm, this]
      · rw [if_neg (by rw [hk]; exact hc)]
        refine ⟨h1, ?_⟩
        intro m
        rw [h2 m]
        by_cases hmk : m = k
        · subst hmk; simp [hc]
        · have : (m < k + 1) ↔ (m < k) := by omega
          simp only [this])
  exact key

/-! ### first fit -/

theorem ffScan_spec (p : Nat → Bool) : ∀ r c,
    c ≤ G.ffScan p r c ∧ G.ffScan p r c ≤ c + r ∧
    (∀ c', c ≤ c' → c' < G.ffScan p r c → p c' = true) ∧
    (G.ffScan p r c < c + r → p (G.ffScan p r c) = false) := by
  intro r
  induction r with
  | zero =>
    intro c
    simp only [G.ffScan]
    exact ⟨Nat.le_refl _, Nat.le_refl _, fun c' h1 h2 => by omega, fun h => by omega⟩
  | succ r ih =>
    intro c
    simp only [G.ffScan]
    by_cases hp : p c = true
    · rw [if_pos hp]
      obtain ⟨h1, h2, h3, h4⟩ := ih (c+1)
      refine ⟨by omega, by omega, ?_, fun h => h4 (by omega)⟩
      intro c' hc1 hc2
      by_cases hcc : c' = c
      · subst hcc; exact hp
      · exact h3 c' (by omega) hc2
    · rw [if_neg hp]
      refine ⟨Nat.le_refl _, by omega, fun c' h1 h2 => by omega, fun _ => by simpa using hp⟩

theorem getD_setTrue (mask : Array Bool) (a c : Nat) :
    (mask.setIfInBounds a true).getD c false = (mask.getD c false || decide (a = c ∧ a < mask.size)) := by
  simp only [Array.getD_eq_getD_getElem?, Array.getElem?_setIfInBounds]
  by_cases h : a = c
  · subst h
    by_cases h2 : a < mask.size <;> simp [h2]
  · simp [h]

/-- the mask of node `i`: entry `c` is set iff a neighbour `j ≠ i` has colour `c` -/
theorem ffMask_spec (x : Array Int) (K i : Nat) : ∀ (row : List Nat) (m0 : Array Bool), m0.size = K →
    let m := row.foldl (fun (mask : Array Bool) j =>
      if i = j then mask else if G.rdI x j < 0 then mask
      else mask.setIfInBounds (G.rdI x j).toNat true) m0
    m.size = K ∧ ∀ c, c < K → (m.getD c false = true ↔
      (m0.getD c false = true ∨ ∃ j ∈ row, j ≠ i ∧ rd x j = (c : Int))) := by
  intro row
  induction row with
  | nil => intro m0 h0; exact ⟨h0, fun c _ => by simp⟩
  | cons j js ih =>
    intro m0 h0
    simp only [List.foldl_cons]
    by_cases hij : i = j
    · rw [if_pos hij]
      obtain ⟨h1, h2⟩ := ih m0 h0
      refine ⟨h1, ?_⟩
      intro c hc
      rw [h2 c hc]
      constructor
      · rintro (h | ⟨j', hj', hne, hv⟩)
        · exact Or.inl h
        · exact Or.inr ⟨j', by simp [hj'], hne, hv⟩
      · rintro (h | ⟨j', hj', hne, hv⟩)
        · exact Or.inl h
        · rcases List.mem_cons.1 hj' with e | hj''
          · exact absurd (e.trans hij.symm) hne
          · exact Or.inr ⟨j', hj'', hne, hv⟩
    · rw [if_neg hij]
      have hji : j ≠ i := fun e => hij e.symm
      by_cases hneg : G.rdI x j < 0
      · rw [if_pos hneg]
        obtain ⟨h1, h2⟩ := ih m0 h0
        refine ⟨h1, ?_⟩
        intro c hc
        rw [h2 c hc]
        constructor
        · rintro (h | ⟨j', hj', hne, hv⟩)
          · exact Or.inl h
          · exact Or.inr ⟨j', by simp [hj'], hne, hv⟩
        · rintro (h | ⟨j', hj', hne, hv⟩)
          · exact Or.inl h
          · rcases List.mem_cons.1 hj' with e | hj''
            · subst e
              have : rd x j' < 0 := hneg
              omega
            · exact Or.inr ⟨j', hj'', hne, hv⟩
      · rw [if_neg hneg]
        have hpos : 0 ≤ rd x j := by
          have : ¬ rd x j < 0 := hneg
          omega
        obtain ⟨h1, h2⟩ := ih (m0.setIfInBounds (G.rdI x j).toNat true) (by simpa using h0)
        refine ⟨h1, ?_⟩
        intro c hc
        rw [h2 c hc, getD_setTrue]
        have hrd : G.rdI x j = rd x j := rfl
        constructor
        · rintro (h | ⟨j', hj', hne, hv⟩)
          · simp only [Bool.or_eq_true, decide_eq_true_eq] at h
            rcases h with h | ⟨h, _⟩
            · exact Or.inl h
            · refine Or.inr ⟨j, by simp, hji, ?_⟩
              rw [hrd] at h; omega
          · exact Or.inr ⟨j', by simp [hj'], hne, hv⟩
        · rintro (h | ⟨j', hj', hne, hv⟩)
          · left; simp [h]
          · rcases List.mem_cons.1 hj' with e | hj''
            · subst e
              left
              simp only [Bool.or_eq_true, decide_eq_true_eq]
              right
              rw [hrd, h0]; constructor <;> omega
            · exact Or.inr ⟨j', hj'', hne, hv⟩

theorem ffMask_congr (x x' : Array Int) (i : Nat) : ∀ (row : List Nat) (m0 : Array Bool),
    (∀ j ∈ row, j ≠ i → rd x j = rd x' j) →
    row.foldl (fun (mask : Array Bool) j =>
      if i = j then mask else if G.rdI x j < 0 then mask
      else mask.setIfInBounds (G.rdI x j).toNat true) m0 =
    row.foldl (fun (mask : Array Bool) j =>
      if i = j then mask else if G.rdI x' j < 0 then mask
      else mask.setIfInBounds (G.rdI x' j).toNat true) m0 := by
  intro row
  induction row with
  | nil => intro m0 _; rfl
  | cons j js ih =>
    intro m0 h
    simp only [List.foldl_cons]
    have hrest := fun m => ih m (fun k hk hne => h k (by simp [hk]) hne)
    by_cases hij : i = j
    · rw [if_pos hij, if_pos hij]; exact hrest _
    · rw [if_neg hij, if_neg hij]
      have e : G.rdI x j = G.rdI x' j := h j (by simp) (fun e => hij e.symm)
      rw [e]; exact hrest _

/-- the colour first fit gives to node `i` when the colours are read from `x` -/
def ffc (Gc : G.Graph) (K : Nat) (x : Array Int) (i : Nat) : Nat :=
  G.firstFalse (G.ffMask x K i (Gc.row i))

/-- first fit colour: at most `K`, not a neighbour's colour, every smaller colour is a neighbour's -/
theorem ffc_spec (Gc : G.Graph) (K : Nat) (x : Array Int) (i : Nat) :
    ffc Gc K x i ≤ K ∧
    (∀ j ∈ Gc.row i, j ≠ i → rd x j < (K : Int) → rd x j ≠ (ffc Gc K x i : Int)) ∧
    (∀ c, c < ffc Gc K x i → ∃ j ∈ Gc.row i, j ≠ i ∧ rd x j = (c : Int)) := by
  unfold ffc G.firstFalse G.ffMask
  obtain ⟨hs, hm⟩ := ffMask_spec x K i (Gc.row i) (Array.replicate K false) (by simp)
  generalize (Gc.row i).foldl _ (Array.replicate K false) = mask at hs hm
  obtain ⟨_, h2, h3, h4⟩ := ffScan_spec (fun c => mask.getD c false) mask.size 0
  rw [hs] at h2 h3 h4 ⊢
  simp only [Nat.zero_add] at h2 h4
  have h0 : ∀ c, c < K → ((Array.replicate K false).getD c false = true) = False := by
    intro c hc; simp [hc]
  refine ⟨h2, ?_, ?_⟩
  · intro j hj hji hlt he
    -- the colour found would be marked
    have hpos : 0 ≤ rd x j := by rw [he]; omega
    have hcK : G.ffScan (fun c => mask.getD c false) K 0 < K := by omega
    have := h4 hcK
    have hset : mask.getD (G.ffScan (fun c => mask.getD c false) K 0) false = true := by
      rw [hm _ hcK]; exact Or.inr ⟨j, hj, hji, he⟩
    rw [hset] at this; exact absurd this (by simp)
  · intro c hc
    have hcK : c < K := by omega
    have := h3 c (Nat.zero_le _) hc
    rw [hm c hcK, h0 c hcK] at this
    rcases this with h | h
    · exact absurd h id
    · exact h

/-- `vertex_coloring_first_fit` on a state in which the `K` nodes are pairwise non-adjacent:
every `K` node gets its first-fit colour w.r.t. the initial state, everything else is kept -/
theorem firstFit_spec (Gc : G.Graph) (K : Nat) (x : Array Int)
    (hsz : x.size = Gc.n)
    (hK : ∀ i, i < Gc.n → rd x i = (K : Int) → ∀ j ∈ Gc.row i, j ≠ i → rd x j ≠ (K : Int)) :
    (G.firstFit Gc K x).size = Gc.n ∧
    ∀ m, rd (G.firstFit Gc K x) m =
      if m < Gc.n ∧ rd x m = (K : Int) then (ffc Gc K x m : Int) else rd x m := by
  unfold G.firstFit
  have key := foldl_range_inv
    (fun (k : Nat) (s : Array Int) => s.size = Gc.n ∧
      ∀ m, rd s m = if m < k ∧ rd x m = (K : Int) then (ffc Gc K x m : Int) else rd x m)
    (fun x i => if G.rdI x i ≠ (K : Int) then x
      else G.wrI x i (G.firstFalse (G.ffMask x K i (Gc.row i)))) Gc.n x
    ⟨hsz, by intro m; simp⟩
    (by
      intro k s hkn ⟨h1, h2⟩
      have hk : G.rdI s k = rd x k := by
        show rd s k = rd x k
        rw [h2 k]; simp
      show (if G.rdI s k ≠ (K : Int) then s
        else G.wrI s k (G.firstFalse (G.ffMask s K k (Gc.row k)))).size = Gc.n ∧ _
      by_cases hc : rd x k = (K : Int)
      · rw [if_neg (by rw [hk]; simpa using hc)]
        have hcol : G.firstFalse (G.ffMask s K k (Gc.row k)) = ffc Gc K x k := by
          unfold ffc G.ffMask
          rw [ffMask_congr s x k (Gc.row k)]
          intro j hj hjk
          rw [h2 j, if_neg]
          intro hh
          exact hK k hkn hc j hj hjk hh.2
        rw [hcol]
        refine ⟨by show (wr s k _).size = _; simpa using h1, ?_⟩
        intro m
        show rd (wr s k _) m = _
        rw [rd_wr]
        by_cases hmk : k = m
        · subst hmk
          simp [h1, hkn, hc]
        · rw [if_neg (fun h => hmk h.1), h2 m]
          have hmk' : m ≠ k := fun e => hmk e.symm
          have : (m < k + 1) ↔ (m < k) := by omega
          simp only [this]
      · rw [if_pos (by rw [hk]; exact hc)]
        refine ⟨h1, ?_⟩
        intro m
        rw [h2 m]
        by_cases hmk : m = k
        · subst hmk; simp [hc]
        · have : (m < k + 1) ↔ (m < k) := by omega
          simp only [this])
  exact key

/-! ### the round invariant -/

/-- state between rounds: colours `< K` or `-1`; coloured nodes differ from their neighbours;
the used colours are downward closed -/
structure RJ (G : Graph) (K : Nat) (x : Array Int) : Prop where
  size : x.size = G.n
  vals : ∀ i, i < G.n → (0 ≤ rd x i ∧ rd x i < (K : Int)) ∨ rd x i = -1
  proper : ∀ i, i < G.n → 0 ≤ rd x i → ∀ j ∈ G.adj i, j ≠ i → rd x j ≠ rd x i
  closed : ∀ i, i < G.n → ∀ c : Int, 0 ≤ c → c < rd x i → ∃ j, j < G.n ∧ rd x j = c

theorem RJ_init (G : Graph) : RJ G 0 (Array.replicate G.n (-1)) := by
  refine ⟨by simp, ?_, ?_, ?_⟩
  · intro i hi; right; simp [rd, hi]
  · intro i hi hpos; simp [rd, hi] at hpos
  · intro i hi c h0 hc; simp [rd, hi] at hc; omega

/-- **one round** of Jones–Plassmann / LDF, any weights -/
theorem round_spec (hW : WOrd W) (Gc : G.Graph) (hG : GraphOK (pg Gc)) (K : Nat) (w : Array W)
    (x : Array Int) (h : RJ (pg Gc) K x) (r : Array Int × Nat)
    (hr : r = G.misParallel Gc (-1) (K : Int) (-2) w (some 1) x) (x' : Array Int)
    (hx' : x' = G.firstFit Gc K (G.resetF Gc.n r.1)) :
    RJ (pg Gc) (K+1) x' ∧ cntPos Gc.n x' = cntPos Gc.n x + r.2 ∧
    ((∃ i, i < Gc.n ∧ rd x i = -1) → 1 ≤ r.2) := by
  have hn : (pg Gc).n = Gc.n := rfl
  have hadj : ∀ i, (pg Gc).adj i = Gc.row i := fun _ => rfl
  have hCA : (K : Int) ≠ -1 := by omega
  have hFA : (-2 : Int) ≠ -1 := by omega
  have hCF : (K : Int) ≠ -2 := by omega
  have hfresh : ∀ i, i < (pg Gc).n → rd x i ≠ (K : Int) ∧ rd x i ≠ -2 := by
    intro i hi
    rcases h.vals i hi with h1 | h1 <;> constructor <;> omega
  -- the sweep
  have hr1 : r.1 = parPass (pg Gc) (-1) (K : Int) (-2) (look w) x := by
    rw [hr, misParallel_one, misParPass_fst]
  have hr2 : cntEq Gc.n (K : Int) r.1 = r.2 := by
    rw [hr, misParallel_one]
    have := misParPass_count Gc hG (-1) (K : Int) (-2) hCA hFA hCF w x h.size
    have h0 : cntEq Gc.n (K : Int) x = 0 := by
      unfold cntEq
      apply List.countP_eq_zero.2
      intro i hi
      rw [List.mem_range] at hi
      simpa using (hfresh i hi).1
    rw [h0, Nat.zero_add] at this
    exact this
  have hP := parPass_PG (pg Gc) hG (-1) (K : Int) (-2) hCA hFA hCF (look w) x h.size hfresh
  rw [← hr1] at hP
  have hprog : (∃ i, i < Gc.n ∧ rd x i = -1) → ∃ i, i < Gc.n ∧ rd r.1 i = (K : Int) := by
    intro hs
    rw [hr1]
    exact parPass_progress hW (pg Gc) hG (-1) (K : Int) (-2) hCA hFA hCF (look w) x h.size hfresh hs
  generalize r.1 = x1 at hP hr2 hprog hx'
  generalize r.2 = cnt at hr2
  -- classification after the sweep
  have hcls1 : ∀ i, i < Gc.n →
      (0 ≤ rd x i ∧ rd x i < (K : Int) ∧ rd x1 i = rd x i) ∨
      (rd x i = -1 ∧ (rd x1 i = -1 ∨ rd x1 i = (K : Int) ∨ rd x1 i = -2)) := by
    intro i hi
    rcases hP.vals i hi with ⟨h1, h2⟩ | ⟨h1, h2⟩
    · rcases h.vals i hi with h3 | h3
      · exact Or.inl ⟨h3.1, h3.2, h2⟩
      · exact absurd h3 h1
    · exact Or.inr ⟨h1, h2⟩
  -- the reset
  obtain ⟨hs2, hv2⟩ := resetF_spec Gc.n x1
  have hsz1 : x1.size = Gc.n := hP.size
  generalize G.resetF Gc.n x1 = x2 at hs2 hv2 hx'
  have hcls2 : ∀ i, i < Gc.n →
      (0 ≤ rd x i ∧ rd x i < (K : Int) ∧ rd x2 i = rd x i) ∨
      (rd x i = -1 ∧ ((rd x2 i = -1 ∧ rd x1 i ≠ (K : Int)) ∨
        (rd x2 i = (K : Int) ∧ rd x1 i = (K : Int)))) := by
    intro i hi
    rw [hv2 i]
    rcases hcls1 i hi with ⟨h1, h2, h3⟩ | ⟨h1, h2 | h2 | h2⟩
    · left; refine ⟨h1, h2, ?_⟩
      rw [if_neg (by omega)]; exact h3
    · right; refine ⟨h1, Or.inl ⟨?_, by omega⟩⟩
      rw [if_neg (by omega)]; exact h2
    · right; refine ⟨h1, Or.inr ⟨?_, h2⟩⟩
      rw [if_neg (by omega)]; exact h2
    · right; refine ⟨h1, Or.inl ⟨?_, by omega⟩⟩
      rw [if_pos ⟨hi, h2⟩]
  have hK2 : ∀ i, i < Gc.n → rd x2 i = (K : Int) → ∀ j ∈ Gc.row i, j ≠ i → rd x2 j ≠ (K : Int) := by
    intro i hi hiK j hj hji hjK
    have hjn : j < Gc.n := hG.bound i hi j hj
    have hi1 : rd x1 i = (K : Int) := by
      rcases hcls2 i hi with ⟨_, h2, h3⟩ | ⟨_, ⟨h2, _⟩ | ⟨_, h2⟩⟩
      · omega
      · omega
      · exact h2
    have hj1 : rd x1 j = (K : Int) := by
      rcases hcls2 j hjn with ⟨_, h2, h3⟩ | ⟨_, ⟨h2, _⟩ | ⟨_, h2⟩⟩
      · omega
      · omega
      · exact h2
    exact (hP.cnb i hi hi1 j hj hji).2 hj1
  -- first fit
  obtain ⟨hs3, hv3⟩ := firstFit_spec Gc K x2 (by rw [hs2]; exact hsz1) hK2
  rw [← hx'] at hs3 hv3
  clear hx'
  -- final classification
  have hcls3 : ∀ i, i < Gc.n →
      (0 ≤ rd x i ∧ rd x i < (K : Int) ∧ rd x2 i = rd x i ∧ rd x' i = rd x i) ∨
      (rd x i = -1 ∧ rd x2 i = -1 ∧ rd x' i = -1 ∧ rd x1 i ≠ (K : Int)) ∨
      (rd x i = -1 ∧ rd x2 i = (K : Int) ∧ rd x' i = (ffc Gc K x2 i : Int) ∧ rd x1 i = (K : Int)) := by
    intro i hi
    rw [hv3 i]
    rcases hcls2 i hi with ⟨h1, h2, h3⟩ | ⟨h1, ⟨h2, h3⟩ | ⟨h2, h3⟩⟩
    · left; refine ⟨h1, h2, h3, ?_⟩
      rw [if_neg (by omega)]; exact h3
    · right; left; refine ⟨h1, h2, ?_, h3⟩
      rw [if_neg (by omega)]; exact h2
    · right; right; refine ⟨h1, h2, ?_, h3⟩
      rw [if_pos ⟨hi, h2⟩]
  refine ⟨⟨hs3, ?_, ?_, ?_⟩, ?_, ?_⟩
  · -- values
    intro i hi
    rcases hcls3 i hi with ⟨h1, h2, _, h4⟩ | ⟨_, _, h3, _⟩ | ⟨_, _, h3, _⟩
    · left; rw [h4]; constructor <;> omega
    · right; exact h3
    · left; rw [h3]
      have := (ffc_spec Gc K x2 i).1
      constructor <;> omega
  · -- proper
    intro i hi hpos j hj hji
    rw [hadj] at hj
    have hjn : j < Gc.n := hG.bound i hi j hj
    have hij : i ∈ Gc.row j := (hG.symm i j hi hjn).1 hj
    rcases hcls3 i hi with ⟨h1, h2, h3, h4⟩ | ⟨_, _, h3, _⟩ | ⟨_, h2, h3, _⟩
    · rcases hcls3 j hjn with ⟨g1, g2, g3, g4⟩ | ⟨_, _, g3, _⟩ | ⟨_, g2, g3, _⟩
      · rw [h4, g4]; exact h.proper i hi h1 j hj hji
      · rw [h4, g3]; omega
      · -- j is new: its first-fit colour differs from the old colour of i
        rw [h4, g3]
        have := (ffc_spec Gc K x2 j).2.1 i hij (Ne.symm hji) (by rw [h3]; exact h2)
        rw [h3] at this
        exact fun e => this e.symm
    · rw [h3] at hpos; omega
    · rcases hcls3 j hjn with ⟨g1, g2, g3, g4⟩ | ⟨_, _, g3, _⟩ | ⟨_, g2, _, _⟩
      · rw [h3, g4]
        have := (ffc_spec Gc K x2 i).2.1 j hj hji (by rw [g3]; exact g2)
        rw [g3] at this
        exact this
      · rw [h3, g3]; omega
      · exact absurd g2 (hK2 i hi h2 j hj hji)
  · -- downward closed
    intro i hi c hc0 hci
    have hold : ∀ j, j < Gc.n → 0 ≤ rd x j → rd x' j = rd x j := by
      intro j hj hp
      rcases hcls3 j hj with ⟨_, _, _, g4⟩ | ⟨g1, _⟩ | ⟨g1, _⟩
      · exact g4
      · omega
      · omega
    rcases hcls3 i hi with ⟨h1, h2, h3, h4⟩ | ⟨_, _, h3, _⟩ | ⟨_, h2, h3, _⟩
    · rw [h4] at hci
      obtain ⟨j, hj, hjc⟩ := h.closed i hi c hc0 hci
      exact ⟨j, hj, by rw [hold j hj (by omega)]; exact hjc⟩
    · rw [h3] at hci; omega
    · rw [h3] at hci
      obtain ⟨j, hj, hji, hjc⟩ := (ffc_spec Gc K x2 i).2.2 c.toNat (by omega)
      have hjn : j < Gc.n := hG.bound i hi j hj
      have hjc' : rd x2 j = c := by rw [hjc]; omega
      refine ⟨j, hjn, ?_⟩
      rcases hcls3 j hjn with ⟨_, _, g3, g4⟩ | ⟨_, g2, _, _⟩ | ⟨_, g2, _, _⟩
      · rw [g4, ← g3]; exact hjc'
      · omega
      · exact absurd g2 (hK2 i hi h2 j hj hji)
  · -- the count
    rw [← hr2]
    unfold cntPos cntEq
    apply countP_or_excl
    · intro i hi
      rw [List.mem_range] at hi
      rcases hcls3 i hi with ⟨h1, _, _, h4⟩ | ⟨h1, _, h3, h4⟩ | ⟨h1, _, h3, h4⟩
      · have hne : ¬ rd x1 i = (K : Int) := by
          rcases hcls1 i hi with ⟨_, g2, g3⟩ | ⟨g1, _⟩
          · omega
          · omega
        simp [h4, h1, hne]
      · have hneg : ¬ 0 ≤ rd x i := by omega
        have hneg3 : ¬ 0 ≤ rd x' i := by omega
        simp [hneg, hneg3, h4]
      · have hneg : ¬ 0 ≤ rd x i := by omega
        have hpos3 : 0 ≤ rd x' i := by rw [h3]; omega
        simp [hneg, hpos3, h4]
    · intro i hi hboth
      rw [List.mem_range] at hi
      have hp : 0 ≤ rd x i := by simpa using hboth.1
      have hq : rd x1 i = (K : Int) := by simpa using hboth.2
      rcases hcls1 i hi with ⟨_, g2, g3⟩ | ⟨g1, _⟩
      · omega
      · omega
  · intro hs
    obtain ⟨i, hi, hiK⟩ := hprog hs
    rw [← hr2]
    unfold cntEq
    apply List.countP_pos_iff.2
    exact ⟨i, List.mem_range.2 hi, by simpa using hiK⟩


/-! ### the outer loop -/

theorem exists_uncoloured {G : Graph} {K : Nat} {x : Array Int} (h : RJ G K x)
    (hN : cntPos G.n x < G.n) : ∃ i, i < G.n ∧ rd x i = -1 := by
  apply Classical.byContradiction
  intro hne
  have hall : ∀ i ∈ List.range G.n, (fun i => decide (0 ≤ rd x i)) i = true := by
    intro i hi
    rw [List.mem_range] at hi
    rcases h.vals i hi with h1 | h1
    · simpa using h1.1
    · exact absurd ⟨i, hi, h1⟩ hne
  have := List.countP_eq_length.2 hall
  unfold cntPos at hN
  rw [this, List.length_range] at hN
  omega

theorem all_coloured {n : Nat} {x : Array Int} (hN : n ≤ cntPos n x) : ∀ i, i < n → 0 ≤ rd x i := by
  have hall : ∀ i ∈ List.range n, (fun i => decide (0 ≤ rd x i)) i = true := by
    apply List.countP_eq_length.1
    have := List.countP_le_length (p := fun i => decide (0 ≤ rd x i)) (l := List.range n)
    unfold cntPos at hN
    rw [List.length_range] at this ⊢
    omega
  intro i hi
  simpa using hall i (List.mem_range.2 hi)

theorem parColorLoop_spec (hW : WOrd W) (Gc : G.Graph) (hG : GraphOK (pg Gc))
    (upd : Array Int → Array W → Array W) :
    ∀ (fuel : Nat) (x : Array Int) (w : Array W) (N K : Nat), RJ (pg Gc) K x →
      N = cntPos Gc.n x → Gc.n - N + 1 ≤ fuel →
      ∃ x' K', G.parColorLoop Gc upd fuel x w N K = some x' ∧ RJ (pg Gc) K' x' ∧
        ∀ i, i < Gc.n → 0 ≤ rd x' i := by
  intro fuel
  induction fuel with
  | zero => intro x w N K _ _ h; omega
  | succ f ih =>
    intro x w N K hR hN hf
    unfold G.parColorLoop
    by_cases hlt : N < Gc.n
    · rw [if_pos hlt]
      obtain ⟨hR', hc, hpos⟩ := round_spec hW Gc hG K (upd x w) x hR _ rfl _ rfl
      have hsome : ∃ i, i < Gc.n ∧ rd x i = -1 := exists_uncoloured hR (by show cntPos Gc.n x < Gc.n; rw [← hN]; exact hlt)
      have h1 := hpos hsome
      have hle : cntPos Gc.n (G.firstFit Gc K (G.resetF Gc.n
          (G.misParallel Gc (-1) (K : Int) (-2) (upd x w) (some 1) x).1)) ≤ Gc.n := by
        unfold cntPos
        have := List.countP_le_length (p := fun i => decide (0 ≤ rd (G.firstFit Gc K (G.resetF Gc.n
          (G.misParallel Gc (-1) (K : Int) (-2) (upd x w) (some 1) x).1)) i)) (l := List.range Gc.n)
        simpa using this
      exact ih _ _ _ (K+1) hR' (by omega) (by omega)
    · rw [if_neg hlt]
      exact ⟨x, K, rfl, hR, all_coloured (by omega)⟩

/-! ### the returned value -/

theorem maxElem_spec (x : Array Int) (h : 0 < x.size) :
    (∃ i, i < x.size ∧ rd x i = G.maxElem x) ∧ ∀ i, i < x.size → rd x i ≤ G.maxElem x := by
  unfold G.maxElem
  exact foldl_range_inv
    (fun (k : Nat) (m : Int) => (∃ i, i < x.size ∧ rd x i = m) ∧ ∀ i, i < k → rd x i ≤ m)
    (fun m i => if m < G.rdI x i then G.rdI x i else m) x.size (G.rdI x 0)
    ⟨⟨0, h, rfl⟩, fun i hi => by omega⟩
    (by
      intro k m hk ⟨⟨i0, hi0, he⟩, hall⟩
      show (∃ i, i < x.size ∧ rd x i = if m < rd x k then rd x k else m) ∧
        ∀ i, i < k + 1 → rd x i ≤ if m < rd x k then rd x k else m
      by_cases hc : m < rd x k
      · rw [if_pos hc]
        refine ⟨⟨k, hk, rfl⟩, ?_⟩
        intro i hi
        by_cases hik : i = k
        · subst hik; exact Int.le_refl _
        · have := hall i (by omega); omega
      · rw [if_neg hc]
        refine ⟨⟨i0, hi0, he⟩, ?_⟩
        intro i hi
        by_cases hik : i = k
        · subst hik; omega
        · exact hall i (by omega))

/-- a completely coloured `RJ` state is a colouring with colours exactly `0..K'-1`, and
`max_element` returns `K' - 1` -/
theorem RJ_finish {G : Graph} {K : Nat} {x : Array Int} (h : RJ G K x)
    (hall : ∀ i, i < G.n → 0 ≤ rd x i) :
    ∃ K', Colouring G x K' ∧ (0 < G.n → PyamgV.G.maxElem x = (K' : Int) - 1) := by
  by_cases hn : 0 < G.n
  · obtain ⟨⟨i0, hi0, he⟩, hmax⟩ := maxElem_spec x (by rw [h.size]; exact hn)
    rw [h.size] at hi0 hmax
    have hM : 0 ≤ PyamgV.G.maxElem x := by rw [← he]; exact hall i0 hi0
    refine ⟨(PyamgV.G.maxElem x + 1).toNat, ⟨?_, ?_, ?_⟩, fun _ => by omega⟩
    · intro i hi
      have := hmax i hi
      have := hall i hi
      constructor <;> omega
    · intro i hi j hj hji
      exact h.proper i hi (hall i hi) j hj hji
    · intro c hc
      by_cases hcM : (c : Int) = PyamgV.G.maxElem x
      · exact ⟨i0, hi0, by rw [he, hcM]⟩
      · exact h.closed i0 hi0 (c : Int) (by omega) (by rw [he]; omega)
  · refine ⟨0, ⟨?_, ?_, ?_⟩, fun h => absurd h hn⟩
    · intro i hi; omega
    · intro i hi; omega
    · intro c hc; omega

/-- **the common loop of JP / LDF is total**: for every symmetric graph, every weight type with a
total order, every per-round weight update and every initial weight array, fuel `n + 1` suffices
and the result is a proper colouring with colours exactly `0..K-1`; `max_element` is `K - 1` -/
theorem parColoring_total (hW : WOrd W) (Gc : G.Graph) (hG : GraphOK (pg Gc))
    (upd : Array Int → Array W → Array W) (w0 : Array W) :
    ∃ x K, G.parColorLoop Gc upd (Gc.n + 1) (Array.replicate Gc.n (-1)) w0 0 0 = some x ∧
      Colouring (pg Gc) x K ∧ (0 < Gc.n → G.maxElem x = (K : Int) - 1) := by
  have h0 : 0 = cntPos Gc.n (Array.replicate Gc.n (-1)) := by
    unfold cntPos
    symm
    apply List.countP_eq_zero.2
    intro i hi
    rw [List.mem_range] at hi
    simp [rd, hi]
  obtain ⟨x, K, he, hR, hall⟩ := parColorLoop_spec hW Gc hG upd (Gc.n + 1)
    (Array.replicate Gc.n (-1)) w0 0 0 (RJ_init (pg Gc)) h0 (by omega)
  obtain ⟨K', hc, hm⟩ := RJ_finish hR hall
  exact ⟨x, K', he, hc, hm⟩

theorem intWOrd : WOrd Int :=
  ⟨fun a => by omega, fun a b => by omega, fun a b c => by omega, fun a b => by omega⟩

/-- **C18, `vertex_coloring_jones_plassmann`** (validated model `G.coloringJP`): for every symmetric
graph and every weight vector `z` (ties allowed) the loop ends within `n` rounds and returns a
proper colouring with colours exactly `0..K-1` and return value `K - 1` -/
theorem coloringJP_total (Gc : G.Graph) (hG : GraphOK (pg Gc)) (z : Array Int) :
    ∃ x m K, G.coloringJP Gc z = some (x, m) ∧ Colouring (pg Gc) x K ∧
      (0 < Gc.n → m = (K : Int) - 1) := by
  obtain ⟨x, K, he, hc, hm⟩ := parColoring_total intWOrd Gc hG (fun _ w => w) (G.jpWeights Gc z)
  refine ⟨x, G.maxElem x, K, ?_, hc, hm⟩
  unfold G.coloringJP
  rw [he]; rfl

/-- **C18, `vertex_coloring_LDF`** (validated model `G.coloringLDF`): same statement -/
theorem coloringLDF_total (Gc : G.Graph) (hG : GraphOK (pg Gc)) (y : Array Int) :
    ∃ x m K, G.coloringLDF Gc y = some (x, m) ∧ Colouring (pg Gc) x K ∧
      (0 < Gc.n → m = (K : Int) - 1) := by
  obtain ⟨x, K, he, hc, hm⟩ := parColoring_total intWOrd Gc hG (G.ldfWeights Gc y)
    (Array.replicate Gc.n 0)
  refine ⟨x, G.maxElem x, K, ?_, hc, hm⟩
  unfold G.coloringLDF
  rw [he]; rfl

end PyamgV.Ext
