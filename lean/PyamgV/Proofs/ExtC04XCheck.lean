import PyamgV.Model.ExtC04XModel
import PyamgV.Proofs.C04Check
import PyamgV.Proofs.C06CRat
import Mathlib.Tactic.Linarith
/-! PyamgV (extension E50, property C04):

* `mulS_eq`: the product over the non-zeros of the left factor is the dense product `Mat.mul`, hence
  `checkHierS_eq`: the fast checker the driver runs on hierarchies of any size IS `C04.checkHier`;
* `filterMat_ent`: the kernel model of the C19 development (`C19.filterRowDiag`) applied to the dense rows of a
  matrix computes the definition of the row filter entry by entry (`filtDef`);
* `checkHierF_iff`: the checker for AIR hierarchies with filtering decides the specification `HierOKF`
  (level 0: `Af0 = filter(A0)`; flagged coarse levels: `A_c = filter(R A P)`; other levels: `A_c = R A P`; all up to the
  stated entrywise bounds, near-threshold decisions skipped), stated with `Mat.mul`;
* `levelsOKF_unflagged`, `pairOKF_filtered_def`, `filtOK_exact`: what the specification says without flags, with the
  filter written out, and with zero tolerance. -/
namespace PyamgV.C04X
open PyamgV PyamgV.C04

/-! ### arrays built with `ofFn` -/

theorem ent_mk_ofFn (r c : Nat) (f : Nat → Nat → CRat) (i j : Nat) (hi : i < r) (hj : j < c) :
    (⟨r, c, Array.ofFn (n := r * c) fun t => f (t.val / c) (t.val % c)⟩ : Mat).ent i j = f i j := by
  have hpos : 0 < c := by omega
  have hlt : i * c + j < r * c := by
    calc i * c + j < i * c + c := by omega
      _ = (i + 1) * c := by rw [Nat.add_mul, Nat.one_mul]
      _ ≤ r * c := Nat.mul_le_mul_right _ hi
  have hdiv : (i * c + j) / c = i := by
    rw [Nat.add_comm, Nat.add_mul_div_right _ _ hpos, Nat.div_eq_of_lt hj, Nat.zero_add]
  have hmod : (i * c + j) % c = j := by
    rw [Nat.add_comm, Nat.add_mul_mod_self_right, Nat.mod_eq_of_lt hj]
  show (if j < c then (Array.ofFn (n := r * c) _).getD (i * c + j) 0 else 0) = _
  rw [if_pos hj]
  rw [Array.getD_eq_getD_getElem?, Array.getElem?_ofFn]
  simp only [hlt, dite_true, Option.getD_some, hdiv, hmod]

theorem getD_ofFn {β : Type} (n : Nat) (f : Fin n → β) (d : β) (i : Nat) (hi : i < n) :
    (Array.ofFn f).getD i d = f ⟨i, hi⟩ := by
  rw [Array.getD_eq_getD_getElem?, Array.getElem?_ofFn]
  simp only [hi, dite_true, Option.getD_some]

/-! ### the fast product -/

theorem foldl_nz (g : Nat → CRat) (h : Nat → CRat) (l : List Nat) (acc : CRat) :
    (((l.map fun k => (k, g k)).filter fun ka => decide (ka.2 ≠ 0)).foldl (fun acc ka => acc + ka.2 * h ka.1) acc)
      = l.foldl (fun acc k => acc + g k * h k) acc := by
  induction l generalizing acc with
  | nil => rfl
  | cons a l ih =>
    simp only [List.map_cons, List.filter_cons, List.foldl_cons]
    by_cases hz : g a = 0
    · simp only [hz, ne_eq, not_true_eq_false, decide_false, Bool.false_eq_true, if_false]
      rw [ih, zero_mul, add_zero]
    · simp only [hz, ne_eq, not_false_eq_true, decide_true, if_true, List.foldl_cons]
      rw [ih]

theorem dotRow_nzRow (A B : Mat) (i j : Nat) :
    dotRow (nzRow A i) B j = sumN A.cols (fun k => A.ent i k * B.ent k j) := by
  unfold dotRow nzRow sumN
  exact foldl_nz (fun k => A.ent i k) (fun k => B.ent k j) (List.range A.cols) 0

/-- **the product over the non-zeros of the left factor is the dense product** -/
theorem mulS_eq (A B : Mat) : mulS A B = A.mul B := by
  unfold mulS Mat.mul
  simp only
  congr 1
  apply congrArg
  funext t
  have ht : t.val / B.cols < A.rows := by
    apply Nat.div_lt_of_lt_mul
    rw [Nat.mul_comm B.cols A.rows]
    exact t.isLt
  rw [getD_ofFn A.rows _ [] _ ht]
  exact dotRow_nzRow A B _ _

theorem chkGalerkinS_eq (tol : Rat) (f : Lvl) (cA : Mat) : chkGalerkinS tol f cA = chkGalerkin tol f cA := by
  unfold chkGalerkinS chkGalerkin
  simp only [mulS_eq]

theorem chkPairS_eq (sym : Sym) (tol : Rat) (f : Lvl) (cA : Mat) : chkPairS sym tol f cA = chkPair sym tol f cA := by
  unfold chkPairS chkPair
  rw [chkGalerkinS_eq]

/-- **one definition**: the fast checker is the proved checker -/
theorem checkHierS_eq (sym : Sym) (tol : Rat) (ls : List Lvl) : checkHierS sym tol ls = checkHier sym tol ls := by
  induction ls with
  | nil => rfl
  | cons f rest ih =>
    cases rest with
    | nil => rfl
    | cons c rest =>
      simp only [checkHierS, checkHier, chkPairS_eq, ih]

/-- so it decides the specification `HierOK` -/
theorem checkHierS_iff (sym : Sym) (tol : Rat) (ls : List Lvl) : checkHierS sym tol ls = true ↔ HierOK sym tol ls := by
  rw [checkHierS_eq]
  exact checkHier_iff sym tol ls

/-! ### the row filter computes its definition -/

theorem denseRow_length (M : Mat) (i : Nat) : (denseRow M i).length = M.cols := by
  unfold denseRow
  simp

theorem denseRow_getElem? (M : Mat) (i j : Nat) (hj : j < M.cols) : (denseRow M i)[j]? = some (j, M.ent i j) := by
  unfold denseRow
  simp [hj]

theorem denseRow_getElem (M : Mat) (i j : Nat) (hj : j < (denseRow M i).length) : (denseRow M i)[j] = (j, M.ent i j) := by
  have h := denseRow_getElem? M i j (by rw [denseRow_length] at hj; exact hj)
  rw [List.getElem?_eq_getElem hj] at h
  exact Option.some.inj h

theorem denseRow_findIdx (M : Mat) (i : Nat) (hi : i < M.cols) :
    (denseRow M i).findIdx? (fun cv => decide (cv.1 = i)) = some i := by
  rw [List.findIdx?_eq_some_iff_getElem]
  refine ⟨by rw [denseRow_length]; exact hi, ?_, ?_⟩
  · rw [denseRow_getElem]
    simp
  · intro j hji
    rw [denseRow_getElem]
    simp only [decide_eq_true_eq]
    omega

theorem denseRow_getD (M : Mat) (i j : Nat) (hj : j < M.cols) : (denseRow M i).getD j (0, 0) = (j, M.ent i j) := by
  rw [List.getD_eq_getElem?_getD, denseRow_getElem? M i j hj]
  rfl

/-- the threshold the kernel model uses on a dense row with a diagonal entry -/
theorem below_iff (θ : Rat) (M : Mat) (i j : Nat) :
    below θ M i j = true ↔ CRat.normSq (M.ent i j) < θ * θ * CRat.normSq (M.ent i i) := by
  unfold below
  simp

theorem filter_denseRow (M : Mat) (i : Nat) (p : Nat × CRat → Bool) :
    ((denseRow M i).filter p).map (·.2)
      = ((List.range M.cols).filter fun k => p (k, M.ent i k)).map fun k => M.ent i k := by
  unfold denseRow
  rw [List.filter_map, List.map_map]
  rfl

/-- **`filterMat` (the C19 kernel model on every dense row) computes the definition of the filter** -/
theorem filterMat_ent (θ : Rat) (lump : Bool) (M : Mat) (i j : Nat) (hi : i < M.rows) (hj : j < M.cols)
    (hii : i < M.cols) : (filterMat θ lump M).ent i j = filtDef θ lump M i j := by
  unfold filterMat
  simp only
  rw [ent_mk_ofFn M.rows M.cols (fun a b => ((filterRows θ lump M).getD a #[]).getD b 0) i j hi hj]
  show ((filterRows θ lump M).getD i #[]).getD j 0 = _
  unfold filterRows
  rw [getD_ofFn M.rows _ #[] i hi]
  simp only
  rw [Array.getD_eq_getD_getElem?, List.getElem?_toArray, List.getElem?_map]
  unfold C19.filterRowDiag
  simp only [denseRow_findIdx M i hii, denseRow_getD M i i hii]
  unfold filtDef
  cases lump with
  | false =>
    simp only [Bool.false_eq_true, if_false]
    rw [List.getElem?_map, denseRow_getElem? M i j hj]
    simp only [Option.map_some, Option.getD_some]
    by_cases hb : CRat.normSq (M.ent i j) < θ * θ * CRat.normSq (M.ent i i)
    · rw [if_pos hb, if_pos ((below_iff θ M i j).2 hb)]
    · rw [if_neg hb, if_neg (fun h => hb ((below_iff θ M i j).1 h))]
  | true =>
    simp only [if_true]
    rw [List.getElem?_modify, List.getElem?_map, denseRow_getElem? M i j hj]
    simp only [Option.map_some, Option.map_eq_map, Option.getD_some]
    by_cases hji : j = i
    · subst hji
      simp only [if_true, ne_eq, not_true_eq_false, and_false, if_false]
      congr 1
      rw [filter_denseRow M j (fun cv => decide (CRat.normSq cv.2 < θ * θ * CRat.normSq (M.ent j j) ∧ cv.1 ≠ j))]
      congr 2
      apply List.filter_congr
      intro k _
      simp [below]
    · have hij : ¬ i = j := fun h => hji h.symm
      simp only [hij, hji, if_false, ne_eq, not_false_eq_true, and_true]
      by_cases hb : CRat.normSq (M.ent i j) < θ * θ * CRat.normSq (M.ent i i)
      · rw [if_pos hb, if_pos ((below_iff θ M i j).2 hb)]
      · rw [if_neg hb, if_neg (fun h => hb ((below_iff θ M i j).1 h))]

/-! ### the specification of a hierarchy with filtering -/

/-- `S` is `filter(G)`: every judged entry within `tol * bnd` of the filter model applied to `G` -/
def FiltOK (c : FCfg) (tol : Rat) (S G B : Mat) : Prop :=
  ∀ i, i < S.rows → ∀ j, j < S.cols →
    skipEnt c tol G B i j = true ∨
      (if dropped c G i j = true then S.ent i j = 0
       else n1 (S.ent i j - (filterMat c.θ c.lump G).ent i j) ≤ tol * bnd c B i j)

theorem chkFilt_iff (c : FCfg) (tol : Rat) (S G B : Mat) : chkFilt c tol S G B = true ↔ FiltOK c tol S G B := by
  unfold chkFilt FiltOK
  simp only [allLt_iff, Bool.or_eq_true]
  constructor
  · intro h i hi j hj
    rcases h i hi j hj with h1 | h1
    · exact Or.inl h1
    · right
      by_cases hd : dropped c G i j = true
      · rw [if_pos hd] at h1 ⊢
        exact of_decide_eq_true h1
      · rw [if_neg hd] at h1 ⊢
        exact of_decide_eq_true h1
  · intro h i hi j hj
    rcases h i hi j hj with h1 | h1
    · exact Or.inl h1
    · right
      by_cases hd : dropped c G i j = true
      · rw [if_pos hd] at h1 ⊢
        exact decide_eq_true h1
      · rw [if_neg hd] at h1 ⊢
        exact decide_eq_true h1

/-- a dropped entry of the definition is zero -/
theorem filtDef_dropped (c : FCfg) (G : Mat) (i j : Nat) (h : dropped c G i j = true) :
    filtDef c.θ c.lump G i j = 0 := by
  unfold dropped at h
  simp only [Bool.and_eq_true, Bool.or_eq_true, Bool.not_eq_true', decide_eq_true_eq] at h
  obtain ⟨hb, hl⟩ := h
  unfold filtDef
  cases hlump : c.lump with
  | false => simp only [Bool.false_eq_true, if_false, hb, if_true]
  | true =>
    rw [hlump] at hl
    have hji : j ≠ i := by
      rcases hl with h | h
      · cases h
      · exact h
    simp only [if_true, hji, if_false, hb]

/-- `PairOK` without the Galerkin clause -/
structure ShapeOK (sym : Sym) (f : Lvl) (cA : Mat) : Prop where
  wf : f.A.wf = true ∧ f.P.wf = true ∧ f.R.wf = true ∧ cA.wf = true
  squareF : f.A.rows = f.A.cols
  squareC : cA.rows = cA.cols
  pRows : f.P.rows = f.A.rows
  pCols : f.P.cols = cA.rows
  rRows : f.R.rows = cA.rows
  rCols : f.R.cols = f.A.rows
  decr : cA.rows < f.A.rows
  transpose : match sym with
    | .none => True
    | .symm => ∀ i, i < f.R.rows → ∀ j, j < f.R.cols → f.R.ent i j = f.P.ent j i
    | .herm => ∀ i, i < f.R.rows → ∀ j, j < f.R.cols → f.R.ent i j = (f.P.ent j i).conj

theorem chkShape_iff (sym : Sym) (f : Lvl) (cA : Mat) : chkShape sym f cA = true ↔ ShapeOK sym f cA := by
  unfold chkShape chkWf chkDims chkDecr chkTranspose
  simp only [Bool.and_eq_true, decide_eq_true_eq]
  constructor
  · rintro ⟨⟨⟨⟨⟨⟨w1, w2⟩, w3⟩, w4⟩, ⟨⟨⟨⟨⟨d1, d2⟩, d3⟩, d4⟩, d5⟩, d6⟩⟩, hd⟩, ht⟩
    refine ⟨⟨w1, w2, w3, w4⟩, d1, d2, d3, d4, d5, d6, hd, ?_⟩
    cases sym with
    | none => trivial
    | symm => simpa [allLt_iff] using ht
    | herm => simpa [allLt_iff] using ht
  · rintro ⟨⟨w1, w2, w3, w4⟩, d1, d2, d3, d4, d5, d6, hd, ht⟩
    refine ⟨⟨⟨⟨⟨⟨w1, w2⟩, w3⟩, w4⟩, ⟨⟨⟨⟨⟨d1, d2⟩, d3⟩, d4⟩, d5⟩, d6⟩⟩, hd⟩, ?_⟩
    cases sym with
    | none => rfl
    | symm => simpa [allLt_iff] using ht
    | herm => simpa [allLt_iff] using ht

theorem PairOK.shape {sym : Sym} {tol : Rat} {f : Lvl} {cA : Mat} (h : PairOK sym tol f cA) : ShapeOK sym f cA :=
  ⟨h.wf, h.squareF, h.squareC, h.pRows, h.pCols, h.rRows, h.rCols, h.decr, h.transpose⟩

/-- a level and the next coarser matrix; `flag`: the coarse matrix was filtered in place, so it is the FILTERED
Galerkin product `filter(R A P)`; otherwise the clause of `C04.PairOK` -/
def PairOKF (c : FCfg) (sym : Sym) (tol : Rat) (f : Lvl) (cA : Mat) (flag : Bool) : Prop :=
  if flag then
    ShapeOK sym f cA ∧ FiltOK c tol cA (f.R.mul (f.A.mul f.P)) (f.R.absM.mul (f.A.absM.mul f.P.absM))
  else PairOK sym tol f cA

theorem chkPairF_iff (c : FCfg) (sym : Sym) (tol : Rat) (f : Lvl) (cA : Mat) (flag : Bool) :
    chkPairF c sym tol f cA flag = true ↔ PairOKF c sym tol f cA flag := by
  unfold chkPairF PairOKF
  cases flag with
  | true =>
    simp only [if_true, Bool.and_eq_true, chkShape_iff]
    unfold chkGalF
    rw [chkFilt_iff]
    simp only [mulS_eq]
  | false =>
    simp only [Bool.false_eq_true, if_false]
    rw [chkPairS_eq]
    exact chkPair_iff sym tol f cA

def LevelsOKF (c : FCfg) (sym : Sym) (tol : Rat) : List (Lvl × Bool) → Prop
  | [] => False
  | [l] => l.1.A.wf = true ∧ l.1.A.rows = l.1.A.cols ∧ 0 < l.1.A.rows
  | f :: n :: rest => PairOKF c sym tol f.1 n.1.A n.2 ∧ LevelsOKF c sym tol (n :: rest)

theorem checkLevelsF_iff (c : FCfg) (sym : Sym) (tol : Rat) (ls : List (Lvl × Bool)) :
    checkLevelsF c sym tol ls = true ↔ LevelsOKF c sym tol ls := by
  induction ls with
  | nil => simp [checkLevelsF, LevelsOKF]
  | cons f rest ih =>
    cases rest with
    | nil => simp [checkLevelsF, LevelsOKF, and_assoc]
    | cons n rest =>
      simp only [checkLevelsF, LevelsOKF, Bool.and_eq_true, chkPairF_iff, ih]

/-- the specification of an AIR hierarchy built with `filter_operator = (lump, theta)`: `A0` is the stored matrix of
level 0; the first level of `ls` carries the matrix `Af0` the step on level 0 worked with: `Af0 = filter(A0)`, and
the levels `Af0, A_1, A_2, ...` are linked by `PairOKF` -/
def HierOKF (c : FCfg) (sym : Sym) (tol : Rat) (A0 : Mat) (ls : List (Lvl × Bool)) : Prop :=
  match ls with
  | [] => False
  | f :: _ =>
    A0.wf = true ∧ f.1.A.wf = true ∧ f.1.A.rows = A0.rows ∧ f.1.A.cols = A0.cols ∧
      FiltOK c tol f.1.A A0 A0.absM ∧ LevelsOKF c sym tol ls

/-- **the checker for hierarchies with filtering decides the specification** -/
theorem checkHierF_iff (c : FCfg) (sym : Sym) (tol : Rat) (A0 : Mat) (ls : List (Lvl × Bool)) :
    checkHierF c sym tol A0 ls = true ↔ HierOKF c sym tol A0 ls := by
  cases ls with
  | nil => simp [checkHierF, HierOKF]
  | cons f rest =>
    simp only [checkHierF, HierOKF, Bool.and_eq_true, decide_eq_true_eq, chkFilt_iff, checkLevelsF_iff, and_assoc]

/-! ### reading the specification -/

/-- without in-place filtered levels the chain is a hierarchy in the sense of `C04.HierOK` -/
theorem levelsOKF_unflagged (c : FCfg) (sym : Sym) (tol : Rat) (ls : List (Lvl × Bool))
    (h : ∀ l ∈ ls, l.2 = false) : LevelsOKF c sym tol ls ↔ HierOK sym tol (ls.map (·.1)) := by
  induction ls with
  | nil => simp [LevelsOKF, HierOK]
  | cons f rest ih =>
    cases rest with
    | nil => simp [LevelsOKF, HierOK]
    | cons n rest =>
      have hn : n.2 = false := h n (by simp)
      have ih' := ih (fun l hl => h l (List.mem_cons_of_mem _ hl))
      simp only [LevelsOKF, List.map_cons, HierOK] at ih' ⊢
      rw [ih']
      unfold PairOKF
      rw [hn]
      simp

/-- the filtered clause with the filter written out: every judged entry of the coarse matrix is, up to the bound,
the entry of `R A P` if it is not below `theta` times the diagonal entry of its row, zero otherwise, and with lumping
the diagonal entry is the diagonal entry of `R A P` plus the dropped entries of the row -/
theorem pairOKF_filtered_def (c : FCfg) (sym : Sym) (tol : Rat) (f : Lvl) (cA : Mat)
    (h : PairOKF c sym tol f cA true) (i j : Nat) (hi : i < cA.rows) (hj : j < cA.rows) :
    skipEnt c tol (f.R.mul (f.A.mul f.P)) (f.R.absM.mul (f.A.absM.mul f.P.absM)) i j = true ∨
      (if dropped c (f.R.mul (f.A.mul f.P)) i j = true then cA.ent i j = 0
       else n1 (cA.ent i j - filtDef c.θ c.lump (f.R.mul (f.A.mul f.P)) i j)
        ≤ tol * bnd c (f.R.absM.mul (f.A.absM.mul f.P.absM)) i j) := by
  unfold PairOKF at h
  simp only [if_true] at h
  obtain ⟨hs, hf⟩ := h
  have hrows : (f.R.mul (f.A.mul f.P)).rows = cA.rows := hs.rRows
  have hcols : (f.R.mul (f.A.mul f.P)).cols = cA.rows := hs.pCols
  rcases hf i hi j (by rw [← hs.squareC]; exact hj) with h1 | h1
  · exact Or.inl h1
  · right
    rw [filterMat_ent c.θ c.lump _ i j (by rw [hrows]; exact hi) (by rw [hcols]; exact hj)
      (by rw [hcols]; exact hi)] at h1
    exact h1

theorem rabs_nonneg (q : Rat) : 0 ≤ rabs q := by
  unfold rabs
  split
  · linarith
  · linarith

theorem n1_le_zero {z : CRat} (h : n1 z ≤ 0) : z = 0 := by
  unfold n1 at h
  have h1 := rabs_nonneg z.re
  have h2 := rabs_nonneg z.im
  have e1 : rabs z.re = 0 := by linarith
  have e2 : rabs z.im = 0 := by linarith
  have r0 : z.re = 0 := by
    unfold rabs at e1
    split at e1 <;> linarith
  have i0 : z.im = 0 := by
    unfold rabs at e2
    split at e2 <;> linarith
  exact CRat.ext' r0 i0

/-- zero tolerance, no skipped decision: `S` IS the filtered matrix, entry by entry (the definition) -/
theorem filtOK_exact (c : FCfg) (S G B : Mat) (h : FiltOK c 0 S G B)
    (hr : S.rows = G.rows) (hc : S.cols = G.cols) (hsq : G.rows = G.cols)
    (i j : Nat) (hi : i < S.rows) (hj : j < S.cols) (hskip : skipEnt c 0 G B i j = false) :
    S.ent i j = filtDef c.θ c.lump G i j := by
  rcases h i hi j hj with h1 | h1
  · rw [hskip] at h1
    cases h1
  · by_cases hd : dropped c G i j = true
    · rw [if_pos hd] at h1
      rw [h1, filtDef_dropped c G i j hd]
    · rw [if_neg hd, zero_mul] at h1
      have := n1_le_zero h1
      rw [filterMat_ent c.θ c.lump G i j (by omega) (by omega) (by omega)] at this
      exact sub_eq_zero.1 this

#print axioms mulS_eq
#print axioms checkHierS_iff
#print axioms filterMat_ent
#print axioms checkHierF_iff
#print axioms levelsOKF_unflagged
#print axioms pairOKF_filtered_def
#print axioms filtOK_exact
end PyamgV.C04X
