import PyamgV.Proofs.ExtC05BridgeF2
import Mathlib.Tactic.FieldSimp

/-! PyamgV (C05, extension E23, complex case, part F3): **the Gauss–Jordan coarsest solve of the cycle
model over an arbitrary field** -- `Proofs/ExtC05RefineGJ.lean`, `ExtC05RefineGJ2.lean` re-proved without
the order instances (same definitions `C05.solveDense`, `gjStep`, `invOp`, ...; `CF.C05.CoarseInv` is the
order-free twin of `C05.CoarseInv`); generated from the originals. -/
set_option linter.unusedSectionVars false
set_option linter.unusedVariables false
set_option linter.unusedSimpArgs false

/-! ### from ExtC05RefineGJ.lean -/
namespace PyamgV.CF.C05
open PyamgV PyamgV.C05
open PyamgV Finset
set_option linter.unusedSectionVars false
variable {R : Type} [Field R] [DecidableEq R]
theorem getD_map_range {β : Type} (n : Nat) (f : Nat → β) (i : Nat) (d : β) (h : i < n) :
    ((Array.range n).map f).getD i d = f i := by
  simp [Array.getD_eq_getD_getElem?, h]
theorem getD_setIfInBounds {β : Type} (a : Array β) (i j : Nat) (v d : β) :
    (a.setIfInBounds i v).getD j d = if i = j ∧ i < a.size then v else a.getD j d := by
  simp only [Array.getD_eq_getD_getElem?, Array.getElem?_setIfInBounds]
  by_cases h : i = j
  · subst h
    by_cases h2 : i < a.size
    · simp [h2]
    · simp [h2]
  · simp [h]
theorem rd_map_div (row : Array R) (piv : R) (j : Nat) :
    K.rd (row.map (fun v => v / piv)) j = K.rd row j / piv := by
  unfold K.rd
  by_cases h : j < row.size
  · simp [Array.getD_eq_getD_getElem?, h]
  · simp [Array.getD_eq_getD_getElem?, h]
theorem rd_map_range (n : Nat) (f : Nat → R) (j : Nat) (h : j < n) :
    K.rd ((Array.range n).map f) j = f j := by
  unfold K.rd
  exact getD_map_range n f j 0 h
theorem solveDense_eq (n : Nat) (A : Mat R) (b : Array R) :
    solveDense n A b =
      ((List.range n).foldl (fun (st : Option (Mat R)) k => st.bind (gjStep n k))
        (some ((Array.range n).map (fun i => (A.getD i #[]).push (K.rd b i))))).map
      (fun M => (Array.range n).map (fun i => mget M i n)) := by
  unfold solveDense
  simp only
  congr 2
  funext st k
  cases st <;> rfl
/-- **one step of the elimination, entry by entry**: a pivot row `p ≥ k` with `M[p][k] ≠ 0` is found;
the new row `k` is `M[p] / M[p][k]`, every other row `i` is `M[σ i] − M[σ i][k] · (M[p] / M[p][k])`
with `σ` the exchange of `p` and `k` -/
theorem gjStep_entries (n k : Nat) (M N : Mat R) (hk : k < n) (hM : M.size = n)
    (h : gjStep n k M = some N) :
    ∃ p, (List.range' k (n - k)).find? (fun r => mget M r k ≠ 0) = some p ∧
      k ≤ p ∧ p < n ∧ mget M p k ≠ 0 ∧ N.size = n ∧
      ∀ i j, i < n → j ≤ n → mget N i j =
        if i = k then mget M p j / mget M p k
        else mget M (swp p k i) j - mget M (swp p k i) k * (mget M p j / mget M p k) := by
  unfold gjStep at h
  cases hf : (List.range' k (n - k)).find? (fun r => mget M r k ≠ 0) with
  | none => rw [hf] at h; exact absurd h (by simp)
  | some p =>
    rw [hf] at h
    have hp1 := List.mem_of_find?_eq_some hf
    have hp2 : mget M p k ≠ 0 := by simpa using List.find?_some hf
    have hpk : k ≤ p ∧ p < n := by
      rw [List.mem_range'_1] at hp1
      omega
    have h := Option.some.inj h
    refine ⟨p, rfl, hpk.1, hpk.2, hp2, by rw [← h]; simp, ?_⟩
    intro i j hi hj
    rw [← h]
    unfold mget
    rw [getD_map_range n _ i #[] hi]
    by_cases hik : i = k
    · rw [if_pos hik, if_pos hik, rd_map_div]
    · rw [if_neg hik, if_neg hik]
      simp only
      rw [rd_map_range (n+1) _ j (by omega), rd_map_div]
      have hrow : (((M.setIfInBounds p (M.getD k #[])).setIfInBounds k (M.getD p #[])).setIfInBounds k
          ((M.getD p #[]).map (fun v => v / K.rd (M.getD p #[]) k))).getD i #[] =
          M.getD (swp p k i) #[] := by
        rw [getD_setIfInBounds, if_neg (by intro hh; exact hik hh.1.symm),
          getD_setIfInBounds, if_neg (by intro hh; exact hik hh.1.symm), getD_setIfInBounds]
        unfold swp
        by_cases hip : i = p
        · rw [if_pos hip, if_pos ⟨hip.symm, by rw [hM]; exact hpk.2⟩]
        · rw [if_neg hip, if_neg (by intro hh; exact hip hh.1.symm)]
      rw [hrow]
theorem gjStep_idcols (n k : Nat) (M N : Mat R) (hk : k < n) (hM : M.size = n)
    (hI : IdCols n k M) (h : gjStep n k M = some N) :
    N.size = n ∧ IdCols n (k+1) N := by
  obtain ⟨p, _, hkp, hpn, hpiv, hNs, hN⟩ := gjStep_entries n k M N hk hM h
  have hsw : ∀ i, i < n → swp p k i < n := by
    intro i hi; unfold swp; split <;> omega
  refine ⟨hNs, ?_⟩
  intro i j hi hj
  rw [hN i j hi (by omega)]
  by_cases hjk : j < k
  · have hpj : mget M p j = 0 := by
      rw [hI p j hpn hjk, if_neg (by omega)]
    by_cases hik : i = k
    · rw [if_pos hik, hpj, zero_div, if_neg (by omega)]
    · rw [if_neg hik, hpj, zero_div, mul_zero, sub_zero, hI _ j (hsw i hi) hjk]
      unfold swp
      by_cases hip : i = p
      · rw [if_pos hip, if_neg (by omega), if_neg (by omega)]
      · rw [if_neg hip]
  · have hjk' : j = k := by omega
    subst hjk'
    by_cases hik : i = j
    · rw [if_pos hik, if_pos hik, div_self hpiv]
    · rw [if_neg hik, if_neg hik, div_self hpiv, mul_one, sub_self]
/-- a row operation keeps the solutions … -/
theorem gjStep_sol_fwd (n k : Nat) (x : Nat → R) (M N : Mat R) (hk : k < n) (hM : M.size = n)
    (hS : Sol n x M) (h : gjStep n k M = some N) : Sol n x N := by
  obtain ⟨p, _, hkp, hpn, hpiv, hNs, hN⟩ := gjStep_entries n k M N hk hM h
  have hsw : ∀ i, i < n → swp p k i < n := by
    intro i hi; unfold swp; split <;> omega
  intro i hi
  have hp := hS p hpn
  rw [hN i n hi (Nat.le_refl n)]
  by_cases hik : i = k
  · rw [if_pos hik]
    rw [← hp, div_eq_mul_inv, Finset.sum_mul]
    apply Finset.sum_congr rfl
    intro j hj
    rw [hN i j hi (by have := Finset.mem_range.1 hj; omega), if_pos hik]
    ring
  · rw [if_neg hik]
    have hs := hS _ (hsw i hi)
    rw [← hs, ← hp, div_eq_mul_inv, Finset.sum_mul, Finset.mul_sum, ← Finset.sum_sub_distrib]
    apply Finset.sum_congr rfl
    intro j hj
    rw [hN i j hi (by have := Finset.mem_range.1 hj; omega), if_neg hik]
    ring
/-- … and introduces none (the pivot is non-zero, the operations are invertible) -/
theorem gjStep_sol_bwd (n k : Nat) (x : Nat → R) (M N : Mat R) (hk : k < n) (hM : M.size = n)
    (hS : Sol n x N) (h : gjStep n k M = some N) : Sol n x M := by
  obtain ⟨p, _, hkp, hpn, hpiv, hNs, hN⟩ := gjStep_entries n k M N hk hM h
  have hk' := hS k hk
  -- the pivot row
  have hrowp : ∑ j ∈ range n, mget M p j * x j = mget M p n := by
    have e1 : ∑ j ∈ range n, mget M p j * x j = mget M p k * ∑ j ∈ range n, mget N k j * x j := by
      rw [Finset.mul_sum]
      apply Finset.sum_congr rfl
      intro j hj
      rw [hN k j hk (by have := Finset.mem_range.1 hj; omega), if_pos rfl]
      field_simp
    rw [e1, hk', hN k n hk (Nat.le_refl n), if_pos rfl]
    field_simp
  intro r hr
  by_cases hrp : r = p
  · rw [hrp]; exact hrowp
  · -- the row of `N` built from row `r` of `M`
    have hex : ∃ i, i < n ∧ i ≠ k ∧ swp p k i = r := by
      by_cases hrk : r = k
      · refine ⟨p, hpn, by omega, ?_⟩
        unfold swp; rw [if_pos rfl, hrk]
      · refine ⟨r, hr, hrk, ?_⟩
        unfold swp; rw [if_neg hrp]
    obtain ⟨i, hi, hik, hsi⟩ := hex
    have hi' := hS i hi
    have e1 : ∑ j ∈ range n, mget M r j * x j =
        ∑ j ∈ range n, mget N i j * x j + mget M r k * ∑ j ∈ range n, mget N k j * x j := by
      rw [Finset.mul_sum, ← Finset.sum_add_distrib]
      apply Finset.sum_congr rfl
      intro j hj
      have hjn : j ≤ n := by have := Finset.mem_range.1 hj; omega
      rw [hN i j hi hjn, if_neg hik, hN k j hk hjn, if_pos rfl, hsi]
      ring
    rw [e1, hi', hk', hN i n hi (Nat.le_refl n), if_neg hik, hN k n hk (Nat.le_refl n), if_pos rfl, hsi]
    ring
theorem gjFold_inv (n : Nat) (x : Nat → R) (M0 : Mat R) (hM0 : M0.size = n) :
    ∀ k, k ≤ n → ∀ N,
      (List.range k).foldl (fun (st : Option (Mat R)) k => st.bind (gjStep n k)) (some M0) = some N →
      N.size = n ∧ IdCols n k N ∧ (Sol n x M0 ↔ Sol n x N) := by
  intro k
  induction k with
  | zero =>
    intro _ N h
    simp only [List.range_zero, List.foldl_nil, Option.some.injEq] at h
    subst h
    exact ⟨hM0, fun i j _ hj => absurd hj (by omega), Iff.rfl⟩
  | succ k ih =>
    intro hk N h
    rw [List.range_succ, List.foldl_append] at h
    simp only [List.foldl_cons, List.foldl_nil] at h
    cases hst : (List.range k).foldl (fun (st : Option (Mat R)) k => st.bind (gjStep n k)) (some M0) with
    | none => rw [hst] at h; exact absurd h (by simp)
    | some M =>
      rw [hst] at h
      obtain ⟨h1, h2, h3⟩ := ih (by omega) M hst
      have hstep : gjStep n k M = some N := by simpa using h
      obtain ⟨h4, h5⟩ := gjStep_idcols n k M N (by omega) h1 h2 hstep
      exact ⟨h4, h5, h3.trans ⟨fun hs => gjStep_sol_fwd n k x M N (by omega) h1 hs hstep,
        fun hs => gjStep_sol_bwd n k x M N (by omega) h1 hs hstep⟩⟩
/-- **what `solveDense` returns is the solution**: if `x` solves the `n × n` system `A x = b` (rows of
`A` of length `n`) and the elimination succeeds, its result is `x` on the first `n` coordinates -/
theorem solveDense_unique (n : Nat) (A : Mat R) (hA : ∀ i, i < n → (A.getD i #[]).size = n)
    (b : Array R) (x : Nat → R)
    (hx : ∀ i, i < n → ∑ j ∈ range n, mget A i j * x j = K.rd b i)
    (y : Array R) (h : solveDense n A b = some y) :
    y.size = n ∧ ∀ i, i < n → K.rd y i = x i := by
  rw [solveDense_eq] at h
  set M0 : Mat R := (Array.range n).map (fun i => (A.getD i #[]).push (K.rd b i)) with hM0
  have haug : ∀ i j, i < n → mget M0 i j = if j = n then K.rd b i else if j < n then mget A i j else 0 := by
    intro i j hi
    unfold mget
    rw [hM0, getD_map_range n _ i #[] hi]
    unfold K.rd
    have hsz := hA i hi
    rw [Array.getD_eq_getD_getElem?, Array.getElem?_push, hsz]
    by_cases hjn : j = n
    · rw [if_pos hjn, if_pos hjn]; simp
    · rw [if_neg hjn, if_neg hjn]
      by_cases hj : j < n
      · rw [if_pos hj]; simp [Array.getD_eq_getD_getElem?]
      · rw [if_neg hj]
        have : (A.getD i #[])[j]? = none := by
          apply Array.getElem?_eq_none; omega
        rw [this]; rfl
  have hS0 : Sol n x M0 := by
    intro i hi
    rw [haug i n hi, if_pos rfl, ← hx i hi]
    apply Finset.sum_congr rfl
    intro j hj
    have hjn := Finset.mem_range.1 hj
    rw [haug i j hi, if_neg (by omega), if_pos hjn]
  cases hst : (List.range n).foldl (fun (st : Option (Mat R)) k => st.bind (gjStep n k)) (some M0) with
  | none => rw [hst] at h; exact absurd h (by simp)
  | some N =>
    rw [hst] at h
    obtain ⟨h1, h2, h3'⟩ := gjFold_inv n x M0 (by rw [hM0]; simp) n (Nat.le_refl n) N hst
    have h3 := h3'.1 hS0
    simp only [Option.map_some, Option.some.injEq] at h
    subst h
    refine ⟨by simp, ?_⟩
    intro i hi
    rw [rd_map_range n _ i hi, ← h3 i hi]
    rw [Finset.sum_eq_single i]
    · rw [h2 i i hi hi, if_pos rfl, one_mul]
    · intro j hj hji
      rw [h2 i j hi (Finset.mem_range.1 hj), if_neg (Ne.symm hji), zero_mul]
    · intro hni; exact absurd (Finset.mem_range.2 hi) hni
theorem wr_size (r : Array R) (c : Nat) (v : R) : (K.wr r c v).size = r.size := by simp [K.wr]
theorem rd_wr' (r : Array R) (c j : Nat) (v : R) :
    K.rd (K.wr r c v) j = if c = j ∧ c < r.size then v else K.rd r j := by
  unfold K.rd K.wr
  exact getD_setIfInBounds r c j v 0
/-- accumulating one entry `(c, v)` into a dense row -/
theorem sum_wr (cols : Nat) (r : Array R) (hr : r.size = cols) (c : Nat) (v : R) (x : Nat → R)
    (hx : ∀ i, cols ≤ i → x i = 0) :
    ∑ j ∈ range cols, K.rd (K.wr r c (K.rd r c + v)) j * x j =
      ∑ j ∈ range cols, K.rd r j * x j + v * x c := by
  by_cases hc : c < cols
  · have : ∀ j ∈ range cols, K.rd (K.wr r c (K.rd r c + v)) j * x j =
        K.rd r j * x j + (if c = j then v * x c else 0) := by
      intro j _
      rw [rd_wr']
      by_cases hcj : c = j
      · subst hcj; rw [if_pos ⟨rfl, by rw [hr]; exact hc⟩, if_pos rfl]; ring
      · rw [if_neg (by intro hh; exact hcj hh.1), if_neg hcj, add_zero]
    rw [Finset.sum_congr rfl this, Finset.sum_add_distrib, Finset.sum_ite_eq (range cols) c]
    rw [if_pos (Finset.mem_range.2 hc)]
  · have : ∀ j ∈ range cols, K.rd (K.wr r c (K.rd r c + v)) j * x j = K.rd r j * x j := by
      intro j _
      rw [rd_wr', if_neg (by intro hh; rw [hr] at hh; exact hc hh.2)]
    rw [Finset.sum_congr rfl this, hx c (by omega), mul_zero, add_zero]
theorem denseRow_dot (cols : Nat) (aj : Array Nat) (ax : Array R) (x : Nat → R)
    (hx : ∀ i, cols ≤ i → x i = 0) :
    ∀ (jjs : List Nat) (r : Array R), r.size = cols →
      ((jjs.foldl (fun row jj => K.wr row (K.rdN aj jj) (K.rd row (K.rdN aj jj) + K.rd ax jj)) r).size = cols) ∧
      ∑ j ∈ range cols,
        K.rd (jjs.foldl (fun row jj => K.wr row (K.rdN aj jj) (K.rd row (K.rdN aj jj) + K.rd ax jj)) r) j * x j =
      ∑ j ∈ range cols, K.rd r j * x j + (jjs.map (fun jj => K.rd ax jj * x (K.rdN aj jj))).sum := by
  intro jjs
  induction jjs with
  | nil => intro r hr; exact ⟨hr, by simp⟩
  | cons jj rest ih =>
    intro r hr
    rw [List.foldl_cons]
    obtain ⟨h1, h2⟩ := ih (K.wr r (K.rdN aj jj) (K.rd r (K.rdN aj jj) + K.rd ax jj))
      (by rw [wr_size, hr])
    refine ⟨h1, ?_⟩
    rw [h2, sum_wr cols r hr _ _ x hx, List.map_cons, List.sum_cons]
    ring
theorem denseOfCsr_size (M : K.Csr R) (cols : Nat) (i : Nat) (hi : i < M.n) :
    ((denseOfCsr M cols).getD i #[]).size = cols := by
  unfold denseOfCsr
  rw [getD_map_range M.n _ i #[] hi]
  exact (denseRow_dot cols M.aj M.ax 0 (fun _ _ => rfl) (M.jjs i) (zeros cols) (by simp [zeros])).1
/-- **the dense copy of a CSR matrix applied to a vector supported on the first `cols` coordinates is
the CSR operator of the proofs** (duplicate entries are summed by both) -/
theorem denseOfCsr_dot (M : K.Csr R) (cols : Nat) (x : Nat → R) (hx : ∀ i, cols ≤ i → x i = 0)
    (i : Nat) (hi : i < M.n) :
    ∑ j ∈ range cols, mget (denseOfCsr M cols) i j * x j = csrOp M.n (rowOf M) x i := by
  rw [csrOp_apply _ _ _ _ hi]
  unfold mget denseOfCsr
  rw [getD_map_range M.n _ i #[] hi]
  rw [(denseRow_dot cols M.aj M.ax x hx (M.jjs i) (zeros cols) (by simp [zeros])).2]
  have h0 : ∑ j ∈ range cols, K.rd (zeros cols : Array R) j * x j = 0 := by
    apply Finset.sum_eq_zero
    intro j hj
    have : K.rd (zeros cols : Array R) j = 0 := by
      unfold K.rd zeros
      by_cases h : j < cols <;> simp [h]
    rw [this, zero_mul]
  rw [h0, zero_add]
  unfold rowDot rowOf
  rw [List.map_map]
  rfl
/-- `S` is a right inverse of the coarsest matrix on the first `Ac.n` coordinates, with values
supported there (an invertible coarsest matrix has exactly one such `S` up to the coordinates
`≥ Ac.n` of the argument) -/
structure CoarseInv (Ac : K.Csr R) (S : (Nat → R) →ₗ[R] (Nat → R)) : Prop where
  right : ∀ b i, i < Ac.n → csrOp Ac.n (rowOf Ac) (S b) i = b i
  supp : ∀ b i, Ac.n ≤ i → S b i = 0
/-- **the coarsest solve of the executable model is `S`** -/
theorem solveDense_csr (Ac : K.Csr R) (S : (Nat → R) →ₗ[R] (Nat → R)) (hS : CoarseInv Ac S)
    (b y : Array R) (hb : b.size = Ac.n) (h : solveDense Ac.n (denseOfCsr Ac Ac.n) b = some y) :
    y.size = Ac.n ∧ fn y = S (fn b) := by
  obtain ⟨h1, h2⟩ := solveDense_unique Ac.n (denseOfCsr Ac Ac.n)
    (fun i hi => denseOfCsr_size Ac Ac.n i hi) b (S (fn b))
    (fun i hi => by
      rw [denseOfCsr_dot Ac Ac.n (S (fn b)) (fun j hj => hS.supp (fn b) j hj) i hi, hS.right (fn b) i hi]
      rfl) y h
  refine ⟨h1, ?_⟩
  funext i
  by_cases hi : i < Ac.n
  · exact h2 i hi
  · rw [hS.supp (fn b) i (by omega)]
    exact fn_zero_of_size y i (by omega)
end PyamgV.CF.C05

/-! ### from ExtC05RefineGJ2.lean -/
namespace PyamgV.CF.C05
open PyamgV PyamgV.C05
open PyamgV Finset
set_option linter.unusedSectionVars false
variable {R : Type} [Field R] [DecidableEq R]
theorem augM_size (n : Nat) (A : Mat R) (b : Array R) : (augM n A b).size = n := by simp [augM]
theorem augM_entries (n : Nat) (A : Mat R) (hA : ∀ i, i < n → (A.getD i #[]).size = n) (b : Array R)
    (i j : Nat) (hi : i < n) :
    mget (augM n A b) i j = if j = n then K.rd b i else if j < n then mget A i j else 0 := by
  unfold mget augM
  rw [getD_map_range n _ i #[] hi]
  unfold K.rd
  have hsz := hA i hi
  rw [Array.getD_eq_getD_getElem?, Array.getElem?_push, hsz]
  by_cases hjn : j = n
  · rw [if_pos hjn, if_pos hjn]; simp
  · rw [if_neg hjn, if_neg hjn]
    by_cases hj : j < n
    · rw [if_pos hj]; simp [Array.getD_eq_getD_getElem?]
    · rw [if_neg hj]
      have : (A.getD i #[])[j]? = none := by
        apply Array.getElem?_eq_none; omega
      rw [this]; rfl
theorem sol_augM (n : Nat) (A : Mat R) (hA : ∀ i, i < n → (A.getD i #[]).size = n) (b : Array R)
    (x : Nat → R) :
    Sol n x (augM n A b) ↔ ∀ i, i < n → ∑ j ∈ range n, mget A i j * x j = K.rd b i := by
  have key : ∀ i, i < n →
      (∑ j ∈ range n, mget (augM n A b) i j * x j = mget (augM n A b) i n ↔
       ∑ j ∈ range n, mget A i j * x j = K.rd b i) := by
    intro i hi
    rw [augM_entries n A hA b i n hi, if_pos rfl]
    have : ∑ j ∈ range n, mget (augM n A b) i j * x j = ∑ j ∈ range n, mget A i j * x j := by
      apply Finset.sum_congr rfl
      intro j hj
      have hjn := Finset.mem_range.1 hj
      rw [augM_entries n A hA b i j hi, if_neg (by omega), if_pos hjn]
    rw [this]
  exact ⟨fun h i hi => (key i hi).1 (h i hi), fun h i hi => (key i hi).2 (h i hi)⟩
theorem solveDense_eq' (n : Nat) (A : Mat R) (b : Array R) :
    solveDense n A b =
      ((List.range n).foldl (fun (st : Option (Mat R)) k => st.bind (gjStep n k))
        (some (augM n A b))).map (fun M => (Array.range n).map (fun i => mget M i n)) :=
  solveDense_eq n A b
/-- **soundness of the coarsest solve**: the vector `solveDense` returns solves `A y = b` -/
theorem solveDense_sound (n : Nat) (A : Mat R) (hA : ∀ i, i < n → (A.getD i #[]).size = n)
    (b y : Array R) (h : solveDense n A b = some y) :
    y.size = n ∧ ∀ i, i < n → ∑ j ∈ range n, mget A i j * K.rd y j = K.rd b i := by
  rw [solveDense_eq'] at h
  cases hst : (List.range n).foldl (fun (st : Option (Mat R)) k => st.bind (gjStep n k))
      (some (augM n A b)) with
  | none => rw [hst] at h; exact absurd h (by simp)
  | some N =>
    rw [hst] at h
    simp only [Option.map_some, Option.some.injEq] at h
    subst h
    obtain ⟨_, h2, h3⟩ := gjFold_inv n
      (fun j => K.rd ((Array.range n).map (fun i => mget N i n)) j) (augM n A b) (augM_size n A b)
      n (Nat.le_refl n) N hst
    refine ⟨by simp, ?_⟩
    apply (sol_augM n A hA b _).1
    apply h3.2
    intro i hi
    rw [Finset.sum_eq_single i]
    · rw [h2 i i hi hi, if_pos rfl, one_mul]
      exact rd_map_range n _ i hi
    · intro j hj hji
      rw [h2 i j hi (Finset.mem_range.1 hj), if_neg (Ne.symm hji), zero_mul]
    · intro hni; exact absurd (Finset.mem_range.2 hi) hni
theorem find?_congr' {α : Type} (p q : α → Bool) : ∀ (l : List α), (∀ a ∈ l, p a = q a) →
    l.find? p = l.find? q := by
  intro l
  induction l with
  | nil => intro _; rfl
  | cons a rest ih =>
    intro h
    rw [List.find?_cons, List.find?_cons, h a (by simp), ih (fun b hb => h b (by simp [hb]))]
theorem gjStep_leftEq (n k : Nat) (M M' N : Mat R) (hk : k < n) (hL : LeftEq n M M')
    (h : gjStep n k M = some N) : ∃ N', gjStep n k M' = some N' ∧ LeftEq n N N' := by
  obtain ⟨hM, hM', hE⟩ := hL
  obtain ⟨p, hf, hkp, hpn, hpiv, hNs, hN⟩ := gjStep_entries n k M N hk hM h
  have hfind : (List.range' k (n - k)).find? (fun r => mget M' r k ≠ 0) = some p := by
    rw [← hf]
    apply find?_congr'
    intro r hr
    rw [List.mem_range'_1] at hr
    rw [hE r k (by omega) hk]
  cases h' : gjStep n k M' with
  | none =>
    unfold gjStep at h'
    rw [hfind] at h'
    exact absurd h' (by simp)
  | some N' =>
    obtain ⟨p', hf', _, _, _, hNs', hN'⟩ := gjStep_entries n k M' N' hk hM' h'
    have hpp : p' = p := by
      rw [hfind] at hf'
      exact (Option.some.inj hf').symm
    subst hpp
    refine ⟨N', rfl, hNs, hNs', ?_⟩
    intro i j hi hj
    have hsw : swp p' k i < n := by unfold swp; split <;> omega
    rw [hN i j hi (by omega), hN' i j hi (by omega), hE p' j hpn hj, hE p' k hpn hk,
      hE _ j hsw hj, hE _ k hsw hk]
theorem gjFold_leftEq (n : Nat) (M0 M0' : Mat R) (hL : LeftEq n M0 M0') :
    ∀ k, k ≤ n → ∀ N,
      (List.range k).foldl (fun (st : Option (Mat R)) k => st.bind (gjStep n k)) (some M0) = some N →
      ∃ N', (List.range k).foldl (fun (st : Option (Mat R)) k => st.bind (gjStep n k)) (some M0') = some N' ∧
        LeftEq n N N' := by
  intro k
  induction k with
  | zero =>
    intro _ N h
    simp only [List.range_zero, List.foldl_nil, Option.some.injEq] at h
    subst h
    exact ⟨M0', rfl, hL⟩
  | succ k ih =>
    intro hk N h
    rw [List.range_succ, List.foldl_append] at h
    simp only [List.foldl_cons, List.foldl_nil] at h
    cases hst : (List.range k).foldl (fun (st : Option (Mat R)) k => st.bind (gjStep n k)) (some M0) with
    | none => rw [hst] at h; exact absurd h (by simp)
    | some M =>
      rw [hst] at h
      obtain ⟨M', hM', hLM⟩ := ih (by omega) M hst
      have hstep : gjStep n k M = some N := by simpa using h
      obtain ⟨N', hN', hLN⟩ := gjStep_leftEq n k M M' N (by omega) hLM hstep
      refine ⟨N', ?_, hLN⟩
      rw [List.range_succ, List.foldl_append, hM']
      simpa using hN'
/-- **the elimination succeeds for every right-hand side as soon as it succeeds for one** -/
theorem solveDense_indep (n : Nat) (A : Mat R) (hA : ∀ i, i < n → (A.getD i #[]).size = n)
    (b y b' : Array R) (h : solveDense n A b = some y) : ∃ y', solveDense n A b' = some y' := by
  rw [solveDense_eq'] at h
  cases hst : (List.range n).foldl (fun (st : Option (Mat R)) k => st.bind (gjStep n k))
      (some (augM n A b)) with
  | none => rw [hst] at h; exact absurd h (by simp)
  | some N =>
    have hL : LeftEq n (augM n A b) (augM n A b') := by
      refine ⟨augM_size n A b, augM_size n A b', ?_⟩
      intro i j hi hj
      have hjn : ¬ j = n := by omega
      rw [augM_entries n A hA b i j hi, augM_entries n A hA b' i j hi, if_neg hjn, if_neg hjn]
    obtain ⟨N', hN', _⟩ := gjFold_leftEq n _ _ hL n (Nat.le_refl n) N hst
    rw [solveDense_eq', hN']
    exact ⟨_, rfl⟩
theorem rd_unit (n j i : Nat) (hi : i < n) : K.rd (unit n j : Array R) i = if i = j then 1 else 0 := by
  unfold unit
  rw [rd_map_range n _ i hi]
/-- **one successful coarsest solve makes the coarsest matrix invertible**, with the inverse
`invOp` the elimination itself computes -/
theorem coarseInv_of_success (Ac : K.Csr R) (b y : Array R)
    (h : solveDense Ac.n (denseOfCsr Ac Ac.n) b = some y) :
    CoarseInv Ac (invOp Ac.n (denseOfCsr Ac Ac.n)) := by
  have hA := fun i hi => denseOfCsr_size Ac Ac.n i hi
  -- the solutions for the unit vectors
  have hcol : ∀ j, ∀ i, i < Ac.n →
      ∑ k ∈ range Ac.n, mget (denseOfCsr Ac Ac.n) i k *
        K.rd ((solveDense Ac.n (denseOfCsr Ac Ac.n) (unit Ac.n j)).getD #[]) k = K.rd (unit Ac.n j : Array R) i := by
    intro j
    obtain ⟨yj, hyj⟩ := solveDense_indep Ac.n _ hA b y (unit Ac.n j) h
    rw [hyj]
    exact (solveDense_sound Ac.n _ hA _ yj hyj).2
  have hsupp : ∀ (u : Nat → R) i, Ac.n ≤ i → invOp Ac.n (denseOfCsr Ac Ac.n) u i = 0 := by
    intro u i hi
    show (if i < Ac.n then _ else 0) = 0
    rw [if_neg (by omega)]
  refine ⟨?_, hsupp⟩
  intro u i hi
  rw [← denseOfCsr_dot Ac Ac.n _ (hsupp u) i hi]
  have e1 : ∀ k ∈ range Ac.n, mget (denseOfCsr Ac Ac.n) i k * invOp Ac.n (denseOfCsr Ac Ac.n) u k =
      ∑ j ∈ range Ac.n, u j * (mget (denseOfCsr Ac Ac.n) i k *
        K.rd ((solveDense Ac.n (denseOfCsr Ac Ac.n) (unit Ac.n j)).getD #[]) k) := by
    intro k hk
    show _ * (if k < Ac.n then _ else 0) = _
    rw [if_pos (Finset.mem_range.1 hk), Finset.mul_sum]
    apply Finset.sum_congr rfl
    intro j _
    ring
  rw [Finset.sum_congr rfl e1, Finset.sum_comm]
  have e2 : ∀ j ∈ range Ac.n, ∑ k ∈ range Ac.n, u j * (mget (denseOfCsr Ac Ac.n) i k *
        K.rd ((solveDense Ac.n (denseOfCsr Ac Ac.n) (unit Ac.n j)).getD #[]) k) =
      if i = j then u j else 0 := by
    intro j _
    rw [← Finset.mul_sum, hcol j i hi, rd_unit Ac.n j i hi]
    by_cases hij : i = j
    · rw [if_pos hij, if_pos hij, mul_one]
    · rw [if_neg hij, if_neg hij, mul_zero]
  rw [Finset.sum_congr rfl e2, Finset.sum_ite_eq (range Ac.n) i, if_pos (Finset.mem_range.2 hi)]
theorem solveLvl_coarse_success (ofRat : Rat → R) (Ac : K.Csr R) :
    ∀ (Ls : List (Lvl R)) (c : Cyc) (x b y : Array R), solveLvl ofRat Ac c Ls x b = some y →
      ∃ b' y', solveDense Ac.n (denseOfCsr Ac Ac.n) b' = some y' := by
  intro Ls
  induction Ls with
  | nil =>
    intro c x b y h
    exact ⟨b, y, by cases c <;> exact h⟩
  | cons L rest ih =>
    intro c x b y h
    rw [solveLvl_cons] at h
    generalize spmv L.R (vsub b (spmv L.A (applySm ofRat L.pre L.A L.C x b))) = cb at h
    cases hco : coarseStep ofRat Ac c rest cb with
    | none => rw [hco] at h; exact absurd h (by simp)
    | some cx =>
      cases rest with
      | nil =>
        have h0 : solveLvl ofRat Ac c [] (zeros cb.size) cb = some cx := by cases c <;> exact hco
        exact ih c _ _ cx h0
      | cons L' rest' =>
        cases c with
        | V =>
          have h0 : solveLvl ofRat Ac .V (L' :: rest') (zeros cb.size) cb = some cx := hco
          exact ih .V _ _ cx h0
        | W =>
          have h0 : (solveLvl ofRat Ac .W (L' :: rest') (zeros cb.size) cb).bind
              (fun c1 => solveLvl ofRat Ac .W (L' :: rest') c1 cb) = some cx := hco
          cases hc1 : solveLvl ofRat Ac .W (L' :: rest') (zeros cb.size) cb with
          | none => rw [hc1] at h0; exact absurd h0 (by simp)
          | some c1 => exact ih .W _ _ c1 hc1
end PyamgV.CF.C05
