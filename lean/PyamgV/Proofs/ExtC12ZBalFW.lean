import PyamgV.Proofs.ExtC17R5Fw
import PyamgV.Proofs.ExtC12BalFirst

/-! PyamgV (C12, extension E56, part 1a): Floyd–Warshall on one cluster (`BalLloyd.fwRun`) on weights on a grid `h·ℕ`
coarser than the tolerance — what `center_nodes` needs to hand a state satisfying the invariant `Bal.Inv` of balanced
Bellman–Ford back to the kernel:

* **soundness** (`FB.snd`): every finite `D[t,u]` is the length of a walk from `glob t` to `glob u` along stored entries
  and lies on the grid; the diagonal is `0` with `P[t,t] = glob t`;
* **the predecessor invariant** (`Pr`): for `t ≠ u` with `D[t,u]` finite, `P[t,u]` is a node `glob q` of the cluster
  with a stored entry `(glob q, glob u, a)` and `D[t,q] + a ≤ D[t,u]`.  Inside round `k` of the in-place triple loop the
  invariant is temporarily weakened (`RInv.wpr`: `D[t,k] + D[k,q] + a ≤ D[t,u]` with the values at the start of the
  round, which row `k` / column `k` keep during the round) and is restored at the end of the round, when every cell
  `(t,q)` has been relaxed through `k`.
Finiteness of all `N × N` entries on a strongly connected cluster is `C17R5.fwRun_connected` (E46). -/
namespace PyamgV.C12ZB
open PyamgV.Bal PyamgV.BalLloyd
open PyamgV.BF (Walk)

/-! ### reading and writing cells -/

def Dc (N : Nat) (fw : FW) (t u : Nat) : Option Rat := rdO fw.D (t * N + u)
def Pc (N : Nat) (fw : FW) (t u : Nat) : Int := rdI fw.P (t * N + u)

def OnGrid (h x : Rat) : Prop := ∃ k : Nat, x = (k : Rat) * h

theorem onGrid_nonneg {h x : Rat} (hh : 0 < h) (hx : OnGrid h x) : 0 ≤ x := by
  obtain ⟨k, rfl⟩ := hx
  have : (0 : Rat) ≤ k := Nat.cast_nonneg k
  positivity

theorem onGrid_add {h x y : Rat} (hx : OnGrid h x) (hy : OnGrid h y) : OnGrid h (x + y) := by
  obtain ⟨a, rfl⟩ := hx
  obtain ⟨b, rfl⟩ := hy
  exact ⟨a + b, by push_cast; ring⟩

/-- on the grid the tolerance test is exact: not `x > s + tol` means `x ≤ s` -/
theorem grid_le {h tol x s : Rat} (h0 : 0 < tol) (h1 : tol < h) (hx : OnGrid h x) (hs : OnGrid h s)
    (hn : ¬ x > s + tol) : x ≤ s := by
  obtain ⟨a, rfl⟩ := hx
  obtain ⟨b, rfl⟩ := hs
  by_contra hlt
  have hlt' : (b : Rat) * h < (a : Rat) * h := lt_of_not_ge hlt
  have hh : 0 < h := lt_trans h0 h1
  have hab : (b : Rat) < a := lt_of_mul_lt_mul_right hlt' hh.le
  have hab' : b + 1 ≤ a := by exact_mod_cast hab
  have h3 : ((b : Rat) + 1) ≤ a := by exact_mod_cast hab'
  apply hn
  nlinarith

theorem walk_trans {E : List Edge} {a b c : Nat} {L M : Rat} (h1 : Walk E a b L) (h2 : Walk E b c M) :
    Walk E a c (L + M) := by
  induction h2 with
  | refl => simpa using h1
  | step _ he ih => rw [← add_assoc]; exact Walk.step ih he

section cells
variable {N : Nat}

theorem cell_eq {i j t u : Nat} (hj : j < N) (hu : u < N) : (i * N + j = t * N + u) ↔ (i = t ∧ j = u) := by
  constructor
  · intro he; exact idx2_inj hj hu he
  · rintro ⟨rfl, rfl⟩; rfl

theorem Dc_write {fw : FW} {i j : Nat} (hi : i < N) (hj : j < N) (hsz : N * N ≤ fw.D.size) (v : Option Rat) (pv : Int)
    {t u : Nat} (hu : u < N) :
    Dc N ⟨wrO fw.D (i * N + j) v, wrI fw.P (i * N + j) pv⟩ t u = if t = i ∧ u = j then v else Dc N fw t u := by
  unfold Dc
  show rdO (wrO fw.D (i * N + j) v) (t * N + u) = _
  rw [rdO_wrO]
  have hlt : i * N + j < fw.D.size := lt_of_lt_of_le (C17R5.idx2_lt hi hj) hsz
  by_cases hc : t = i ∧ u = j
  · rw [if_pos hc, if_pos ⟨by rw [hc.1, hc.2], hlt⟩]
  · rw [if_neg hc, if_neg]
    rintro ⟨he, _⟩
    have := (cell_eq hj hu).1 he
    exact hc ⟨this.1.symm, this.2.symm⟩

theorem Pc_write {fw : FW} {i j : Nat} (hi : i < N) (hj : j < N) (hsz : N * N ≤ fw.P.size) (v : Option Rat) (pv : Int)
    {t u : Nat} (hu : u < N) :
    Pc N ⟨wrO fw.D (i * N + j) v, wrI fw.P (i * N + j) pv⟩ t u = if t = i ∧ u = j then pv else Pc N fw t u := by
  unfold Pc
  show rdI (wrI fw.P (i * N + j) pv) (t * N + u) = _
  rw [rdI_wrI]
  have hlt : i * N + j < fw.P.size := lt_of_lt_of_le (C17R5.idx2_lt hi hj) hsz
  by_cases hc : t = i ∧ u = j
  · rw [if_pos hc, if_pos ⟨by rw [hc.1, hc.2], hlt⟩]
  · rw [if_neg hc, if_neg]
    rintro ⟨he, _⟩
    have := (cell_eq hj hu).1 he
    exact hc ⟨this.1.symm, this.2.symm⟩

end cells

/-! ### the invariants -/

section inv
variable (E : List Edge) (N : Nat) (gl : Nat → Nat) (h : Rat)

/-- holds at every moment of the run: sizes, soundness on the grid, the diagonal -/
structure FB (fw : FW) : Prop where
  szd : N * N ≤ fw.D.size
  szp : N * N ≤ fw.P.size
  snd : ∀ t u, t < N → u < N → ∀ x, Dc N fw t u = some x → Walk E (gl t) (gl u) x ∧ OnGrid h x
  diag : ∀ t, t < N → Dc N fw t t = some 0 ∧ Pc N fw t t = (gl t : Int)

/-- the predecessor invariant -/
def Pr (fw : FW) : Prop :=
  ∀ t u, t < N → u < N → t ≠ u → ∀ x, Dc N fw t u = some x →
    ∃ q, q < N ∧ Pc N fw t u = (gl q : Int) ∧ ∃ a y, (gl q, gl u, a) ∈ E ∧ Dc N fw t q = some y ∧ y + a ≤ x

/-- inside round `k`, started at `fw0`, with the cells before `(i, j)` relaxed -/
structure RInv (k : Nat) (fw0 : FW) (i j : Nat) (fw : FW) : Prop where
  base : FB E N gl h fw
  rowk : ∀ u, u < N → Dc N fw k u = Dc N fw0 k u ∧ Pc N fw k u = Pc N fw0 k u
  colk : ∀ t, t < N → Dc N fw t k = Dc N fw0 t k
  mono : ∀ t u, t < N → u < N → ∀ x, Dc N fw0 t u = some x → ∃ x', Dc N fw t u = some x' ∧ x' ≤ x
  done : ∀ t u, t < N → u < N → (t < i ∨ (t = i ∧ u < j)) → ∀ y z, Dc N fw0 t k = some y → Dc N fw0 k u = some z →
    ∃ x, Dc N fw t u = some x ∧ x ≤ y + z
  wpr : ∀ t u, t < N → u < N → t ≠ u → ∀ x, Dc N fw t u = some x →
    ∃ q, q < N ∧ Pc N fw t u = (gl q : Int) ∧ ∃ a, (gl q, gl u, a) ∈ E ∧
      ((∃ y, Dc N fw t q = some y ∧ y + a ≤ x) ∨
       (∃ y z, Dc N fw0 t k = some y ∧ Dc N fw0 k q = some z ∧ y + z + a ≤ x))

end inv

section round
variable {E : List Edge} {N : Nat} {gl : Nat → Nat} {h tol : Rat}

theorem rinv_start {k : Nat} {fw0 : FW} (hB : FB E N gl h fw0) (hP : Pr E N gl fw0) : RInv E N gl h k fw0 0 0 fw0 := by
  refine ⟨hB, fun u _ => ⟨rfl, rfl⟩, fun t _ => rfl, fun t u _ _ x hx => ⟨x, hx, le_refl x⟩, ?_, ?_⟩
  · intro t u _ _ hlt
    rcases hlt with hlt | ⟨_, hlt⟩ <;> omega
  · intro t u ht hu htu x hx
    obtain ⟨q, hq, hp, a, y, he, hy, hle⟩ := hP t u ht hu htu x hx
    exact ⟨q, hq, hp, a, he, Or.inl ⟨y, hy, hle⟩⟩

theorem rinv_row {k i : Nat} {fw0 fw : FW} (R : RInv E N gl h k fw0 i N fw) : RInv E N gl h k fw0 (i + 1) 0 fw := by
  refine ⟨R.base, R.rowk, R.colk, R.mono, ?_, R.wpr⟩
  intro t u ht hu hlt
  apply R.done t u ht hu
  rcases hlt with hlt | ⟨_, hlt⟩
  · by_cases hti : t = i
    · exact Or.inr ⟨hti, hu⟩
    · exact Or.inl (by omega)
  · omega

theorem rinv_end {k : Nat} {fw0 fw : FW} (R : RInv E N gl h k fw0 N 0 fw) :
    FB E N gl h fw ∧ Pr E N gl fw := by
  refine ⟨R.base, ?_⟩
  intro t u ht hu htu x hx
  obtain ⟨q, hq, hp, a, he, hcase⟩ := R.wpr t u ht hu htu x hx
  refine ⟨q, hq, hp, a, ?_⟩
  rcases hcase with ⟨y, hy, hle⟩ | ⟨y, z, hy, hz, hle⟩
  · exact ⟨y, he, hy, hle⟩
  · obtain ⟨x', hx', hle'⟩ := R.done t q ht hq (Or.inl ht) y z hy hz
    exact ⟨x', he, hx', by linarith⟩

/-- **one relaxation inside round `k`** -/
theorem relax_rinv (h0 : 0 < tol) (h1 : tol < h) {k i j : Nat} (hk : k < N) (hi : i < N) (hj : j < N) {fw0 fw : FW}
    (R : RInv E N gl h k fw0 i j fw) : RInv E N gl h k fw0 i (j + 1) (fwRelax tol N k i fw j) := by
  have hh : 0 < h := lt_trans h0 h1
  have hDik : Dc N fw i k = Dc N fw0 i k := R.colk i hi
  have hDkj : Dc N fw k j = Dc N fw0 k j := (R.rowk j hj).1
  unfold fwRelax
  simp only
  by_cases hg : gtTol tol (rdO fw.D (i * N + j)) (addO (rdO fw.D (i * N + k)) (rdO fw.D (k * N + j))) = true
  · rw [if_pos hg]
    -- both summands are finite
    cases hik : rdO fw.D (i * N + k) with
    | none => rw [hik] at hg; cases hd : rdO fw.D (i * N + j) <;> rw [hd] at hg <;> simp [addO, gtTol] at hg
    | some y =>
      cases hkj : rdO fw.D (k * N + j) with
      | none => rw [hik, hkj] at hg; cases hd : rdO fw.D (i * N + j) <;> rw [hd] at hg <;> simp [addO, gtTol] at hg
      | some z =>
        rw [hik, hkj] at hg
        simp only [addO] at hg ⊢
        have hik' : Dc N fw i k = some y := hik
        have hkj' : Dc N fw k j = some z := hkj
        obtain ⟨wy, gy⟩ := R.base.snd i k hi hk y hik'
        obtain ⟨wz, gz⟩ := R.base.snd k j hk hj z hkj'
        have y0 := onGrid_nonneg hh gy
        have z0 := onGrid_nonneg hh gz
        -- the old value is larger than the new one
        have hold : ∀ x, Dc N fw i j = some x → y + z < x := by
          intro x hx
          have hx' : rdO fw.D (i * N + j) = some x := hx
          rw [hx'] at hg
          simp only [gtTol, decide_eq_true_eq] at hg
          linarith
        -- the cell is neither in row k, nor in column k, nor on the diagonal
        have hjk : j ≠ k := by
          intro e
          subst e
          have := hold y hik'
          linarith
        have hik_ne : i ≠ k := by
          intro e
          subst e
          have := hold z hkj'
          linarith
        have hij : i ≠ j := by
          intro e
          subst e
          have := hold 0 (R.base.diag i hi).1
          linarith
        -- reading the new arrays
        have rD : ∀ t u, u < N → Dc N ⟨wrO fw.D (i * N + j) (some (y + z)), wrI fw.P (i * N + j) (rdI fw.P (k * N + j))⟩ t u =
            if t = i ∧ u = j then some (y + z) else Dc N fw t u :=
          fun t u hu => Dc_write hi hj R.base.szd _ _ hu
        have rP : ∀ t u, u < N → Pc N ⟨wrO fw.D (i * N + j) (some (y + z)), wrI fw.P (i * N + j) (rdI fw.P (k * N + j))⟩ t u =
            if t = i ∧ u = j then rdI fw.P (k * N + j) else Pc N fw t u :=
          fun t u hu => Pc_write hi hj R.base.szp _ _ hu
        -- the predecessor of (k, j), in terms of the values at the start of the round
        have hkpred : ∃ q, q < N ∧ Pc N fw k j = (gl q : Int) ∧ ∃ a zq, (gl q, gl j, a) ∈ E ∧
            Dc N fw0 k q = some zq ∧ zq + a ≤ z := by
          obtain ⟨q, hq, hp, a, he, hcase⟩ := R.wpr k j hk hj (Ne.symm hjk) z hkj'
          refine ⟨q, hq, hp, a, ?_⟩
          rcases hcase with ⟨y', hy', hle⟩ | ⟨y', z', hy', hz', hle⟩
          · rw [(R.rowk q hq).1] at hy'
            exact ⟨y', he, hy', hle⟩
          · have hd0 : Dc N fw0 k k = some 0 := by rw [← (R.rowk k hk).1]; exact (R.base.diag k hk).1
            rw [hd0] at hy'
            injection hy' with hy'
            exact ⟨z', he, hz', by linarith⟩
        refine ⟨⟨by rw [size_wrO]; exact R.base.szd, by rw [size_wrI]; exact R.base.szp, ?_, ?_⟩, ?_, ?_, ?_, ?_, ?_⟩
        · -- soundness
          intro t u ht hu x hx
          rw [rD t u hu] at hx
          by_cases hc : t = i ∧ u = j
          · rw [if_pos hc] at hx
            injection hx with hx
            rw [hc.1, hc.2, ← hx]
            exact ⟨walk_trans wy wz, onGrid_add gy gz⟩
          · rw [if_neg hc] at hx
            exact R.base.snd t u ht hu x hx
        · -- diagonal
          intro t ht
          rw [rD t t ht, rP t t ht, if_neg (fun hc => hij (hc.1.symm.trans hc.2)), if_neg (fun hc => hij (hc.1.symm.trans hc.2))]
          exact R.base.diag t ht
        · -- row k
          intro u hu
          rw [rD k u hu, rP k u hu, if_neg (fun hc => hik_ne hc.1.symm), if_neg (fun hc => hik_ne hc.1.symm)]
          exact R.rowk u hu
        · -- column k
          intro t ht
          rw [rD t k hk, if_neg (fun hc => hjk hc.2.symm)]
          exact R.colk t ht
        · -- monotone
          intro t u ht hu x hx
          obtain ⟨x', hx', hle⟩ := R.mono t u ht hu x hx
          rw [rD t u hu]
          by_cases hc : t = i ∧ u = j
          · rw [if_pos hc]
            rw [hc.1, hc.2] at hx'
            exact ⟨y + z, rfl, by have := hold x' hx'; linarith⟩
          · rw [if_neg hc]; exact ⟨x', hx', hle⟩
        · -- done
          intro t u ht hu hlt y' z' hy' hz'
          rw [rD t u hu]
          by_cases hc : t = i ∧ u = j
          · rw [if_pos hc]
            rw [hc.1, ← hDik, hik'] at hy'
            rw [hc.2, ← hDkj, hkj'] at hz'
            injection hy' with hy'
            injection hz' with hz'
            exact ⟨y + z, rfl, by rw [hy', hz']⟩
          · rw [if_neg hc]
            apply R.done t u ht hu ?_ y' z' hy' hz'
            rcases hlt with hlt | ⟨e1, hlt⟩
            · exact Or.inl hlt
            · refine Or.inr ⟨e1, ?_⟩
              by_contra hn
              exact hc ⟨e1, by omega⟩
        · -- weak predecessor invariant
          intro t u ht hu htu x hx
          rw [rD t u hu] at hx
          rw [rP t u hu]
          by_cases hc : t = i ∧ u = j
          · rw [if_pos hc] at hx ⊢
            injection hx with hx
            obtain ⟨q, hq, hp, a, zq, he, hzq, hle⟩ := hkpred
            refine ⟨q, hq, hp, a, by rw [hc.2]; exact he, Or.inr ⟨y, zq, ?_, hzq, by rw [← hx]; linarith⟩⟩
            rw [hc.1, ← hDik]; exact hik'
          · rw [if_neg hc] at hx ⊢
            obtain ⟨q, hq, hp, a, he, hcase⟩ := R.wpr t u ht hu htu x hx
            refine ⟨q, hq, hp, a, he, ?_⟩
            rcases hcase with ⟨y', hy', hle⟩ | hr
            · left
              rw [rD t q hq]
              by_cases hc2 : t = i ∧ q = j
              · rw [if_pos hc2]
                rw [hc2.1, hc2.2] at hy'
                exact ⟨y + z, rfl, by have := hold y' hy'; linarith⟩
              · rw [if_neg hc2]; exact ⟨y', hy', hle⟩
            · exact Or.inr hr
  · rw [if_neg hg]
    refine ⟨R.base, R.rowk, R.colk, R.mono, ?_, R.wpr⟩
    intro t u ht hu hlt y z hy hz
    by_cases hc : t = i ∧ u = j
    · obtain ⟨rfl, rfl⟩ := hc
      rw [← hDik] at hy
      rw [← hDkj] at hz
      have hy' : rdO fw.D (t * N + k) = some y := hy
      have hz' : rdO fw.D (k * N + u) = some z := hz
      rw [hy', hz'] at hg
      simp only [addO] at hg
      obtain ⟨_, gy⟩ := R.base.snd t k ht hk y hy
      obtain ⟨_, gz⟩ := R.base.snd k u hk hu z hz
      cases hd : rdO fw.D (t * N + u) with
      | none => rw [hd] at hg; exact absurd rfl hg
      | some x =>
        rw [hd] at hg
        simp only [gtTol, decide_eq_true_eq] at hg
        obtain ⟨_, gx⟩ := R.base.snd t u ht hu x hd
        exact ⟨x, hd, grid_le h0 h1 gx (onGrid_add gy gz) hg⟩
    · apply R.done t u ht hu ?_ y z hy hz
      rcases hlt with hlt | ⟨e1, hlt⟩
      · exact Or.inl hlt
      · refine Or.inr ⟨e1, ?_⟩
        by_contra hn
        exact hc ⟨e1, by omega⟩

/-- one round of the triple loop keeps soundness and restores the predecessor invariant -/
theorem round_inv (h0 : 0 < tol) (h1 : tol < h) {k : Nat} (hk : k < N) {fw0 : FW} (hB : FB E N gl h fw0)
    (hP : Pr E N gl fw0) :
    FB E N gl h ((List.range N).foldl (fun fw i => (List.range N).foldl (fwRelax tol N k i) fw) fw0) ∧
    Pr E N gl ((List.range N).foldl (fun fw i => (List.range N).foldl (fwRelax tol N k i) fw) fw0) := by
  have key := foldl_range_inv (fun fw i => (List.range N).foldl (fwRelax tol N k i) fw)
    (fun I (b : FW) => RInv E N gl h k fw0 I 0 b) N fw0 (rinv_start hB hP) (by
      intro i b hi hb
      have key2 := foldl_range_inv (fwRelax tol N k i) (fun J (c : FW) => RInv E N gl h k fw0 i J c) N b hb
        (fun j c hj hc => relax_rinv h0 h1 hk hi hj hc)
      exact rinv_row key2)
  exact rinv_end key

theorem fwMain_inv (h0 : 0 < tol) (h1 : tol < h) {fw : FW} (hB : FB E N gl h fw) (hP : Pr E N gl fw) :
    FB E N gl h (fwMain tol N fw) ∧ Pr E N gl (fwMain tol N fw) := by
  unfold fwMain
  exact foldl_range_inv
    (fun fw k => (List.range N).foldl (fun fw i => (List.range N).foldl (fwRelax tol N k i) fw) fw)
    (fun _ (b : FW) => FB E N gl h b ∧ Pr E N gl b) N fw ⟨hB, hP⟩
    (fun k b hk hb => round_inv h0 h1 hk hb.1 hb.2)

end round

/-! ### the two initialisation loops -/

section init
variable {A : Csr} {N : Nat} {gl : Nat → Nat} {h : Rat} {glob : Nat → Option Nat} {l : OArr} {m : Array Int} {a : Int}

/-- the bucket of cluster `a` in local indices -/
structure Loc (A : Csr) (glob : Nat → Option Nat) (l : OArr) (m : Array Int) (a : Int) (N : Nat) (gl : Nat → Nat) : Prop where
  slot : ∀ t, t < N → glob t = some (gl t) ∧ gl t < A.n ∧ rdI m (gl t) = a
  back : ∀ g, g < A.n → rdI m g = a → ∃ t, t < N ∧ rdU l g = some t ∧ gl t = g
  cols : ∀ i, i < A.n → ∀ jj ∈ A.jjs i, rdN A.aj jj < A.n

/-- after the edge loop: every finite cell is a stored entry with its row as predecessor -/
def EdgeCells (A : Csr) (N : Nat) (gl : Nat → Nat) (fw : FW) : Prop :=
  N * N ≤ fw.D.size ∧ N * N ≤ fw.P.size ∧
  ∀ t u, t < N → u < N → ∀ x, Dc N fw t u = some x → (gl t, gl u, x) ∈ A.entries ∧ Pc N fw t u = (gl t : Int)

theorem fwEdge_cells (hL : Loc A glob l m a N gl) {_i : Nat} (h_i : _i < N) {fw fw' : FW} {jj : Nat}
    (hjj : jj ∈ A.jjs (gl _i)) (hc : EdgeCells A N gl fw) (hf : fwEdge A l m a N _i (gl _i) fw jj = some fw') :
    EdgeCells A N gl fw' := by
  unfold fwEdge at hf
  simp only at hf
  split at hf
  · rename_i hma
    have hjn := hL.cols (gl _i) (hL.slot _i h_i).2.1 jj hjj
    obtain ⟨t, ht, hlt, hgt⟩ := hL.back _ hjn hma
    rw [hlt] at hf
    simp only at hf
    split at hf
    · injection hf with hf
      subst hf
      obtain ⟨s1, s2, s3⟩ := hc
      refine ⟨by rw [size_wrO]; exact s1, by rw [size_wrI]; exact s2, ?_⟩
      intro t' u ht' hu x hx
      rw [Dc_write h_i ht s1 _ _ hu] at hx
      rw [Pc_write h_i ht s2 _ _ hu]
      by_cases hcc : t' = _i ∧ u = t
      · rw [if_pos hcc] at hx ⊢
        injection hx with hx
        rw [hcc.1, hcc.2, hgt, ← hx]
        exact ⟨entry_mem A (hL.slot _i h_i).2.1 hjj, rfl⟩
      · rw [if_neg hcc] at hx ⊢
        exact s3 t' u ht' hu x hx
    · cases hf
  · injection hf with hf
    subst hf
    exact hc

theorem fwEdges_cells (hL : Loc A glob l m a N gl) {fw fw' : FW} (hc : EdgeCells A N gl fw)
    (hf : fwEdges A glob l m a N fw = some fw') : EdgeCells A N gl fw' := by
  unfold fwEdges at hf
  refine foldlM_range_inv _ (fun _ fw => EdgeCells A N gl fw) N fw fw' hc ?_ hf
  intro _i b b' h_i hb hst
  rw [(hL.slot _i h_i).1] at hst
  simp only at hst
  rw [if_pos (hL.slot _i h_i).2.1] at hst
  refine foldlM_list_inv _ (fun fw => EdgeCells A N gl fw) _ b b' hb ?_ hst
  intro jj hjj c c' hcc hst2
  exact fwEdge_cells hL h_i hjj hcc hst2

/-- after the diagonal loop -/
def DiagCells (A : Csr) (N : Nat) (gl : Nat → Nat) (T : Nat) (fw : FW) : Prop :=
  N * N ≤ fw.D.size ∧ N * N ≤ fw.P.size ∧
  (∀ t u, t < N → u < N → ∀ x, Dc N fw t u = some x →
    (t = u ∧ x = 0 ∧ Pc N fw t u = (gl t : Int)) ∨ ((gl t, gl u, x) ∈ A.entries ∧ Pc N fw t u = (gl t : Int))) ∧
  ∀ t, t < T → Dc N fw t t = some 0 ∧ Pc N fw t t = (gl t : Int)

theorem fwDiag_cells (hL : Loc A glob l m a N gl) {fw fw' : FW} (hc : EdgeCells A N gl fw)
    (hf : fwDiag glob N fw = some fw') : DiagCells A N gl N fw' := by
  unfold fwDiag at hf
  refine foldlM_range_inv _ (fun T fw => DiagCells A N gl T fw) N fw fw'
    ⟨hc.1, hc.2.1, fun t u ht hu x hx => Or.inr (hc.2.2 t u ht hu x hx), fun t ht => by omega⟩ ?_ hf
  intro T b b' hT ⟨s1, s2, s3, s4⟩ hst
  rw [(hL.slot T hT).1] at hst
  simp only at hst
  split at hst
  · injection hst with hst
    subst hst
    refine ⟨by rw [size_wrO]; exact s1, by rw [size_wrI]; exact s2, ?_, ?_⟩
    · intro t u ht hu x hx
      rw [Dc_write hT hT s1 _ _ hu] at hx
      rw [Pc_write hT hT s2 _ _ hu]
      by_cases hcc : t = T ∧ u = T
      · rw [if_pos hcc] at hx ⊢
        injection hx with hx
        exact Or.inl ⟨hcc.1.trans hcc.2.symm, hx.symm, by rw [hcc.1]; rfl⟩
      · rw [if_neg hcc] at hx ⊢
        exact s3 t u ht hu x hx
    · intro t ht
      rw [Dc_write hT hT s1 _ _ (show t < N by omega), Pc_write hT hT s2 _ _ (show t < N by omega)]
      by_cases htT : t = T
      · rw [if_pos ⟨htT, htT⟩, if_pos ⟨htT, htT⟩, htT]
        exact ⟨rfl, rfl⟩
      · rw [if_neg (fun hh => htT hh.1), if_neg (fun hh => htT hh.1)]
        exact s4 t (by omega)
  · cases hst

/-- **`floyd_warshall` on one cluster, grid weights**: soundness, diagonal and the predecessor invariant at the end -/
theorem fwRun_inv {tol : Rat} (h0 : 0 < tol) (h1 : tol < h) (hL : Loc A glob l m a N gl)
    (hW : ∀ e ∈ A.entries, OnGrid h e.2.2) {maxsize : Nat} {fw : FW}
    (hf : fwRun tol A glob l m a N maxsize = some fw) :
    FB A.entries N gl h fw ∧ Pr A.entries N gl fw := by
  unfold fwRun at hf
  split at hf
  · rename_i hNN
    cases e1 : fwEdges A glob l m a N ⟨Array.replicate (maxsize * maxsize) none, Array.replicate (maxsize * maxsize) (-1)⟩ with
    | none => rw [e1] at hf; cases hf
    | some fw1 =>
      rw [e1] at hf
      simp only at hf
      cases e2 : fwDiag glob N fw1 with
      | none => rw [e2] at hf; cases hf
      | some fw2 =>
        rw [e2] at hf
        injection hf with hf
        subst hf
        have hinit : EdgeCells A N gl ⟨Array.replicate (maxsize * maxsize) none, Array.replicate (maxsize * maxsize) (-1)⟩ := by
          refine ⟨by simpa using hNN, by simpa using hNN, ?_⟩
          intro t u _ _ x hx
          exfalso
          unfold Dc at hx
          simp only [rdO, Array.getD_eq_getD_getElem?, Array.getElem?_replicate] at hx
          split at hx <;> cases hx
        obtain ⟨s1, s2, s3, s4⟩ := fwDiag_cells hL (fwEdges_cells hL hinit e1) e2
        apply fwMain_inv h0 h1
        · refine ⟨s1, s2, ?_, s4⟩
          intro t u ht hu x hx
          rcases s3 t u ht hu x hx with ⟨e, ex, _⟩ | ⟨he, _⟩
          · subst e; subst ex
            exact ⟨Walk.refl _, 0, by simp⟩
          · refine ⟨?_, hW _ he⟩
            have := Walk.step (Walk.refl (gl t)) he
            simpa using this
        · intro t u ht hu htu x hx
          rcases s3 t u ht hu x hx with ⟨e, _, _⟩ | ⟨he, hp⟩
          · exact absurd e htu
          · exact ⟨t, ht, hp, x, 0, he, (s4 t ht).1, by linarith⟩
  · cases hf

end init

end PyamgV.C12ZB
