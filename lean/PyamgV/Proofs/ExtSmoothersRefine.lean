import PyamgV.Model.ExtSmoothers
import PyamgV.Proofs.C02Model
import PyamgV.Proofs.ExtSmoothers

/-! PyamgV (extension E22): the executable array model `ExtSm.polynomial` of `relaxation.polynomial` (the one the
driver op `ext_poly` runs against the real function) read as functions `Nat → R` is `iterations` applications of the
function-level model `polyFn` with the CSR operator of the proofs; hence the linear-iteration, fixed-point and
energy theorems of Proofs/ExtSmoothers.lean are statements about the validated model. -/
namespace PyamgV

variable {R : Type} [Field R] [LinearOrder R] [IsStrictOrderedRing R] [DecidableEq R]

theorem vscale_size (c : R) (x : Array R) : (ExtSm.vscale c x).size = x.size := by
  unfold ExtSm.vscale; simp

theorem vscale_refines (c : R) (x : Array R) : fn (ExtSm.vscale c x) = c • fn x := by
  funext i
  unfold ExtSm.vscale
  rw [fn_map_range]
  by_cases hi : i < x.size
  · simp [hi, fn]
  · have h1 := fn_zero_of_size x i (by omega)
    simp [hi, h1]

theorem allZero_fn (x : Array R) (h : ExtSm.allZero x = true) : fn x = 0 := by
  funext i
  by_cases hi : i < x.size
  · unfold ExtSm.allZero at h
    rw [List.all_eq_true] at h
    have := h i (List.mem_range.2 hi)
    simpa [fn] using this
  · exact fn_zero_of_size x i (by omega)

/-- one pass of the loop of `relaxation.polynomial` = `polyFn` (the `norm(x) == 0` shortcut included) -/
theorem polyStep_refines (A : K.Csr R) (c0 : R) (cs : List R) (b x : Array R)
    (hb : b.size = A.n) (hx : x.size = A.n) :
    (ExtSm.polyStep A c0 cs b x).size = A.n ∧
      fn (ExtSm.polyStep A c0 cs b x) = polyFn (csrOp A.n (rowOf A)) c0 cs (fn x) (fn b) := by
  unfold ExtSm.polyStep
  -- the residual
  have hres : ∃ r : Array R, (if ExtSm.allZero x then b else C02.vsub b (C02.spmv A x)) = r ∧ r.size = A.n ∧
      fn r = fn b - csrOp A.n (rowOf A) (fn x) := by
    by_cases hz : ExtSm.allZero x = true
    · refine ⟨b, by rw [if_pos hz], hb, ?_⟩
      rw [allZero_fn x hz]; simp
    · refine ⟨_, by rw [if_neg hz], by rw [vsub_size, hb], ?_⟩
      rw [vsub_refines _ _ (by rw [spmv_size, hb]), spmv_refines]
  obtain ⟨r, hr, hrn, hrf⟩ := hres
  simp only [hr]
  -- the Horner loop
  have hloop : ∀ (cs : List R) (h : Array R) (hv : Nat → R), h.size = A.n → fn h = hv →
      (cs.foldl (fun h c => C02.vadd (ExtSm.vscale c r) (C02.spmv A h)) h).size = A.n ∧
      fn (cs.foldl (fun h c => C02.vadd (ExtSm.vscale c r) (C02.spmv A h)) h) =
        cs.foldl (fun h c => c • fn r + csrOp A.n (rowOf A) h) hv := by
    intro cs
    induction cs with
    | nil => intro h hv hn hf; exact ⟨hn, hf⟩
    | cons c rest ih =>
      intro h hv hn hf
      simp only [List.foldl_cons]
      apply ih
      · rw [vadd_size, vscale_size, hrn]
      · rw [vadd_refines _ _ (by rw [spmv_size, vscale_size, hrn]), vscale_refines, spmv_refines, hf]
  obtain ⟨hn, hf⟩ := hloop cs (ExtSm.vscale c0 r) (c0 • fn r) (by rw [vscale_size, hrn]) (vscale_refines c0 r)
  refine ⟨by rw [vadd_size, hx], ?_⟩
  rw [vadd_refines _ _ (by rw [hn, hx]), hf, polynomial_isLinIter (csrOp A.n (rowOf A)) c0 cs (fn x) (fn b),
    ← polyHorner_eq, hrf]
  rfl

/-- **`ExtSm.polynomial` (arrays, CSR) read as functions is `iterations` applications of `polyFn`** -/
theorem polynomial_refines (A : K.Csr R) (c0 : R) (cs : List R) (iters : Nat) (b x : Array R)
    (hb : b.size = A.n) (hx : x.size = A.n) :
    ∃ y, ExtSm.polynomial A (c0 :: cs) iters b x = some y ∧ y.size = A.n ∧
      fn y = iter (polyFn (csrOp A.n (rowOf A)) c0 cs) (fn b) iters (fn x) := by
  refine ⟨_, rfl, ?_⟩
  exact kiter_refines (ExtSm.polyStep A c0 cs b) (polyFn (csrOp A.n (rowOf A)) c0 cs) (fn b) A.n
    (fun x hx => polyStep_refines A c0 cs b x hb hx) iters x hx

/-- the executable model is the linear iteration with operator `p(A)`, `iterations` times -/
theorem polynomial_array_isLinIter (A : K.Csr R) (c0 : R) (cs : List R) (iters : Nat) (b x : Array R)
    (hb : b.size = A.n) (hx : x.size = A.n) :
    ∃ y, ExtSm.polynomial A (c0 :: cs) iters b x = some y ∧
      fn y = fn x + powM (csrOp A.n (rowOf A)) (polyOp (csrOp A.n (rowOf A)) c0 cs) iters
        (fn b - csrOp A.n (rowOf A) (fn x)) := by
  obtain ⟨y, hy, _, hf⟩ := polynomial_refines A c0 cs iters b x hb hx
  exact ⟨y, hy, by rw [hf]; exact polynomial_iter_isLinIter _ c0 cs iters (fn x) (fn b)⟩

/-- **C02 for the executable model of `polynomial` / Chebyshev / Richardson**: symmetric PSD CSR matrix,
`0 ≤ a(p(A)A v, v) ≤ 2a(v, v)`: the energy of the error w.r.t. any solution does not increase, any `iterations` -/
theorem polynomial_array_nonexp (A : K.Csr R) (hsym) (hpsd) (c0 : R) (cs : List R)
    (h0 : ∀ v, 0 ≤ (euc R A.n).a (csrOp A.n (rowOf A) (polyOp (csrOp A.n (rowOf A)) c0 cs (csrOp A.n (rowOf A) v))) v)
    (h2 : ∀ v, (euc R A.n).a (csrOp A.n (rowOf A) (polyOp (csrOp A.n (rowOf A)) c0 cs (csrOp A.n (rowOf A) v))) v ≤
        2 * (euc R A.n).a (csrOp A.n (rowOf A) v) v)
    (iters : Nat) (b x : Array R) (hb : b.size = A.n) (hx : x.size = A.n)
    (xs : Nat → R) (hxs : csrOp A.n (rowOf A) xs = fn b) :
    ∃ y, ExtSm.polynomial A (c0 :: cs) iters b x = some y ∧
      ((euc R A.n).ofOp (csrOp A.n (rowOf A)) hsym hpsd).en (xs - fn y) ≤
      ((euc R A.n).ofOp (csrOp A.n (rowOf A)) hsym hpsd).en (xs - fn x) := by
  obtain ⟨y, hy, _, hf⟩ := polynomial_refines A c0 cs iters b x hb hx
  refine ⟨y, hy, ?_⟩
  rw [hf]
  exact polynomial_iter_nonexp (euc R A.n) _ hsym hpsd c0 cs h0 h2 iters (fn x) (fn b) xs hxs

/-- the exact solution (as an array) is returned unchanged -/
theorem polynomial_array_fixed_point (A : K.Csr R) (c0 : R) (cs : List R) (iters : Nat) (b x : Array R)
    (hb : b.size = A.n) (hx : x.size = A.n) (hsol : csrOp A.n (rowOf A) (fn x) = fn b) :
    ∃ y, ExtSm.polynomial A (c0 :: cs) iters b x = some y ∧ y.size = A.n ∧ fn y = fn x := by
  obtain ⟨y, hy, hn, hf⟩ := polynomial_refines A c0 cs iters b x hb hx
  refine ⟨y, hy, hn, ?_⟩
  rw [hf]
  exact (polynomial_iter_isLinIter _ c0 cs iters).fixed_point (fn x) (fn b) hsol

/-- the model rejects exactly what the code rejects: no coefficients and at least one iteration -/
theorem polynomial_empty (A : K.Csr R) (iters : Nat) (b x : Array R) :
    ExtSm.polynomial A [] iters b x = if iters = 0 then some x else none := rfl

#print axioms polynomial_refines
#print axioms polynomial_array_nonexp
end PyamgV
