import PyamgV.Proofs.C17Safe3

/-! PyamgV (C17): further `Ck` models with their safety theorems --
`apply_distance_filter`, `apply_absolute_distance_filter`, `min_blocks` (evolution_strength.h),
`jacobi_ne` (relaxation.h; its three loops are `for(i = start; i < stop; i += step)`),
`one_point_interpolation` (air.h; private `pointInd` vector + output cursor `next ≤ row`),
`bellman_ford` (graph.h; the `while(!done)` loop with fuel: bounds for every number of passes;
termination is `bellman_ford_total`).  Core Lean only. -/
namespace PyamgV.C17
open PyamgV.Ck

set_option linter.unusedSectionVars false
variable {α : Type} [Inhabited α]

/-! ### distance filters, `min_blocks` -/

structure FOps (α : Type) where
  one : α
  zero : α
  big : α                 -- `std::numeric_limits<T>::max()`
  min : α → α → α
  ge : α → α → Bool
  mul : α → α → α
  isZero : α → Bool

/-- `apply_distance_filter` (row minimum of the off-diagonals, then the drop loop; `Sx` in place) -/
def distFilter (o : FOps α) (eps : α) (G : Csr α) : Ck (Array α) :=
  forRange 0 (G.n : Int) G.ax (fun i (sx : Array α) => do
    let s ← rd G.ap i
    let e ← rd G.ap (i+1)
    let mn ← forRange s e o.big (fun jj (m : α) => do
      let j ← rd G.aj jj
      if j ≠ i then do
        let v ← rd sx jj
        pure (o.min m v)
      else pure m)
    forRange s e sx (fun jj (sx : Array α) => do
      let j ← rd G.aj jj
      if j = i then wr sx jj o.one
      else do
        let v ← rd sx jj
        if o.ge v (o.mul eps mn) then wr sx jj o.zero else pure sx))

/-- `apply_absolute_distance_filter` -/
def absDistFilter (o : FOps α) (eps : α) (G : Csr α) : Ck (Array α) :=
  forRange 0 (G.n : Int) G.ax (fun i (sx : Array α) => do
    let s ← rd G.ap i
    let e ← rd G.ap (i+1)
    forRange s e sx (fun jj (sx : Array α) => do
      let j ← rd G.aj jj
      if j = i then wr sx jj o.one
      else do
        let v ← rd sx jj
        if o.ge v eps then wr sx jj o.zero else pure sx))

/-- `min_blocks`: `Tx[i] = min of the nonzero entries of block i` (`block += blocksize`) -/
def minBlocks (o : FOps α) (nblocks bs : Nat) (sx tx : Array α) : Ck (Array α) :=
  forRange 0 (nblocks : Int) tx (fun i (tx : Array α) => do
    let m ← forRange 0 (bs : Int) o.big (fun j (m : α) => do
      let v ← rd sx (i * (bs : Int) + j)
      if o.isZero v then pure m else pure (o.min m v))
    wr tx i m)

theorem distFilter_safe (o : FOps α) (eps : α) (G : Csr α) {m : Nat} (hG : WFm G m) :
    Safe (distFilter o eps G) (fun sx => sx.size = G.ax.size) := by
  unfold distFilter
  apply forRange_safe (fun sx : Array α => sx.size = G.ax.size) 0 (G.n : Int) _ _ rfl
  intro i i0 i1 sx hsx
  have hin : i.toNat < G.n := by omega
  have hs1 : (i+1).toNat = i.toNat + 1 := by omega
  refine Safe.bind (rd_safe G.ap i i0 (by rw [hG.ap_size]; omega)) (fun s hs => ?_)
  refine Safe.bind (rd_safe G.ap (i+1) (by omega) (by rw [hG.ap_size]; omega)) (fun e he => ?_)
  rw [hs1] at he
  refine Safe.bind (P := fun _ => True) ?_ (fun mn _ => ?_)
  · apply forRange_safe (fun _ => True) s e _ _ trivial
    intro jj j1 j2 acc _
    have hr := row_range_m G hG i.toNat hin jj (by rw [hs] at j1; exact j1) (by rw [he] at j2; exact j2)
    refine Safe.bind (rd_safe G.aj jj hr.1 hr.2.1) (fun j _ => ?_)
    by_cases hji : j ≠ i
    · rw [if_pos hji]
      exact Safe.bind (rd_safe sx jj hr.1 (by rw [hsx]; exact hr.2.2)) (fun _ _ => Safe.pure trivial)
    · rw [if_neg hji]; exact Safe.pure trivial
  · apply forRange_safe (fun sx : Array α => sx.size = G.ax.size) s e _ _ hsx
    intro jj j1 j2 sx' hsx'
    have hr := row_range_m G hG i.toNat hin jj (by rw [hs] at j1; exact j1) (by rw [he] at j2; exact j2)
    have hw : jj.toNat < sx'.size := by rw [hsx']; exact hr.2.2
    refine Safe.bind (rd_safe G.aj jj hr.1 hr.2.1) (fun j _ => ?_)
    by_cases hji : j = i
    · rw [if_pos hji]
      exact Safe.mono (wr_safe sx' jj _ hr.1 hw) (fun a' h => by rw [h, hsx'])
    · rw [if_neg hji]
      refine Safe.bind (rd_safe sx' jj hr.1 hw) (fun v _ => ?_)
      by_cases hge : o.ge v (o.mul eps mn) = true
      · rw [if_pos hge]
        exact Safe.mono (wr_safe sx' jj _ hr.1 hw) (fun a' h => by rw [h, hsx'])
      · rw [if_neg hge]; exact Safe.pure hsx'

theorem absDistFilter_safe (o : FOps α) (eps : α) (G : Csr α) {m : Nat} (hG : WFm G m) :
    Safe (absDistFilter o eps G) (fun sx => sx.size = G.ax.size) := by
  unfold absDistFilter
  apply forRange_safe (fun sx : Array α => sx.size = G.ax.size) 0 (G.n : Int) _ _ rfl
  intro i i0 i1 sx hsx
  have hin : i.toNat < G.n := by omega
  have hs1 : (i+1).toNat = i.toNat + 1 := by omega
  refine Safe.bind (rd_safe G.ap i i0 (by rw [hG.ap_size]; omega)) (fun s hs => ?_)
  refine Safe.bind (rd_safe G.ap (i+1) (by omega) (by rw [hG.ap_size]; omega)) (fun e he => ?_)
  rw [hs1] at he
  apply forRange_safe (fun sx : Array α => sx.size = G.ax.size) s e _ _ hsx
  intro jj j1 j2 sx' hsx'
  have hr := row_range_m G hG i.toNat hin jj (by rw [hs] at j1; exact j1) (by rw [he] at j2; exact j2)
  have hw : jj.toNat < sx'.size := by rw [hsx']; exact hr.2.2
  refine Safe.bind (rd_safe G.aj jj hr.1 hr.2.1) (fun j _ => ?_)
  by_cases hji : j = i
  · rw [if_pos hji]
    exact Safe.mono (wr_safe sx' jj _ hr.1 hw) (fun a' h => by rw [h, hsx'])
  · rw [if_neg hji]
    refine Safe.bind (rd_safe sx' jj hr.1 hw) (fun v _ => ?_)
    by_cases hge : o.ge v eps = true
    · rw [if_pos hge]
      exact Safe.mono (wr_safe sx' jj _ hr.1 hw) (fun a' h => by rw [h, hsx'])
    · rw [if_neg hge]; exact Safe.pure hsx'

/-- **`min_blocks`**: `Sx` holds `n_blocks * blocksize` entries, `Tx` holds `n_blocks` -/
theorem minBlocks_safe (o : FOps α) (nblocks bs : Nat) (sx tx : Array α)
    (hsx : sx.size = nblocks * bs) (htx : tx.size = nblocks) :
    Safe (minBlocks o nblocks bs sx tx) (fun tx' => tx'.size = nblocks) := by
  unfold minBlocks
  apply forRange_safe (fun tx' : Array α => tx'.size = nblocks) 0 (nblocks : Int) _ _ htx
  intro i i0 i1 tx' htx'
  refine Safe.bind (P := fun _ => True) ?_ (fun mn _ => ?_)
  · apply forRange_safe (fun _ => True) 0 (bs : Int) _ _ trivial
    intro j j0 j1 acc _
    have hb0 : 0 ≤ i * (bs : Int) := Int.mul_nonneg i0 (by omega)
    have hb1 : i * (bs : Int) ≤ ((nblocks : Int) - 1) * (bs : Int) :=
      Int.mul_le_mul_of_nonneg_right (by omega) (by omega)
    have hsz : (sx.size : Int) = (nblocks : Int) * (bs : Int) := by rw [hsx]; push_cast; rfl
    have hsub : ((nblocks : Int) - 1) * (bs : Int) = (nblocks : Int) * (bs : Int) - (bs : Int) := by
      rw [Int.sub_mul]; omega
    refine Safe.bind (rd_safe sx (i * (bs : Int) + j) (by omega) (by omega)) (fun v _ => ?_)
    by_cases hz : o.isZero v = true
    · rw [if_pos hz]; exact Safe.pure trivial
    · rw [if_neg hz]; exact Safe.pure trivial
  · exact Safe.mono (wr_safe tx' i mn i0 (by rw [htx']; omega)) (fun a' h => by rw [h, htx'])

/-! ### `for(i = start; i < stop; i += step)` and `jacobi_ne` -/

/-- `none` = fuel exhausted -/
def forLt {σ : Type} (stop step : Int) (body : Int → σ → Ck σ) : Nat → Int → Ck σ → Option (Ck σ)
  | 0, i, st => if i < stop then none else some st
  | fuel+1, i, st => if i < stop then forLt stop step body fuel (i + step) (st >>= body i) else some st

theorem forLt_safe {σ : Type} (Inv : σ → Prop) (n : Nat) (stop step : Int) (hstep : 0 < step)
    (hstop : stop ≤ (n : Int)) (body : Int → σ → Ck σ)
    (hbody : ∀ i, 0 ≤ i → i < (n : Int) → ∀ st, Inv st → Safe (body i st) Inv) :
    ∀ (fuel : Nat) (i : Int) (st : Ck σ), (stop - i).toNat ≤ fuel → 0 ≤ i → Safe st Inv →
      ∃ r, forLt stop step body fuel i st = some r ∧ Safe r Inv := by
  intro fuel
  induction fuel with
  | zero =>
    intro i st hf _ hst
    have : ¬ i < stop := by omega
    exact ⟨st, by unfold forLt; rw [if_neg this], hst⟩
  | succ f ih =>
    intro i st hf hi hst
    unfold forLt
    by_cases hlt : i < stop
    · rw [if_pos hlt]
      exact ih (i + step) _ (by omega) (by omega)
        (Safe.bind hst (fun a ha => hbody i hi (by omega) a ha))
    · rw [if_neg hlt]; exact ⟨st, rfl, hst⟩

/-- `temp[i] = 0` -/
def neZero (o : KOps α) (i : Int) (st : XT α) : Ck (XT α) := do
  let t ← wr st.2 i o.zero
  pure (st.1, t)

/-- `for j in row i: temp[Aj[j]] += omega*conj(Ax[j])*delta[i]` -/
def neScatter (o : KOps α) (om : α) (G : Csr α) (delta : Array α) (i : Int) (st : XT α) : Ck (XT α) := do
  let s ← rd G.ap i
  let e ← rd G.ap (i+1)
  let di ← rd delta i
  let t ← forRange s e st.2 (fun j (t : Array α) => do
    let c ← rd G.aj j
    let tc ← rd t c
    let a ← rd G.ax j
    wr t c (o.add tc (o.mul (o.mul om (o.conj a)) di)))
  pure (st.1, t)

/-- `x[i] += temp[i]` -/
def neAdd (o : KOps α) (i : Int) (st : XT α) : Ck (XT α) := do
  let xi ← rd st.1 i
  let ti ← rd st.2 i
  let x ← wr st.1 i (o.add xi ti)
  pure (x, st.2)

/-- `jacobi_ne`: the three loops, each over `i = start, start+step, … < stop`; state `(x, temp)` -/
def jacobiNe (o : KOps α) (omv : Array α) (G : Csr α) (delta : Array α) (start stop step : Int)
    (fuel : Nat) (x temp : Array α) : Option (Ck (XT α)) :=
  let om := rd omv 0
  match forLt stop step (neZero o) fuel start (om >>= fun _ => pure (x, temp)) with
  | none => none
  | some st1 =>
    match forLt stop step (neScatter o om.val G delta) fuel start st1 with
    | none => none
    | some st2 => forLt stop step (neAdd o) fuel start st2

theorem neZero_safe (o : KOps α) (n : Nat) (i : Int) (i0 : 0 ≤ i) (i1 : i < (n : Int)) (st : XT α)
    (hst : st.1.size = n ∧ st.2.size = n) :
    Safe (neZero o i st) (fun st' => st'.1.size = n ∧ st'.2.size = n) := by
  unfold neZero
  refine Safe.bind (wr_safe st.2 i o.zero i0 (by rw [hst.2]; omega)) (fun t htt => ?_)
  exact Safe.pure ⟨hst.1, by show t.size = n; rw [htt, hst.2]⟩

theorem neAdd_safe (o : KOps α) (n : Nat) (i : Int) (i0 : 0 ≤ i) (i1 : i < (n : Int)) (st : XT α)
    (hst : st.1.size = n ∧ st.2.size = n) :
    Safe (neAdd o i st) (fun st' => st'.1.size = n ∧ st'.2.size = n) := by
  unfold neAdd
  refine Safe.bind (rd_safe st.1 i i0 (by rw [hst.1]; omega)) (fun xi _ => ?_)
  refine Safe.bind (rd_safe st.2 i i0 (by rw [hst.2]; omega)) (fun ti _ => ?_)
  refine Safe.bind (wr_safe st.1 i _ i0 (by rw [hst.1]; omega)) (fun x' hx' => ?_)
  exact Safe.pure ⟨by show x'.size = n; rw [hx', hst.1], hst.2⟩

theorem neScatter_safe (o : KOps α) (om : α) (G : Csr α) (hG : WFm G G.n) (delta : Array α)
    (hdl : delta.size = G.n) (i : Int) (i0 : 0 ≤ i) (i1 : i < (G.n : Int)) (st : XT α)
    (hst : st.1.size = G.n ∧ st.2.size = G.n) :
    Safe (neScatter o om G delta i st) (fun st' => st'.1.size = G.n ∧ st'.2.size = G.n) := by
  have hin : i.toNat < G.n := by omega
  have hs1 : (i+1).toNat = i.toNat + 1 := by omega
  unfold neScatter
  refine Safe.bind (rd_safe G.ap i i0 (by rw [hG.ap_size]; omega)) (fun s hs => ?_)
  refine Safe.bind (rd_safe G.ap (i+1) (by omega) (by rw [hG.ap_size]; omega)) (fun e he => ?_)
  rw [hs1] at he
  refine Safe.bind (rd_safe delta i i0 (by rw [hdl]; exact hin)) (fun di _ => ?_)
  refine Safe.bind (P := fun t : Array α => t.size = G.n) ?_ (fun t htt => Safe.pure ⟨hst.1, htt⟩)
  apply forRange_safe (fun t : Array α => t.size = G.n) s e _ _ hst.2
  intro jj j1 j2 t htt
  have hr := row_range_m G hG i.toNat hin jj (by rw [hs] at j1; exact j1) (by rw [he] at j2; exact j2)
  refine Safe.bind (rd_safe G.aj jj hr.1 hr.2.1) (fun c hc => ?_)
  have hcc := hG.cols jj.toNat hr.2.1
  have hc' : c = G.aj.getD jj.toNat 0 := hc
  refine Safe.bind (rd_safe t c (by rw [hc']; exact hcc.1) (by rw [hc', htt]; omega)) (fun tc _ => ?_)
  refine Safe.bind (rd_safe G.ax jj hr.1 hr.2.2) (fun a _ => ?_)
  exact Safe.mono (wr_safe t c _ (by rw [hc']; exact hcc.1) (by rw [hc', htt]; omega))
    (fun a' h => by rw [h, htt])

/-- **`jacobi_ne`** on a square matrix: `0 ≤ start`, `stop ≤ n`, `step > 0` (the Python caller passes
`(0, n, 1)`), fuel `≥ stop - start` -/
theorem jacobiNe_safe (o : KOps α) (omv : Array α) (hom : 0 < omv.size) (G : Csr α) (hG : WFm G G.n)
    (delta : Array α) (hdl : delta.size = G.n) (start stop step : Int) (hs0 : 0 ≤ start)
    (hstop : stop ≤ (G.n : Int)) (hstep : 0 < step) (fuel : Nat) (hf : (stop - start).toNat ≤ fuel)
    (x temp : Array α) (hx : x.size = G.n) (ht : temp.size = G.n) :
    ∃ r, jacobiNe o omv G delta start stop step fuel x temp = some r ∧
      Safe r (fun st => st.1.size = G.n ∧ st.2.size = G.n) := by
  have h0 : Safe (rd omv 0 >>= fun _ => (pure (x, temp) : Ck (XT α)))
      (fun st => st.1.size = G.n ∧ st.2.size = G.n) :=
    Safe.bind (rd_safe omv 0 (Int.le_refl 0) (by simpa using hom)) (fun _ _ => Safe.pure ⟨hx, ht⟩)
  obtain ⟨r1, e1, s1⟩ := forLt_safe (fun st : XT α => st.1.size = G.n ∧ st.2.size = G.n) G.n stop step
    hstep hstop (neZero o) (fun i i0 i1 st hst => neZero_safe o G.n i i0 i1 st hst) fuel start _ hf hs0 h0
  obtain ⟨r2, e2, s2⟩ := forLt_safe (fun st : XT α => st.1.size = G.n ∧ st.2.size = G.n) G.n stop step
    hstep hstop (neScatter o (rd omv 0).val G delta)
    (fun i i0 i1 st hst => neScatter_safe o _ G hG delta hdl i i0 i1 st hst) fuel start r1 hf hs0 s1
  obtain ⟨r3, e3, s3⟩ := forLt_safe (fun st : XT α => st.1.size = G.n ∧ st.2.size = G.n) G.n stop step
    hstep hstop (neAdd o) (fun i i0 i1 st hst => neAdd_safe o G.n i i0 i1 st hst) fuel start r2 hf hs0 s2
  refine ⟨r3, ?_, s3⟩
  unfold jacobiNe
  simp only [e1, e2, e3]

/-! ### `one_point_interpolation` -/

/-- state of the row loop: `Pp`, `Pj`, `Px`, `next` -/
abbrev OP (α : Type) := Array Int × Array Int × Array α × Int

structure POps (α : Type) where
  one : α
  neg : α → α
  zero : α
  /-- `std::abs(Cx[i]) > max` on the running maximum, started at `-1` -/
  absGt : α → α → Bool
  abs : α → α
  minusOne : α

/-- the body of the row loop for one `row` (`pind` = the C-point enumeration `pointInd`) -/
def opRow (o : POps α) (G : Csr α) (splitting pind : Array Int) (row : Int) (st : OP α) : Ck (OP α) := do
  let sr ← rd splitting row
  let st' ← (if sr = 1 then do
      let c ← rd pind row
      let pj ← wr st.2.1 st.2.2.2 c
      let px ← wr st.2.2.1 st.2.2.2 o.one
      pure ((st.1, pj, px, st.2.2.2 + 1) : OP α)
    else do
      let s ← rd G.ap row
      let e ← rd G.ap (row + 1)
      let best ← forRange s e (o.minusOne, (-1 : Int), o.zero) (fun i (acc : α × Int × α) => do
        let j ← rd G.aj i
        let sj ← rd splitting j
        if sj = 1 then do
          let v ← rd G.ax i
          if o.absGt v acc.1 then pure (o.abs v, j, v) else pure acc
        else pure acc)
      if best.2.1 > -1 then do
        let c ← rd pind best.2.1
        let pj ← wr st.2.1 st.2.2.2 c
        let px ← wr st.2.2.1 st.2.2.2 (o.neg best.2.2)
        pure ((st.1, pj, px, st.2.2.2 + 1) : OP α)
      else pure st)
  let pp ← wr st'.1 (row + 1) st'.2.2.2
  pure (pp, st'.2.1, st'.2.2.1, st'.2.2.2)

/-- `std::vector<I> pointInd(n); pointInd[0] = 0; pointInd[i] = pointInd[i-1] + splitting[i-1]` -/
def opPointInd (n : Int) (splitting : Array Int) : Ck (Array Int) := do
  let pind ← wr (Array.replicate n.toNat (0 : Int)) 0 0
  forRange 1 n pind (fun i (pi : Array Int) => do
    let a ← rd pi (i - 1)
    let b ← rd splitting (i - 1)
    wr pi i (a + b))

/-- `one_point_interpolation` (`n = Pp_size - 1`) -/
def onePoint (o : POps α) (pp pj : Array Int) (px : Array α) (G : Csr α) (splitting : Array Int) :
    Ck (OP α) := do
  let pind ← opPointInd ((pp.size : Int) - 1) splitting
  let pp0 ← wr pp 0 0
  forRange 0 ((pp.size : Int) - 1) (pp0, pj, px, (0 : Int)) (opRow o G splitting pind)

def OPInv (n : Nat) (row : Int) (st : OP α) : Prop :=
  st.1.size = n + 1 ∧ st.2.1.size = n ∧ st.2.2.1.size = n ∧ 0 ≤ st.2.2.2 ∧ st.2.2.2 ≤ row

theorem opPointInd_safe (n : Nat) (hn : 1 ≤ n) (splitting : Array Int) (hsp : splitting.size = n) :
    Safe (opPointInd (n : Int) splitting) (fun pi => pi.size = n) := by
  unfold opPointInd
  have hrep : (Array.replicate (n : Int).toNat (0 : Int)).size = n := by simp
  refine Safe.bind (wr_safe _ 0 0 (Int.le_refl 0) (by rw [hrep]; omega)) (fun pi0 hpi0 => ?_)
  apply forRange_safe (fun pi : Array Int => pi.size = n) 1 (n : Int) _ _ (by rw [hpi0, hrep])
  intro i i0 i1 pi hpi
  refine Safe.bind (rd_safe pi (i - 1) (by omega) (by rw [hpi]; omega)) (fun a _ => ?_)
  refine Safe.bind (rd_safe splitting (i - 1) (by omega) (by rw [hsp]; omega)) (fun b _ => ?_)
  exact Safe.mono (wr_safe pi i _ (by omega) (by rw [hpi]; omega)) (fun a' h => by rw [h, hpi])

theorem opRow_safe (o : POps α) (G : Csr α) (hG : WFm G G.n) (splitting pind : Array Int)
    (hsp : splitting.size = G.n) (hpind : pind.size = G.n) (row : Int) (r0 : 0 ≤ row)
    (r1 : row < (G.n : Int)) (st : OP α) (hst : OPInv G.n row st) :
    Safe (opRow o G splitting pind row st) (OPInv G.n (row + 1)) := by
  obtain ⟨h1, h2, h3, h4, h5⟩ := hst
  have hin : row.toNat < G.n := by omega
  have hs1 : (row+1).toNat = row.toNat + 1 := by omega
  have hwj : st.2.2.2.toNat < st.2.1.size := by rw [h2]; omega
  have hwx : st.2.2.2.toNat < st.2.2.1.size := by rw [h3]; omega
  unfold opRow
  refine Safe.bind (rd_safe splitting row r0 (by rw [hsp]; exact hin)) (fun sr _ => ?_)
  refine Safe.bind (P := OPInv G.n (row + 1)) ?_ (fun st' hst' => ?_)
  · by_cases hc : sr = 1
    · rw [if_pos hc]
      refine Safe.bind (rd_safe pind row r0 (by rw [hpind]; exact hin)) (fun c _ => ?_)
      refine Safe.bind (wr_safe st.2.1 st.2.2.2 c h4 hwj) (fun pj' hpj' => ?_)
      refine Safe.bind (wr_safe st.2.2.1 st.2.2.2 o.one h4 hwx) (fun px' hpx' => ?_)
      exact Safe.pure ⟨h1, by show pj'.size = G.n; rw [hpj', h2], by show px'.size = G.n; rw [hpx', h3],
        by show 0 ≤ st.2.2.2 + 1; omega, by show st.2.2.2 + 1 ≤ row + 1; omega⟩
    · rw [if_neg hc]
      refine Safe.bind (rd_safe G.ap row r0 (by rw [hG.ap_size]; omega)) (fun s hs => ?_)
      refine Safe.bind (rd_safe G.ap (row+1) (by omega) (by rw [hG.ap_size]; omega)) (fun e he => ?_)
      rw [hs1] at he
      refine Safe.bind (P := fun acc : α × Int × α => acc.2.1 < (G.n : Int)) ?_ (fun best hbest => ?_)
      · apply forRange_safe (fun acc : α × Int × α => acc.2.1 < (G.n : Int)) s e _ _
          (by show (-1 : Int) < (G.n : Int); omega)
        intro jj j1 j2 acc hacc
        have hr := row_range_m G hG row.toNat hin jj (by rw [hs] at j1; exact j1) (by rw [he] at j2; exact j2)
        refine Safe.bind (rd_safe G.aj jj hr.1 hr.2.1) (fun j hj => ?_)
        have hcc := hG.cols jj.toNat hr.2.1
        have hj' : j = G.aj.getD jj.toNat 0 := hj
        refine Safe.bind (rd_safe splitting j (by rw [hj']; exact hcc.1) (by rw [hj', hsp]; omega)) (fun sj _ => ?_)
        by_cases hsj : sj = 1
        · rw [if_pos hsj]
          refine Safe.bind (rd_safe G.ax jj hr.1 hr.2.2) (fun v _ => ?_)
          by_cases hgt : o.absGt v acc.1 = true
          · rw [if_pos hgt]; exact Safe.pure (by show j < (G.n : Int); rw [hj']; exact hcc.2)
          · rw [if_neg hgt]; exact Safe.pure hacc
        · rw [if_neg hsj]; exact Safe.pure hacc
      · by_cases hb : best.2.1 > -1
        · rw [if_pos hb]
          refine Safe.bind (rd_safe pind best.2.1 (by omega) (by rw [hpind]; omega)) (fun c _ => ?_)
          refine Safe.bind (wr_safe st.2.1 st.2.2.2 c h4 hwj) (fun pj' hpj' => ?_)
          refine Safe.bind (wr_safe st.2.2.1 st.2.2.2 _ h4 hwx) (fun px' hpx' => ?_)
          exact Safe.pure ⟨h1, by show pj'.size = G.n; rw [hpj', h2], by show px'.size = G.n; rw [hpx', h3],
            by show 0 ≤ st.2.2.2 + 1; omega, by show st.2.2.2 + 1 ≤ row + 1; omega⟩
        · rw [if_neg hb]; exact Safe.pure ⟨h1, h2, h3, h4, by omega⟩
  · obtain ⟨g1, g2, g3, g4, g5⟩ := hst'
    refine Safe.bind (wr_safe st'.1 (row+1) st'.2.2.2 (by omega) (by rw [g1]; omega)) (fun pp' hpp' => ?_)
    exact Safe.pure ⟨by show pp'.size = G.n + 1; rw [hpp', g1], g2, g3, g4, g5⟩

/-- **`one_point_interpolation`**: `Pp` has `n+1 ≥ 2` entries (at least one row), `Pj`, `Px` have `n`
(as `classical/interpolate.py` allocates them), `C` is a well-formed `n × n` pattern with values,
`splitting` has `n` entries.  The cursor satisfies `next ≤ row`. -/
theorem onePoint_safe (o : POps α) (pp pj : Array Int) (px : Array α) (G : Csr α) (hG : WFm G G.n)
    (splitting : Array Int) (hn : 1 ≤ G.n) (hpp : pp.size = G.n + 1) (hpj : pj.size = G.n)
    (hpx : px.size = G.n) (hsp : splitting.size = G.n) :
    Safe (onePoint o pp pj px G splitting) (fun st => st.1.size = G.n + 1) := by
  unfold onePoint
  have hnn : ((pp.size : Int) - 1) = (G.n : Int) := by rw [hpp]; push_cast; omega
  rw [hnn]
  refine Safe.bind (opPointInd_safe G.n hn splitting hsp) (fun pind hpind => ?_)
  refine Safe.bind (wr_safe pp 0 0 (Int.le_refl 0) (by rw [hpp]; omega)) (fun pp0 hpp0 => ?_)
  have key := forRange_safe_idx (OPInv G.n) 0 (G.n : Int) (by omega) (pp0, pj, px, (0 : Int))
    (opRow o G splitting pind)
    ⟨by show pp0.size = G.n + 1; rw [hpp0, hpp], hpj, hpx, Int.le_refl 0, Int.le_refl 0⟩
    (fun row r0 r1 st hst => opRow_safe o G hG splitting pind hsp hpind row r0 r1 st hst)
  exact Safe.mono key (fun st h => h.1)

/-! ### `bellman_ford` -/

structure BOps (α : Type) where
  add : α → α → α
  lt : α → α → Bool

/-- state: `d`, `m`, `p`, `done` -/
abbrev BF (α : Type) := Array α × Array Int × Array Int × Bool

/-- one pass over all edges -/
def bfPass (o : BOps α) (G : Csr α) (st : BF α) : Ck (BF α) :=
  forRange 0 (G.n : Int) (st.1, st.2.1, st.2.2.1, true) (fun i (st : BF α) => do
    let s ← rd G.ap i
    let e ← rd G.ap (i+1)
    forRange s e st (fun jj (st : BF α) => do
      let j ← rd G.aj jj
      let a ← rd G.ax jj
      let di ← rd st.1 i
      let dj ← rd st.1 j
      if o.lt (o.add di a) dj then do
        let d ← wr st.1 j (o.add di a)
        let mi ← rd st.2.1 i
        let m ← wr st.2.1 j mi
        let p ← wr st.2.2.1 j i
        pure (d, m, p, false)
      else pure st))

/-- `while(!done)` with fuel (number of passes) -/
def bellmanFord (o : BOps α) (G : Csr α) : Nat → Ck (BF α) → Ck (BF α)
  | 0, st => st
  | f+1, st => if st.val.2.2.2 then st else bellmanFord o G f (st >>= bfPass o G)

def BFInv (n : Nat) (st : BF α) : Prop := st.1.size = n ∧ st.2.1.size = n ∧ st.2.2.1.size = n

theorem bfPass_safe (o : BOps α) (G : Csr α) (hG : WFm G G.n) (st : BF α) (hst : BFInv G.n st) :
    Safe (bfPass o G st) (BFInv G.n) := by
  unfold bfPass
  apply forRange_safe (BFInv G.n) 0 (G.n : Int) _ _ (show BFInv G.n (st.1, st.2.1, st.2.2.1, true) from hst)
  intro i i0 i1 st1 hst1
  have hin : i.toNat < G.n := by omega
  have hs1 : (i+1).toNat = i.toNat + 1 := by omega
  refine Safe.bind (rd_safe G.ap i i0 (by rw [hG.ap_size]; omega)) (fun s hs => ?_)
  refine Safe.bind (rd_safe G.ap (i+1) (by omega) (by rw [hG.ap_size]; omega)) (fun e he => ?_)
  rw [hs1] at he
  apply forRange_safe (BFInv G.n) s e _ _ hst1
  intro jj j1 j2 st2 hst2
  obtain ⟨h1, h2, h3⟩ := hst2
  have hr := row_range_m G hG i.toNat hin jj (by rw [hs] at j1; exact j1) (by rw [he] at j2; exact j2)
  refine Safe.bind (rd_safe G.aj jj hr.1 hr.2.1) (fun j hj => ?_)
  have hcc := hG.cols jj.toNat hr.2.1
  have hj' : j = G.aj.getD jj.toNat 0 := hj
  have hj0 : 0 ≤ j := by rw [hj']; exact hcc.1
  have hjn : j.toNat < G.n := by rw [hj']; have := hcc.2; omega
  refine Safe.bind (rd_safe G.ax jj hr.1 hr.2.2) (fun a _ => ?_)
  refine Safe.bind (rd_safe st2.1 i i0 (by rw [h1]; exact hin)) (fun di _ => ?_)
  refine Safe.bind (rd_safe st2.1 j hj0 (by rw [h1]; exact hjn)) (fun dj _ => ?_)
  by_cases hlt : o.lt (o.add di a) dj = true
  · rw [if_pos hlt]
    refine Safe.bind (wr_safe st2.1 j _ hj0 (by rw [h1]; exact hjn)) (fun d hd => ?_)
    refine Safe.bind (rd_safe st2.2.1 i i0 (by rw [h2]; exact hin)) (fun mi _ => ?_)
    refine Safe.bind (wr_safe st2.2.1 j mi hj0 (by rw [h2]; exact hjn)) (fun m hm => ?_)
    refine Safe.bind (wr_safe st2.2.2.1 j i hj0 (by rw [h3]; exact hjn)) (fun p hp => ?_)
    exact Safe.pure ⟨by show d.size = G.n; rw [hd, h1], by show m.size = G.n; rw [hm, h2],
      by show p.size = G.n; rw [hp, h3]⟩
  · rw [if_neg hlt]; exact Safe.pure ⟨h1, h2, h3⟩

/-- **`bellman_ford`**: whatever the number of passes, no access leaves `d`, `m`, `p` (length `n`)
or the CSR arrays -/
theorem bellmanFord_safe (o : BOps α) (G : Csr α) (hG : WFm G G.n) :
    ∀ (fuel : Nat) (st : Ck (BF α)), Safe st (BFInv G.n) → Safe (bellmanFord o G fuel st) (BFInv G.n) := by
  intro fuel
  induction fuel with
  | zero => intro st hst; exact hst
  | succ f ih =>
    intro st hst
    unfold bellmanFord
    by_cases hd : st.val.2.2.2 = true
    · rw [if_pos hd]; exact hst
    · rw [if_neg hd]
      exact ih _ (Safe.bind hst (fun a ha => bfPass_safe o G hG a ha))

end PyamgV.C17
