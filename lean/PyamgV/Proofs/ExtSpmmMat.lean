import PyamgV.Proofs.ExtSpmm
import PyamgV.Proofs.ExtSpmmArr
import PyamgV.Proofs.C06CRat
import PyamgV.Proofs.C04Check
import Mathlib.Data.Matrix.Mul
import Mathlib.Algebra.BigOperators.Fin

/-! PyamgV (extension E27): the theorems of `Proofs/ExtSpmm.lean` as statements about Mathlib matrices,
the Galerkin product, independence of the input format, the instance over the Gaussian rationals the
driver runs, and the tie to the dense product of the C04 checker. -/
namespace PyamgV.Spmm

variable {α : Type}

/-- the `m x n` matrix of a dense meaning -/
def denseOf (m n : Nat) (f : Nat → Nat → α) : Matrix (Fin m) (Fin n) α := Matrix.of fun i j => f i.1 j.1

/-- the dense meaning of a CSR matrix as a Mathlib matrix -/
def Csr.mat [Add α] [OfNat α 0] (A : Csr α) : Matrix (Fin A.rows) (Fin A.cols) α := denseOf A.rows A.cols A.val

section semiring
variable [Semiring α] [DecidableEq α]

/-- entry form with `Csr.wf` hypotheses -/
theorem val_mul' (A B : Csr α) (hA : A.wf = true) (hB : B.wf = true) (hdim : A.cols = B.rows) (i j : Nat) :
    (mul A B).val i j = ∑ k ∈ Finset.range A.cols, A.val i k * B.val k j :=
  val_mul A B (A.wf_colsOK hA) (B.wf_colsOK hB) (Nat.le_of_eq hdim) i j

/-- **`val (mul A B) = val A * val B`** as Mathlib matrices -/
theorem mat_mul (A B : Csr α) (hA : A.wf = true) (hB : B.wf = true) (hdim : A.cols = B.rows) :
    denseOf A.rows B.cols (mul A B).val = denseOf A.rows A.cols A.val * denseOf A.cols B.cols B.val := by
  ext i j
  rw [Matrix.mul_apply]
  simp only [denseOf, Matrix.of_apply]
  rw [val_mul' A B hA hB hdim, ← Fin.sum_univ_eq_sum_range (fun k => A.val i.1 k * B.val k j.1)]

/-- **the Galerkin operator computed by the model is the triple product of the dense meanings** -/
theorem mat_galerkin (R A P : Csr α) (hR : R.wf = true) (hA : A.wf = true) (hP : P.wf = true)
    (h1 : R.cols = A.rows) (h2 : A.cols = P.rows) :
    denseOf R.rows P.cols (galerkin R A P).val
      = denseOf R.rows R.cols R.val * denseOf R.cols A.cols A.val * denseOf A.cols P.cols P.val := by
  unfold galerkin
  have hRA : (mul R A).wf = true := mul_wf R A hA
  have e1 : denseOf R.rows P.cols (mul (mul R A) P).val
      = denseOf R.rows A.cols (mul R A).val * denseOf A.cols P.cols P.val := mat_mul (mul R A) P hRA hP h2
  rw [e1, mat_mul R A hR hA h1]

/-- entry form of the same -/
theorem val_galerkin (R A P : Csr α) (hR : R.wf = true) (hA : A.wf = true) (hP : P.wf = true)
    (h1 : R.cols = A.rows) (h2 : A.cols = P.rows) (i j : Nat) :
    (galerkin R A P).val i j
      = ∑ k ∈ Finset.range A.cols, (∑ l ∈ Finset.range R.cols, R.val i l * A.val l k) * P.val k j := by
  unfold galerkin
  have hRA : (mul R A).wf = true := mul_wf R A hA
  rw [val_mul' (mul R A) P hRA hP h2]
  apply Finset.sum_congr rfl
  intro k _
  rw [val_mul' R A hR hA h1]

theorem galerkin_wf (R A P : Csr α) (hP : P.wf = true) : (galerkin R A P).wf = true := mul_wf _ P hP

end semiring

section transpose
variable [AddCommMonoid α]

/-- **the transpose model is the matrix transpose of the dense meaning** -/
theorem mat_transpose (A : Csr α) (hA : A.wf = true) :
    denseOf A.cols A.rows (transpose A).val = (denseOf A.rows A.cols A.val).transpose := by
  ext i j
  simp only [denseOf, Matrix.of_apply, Matrix.transpose_apply]
  exact val_transpose A hA i.1 j.1

/-- `A.T.conjugate()`: conjugate transpose of the dense meaning, for any additive `conj` with `conj 0 = 0` -/
theorem mat_conjT (g : α → α) (hg : g 0 = 0) (hadd : ∀ a b, g (a + b) = g a + g b) (A : Csr α) (hA : A.wf = true) :
    denseOf A.cols A.rows (conjT g A).val = ((denseOf A.rows A.cols A.val).transpose).map g := by
  ext i j
  simp only [denseOf, Matrix.of_apply, Matrix.transpose_apply, Matrix.map_apply]
  exact val_conjT g hg hadd A hA i.1 j.1

theorem conjT_wf (g : α → α) (A : Csr α) : (conjT g A).wf = true := mapVals_wf g _ (transpose_wf A)

end transpose

/-! ### every input format -/

section input
variable [AddCommMonoid α] [DecidableEq α]

/-- **every conversion to CSR preserves the dense meaning**: `val (toCsr X) = val X` -/
theorem Input.val_toCsr (X : Input α) (h : X.wf = true) (i j : Nat) : X.toCsr.val i j = X.val i j := by
  cases X with
  | csr A => rfl
  | csc X => exact val_cscToCsr X h i j
  | coo X => exact val_cooToCsr X h i j
  | dense D => exact val_denseToCsr D h i j
  | bsr X => exact val_bsrToCsr X (X.wf_spec h).2.1 i j

/-- ... and returns a well-formed CSR matrix of the same shape -/
theorem Input.toCsr_wf (X : Input α) (h : X.wf = true) : X.toCsr.wf = true := by
  cases X with
  | csr A => exact h
  | csc X => exact cscToCsr_wf X
  | coo X => exact cooToCsr_wf X h
  | dense D => exact denseToCsr_wf D
  | bsr X => exact bsrToCsr_wf X h

theorem Input.toCsr_rows (X : Input α) : X.toCsr.rows = X.rows := by cases X <;> rfl
theorem Input.toCsr_cols (X : Input α) : X.toCsr.cols = X.cols := by cases X <;> rfl

theorem Input.mat_toCsr (X : Input α) (h : X.wf = true) :
    denseOf X.rows X.cols X.toCsr.val = denseOf X.rows X.cols X.val := by
  ext i j
  simp only [denseOf, Matrix.of_apply]
  exact X.val_toCsr h i.1 j.1

end input

section independence
variable [Semiring α] [DecidableEq α]

/-- same shape, same dense meaning -/
def Csr.SameMeaning (A B : Csr α) : Prop := A.rows = B.rows ∧ A.cols = B.cols ∧ ∀ i j, A.val i j = B.val i j

/-- **format independence of the Galerkin step** (CSR level): operands with the same dense meaning --
whatever their stored pattern, order, duplicates, explicit zeros -- give coarse operators with the same
dense meaning -/
theorem galerkin_congr (R A P R' A' P' : Csr α)
    (hR : R.wf = true) (hA : A.wf = true) (hP : P.wf = true)
    (hR' : R'.wf = true) (hA' : A'.wf = true) (hP' : P'.wf = true)
    (h1 : R.cols = A.rows) (h2 : A.cols = P.rows)
    (eR : R.SameMeaning R') (eA : A.SameMeaning A') (eP : P.SameMeaning P') :
    (galerkin R A P).SameMeaning (galerkin R' A' P') := by
  obtain ⟨r1, r2, r3⟩ := eR
  obtain ⟨a1, a2, a3⟩ := eA
  obtain ⟨p1, p2, p3⟩ := eP
  refine ⟨r1, p2, ?_⟩
  intro i j
  rw [val_galerkin R A P hR hA hP h1 h2, val_galerkin R' A' P' hR' hA' hP' (by omega) (by omega), ← a2, ← r2]
  apply Finset.sum_congr rfl
  intro k _
  rw [p3]
  congr 1
  apply Finset.sum_congr rfl
  intro l _
  rw [r3, a3]

/-- **format independence of the Galerkin step** (input level): two inputs in any of the accepted
formats (CSR, CSC, COO with duplicates, dense, BSR) with the same dense meaning give coarse operators
with the same dense meaning -/
theorem galerkin_input_independent (X Y : Input α) (R P : Csr α)
    (hX : X.wf = true) (hY : Y.wf = true) (hR : R.wf = true) (hP : P.wf = true)
    (hrows : X.rows = Y.rows) (hcols : X.cols = Y.cols) (hval : ∀ i j, X.val i j = Y.val i j)
    (h1 : R.cols = X.rows) (h2 : X.cols = P.rows) :
    (galerkin R X.toCsr P).SameMeaning (galerkin R Y.toCsr P) := by
  apply galerkin_congr R X.toCsr P R Y.toCsr P hR (X.toCsr_wf hX) hP hR (Y.toCsr_wf hY) hP
  · rw [X.toCsr_rows]; exact h1
  · rw [X.toCsr_cols]; exact h2
  · exact ⟨rfl, rfl, fun _ _ => rfl⟩
  · refine ⟨by rw [X.toCsr_rows, Y.toCsr_rows, hrows], by rw [X.toCsr_cols, Y.toCsr_cols, hcols], ?_⟩
    intro i j
    rw [X.val_toCsr hX, Y.val_toCsr hY, hval]
  · exact ⟨rfl, rfl, fun _ _ => rfl⟩

/-- the Galerkin operator of a converted input is the triple product with the input's own meaning -/
theorem mat_galerkin_input (X : Input α) (R P : Csr α)
    (hX : X.wf = true) (hR : R.wf = true) (hP : P.wf = true) (h1 : R.cols = X.rows) (h2 : X.cols = P.rows) :
    denseOf R.rows P.cols (galerkin R X.toCsr P).val
      = denseOf R.rows R.cols R.val * denseOf R.cols X.cols X.val * denseOf X.cols P.cols P.val := by
  have e := mat_galerkin R X.toCsr P hR (X.toCsr_wf hX) hP (by rw [X.toCsr_rows]; exact h1) (by rw [X.toCsr_cols]; exact h2)
  rw [e]
  have hc : X.toCsr.cols = X.cols := X.toCsr_cols
  have : ∀ i j, X.toCsr.val i j = X.val i j := X.val_toCsr hX
  have hfun : X.toCsr.val = X.val := funext fun i => funext fun j => this i j
  rw [hfun, hc]

/-- with `R = Pᵀ` computed by the transpose model: `A_c = Pᵀ A P` -/
theorem mat_galerkin_transpose (A P : Csr α) (hA : A.wf = true) (hP : P.wf = true)
    (h1 : P.rows = A.rows) (h2 : A.cols = P.rows) :
    denseOf P.cols P.cols (galerkin (transpose P) A P).val
      = (denseOf P.rows P.cols P.val).transpose * denseOf P.rows A.cols A.val * denseOf A.cols P.cols P.val := by
  have e := mat_galerkin (transpose P) A P (transpose_wf P) hA hP h1 h2
  have ht := mat_transpose P hP
  exact e.trans (by rw [← ht]; rfl)

end independence

/-! ### the instance the driver runs -/

namespace CRatInst
open PyamgV.CRat

theorem conj_zero : CRat.conj 0 = 0 := by apply CRat.ext' <;> simp [CRat.conj]
theorem conj_add (a b : CRat) : CRat.conj (a + b) = CRat.conj a + CRat.conj b := by
  apply CRat.ext' <;> simp [CRat.conj]; ring

theorem valC_mulC (A B : Csr CRat) (hA : A.wf = true) (hB : B.wf = true) (hdim : A.cols = B.rows) (i j : Nat) :
    valC (mulC A B) i j = ∑ k ∈ Finset.range A.cols, valC A i k * valC B k j :=
  val_mul' A B hA hB hdim i j

theorem valC_galerkinC (R A P : Csr CRat) (hR : R.wf = true) (hA : A.wf = true) (hP : P.wf = true)
    (h1 : R.cols = A.rows) (h2 : A.cols = P.rows) (i j : Nat) :
    valC (galerkinC R A P) i j
      = ∑ k ∈ Finset.range A.cols, (∑ l ∈ Finset.range R.cols, valC R i l * valC A l k) * valC P k j :=
  val_galerkin R A P hR hA hP h1 h2 i j

theorem valC_transposeC (A : Csr CRat) (hA : A.wf = true) (i j : Nat) : valC (transposeC A) i j = valC A j i :=
  val_transpose A hA i j

/-- the array version (`csr_tocsc` loop by loop) the driver runs next to it -/
theorem transposeArrC_row (A : Csr CRat) (hA : A.wf = true) (c : Nat) : (transposeArrC A).row c = (transposeC A).row c :=
  transposeArr_row A hA c

theorem valC_transposeArrC (A : Csr CRat) (hA : A.wf = true) (i j : Nat) : valC (transposeArrC A) i j = valC A j i :=
  val_transposeArr A hA i j

theorem valC_conjTC (A : Csr CRat) (hA : A.wf = true) (i j : Nat) : valC (conjTC A) i j = (valC A j i).conj :=
  val_conjT CRat.conj conj_zero conj_add A hA i j

theorem valC_toCsrC (X : Input CRat) (h : X.wf = true) (i j : Nat) : valC (toCsrC X) i j = X.val i j :=
  X.val_toCsr h i j

theorem valC_sumDuplicatesC (A : Csr CRat) (i j : Nat) : valC (sumDuplicatesC A) i j = valC A i j :=
  val_sumDuplicates A i j

/-- the array the driver prints holds the dense meaning row-major -/
theorem toDenseC_get (A : Csr CRat) (i j : Nat) (hi : i < A.rows) (hj : j < A.cols) :
    (toDenseC A).getD (i * A.cols + j) 0 = valC A i j := by
  have hpos : 0 < A.cols := by omega
  have hlt : i * A.cols + j < A.rows * A.cols := by
    calc i * A.cols + j < i * A.cols + A.cols := by omega
      _ = (i + 1) * A.cols := by rw [Nat.add_mul, Nat.one_mul]
      _ ≤ A.rows * A.cols := Nat.mul_le_mul_right _ hi
  have hdiv : (i * A.cols + j) / A.cols = i := by
    rw [Nat.add_comm, Nat.add_mul_div_right _ _ hpos, Nat.div_eq_of_lt hj, Nat.zero_add]
  have hmod : (i * A.cols + j) % A.cols = j := by
    rw [Nat.add_comm, Nat.add_mul_mod_self_right, Nat.mod_eq_of_lt hj]
  unfold toDenseC Csr.toDense valC
  rw [Array.getD_eq_getD_getElem?, Array.getElem?_ofFn]
  simp only [hlt, dite_true, Option.getD_some, hdiv, hmod]

/-! ### tie to the C04 checker: its dense reference product `R (A P)` of the level operators is the dense
meaning of the sparse product `(R @ A) @ P` the model computes -/

/-- the dense matrix the checker `C04.checkHier` is given for a sparse level operator -/
def toMatC (A : Csr CRat) : C04.Mat := ⟨A.rows, A.cols, toDenseC A⟩

theorem toMatC_ent (A : Csr CRat) (i j : Nat) (hi : i < A.rows) (hj : j < A.cols) :
    (toMatC A).ent i j = valC A i j := by
  show (if j < A.cols then (toDenseC A).getD (i * A.cols + j) 0 else 0) = _
  rw [if_pos hj, toDenseC_get A i j hi hj]

theorem toMatC_wf (A : Csr CRat) : (toMatC A).wf = true := by
  simp [toMatC, C04.Mat.wf, toDenseC, Csr.toDense]

theorem sumN_eq (n : Nat) (f : Nat → CRat) : C04.sumN n f = ∑ k ∈ Finset.range n, f k := by
  induction n with
  | zero => rfl
  | succ n ih =>
    rw [Finset.sum_range_succ, ← ih]
    unfold C04.sumN
    rw [List.range_succ, List.foldl_append]
    rfl

theorem checker_product_eq_model (R A P : Csr CRat) (hR : R.wf = true) (hA : A.wf = true) (hP : P.wf = true)
    (h1 : R.cols = A.rows) (h2 : A.cols = P.rows) (i j : Nat) (hi : i < R.rows) (hj : j < P.cols) :
    ((toMatC R).mul ((toMatC A).mul (toMatC P))).ent i j = valC (galerkinC R A P) i j := by
  rw [valC_galerkinC R A P hR hA hP h1 h2]
  rw [C04.ent_mul (toMatC R) ((toMatC A).mul (toMatC P)) i j hi hj, sumN_eq]
  show ∑ k ∈ Finset.range R.cols, _ = _
  have inner : ∀ k, k ∈ Finset.range R.cols →
      (toMatC R).ent i k * ((toMatC A).mul (toMatC P)).ent k j
        = ∑ l ∈ Finset.range A.cols, valC R i k * valC A k l * valC P l j := by
    intro k hk
    have hk' : k < R.cols := Finset.mem_range.1 hk
    rw [toMatC_ent R i k hi hk', C04.ent_mul (toMatC A) (toMatC P) k j (by show k < A.rows; omega) hj, sumN_eq]
    show _ * ∑ l ∈ Finset.range A.cols, _ = _
    rw [Finset.mul_sum]
    apply Finset.sum_congr rfl
    intro l hl
    have hl' : l < A.cols := Finset.mem_range.1 hl
    rw [toMatC_ent A k l (by omega) hl', toMatC_ent P l j (by omega) hj, mul_assoc]
  rw [Finset.sum_congr rfl inner, Finset.sum_comm]
  apply Finset.sum_congr rfl
  intro l _
  rw [Finset.sum_mul]

end CRatInst

end PyamgV.Spmm
