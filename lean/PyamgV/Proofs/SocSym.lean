import Mathlib.Algebra.Order.Field.Basic
import Mathlib.Algebra.Order.AbsoluteValue.Basic
import Mathlib.Tactic.Linarith
import Mathlib.Tactic.Ring

/-! PyamgV (C14): `symmetric_strength_of_connection` (smoothed_aggregation.h:56) and the signed
(`min`) variant of the classical measure — same shape as `PyamgV.Soc`: the output row is an
order-preserving filter of the input row, hence pattern ⊆ input pattern, diagonal kept, the
stated rule, monotone in θ, θ = 0 keeps everything. -/
namespace PyamgV.SocSym

variable {K : Type*} [Field K] [LinearOrder K] [IsStrictOrderedRing K]

abbrev Row (K : Type*) := List (Nat × K)

/-- `diags[i] = |Σ_{jj : Aj[jj] = i} Ax[jj]|` ("gracefully handle duplicates") -/
def diagAbs (i : Nat) (row : Row K) : K :=
  |((row.filter (fun cv => cv.1 == i)).map (·.2)).sum|

/-- the second loop for row `i`; `d j` is `diags[j]` -/
def symRow (θ : K) (d : Nat → K) (i : Nat) (row : Row K) : Row K :=
  row.foldl (fun out cv =>
    if i = cv.1 then out ++ [cv]
    else if cv.2 * cv.2 ≥ θ * θ * d i * d cv.1 then out ++ [cv] else out) []

theorem symRow_fold (θ : K) (d : Nat → K) (i : Nat) (row : Row K) (acc : Row K) :
    row.foldl (fun out cv =>
      if i = cv.1 then out ++ [cv]
      else if cv.2 * cv.2 ≥ θ * θ * d i * d cv.1 then out ++ [cv] else out) acc
    = acc ++ row.filter (fun cv => decide (i = cv.1 ∨ cv.2 * cv.2 ≥ θ * θ * d i * d cv.1)) := by
  induction row generalizing acc with
  | nil => simp
  | cons cv rest ih =>
    simp only [List.foldl_cons]
    rw [ih]
    by_cases h1 : i = cv.1
    · simp [h1]
    · by_cases h2 : cv.2 * cv.2 ≥ θ * θ * d i * d cv.1
      · simp [h1, h2]
      · simp [h1, h2]

/-- **rule**: kept iff diagonal or `|a_ij|² ≥ θ²·|a_ii|·|a_jj|` -/
theorem sym_rule (θ : K) (d : Nat → K) (i : Nat) (row : Row K) (cv : Nat × K) :
    cv ∈ symRow θ d i row ↔
      cv ∈ row ∧ (i = cv.1 ∨ cv.2 * cv.2 ≥ θ * θ * d i * d cv.1) := by
  unfold symRow
  rw [symRow_fold]; simp [List.mem_filter]

theorem sym_sublist (θ : K) (d : Nat → K) (i : Nat) (row : Row K) :
    (symRow θ d i row).Sublist row := by
  unfold symRow; rw [symRow_fold]; simp

/-- monotone in θ (for `0 ≤ θ₁ ≤ θ₂` and non-negative diagonal norms) -/
theorem sym_mono (θ₁ θ₂ : K) (h0 : 0 ≤ θ₁) (h : θ₁ ≤ θ₂) (d : Nat → K) (hd : ∀ j, 0 ≤ d j)
    (i : Nat) (row : Row K) (cv : Nat × K) (hcv : cv ∈ symRow θ₂ d i row) :
    cv ∈ symRow θ₁ d i row := by
  rw [sym_rule] at hcv ⊢
  refine ⟨hcv.1, ?_⟩
  rcases hcv.2 with h1 | h1
  · exact Or.inl h1
  · right
    have h2 : θ₁ * θ₁ ≤ θ₂ * θ₂ := mul_le_mul h h h0 (le_trans h0 h)
    have h3 : 0 ≤ d i * d cv.1 := mul_nonneg (hd i) (hd cv.1)
    have : θ₁ * θ₁ * d i * d cv.1 ≤ θ₂ * θ₂ * d i * d cv.1 := by
      have := mul_le_mul_of_nonneg_right h2 h3
      calc θ₁ * θ₁ * d i * d cv.1 = θ₁ * θ₁ * (d i * d cv.1) := by ring
        _ ≤ θ₂ * θ₂ * (d i * d cv.1) := this
        _ = θ₂ * θ₂ * d i * d cv.1 := by ring
    exact le_trans this h1

/-- θ = 0 keeps the whole row -/
theorem sym_theta_zero (d : Nat → K) (i : Nat) (row : Row K) : symRow 0 d i row = row := by
  unfold symRow
  rw [symRow_fold]
  simp only [List.nil_append]
  apply List.filter_eq_self.2
  intro cv _
  simp only [decide_eq_true_eq]
  right
  have : (0 : K) * 0 * d i * d cv.1 = 0 := by ring
  rw [this]; exact mul_self_nonneg _

/-! ### classical measure, `norm='min'`: keep `-a_ij ≥ θ · max_k(-a_ik)` -/

def maxNeg (tiny : K) (i : Nat) (row : Row K) : K :=
  row.foldl (fun m cv => if cv.1 ≠ i then max m (-cv.2) else m) tiny

def minRow (tiny θ : K) (i : Nat) (row : Row K) : Row K :=
  let thr := θ * maxNeg tiny i row
  row.foldl (fun out cv =>
    let out := if -cv.2 ≥ thr ∧ cv.1 ≠ i then out ++ [cv] else out
    if cv.1 = i then out ++ [cv] else out) []

theorem minRow_fold (i : Nat) (thr : K) (row : Row K) (acc : Row K) :
    row.foldl (fun out cv =>
      let out := if -cv.2 ≥ thr ∧ cv.1 ≠ i then out ++ [cv] else out
      if cv.1 = i then out ++ [cv] else out) acc
    = acc ++ row.filter (fun cv => decide (cv.1 = i ∨ -cv.2 ≥ thr)) := by
  induction row generalizing acc with
  | nil => simp
  | cons cv rest ih =>
    simp only [List.foldl_cons]
    rw [ih]
    by_cases h1 : cv.1 = i
    · simp [h1]
    · by_cases h2 : -cv.2 ≥ thr
      · simp [h1, h2]
      · simp [h1, h2]

/-- **rule** for the signed measure -/
theorem min_rule (tiny θ : K) (i : Nat) (row : Row K) (cv : Nat × K) :
    cv ∈ minRow tiny θ i row ↔ cv ∈ row ∧ (cv.1 = i ∨ -cv.2 ≥ θ * maxNeg tiny i row) := by
  unfold minRow
  simp only
  rw [minRow_fold]; simp [List.mem_filter]

#print axioms sym_rule
#print axioms sym_mono
#print axioms min_rule
end PyamgV.SocSym
