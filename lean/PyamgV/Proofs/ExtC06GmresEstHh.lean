import PyamgV.Proofs.ExtC06GmresNb
import PyamgV.Proofs.ExtC07Gh
import PyamgV.Proofs.ExtC06GmresRun

/-! PyamgV (C06, extension E16): **the estimate recorded by `_fgmres.py` / `_gmres_householder.py` is the residual
norm of the iterate handed to `callback`** -- for the executable models `fgStep` / `ghStep` (`Model/ExtC07Hh.lean`)
over a `K`-module with an orthonormal coordinate family and an exact square root.

`fgmres_estimate`: after `m + 1 < n` inner iterations of a cycle started at `x₀` (`b − A x₀ ≠ 0`), if the entry
`g[m+1]` is non-zero, the iterate `x_{m+1}` the model records satisfies `‖b − A x_{m+1}‖₂ = |g[m+1]|`, for any maps
`pre j` (the preconditioner).  `gmres_hh_estimate`: the same with `‖M (b − A x_{m+1})‖₂`.  No breakdown hypothesis:
a non-zero `g[m+1]` certifies a non-singular triangular factor (`nb_step`); Householder orthogonalisation needs
nothing else.  `fg_estInv`, `hh_estInv`: the invariant `EstInv` of `Proofs/ExtC06GmresRun.lean` for a positive
threshold and `max_inner ≤ n`. -/
namespace PyamgV.C07
open Finset

variable {K : Type} [Field K] [LinearOrder K] [IsStrictOrderedRing K]
variable {V : Type} [AddCommGroup V] [Module K V]
variable (A AH M : V →ₗ[K] V) (e : EForm K V) (E : Nat → V) (sqrt : K → K) (n : Nat) (pre : Nat → V → V) (b x0 : V)
variable (hdef : ∀ v, e.a v v = 0 → v = 0) (hsq : ∀ a, 0 ≤ a → sqrt a * sqrt a = a) (hsq0 : ∀ a, 0 ≤ sqrt a)
variable (hE : OrthoFam e E n)

/-! ### FGMRES -/

include hdef hsq hsq0 hE in
theorem fgSeq_nb (hbeta : sqrt (e.a (b - A x0) (b - A x0)) ≠ 0) : ∀ k, k < n →
    NB k (fgSeq A AH M e E sqrt n pre b x0 k).rcols (fgSeq A AH M e E sqrt n pre b x0 k).g := by
  intro k
  induction k with
  | zero => intro _; exact nb_init _
  | succ k ih =>
    intro hk
    obtain ⟨iH, iG, _⟩ := fgSeq_inv A AH M e E sqrt n pre b x0 hdef hsq hsq0 hE hbeta k (by omega)
    have ihk := ih (by omega)
    have hstep : fgSeq A AH M e E sqrt n pre b x0 (k+1) =
        fgStep (HOps.ofModule A AH M e E) sqrt sgnK nzK n pre x0 (fgSeq A AH M e E sqrt n pre b x0 k) := rfl
    rw [hstep]
    generalize fgSeq A AH M e E sqrt n pre b x0 k = s at iH iG ihk
    have hA : (HOps.ofModule A AH M e E).o.A = fun v => A v := rfl
    simp only [fgStep, hA]
    rw [iH.lcols]
    obtain ⟨_, _, sl, _⟩ := hhInv_step A AH M sqrt hdef hsq hsq0 hE A k hk _ _ s.ws s.zs s.cols iH (pre k) x0
    exact nb_step sqrt hsq (k + 1 == n) s.rcols s.cs s.sn s.g _ k iG.lrcols iG.lcs iG.lsn iG.lg sl ihk

include hdef hsq hsq0 hE in
/-- **FGMRES: a non-zero estimate is the norm of the true residual of the recorded iterate** -/
theorem fgmres_estimate (m : Nat) (hmn : m + 1 < n) (hbeta : sqrt (e.a (b - A x0) (b - A x0)) ≠ 0)
    (hest : F (fgSeq A AH M e E sqrt n pre b x0 (m+1)).g (m+1) ≠ 0) :
    ∃ xk, (fgSeq A AH M e E sqrt n pre b x0 (m+1)).xs.getLast? = some xk ∧
      (fgSeq A AH M e E sqrt n pre b x0 (m+1)).cols.length = m + 1 ∧
      sqrt (e.a (b - A xk) (b - A xk)) = |F (fgSeq A AH M e E sqrt n pre b x0 (m+1)).g (m+1)| := by
  obtain ⟨iH, iG, _⟩ := fgSeq_inv A AH M e E sqrt n pre b x0 hdef hsq hsq0 hE hbeta (m+1) hmn
  obtain ⟨iHm, _, _⟩ := fgSeq_inv A AH M e E sqrt n pre b x0 hdef hsq hsq0 hE hbeta m (by omega)
  have hnbr := fgSeq_nb A AH M e E sqrt n pre b x0 hdef hsq hsq0 hE hbeta (m+1) hmn hest
  have hxs := fgSeq_xs_succ A AH M e E sqrt n pre b x0 m iHm.lcols
  set s := fgSeq A AH M e E sqrt n pre b x0 (m+1) with hs
  set y := backSub s.rcols s.g (m+1) [] with hy
  have hylen : y.length = m + 1 := by
    obtain ⟨p, hl, he⟩ := backSub_suffix s.rcols s.g (m+1) []
    rw [hy, he]; simp [hl]
  have hres := givL_resnorm e A n (m+1) hmn _ s.cols s.rcols s.cs s.sn s.g iG
    (fun l => hhL e s.ws.reverse (E l)) s.zs (fun i j hi hj => iH.orth hE hmn i j hi hj) iH.rel
    b x0 iH.hr0 hnbr
  rw [← hy] at hres
  have hcomb : combO (Ops.ofModule A AH M e) x0 y s.zs = x0 + ∑ j ∈ range (m+1), F y j • s.zs.getD j 0 := by
    rw [combO_eq A AH M e y s.zs x0 (by rw [hylen, iH.lzs]), hylen]
  refine ⟨combO (Ops.ofModule A AH M e) x0 y s.zs, by rw [hxs, List.getLast?_append]; rfl, iH.lcols, ?_⟩
  rw [hcomb]
  exact sqrt_eq_abs sqrt hsq hsq0 _ _ hres

/-! ### GMRES with Householder orthogonalisation -/

include hdef hsq hsq0 hE in
theorem ghSeq_nb (hbeta : sqrt (e.a (M (b - A x0)) (M (b - A x0))) ≠ 0) : ∀ k, k < n →
    NB k (ghSeq A AH M e E sqrt n b x0 k).rcols (ghSeq A AH M e E sqrt n b x0 k).g := by
  intro k
  induction k with
  | zero => intro _; exact nb_init _
  | succ k ih =>
    intro hk
    obtain ⟨iH, iG, _⟩ := ghSeq_inv A AH M e E sqrt n b x0 hdef hsq hsq0 hE hbeta k (by omega)
    have ihk := ih (by omega)
    have hstep : ghSeq A AH M e E sqrt n b x0 (k+1) =
        ghStep (HOps.ofModule A AH M e E) sqrt sgnK nzK n x0 (ghSeq A AH M e E sqrt n b x0 k) := rfl
    rw [hstep]
    generalize ghSeq A AH M e E sqrt n b x0 k = s at iH iG ihk
    have hB : (fun v => (HOps.ofModule A AH M e E).o.M ((HOps.ofModule A AH M e E).o.A v)) =
        fun v => (M ∘ₗ A) v := rfl
    simp only [ghStep, hB]
    rw [iH.lcols]
    obtain ⟨_, _, sl, _⟩ := hhInv_step A AH M sqrt hdef hsq hsq0 hE (M ∘ₗ A) k hk _ _ s.ws s.zs s.cols iH
      (fun v => v) x0
    exact nb_step sqrt hsq (k + 1 == n) s.rcols s.cs s.sn s.g _ k iG.lrcols iG.lcs iG.lsn iG.lg sl ihk

include hdef hsq hsq0 hE in
/-- **GMRES (Householder): a non-zero estimate is the norm of the preconditioned residual of the recorded iterate** -/
theorem gmres_hh_estimate (m : Nat) (hmn : m + 1 < n) (hbeta : sqrt (e.a (M (b - A x0)) (M (b - A x0))) ≠ 0)
    (hest : F (ghSeq A AH M e E sqrt n b x0 (m+1)).g (m+1) ≠ 0) :
    ∃ xk, (ghSeq A AH M e E sqrt n b x0 (m+1)).xs.getLast? = some xk ∧
      (ghSeq A AH M e E sqrt n b x0 (m+1)).cols.length = m + 1 ∧
      sqrt (e.a (M (b - A xk)) (M (b - A xk))) = |F (ghSeq A AH M e E sqrt n b x0 (m+1)).g (m+1)| := by
  obtain ⟨iH, iG, iD⟩ := ghSeq_inv A AH M e E sqrt n b x0 hdef hsq hsq0 hE hbeta (m+1) hmn
  obtain ⟨iHm, _, _⟩ := ghSeq_inv A AH M e E sqrt n b x0 hdef hsq hsq0 hE hbeta m (by omega)
  have hnbr := ghSeq_nb A AH M e E sqrt n b x0 hdef hsq hsq0 hE hbeta (m+1) hmn hest
  have hxs := ghSeq_xs_succ A AH M e E sqrt n b x0 m iHm.lcols
  obtain ⟨wn, hws⟩ := ghSeq_ws_succ A AH M e E sqrt n b x0 m
  set s := ghSeq A AH M e E sqrt n b x0 (m+1) with hs
  set y := backSub s.rcols s.g (m+1) [] with hy
  have hylen : y.length = m + 1 := by
    obtain ⟨p, hl, he⟩ := backSub_suffix s.rcols s.g (m+1) []
    rw [hy, he]; simp [hl]
  have hr0 : M b - (M ∘ₗ A) x0 = ghBeta A M e E sqrt b x0 • hhL e s.ws.reverse (E 0) := by
    rw [← iH.hr0, map_sub]; rfl
  have hres := givL_resnorm e (M ∘ₗ A) n (m+1) hmn _ s.cols s.rcols s.cs s.sn s.g iG
    (fun l => hhL e s.ws.reverse (E l)) s.zs (fun i j hi hj => iH.orth hE hmn i j hi hj) iH.rel
    (M b) x0 hr0 hnbr
  rw [← hy] at hres
  have hupd : hornerO (HOps.ofModule A AH M e E) ((0 : K) • x0) 0 (ghSeq A AH M e E sqrt n b x0 m).ws y =
      ∑ j ∈ range (m+1), F y j • s.zs.getD j 0 := by
    rw [zero_smul, hornerO_eq A AH M e E (ghSeq A AH M e E sqrt n b x0 m).ws y 0 (by rw [hylen, iHm.lws]), hylen]
    refine Finset.sum_congr rfl (fun j hj => ?_)
    have hjm : j ≤ m := by have := Finset.mem_range.mp hj; omega
    rw [Nat.zero_add, hhL_take_eq iHm j hjm, iD j (by omega), hws]
    congr 1
    symm
    exact hhL_snoc_fix (ghSeq A AH M e E sqrt n b x0 m).ws wn (E j) (by
      rw [e.symm]
      have := iH.lead (m+1) j (le_refl _) (by omega)
      rw [hws, ← iHm.lws, getD_append_len] at this
      exact this)
  refine ⟨x0 + ∑ j ∈ range (m+1), F y j • s.zs.getD j 0, by rw [hxs, List.getLast?_append, hupd]; rfl,
    iH.lcols, ?_⟩
  have hlin : ∀ x : V, M (b - A x) = M b - (M ∘ₗ A) x := fun x => by rw [map_sub]; rfl
  rw [hlin]
  exact sqrt_eq_abs sqrt hsq hsq0 _ _ hres

end PyamgV.C07

/-! ### the invariant of the complete runs -/
namespace PyamgV.ExtC06
open PyamgV.C07

variable {K : Type} [Field K] [LinearOrder K] [IsStrictOrderedRing K]
variable {V : Type} [AddCommGroup V] [Module K V]
variable (A AH M : V →ₗ[K] V) (e : EForm K V) (E : Nat → V) (sqrt : K → K) (n : Nat) (pre : Nat → V → V) (b : V)
variable (hdef : ∀ v, e.a v v = 0 → v = 0) (hsq : ∀ a, 0 ≤ a → sqrt a * sqrt a = a) (hsq0 : ∀ a, 0 ≤ sqrt a)
variable (hE : OrthoFam e E n)

include hdef hsq hsq0 hE in
theorem fg_estInv (thr : K) (hthr : 0 < thr) (maxInner : Nat) (hmax : maxInner ≤ n) :
    EstInv (fgEng (HOps.ofModule A AH M e E) sqrt sgnK nzK n pre b) ltK absK thr maxInner := by
  intro x hx i h1 hi hlt
  have hst : ∀ j, stI (fgEng (HOps.ofModule A AH M e E) sqrt sgnK nzK n pre b) x j =
      fgSeq A AH M e E sqrt n pre b x j := fun _ => rfl
  have hbeta : sqrt (e.a (b - A x) (b - A x)) ≠ 0 := by
    have hx' : ltK (sqrt (e.a (b - A x) (b - A x))) thr = false := hx
    have h : ¬ sqrt (e.a (b - A x) (b - A x)) < thr := of_decide_eq_false hx'
    intro h0; rw [h0] at h; exact h hthr
  obtain ⟨m, rfl⟩ : ∃ m, i = m + 1 := ⟨i - 1, by omega⟩
  have hcl : (fgSeq A AH M e E sqrt n pre b x (m+1)).cols.length = m + 1 :=
    (fgSeq_inv A AH M e E sqrt n pre b x hdef hsq hsq0 hE hbeta (m+1) (by omega)).1.lcols
  have hest : F (fgSeq A AH M e E sqrt n pre b x (m+1)).g (m+1) ≠ 0 := by
    have hlt' : ltK (absK ((fgSeq A AH M e E sqrt n pre b x (m+1)).g.getD
        (fgSeq A AH M e E sqrt n pre b x (m+1)).cols.length 0)) thr = false := hlt
    have h : ¬ |(fgSeq A AH M e E sqrt n pre b x (m+1)).g.getD
        (fgSeq A AH M e E sqrt n pre b x (m+1)).cols.length 0| < thr := of_decide_eq_false hlt'
    rw [hcl] at h
    intro h0
    apply h
    show |F (fgSeq A AH M e E sqrt n pre b x (m+1)).g (m+1)| < thr
    rw [h0, abs_zero]; exact hthr
  obtain ⟨xk, h1, _, h3⟩ := fgmres_estimate A AH M e E sqrt n pre b x hdef hsq hsq0 hE m (by omega) hbeta hest
  show |(fgSeq A AH M e E sqrt n pre b x (m+1)).g.getD (fgSeq A AH M e E sqrt n pre b x (m+1)).cols.length 0| =
    sqrt (e.a (b - A ((fgSeq A AH M e E sqrt n pre b x (m+1)).xs.getLast?.getD x))
      (b - A ((fgSeq A AH M e E sqrt n pre b x (m+1)).xs.getLast?.getD x)))
  rw [h1, hcl]
  exact h3.symm

include hdef hsq hsq0 hE in
theorem hh_estInv (thr : K) (hthr : 0 < thr) (maxInner : Nat) (hmax : maxInner ≤ n) :
    EstInv (hhEng (HOps.ofModule A AH M e E) sqrt sgnK nzK n b) ltK absK thr maxInner := by
  intro x hx i h1 hi hlt
  have hbeta : sqrt (e.a (M (b - A x)) (M (b - A x))) ≠ 0 := by
    have hx' : ltK (sqrt (e.a (M (b - A x)) (M (b - A x)))) thr = false := hx
    have h : ¬ sqrt (e.a (M (b - A x)) (M (b - A x))) < thr := of_decide_eq_false hx'
    intro h0; rw [h0] at h; exact h hthr
  obtain ⟨m, rfl⟩ : ∃ m, i = m + 1 := ⟨i - 1, by omega⟩
  have hcl : (ghSeq A AH M e E sqrt n b x (m+1)).cols.length = m + 1 :=
    (ghSeq_inv A AH M e E sqrt n b x hdef hsq hsq0 hE hbeta (m+1) (by omega)).1.lcols
  have hest : F (ghSeq A AH M e E sqrt n b x (m+1)).g (m+1) ≠ 0 := by
    have hlt' : ltK (absK ((ghSeq A AH M e E sqrt n b x (m+1)).g.getD
        (ghSeq A AH M e E sqrt n b x (m+1)).cols.length 0)) thr = false := hlt
    have h : ¬ |(ghSeq A AH M e E sqrt n b x (m+1)).g.getD
        (ghSeq A AH M e E sqrt n b x (m+1)).cols.length 0| < thr := of_decide_eq_false hlt'
    rw [hcl] at h
    intro h0
    apply h
    show |F (ghSeq A AH M e E sqrt n b x (m+1)).g (m+1)| < thr
    rw [h0, abs_zero]; exact hthr
  obtain ⟨xk, h1, _, h3⟩ := gmres_hh_estimate A AH M e E sqrt n b x hdef hsq hsq0 hE m (by omega) hbeta hest
  show |(ghSeq A AH M e E sqrt n b x (m+1)).g.getD (ghSeq A AH M e E sqrt n b x (m+1)).cols.length 0| =
    sqrt (e.a (M (b - A ((ghSeq A AH M e E sqrt n b x (m+1)).xs.getLast?.getD x)))
      (M (b - A ((ghSeq A AH M e E sqrt n b x (m+1)).xs.getLast?.getD x))))
  rw [h1, hcl]
  exact h3.symm

#print axioms fg_estInv
#print axioms hh_estInv
end PyamgV.ExtC06
