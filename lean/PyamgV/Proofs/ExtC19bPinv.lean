import PyamgV.Proofs.ExtC19bRref
import PyamgV.Proofs.C19Pinv
import Mathlib.LinearAlgebra.Matrix.ToLinearEquiv
import Mathlib.Algebra.BigOperators.Fin

/-! PyamgV (C19, extension E26): the executable Moore-Penrose inverse `Mat.pinv` is total.

`Mat.pinv conj A` computes the rank-factorisation candidate `F^H (F F^H)^-1 (C^H C)^-1 C^H` and
returns it only after deciding the four Penrose equations.  Here: for EVERY rectangular input (at
least one column) over a field with a positive definite conjugation the candidate exists (both Gram
matrices are regular, so `Mat.inv` succeeds) and passes the four equations -- `pinv_total`.

* `penrose_of_rank_fact`: the algebra (Mathlib matrices): `A = C F`, `Z1 (F F^H) = 1`,
  `Z2 (C^H C) = 1` imply the four Penrose equations for `F^H Z1 Z2 C^H`;
* `gram_det_ne_zero`: `B^H B` is regular when `B` has a left inverse (positive definite conjugation);
* `Mat.inv_total`: the executable Gauss-Jordan inverse succeeds on every regular matrix;
* `pinvCand_spec`, `pinv_total_star`, `pinv_total`: the executable statement. -/
namespace PyamgV.C19
set_option linter.unusedSectionVars false
open Matrix

/-! ### algebra on Mathlib matrices -/
section algebra
variable {K : Type} [Field K] [StarRing K]

/-- the conjugation is positive definite: `sum_i conj(v_i) v_i = 0` only for `v = 0` -/
def StarPosDef (K : Type) [Field K] [StarRing K] : Prop :=
  ∀ (k : Nat) (v : Fin k → K), ∑ i, star (v i) * v i = 0 → v = 0

theorem conjTranspose_mul_self_eq_zero' (hpos : StarPosDef K) {a b : Nat}
    (A : Matrix (Fin a) (Fin b) K) (h : Aᴴ * A = 0) : A = 0 := by
  ext i j
  have hjj := congrFun (congrFun h j) j
  rw [Matrix.mul_apply] at hjj
  simp only [conjTranspose_apply, Matrix.zero_apply] at hjj
  have := hpos a (fun i => A i j) hjj
  exact congrFun this i

theorem gram_mul_eq_zero (hpos : StarPosDef K) {a b c : Nat} (A : Matrix (Fin a) (Fin b) K)
    (B : Matrix (Fin b) (Fin c) K) (h : Aᴴ * A * B = 0) : A * B = 0 := by
  apply conjTranspose_mul_self_eq_zero' hpos
  rw [conjTranspose_mul, Matrix.mul_assoc, ← Matrix.mul_assoc Aᴴ, h, Matrix.mul_zero]

/-- the Gram matrix of a matrix with a left inverse (full column rank) is regular -/
theorem gram_det_ne_zero (hpos : StarPosDef K) {a b : Nat} (B : Matrix (Fin a) (Fin b) K)
    (S : Matrix (Fin b) (Fin a) K) (hS : S * B = 1) : (Bᴴ * B).det ≠ 0 := by
  intro hdet
  obtain ⟨v, hv, hz⟩ := (Matrix.exists_mulVec_eq_zero_iff (M := Bᴴ * B)).mpr hdet
  apply hv
  have h1 : Bᴴ * B * replicateCol (Fin 1) v = 0 := by
    rw [← replicateCol_mulVec, hz]
    ext i j
    rfl
  have h2 := gram_mul_eq_zero hpos B _ h1
  have h3 : replicateCol (Fin 1) v = 0 := by
    rw [← Matrix.one_mul (replicateCol (Fin 1) v), ← hS, Matrix.mul_assoc, h2, Matrix.mul_zero]
  ext i
  exact congrFun (congrFun h3 i) 0

/-- a left inverse of a Hermitian matrix is Hermitian -/
theorem leftInv_herm {r : Nat} (G Z : Matrix (Fin r) (Fin r) K) (hG : Gᴴ = G) (hZ : Z * G = 1) :
    Zᴴ = Z := by
  have h1 : G * Zᴴ = 1 := by
    have := congrArg conjTranspose hZ
    rwa [conjTranspose_mul, hG, conjTranspose_one] at this
  calc Zᴴ = (Z * G) * Zᴴ := by rw [hZ, Matrix.one_mul]
    _ = Z * (G * Zᴴ) := Matrix.mul_assoc _ _ _
    _ = Z := by rw [h1, Matrix.mul_one]

/-- **the rank-factorisation formula satisfies the four Penrose equations** -/
theorem penrose_of_rank_fact {n m r : Nat} (A : Matrix (Fin n) (Fin m) K)
    (C : Matrix (Fin n) (Fin r) K) (F : Matrix (Fin r) (Fin m) K) (Z1 Z2 : Matrix (Fin r) (Fin r) K)
    (hA : A = C * F) (h1 : Z1 * (F * Fᴴ) = 1) (h2 : Z2 * (Cᴴ * C) = 1) :
    IsPenrose A (Fᴴ * Z1 * (Z2 * Cᴴ)) := by
  have h1' : F * Fᴴ * Z1 = 1 := mul_eq_one_comm.mp h1
  have hZ1 : Z1ᴴ = Z1 := leftInv_herm (F * Fᴴ) Z1 (by rw [conjTranspose_mul, conjTranspose_conjTranspose]) h1
  have hZ2 : Z2ᴴ = Z2 := leftInv_herm (Cᴴ * C) Z2 (by rw [conjTranspose_mul, conjTranspose_conjTranspose]) h2
  have hAX : A * (Fᴴ * Z1 * (Z2 * Cᴴ)) = C * Z2 * Cᴴ := by
    rw [hA]
    calc C * F * (Fᴴ * Z1 * (Z2 * Cᴴ)) = C * (F * Fᴴ * Z1) * (Z2 * Cᴴ) := by simp only [Matrix.mul_assoc]
      _ = C * Z2 * Cᴴ := by rw [h1', Matrix.mul_one, Matrix.mul_assoc]
  have hXA : Fᴴ * Z1 * (Z2 * Cᴴ) * A = Fᴴ * Z1 * F := by
    rw [hA]
    calc Fᴴ * Z1 * (Z2 * Cᴴ) * (C * F) = Fᴴ * Z1 * (Z2 * (Cᴴ * C)) * F := by simp only [Matrix.mul_assoc]
      _ = Fᴴ * Z1 * F := by rw [h2, Matrix.mul_one]
  refine ⟨?_, ?_, ?_, ?_⟩
  · rw [hAX, hA]
    calc C * Z2 * Cᴴ * (C * F) = C * (Z2 * (Cᴴ * C)) * F := by simp only [Matrix.mul_assoc]
      _ = C * F := by rw [h2, Matrix.mul_one]
  · rw [hXA]
    calc Fᴴ * Z1 * F * (Fᴴ * Z1 * (Z2 * Cᴴ)) = Fᴴ * (Z1 * (F * Fᴴ)) * Z1 * (Z2 * Cᴴ) := by
          simp only [Matrix.mul_assoc]
      _ = Fᴴ * Z1 * (Z2 * Cᴴ) := by rw [h1, Matrix.mul_one]
  · rw [hAX, conjTranspose_mul, conjTranspose_mul, conjTranspose_conjTranspose, hZ2, Matrix.mul_assoc]
  · rw [hXA, conjTranspose_mul, conjTranspose_mul, conjTranspose_conjTranspose, hZ1, Matrix.mul_assoc]

theorem penrose_zero {n m : Nat} : IsPenrose (0 : Matrix (Fin n) (Fin m) K) (0 : Matrix (Fin m) (Fin n) K) := by
  refine ⟨?_, ?_, ?_, ?_⟩ <;> simp

end algebra

/-! ### executable dense matrices as Mathlib matrices -/
section bridge
variable {K : Type} [Field K] [DecidableEq K]

/-- the `n x m` Mathlib matrix of an executable matrix -/
def toMx (n m : Nat) (A : Mat K) : Matrix (Fin n) (Fin m) K := fun i j => A.get i j

theorem toMx_apply (n m : Nat) (A : Mat K) (i : Fin n) (j : Fin m) : toMx n m A i j = A.get i j := rfl

theorem Mat.ofFn_shaped (r c : Nat) (f : Nat → Nat → K) : Shaped r c (Mat.ofFn r c f) := by
  refine ⟨Mat.ofFn_size r c f, fun i hi => ?_⟩
  rw [Mat.ofFn_getD r c f i hi]
  simp

theorem Shaped.rows_eq {n m : Nat} {A : Mat K} (h : Shaped n m A) : A.rows = n := h.1

theorem Shaped.cols_eq {n m : Nat} {A : Mat K} (h : Shaped n m A) (hn : 0 < n) : A.cols = m := h.2 0 hn

/-- two matrices of the same shape with the same entries are the same arrays -/
theorem Mat.ext_shaped {n m : Nat} {A B : Mat K} (hA : Shaped n m A) (hB : Shaped n m B)
    (h : toMx n m A = toMx n m B) : A = B := by
  obtain ⟨hA1, hA2⟩ := hA
  obtain ⟨hB1, hB2⟩ := hB
  apply Array.ext (by omega)
  intro i hi1 hi2
  have hAi := hA2 i (by omega)
  have hBi := hB2 i (by omega)
  have eA : A.getD i #[] = A[i] := by simp [Array.getD_eq_getD_getElem?, hi1]
  have eB : B.getD i #[] = B[i] := by simp [Array.getD_eq_getD_getElem?, hi2]
  rw [eA] at hAi
  rw [eB] at hBi
  apply Array.ext (by omega)
  intro j hj1 hj2
  have := congrFun (congrFun h ⟨i, by omega⟩) ⟨j, by omega⟩
  simp only [toMx_apply] at this
  unfold Mat.get at this
  rw [eA, eB] at this
  simpa [Array.getD_eq_getD_getElem?, hj1, hj2] using this

theorem Mat.mul_spec (a b c : Nat) (A B : Mat K) (hA : Shaped a b A) (hB : Shaped b c B)
    (ha : 0 < a) (hb : 0 < b) :
    Shaped a c (Mat.mul A B) ∧ toMx a c (Mat.mul A B) = toMx a b A * toMx b c B := by
  have e1 : A.rows = a := hA.rows_eq
  have e2 : A.cols = b := hA.cols_eq ha
  have e3 : B.cols = c := hB.cols_eq hb
  unfold Mat.mul
  rw [e1, e2, e3]
  refine ⟨Mat.ofFn_shaped _ _ _, ?_⟩
  ext i j
  rw [toMx_apply, Mat.ofFn_get _ _ _ _ _ i.2 j.2, sumL_range, Matrix.mul_apply, Finset.sum_range]
  rfl

theorem Mat.ctrans_spec (conj : K → K) (a b : Nat) (A : Mat K) (hA : Shaped a b A) (ha : 0 < a) :
    Shaped b a (Mat.ctrans conj A) ∧
      toMx b a (Mat.ctrans conj A) = fun i j => conj (toMx a b A j i) := by
  have e1 : A.rows = a := hA.rows_eq
  have e2 : A.cols = b := hA.cols_eq ha
  unfold Mat.ctrans
  rw [e1, e2]
  refine ⟨Mat.ofFn_shaped _ _ _, ?_⟩
  ext i j
  rw [toMx_apply, Mat.ofFn_get _ _ _ _ _ i.2 j.2]
  rfl

theorem Mat.inv_shaped (G Z : Mat K) (h : Mat.inv G = some Z) : Shaped G.rows G.rows Z := by
  unfold Mat.inv at h
  simp only at h
  split at h
  · rw [← Option.some.inj h]
    exact Mat.ofFn_shaped _ _ _
  · cases h

/-- **the executable inverse succeeds on every regular matrix** (and is a left inverse) -/
theorem Mat.inv_total (n : Nat) (G : Mat K) (hn : G.rows = n) (hdet : (toMx n n G).det ≠ 0) :
    ∃ Z, Mat.inv G = some Z ∧ Shaped n n Z ∧ toMx n n Z * toMx n n G = 1 := by
  cases hinv : Mat.inv G with
  | some Z =>
    refine ⟨Z, rfl, hn ▸ Mat.inv_shaped G Z hinv, ?_⟩
    have hl := Mat.inv_leftInv G Z hinv
    rw [hn] at hl
    ext a k
    rw [Matrix.mul_apply, Matrix.one_apply]
    have := hl a k a.2 k.2
    rw [sumL_range, Finset.sum_range] at this
    simp only [toMx_apply]
    rw [this]
    simp [Fin.ext_iff]
  | none =>
    exfalso
    apply hdet
    unfold Mat.inv at hinv
    simp only at hinv
    rw [hn] at hinv
    have hs := rref_spec n (2 * n) n
      (Mat.ofFn n (2 * n) fun i j => if j < n then G.get i j else if j - n = i then (1 : K) else 0)
      (Mat.ofFn_shaped _ _ _) (by omega)
    simp only at hs
    generalize Mat.rref (Mat.ofFn n (2 * n) fun i j => if j < n then G.get i j else if j - n = i then (1 : K) else 0) n
      = Ep at hs hinv
    obtain ⟨E, piv⟩ := Ep
    obtain ⟨_, hr, _, _, hzero, ⟨L, hL⟩, _⟩ := hs
    simp only at hr hzero hL hinv
    by_cases hp : piv.length = n
    · rw [if_pos hp] at hinv
      cases hinv
    · have hlt : piv.length < n := by omega
      have hprod : toMx n n G = (Matrix.of (fun (i k : Fin n) => L i k)) * toMx n n E := by
        ext i j
        rw [Matrix.mul_apply, toMx_apply]
        have := hL i j i.2 (by have := j.2; omega)
        rw [Mat.ofFn_get _ _ _ _ _ i.2 (by have := j.2; omega), if_pos j.2, Finset.sum_range] at this
        rw [this]
        rfl
      rw [hprod, Matrix.det_mul]
      have : (toMx n n E).det = 0 :=
        Matrix.det_eq_zero_of_row_eq_zero ⟨piv.length, hlt⟩ fun j => hzero piv.length j (Nat.le_refl _) hlt j.2
      rw [this, mul_zero]

end bridge

/-! ### the candidate of `Mat.pinvCand` always exists and satisfies the Penrose equations -/
section total
variable {K : Type} [Field K] [DecidableEq K] [StarRing K]

theorem Mat.ctrans_star_spec (a b : Nat) (A : Mat K) (hA : Shaped a b A) (ha : 0 < a) :
    Shaped b a (Mat.ctrans star A) ∧ toMx b a (Mat.ctrans star A) = (toMx a b A)ᴴ := by
  obtain ⟨h1, h2⟩ := Mat.ctrans_spec star a b A hA ha
  refine ⟨h1, ?_⟩
  rw [h2]
  ext i j
  rfl

/-- the Boolean Penrose check of the model is the Mathlib statement (shaped inputs) -/
theorem isPenrose_toMx (n m : Nat) (A X : Mat K) (hA : Shaped n m A) (hX : Shaped m n X)
    (hn : 0 < n) (hm : 0 < m) :
    Mat.isPenrose star A X = true ↔ IsPenrose (toMx n m A) (toMx m n X) := by
  obtain ⟨sAX, eAX⟩ := Mat.mul_spec n m n A X hA hX hn hm
  obtain ⟨sXA, eXA⟩ := Mat.mul_spec m n m X A hX hA hm hn
  obtain ⟨sAXA, eAXA⟩ := Mat.mul_spec n n m _ A sAX hA hn hn
  obtain ⟨sXAX, eXAX⟩ := Mat.mul_spec m m n _ X sXA hX hm hm
  obtain ⟨sAXh, eAXh⟩ := Mat.ctrans_star_spec n n _ sAX hn
  obtain ⟨sXAh, eXAh⟩ := Mat.ctrans_star_spec m m _ sXA hm
  rw [isPenrose_iff]
  constructor
  · rintro ⟨h1, h2, h3, h4⟩
    refine ⟨?_, ?_, ?_, ?_⟩
    · rw [← eAX, ← eAXA, h1]
    · rw [← eXA, ← eXAX, h2]
    · rw [← eAX, ← eAXh, h3]
    · rw [← eXA, ← eXAh, h4]
  · rintro ⟨h1, h2, h3, h4⟩
    refine ⟨Mat.ext_shaped sAXA hA ?_, Mat.ext_shaped sXAX hX ?_, Mat.ext_shaped sAXh sAX ?_,
      Mat.ext_shaped sXAh sXA ?_⟩
    · rw [eAXA, eAX, h1]
    · rw [eXAX, eXA, h2]
    · rw [eAXh, eAX, h3]
    · rw [eXAh, eXA, h4]

/-- **the rank-factorisation candidate always exists and satisfies the Penrose equations** -/
theorem pinvCand_spec (hpos : StarPosDef K) (n m : Nat) (A : Mat K) (hA : Shaped n m A)
    (hn : 0 < n) (hm : 0 < m) :
    ∃ X, Mat.pinvCand star A = some X ∧ Shaped m n X ∧ IsPenrose (toMx n m A) (toMx m n X) := by
  unfold Mat.pinvCand
  simp only
  rw [hA.rows_eq, hA.cols_eq hn]
  have hs := rref_spec n m m A hA (Nat.le_refl m)
  simp only at hs
  generalize Mat.rref A m = Ep at hs
  obtain ⟨E, piv⟩ := Ep
  obtain ⟨hE, hrn, hplt, hunit, hzero, ⟨L, hL⟩, ⟨P, hP⟩⟩ := hs
  simp only at hE hrn hplt hunit hzero hL hP ⊢
  generalize hr : piv.length = r at hrn hplt hunit hzero ⊢
  -- columns of `L` at the pivots are the pivot columns of `A`
  have hLC : ∀ i k, i < n → k < r → A.get i (piv.getD k 0) = L i k := by
    intro i k hi hk
    rw [hL i _ hi (hplt k hk)]
    have e : ∀ k' ∈ Finset.range n, L i k' * E.get k' (piv.getD k 0) = if k' = k then L i k' else 0 := by
      intro k' hk'
      rw [hunit k' k (Finset.mem_range.mp hk') hk]
      by_cases h : k' = k
      · rw [if_pos h, if_pos h, mul_one]
      · rw [if_neg h, if_neg h, mul_zero]
    rw [Finset.sum_congr rfl e, Finset.sum_ite_eq' (Finset.range n) k, if_pos (Finset.mem_range.mpr (by omega))]
  -- the rank factorisation, entry by entry
  have hCF : ∀ i j, i < n → j < m → A.get i j = ∑ k ∈ Finset.range r, A.get i (piv.getD k 0) * E.get k j := by
    intro i j hi hj
    rw [hL i j hi hj]
    have hsub : Finset.range r ⊆ Finset.range n := Finset.range_subset_range.mpr hrn
    rw [← Finset.sum_subset hsub]
    · refine Finset.sum_congr rfl fun k hk => ?_
      rw [hLC i k hi (Finset.mem_range.mp hk)]
    · intro k hk hk'
      rw [hzero k j (by simpa using hk') (Finset.mem_range.mp hk) hj, mul_zero]
  by_cases hr0 : r = 0
  · rw [if_pos hr0]
    refine ⟨_, rfl, Mat.ofFn_shaped _ _ _, ?_⟩
    have hA0 : toMx n m A = 0 := by
      ext i j
      rw [toMx_apply, hCF i j i.2 j.2, hr0]
      simp
    have hX0 : toMx m n (Mat.ofFn m n fun _ _ => (0 : K)) = 0 := by
      ext i j
      rw [toMx_apply, Mat.ofFn_get _ _ _ _ _ i.2 j.2]
      rfl
    rw [hA0, hX0]
    exact penrose_zero
  · rw [if_neg hr0]
    have hrpos : 0 < r := Nat.pos_of_ne_zero hr0
    generalize hC : (Mat.ofFn n r fun i k => A.get i (piv.getD k 0)) = C
    generalize hF : (Mat.ofFn r m fun k j => E.get k j) = F
    have sC : Shaped n r C := hC ▸ Mat.ofFn_shaped _ _ _
    have sF : Shaped r m F := hF ▸ Mat.ofFn_shaped _ _ _
    have eC : ∀ (i : Fin n) (k : Fin r), toMx n r C i k = A.get i (piv.getD k 0) := by
      intro i k
      rw [toMx_apply, ← hC, Mat.ofFn_get _ _ _ _ _ i.2 k.2]
    have eF : ∀ (k : Fin r) (j : Fin m), toMx r m F k j = E.get k j := by
      intro k j
      rw [toMx_apply, ← hF, Mat.ofFn_get _ _ _ _ _ k.2 j.2]
    obtain ⟨sCh, eCh⟩ := Mat.ctrans_star_spec n r C sC hn
    obtain ⟨sFh, eFh⟩ := Mat.ctrans_star_spec r m F sF hrpos
    obtain ⟨sG1, eG1⟩ := Mat.mul_spec r m r F _ sF sFh hrpos hm
    obtain ⟨sG2, eG2⟩ := Mat.mul_spec r n r _ C sCh sC hrpos hn
    rw [eFh] at eG1
    rw [eCh] at eG2
    -- A = C F
    have hAm : toMx n m A = toMx n r C * toMx r m F := by
      ext i j
      rw [Matrix.mul_apply, toMx_apply, hCF i j i.2 j.2, Finset.sum_range]
      refine Finset.sum_congr rfl fun k _ => ?_
      rw [eC, eF]
    -- F has a right inverse, C a left inverse
    have hFR : toMx r m F * Matrix.of (fun (j : Fin m) (k : Fin r) =>
        if j = ⟨piv.getD k 0, hplt k k.2⟩ then (1 : K) else 0) = 1 := by
      ext k k'
      rw [Matrix.mul_apply]
      simp only [Matrix.of_apply, mul_ite, mul_one, mul_zero]
      rw [Finset.sum_ite_eq' Finset.univ, if_pos (Finset.mem_univ _), eF, hunit k k' (by have := k.2; omega) k'.2,
        Matrix.one_apply]
      simp [Fin.ext_iff]
    have hPC : Matrix.of (fun (k : Fin r) (i : Fin n) => P k i) * toMx n r C = 1 := by
      ext k k'
      rw [Matrix.mul_apply]
      have := hP k (piv.getD k' 0) (by have := k.2; omega) (hplt k' k'.2)
      rw [hunit k k' (by have := k.2; omega) k'.2, Finset.sum_range] at this
      rw [Matrix.one_apply]
      simp only [Matrix.of_apply, eC]
      rw [← this]
      simp [Fin.ext_iff]
    have hdet1 : (toMx r r (Mat.mul F (Mat.ctrans star F))).det ≠ 0 := by
      rw [eG1]
      have := gram_det_ne_zero hpos (toMx r m F)ᴴ _
        (by rw [← conjTranspose_mul, hFR, conjTranspose_one] :
          (Matrix.of (fun (j : Fin m) (k : Fin r) => if j = ⟨piv.getD k 0, hplt k k.2⟩ then (1 : K) else 0))ᴴ
            * (toMx r m F)ᴴ = 1)
      rwa [conjTranspose_conjTranspose] at this
    have hdet2 : (toMx r r (Mat.mul (Mat.ctrans star C) C)).det ≠ 0 := by
      rw [eG2]
      exact gram_det_ne_zero hpos (toMx n r C) _ hPC
    obtain ⟨Z1, hZ1, sZ1, eZ1⟩ := Mat.inv_total r _ sG1.rows_eq hdet1
    obtain ⟨Z2, hZ2, sZ2, eZ2⟩ := Mat.inv_total r _ sG2.rows_eq hdet2
    rw [hZ1, hZ2]
    simp only
    obtain ⟨s1, e1⟩ := Mat.mul_spec m r r _ Z1 sFh sZ1 hm hrpos
    obtain ⟨s2, e2⟩ := Mat.mul_spec r r n Z2 _ sZ2 sCh hrpos hrpos
    obtain ⟨s3, e3⟩ := Mat.mul_spec m r n _ _ s1 s2 hm hrpos
    refine ⟨_, rfl, s3, ?_⟩
    rw [e3, e1, e2, eFh, eCh]
    rw [eG1] at eZ1
    rw [eG2] at eZ2
    exact penrose_of_rank_fact _ _ _ _ _ hAm eZ1 eZ2


/-- **`Mat.pinv` is total** (conjugation = `star`): on every rectangular `n x m` input the model
returns `some X`, `X` is `m x n`, passes the Boolean Penrose check and is the Moore-Penrose inverse
of the Mathlib matrix of `A` -/
theorem pinv_total_star (hpos : StarPosDef K) (n m : Nat) (A : Mat K) (hA : Shaped n m A)
    (hn : 0 < n) (hm : 0 < m) :
    ∃ X, Mat.pinv star A = some X ∧ Mat.isPenrose star A X = true ∧ Shaped m n X ∧
      IsPenrose (toMx n m A) (toMx m n X) := by
  obtain ⟨X, hX, sX, pX⟩ := pinvCand_spec hpos n m A hA hn hm
  have hb := (isPenrose_toMx n m A X hA sX hn hm).mpr pX
  refine ⟨X, ?_, hb, sX, pX⟩
  unfold Mat.pinv
  rw [hX]
  simp only
  rw [if_pos hb]

/-- the Boolean Penrose check has at most one shaped solution -/
theorem isPenrose_unique_model (n m : Nat) (A X Y : Mat K) (hA : Shaped n m A) (hX : Shaped m n X)
    (hY : Shaped m n Y) (hn : 0 < n) (hm : 0 < m) (h1 : Mat.isPenrose star A X = true)
    (h2 : Mat.isPenrose star A Y = true) : X = Y :=
  Mat.ext_shaped hX hY (penrose_unique ((isPenrose_toMx n m A X hA hX hn hm).mp h1)
    ((isPenrose_toMx n m A Y hA hY hn hm).mp h2))

end total

/-! ### the conjugation as a parameter -/
section conjparam
variable {K : Type} [Field K] [DecidableEq K]

/-- a positive definite conjugation of the field: additive, multiplicative, involutive, and
`sum_i conj(v_i) v_i = 0` only for `v = 0` (`id` on an ordered field, complex conjugation on `Q(i)`) -/
structure IsConj (conj : K → K) : Prop where
  add : ∀ a b, conj (a + b) = conj a + conj b
  mul : ∀ a b, conj (a * b) = conj a * conj b
  invol : ∀ a, conj (conj a) = a
  posdef : ∀ (k : Nat) (v : Fin k → K), ∑ i, conj (v i) * v i = 0 → v = 0

/-- the `StarRing` structure of a conjugation -/
@[reducible] def IsConj.starRing {conj : K → K} (h : IsConj conj) : StarRing K where
  star := conj
  star_involutive := h.invol
  star_mul a b := by rw [h.mul, mul_comm]
  star_add := h.add

/-- **`pinv_total`: the model pseudo-inverse never fails and is the Moore-Penrose inverse.**  For every
rectangular `n x m` matrix (`n, m >= 1`) over a field with a positive definite conjugation `conj`,
`Mat.pinv conj A = some X` with `X` of shape `m x n`, the four Penrose equations hold for the
executable product (`Mat.isPenrose`, cf. `isPenrose_iff`), and `X` is the only `m x n` matrix passing
them.  The per-instance check inside `Mat.pinv` can never reject the candidate. -/
theorem pinv_total (conj : K → K) (hc : IsConj conj) (n m : Nat) (A : Mat K) (hA : Shaped n m A)
    (hn : 0 < n) (hm : 0 < m) :
    ∃ X, Mat.pinv conj A = some X ∧ Mat.isPenrose conj A X = true ∧ Shaped m n X ∧
      ∀ Y, Shaped m n Y → Mat.isPenrose conj A Y = true → Y = X := by
  let _ := hc.starRing
  have hpos : StarPosDef K := hc.posdef
  obtain ⟨X, h1, h2, h3, _⟩ := pinv_total_star hpos n m A hA hn hm
  exact ⟨X, h1, h2, h3, fun Y sY hY => isPenrose_unique_model n m A Y X hA sY h3 hn hm hY h2⟩

/-- the four equations, spelled out on the executable product -/
theorem pinv_total_equations (conj : K → K) (hc : IsConj conj) (n m : Nat) (A : Mat K)
    (hA : Shaped n m A) (hn : 0 < n) (hm : 0 < m) :
    ∃ X, Mat.pinv conj A = some X ∧
      Mat.mul (Mat.mul A X) A = A ∧ Mat.mul (Mat.mul X A) X = X ∧
      Mat.ctrans conj (Mat.mul A X) = Mat.mul A X ∧ Mat.ctrans conj (Mat.mul X A) = Mat.mul X A := by
  obtain ⟨X, h1, h2, _, _⟩ := pinv_total conj hc n m A hA hn hm
  exact ⟨X, h1, (isPenrose_iff conj A X).mp h2⟩

/-- in terms of the model's own `rows` / `cols`: a rectangular matrix with at least one column -/
theorem pinv_total_rect (conj : K → K) (hc : IsConj conj) (A : Mat K)
    (hA : ∀ i, i < A.rows → (A.getD i #[]).size = A.cols) (hcol : 0 < A.cols) :
    ∃ X, Mat.pinv conj A = some X ∧ Mat.isPenrose conj A X = true := by
  have hn : 0 < A.rows := by
    unfold Mat.cols at hcol
    unfold Mat.rows
    by_contra h
    have : A.getD 0 #[] = #[] := by simp [Array.getD_eq_getD_getElem?, show A.size = 0 by omega]
    rw [this] at hcol
    simp at hcol
  obtain ⟨X, h1, h2, _, _⟩ := pinv_total conj hc A.rows A.cols A ⟨rfl, hA⟩ hn hcol
  exact ⟨X, h1, h2⟩

/-- the real runs of the driver: `conj = id` on the rationals -/
theorem isConj_id_rat : IsConj (id : ℚ → ℚ) where
  add _ _ := rfl
  mul _ _ := rfl
  invol _ := rfl
  posdef k v h := by
    funext i
    have h' := (Finset.sum_eq_zero_iff_of_nonneg (fun i _ => mul_self_nonneg (v i))).mp h i (Finset.mem_univ i)
    exact mul_self_eq_zero.mp h'

theorem pinv_total_rat (n m : Nat) (A : Mat ℚ) (hA : Shaped n m A) (hn : 0 < n) (hm : 0 < m) :
    ∃ X, Mat.pinv id A = some X ∧ Mat.isPenrose id A X = true ∧ Shaped m n X ∧
      ∀ Y, Shaped m n Y → Mat.isPenrose id A Y = true → Y = X :=
  pinv_total id isConj_id_rat n m A hA hn hm

end conjparam

#print axioms Mat.inv_total
#print axioms pinvCand_spec
#print axioms pinv_total
#print axioms pinv_total_rat

end PyamgV.C19
