import PyamgV.Proofs.ExtC06GmresNb
import PyamgV.Proofs.ExtC06GmresRun

/-! PyamgV (C06, extension E16): **the estimate recorded by `_gmres_mgs.py` is the preconditioned residual norm of
the iterate handed to `callback`** -- for the executable model `gmresStep` (`Model/C07Gmres.lean`, modified
Gram--Schmidt Arnoldi, Givens rotations, back substitution) over a `K`-module with an exact square root.

`gmSeq_nb`: a non-zero entry `g[k]` after `k` inner iterations certifies that there was no breakdown so far -- all
Arnoldi vectors `v_0 … v_k` are non-zero (the subdiagonal entries `H[j, j+1]` were non-zero, otherwise the rotation
is skipped and `g[j+1] = 0`) and the triangular factor is non-singular.
`gmres_mgs_estimate`: after `m + 1 < n` inner iterations, `g[m+1] ≠ 0` ⇒ `‖M (b − A x_{m+1})‖₂ = |g[m+1]|`.
`mgs_estInv`: the invariant `EstInv` of `Proofs/ExtC06GmresRun.lean` for a positive threshold and `max_inner ≤ n`. -/
namespace PyamgV.C07
open Finset

variable {K : Type} [Field K] [LinearOrder K] [IsStrictOrderedRing K]
variable {V : Type} [AddCommGroup V] [Module K V]

/-- a non-zero norm entry of the new column ⇒ the new basis vector is a unit vector -/
theorem newCol_unit (e : EForm K V) (sqrt : K → K) (hsq : ∀ a, 0 ≤ a → sqrt a * sqrt a = a) (rem : V)
    (h : (GS.newCol e sqrt 0 rem).2 ≠ 0) :
    e.a (GS.newCol e sqrt 0 rem).1 (GS.newCol e sqrt 0 rem).1 ≠ 0 := by
  unfold GS.newCol at h ⊢
  by_cases hn : sqrt (e.a rem rem) > 0
  · simp only [if_pos hn] at h ⊢
    have h1 := hsq _ (e.nonneg rem)
    simp only [map_smul, LinearMap.smul_apply, smul_eq_mul]
    generalize sqrt (e.a rem rem) = r at hn h1
    rw [← h1]
    have hr : r ≠ 0 := ne_of_gt hn
    field_simp
    exact one_ne_zero
  · simp only [if_neg hn] at h
    exact absurd rfl h

variable (A AH M : V →ₗ[K] V) (e : EForm K V) (sqrt : K → K) (n : Nat) (b x0 : V)
variable (hdef : ∀ v, e.a v v = 0 → v = 0) (hsq : ∀ a, 0 ≤ a → sqrt a * sqrt a = a) (hsq0 : ∀ a, 0 ≤ sqrt a)

include hsq in
/-- **a non-zero estimate ⇒ no breakdown so far** -/
theorem gmSeq_nb : ∀ k,
    NB k (gmSeq A AH M e sqrt nzK n b x0 k).rcols (gmSeq A AH M e sqrt nzK n b x0 k).g ∧
    (F (gmSeq A AH M e sqrt nzK n b x0 k).g k ≠ 0 → ∀ i, i ≤ k →
      e.a ((gmSeq A AH M e sqrt nzK n b x0 k).vs.getD i 0) ((gmSeq A AH M e sqrt nzK n b x0 k).vs.getD i 0) ≠ 0) := by
  intro k
  induction k with
  | zero =>
    refine ⟨nb_init _, ?_⟩
    simp only [gmSeq, iter, gmresInit, Ops.ofModule]
    intro h i hi
    have hi0 : i = 0 := by omega
    subst hi0
    have hne : sqrt (e.a (M (b - A x0)) (M (b - A x0))) ≠ 0 := by simpa [F] using h
    have h1 := hsq _ (e.nonneg (M (b - A x0)))
    simp only [List.getD_cons_zero, map_smul, LinearMap.smul_apply, smul_eq_mul]
    generalize sqrt (e.a (M (b - A x0)) (M (b - A x0))) = r at hne h1
    rw [← h1]
    field_simp
    exact one_ne_zero
  | succ k ih =>
    have ihG := givInv_all A AH M e sqrt n b x0 hsq k
    have hstep : gmSeq A AH M e sqrt nzK n b x0 (k+1) =
        gmresStep (Ops.ofModule A AH M e) sqrt posK nzK n x0 (gmSeq A AH M e sqrt nzK n b x0 k) := rfl
    rw [hstep]
    generalize gmSeq A AH M e sqrt nzK n b x0 k = s at ih ihG
    simp only [gmresStep, arnoldiO_eq]
    set col := (GS.arnoldiStep e sqrt (M ∘ₗ A) s.vs (s.vs.getLast?.getD x0)).2 with hcol
    have hcl : col.length = k + 2 := by
      simp only [hcol, GS.arnoldiStep, List.length_append, List.length_singleton]
      rw [orth_len, ihG.lvs]
    rw [ihG.lcols]
    refine ⟨nb_step sqrt hsq (k + 1 == n) s.rcols s.cs s.sn s.g col k ihG.lrcols ihG.lcs ihG.lsn ihG.lg hcl ih.1, ?_⟩
    intro hne i hi
    obtain ⟨_, hcolk, hgk, _⟩ := givensUpdate_nb sqrt hsq (k + 1 == n) s.cs s.sn s.g col k ihG.lcs ihG.lsn
      ihG.lg hcl hne
    by_cases hik : i ≤ k
    · rw [getD_append_lt _ _ _ _ (by rw [ihG.lvs]; omega)]
      exact ih.2 hgk i hik
    · have hik' : i = s.vs.length := by rw [ihG.lvs]; omega
      rw [hik', getD_append_len]
      -- the last entry of the new column is the norm entry of `newCol`
      have hlast : F col (k + 1) =
          (GS.newCol e sqrt 0 (GS.orth e s.vs ((M ∘ₗ A) (s.vs.getLast?.getD x0))).1).2 := by
        simp only [hcol, GS.arnoldiStep]
        have hl : (GS.orth e s.vs ((M ∘ₗ A) (s.vs.getLast?.getD x0))).2.length = k + 1 := by
          rw [orth_len, ihG.lvs]
        rw [← hl]
        exact F_append_len _ _
      rw [hlast] at hcolk
      exact newCol_unit e sqrt hsq _ hcolk

include hdef hsq hsq0 in
/-- **GMRES (MGS): a non-zero estimate is the norm of the preconditioned residual of the recorded iterate** -/
theorem gmres_mgs_estimate (m : Nat) (hmn : m + 1 < n)
    (hest : F (gmSeq A AH M e sqrt nzK n b x0 (m+1)).g (m+1) ≠ 0) :
    ∃ xk, (gmSeq A AH M e sqrt nzK n b x0 (m+1)).xs.getLast? = some xk ∧
      (gmSeq A AH M e sqrt nzK n b x0 (m+1)).cols.length = m + 1 ∧
      sqrt (e.a (M (b - A xk)) (M (b - A xk))) = |F (gmSeq A AH M e sqrt nzK n b x0 (m+1)).g (m+1)| := by
  obtain ⟨hNB, hNBv⟩ := gmSeq_nb A AH M e sqrt n b x0 hsq (m+1)
  have hnbr := hNB hest
  have hnbv := hNBv hest
  -- the start residual is non-zero: `g[0] ≠ 0` by the same certificate at step 0 … read off from `v_0 ≠ 0`
  set s := gmSeq A AH M e sqrt nzK n b x0 (m+1) with hs
  set β := sqrt (e.a (M (b - A x0)) (M (b - A x0))) with hβ
  have hA := gmres_model_arnoldi A AH M e sqrt nzK n b x0 hdef hsq hsq0 (m+1)
  have hG := givInv_all A AH M e sqrt n b x0 hsq (m+1)
  rw [← hs] at hA hG
  rw [← hβ] at hG
  set k := m + 1 with hk
  have hGL : GivL n k β s.cols s.rcols s.cs s.sn s.g :=
    ⟨hG.lcols, hG.lrcols, hG.lcs, hG.lsn, hG.lg, hG.collen, hG.rc, hG.g, hG.unit, hG.zero⟩
  have horth : ∀ i j, i ≤ k → j ≤ k → e.a (s.vs.getD i 0) (s.vs.getD j 0) = if i = j then 1 else 0 := by
    intro i j hi hj
    by_cases hij : i = j
    · subst hij
      rw [if_pos rfl]
      rcases onz_diag e s.vs hA.onz i (by rw [hG.lvs]; omega) with h | h
      · exact absurd h (hnbv i hi)
      · exact h
    · rw [if_neg hij]
      rcases Nat.lt_or_gt_of_ne hij with h | h
      · exact onz_pairwise e s.vs hA.onz i j h (by rw [hG.lvs]; omega)
      · rw [e.symm]; exact onz_pairwise e s.vs hA.onz j i h (by rw [hG.lvs]; omega)
  have hrel : ∀ j, j < k → (M ∘ₗ A) (s.vs.getD j 0) = ∑ l ∈ range (k + 1), F (s.cols.getD j []) l • s.vs.getD l 0 := by
    intro j hj
    have hj' : j < s.cols.length := by rw [hG.lcols]; exact hj
    rw [hA.rel j hj', comb_eq_sum _ _ (hA.clen j hj'), hG.lvs]
  -- `β ≠ 0`: `v_0` is `(1/β) • r`, non-zero
  have hv0 : ∀ j, (gmSeq A AH M e sqrt nzK n b x0 j).vs.getD 0 0 =
      (gmSeq A AH M e sqrt nzK n b x0 0).vs.getD 0 0 := by
    intro j
    induction j with
    | zero => rfl
    | succ j ih =>
      obtain ⟨w, hw⟩ := gmSeq_vs_succ A AH M e sqrt n b x0 j
      rw [hw, getD_append_lt _ _ _ _ (by
        rw [(givInv_all A AH M e sqrt n b x0 hsq j).lvs]; omega), ih]
  have hv0' : s.vs.getD 0 0 = (1 / β) • M (b - A x0) := by
    rw [hs, hv0 (m+1)]
    simp only [gmSeq, iter, gmresInit, Ops.ofModule, List.getD_cons_zero]
    rw [hβ]
  have hbeta : β ≠ 0 := by
    intro h0
    apply hnbv 0 (by omega)
    rw [hv0', h0]; simp
  have hr0 : M b - (M ∘ₗ A) x0 = β • s.vs.getD 0 0 := by
    rw [hv0', smul_smul, LinearMap.comp_apply, ← map_sub, mul_one_div_cancel hbeta, one_smul]
  have hres := givL_resnorm e (M ∘ₗ A) n k hmn β s.cols s.rcols s.cs s.sn s.g hGL
    (fun l => s.vs.getD l 0) s.vs horth hrel (M b) x0 hr0 hnbr
  set y := backSub s.rcols s.g k [] with hy
  -- the iterate
  have hcl : (gmSeq A AH M e sqrt nzK n b x0 m).cols.length = m :=
    (givInv_all A AH M e sqrt n b x0 hsq m).lcols
  have hxs := gmSeq_xs_succ A AH M e sqrt n b x0 m hcl
  rw [← hs] at hxs
  obtain ⟨vnew, hvs⟩ := gmSeq_vs_succ A AH M e sqrt n b x0 m
  rw [← hs] at hvs
  have hlvm : (gmSeq A AH M e sqrt nzK n b x0 m).vs.length = m + 1 :=
    (givInv_all A AH M e sqrt n b x0 hsq m).lvs
  have hylen : y.length = k := by
    obtain ⟨pre, hl, he⟩ := backSub_suffix s.rcols s.g k []
    rw [hy, he]; simp [hl]
  refine ⟨combO (Ops.ofModule A AH M e) x0 y (gmSeq A AH M e sqrt nzK n b x0 m).vs, ?_, hG.lcols, ?_⟩
  · rw [hxs, List.getLast?_append]; rfl
  rw [combO_eq A AH M e y _ x0 (by rw [hylen, hlvm])]
  have hsum : ∑ j ∈ range y.length, F y j • (gmSeq A AH M e sqrt nzK n b x0 m).vs.getD j 0 =
      ∑ j ∈ range k, F y j • s.vs.getD j 0 := by
    rw [hylen]
    refine Finset.sum_congr rfl (fun j hj => ?_)
    rw [hvs, getD_append_lt _ _ _ _ (by rw [hlvm]; exact Finset.mem_range.mp hj)]
  rw [hsum]
  have hlin : ∀ x : V, M (b - A x) = M b - (M ∘ₗ A) x := fun x => by rw [map_sub]; rfl
  rw [hlin]
  exact sqrt_eq_abs sqrt hsq hsq0 _ _ hres

end PyamgV.C07

namespace PyamgV.ExtC06
open PyamgV.C07

variable {K : Type} [Field K] [LinearOrder K] [IsStrictOrderedRing K]
variable {V : Type} [AddCommGroup V] [Module K V]
variable (A AH M : V →ₗ[K] V) (e : EForm K V) (sqrt : K → K) (n : Nat) (b : V)
variable (hdef : ∀ v, e.a v v = 0 → v = 0) (hsq : ∀ a, 0 ≤ a → sqrt a * sqrt a = a) (hsq0 : ∀ a, 0 ≤ sqrt a)

include hdef hsq hsq0 in
theorem mgs_estInv (thr : K) (hthr : 0 < thr) (maxInner : Nat) (hmax : maxInner ≤ n) :
    EstInv (mgsEng (Ops.ofModule A AH M e) sqrt posK nzK n b) ltK absK thr maxInner := by
  intro x hx i h1 hi hlt
  obtain ⟨m, rfl⟩ : ∃ m, i = m + 1 := ⟨i - 1, by omega⟩
  have hcl : (gmSeq A AH M e sqrt nzK n b x (m+1)).cols.length = m + 1 :=
    (givInv_all A AH M e sqrt n b x hsq (m+1)).lcols
  have hest : F (gmSeq A AH M e sqrt nzK n b x (m+1)).g (m+1) ≠ 0 := by
    have hlt' : ltK (absK ((gmSeq A AH M e sqrt nzK n b x (m+1)).g.getD
        (gmSeq A AH M e sqrt nzK n b x (m+1)).cols.length 0)) thr = false := hlt
    have h : ¬ |(gmSeq A AH M e sqrt nzK n b x (m+1)).g.getD
        (gmSeq A AH M e sqrt nzK n b x (m+1)).cols.length 0| < thr := of_decide_eq_false hlt'
    rw [hcl] at h
    intro h0
    apply h
    show |F (gmSeq A AH M e sqrt nzK n b x (m+1)).g (m+1)| < thr
    rw [h0, abs_zero]; exact hthr
  obtain ⟨xk, h1, _, h3⟩ := gmres_mgs_estimate A AH M e sqrt n b x hdef hsq hsq0 m (by omega) hest
  show |(gmSeq A AH M e sqrt nzK n b x (m+1)).g.getD (gmSeq A AH M e sqrt nzK n b x (m+1)).cols.length 0| =
    sqrt (e.a (M (b - A ((gmSeq A AH M e sqrt nzK n b x (m+1)).xs.getLast?.getD x)))
      (M (b - A ((gmSeq A AH M e sqrt nzK n b x (m+1)).xs.getLast?.getD x))))
  rw [h1, hcl]
  exact h3.symm

#print axioms mgs_estInv
end PyamgV.ExtC06
