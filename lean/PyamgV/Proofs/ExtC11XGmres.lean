import PyamgV.Proofs.ExtC11XGmresArn
import PyamgV.Proofs.ExtC11XGmresGiv

/-! PyamgV (C11, extension E49): **`dense_GMRES` run to full length returns the exact solution** (exact
arithmetic: an ordered field with an exact square root).  Module level: `dgCore` over the operations of a
`K`-module in which `m` orthonormal vectors are complete, no `break` in the first `m - 1` passes, no small
pivot in `upper_tri_solve` ⇒ `B x = b` (`dgCore_solves`). -/
namespace PyamgV.C11XG
open PyamgV PyamgV.C07 Finset

variable {K : Type} [Field K] [LinearOrder K] [IsStrictOrderedRing K]
variable {V : Type} [AddCommGroup V] [Module K V]
variable (B AH M : V →ₗ[K] V) (e : EForm K V) (sqrt : K → K) (small : K → Bool) (n m : Nat) (b : V) (normb : K)

/-- the rotated array and right-hand side of the model -/
def sweepOf (cols : List (List K)) : List (List K) × List K :=
  (List.range m).foldl (givStep sqrt isZ) (padCols m cols, normb :: List.replicate n 0)

theorem dgCore_eq :
    dgCore (Ops.ofModule B AH M e) (fun v a => (1 / a) • v) sqrt (fun a => |a|) small isZ n m b normb =
      combO (Ops.ofModule B AH M e) ((0 : K) • b)
        ((utSolve (fun a => |a|) small (sweepOf sqrt n m normb (arnSeq B AH M e sqrt small m b normb m).cols).1
          (sweepOf sqrt n m normb (arnSeq B AH M e sqrt small m b normb m).cols).2 m []).take
            (arnSeq B AH M e sqrt small m b normb m).rank)
        (arnSeq B AH M e sqrt small m b normb m).vs := rfl

theorem hent_padCols_out (cols : List (List K)) (i k : Nat) (hi : m < i) : hent (padCols m cols) i k = 0 := by
  unfold hent
  by_cases hk : k < m
  · apply F_getD_out
    rw [(shape_padCols m cols).2 k hk]; omega
  · have : (padCols m cols).getD k [] = [] := by
      rw [List.getD_eq_getElem?_getD, List.getElem?_eq_none (by rw [(shape_padCols m cols).1]; omega)]
      rfl
    rw [this]; simp

variable (hdef : ∀ v, e.a v v = 0 → v = 0) (hsq : ∀ a, 0 ≤ a → sqrt a * sqrt a = a) (hsq0 : ∀ a, 0 ≤ sqrt a)
  (hsm : ∀ a, small a = false → a ≠ 0) (hb : e.a b b = normb * normb) (hnb0 : normb ≠ 0)
  (hnb : ∀ k, k + 1 < m → (arnSeq B AH M e sqrt small m b normb (k + 1)).stop = false)

include hdef hsq hsq0 hsm hb hnb0 hnb in
/-- **full-length `dense_GMRES` solves the system** (module level) -/
theorem dgCore_solves (hm : 1 ≤ m) (hmn : m ≤ n)
    (hfull : ∀ w : V, (∀ v ∈ (arnSeq B AH M e sqrt small m b normb (m - 1)).vs, e.a v w = 0) → w = 0)
    (hdiag : ∀ i, i < m → small |hent (sweepOf sqrt n m normb (arnSeq B AH M e sqrt small m b normb m).cols).1 i i|
      = false) :
    B (dgCore (Ops.ofModule B AH M e) (fun v a => (1 / a) • v) sqrt (fun a => |a|) small isZ n m b normb) = b := by
  rw [dgCore_eq]
  obtain ⟨f1, f2, _, f4, f5, f6, f7⟩ :=
    arn_final B AH M e sqrt small m b normb hdef hsq hsq0 hsm hb hnb0 hnb hm hfull
  generalize arnSeq B AH M e sqrt small m b normb m = a at f1 f2 f4 f5 f6 f7 hdiag ⊢
  have h0 : SwInv m 0 (padCols m a.cols) (normb :: List.replicate n 0) (padCols m a.cols)
      (normb :: List.replicate n 0) := by
    refine ⟨shape_padCols m a.cols, by simp; omega, ?_, by intro k hk; omega, ?_, fun y hy => hy⟩
    · intro i k hk hik
      by_cases hi : i ≤ m
      · rw [hent_padCols m a.cols i k hi hk]; exact f5 k i hk hik
      · exact hent_padCols_out m a.cols i k (by omega)
    · rw [hent_padCols m a.cols m (m - 1) (Nat.le_refl m) (by omega)]; exact f6
  have hd : ∀ i, i < m →
      small ((fun a => |a|) (hent (sweepOf sqrt n m normb a.cols).1 i i)) = false ∧
      hent (sweepOf sqrt n m normb a.cols).1 i i ≠ 0 := by
    intro i hi
    refine ⟨hdiag i hi, ?_⟩
    have := hsm _ (hdiag i hi)
    intro hz; rw [hz] at this; simp at this
  have hsys := sweep_solves sqrt hsq (fun a => |a|) small m (padCols m a.cols) (normb :: List.replicate n 0) h0 hd
  unfold sweepOf at hd ⊢
  generalize hy : utSolve (fun a => |a|) small
    ((List.range m).foldl (givStep sqrt isZ) (padCols m a.cols, normb :: List.replicate n 0)).1
    ((List.range m).foldl (givStep sqrt isZ) (padCols m a.cols, normb :: List.replicate n 0)).2 m [] = y at hsys ⊢
  have hyl : y.length = m := by rw [← hy, utSolve_length]; simp
  rw [f2, List.take_of_length_le (by omega), combO_eq B AH M e y a.vs _ (by omega), hyl]
  simp only [zero_smul, zero_add, map_sum, map_smul]
  -- Σ_j y_j B v_j = Σ_l (Σ_j H[l,j] y_j) v_l = β v_0 = b
  rw [Finset.sum_congr rfl (fun j hj => by rw [f7 j (Finset.mem_range.1 hj), Finset.smul_sum])]
  rw [Finset.sum_comm]
  have hrow : ∀ l ∈ range m, ∑ j ∈ range m, F y j • hent a.cols l j • a.vs.getD l 0 =
      (if l = 0 then normb else 0) • a.vs.getD l 0 := by
    intro l hl
    have hl' := Finset.mem_range.1 hl
    have := hsys l hl'
    rw [Finset.sum_congr rfl (fun k hk => by
      rw [hent_padCols m a.cols l k (le_of_lt hl') (Finset.mem_range.1 hk)])] at this
    simp only [smul_smul]
    rw [← Finset.sum_smul]
    congr 1
    rw [Finset.sum_congr rfl (fun k _ => mul_comm (F y k) (hent a.cols l k)), this]
    cases l with
    | zero => simp [F]
    | succ l =>
      simp only [F, List.getD_cons_succ, Nat.succ_ne_zero, if_false]
      rw [List.getD_eq_getElem _ _ (by simp; omega)]
      simp
  rw [Finset.sum_congr rfl hrow, Finset.sum_eq_single 0]
  · simp only [if_true]
    rw [f4, smul_smul, mul_one_div, div_self hnb0, one_smul]
  · intro l _ hl; simp [hl]
  · intro h; exact absurd (Finset.mem_range.2 (by omega)) h

end PyamgV.C11XG
