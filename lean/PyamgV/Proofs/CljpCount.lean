import PyamgV.Proofs.CljpRefine

/-! PyamgV (C13, CLJP): the `unassigned` counter of the kernel equals the number of undecided
nodes, so when the selection loop exits (`unassigned ≤ 0`) every node is C or F — removing the
last hypothesis of `cljp_model_cover`. Core Lean only. -/
namespace PyamgV.KCljp

variable {W : Type} [Inhabited W]

def nU (n : Nat) (split : Array Int) : Nat :=
  (List.range n).countP (fun v => decide (rdI split v = UN))

structure Cnt (S : Csr) (s : St W) : Prop where
  ssz : s.split.size = S.n
  vals : ∀ v, v < S.n → rdI s.split v = UN ∨ rdI s.split v = CN ∨ rdI s.split v = FN
  ucnt : s.unassigned = (nU S.n s.split : Int)

theorem remove_cnt {S : Csr} (o : WOps W) (s : St W) (hC : Cnt S s) (pos k : Nat) (hk : k < S.n)
    (hU : rdI s.split k = UN) : Cnt S (removeEdge o s pos k) := by
  unfold removeEdge
  simp only
  by_cases hlt : o.lt (o.dec (rdW s.wt k)) o.one = true
  · rw [if_pos hlt]
    have hsp : ∀ v, rdI (wrI s.split k FN) v = if k = v then FN else rdI s.split v := by
      intro v
      rw [rdI_wrI]
      by_cases hv : k = v
      · rw [if_pos ⟨hv, by rw [hC.ssz]; exact hk⟩, if_pos hv]
      · rw [if_neg (fun h => hv h.1), if_neg hv]
    refine ⟨by simpa [wrI] using hC.ssz, ?_, ?_⟩
    · intro v hv
      show rdI (wrI s.split k FN) v = UN ∨ _
      rw [hsp]
      by_cases hkv : k = v
      · rw [if_pos hkv]; exact Or.inr (Or.inr rfl)
      · rw [if_neg hkv]; exact hC.vals v hv
    · show s.unassigned - 1 = (nU S.n (wrI s.split k FN) : Int)
      have hflip : nU S.n s.split = nU S.n (wrI s.split k FN) + 1 := by
        unfold nU
        apply countP_flip' List.nodup_range (k := k) (List.mem_range.2 hk)
        · intro m _ hm
          rw [hsp, if_neg (fun h => hm h.symm)]
        · rw [hsp, if_pos rfl]; decide
        · simpa using hU
      have := hC.ucnt
      omega
  · rw [if_neg hlt]
    exact ⟨hC.ssz, hC.vals, hC.ucnt⟩

theorem fold_cnt {S : Csr} (o : WOps W) (guard : St W → Nat × Nat × Nat → Bool)
    (hguard : ∀ s e, guard s e = true → rdI s.split e.2.2 = UN ∧ rdI s.mark e.2.1 ≠ 0) :
    ∀ (es : List (Nat × Nat × Nat)) (s : St W), Cnt S s → (∀ e ∈ es, e.2.2 < S.n) →
      Cnt S (es.foldl (guardedRemove o guard) s) := by
  intro es
  induction es with
  | nil => intro s h _; exact h
  | cons e es ih =>
    intro s h hes
    rw [List.foldl_cons]
    apply ih _ _ (fun x hx => hes x (by simp [hx]))
    unfold guardedRemove
    by_cases hg : guard s e = true
    · rw [if_pos hg]
      exact remove_cnt o s h e.2.1 e.2.2 (hes e (by simp)) (hguard s e hg).1
    · rw [if_neg hg]; exact h

theorem rowE_cols {S T : Csr} (hS : SOK S T) {c : Nat} (hc : c < S.n) :
    ∀ e ∈ S.rowE c, e.2.2 < S.n :=
  fun e he => hS.cols e (rowE_mem hc e he).1

theorem p5_cnt {S T : Csr} (hS : SOK S T) (o : WOps W) (s : St W) (hC : Cnt S s) (c : Nat)
    (hc : c < S.n) : Cnt S (p5 o S s c) := by
  unfold p5
  exact fold_cnt o g5 g5_guard (S.rowE c) s hC (rowE_cols hS hc)

theorem p6Cache_unassigned (T : Csr) (c : Nat) : ∀ (l : List (Nat × Nat)) (s : St W),
    (l.foldl (fun s pj =>
      if rdI s.split pj.2 == UN then { s with cache := wrI s.cache pj.2 c } else s) s).unassigned =
      s.unassigned := by
  intro l
  induction l with
  | nil => intro s; rfl
  | cons a as ih =>
    intro s
    rw [List.foldl_cons]
    refine (ih _).trans ?_
    split <;> rfl

theorem p6_cnt {S T : Csr} (hS : SOK S T) (o : WOps W) (s : St W) (hC : Cnt S s) (c : Nat)
    (hc : c < S.n) : Cnt S (p6 o S T s c) := by
  unfold p6
  obtain ⟨h1, _, _⟩ := p6Cache_same (W := W) T c (T.rowPos c) s
  have h4 := p6Cache_unassigned (W := W) T c (T.rowPos c) s
  have hC0 : Cnt S (p6Cache T s c) := by
    unfold p6Cache
    exact ⟨by rw [h1]; exact hC.ssz, by rw [h1]; exact hC.vals, by rw [h4, h1]; exact hC.ucnt⟩
  have key : ∀ (l : List (Nat × Nat)), (∀ pj ∈ l, pj ∈ T.rowPos c) → ∀ (s1 : St W), Cnt S s1 →
      Cnt S (l.foldl (fun s pj => (S.rowE pj.2).foldl (guardedRemove o (g6 c)) s) s1) := by
    intro l
    induction l with
    | nil => intro _ s1 h; exact h
    | cons pj l ih =>
      intro hl s1 h
      rw [List.foldl_cons]
      have hjn : pj.2 < S.n := hS.tcols c hc pj (hl pj (by simp))
      exact ih (fun x hx => hl x (by simp [hx])) _
        (fold_cnt o (g6 c) (g6_guard c) (S.rowE pj.2) s1 h (rowE_cols hS hjn))
  exact key (T.rowPos c) (fun _ h => h) _ hC0

theorem phase_cnt {S : Csr} (f : St W → Nat → St W)
    (hf : ∀ s c, Cnt S s → c < S.n → Cnt S (f s c)) :
    ∀ (dl : List Nat) (s : St W), Cnt S s → (∀ c ∈ dl, c < S.n) → Cnt S (dl.foldl f s) := by
  intro dl
  induction dl with
  | nil => intro s h _; exact h
  | cons c dl ih =>
    intro s h hdl
    rw [List.foldl_cons]
    exact ih _ (hf s c h (hdl c (by simp))) (fun x hx => hdl x (by simp [hx]))

theorem nU_markC (n : Nat) (sp sp' : Array Int) (q : Nat → Bool)
    (hq : ∀ i, i < n → q i = true → rdI sp i = UN)
    (h4 : ∀ v, rdI sp' v = if v ∈ (List.range n).filter q then CN else rdI sp v) :
    nU n sp = nU n sp' + ((List.range n).filter q).length := by
  unfold nU
  rw [← List.countP_eq_length_filter]
  apply PyamgV.Col.countP_or_excl
  · intro v hv
    have hvn := List.mem_range.1 hv
    rw [h4 v]
    by_cases hqv : q v = true
    · have hmem : v ∈ (List.range n).filter q := List.mem_filter.2 ⟨hv, hqv⟩
      rw [if_pos hmem]
      have := hq v hvn hqv
      simp [this, hqv]
    · have hmem : v ∉ (List.range n).filter q := fun h => hqv (List.mem_filter.1 h).2
      rw [if_neg hmem]
      have : q v = false := by simpa using hqv
      simp [this]
  · intro v hv hboth
    have hqv : q v = true := hboth.2
    have hmem : v ∈ (List.range n).filter q := List.mem_filter.2 ⟨hv, hqv⟩
    have h1 := hboth.1
    rw [h4 v, if_pos hmem] at h1
    simp at h1
    exact absurd h1 (by decide)

theorem markC_fold_unassigned : ∀ (dl : List Nat) (s : St W),
    (dl.foldl (fun s i => { s with split := wrI s.split i CN }) s).unassigned = s.unassigned := by
  intro dl
  induction dl with
  | nil => intro s; rfl
  | cons i dl ih => intro s; rw [List.foldl_cons]; exact ih _

/-- the selected nodes are a filter of `0..n-1`: marking them C lowers both counters alike -/
theorem markC_cnt {S : Csr} (s : St W) (hC : Cnt S s) (q : Nat → Bool)
    (hq : ∀ i, i < S.n → q i = true → rdI s.split i = UN) :
    Cnt S (markC s ((List.range S.n).filter q)) := by
  have hdl : ∀ i ∈ (List.range S.n).filter q, i < S.n := by
    intro i hi; rw [List.mem_filter] at hi; exact List.mem_range.1 hi.1
  unfold markC
  obtain ⟨_, _, h3, h4⟩ := markC_fold (W := W) S.n ((List.range S.n).filter q)
    ({ s with unassigned := s.unassigned - ((List.range S.n).filter q).length } : St W) hC.ssz hdl
  refine ⟨h3, ?_, ?_⟩
  · intro v hv
    rw [h4 v]
    by_cases hvd : v ∈ (List.range S.n).filter q
    · rw [if_pos hvd]; exact Or.inr (Or.inl rfl)
    · rw [if_neg hvd]; exact hC.vals v hv
  · have hsplit := nU_markC S.n s.split _ q hq h4
    have := hC.ucnt
    rw [markC_fold_unassigned]
    show s.unassigned - (((List.range S.n).filter q).length : Int) = _
    omega

theorem pass_cnt {S T : Csr} (hS : SOK S T) (o : WOps W) (s : St W) (hC : Cnt S s) :
    Cnt S (pass o S T s) := by
  unfold pass
  simp only
  have hsel : ∀ c ∈ select o S T s, c < S.n := fun c hc => (select_mem o S T s c hc).1
  have h1 : Cnt S (markC s (select o S T s)) := by
    unfold select
    apply markC_cnt s hC
    intro i _ hq
    simp only [Bool.and_eq_true, beq_iff_eq] at hq
    exact hq.1.1
  have h2 := phase_cnt (p5 o S) (fun s c h hc => p5_cnt hS o s h c hc) (select o S T s) _ h1 hsel
  exact phase_cnt (p6 o S T) (fun s c h hc => p6_cnt hS o s h c hc) (select o S T s) _ h2 hsel

theorem init_cnt (o : WOps W) (S : Csr) (w0 : Array W) : Cnt S (initState o S w0) := by
  refine ⟨by simp [initState], ?_, ?_⟩
  · intro v hv; left; simp [initState, rdI, hv]
  · show ((S.n : Nat) : Int) = (nU S.n (Array.replicate S.n UN) : Int)
    have : nU S.n (Array.replicate S.n UN) = S.n := by
      unfold nU
      have : (List.range S.n).countP (fun v => decide (rdI (Array.replicate S.n UN) v = UN)) =
          (List.range S.n).length := by
        apply List.countP_eq_length.2
        intro v hv
        have := List.mem_range.1 hv
        simp [rdI, this]
      rw [this, List.length_range]
    rw [this]

theorem passes_cnt {S T : Csr} (hS : SOK S T) (o : WOps W) :
    ∀ (fuel : Nat) (s : St W), Cnt S s → Cnt S (run.go o S T fuel s).1 ∧
      ((run.go o S T fuel s).2 = true → (run.go o S T fuel s).1.unassigned ≤ 0) := by
  intro fuel
  induction fuel with
  | zero =>
    intro s h
    refine ⟨by simpa [run.go] using h, ?_⟩
    intro hflag
    simpa [run.go] using hflag
  | succ f ih =>
    intro s h
    unfold run.go
    by_cases hu : s.unassigned > 0
    · rw [if_pos hu]; exact ih _ (pass_cnt hS o s h)
    · rw [if_neg hu]
      refine ⟨h, fun _ => ?_⟩
      show s.unassigned ≤ 0
      omega

/-- **C13, CLJP, without side condition on the final state**: if the loop exits by itself, every
F-point of the final state that strongly depends on some node depends on a C-point. -/
theorem cljp_model_cover' {S T : Csr} (hS : SOK S T) {o : WOps W} {ge : W → Nat → Prop}
    (hL : WLaw o ge) (w0 : Array W) (hw : w0.size = S.n) (h0 : ∀ m, m < S.n → ge (rdW w0 m) 0)
    (fuel : Nat) (hexit : (run.go o S T fuel (initState o S w0)).2 = true)
    (k : Nat) (hk : k < S.n)
    (hkF : rdI (run.go o S T fuel (initState o S w0)).1.split k = FN)
    (pm : Nat × Nat) (hdep : pm ∈ S.rowPos k) :
    ∃ pc ∈ S.rowPos k, rdI (run.go o S T fuel (initState o S w0)).1.split pc.2 = CN := by
  obtain ⟨hC, hex⟩ := passes_cnt hS o fuel _ (init_cnt o S w0)
  have hle := hex hexit
  apply cljp_model_cover hS hL w0 hw h0 fuel _ k hk hkF pm hdep
  intro v hv
  rcases hC.vals v hv with h | h | h
  · -- an undecided node would make the counter positive
    exfalso
    have hpos : 1 ≤ nU S.n (run.go o S T fuel (initState o S w0)).1.split := by
      unfold nU
      apply List.countP_pos_iff.2
      exact ⟨v, List.mem_range.2 hv, by simpa using h⟩
    have := hC.ucnt
    omega
  · exact Or.inl h
  · exact Or.inr h

#print axioms cljp_model_cover'
end PyamgV.KCljp
