import PyamgV.Proofs.ExtC12ZBalCentre
import PyamgV.Model.ExtC12ZBal

/-! PyamgV (C12, extension E56, part 1c): **every Bellman–Ford pass of balanced Lloyd clustering computes shortest
distances, nearest-centre labels and in-cluster predecessor chains** — not only the first pass of a rebalance round
(`BalLloyd.first_pass_final`, E34).

`Good x` = the state the Lloyd loop carries between passes: the bookkeeping invariant `KInv` and the invariant `Bal.Inv`
of the balanced kernel w.r.t. the current centres `x.c` (label of a centre = its cluster id).  It holds after the
re-initialisation of a round (`good_reinit`) and is kept by one iteration of the loop (`good_step`: `Bal.kernel_spec`
gives `Final ∧ Inv` after the kernel, `centerNodes_inv` gives `Inv` w.r.t. the moved centres).  `PassK f x ch x' st1`
says that `innerLoop f x ch` performs a kernel call from the loop state `x'` that returns `st1`; for every such pass
`Final` holds (`pass_final`); the state the loop returns is `center_nodes` applied to the last of these passes
(`innerLoop_result`) and is `Good` again (`innerLoop_good`). -/
namespace PyamgV.C12ZB
open PyamgV.Bal PyamgV.BalLloyd
open PyamgV.BF (Walk)

/-- the loop state between two passes -/
structure Good (A : Csr) (k : Nat) (h : Rat) (x : LSt) : Prop where
  kinv : KInv A.n k x.c x.st
  cc : x.cc.size = A.n
  inv : Inv A.n A.entries (isCen k x.c) (fun v => rdI x.st.m v) h x.st

theorem isCen_iff_mem {k : Nat} {c : Array Nat} (hsz : c.size = k) (v : Nat) : isCen k c v ↔ v ∈ c.toList := by
  constructor
  · rintro ⟨b, hb, rfl⟩
    have hb' : b < c.size := by omega
    have : rdN c b = c[b] := by simp [rdN, Array.getD_eq_getD_getElem?, hb']
    rw [this]
    exact Array.getElem_mem_toList hb'
  · intro hv
    obtain ⟨i, hi, rfl⟩ := List.getElem_of_mem hv
    have hi' : i < c.size := by simpa using hi
    exact ⟨i, by omega, by simp [rdN, Array.getD_eq_getD_getElem?, hi']⟩

/-- the re-initialisation at the top of a rebalance round gives a `Good` state -/
theorem good_reinit {A : Csr} {k : Nat} (h : Rat) {x : LSt} (hc : Cen A.n k x.c) (hcc : x.cc.size = A.n) :
    Good A k h { x with st := reinit A.n x.c.toList } := by
  refine ⟨reinit_kinv hc, hcc, ?_⟩
  have hcs : ∀ v ∈ x.c.toList, v < A.n := by
    intro v hv
    obtain ⟨b, hb, rfl⟩ := (isCen_iff_mem hc.sz v).2 hv
    exact hc.lt b hb
  have hI := reinit_inv A.n A.entries h x.c.toList hcs
  have he : (fun c => c ∈ x.c.toList) = isCen k x.c := funext fun v => propext (isCen_iff_mem hc.sz v).symm
  rw [he] at hI
  exact hI

section loop
variable {tol h : Rat} {tb : Bool} {A : Csr} {maxsize k : Nat}

/-- what the kernel returns from a `Good` state -/
theorem good_kernel (h0 : 0 < tol) (h1 : 2 * tol < h)
    (hW : ∀ e ∈ A.entries, ∃ kk : Nat, e.2.2 = (kk : Rat) * h) (hpos : ∀ e ∈ A.entries, tol ≤ e.2.2)
    {x : LSt} (hG : Good A k h x) {st1 : St} {ch1 : Bool} (hk : kernel tol tb A x.st = .ok st1 ch1) :
    Final A.n A.entries (isCen k x.c) (fun v => rdI x.st.m v) st1 ∧
    Inv A.n A.entries (isCen k x.c) (fun v => rdI x.st.m v) h st1 ∧ KInv A.n k x.c st1 := by
  have hlab : ∀ c, isCen k x.c c → 0 ≤ rdI x.st.m c := by
    rintro c ⟨b, hb, rfl⟩
    rw [(hG.kinv.cen b hb).2.2]; omega
  obtain ⟨hF, hI⟩ := kernel_spec h0 h1 A tb hlab hW x.st st1 ch1 hG.inv hk
  exact ⟨hF, hI, kernel_kinv h0 A tb hpos hG.kinv hk⟩

/-- **one iteration of the Lloyd loop keeps `Good`** -/
theorem good_step (h0 : 0 < tol) (h1 : 2 * tol < h) (hwf : A.wf = true)
    (hW : ∀ e ∈ A.entries, ∃ kk : Nat, e.2.2 = (kk : Rat) * h) (hpos : ∀ e ∈ A.entries, tol ≤ e.2.2)
    (hsym : SymE A) {x x2 : LSt} (hG : Good A k h x) {st1 : St} {ch1 ch2 : Bool}
    (hk : kernel tol tb A x.st = .ok st1 ch1) (hneg : st1.m.any (fun v => decide (v < 0)) = false)
    (hcn : centerNodes tol A maxsize { x with st := st1 } = some (x2, ch2)) :
    Good A k h x2 ∧ x2.st.m = st1.m := by
  obtain ⟨hF, hI, hK1⟩ := good_kernel (tb := tb) h0 h1 hW hpos hG hk
  have hAs : ∀ j, j < A.n → 0 ≤ rdI st1.m j := fun j _ => any_neg_false hneg j
  have hlab : ∀ b, b < k → (fun v => rdI x.st.m v) (rdN x.c b) = (b : Int) := fun b hb => (hG.kinv.cen b hb).2.2
  obtain ⟨r1, r2, r3, r4⟩ := centerNodes_inv (x := { x with st := st1 }) h0 h1 hwf hW hpos hsym hK1 hG.cc hAs hlab hI hF hcn
  exact ⟨⟨r3, r4, r1⟩, r2⟩

/-- `innerLoop f x ch` performs a kernel call from the loop state `x'` that returns `st1` -/
inductive PassK (tol : Rat) (tb : Bool) (A : Csr) (maxsize : Nat) : Nat → LSt → Bool → LSt → St → Prop
  | here {f : Nat} {x : LSt} {st1 : St} {ch1 : Bool} :
      kernel tol tb A x.st = .ok st1 ch1 → PassK tol tb A maxsize (f + 1) x true x st1
  | later {f : Nat} {x x2 x' : LSt} {st1 st' : St} {ch1 ch2 : Bool} :
      kernel tol tb A x.st = .ok st1 ch1 →
      st1.s.any (fun v => decide ((maxsize : Int) < v)) = false →
      st1.m.any (fun v => decide (v < 0)) = false →
      centerNodes tol A maxsize { x with st := st1 } = some (x2, ch2) →
      PassK tol tb A maxsize f x2 (ch1 || ch2) x' st' → PassK tol tb A maxsize (f + 1) x true x' st'

/-- **every pass of the Lloyd loop** (weights on a grid `h·ℕ`, `0 < tol`, `2·tol < h`, every weight `>= tol`, symmetric
pattern; the loop started in a `Good` state, e.g. the re-initialised state of a rebalance round): the kernel call
delivers `Final` — shortest distances, nearest-centre labels, in-cluster shortest-path predecessor chains, exact
predecessor counts — w.r.t. the centres `x'.c` of that moment (label of centre `c[b]` = `b`) -/
theorem pass_final (h0 : 0 < tol) (h1 : 2 * tol < h) (hwf : A.wf = true)
    (hW : ∀ e ∈ A.entries, ∃ kk : Nat, e.2.2 = (kk : Rat) * h) (hpos : ∀ e ∈ A.entries, tol ≤ e.2.2)
    (hsym : SymE A) {f : Nat} {x x' : LSt} {ch : Bool} {st1 : St} (hG : Good A k h x)
    (hp : PassK tol tb A maxsize f x ch x' st1) :
    Good A k h x' ∧ Final A.n A.entries (isCen k x'.c) (fun v => rdI x'.st.m v) st1 ∧
      (∀ b, b < k → rdI x'.st.m (rdN x'.c b) = (b : Int)) ∧ KInv A.n k x'.c st1 := by
  induction hp with
  | here hk =>
    obtain ⟨g1, _, g3⟩ := good_kernel (tb := tb) h0 h1 hW hpos hG hk
    exact ⟨hG, g1, fun b hb => (hG.kinv.cen b hb).2.2, g3⟩
  | later hk _ hneg hcn _ ih =>
    exact ih (good_step h0 h1 hwf hW hpos hsym hG hk hneg hcn).1

/-- the loop returns a `Good` state -/
theorem innerLoop_good (h0 : 0 < tol) (h1 : 2 * tol < h) (hwf : A.wf = true)
    (hW : ∀ e ∈ A.entries, ∃ kk : Nat, e.2.2 = (kk : Rat) * h) (hpos : ∀ e ∈ A.entries, tol ≤ e.2.2)
    (hsym : SymE A) : ∀ (f : Nat) (x : LSt) (ch : Bool) (y : LSt), Good A k h x →
      innerLoop tol tb A maxsize f x ch = .ok y → Good A k h y := by
  intro f
  induction f with
  | zero =>
    intro x ch y hG hf
    unfold innerLoop at hf
    injection hf with hf
    subst hf
    exact hG
  | succ f ih =>
    intro x ch y hG hf
    unfold innerLoop at hf
    split at hf
    · injection hf with hf
      subst hf
      exact hG
    · cases hk : kernel tol tb A x.st with
      | fault => rw [hk] at hf; cases hf
      | tooMany => rw [hk] at hf; cases hf
      | ok st1 ch1 =>
        rw [hk] at hf
        simp only at hf
        split at hf
        · cases hf
        · split at hf
          · cases hf
          · rename_i hchk
            have hneg : st1.m.any (fun v => decide (v < 0)) = false := by
              cases hb : st1.m.any (fun v => decide (v < 0)) with
              | false => rfl
              | true => rw [hb] at hchk; simp at hchk
            cases hcn : centerNodes tol A maxsize { x with st := st1 } with
            | none => rw [hcn] at hf; cases hf
            | some r =>
              obtain ⟨x2, ch2⟩ := r
              rw [hcn] at hf
              simp only at hf
              exact ih x2 (ch1 || ch2) y (good_step h0 h1 hwf hW hpos hsym hG hk hneg hcn).1 hf

/-- **what the loop returns**: either no pass was made (`maxiter = 0` / `changed = false`) and the state is returned
as it is, or the returned state is `center_nodes` applied to the result `st1` of a pass `PassK` of the loop (so the
returned cluster ids are `st1.m`, the nearest-centre labels w.r.t. the centres BEFORE the last centre update) -/
theorem innerLoop_result : ∀ (f : Nat) (x : LSt) (ch : Bool) (y : LSt),
    innerLoop tol tb A maxsize f x ch = .ok y →
    ((f = 0 ∨ ch = false) ∧ y = x) ∨
    ∃ x' st1 ch2, PassK tol tb A maxsize f x ch x' st1 ∧
      centerNodes tol A maxsize { x' with st := st1 } = some (y, ch2) := by
  intro f
  induction f with
  | zero =>
    intro x ch y hf
    unfold innerLoop at hf
    injection hf with hf
    exact Or.inl ⟨Or.inl rfl, hf.symm⟩
  | succ f ih =>
    intro x ch y hf
    unfold innerLoop at hf
    split at hf
    · rename_i hch
      injection hf with hf
      refine Or.inl ⟨Or.inr ?_, hf.symm⟩
      cases ch <;> simp at hch ⊢
    · rename_i hch
      have hcht : ch = true := by cases ch <;> simp at hch ⊢
      subst hcht
      cases hk : kernel tol tb A x.st with
      | fault => rw [hk] at hf; cases hf
      | tooMany => rw [hk] at hf; cases hf
      | ok st1 ch1 =>
        rw [hk] at hf
        simp only at hf
        split at hf
        · cases hf
        · rename_i hsz
          split at hf
          · cases hf
          · rename_i hchk
            cases hcn : centerNodes tol A maxsize { x with st := st1 } with
            | none => rw [hcn] at hf; cases hf
            | some r =>
              obtain ⟨x2, ch2⟩ := r
              rw [hcn] at hf
              simp only at hf
              right
              rcases ih x2 (ch1 || ch2) y hf with ⟨_, hy⟩ | ⟨x', st', ch', hp, hc⟩
              · subst hy
                exact ⟨x, st1, ch2, PassK.here hk, hcn⟩
              · refine ⟨x', st', ch', PassK.later hk ?_ ?_ hcn hp, hc⟩
                · cases hb : st1.s.any (fun v => decide ((maxsize : Int) < v)) with
                  | false => rfl
                  | true => rw [hb] at hsz; simp at hsz
                · cases hb : st1.m.any (fun v => decide (v < 0)) with
                  | false => rfl
                  | true => rw [hb] at hchk; simp at hchk

/-! ### rounds of `balanced_lloyd_cluster` -/

/-- `outer r x ords` starts a rebalance round from the loop state `x'` (whose `st` is then re-initialised) -/
inductive RoundOf (tol : Rat) (tb : Bool) (A : Csr) (maxiter maxsize : Nat) :
    Nat → LSt → List (Array Nat × Array Nat) → LSt → Prop
  | here {r : Nat} {x : LSt} {ords : List (Array Nat × Array Nat)} : RoundOf tol tb A maxiter maxsize r x ords x
  | next {r : Nat} {x x1 x' : LSt} {ords : List (Array Nat × Array Nat)} {dist : Array (Array (Option Rat))}
      {newc : Array Nat} :
      innerLoop tol tb A maxsize maxiter { x with st := reinit A.n x.c.toList } true = .ok x1 →
      distAll tol A maxsize x1 = some dist →
      rebalance A x1.st x1.c dist ords.head? = .ok (newc, true) →
      (newc.size = x1.c.size ∧ newc.toList.Nodup ∧ newc.all (fun v => decide (v < A.n)) = true) →
      RoundOf tol tb A maxiter maxsize r { x1 with c := newc } ords.tail x' →
      RoundOf tol tb A maxiter maxsize (r + 1) x ords x'

/-- every round starts from distinct centres inside the graph -/
theorem roundOf_cen (h0 : 0 < tol) (hpos : ∀ e ∈ A.entries, tol ≤ e.2.2) {maxiter : Nat} {r : Nat} {x x' : LSt}
    {ords : List (Array Nat × Array Nat)} (hc : Cen A.n k x.c) (hcc : x.cc.size = A.n)
    (hr : RoundOf tol tb A maxiter maxsize r x ords x') : Cen A.n k x'.c ∧ x'.cc.size = A.n := by
  induction hr with
  | here => exact ⟨hc, hcc⟩
  | @next r x x1 x' ords dist newc hin _ _ hok _ ih =>
    obtain ⟨hK, hcc1, _⟩ := innerLoop_step (k := k) h0 hpos maxiter { x with st := reinit A.n x.c.toList } true x1
      (reinit_kinv hc) hcc hin
    exact ih ⟨hok.1.trans hK.sc, hok.2.1, fun a ha => all_lt hok.2.2 a (by rw [hok.1, hK.sc]; exact ha)⟩ hcc1

/-- **every Bellman–Ford pass of every rebalance round** of `balanced_lloyd_cluster` (distinct centres inside the graph at
the start, weights on a grid `h·ℕ` with `0 < tol`, `2·tol < h`, every weight `>= tol`, symmetric pattern): the kernel
call delivers `Final` w.r.t. the centres `x''.c` of that moment -/
theorem every_pass_final (h0 : 0 < tol) (h1 : 2 * tol < h) (hwf : A.wf = true)
    (hW : ∀ e ∈ A.entries, ∃ kk : Nat, e.2.2 = (kk : Rat) * h) (hpos : ∀ e ∈ A.entries, tol ≤ e.2.2)
    (hsym : SymE A) {maxiter r : Nat} {x x' x'' : LSt} {ords : List (Array Nat × Array Nat)} {st1 : St}
    (hc : Cen A.n k x.c) (hcc : x.cc.size = A.n)
    (hr : RoundOf tol tb A maxiter maxsize r x ords x')
    (hp : PassK tol tb A maxsize maxiter { x' with st := reinit A.n x'.c.toList } true x'' st1) :
    Final A.n A.entries (isCen k x''.c) (fun v => rdI x''.st.m v) st1 ∧
      (∀ b, b < k → rdI x''.st.m (rdN x''.c b) = (b : Int)) := by
  obtain ⟨hc', hcc'⟩ := roundOf_cen h0 hpos hc hcc hr
  obtain ⟨_, hF, hl, _⟩ := pass_final h0 h1 hwf hW hpos hsym (good_reinit h hc' hcc') hp
  exact ⟨hF, hl⟩

/-- what one round returns (`maxiter >= 1`): the cluster ids are those of a pass `st1` satisfying `Final` w.r.t. the
centres `xl.c` the last centre update started from -/
theorem round_result (h0 : 0 < tol) (h1 : 2 * tol < h) (hwf : A.wf = true)
    (hW : ∀ e ∈ A.entries, ∃ kk : Nat, e.2.2 = (kk : Rat) * h) (hpos : ∀ e ∈ A.entries, tol ≤ e.2.2)
    (hsym : SymE A) {maxiter : Nat} (hmi : 1 ≤ maxiter) {x x1 : LSt} (hc : Cen A.n k x.c) (hcc : x.cc.size = A.n)
    (hin : innerLoop tol tb A maxsize maxiter { x with st := reinit A.n x.c.toList } true = .ok x1) :
    ∃ (xl : LSt) (st1 : St), Final A.n A.entries (isCen k xl.c) (fun v => rdI xl.st.m v) st1 ∧ x1.st.m = st1.m ∧
      (∀ b, b < k → rdI xl.st.m (rdN xl.c b) = (b : Int)) := by
  rcases innerLoop_result _ _ _ _ hin with ⟨hz | hz, _⟩ | ⟨xl, st1, ch2, hp, hcn⟩
  · omega
  · cases hz
  · obtain ⟨hG, hF, hl, hK1⟩ := pass_final h0 h1 hwf hW hpos hsym (good_reinit h hc hcc) hp
    have hW0 : ∀ e ∈ A.entries, 0 ≤ e.2.2 := fun e he => le_trans (le_of_lt h0) (hpos e he)
    obtain ⟨_, hm, _⟩ := centerNodes_spec (x := { xl with st := st1 }) h0 hW0 hK1 hG.cc hcn
    exact ⟨xl, st1, hF, hm, hl⟩

/-- **the clusters `balanced_lloyd_cluster` returns** (model `BalLloyd.outer`; `maxiter >= 1`): the returned cluster ids
are the array `m` of a finished balanced Bellman–Ford pass `st1` that satisfies `Final` — shortest distances,
nearest-centre labels, in-cluster predecessor chains — w.r.t. the centres `xl.c` from which the last `center_nodes`
update started (the returned centres are that update's result) -/
theorem outer_final (h0 : 0 < tol) (h1 : 2 * tol < h) (hwf : A.wf = true)
    (hW : ∀ e ∈ A.entries, ∃ kk : Nat, e.2.2 = (kk : Rat) * h) (hpos : ∀ e ∈ A.entries, tol ≤ e.2.2)
    (hsym : SymE A) {maxiter : Nat} (hmi : 1 ≤ maxiter) :
    ∀ (r : Nat) (x : LSt) (ords : List (Array Nat × Array Nat)) (cl : Array Int) (ce : Array Nat),
      Cen A.n k x.c → x.cc.size = A.n →
      outer tol tb A maxiter maxsize r x ords = .ok (cl, ce) →
      ∃ (xl : LSt) (st1 : St), Final A.n A.entries (isCen k xl.c) (fun v => rdI xl.st.m v) st1 ∧ cl = st1.m ∧
        (∀ b, b < k → rdI xl.st.m (rdN xl.c b) = (b : Int)) := by
  intro r
  induction r with
  | zero =>
    intro x ords cl ce hc hcc hf
    unfold outer at hf
    split at hf
    · cases hf
    · rename_i x1 hin
      obtain ⟨xl, st1, hF, hm, hl⟩ := round_result h0 h1 hwf hW hpos hsym hmi hc hcc hin
      split at hf
      · cases hf
      · injection hf with hf
        injection hf with hf1 hf2
        subst hf1
        exact ⟨xl, st1, hF, hm, hl⟩
  | succ r ih =>
    intro x ords cl ce hc hcc hf
    unfold outer at hf
    split at hf
    · cases hf
    · rename_i x1 hin
      obtain ⟨xl, st1, hF, hm, hl⟩ := round_result h0 h1 hwf hW hpos hsym hmi hc hcc hin
      obtain ⟨hK, hcc1, _⟩ := innerLoop_step (k := k) h0 hpos maxiter { x with st := reinit A.n x.c.toList } true x1
        (reinit_kinv hc) hcc hin
      split at hf
      · cases hf
      · simp only at hf
        split at hf
        · injection hf with hf
          injection hf with hf1 hf2
          subst hf1
          exact ⟨xl, st1, hF, hm, hl⟩
        · split at hf
          · cases hf
          · split at hf
            · cases hf
            · split at hf
              · cases hf
              · rename_i newc ch hrb
                split at hf
                · rename_i hch
                  subst hch
                  split at hf
                  · rename_i hok
                    refine ih { x1 with c := newc } ords.tail cl ce ?_ hcc1 hf
                    exact ⟨hok.1.trans hK.sc, hok.2.1, fun a ha => all_lt hok.2.2 a (by rw [hok.1, hK.sc]; exact ha)⟩
                  · cases hf
                · injection hf with hf
                  injection hf with hf1 hf2
                  subst hf1
                  exact ⟨xl, st1, hF, hm, hl⟩

end loop

/-- **`balanced_lloyd_cluster` end to end** (model `BalLloyd.cluster`; distinct initial centres, `maxiter >= 1`, weights
on a grid `h·ℕ` with `2·tol < h`, symmetric pattern): the returned cluster ids are the nearest-centre labels of a
finished pass satisfying `Final`, w.r.t. `centers.size` centres `xl.c` labelled `0..k-1` -/
theorem cluster_final {tol h : Rat} {tb : Bool} {A : Csr} (h0 : 0 < tol) (h1 : 2 * tol < h)
    (hW : ∀ e ∈ A.entries, ∃ kk : Nat, e.2.2 = (kk : Rat) * h) (hpos : ∀ e ∈ A.entries, tol ≤ e.2.2)
    (hsym : SymE A) {centers : Array Int} (hnd : centers.toList.Nodup) {maxiter reb : Nat} (hmi : 1 ≤ maxiter)
    {ords : List (Array Nat × Array Nat)} {cl : Array Int} {ce : Array Nat}
    (hf : cluster tol tb A centers maxiter reb ords = .ok (cl, ce)) :
    ∃ (xl : LSt) (st1 : St),
      Final A.n A.entries (isCen centers.size xl.c) (fun v => rdI xl.st.m v) st1 ∧ cl = st1.m ∧
        (∀ b, b < centers.size → rdI xl.st.m (rdN xl.c b) = (b : Int)) := by
  unfold cluster at hf
  split at hf
  · cases hf
  · rename_i hwf
    have hwf' : A.wf = true := by cases hb : A.wf <;> simp [hb] at hwf ⊢
    split at hf
    · cases hf
    · split at hf
      · cases hf
      · split at hf
        · cases hf
        · rename_i hrange
          split at hf
          · cases hf
          · simp only at hf
            have hr : ∀ v ∈ centers.toList, 0 ≤ v ∧ v < (A.n : Int) := by
              intro v hv
              have hfalse : centers.any (fun v => decide (v < 0 ∨ (A.n : Int) ≤ v)) = false := by
                cases hb : centers.any (fun v => decide (v < 0 ∨ (A.n : Int) ≤ v)) with
                | false => rfl
                | true => exact absurd hb hrange
              obtain ⟨i, hi, rfl⟩ := List.getElem_of_mem hv
              have := Array.any_eq_false.1 hfalse i (by simpa using hi)
              simp only [decide_eq_true_eq, not_or, not_lt, not_le] at this
              simpa using this
            refine outer_final (k := centers.size) h0 h1 hwf' hW hpos hsym hmi reb _ ords cl ce ?_ (by simp) hf
            refine ⟨by simp, ?_, ?_⟩
            · simp only [Array.toList_map]
              exact toNat_nodup (fun v hv => (hr v hv).1) hnd
            · intro a ha
              simp only [rdN, Array.getD_eq_getD_getElem?, Array.getElem?_map]
              have hm : centers[a] ∈ centers.toList := by simp
              have := hr _ hm
              simp only [Array.getElem?_eq_getElem ha, Option.map_some, Option.getD_some]
              omega

/-! ### checkable forms of the hypotheses -/

theorem symE_of_bool {A : Csr} (h : symEB A = true) : SymE A := by
  intro u v a he
  unfold symEB at h
  rw [List.all_eq_true] at h
  have := h _ he
  rw [List.any_eq_true] at this
  obtain ⟨e', he', hd⟩ := this
  simp only [decide_eq_true_eq] at hd
  obtain ⟨u', v', a'⟩ := e'
  simp only at hd
  exact ⟨a', by rw [← hd.1, ← hd.2]; exact he'⟩

/-- the Boolean form of the grid hypotheses (driver op `ext_c12z_grid`) -/
theorem grid_of_bool {A : Csr} {h tol : Rat} (hb : gridB A h tol = true) :
    0 < tol ∧ 2 * tol < h ∧ (∀ e ∈ A.entries, ∃ kk : Nat, e.2.2 = (kk : Rat) * h) ∧ ∀ e ∈ A.entries, tol ≤ e.2.2 := by
  unfold gridB at hb
  simp only [Bool.and_eq_true, decide_eq_true_eq, List.all_eq_true] at hb
  obtain ⟨⟨t0, t1⟩, hall⟩ := hb
  have hh : h ≠ 0 := by intro e; rw [e] at t1; linarith
  refine ⟨t0, t1, ?_, fun e he => (hall e he).1⟩
  intro e he
  obtain ⟨_, hden, hq⟩ := hall e he
  have hnum : ((e.2.2 / h).num : Rat) = e.2.2 / h := Rat.coe_int_num_of_den_eq_one hden
  have hpos : 0 < (e.2.2 / h).num := Rat.num_pos.2 hq
  refine ⟨(e.2.2 / h).num.toNat, ?_⟩
  have hcast : (((e.2.2 / h).num.toNat : Nat) : Rat) = ((e.2.2 / h).num : Rat) := by
    have : (((e.2.2 / h).num.toNat : Nat) : Int) = (e.2.2 / h).num := Int.toNat_of_nonneg hpos.le
    exact_mod_cast this
  rw [hcast, hnum, div_mul_cancel₀ _ hh]

/-- all weights are multiples `kk * h` (Boolean form for a given list of multipliers) -/
theorem grid_of_all {A : Csr} {h : Rat} (ks : List Nat)
    (hall : (A.entries.all fun e => ks.any fun kk => decide (e.2.2 = (kk : Rat) * h)) = true) :
    ∀ e ∈ A.entries, ∃ kk : Nat, e.2.2 = (kk : Rat) * h := by
  intro e he
  rw [List.all_eq_true] at hall
  have := hall e he
  rw [List.any_eq_true] at this
  obtain ⟨kk, _, hk⟩ := this
  exact ⟨kk, by simpa using hk⟩

end PyamgV.C12ZB
