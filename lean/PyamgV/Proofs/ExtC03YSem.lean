import PyamgV.Model.ExtC03YCyc
import PyamgV.Proofs.ExtC05BridgeF1
import Mathlib.Algebra.Module.Pi
import Mathlib.Tactic.Ring

/-! PyamgV (extension E55, C03): meaning of the scalar-polymorphic dense model `Model/ExtC03YCyc.lean` over an ARBITRARY FIELD
(no order: the Gaussian rationals `CRat` of the complex runs are a field without order).

A list `v` denotes the sequence `sem v : ℕ → 𝕜`, `i ↦ v.getD i 0`; a matrix `A` (list of rows) denotes the linear map `msem A`
on `ℕ → 𝕜`.  Every operation of the model is a homomorphism for these meanings without any shape condition (zero padding).
The statements and proofs are those of `Proofs/C03Sem.lean` / `Proofs/C03Thm.lean` (which are about `ℚ`); the order of `ℚ` is
never used there. -/
set_option linter.unusedSectionVars false
namespace PyamgV.C03Y
open PyamgV
open PyamgV.C03 (Cyc iterN)

variable {𝕜 : Type} [Field 𝕜] [DecidableEq 𝕜]

abbrev Fn (𝕜 : Type) := Nat → 𝕜

def sem (v : Vec 𝕜) : Fn 𝕜 := fun i => v.getD i 0

@[simp] theorem sem_nil : sem ([] : Vec 𝕜) = 0 := by funext i; simp [sem]
@[simp] theorem sem_cons_zero (a : 𝕜) (v : Vec 𝕜) : sem (a :: v) 0 = a := by simp [sem]
@[simp] theorem sem_cons_succ (a : 𝕜) (v : Vec 𝕜) (i : Nat) : sem (a :: v) (i + 1) = sem v i := by
  simp [sem]

theorem sem_vadd (x y : Vec 𝕜) : sem (vadd x y) = sem x + sem y := by
  induction x generalizing y with
  | nil => simp [vadd]
  | cons a x ih =>
    cases y with
    | nil => simp [vadd]
    | cons c y =>
      funext i
      cases i with
      | zero => simp [vadd]
      | succ i => have := congrFun (ih y) i; simpa [vadd] using this

theorem sem_vneg (x : Vec 𝕜) : sem (vneg x) = - sem x := by
  induction x with
  | nil => simp [vneg]
  | cons a x ih =>
    funext i
    cases i with
    | zero => simp [vneg]
    | succ i => have := congrFun ih i; simpa [vneg] using this

theorem sem_vsub (x y : Vec 𝕜) : sem (vsub x y) = sem x - sem y := by
  induction x generalizing y with
  | nil => simp [vsub, sem_vneg]
  | cons a x ih =>
    cases y with
    | nil => simp [vsub]
    | cons c y =>
      funext i
      cases i with
      | zero => simp [vsub]
      | succ i => have := congrFun (ih y) i; simpa [vsub] using this

theorem sem_zeros (n : Nat) : sem (zeros n : Vec 𝕜) = 0 := by
  induction n with
  | zero => simp [zeros]
  | succ n ih =>
    funext i
    cases i with
    | zero => simp [zeros, List.replicate_succ]
    | succ i => have := congrFun ih i; simpa [zeros, List.replicate_succ] using this

/-- a (finite) row applied to a sequence -/
def dotF : Vec 𝕜 → Fn 𝕜 → 𝕜
  | [], _ => 0
  | a :: r, f => a * f 0 + dotF r (fun j => f (j + 1))

@[simp] theorem dotF_nil (f : Fn 𝕜) : dotF ([] : Vec 𝕜) f = 0 := rfl

theorem dotF_add (r : Vec 𝕜) (f g : Fn 𝕜) : dotF r (f + g) = dotF r f + dotF r g := by
  induction r generalizing f g with
  | nil => simp [dotF]
  | cons a r ih =>
    have := ih (fun j => f (j + 1)) (fun j => g (j + 1))
    have h2 : (fun j => (f + g) (j + 1)) = (fun j => f (j + 1)) + (fun j => g (j + 1)) := by
      funext j; simp
    simp only [dotF]
    rw [h2, this]; simp only [Pi.add_apply]; ring

theorem dotF_smul (r : Vec 𝕜) (c : 𝕜) (f : Fn 𝕜) : dotF r (c • f) = c * dotF r f := by
  induction r generalizing f with
  | nil => simp [dotF]
  | cons a r ih =>
    have := ih (fun j => f (j + 1))
    have h2 : (fun j => (c • f) (j + 1)) = c • (fun j => f (j + 1)) := by
      funext j; simp
    simp only [dotF]
    rw [h2, this]; simp only [Pi.smul_apply, smul_eq_mul]; ring

theorem dotF_zero (r : Vec 𝕜) : dotF r 0 = 0 := by
  have := dotF_smul r 0 0
  simpa using this

theorem dot_eq (r x : Vec 𝕜) : dot r x = dotF r (sem x) := by
  induction r generalizing x with
  | nil => cases x <;> simp [dot]
  | cons a r ih =>
    cases x with
    | nil =>
      simp only [dot, dotF, sem_nil, Pi.zero_apply, mul_zero, zero_add]
      exact (dotF_zero r).symm
    | cons c x =>
      have h1 : (fun j => sem (c :: x) (j + 1)) = sem x := by funext j; simp
      simp [dot, dotF, ih x]

/-- meaning of a matrix: row `i` applied to the sequence (rows beyond the last are zero) -/
def msem (A : Mat 𝕜) : Fn 𝕜 →ₗ[𝕜] Fn 𝕜 where
  toFun f := fun i => dotF (A.getD i []) f
  map_add' f g := by funext i; simp [dotF_add]
  map_smul' c f := by funext i; simp [dotF_smul]

theorem msem_apply (A : Mat 𝕜) (f : Fn 𝕜) (i : Nat) : msem A f i = dotF (A.getD i []) f := rfl

theorem sem_matVec (A : Mat 𝕜) (x : Vec 𝕜) : sem (matVec A x) = msem A (sem x) := by
  funext i
  induction A generalizing i with
  | nil => simp [matVec, msem_apply, sem]
  | cons r A ih =>
    cases i with
    | zero => simp [matVec, msem_apply, sem, dot_eq]
    | succ i =>
      have := ih i
      simpa [matVec, msem_apply, sem] using this

theorem sem_smooth (A Q : Mat 𝕜) (x b : Vec 𝕜) :
    sem (smooth A Q x b) = sem x + msem Q (sem b - msem A (sem x)) := by
  simp [smooth, sem_vadd, sem_matVec, sem_vsub]

theorem sem_iterN (g : Vec 𝕜 → Vec 𝕜) (f : Fn 𝕜 → Fn 𝕜 → Fn 𝕜) (b : Fn 𝕜) (hg : ∀ v, sem (g v) = f (sem v) b)
    (k : Nat) (v : Vec 𝕜) : sem (iterN g k v) = iter f b k (sem v) := by
  induction k generalizing v with
  | zero => rfl
  | succ k ih => simp [iterN, PyamgV.iter, ih, hg]

def ctype : Cyc → Nat → CType
  | .V, _ => .V
  | .W, _ => .W
  | .F, k => .F k

theorem cyc_single {K : Type*} [Field K] {V : Type*} [AddCommGroup V] [Module K V] (S : V →ₗ[K] V) (c : CType)
    (L : Level K V) (x b : V) :
    cyc (fun v => S v) c [L] x b = L.post (L.pre x b + L.P (S (L.R (b - L.A (L.pre x b))))) b := by
  cases c with
  | V => simp [cyc]
  | W => simp [cyc]
  | F k =>
    have hi := CF.iter_ignore (V := V) (fun b => S b)
    simp only [cyc]
    rw [hi]

/-! ## the outer loop -/

theorem loopY_one (step : Vec 𝕜 → Vec 𝕜) (stop : Vec 𝕜 → Bool) (x : Vec 𝕜) : loopY step stop 1 x = step x := by
  simp [loopY]

/-- a `maxiter = k` call that is not stopped early by the residual test performs `k` steps -/
theorem loopY_eq_iterN (step : Vec 𝕜 → Vec 𝕜) (stop : Vec 𝕜 → Bool) :
    ∀ (k : Nat) (x : Vec 𝕜), (∀ j, 1 ≤ j → j ≤ k → stop (iterN step j x) = false) →
      loopY step stop (k + 1) x = iterN step (k + 1) x := by
  intro k
  induction k with
  | zero => intro x _; simp [loopY, iterN]
  | succ k ih =>
    intro x h
    have h1 : stop (step x) = false := by simpa [iterN] using h 1 (Nat.le_refl 1) (by omega)
    have h2 := ih (step x) (fun j hj hjk => by
      have := h (j + 1) (by omega) (by omega)
      simpa [iterN] using this)
    rw [loopY]
    simp only [h1, Bool.false_eq_true, if_false, Nat.add_eq_zero_iff, one_ne_zero, and_false]
    rw [h2]; rfl

theorem iterN_congr {β : Type} (f g : β → β) (h : ∀ x, f x = g x) (k : Nat) (x : β) :
    iterN f k x = iterN g k x := by
  induction k generalizing x with
  | zero => rfl
  | succ k ih => simp [iterN, h, ih]

end PyamgV.C03Y
