import PyamgV.Model.ExtC07Restart
import PyamgV.Model.ExtC07Hh

/-! PyamgV (C07, extension E11): the GMRES models (`gmresStep`/`gmresMgs`/`gmresRestart` of `Model/C07Gmres.lean`,
`Model/ExtC07Restart.lean`; `fgStep`/`fgmresHh`, `ghStep`/`gmresHh` of `Model/ExtC07Hh.lean`) commute with every map
`φ : V → W` that commutes with the vector operations (`OpsHom`, `HOpsHom`): running the model on `V` and mapping
the iterates is running the model on `W`.  Purely structural (no algebraic law is used); instantiated in
`Proofs/ExtC07Vec.lean` with `toFn : Vector K n → (Fin n → K)`, this carries the optimality theorems from the
module instance to the `Vector` instance the driver executes. -/
namespace PyamgV.C07
set_option linter.unusedSectionVars false

variable {K V W : Type} [Add K] [Sub K] [Mul K] [Div K] [Neg K] [OfNat K 0] [OfNat K 1] [OfNat K 2]

structure OpsHom (φ : V → W) (ov : Ops K V) (ow : Ops K W) : Prop where
  add : ∀ u v, φ (ov.add u v) = ow.add (φ u) (φ v)
  sub : ∀ u v, φ (ov.sub u v) = ow.sub (φ u) (φ v)
  smul : ∀ c v, φ (ov.smul c v) = ow.smul c (φ v)
  dot : ∀ u v, ov.dot u v = ow.dot (φ u) (φ v)
  A : ∀ v, φ (ov.A v) = ow.A (φ v)
  M : ∀ v, φ (ov.M v) = ow.M (φ v)

structure HOpsHom (φ : V → W) (hv : HOps K V) (hw : HOps K W) : Prop where
  o : OpsHom φ hv.o hw.o
  get : ∀ v i, hv.get v i = hw.get (φ v) i
  basis : ∀ i, φ (hv.basis i) = hw.basis i
  tail : ∀ i v, φ (hv.tail i v) = hw.tail i (φ v)

theorem getLast_map (φ : V → W) (l : List V) (d : V) :
    (l.map φ).getLast?.getD (φ d) = φ (l.getLast?.getD d) := by
  rw [List.getLast?_map]
  cases l.getLast? <;> rfl

theorem iter_hom {σ τ : Type} (f : σ → σ) (g : τ → τ) (mp : σ → τ) (h : ∀ s, mp (f s) = g (mp s)) :
    ∀ k s, mp (iter f k s) = iter g k (mp s)
  | 0, _ => rfl
  | k+1, s => by simp only [iter]; rw [h, iter_hom f g mp h k s]

section mgs
variable (φ : V → W) (ov : Ops K V) (ow : Ops K W) (H : OpsHom φ ov ow)
include H

theorem orthO_hom : ∀ (vs : List V) (w : V),
    φ (orthO ov vs w).1 = (orthO ow (vs.map φ) (φ w)).1 ∧ (orthO ov vs w).2 = (orthO ow (vs.map φ) (φ w)).2
  | [], _ => ⟨rfl, rfl⟩
  | q :: qs, w => by
    simp only [orthO, List.map_cons]
    have ih := orthO_hom qs (ov.sub w (ov.smul (ov.dot q w) q))
    rw [H.sub, H.smul, H.dot] at ih
    rw [H.dot]
    exact ⟨ih.1, by rw [ih.2]⟩

theorem newColO_hom (sqrt : K → K) (pos : K → Bool) (rem : V) :
    φ (newColO ov sqrt pos rem).1 = (newColO ow sqrt pos (φ rem)).1 ∧
    (newColO ov sqrt pos rem).2 = (newColO ow sqrt pos (φ rem)).2 := by
  simp only [newColO]
  rw [← H.dot]
  cases pos (sqrt (ov.dot rem rem))
  · simp only [Bool.false_eq_true, if_false]; exact ⟨H.smul _ _, trivial⟩
  · simp only [if_true]; exact ⟨H.smul _ _, trivial⟩

theorem arnoldiO_hom (sqrt : K → K) (pos : K → Bool) (vs : List V) (vk : V) :
    φ (arnoldiO ov sqrt pos vs vk).1 = (arnoldiO ow sqrt pos (vs.map φ) (φ vk)).1 ∧
    (arnoldiO ov sqrt pos vs vk).2 = (arnoldiO ow sqrt pos (vs.map φ) (φ vk)).2 := by
  simp only [arnoldiO]
  obtain ⟨h1, h2⟩ := orthO_hom φ ov ow H vs (ov.M (ov.A vk))
  rw [H.M, H.A] at h1 h2
  obtain ⟨h3, h4⟩ := newColO_hom φ ov ow H sqrt pos (orthO ov vs (ov.M (ov.A vk))).1
  rw [h1] at h3 h4
  exact ⟨h3, by rw [h2, h4]⟩

theorem combO_hom : ∀ (x : V) (y : List K) (vs : List V),
    φ (combO ov x y vs) = combO ow (φ x) y (vs.map φ)
  | x, [], vs => by cases vs <;> rfl
  | x, _ :: _, [] => rfl
  | x, c :: cs, v :: vs => by
    simp only [combO, List.map_cons]
    rw [combO_hom (ov.add x (ov.smul c v)) cs vs, H.add, H.smul]

/-- the state of the MGS model, carried over -/
def mapGm (s : GmSt K V) : GmSt K W := ⟨s.vs.map φ, s.cols, s.rcols, s.cs, s.sn, s.g, s.xs.map φ⟩

theorem gmresStep_hom (sqrt : K → K) (pos nz : K → Bool) (n : Nat) (x0 : V) (s : GmSt K V) :
    mapGm φ (gmresStep ov sqrt pos nz n x0 s) = gmresStep ow sqrt pos nz n (φ x0) (mapGm φ s) := by
  obtain ⟨h1, h2⟩ := arnoldiO_hom φ ov ow H sqrt pos s.vs (s.vs.getLast?.getD x0)
  simp only [gmresStep, mapGm, List.map_append, List.map_cons, List.map_nil, getLast_map]
  rw [h1, h2, combO_hom φ ov ow H]

theorem gmresInit_hom (sqrt : K → K) (b x0 : V) :
    mapGm φ (gmresInit ov sqrt b x0) = gmresInit ow sqrt (φ b) (φ x0) := by
  simp only [gmresInit, mapGm, List.map_cons, List.map_nil]
  rw [H.smul, H.M, H.sub, H.A, H.dot, H.M, H.sub, H.A]

theorem gmIter_hom (sqrt : K → K) (pos nz : K → Bool) (n : Nat) (b x0 : V) (k : Nat) :
    mapGm φ (iter (gmresStep ov sqrt pos nz n x0) k (gmresInit ov sqrt b x0)) =
      iter (gmresStep ow sqrt pos nz n (φ x0)) k (gmresInit ow sqrt (φ b) (φ x0)) := by
  have := iter_hom (gmresStep ov sqrt pos nz n x0) (gmresStep ow sqrt pos nz n (φ x0)) (mapGm φ)
    (gmresStep_hom φ ov ow H sqrt pos nz n x0) k (gmresInit ov sqrt b x0)
  rw [gmresInit_hom φ ov ow H] at this
  exact this

theorem gmresMgs_hom (sqrt : K → K) (pos nz : K → Bool) (n : Nat) (b x0 : V) (k : Nat) :
    (gmresMgs ov sqrt pos nz n b x0 k).map φ = gmresMgs ow sqrt pos nz n (φ b) (φ x0) k := by
  unfold gmresMgs
  rw [← gmIter_hom φ ov ow H]; rfl

theorem gmresRestartPt_hom (sqrt : K → K) (pos nz : K → Bool) (n : Nat) (b x0 : V) (r : Nat) :
    ∀ j, φ (gmresRestartPt ov sqrt pos nz n b x0 r j) = gmresRestartPt ow sqrt pos nz n (φ b) (φ x0) r j
  | 0 => rfl
  | j+1 => by
    simp only [gmresRestartPt]
    rw [← gmresRestartPt_hom sqrt pos nz n b x0 r j, ← gmresMgs_hom φ ov ow H, getLast_map]

theorem gmresRestart_hom (sqrt : K → K) (pos nz : K → Bool) (n : Nat) (b x0 : V) (r cycles : Nat) :
    (gmresRestart ov sqrt pos nz n b x0 r cycles).map φ = gmresRestart ow sqrt pos nz n (φ b) (φ x0) r cycles := by
  unfold gmresRestart
  rw [List.map_flatMap]
  congr 1
  funext j
  rw [gmresMgs_hom φ ov ow H, gmresRestartPt_hom φ ov ow H]
end mgs

section hh
variable (φ : V → W) (hv : HOps K V) (hw : HOps K W) (H : HOpsHom φ hv hw)
include H

theorem reflO_hom (w z : V) : φ (reflO hv.o w z) = reflO hw.o (φ w) (φ z) := by
  simp only [reflO]
  rw [H.o.add, H.o.smul, H.o.dot]

theorem applyHH_hom : ∀ (ws : List V) (z : V), φ (applyHH hv.o ws z) = applyHH hw.o (ws.map φ) (φ z)
  | [], _ => rfl
  | w :: ws, z => by
    simp only [applyHH, List.foldl_cons, List.map_cons]
    rw [← reflO_hom φ hv hw H]
    exact applyHH_hom ws _

theorem newReflO_hom (sqrt sgn : K → K) (i : Nat) (t : V) (nrm : K) :
    φ (newReflO hv sqrt sgn i t nrm).1 = (newReflO hw sqrt sgn i (φ t) nrm).1 ∧
    (newReflO hv sqrt sgn i t nrm).2 = (newReflO hw sqrt sgn i (φ t) nrm).2 := by
  simp only [newReflO]
  rw [H.o.smul, H.o.add, H.o.smul, H.basis, H.o.dot, H.o.add, H.o.smul, H.basis, H.get]
  exact ⟨rfl, rfl⟩

theorem hhDir_hom (prev : V → V) (prew : W → W) (hp : ∀ v, φ (prev v) = prew (φ v)) (ws : List V) (k : Nat)
    (x0 : V) : φ (hhDir hv prev ws k x0) = hhDir hw prew (ws.map φ) k (φ x0) := by
  simp only [hhDir]
  rw [hp, applyHH_hom φ hv hw H, H.o.add, H.o.smul, H.basis, H.get, getLast_map, List.map_reverse, List.map_take]

theorem hhCol_hom (sqrt sgn : K → K) (nz : K → Bool) (n k : Nat) (v : V) :
    φ (hhCol hv sqrt sgn nz n k v).1 = (hhCol hw sqrt sgn nz n k (φ v)).1 ∧
    (hhCol hv sqrt sgn nz n k v).2 = (hhCol hw sqrt sgn nz n k (φ v)).2 := by
  obtain ⟨h1, h2⟩ := newReflO_hom φ hv hw H sqrt sgn (k + 1) (hv.tail (k + 1) v)
    (sqrt (hv.o.dot (hv.tail (k + 1) v) (hv.tail (k + 1) v)))
  rw [H.tail, H.o.dot, H.tail] at h1 h2
  have hget : (fun i => hv.get v i) = fun i => hw.get (φ v) i := funext (H.get v)
  simp only [hhCol]
  rw [H.o.dot, H.tail]
  cases (!(k + 1 == n) && nz (sqrt (hw.o.dot (hw.tail (k + 1) (φ v)) (hw.tail (k + 1) (φ v)))))
  · simp only [Bool.false_eq_true, if_false]
    refine ⟨by rw [H.o.smul, H.tail], ?_⟩
    rw [H.get v (k + 1)]
    congr 2
  · simp only [if_true]
    refine ⟨h1, ?_⟩
    rw [h2]; congr 2

theorem hhArnoldi_hom (sqrt sgn : K → K) (nz : K → Bool) (n : Nat) (prev opv : V → V) (prew opw : W → W)
    (hp : ∀ v, φ (prev v) = prew (φ v)) (hop : ∀ v, φ (opv v) = opw (φ v)) (ws : List V) (k : Nat) (x0 : V) :
    φ (hhArnoldi hv sqrt sgn nz n prev opv ws k x0).z = (hhArnoldi hw sqrt sgn nz n prew opw (ws.map φ) k (φ x0)).z ∧
    φ (hhArnoldi hv sqrt sgn nz n prev opv ws k x0).w = (hhArnoldi hw sqrt sgn nz n prew opw (ws.map φ) k (φ x0)).w ∧
    (hhArnoldi hv sqrt sgn nz n prev opv ws k x0).col = (hhArnoldi hw sqrt sgn nz n prew opw (ws.map φ) k (φ x0)).col := by
  have hz := hhDir_hom φ hv hw H prev prew hp ws k x0
  obtain ⟨h1, h2⟩ := hhCol_hom φ hv hw H sqrt sgn nz n k (applyHH hv.o ws (opv (hhDir hv prev ws k x0)))
  rw [applyHH_hom φ hv hw H, hop, hz] at h1 h2
  exact ⟨hz, h1, h2⟩

theorem hornerO_hom (zero : V) : ∀ (j : Nat) (ws : List V) (ys : List K),
    φ (hornerO hv zero j ws ys) = hornerO hw (φ zero) j (ws.map φ) ys
  | _, [], _ => by simp [hornerO]
  | _, _ :: _, [] => by simp [hornerO]
  | j, w :: ws, y :: ys => by
    simp only [hornerO, List.map_cons]
    rw [reflO_hom φ hv hw H, H.o.add, H.o.smul, H.basis, hornerO_hom zero (j + 1) ws ys]

/-- the state of the Householder models, carried over -/
def mapHh (s : HhSt K V) : HhSt K W := ⟨s.ws.map φ, s.zs.map φ, s.cols, s.rcols, s.cs, s.sn, s.g, s.xs.map φ⟩

theorem hhInit_hom (sqrt sgn : K → K) (r : V) : mapHh φ (hhInit hv sqrt sgn r) = hhInit hw sqrt sgn (φ r) := by
  obtain ⟨h1, h2⟩ := newReflO_hom φ hv hw H sqrt sgn 0 r (sqrt (hv.o.dot r r))
  rw [H.o.dot] at h1 h2
  simp only [hhInit, mapHh, List.map_cons, List.map_nil]
  rw [H.o.dot, h1, h2]

theorem fgStep_hom (sqrt sgn : K → K) (nz : K → Bool) (n : Nat) (prev : Nat → V → V) (prew : Nat → W → W)
    (hp : ∀ j v, φ (prev j v) = prew j (φ v)) (x0 : V) (s : HhSt K V) :
    mapHh φ (fgStep hv sqrt sgn nz n prev x0 s) = fgStep hw sqrt sgn nz n prew (φ x0) (mapHh φ s) := by
  obtain ⟨h1, h2, h3⟩ := hhArnoldi_hom φ hv hw H sqrt sgn nz n (prev s.cols.length) hv.o.A (prew s.cols.length)
    hw.o.A (hp s.cols.length) H.o.A s.ws s.cols.length x0
  simp only [fgStep, mapHh, List.map_append, List.map_cons, List.map_nil]
  rw [h1, h2, h3, combO_hom φ hv.o hw.o H.o]
  simp only [List.map_append, List.map_cons, List.map_nil, h1]

theorem fgIter_hom (sqrt sgn : K → K) (nz : K → Bool) (n : Nat) (prev : Nat → V → V) (prew : Nat → W → W)
    (hp : ∀ j v, φ (prev j v) = prew j (φ v)) (b x0 : V) (k : Nat) :
    mapHh φ (iter (fgStep hv sqrt sgn nz n prev x0) k (hhInit hv sqrt sgn (hv.o.sub b (hv.o.A x0)))) =
      iter (fgStep hw sqrt sgn nz n prew (φ x0)) k (hhInit hw sqrt sgn (hw.o.sub (φ b) (hw.o.A (φ x0)))) := by
  have := iter_hom (fgStep hv sqrt sgn nz n prev x0) (fgStep hw sqrt sgn nz n prew (φ x0)) (mapHh φ)
    (fgStep_hom φ hv hw H sqrt sgn nz n prev prew hp x0) k (hhInit hv sqrt sgn (hv.o.sub b (hv.o.A x0)))
  rw [hhInit_hom φ hv hw H, H.o.sub, H.o.A] at this
  exact this

theorem fgmresHh_hom (sqrt sgn : K → K) (nz : K → Bool) (n : Nat) (prev : Nat → V → V) (prew : Nat → W → W)
    (hp : ∀ j v, φ (prev j v) = prew j (φ v)) (b x0 : V) (k : Nat) :
    (fgmresHh hv sqrt sgn nz n prev b x0 k).map φ = fgmresHh hw sqrt sgn nz n prew (φ b) (φ x0) k := by
  unfold fgmresHh
  rw [← fgIter_hom φ hv hw H sqrt sgn nz n prev prew hp]; rfl

theorem ghStep_hom (sqrt sgn : K → K) (nz : K → Bool) (n : Nat) (x0 : V) (s : HhSt K V) :
    mapHh φ (ghStep hv sqrt sgn nz n x0 s) = ghStep hw sqrt sgn nz n (φ x0) (mapHh φ s) := by
  obtain ⟨h1, h2, h3⟩ := hhArnoldi_hom φ hv hw H sqrt sgn nz n (fun v => v) (fun v => hv.o.M (hv.o.A v))
    (fun v => v) (fun v => hw.o.M (hw.o.A v)) (fun _ => rfl) (fun v => by rw [H.o.M, H.o.A]) s.ws s.cols.length x0
  simp only [ghStep, mapHh, List.map_append, List.map_cons, List.map_nil]
  rw [h1, h2, h3, H.o.add, hornerO_hom φ hv hw H, H.o.smul]

theorem ghIter_hom (sqrt sgn : K → K) (nz : K → Bool) (n : Nat) (b x0 : V) (k : Nat) :
    mapHh φ (iter (ghStep hv sqrt sgn nz n x0) k (hhInit hv sqrt sgn (hv.o.M (hv.o.sub b (hv.o.A x0))))) =
      iter (ghStep hw sqrt sgn nz n (φ x0)) k (hhInit hw sqrt sgn (hw.o.M (hw.o.sub (φ b) (hw.o.A (φ x0))))) := by
  have := iter_hom (ghStep hv sqrt sgn nz n x0) (ghStep hw sqrt sgn nz n (φ x0)) (mapHh φ)
    (ghStep_hom φ hv hw H sqrt sgn nz n x0) k (hhInit hv sqrt sgn (hv.o.M (hv.o.sub b (hv.o.A x0))))
  rw [hhInit_hom φ hv hw H, H.o.M, H.o.sub, H.o.A] at this
  exact this

theorem gmresHh_hom (sqrt sgn : K → K) (nz : K → Bool) (n : Nat) (b x0 : V) (k : Nat) :
    (gmresHh hv sqrt sgn nz n b x0 k).map φ = gmresHh hw sqrt sgn nz n (φ b) (φ x0) k := by
  unfold gmresHh
  rw [← ghIter_hom φ hv hw H]; rfl
end hh

end PyamgV.C07
