import PyamgV.Proofs.Mis

/-! PyamgV: the "parallel" (Luby-style, in-place sweep) MIS kernel `maximal_independent_set_parallel`.
Partial correctness for arbitrary weights: whenever the loop stops with no active node, the set
is independent and maximal. Core only. -/
namespace PyamgV

variable {W : Type} [LT W] [DecidableRel (α := W) (· < ·)] [DecidableEq W]

/-- neighbour scan of node `i`: `some true` = C neighbour found (i becomes F),
`some false` = blocked by a larger active neighbour, `none` = reached the end of the row -/
def scanP (act C : Int) (x : Array Int) (y : Nat → W) (i : Nat) : List Nat → Option Bool
  | [] => none
  | j :: js =>
    if rd x j = C then some true
    else if rd x j = act then
      if y i < y j then some false
      else if y j = y i ∧ j > i then some false
      else scanP act C x y i js
    else scanP act C x y i js

theorem scanP_true {act C : Int} {x : Array Int} {y : Nat → W} {i : Nat} :
    ∀ l, scanP act C x y i l = some true → ∃ j ∈ l, rd x j = C := by
  intro l; induction l with
  | nil => simp [scanP]
  | cons j js ih =>
    simp only [scanP]
    split
    · intro _; exact ⟨j, by simp, by assumption⟩
    · split
      · split
        · simp
        · split
          · simp
          · intro h; obtain ⟨k, hk, hc⟩ := ih h; exact ⟨k, by simp [hk], hc⟩
      · intro h; obtain ⟨k, hk, hc⟩ := ih h; exact ⟨k, by simp [hk], hc⟩

theorem scanP_none {act C : Int} {x : Array Int} {y : Nat → W} {i : Nat} :
    ∀ l, scanP act C x y i l = none → ∀ j ∈ l, rd x j ≠ C := by
  intro l; induction l with
  | nil => simp
  | cons j js ih =>
    simp only [scanP]
    split
    · simp
    · rename_i hj
      split
      · split
        · simp
        · split
          · simp
          · intro h k hk; rcases List.mem_cons.1 hk with rfl | hk
            · exact hj
            · exact ih h k hk
      · intro h k hk; rcases List.mem_cons.1 hk with rfl | hk
        · exact hj
        · exact ih h k hk

/-- processing of one node during a pass -/
def parStep (G : Graph) (act C F : Int) (y : Nat → W) (x : Array Int) (i : Nat) : Array Int :=
  if rd x i ≠ act then x else
    match scanP act C x y i (G.adj i) with
    | some true => wr x i F
    | some false => x
    | none => wr (misInner act F x (G.adj i)) i C

def parPass (G : Graph) (act C F : Int) (y : Nat → W) (x : Array Int) : Array Int :=
  (List.range G.n).foldl (parStep G act C F y) x

/-- the invariant kept by every step of every pass (no reference to the weights) -/
structure PInv (G : Graph) (act C F : Int) (x : Array Int) : Prop where
  size : x.size = G.n
  vals : ∀ i, i < G.n → rd x i = act ∨ rd x i = C ∨ rd x i = F
  cnb  : ∀ i, i < G.n → rd x i = C → ∀ j ∈ G.adj i, j ≠ i → rd x j = F
  fnb  : ∀ j, j < G.n → rd x j = F → ∃ i ∈ G.adj j, i ≠ j ∧ rd x i = C

theorem parStep_inv (G : Graph) (hG : GraphOK G) (act C F : Int)
    (hCA : C ≠ act) (hFA : F ≠ act) (hCF : C ≠ F) (y : Nat → W)
    (k : Nat) (hk : k < G.n) (x : Array Int) (h : PInv G act C F x) :
    PInv G act C F (parStep G act C F y x k) := by
  unfold parStep
  by_cases hx : rd x k ≠ act
  · simp only [hx, ne_eq, not_false_eq_true, if_true]; exact h
  · have hxk : rd x k = act := by simpa using hx
    simp only [hxk, ne_eq, not_true_eq_false, if_false]
    have hks : k < x.size := by rw [h.size]; exact hk
    cases hs : scanP act C x y k (G.adj k) with
    | some b =>
      cases b with
      | false => exact h
      | true =>
        -- k becomes F because a C neighbour exists
        obtain ⟨j, hj, hjC⟩ := scanP_true _ hs
        have hjk : j ≠ k := by intro e; subst e; rw [hxk] at hjC; exact hCA hjC.symm
        have hnew : ∀ m, rd (wr x k F) m = if m = k then F else rd x m := by
          intro m; rw [rd_wr]
          by_cases hmk : k = m
          · subst hmk; simp [hks]
          · have : m ≠ k := fun e => hmk e.symm
            simp [hmk, this]
        refine ⟨by simp [h.size], ?_, ?_, ?_⟩
        · intro i hi; rw [hnew]; split
          · exact Or.inr (Or.inr rfl)
          · exact h.vals i hi
        · intro i hi hiC j' hj' hji
          rw [hnew] at hiC
          have hik : i ≠ k := by intro e; subst e; simp at hiC; exact hCF hiC.symm
          simp only [hik, if_false] at hiC
          rw [hnew]; split
          · rfl
          · exact h.cnb i hi hiC j' hj' hji
        · intro j' hj' hjF
          rw [hnew] at hjF
          by_cases hjk' : j' = k
          · subst hjk'
            refine ⟨j, hj, hjk, ?_⟩
            rw [hnew]; simp [hjk, hjC]
          · simp only [hjk', if_false] at hjF
            obtain ⟨i, hi, hij, hiC⟩ := h.fnb j' hj' hjF
            have hik : i ≠ k := by intro e; subst e; rw [hxk] at hiC; exact hCA hiC.symm
            exact ⟨i, hi, hij, by rw [hnew]; simp [hik, hiC]⟩
    | none =>
      -- no C neighbour: k becomes C, active neighbours become F
      have hnoC := scanP_none _ hs
      have hb : ∀ j ∈ G.adj k, j < x.size := by
        intro j hj; rw [h.size]; exact hG.bound k hk j hj
      obtain ⟨hsz, hsp⟩ := misInner_spec act F hFA (G.adj k) x hb
      have hnew : ∀ m, rd (wr (misInner act F x (G.adj k)) k C) m =
          if m = k then C else if m ∈ G.adj k ∧ rd x m = act then F else rd x m := by
        intro m; rw [rd_wr, hsz]
        by_cases hmk : k = m
        · subst hmk; simp [hks]
        · have : m ≠ k := fun e => hmk e.symm
          simp only [hmk, false_and, if_false, this]; exact hsp m
      refine ⟨by simp [hsz, h.size], ?_, ?_, ?_⟩
      · intro i hi; rw [hnew]
        split
        · exact Or.inr (Or.inl rfl)
        · split
          · exact Or.inr (Or.inr rfl)
          · exact h.vals i hi
      · intro i hi hiC j hj hji
        rw [hnew] at hiC
        have hjn : j < G.n := hG.bound i hi j hj
        by_cases hik : i = k
        · subst hik
          rw [hnew]; simp only [hji, if_false]
          by_cases hja : rd x j = act
          · simp [hj, hja]
          · simp only [hja, and_false, if_false]
            rcases h.vals j hjn with h1 | h1 | h1
            · exact absurd h1 hja
            · exact absurd h1 (hnoC j hj)
            · exact h1
        · simp only [hik, if_false] at hiC
          have hiC' : rd x i = C := by
            split at hiC
            · exact absurd hiC.symm hCF
            · exact hiC
          have hjF := h.cnb i hi hiC' j hj hji
          have hjk : j ≠ k := by intro e; subst e; rw [hxk] at hjF; exact hFA hjF.symm
          rw [hnew]; simp only [hjk, if_false]
          rw [hjF]; simp [hFA]
      · intro j hj hjF
        rw [hnew] at hjF
        by_cases hjk : j = k
        · subst hjk; simp at hjF; exact absurd hjF hCF
        · simp only [hjk, if_false] at hjF
          by_cases hc : j ∈ G.adj k ∧ rd x j = act
          · refine ⟨k, (hG.symm k j hk hj).1 hc.1, fun e => hjk e.symm, ?_⟩
            rw [hnew]; simp
          · simp only [hc, if_false] at hjF
            obtain ⟨i, hi, hij, hiC⟩ := h.fnb j hj hjF
            have hik : i ≠ k := by intro e; subst e; rw [hxk] at hiC; exact hCA hiC.symm
            refine ⟨i, hi, hij, ?_⟩
            rw [hnew]; simp only [hik, if_false]
            rw [hiC]; simp [hCA]

theorem parPass_inv (G : Graph) (hG : GraphOK G) (act C F : Int)
    (hCA : C ≠ act) (hFA : F ≠ act) (hCF : C ≠ F) (y : Nat → W) (x : Array Int)
    (h : PInv G act C F x) : PInv G act C F (parPass G act C F y x) := by
  unfold parPass
  exact foldl_range_inv (fun _ s => PInv G act C F s) _ G.n x h
    (fun k s hk hp => parStep_inv G hG act C F hCA hFA hCF y k hk s hp)

/-- iterate passes -/
def parIter (G : Graph) (act C F : Int) (y : Nat → W) : Nat → Array Int → Array Int
  | 0, x => x
  | k+1, x => parIter G act C F y k (parPass G act C F y x)

/-- **Partial correctness, any weights, any number of passes**: if after `k` passes no node is
active any more, the C nodes form an independent set and every other node has a C neighbour. -/
theorem misParallel_correct (G : Graph) (hG : GraphOK G) (act C F : Int)
    (hCA : C ≠ act) (hFA : F ≠ act) (hCF : C ≠ F) (y : Nat → W)
    (x0 : Array Int) (hsz : x0.size = G.n) (hact : ∀ i, i < G.n → rd x0 i = act) (k : Nat) :
    let x := parIter G act C F y k x0
    (∀ i, i < G.n → rd x i ≠ act) →
    (∀ i j, i < G.n → j ∈ G.adj i → j ≠ i → rd x i = C → rd x j ≠ C) ∧
    (∀ i, i < G.n → rd x i = C ∨ (rd x i = F ∧ ∃ j ∈ G.adj i, j ≠ i ∧ rd x j = C)) := by
  intro x hdone
  have h0 : PInv G act C F x0 := by
    refine ⟨hsz, fun i hi => Or.inl (hact i hi), ?_, ?_⟩
    · intro i hi h; rw [hact i hi] at h; exact absurd h.symm hCA
    · intro j hj h; rw [hact j hj] at h; exact absurd h.symm hFA
  have hk : ∀ k x, PInv G act C F x → PInv G act C F (parIter G act C F y k x) := by
    intro k; induction k with
    | zero => intro x h; exact h
    | succ k ih => intro x h; exact ih _ (parPass_inv G hG act C F hCA hFA hCF y x h)
  have hinv := hk k x0 h0
  constructor
  · intro i j hi hj hji hiC hjC
    have := hinv.cnb i hi hiC j hj hji
    rw [hjC] at this; exact hCF this
  · intro i hi
    rcases hinv.vals i hi with h | h | h
    · exact absurd h (hdone i hi)
    · exact Or.inl h
    · exact Or.inr ⟨h, hinv.fnb i hi h⟩

#print axioms misParallel_correct
end PyamgV
