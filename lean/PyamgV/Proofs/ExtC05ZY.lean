import PyamgV.Proofs.ExtC05ZYCheck
import PyamgV.Proofs.ExtC05ZSpd

/-! PyamgV (C05, extension E47): **the executed extended model `denseMY` on hierarchies whose smoothers are those of the first
cycle model is `denseM`** (`denseMY_base`), hence **flag `True`, `c05Check`, `c05SpdCheck` on the projected hierarchy ⇒ the
matrix `denseMY` the driver computes (`ext_c05y_cyc`) is symmetric positive definite** (`flag_denseMY_spd_checked`). -/
namespace PyamgV.C05Z
open PyamgV PyamgV.C05 PyamgV.C05Y PyamgV.K Finset

section model
variable {α : Type} [Add α] [Sub α] [Mul α] [Div α] [OfNat α 0] [OfNat α 1] [DecidableEq α]

theorem toBase_spec (L : LvlY α) (L' : Lvl α) (h : toBase L = some L') :
    ∃ s t, L.pre = .base s ∧ L.post = .base t ∧ L' = ⟨L.A, L.P, L.R, L.C, s, t⟩ := by
  unfold toBase at h
  cases hp : L.pre with
  | ext f sw k => rw [hp] at h; simp [baseSm] at h
  | base s =>
    cases hq : L.post with
    | ext f sw k => rw [hp, hq] at h; simp [baseSm] at h
    | base t =>
      rw [hp, hq] at h
      simp only [baseSm] at h
      exact ⟨s, t, rfl, rfl, (Option.some.inj h).symm⟩

theorem toBaseH_cons (L : LvlY α) (rest : List (LvlY α)) (Ls' : List (Lvl α)) (h : toBaseH (L :: rest) = some Ls') :
    ∃ L' r, toBase L = some L' ∧ toBaseH rest = some r ∧ Ls' = L' :: r := by
  simp only [toBaseH] at h
  cases h1 : toBase L with
  | none => rw [h1] at h; simp at h
  | some L' =>
    cases h2 : toBaseH rest with
    | none => rw [h1, h2] at h; simp at h
    | some r =>
      rw [h1, h2] at h
      exact ⟨L', r, rfl, rfl, (Option.some.inj h).symm⟩

end model

section field
variable {R : Type} [Field R] [LinearOrder R] [IsStrictOrderedRing R] [DecidableEq R]
set_option linter.unusedSectionVars false

/-- the coarse-grid part of `solveLvlY` -/
def coarseStepY (ofRat : Rat → R) (conj : R → R) (Ac : Csr R) (c : Cyc) (rest : List (LvlY R)) (cb : Array R) :
    Option (Array R) :=
  match rest, c with
  | [], _ => solveLvlY ofRat conj Ac c rest (zeros cb.size) cb
  | _ :: _, .V => solveLvlY ofRat conj Ac .V rest (zeros cb.size) cb
  | _ :: _, .W => (solveLvlY ofRat conj Ac .W rest (zeros cb.size) cb).bind
      (fun c1 => solveLvlY ofRat conj Ac .W rest c1 cb)

theorem solveLvlY_cons (ofRat : Rat → R) (conj : R → R) (Ac : Csr R) (c : Cyc) (L : LvlY R) (rest : List (LvlY R))
    (x b : Array R) :
    solveLvlY ofRat conj Ac c (L :: rest) x b =
      (applySmY ofRat conj L.pre L.A L.C x b).bind (fun x1 =>
        (coarseStepY ofRat conj Ac c rest (C05.spmv L.R (C05.vsub b (C05.spmv L.A x1)))).bind (fun cx =>
          applySmY ofRat conj L.post L.A L.C (C05.vadd x1 (C05.spmv L.P cx)) b)) := by
  cases rest with
  | nil => cases c <;> rfl
  | cons L2 rest2 =>
    cases c with
    | V => rfl
    | W =>
      rw [solveLvlY]
      simp only [coarseStepY]
      cases applySmY ofRat conj L.pre L.A L.C x b with
      | none => rfl
      | some x1 =>
        simp only [Option.bind_eq_bind, Option.bind_some, bind]
        cases solveLvlY ofRat conj Ac Cyc.W (L2 :: rest2)
          (zeros (C05.spmv L.R (C05.vsub b (C05.spmv L.A x1))).size)
          (C05.spmv L.R (C05.vsub b (C05.spmv L.A x1))) <;> rfl

/-- **the recursion of the extended model over base smoothers is the recursion of the first model** -/
theorem solveLvlY_base (ofRat : Rat → R) (conj : R → R) (Ac : Csr R) :
    ∀ (Ls : List (LvlY R)) (Ls' : List (Lvl R)), toBaseH Ls = some Ls' → ∀ (c : Cyc) (x b : Array R),
      solveLvlY ofRat conj Ac c Ls x b = solveLvl ofRat Ac c Ls' x b := by
  intro Ls
  induction Ls with
  | nil =>
    intro Ls' h c x b
    have : Ls' = [] := by simpa [toBaseH] using h.symm
    subst this
    rfl
  | cons L rest ih =>
    intro Ls' h c x b
    obtain ⟨L', r, h1, h2, rfl⟩ := toBaseH_cons L rest Ls' h
    obtain ⟨s, t, hp, hq, rfl⟩ := toBase_spec L L' h1
    have ihr := ih r h2
    have e1 : ∀ y, applySmY ofRat conj L.pre L.A L.C y b = some (applySm ofRat s L.A L.C y b) := by
      intro y; rw [hp]; rfl
    have e2 : ∀ y, applySmY ofRat conj L.post L.A L.C y b = some (applySm ofRat t L.A L.C y b) := by
      intro y; rw [hq]; rfl
    have hcs : ∀ cb, coarseStepY ofRat conj Ac c rest cb = coarseStep ofRat Ac c r cb := by
      intro cb
      cases rest with
      | nil =>
        have hr : r = [] := by simpa [toBaseH] using h2.symm
        subst hr
        cases c with
        | V => exact ihr .V (zeros cb.size) cb
        | W => exact ihr .W (zeros cb.size) cb
      | cons L2 rest2 =>
        obtain ⟨L2', r2, _, _, hr⟩ := toBaseH_cons L2 rest2 r h2
        subst hr
        cases c with
        | V => exact ihr .V (zeros cb.size) cb
        | W =>
          show (solveLvlY ofRat conj Ac .W (L2 :: rest2) (zeros cb.size) cb).bind
              (fun c1 => solveLvlY ofRat conj Ac .W (L2 :: rest2) c1 cb) =
            (solveLvl ofRat Ac .W (L2' :: r2) (zeros cb.size) cb).bind
              (fun c1 => solveLvl ofRat Ac .W (L2' :: r2) c1 cb)
          rw [ihr]
          congr 1
          funext c1
          exact ihr _ _ _
    rw [solveLvlY_cons, solveLvl_cons, e1, Option.bind_some, hcs]
    show (coarseStep ofRat Ac c r (C05.spmv L.R (C05.vsub b (C05.spmv L.A (applySm ofRat s L.A L.C x b))))).bind _ =
      (coarseStep ofRat Ac c r (C05.spmv L.R (C05.vsub b (C05.spmv L.A (applySm ofRat s L.A L.C x b))))).bind _
    congr 1
    funext cx
    exact e2 _

/-- **`denseMY` over base smoothers is `denseM` of the projected hierarchy** -/
theorem denseMY_base (ofRat : Rat → R) (conj : R → R) (Ac : Csr R) (c : Cyc) (Ls : List (LvlY R)) (Ls' : List (Lvl R))
    (h : toBaseH Ls = some Ls') : denseMY ofRat conj Ac c Ls = denseM ofRat Ac c Ls' := by
  have hf : ∀ n j, solveLvlY ofRat conj Ac c Ls (zeros n) (C05.unit n j) = solveLvl ofRat Ac c Ls' (zeros n) (C05.unit n j) :=
    fun n j => solveLvlY_base ofRat conj Ac Ls Ls' h c _ _
  cases Ls with
  | nil =>
    have : Ls' = [] := by simpa [toBaseH] using h.symm
    subst this
    show ((List.range Ac.n).mapM (fun j => solveLvlY ofRat conj Ac c [] (zeros Ac.n) (C05.unit Ac.n j))).map (mOfCols Ac.n) =
      ((List.range Ac.n).mapM (fun j => solveLvl ofRat Ac c [] (zeros Ac.n) (C05.unit Ac.n j))).map (mOfCols Ac.n)
    congr 2
  | cons L rest =>
    obtain ⟨L', r, h1, _, rfl⟩ := toBaseH_cons L rest Ls' h
    obtain ⟨s, t, _, _, rfl⟩ := toBase_spec L L' h1
    show ((List.range L.A.n).mapM (fun j => solveLvlY ofRat conj Ac c (L :: rest) (zeros L.A.n) (C05.unit L.A.n j))).map
        (mOfCols L.A.n) =
      ((List.range L.A.n).mapM (fun j => solveLvl ofRat Ac c (⟨L.A, L.P, L.R, L.C, s, t⟩ :: r) (zeros L.A.n)
        (C05.unit L.A.n j))).map (mOfCols L.A.n)
    congr 2
    funext j
    exact hf _ j


/-- **C05 with the definiteness clause for the executed EXTENDED model** on hierarchies whose installed smoothers are those
of the first cycle model: flag `True`, `c05Check = true` and `c05SpdCheck = true` on the projected hierarchy ⇒ the matrix
`denseMY` (V- and W-cycle) is symmetric and `xᵀ M x > 0` for every `x ≠ 0` -/
theorem flag_denseMY_spd_checked (isPos : R → Bool) (hpos : ∀ z, isPos z = true → 0 < z) (ofRat : Rat → R)
    (hof : ∀ q, ofRat q = (q : R)) (conj : R → R) (pre post : List Cfg) (Ac : K.Csr R) (Ls : List (LvlY R))
    (Ls' : List (Lvl R)) (hbase : toBaseH Ls = some Ls')
    (hflag : flag pre post Ls'.length = some true)
    (hchk : c05Check id pre post Ac Ls' = true)
    (hspd : c05SpdCheck isPos ofRat Ac Ls' = true)
    (c : Cyc) (M : Mat R) (h : denseMY ofRat conj Ac c Ls = some M) :
    M.size = topSize Ac Ls' ∧
    (∀ i j, i < topSize Ac Ls' → j < topSize Ac Ls' → mget M i j = mget M j i) ∧
    ∀ x : Nat → R, (∃ j, j < topSize Ac Ls' ∧ x j ≠ 0) →
      0 < ∑ i ∈ range (topSize Ac Ls'), ∑ j ∈ range (topSize Ac Ls'), x i * mget M i j * x j := by
  rw [denseMY_base ofRat conj Ac c Ls Ls' hbase] at h
  exact flag_denseM_spd_checked isPos hpos ofRat hof pre post Ac Ls' hflag hchk hspd c M h

/-- the instance the driver runs (`ext_c05z_spdy r`, `ext_c05y_cyc r`): `ℚ`, `ofRat = id`, `conj = id`, `isPos = posR` -/
theorem flag_denseMY_spd_checked_rat (pre post : List Cfg) (Ac : K.Csr ℚ) (Ls : List (LvlY ℚ))
    (Ls' : List (Lvl ℚ)) (hbase : toBaseH Ls = some Ls')
    (hflag : flag pre post Ls'.length = some true)
    (hchk : c05Check id pre post Ac Ls' = true)
    (hspd : c05SpdCheck posR id Ac Ls' = true)
    (c : Cyc) (M : Mat ℚ) (h : denseMY id id Ac c Ls = some M) :
    M.size = topSize Ac Ls' ∧
    (∀ i j, i < topSize Ac Ls' → j < topSize Ac Ls' → mget M i j = mget M j i) ∧
    ∀ x : Nat → ℚ, (∃ j, j < topSize Ac Ls' ∧ x j ≠ 0) →
      0 < ∑ i ∈ range (topSize Ac Ls'), ∑ j ∈ range (topSize Ac Ls'), x i * mget M i j * x j :=
  flag_denseMY_spd_checked posR posR_pos id (fun q => (Rat.cast_id q).symm) id pre post Ac Ls Ls' hbase hflag hchk hspd c M h

end field

#print axioms denseMY_base
#print axioms flag_denseMY_spd_checked
#print axioms flag_denseMY_spd_checked_rat
end PyamgV.C05Z
