import PyamgV.Proofs.Energy
import Mathlib.Tactic.FieldSimp

/-! PyamgV (C09/C02/C16): the row step of `gauss_seidel_ne` (Kaczmarz) and the column step of
`gauss_seidel_nr` are damped orthogonal projections in the Euclidean form:

* NE: `x += ω (b_i − ⟨a_i, x⟩) D_inv[i] · a_iᴴ` with `D_inv[i] = 1/⟨a_i,a_i⟩`; the error
  `err = x* − x` becomes `err − (ω⟨a_i,err⟩/⟨a_i,a_i⟩) a_i`;
* NR: `x_i += δ`, `r −= δ A e_i` with `δ = ω ⟨A e_i, r⟩ / ⟨A e_i, A e_i⟩`; the residual becomes
  `r − (ω⟨c_i,r⟩/⟨c_i,c_i⟩) c_i`, `c_i = A e_i`.

Both are the statement below with `a := a_i, v := err` resp. `a := c_i, v := r`. -/
namespace PyamgV

variable {K : Type*} [Field K] [LinearOrder K] [IsStrictOrderedRing K]
variable {V : Type*} [AddCommGroup V] [Module K V]

theorem proj_step_energy (e : EForm K V) (a v : V) (ω : K) (haa : e.a a a ≠ 0) :
    e.en (v - (ω * e.a a v / e.a a a) • a) =
      e.en v - ω * (2 - ω) * (e.a a v * e.a a v / e.a a a) := by
  unfold EForm.en
  simp only [map_sub, map_smul, LinearMap.sub_apply, LinearMap.smul_apply, smul_eq_mul]
  rw [e.symm v a]
  field_simp
  ring

/-- for `0 ≤ ω ≤ 2` the step does not increase the Euclidean norm (of the error for NE, of the
residual for NR) -/
theorem proj_step_nonexp (e : EForm K V) (a v : V) (ω : K) (h0 : 0 ≤ ω) (h2 : ω ≤ 2)
    (haa : e.a a a ≠ 0) :
    e.en (v - (ω * e.a a v / e.a a a) • a) ≤ e.en v := by
  rw [proj_step_energy e a v ω haa]
  have hpos : 0 < e.a a a := lt_of_le_of_ne (e.nonneg a) (Ne.symm haa)
  have h1 : 0 ≤ e.a a v * e.a a v / e.a a a := div_nonneg (mul_self_nonneg _) (le_of_lt hpos)
  have h3 : 0 ≤ ω * (2 - ω) := mul_nonneg h0 (by linarith)
  nlinarith [mul_nonneg h3 h1]

/-- the NE update written as the kernel computes it: with `err = xs − x` and `⟨a, xs⟩ = b_i`,
`delta = (b_i − ⟨a,x⟩)·D_inv·ω` and `x' = x + delta • a`, the new error is the projected one -/
theorem ne_row_error (e : EForm K V) (a x xs : V) (bi ω : K) (hb : e.a a xs = bi) :
    xs - (x + ((bi - e.a a x) * (1 / e.a a a) * ω) • a) =
      (xs - x) - (ω * e.a a (xs - x) / e.a a a) • a := by
  rw [map_sub, hb]
  have : (bi - e.a a x) * (1 / e.a a a) * ω = ω * (bi - e.a a x) / e.a a a := by ring
  rw [this]; abel

#print axioms proj_step_nonexp
#print axioms ne_row_error
end PyamgV
