import PyamgV.Proofs.ExtPy3ClassicalBase
/-! PyamgV (extension E58, properties C13 / C11): theorems about the definitions GENERATED from the working tree by
`harness/py2lean3_classical.py` for the Python wrappers of pyamg/classical/split.py (`RS`, `PMIS`, `PMISc`, `CLJP`,
`CLJPc`, `MIS`, `_preprocess`) and pyamg/classical/interpolate.py (`direct_interpolation`, `classical_interpolation`,
`injection_interpolation`, `one_point_interpolation`), evaluated by the kernel on the finite scenario grids of
`Model/ExtPy3ClassicalWorlds.lean` (formats, sparse or not, every option value of the grid).  Each `*_refines_spec` says:
result / exception class and the WHOLE trace (every SciPy / NumPy operation, every call of another pyamg function, every
native kernel with the identity of each argument) are the specification's; the remaining theorems read the consequences
the hand-written wrapper models rely on off the runs themselves: which matrix each kernel receives (`S1` =
`remove_diagonal(S)` or its transpose `T1`; the working copy `Cc` / the recomputed `Cs` / the product `Cm`, never the
caller's `C`), that no event changes an argument object in place, that invalid input raises before any kernel runs.
A source edit inside the translated subset regenerates the definitions and these theorems are re-checked against what
the code says now; the real functions are compared with the same scenario runs on every run of the checks (driver op
`ext_py3_classical_grid`). -/
open PyamgV.ExtPy PyamgV.ExtPy2 PyamgV.ExtPy3Classical PyamgV.ExtPy3ClassicalW
namespace PyamgV.ExtPy3ClassicalP

/-! ## C13: pyamg/classical/split.py -/

set_option maxRecDepth 100000 in
theorem rs_grid_eq : gridRS.map runRS = gridRS.map expectedRS := by kernel_rfl
set_option maxRecDepth 100000 in
theorem cljp_grid_eq : gridCLJP.map runCLJP = gridCLJP.map expectedCLJP := by kernel_rfl
set_option maxRecDepth 100000 in
theorem mis_grid_eq : gridMIS.map runMIS = gridMIS.map expectedMIS := by kernel_rfl
set_option maxRecDepth 100000 in
theorem pmis_grid_eq : gridPMIS.map runPMIS = gridPMIS.map expectedPMIS := by kernel_rfl
set_option maxRecDepth 100000 in
theorem pmisc_grid_eq : gridPMISc.map runPMISc = gridPMISc.map expectedPMISc := by kernel_rfl
set_option maxRecDepth 100000 in
theorem cljpc_grid_eq : gridCLJPc.map runCLJPc = gridCLJPc.map expectedCLJPc := by kernel_rfl
set_option maxRecDepth 100000 in
theorem pre_grid_eq : gridPre.map runPre = gridPre.map expectedPre := by kernel_rfl

/-- the generated `RS` performs exactly the events of the specification: validation, `S1 = remove_diagonal(S)`,
`T1 = S1.T.tocsr()`, first pass on (S1, T1), second pass (only when `second_pass` is true) on S1 -/
theorem rs_refines_spec : ∀ sc ∈ gridRS, runRS sc = expectedRS sc := List.map_inj_left.mp rs_grid_eq
/-- the generated `CLJP`: the kernel receives (S1, T1), the fresh output array and `colorid` = 1 iff `color` is true -/
theorem cljp_refines_spec : ∀ sc ∈ gridCLJP, runCLJP sc = expectedCLJP sc := List.map_inj_left.mp cljp_grid_eq
/-- the generated `MIS`: diagonal removed, output pre-filled with -1, `maxiter=None` reaches the kernel as -1 -/
theorem mis_refines_spec : ∀ sc ∈ gridMIS, runMIS sc = expectedMIS sc := List.map_inj_left.mp mis_grid_eq
/-- the generated `PMIS`: `MIS` runs on the graph and weights `_preprocess` returned, then the Dirichlet post-processing -/
theorem pmis_refines_spec : ∀ k ∈ gridPMIS, runPMIS k = expectedPMIS k := List.map_inj_left.mp pmis_grid_eq
/-- the generated `PMISc`: the colouring method is handed to `_preprocess`; no Dirichlet post-processing -/
theorem pmisc_refines_spec : ∀ mk ∈ gridPMISc, runPMISc mk = expectedPMISc mk := List.map_inj_left.mp pmisc_grid_eq
/-- the generated `CLJPc` = `CLJP(remove_diagonal(S), color=True)` -/
theorem cljpc_refines_spec : ∀ u ∈ gridCLJPc, runCLJPc u = expectedCLJPc u := List.map_inj_left.mp cljpc_grid_eq
/-- the generated `_preprocess`: pattern copy, transpose, symmetrised graph filled with ones, weights from the row sums
of the TRANSPOSE plus random numbers (plus colour / number of colours) -/
theorem preprocess_refines_spec : ∀ sc ∈ gridPre, runPre sc = expectedPre sc := List.map_inj_left.mp pre_grid_eq

set_option maxRecDepth 100000 in
/-- MIS hands ANY `weights` value on to the kernel unchanged (position 8), on every scenario of the grid -/
theorem mis_any_weights (wts : PyVal) : gridMIS.map (fun sc => runMISG sc wts) = gridMIS.map (fun sc => expectedMISG sc wts) := by
  kernel_rfl

set_option maxRecDepth 100000 in
/-- PMISc hands ANY `method` value on to `_preprocess` as `coloring_method`, unchanged and unvalidated -/
theorem pmisc_any_method (method : PyVal) :
    [0, 1, 2].map (fun k => runPMIScG method k) = [0, 1, 2].map (fun k => expectedPMIScG method k) := by kernel_rfl

/-- the kernel calls the hand-written model `C13.rsSplit` assumes: `RS.run (prepS S) (prepT S)`, then
`RS.pass2 (prepS S) x` on the SAME splitting array -/
def rsKernelShape (second : Bool) : List (String × List PyVal) :=
  [("rs_cf_splitting", [dim0 "S1", o "S1.indptr", o "S1.indices", o "T1.indptr", o "T1.indices", o "influence", o "splitting"])] ++
  (if second then [("rs_cf_splitting_pass2", [dim0 "S1", o "S1.indptr", o "S1.indices", o "splitting"])] else [])

/-- `C13.cljpSplit`: `KCljp.run o (prepS S) (prepT S) ...` -/
def cljpKernelShape (color : Bool) : List (String × List PyVal) :=
  [("cljp_naive_splitting", [dim0 "S1", o "S1.indptr", o "S1.indices", o "T1.indptr", o "T1.indices", o "splitting",
                             .int (if color then 1 else 0)])]

set_option maxRecDepth 100000 in
theorem rs_kernels_eq : gridRS.map (fun sc => kernelCalls (runRS sc).2)
    = gridRS.map (fun sc => if sc.valid then rsKernelShape (pyTruthy sc.opt) else []) := by kernel_rfl

/-- RS: on valid input the native kernels are called in the shape of the model (first pass: S1 and its transpose T1;
second pass: S1 again, not T1, and the splitting the first pass wrote; `rs_refines_spec`: S1 = `remove_diagonal(S)`,
T1 = `S1.T.tocsr()`); on invalid input no kernel runs -/
theorem rs_kernel_calls : ∀ sc ∈ gridRS,
    kernelCalls (runRS sc).2 = (if sc.valid then rsKernelShape (pyTruthy sc.opt) else []) := List.map_inj_left.mp rs_kernels_eq

set_option maxRecDepth 100000 in
theorem cljp_kernels_eq : gridCLJP.map (fun sc => kernelCalls (runCLJP sc).2)
    = gridCLJP.map (fun sc => if sc.valid then cljpKernelShape (pyTruthy sc.opt) else []) := by kernel_rfl

/-- CLJP: the kernel receives S1 and its transpose T1 = `S1.T.tocsr()` (a separate object, never S1 twice) -/
theorem cljp_kernel_calls : ∀ sc ∈ gridCLJP,
    kernelCalls (runCLJP sc).2 = (if sc.valid then cljpKernelShape (pyTruthy sc.opt) else []) :=
  List.map_inj_left.mp cljp_kernels_eq

/-- the outcome of all split scenarios with the argument name of each -/
def splitRuns : List (String × Out) :=
  gridRS.map (fun sc => ("S", runRS sc)) ++ gridCLJP.map (fun sc => ("S", runCLJP sc)) ++ gridMIS.map (fun sc => ("G", runMIS sc)) ++
  gridPMIS.map (fun k => ("S", runPMIS k)) ++ gridPMISc.map (fun k => ("S", runPMISc k)) ++ gridCLJPc.map (fun u => ("S", runCLJPc u)) ++
  gridPre.map (fun sc => ("S", runPre sc))

set_option maxRecDepth 100000 in
theorem split_untouched_all : splitRuns.all (fun r => neverMutates r.1 r.2.2 && kernelsAvoid r.1 r.2.2) = true := by kernel_rfl

/-- no split wrapper changes the caller's matrix in place: no item / attribute assignment and no in-place method
targets the argument or one of its arrays, and no native kernel receives one of the argument's arrays (they get the
arrays of `remove_diagonal(S)` and of its transpose) -/
theorem split_argument_untouched : ∀ r ∈ splitRuns, (neverMutates r.1 r.2.2 && kernelsAvoid r.1 r.2.2) = true :=
  forall_of_all split_untouched_all

def MISvalid (sc : SplitSc) : Bool := sc.valid && (misMaxiter sc.opt).isSome
def PreValid (sc : PreSc) : Bool := sc.sparse && sc.fmt == "csr" && sc.cols == 5

set_option maxRecDepth 100000 in
theorem rs_invalid_eq : gridRS.map (fun sc => onInvalid sc.valid (brief (runRS sc)))
    = gridRS.map (fun sc => onInvalid sc.valid (.error "TypeError", [])) := by kernel_rfl
set_option maxRecDepth 100000 in
theorem cljp_invalid_eq : gridCLJP.map (fun sc => onInvalid sc.valid (brief (runCLJP sc)))
    = gridCLJP.map (fun sc => onInvalid sc.valid (.error "TypeError", [])) := by kernel_rfl
set_option maxRecDepth 100000 in
theorem mis_invalid_eq : gridMIS.map (fun sc => onInvalid (MISvalid sc) (brief (runMIS sc)))
    = gridMIS.map (fun sc => onInvalid (MISvalid sc) (.error (if sc.valid then "ValueError" else "TypeError"), [])) := by kernel_rfl
set_option maxRecDepth 100000 in
theorem pre_invalid_eq : gridPre.map (fun sc => onInvalid (PreValid sc) (runPre sc))
    = gridPre.map (fun sc => onInvalid (PreValid sc)
        (.error (if sc.sparse && sc.fmt == "csr" then "ValueError" else "TypeError"), [callEv "issparse" [o "S"] []])) := by kernel_rfl

/-- invalid input raises before anything is computed: a matrix that is not sparse CSR gives `TypeError` (RS, CLJP, MIS,
`_preprocess`), a negative `maxiter` gives `ValueError` (MIS), a non-square matrix gives `ValueError`
(`_preprocess`: nothing but the `issparse` test has happened); no native kernel has been called -/
theorem split_invalid_raises :
    (∀ sc ∈ gridRS, sc.valid = false → brief (runRS sc) = (.error "TypeError", [])) ∧
    (∀ sc ∈ gridCLJP, sc.valid = false → brief (runCLJP sc) = (.error "TypeError", [])) ∧
    (∀ sc ∈ gridMIS, MISvalid sc = false →
        brief (runMIS sc) = (.error (if sc.valid then "ValueError" else "TypeError"), [])) ∧
    (∀ sc ∈ gridPre, PreValid sc = false →
        runPre sc = (.error (if sc.sparse && sc.fmt == "csr" then "ValueError" else "TypeError"), [callEv "issparse" [o "S"] []])) :=
  ⟨fun sc h hv => of_onInvalid (List.map_inj_left.mp rs_invalid_eq sc h) hv,
   fun sc h hv => of_onInvalid (List.map_inj_left.mp cljp_invalid_eq sc h) hv,
   fun sc h hv => of_onInvalid (List.map_inj_left.mp mis_invalid_eq sc h) hv,
   fun sc h hv => of_onInvalid (List.map_inj_left.mp pre_invalid_eq sc h) hv⟩

end PyamgV.ExtPy3ClassicalP
