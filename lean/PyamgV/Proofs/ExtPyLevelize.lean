import PyamgV.Generated.PyLogic
import PyamgV.Proofs.ExtPyRtLemmas
import PyamgV.Model.C04Model
/-! PyamgV (extension E31, property C04): theorems about the definitions GENERATED from the working
tree by `harness/py2lean.py` for the option handling of the hierarchy loop:
`levelize_strength_or_aggregation`, `levelize_smooth_or_improve_candidates` (pyamg/util/utils.py) and
the `unpack_arg` helpers of all constructors.  Every statement is about
`PyamgV.Generated.PyLogic.*`, i.e. about what the source says now. -/
open PyamgV.ExtPy PyamgV.Generated.PyLogic
namespace PyamgV.ExtPyLev

/-! ### `unpack_arg` -/

/-- what every `unpack_arg(v)` helper is documented to do -/
def unpackSpec : PyVal → PyM PyVal
  | .tuple (a :: b :: _) => .ok (.tuple [a, b])
  | .tuple _ => raise "IndexError" "index out of range"
  | v => .ok (.tuple [v, .dict []])

theorem unpack_arg_spec (v : PyVal) : adaptive_unpack_arg v = unpackSpec v := by
  cases v <;> simp [adaptive_unpack_arg, unpackSpec, pyIsInst, PyVal.tyName]
  rename_i xs
  match xs with
  | [] => simp [raise_def]
  | [a] => simp [pyGetItem, PyVal.int?, normIdx, raise_def]
  | a :: b :: r => simp

/-- the nine copies of the helper (aggregation, root-node, pairwise, adaptive, classical, AIR,
coarse-grid solver, relaxation-as-operator, smoothing) are the same function -/
theorem unpack_arg_all_equal :
    sa_unpack_arg = adaptive_unpack_arg ∧ rootnode_unpack_arg = adaptive_unpack_arg ∧
    pairwise_unpack_arg = adaptive_unpack_arg ∧ classical_unpack_arg = adaptive_unpack_arg ∧
    air_unpack_arg = adaptive_unpack_arg ∧ multilevel_unpack_arg = adaptive_unpack_arg ∧
    relaxutils_unpack_arg = adaptive_unpack_arg ∧ smoothing_unpack_arg = adaptive_unpack_arg :=
  ⟨rfl, rfl, rfl, rfl, rfl, rfl, rfl, rfl⟩

theorem smoothing_unpack_arg_spec (v : PyVal) : smoothing_unpack_arg v = unpackSpec v :=
  unpack_arg_all_equal.2.2.2.2.2.2.2 ▸ unpack_arg_spec v

/-! ### `levelize_strength_or_aggregation` -/

/-- `x` is a tuple whose first entry equals `'predefined'` -/
def isPredef : PyVal → Bool
  | .tuple (h :: _) => pyEq h (.str "predefined")
  | _ => false

abbrev lsa := utils_levelize_strength_or_aggregation

/-- `('predefined', {...})`: one coarsening, whatever the limits were (even ill-typed ones) -/
theorem lsa_tuple_predef (h : PyVal) (rest : List PyVal) (ml mc : PyVal)
    (hp : pyEq h (.str "predefined") = true) :
    lsa (.tuple (h :: rest)) ml mc = .ok (.tuple [.int 2, .int 0, .list [.tuple (h :: rest)]]) := by
  simp [lsa, utils_levelize_strength_or_aggregation, pyIsInst, PyVal.tyName, hp]

/-- a tuple that is not predefined is the setting of every level: `max_levels - 1` copies -/
theorem lsa_tuple_plain (h : PyVal) (rest : List PyVal) (m : Int) (mc : PyVal)
    (hp : pyEq h (.str "predefined") = false) :
    lsa (.tuple (h :: rest)) (.int m) mc
      = .ok (.tuple [.int m, mc, .list (List.replicate (m - 1).toNat (.tuple (h :: rest)))]) := by
  simp [lsa, utils_levelize_strength_or_aggregation, pyIsInst, PyVal.tyName, hp]

theorem lsa_tuple_empty (ml mc : PyVal) : ∃ e, lsa (.tuple []) ml mc = .error e ∧ e.cls = "IndexError" := by
  simp [lsa, utils_levelize_strength_or_aggregation, pyIsInst, PyVal.tyName, raise_def]

theorem lsa_str (s : String) (m : Int) (mc : PyVal) (hs : s ≠ "predefined") :
    lsa (.str s) (.int m) mc = .ok (.tuple [.int m, mc, .list (List.replicate (m - 1).toNat (.str s))]) := by
  simp [lsa, utils_levelize_strength_or_aggregation, pyIsInst, PyVal.tyName, pyEq, hs]

/-- the bare string `'predefined'` is rejected -/
theorem lsa_str_predef (ml mc : PyVal) :
    ∃ e, lsa (.str "predefined") ml mc = .error e ∧ e.cls = "ValueError" := by
  simp [lsa, utils_levelize_strength_or_aggregation, pyIsInst, PyVal.tyName, pyEq]
  exact ⟨_, rfl, rfl⟩

theorem lsa_none (m : Int) (mc : PyVal) :
    lsa .none (.int m) mc
      = .ok (.tuple [.int m, mc, .list (List.replicate (m - 1).toNat (.tuple [.none, .dict []]))]) := by
  simp [lsa, utils_levelize_strength_or_aggregation, pyIsInst, PyVal.tyName, pyIsNone]

/-- anything that is not a tuple, string, list or `None` is rejected with `ValueError` -/
theorem lsa_invalid (tl ml mc : PyVal)
    (h : pyIsInst tl ["tuple", "str", "list"] = false) (hn : pyIsNone tl = false) :
    ∃ e, lsa tl ml mc = .error e ∧ e.cls = "ValueError" := by
  cases tl <;> simp_all [lsa, utils_levelize_strength_or_aggregation, pyIsInst, PyVal.tyName, pyIsNone] <;>
    exact ⟨_, rfl, rfl⟩

/-- a list that ends with a predefined entry fixes the number of levels: `len + 1` levels,
`max_coarse = 0`, the list is used as it is -/
theorem lsa_list_predef (ys : List PyVal) (hne : ys ≠ []) (ml mc : PyVal)
    (hp : isPredef (ys.getLast hne) = true) :
    lsa (.list ys) ml mc = .ok (.tuple [.int (ys.length + 1), .int 0, .list ys]) := by
  have hlast := pyGetItem_last ys hne
  generalize ys.getLast hne = last at hlast hp
  cases last <;> simp [isPredef] at hp
  rename_i xs
  cases xs with
  | nil => simp at hp
  | cons h r =>
    simp at hp
    simp [lsa, utils_levelize_strength_or_aggregation, pyIsInst, PyVal.tyName, hlast, hp]

/-- any other non-empty list: entries are the user's, the last one repeated up to `max_levels - 1`
entries (a longer list is kept) -/
theorem lsa_list_plain (ys : List PyVal) (hne : ys ≠ []) (m : Int) (mc : PyVal)
    (hp : isPredef (ys.getLast hne) = false) (hnt : ys.getLast hne ≠ .tuple []) :
    lsa (.list ys) (.int m) mc
      = .ok (.tuple [.int m, mc, .list (ys ++ List.replicate (m - 1 - ys.length).toNat (ys.getLast hne))]) := by
  have hlast := pyGetItem_last ys hne
  generalize ys.getLast hne = last at hlast hp hnt
  have tup : ∀ xs, last = .tuple xs → ∃ h r, xs = h :: r ∧ pyEq h (.str "predefined") = false := by
    intro xs hx
    subst hx
    cases xs with
    | nil => exact absurd rfl hnt
    | cons h r => exact ⟨h, r, rfl, by simpa [isPredef] using hp⟩
  by_cases hlt : (ys.length : Int) < m - 1
  · cases last <;>
      simp [lsa, utils_levelize_strength_or_aggregation, pyIsInst, PyVal.tyName, hlast, hlt, pyComp_const]
    rename_i xs
    obtain ⟨h, r, rfl, hh⟩ := tup xs rfl
    simp [hh]
  · have h0 : (m - 1 - (ys.length : Int)).toNat = 0 := by omega
    cases last <;>
      simp [lsa, utils_levelize_strength_or_aggregation, pyIsInst, PyVal.tyName, hlast, hlt, h0]
    rename_i xs
    obtain ⟨h, r, rfl, hh⟩ := tup xs rfl
    simp [hh]

theorem lsa_list_empty (ml mc : PyVal) : ∃ e, lsa (.list []) ml mc = .error e ∧ e.cls = "IndexError" := by
  simp [lsa, utils_levelize_strength_or_aggregation, pyIsInst, PyVal.tyName, pyGetItem_last_nil, raise_def]

/-! #### consequences in the words of the property -/

/-- the shape of a user option as far as the limits are concerned (the `OptKind` of `Model/C04Model.lean`) -/
def kindOf : PyVal → Option PyamgV.C04.OptKind
  | .none => some .plain
  | .str s => if s = "predefined" then Option.none else some .plain
  | .tuple (h :: _) => if pyEq h (.str "predefined") then some .predefTuple else some .plain
  | .list ys =>
    match ys.getLast? with
    | Option.none => Option.none
    | some (.tuple []) => Option.none
    | some l => if isPredef l then some (.listPredef ys.length) else some (.listPlain ys.length)
  | _ => Option.none

/-- LINK to the hand-written limits model: on every option value the model classifies, the generated
function returns `(max_levels', max_coarse', list)` with exactly the numbers `C04.levelize` computes
(`C04.levelize` is what `C04.effLimits`, hence `C04.ctorRun`, is built from) -/
theorem lsa_refines_model (tl : PyVal) (k : PyamgV.C04.OptKind) (ml mc : Nat) (hk : kindOf tl = some k) :
    ∃ xs, lsa tl (.int ml) (.int mc)
        = .ok (.tuple [.int (PyamgV.C04.levelize k ml mc).1, .int (PyamgV.C04.levelize k ml mc).2.1, .list xs])
      ∧ xs.length = (PyamgV.C04.levelize k ml mc).2.2 := by
  cases tl with
  | none =>
    simp [kindOf] at hk; subst hk
    exact ⟨_, lsa_none _ _, by simp [PyamgV.C04.levelize]⟩
  | str s =>
    by_cases hs : s = "predefined"
    · simp [kindOf, hs] at hk
    · simp [kindOf, hs] at hk; subst hk
      exact ⟨_, lsa_str s _ _ hs, by simp [PyamgV.C04.levelize]⟩
  | tuple xs =>
    cases xs with
    | nil => simp [kindOf] at hk
    | cons h r =>
      by_cases hp : pyEq h (.str "predefined") = true
      · simp [kindOf, hp] at hk; subst hk
        exact ⟨_, lsa_tuple_predef h r _ _ hp, by simp [PyamgV.C04.levelize]⟩
      · have hp' : pyEq h (.str "predefined") = false := by simpa using hp
        simp [kindOf, hp'] at hk; subst hk
        exact ⟨_, lsa_tuple_plain h r _ _ hp', by simp [PyamgV.C04.levelize]⟩
  | list ys =>
    by_cases hne : ys = []
    · subst hne; simp [kindOf] at hk
    · have hl : ys.getLast? = some (ys.getLast hne) := List.getLast?_eq_some_getLast hne
      by_cases hnt : ys.getLast hne = .tuple []
      · simp [kindOf, hl, hnt] at hk
      · by_cases hp : isPredef (ys.getLast hne) = true
        · have : kindOf (.list ys) = some (.listPredef ys.length) := by
            simp only [kindOf, hl]; split <;> simp_all
          rw [this] at hk; cases hk
          refine ⟨ys, ?_, ?_⟩
          · have := lsa_list_predef ys hne (.int ml) (.int mc) hp
            simpa [PyamgV.C04.levelize] using this
          · simp [PyamgV.C04.levelize]
        · have hp' : isPredef (ys.getLast hne) = false := by simpa using hp
          have : kindOf (.list ys) = some (.listPlain ys.length) := by
            simp only [kindOf, hl]; split <;> simp_all
          rw [this] at hk; cases hk
          refine ⟨ys ++ List.replicate ((ml : Int) - 1 - ys.length).toNat (ys.getLast hne), ?_, ?_⟩
          · have := lsa_list_plain ys hne ml (.int mc) hp' hnt
            simpa [PyamgV.C04.levelize] using this
          · simp [PyamgV.C04.levelize]; omega
  | _ => simp [kindOf] at hk

/-- a list whose last entry is the empty tuple: `to_levelize[-1][0]` raises -/
theorem lsa_list_last_empty (ys : List PyVal) (hne : ys ≠ []) (ml mc : PyVal) (hl : ys.getLast hne = .tuple []) :
    ∃ e, lsa (.list ys) ml mc = .error e ∧ e.cls = "IndexError" := by
  have hlast := pyGetItem_last ys hne
  rw [hl] at hlast
  simp [lsa, utils_levelize_strength_or_aggregation, pyIsInst, PyVal.tyName, hlast, raise_def]

/-- whenever the generated function returns for an integer `max_levels`, it returns a triple
`(max_levels', max_coarse', list)` such that
* the list covers every level index `0 .. max_levels' - 2` the hierarchy loop uses (no `IndexError` later);
* its entries are the user's value, `(None, {})` for `None`, or entries of the user's list;
* a user list is a prefix of it and is continued by its last entry;
* the limits are the user's unless a `'predefined'` entry forces `max_coarse' = 0` and
  `max_levels' = 2` (predefined tuple) resp. `len + 1` (list ending with a predefined entry). -/
theorem lsa_returns (tl : PyVal) (m : Int) (mc r : PyVal) (h : lsa tl (.int m) mc = .ok r) :
    ∃ (m' : Int) (mc' : PyVal) (xs : List PyVal),
      r = .tuple [.int m', mc', .list xs] ∧ m' - 1 ≤ xs.length ∧
      (∀ x ∈ xs, x = tl ∨ x = .tuple [.none, .dict []] ∨ ∃ ys, tl = .list ys ∧ x ∈ ys) ∧
      (∀ ys, tl = .list ys → ys <+: xs ∧ ∀ i, ys.length ≤ i → i < xs.length → xs[i]? = ys.getLast?) ∧
      ((m' = m ∧ mc' = mc) ∨
       (mc' = .int 0 ∧ ((isPredef tl = true ∧ m' = 2) ∨
          ∃ ys l, tl = .list ys ∧ ys.getLast? = some l ∧ isPredef l = true ∧ m' = ys.length + 1))) := by
  cases tl with
  | none =>
    rw [lsa_none] at h; cases h
    refine ⟨m, mc, _, rfl, by simp; omega, ?_, by simp, Or.inl ⟨rfl, rfl⟩⟩
    intro x hx; simp at hx; simp [hx.2]
  | str s =>
    by_cases hs : s = "predefined"
    · subst hs; obtain ⟨e, he, _⟩ := lsa_str_predef (.int m) mc; rw [he] at h; cases h
    · rw [lsa_str s m mc hs] at h; cases h
      refine ⟨m, mc, _, rfl, by simp; omega, ?_, by simp, Or.inl ⟨rfl, rfl⟩⟩
      intro x hx; simp at hx; simp [hx.2]
  | tuple xs =>
    cases xs with
    | nil => obtain ⟨e, he, _⟩ := lsa_tuple_empty (.int m) mc; rw [he] at h; cases h
    | cons a rest =>
      by_cases hp : pyEq a (.str "predefined") = true
      · rw [lsa_tuple_predef a rest _ _ hp] at h; cases h
        refine ⟨2, .int 0, _, rfl, by simp, by simp, by simp, Or.inr ⟨rfl, Or.inl ⟨by simpa [isPredef] using hp, rfl⟩⟩⟩
      · have hp' : pyEq a (.str "predefined") = false := by simpa using hp
        rw [lsa_tuple_plain a rest m mc hp'] at h; cases h
        refine ⟨m, mc, _, rfl, by simp; omega, ?_, by simp, Or.inl ⟨rfl, rfl⟩⟩
        intro x hx; simp at hx; simp [hx.2]
  | list ys =>
    by_cases hne : ys = []
    · subst hne; obtain ⟨e, he, _⟩ := lsa_list_empty (.int m) mc; rw [he] at h; cases h
    · by_cases hnt : ys.getLast hne = .tuple []
      · obtain ⟨e, he, _⟩ := lsa_list_last_empty ys hne (.int m) mc hnt; rw [he] at h; cases h
      · by_cases hp : isPredef (ys.getLast hne) = true
        · rw [lsa_list_predef ys hne _ _ hp] at h; cases h
          refine ⟨ys.length + 1, .int 0, ys, rfl, by omega, ?_, ?_, Or.inr ⟨rfl, Or.inr ⟨ys, _, rfl, List.getLast?_eq_some_getLast hne, hp, rfl⟩⟩⟩
          · intro x hx; exact Or.inr (Or.inr ⟨ys, rfl, hx⟩)
          · intro ys' hys; cases hys
            exact ⟨List.prefix_refl _, fun i h1 h2 => absurd h2 (by omega)⟩
        · have hp' : isPredef (ys.getLast hne) = false := by simpa using hp
          rw [lsa_list_plain ys hne m mc hp' hnt] at h; cases h
          refine ⟨m, mc, _, rfl, by simp; omega, ?_, ?_, Or.inl ⟨rfl, rfl⟩⟩
          · intro x hx
            refine Or.inr (Or.inr ⟨ys, rfl, ?_⟩)
            rcases List.mem_append.mp hx with hx | hx
            · exact hx
            · rw [(List.mem_replicate.mp hx).2]; exact List.getLast_mem hne
          · intro ys' hys; cases hys
            refine ⟨List.prefix_append _ _, fun i h1 h2 => ?_⟩
            rw [List.getElem?_append_right h1, List.getLast?_eq_some_getLast hne]
            simp at h2
            simp [List.getElem?_replicate]; omega
  | bool b => obtain ⟨e, he, _⟩ := lsa_invalid (.bool b) (.int m) mc (by simp [pyIsInst, PyVal.tyName]) rfl; rw [he] at h; cases h
  | int i => obtain ⟨e, he, _⟩ := lsa_invalid (.int i) (.int m) mc (by simp [pyIsInst, PyVal.tyName]) rfl; rw [he] at h; cases h
  | float q => obtain ⟨e, he, _⟩ := lsa_invalid (.float q) (.int m) mc (by simp [pyIsInst, PyVal.tyName]) rfl; rw [he] at h; cases h
  | dict d => obtain ⟨e, he, _⟩ := lsa_invalid (.dict d) (.int m) mc (by simp [pyIsInst, PyVal.tyName]) rfl; rw [he] at h; cases h
  | obj t => obtain ⟨e, he, _⟩ := lsa_invalid (.obj t) (.int m) mc (by simp [pyIsInst, PyVal.tyName]) rfl; rw [he] at h; cases h

/-! ### `levelize_smooth_or_improve_candidates` -/

abbrev lsi := utils_levelize_smooth_or_improve_candidates

def isTuple : PyVal → Bool
  | .tuple _ => true
  | _ => false

theorem lsi_str (s : String) (m : Int) :
    lsi (.str s) (.int m) = .ok (.list (List.replicate m.toNat (.str s))) := by
  simp [lsi, utils_levelize_smooth_or_improve_candidates, pyIsInst, PyVal.tyName]

theorem lsi_none (m : Int) :
    lsi .none (.int m) = .ok (.list (List.replicate m.toNat (.tuple [.none, .dict []]))) := by
  simp [lsi, utils_levelize_smooth_or_improve_candidates, pyIsInst, PyVal.tyName, pyIsNone]

/-- a `(name, kwargs)` tuple is the setting of every level: `max_levels` copies -/
theorem lsi_tuple_plain (h : PyVal) (rest : List PyVal) (m : Int) (hh : isTuple h = false) :
    lsi (.tuple (h :: rest)) (.int m) = .ok (.list (List.replicate m.toNat (.tuple (h :: rest)))) := by
  cases h <;> simp [isTuple] at hh <;>
    simp [lsi, utils_levelize_smooth_or_improve_candidates, pyIsInst, PyVal.tyName]

theorem lsi_tuple_empty (ml : PyVal) : ∃ e, lsi (.tuple []) ml = .error e ∧ e.cls = "IndexError" := by
  simp [lsi, utils_levelize_smooth_or_improve_candidates, pyIsInst, PyVal.tyName, raise_def]

/-- a non-empty list: the user's entries, the last one repeated up to `max_levels` entries (a longer
list is kept) -/
theorem lsi_list (ys : List PyVal) (hne : ys ≠ []) (m : Int) :
    lsi (.list ys) (.int m) = .ok (.list (ys ++ List.replicate (m - ys.length).toNat (ys.getLast hne))) := by
  have hlast := pyGetItem_last ys hne
  by_cases hlt : (ys.length : Int) < m
  · simp [lsi, utils_levelize_smooth_or_improve_candidates, pyIsInst, PyVal.tyName, hlast, hlt, pyComp_const]
  · have h0 : (m - (ys.length : Int)).toNat = 0 := by omega
    simp [lsi, utils_levelize_smooth_or_improve_candidates, pyIsInst, PyVal.tyName, hlt, h0]

/-- the empty list cannot be extended -/
theorem lsi_list_empty (m : Int) :
    (m ≤ 0 → lsi (.list []) (.int m) = .ok (.list [])) ∧
    (0 < m → ∃ e, lsi (.list []) (.int m) = .error e ∧ e.cls = "IndexError") := by
  constructor
  · intro h
    have : ¬ (0 : Int) < m := by omega
    simp [lsi, utils_levelize_smooth_or_improve_candidates, pyIsInst, PyVal.tyName, this]
  · intro h
    obtain ⟨k, rfl⟩ : ∃ k : Nat, m = k + 1 := ⟨(m - 1).toNat, by omega⟩
    have : ((k : Int) + 1).toNat = k + 1 := by omega
    simp [lsi, utils_levelize_smooth_or_improve_candidates, pyIsInst, PyVal.tyName, h, pyGetItem_last_nil,
      this, List.range_succ_eq_map, pyComp, raise_def]

/-- the default `improve_candidates=((...), None)`: a tuple whose first entry is a tuple is the list of
its entries -/
theorem lsi_tuple_of_tuples (h : PyVal) (rest : List PyVal) (ml : PyVal) (hh : isTuple h = true) :
    lsi (.tuple (h :: rest)) ml = lsi (.list (h :: rest)) ml := by
  cases h <;> simp [isTuple] at hh
  simp [lsi, utils_levelize_smooth_or_improve_candidates, pyIsInst, PyVal.tyName]

/-- whenever the generated function returns for an option of a documented type (string, tuple, list,
`None`) and an integer `max_levels`, it returns a list that covers the level indices
`0 .. max_levels - 1`; its entries are the user's value, `(None, {})`, or entries of the user's list /
tuple of tuples, which is a prefix and is continued by its last entry -/
theorem lsi_returns (tl : PyVal) (m : Int) (r : PyVal) (h : lsi tl (.int m) = .ok r)
    (hty : pyIsInst tl ["str", "tuple", "list"] = true ∨ pyIsNone tl = true) :
    ∃ xs, r = .list xs ∧ m ≤ xs.length ∧
      (∀ x ∈ xs, x = tl ∨ x = .tuple [.none, .dict []] ∨ ∃ ys, (tl = .list ys ∨ tl = .tuple ys) ∧ x ∈ ys) ∧
      (∀ ys, tl = .list ys ∨ (tl = .tuple ys ∧ (ys.head?.map isTuple) = some true) →
        ys <+: xs ∧ ∀ i, ys.length ≤ i → i < xs.length → xs[i]? = ys.getLast?) := by
  have listCase : ∀ ys : List PyVal, lsi (.list ys) (.int m) = .ok r →
      ∃ xs, r = .list xs ∧ m ≤ xs.length ∧ (∀ x ∈ xs, x ∈ ys) ∧
        (ys <+: xs ∧ ∀ i, ys.length ≤ i → i < xs.length → xs[i]? = ys.getLast?) := by
    intro ys h
    by_cases hne : ys = []
    · subst hne
      by_cases hm : m ≤ 0
      · rw [(lsi_list_empty m).1 hm] at h; cases h
        exact ⟨[], rfl, by simpa using hm, by simp, List.prefix_refl _, fun i _ h2 => absurd h2 (by simp)⟩
      · obtain ⟨e, he, _⟩ := (lsi_list_empty m).2 (by omega); rw [he] at h; cases h
    · rw [lsi_list ys hne m] at h; cases h
      refine ⟨_, rfl, by simp; omega, ?_, List.prefix_append _ _, fun i h1 h2 => ?_⟩
      · intro x hx
        rcases List.mem_append.mp hx with hx | hx
        · exact hx
        · rw [(List.mem_replicate.mp hx).2]; exact List.getLast_mem hne
      · rw [List.getElem?_append_right h1, List.getLast?_eq_some_getLast hne]
        simp at h2
        simp [List.getElem?_replicate]; omega
  cases tl with
  | none =>
    rw [lsi_none] at h; cases h
    refine ⟨_, rfl, by simp; omega, ?_, by simp⟩
    intro x hx; simp at hx; simp [hx.2]
  | str s =>
    rw [lsi_str] at h; cases h
    refine ⟨_, rfl, by simp; omega, ?_, by simp⟩
    intro x hx; simp at hx; simp [hx.2]
  | tuple xs =>
    cases xs with
    | nil => obtain ⟨e, he, _⟩ := lsi_tuple_empty (.int m); rw [he] at h; cases h
    | cons a rest =>
      by_cases ha : isTuple a = true
      · rw [lsi_tuple_of_tuples a rest _ ha] at h
        obtain ⟨xs, rfl, h1, h2, h3⟩ := listCase _ h
        refine ⟨xs, rfl, h1, fun x hx => Or.inr (Or.inr ⟨_, Or.inr rfl, h2 x hx⟩), ?_⟩
        intro ys hys
        rcases hys with hys | ⟨hys, _⟩ <;> cases hys
        exact h3
      · have ha' : isTuple a = false := by simpa using ha
        rw [lsi_tuple_plain a rest m ha'] at h; cases h
        refine ⟨_, rfl, by simp; omega, ?_, ?_⟩
        · intro x hx; simp at hx; simp [hx.2]
        · intro ys hys
          rcases hys with hys | ⟨hys, hh⟩ <;> cases hys
          simp [ha'] at hh
  | list ys =>
    obtain ⟨xs, rfl, h1, h2, h3⟩ := listCase _ h
    refine ⟨xs, rfl, h1, fun x hx => Or.inr (Or.inr ⟨_, Or.inl rfl, h2 x hx⟩), ?_⟩
    intro ys' hys
    rcases hys with hys | ⟨hys, _⟩ <;> cases hys
    exact h3
  | bool b => simp [pyIsInst, PyVal.tyName, pyIsNone] at hty
  | int i => simp [pyIsInst, PyVal.tyName, pyIsNone] at hty
  | float q => simp [pyIsInst, PyVal.tyName, pyIsNone] at hty
  | dict d => simp [pyIsInst, PyVal.tyName, pyIsNone] at hty
  | obj t => simp [pyIsInst, PyVal.tyName, pyIsNone] at hty

end PyamgV.ExtPyLev
