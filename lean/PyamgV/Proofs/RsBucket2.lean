import PyamgV.Proofs.RsBucket

/-! PyamgV (C13/C17): the "decrement lambda" bucket move preserves the invariant. -/
namespace PyamgV.RS

def decrCore (s : St) (j : Nat) : St :=
  let lj := rdN s.lam j
  let old := rdN s.n2i j
  let new := rdN s.iptr lj
  let a := rdN s.i2n old
  let b := rdN s.i2n new
  let n2i := wrN (wrN s.n2i a new) b old
  let i2n := wrN (wrN s.i2n old b) new a
  let icnt := wrN s.icnt lj (rdN s.icnt lj - 1)
  let icnt := wrN icnt (lj-1) (rdN icnt (lj-1) + 1)
  let iptr := wrN s.iptr lj (rdN s.iptr lj + 1)
  let iptr := wrN iptr (lj-1) (rdN iptr lj - rdN icnt (lj-1))
  { s with n2i, i2n, icnt, iptr, lam := wrN s.lam j (lj-1) }

theorem decr_eq (s : St) (j : Nat) :
    decr s j = if rdI s.sp j ≠ U then s else if rdN s.lam j = 0 then s else decrCore s j := by
  unfold decr decrCore; rfl

theorem decrCore_inv (n L top1 : Nat) (s : St) (k : Nat) (h : BInv n L top1 s)
    (hk : k < n) (hpos : rdN s.n2i k < top1) (hlam : 1 ≤ rdN s.lam k) :
    BInv n L top1 (decrCore s k) := by
  unfold decrCore
  simp only
  have hlam0 : rdN s.lam k < L := h.lamL k hk
  obtain ⟨hold_lt, hi2n_old⟩ := h.p2 k hk
  have hb_old := h.blk (rdN s.n2i k) hpos
  have hlamAt_old : lamAt s (rdN s.n2i k) = rdN s.lam k := by unfold lamAt; rw [hi2n_old]
  rw [hlamAt_old] at hb_old
  generalize hlk : rdN s.lam k = lk at *
  generalize hold : rdN s.n2i k = old at *
  have hcnt : 1 ≤ rdN s.icnt lk := by omega
  generalize hnew : rdN s.iptr lk = new at *
  have hnew_le : new ≤ old := hb_old.1
  have hnew_blk := h.blk' lk hlam0 new (by omega) (by omega)
  have hnew_lt : new < top1 := hnew_blk.1
  have htop := h.top
  have hnewn : new < n := by omega
  generalize hb : rdN s.i2n new = b
  have hbn : b < n := by rw [← hb]; exact (h.p1 new hnewn).1
  have hn2i_b : rdN s.n2i b = new := by rw [← hb]; exact (h.p1 new hnewn).2
  have hlam_b : rdN s.lam b = lk := by have := hnew_blk.2; unfold lamAt at this; rw [hb] at this; exact this
  have hlm1 : lk - 1 < L := by omega
  have hi2n' : ∀ p, rdN (wrN (wrN s.i2n old b) new k) p =
      if p = new then k else if p = old then b else rdN s.i2n p := by
    intro p
    rw [rdN_wrN, size_wrN, h.szi]
    by_cases hpn : new = p
    · subst hpn; simp [hnewn]
    · have : p ≠ new := fun e => hpn e.symm
      rw [if_neg (fun hh => hpn hh.1), if_neg this, rdN_wrN, h.szi]
      by_cases hpo : old = p
      · subst hpo; simp [hold_lt]
      · have : p ≠ old := fun e => hpo e.symm
        rw [if_neg (fun hh => hpo hh.1), if_neg this]
  have hn2i' : ∀ v, rdN (wrN (wrN s.n2i k new) b old) v =
      if v = b then old else if v = k then new else rdN s.n2i v := by
    intro v
    rw [rdN_wrN, size_wrN, h.szn]
    by_cases hvb : b = v
    · subst hvb; simp [hbn]
    · have : v ≠ b := fun e => hvb e.symm
      rw [if_neg (fun hh => hvb hh.1), if_neg this, rdN_wrN, h.szn]
      by_cases hvk : k = v
      · subst hvk; simp [hk]
      · have : v ≠ k := fun e => hvk e.symm
        rw [if_neg (fun hh => hvk hh.1), if_neg this]
  have hlam' : ∀ v, rdN (wrN s.lam k (lk-1)) v = if v = k then lk - 1 else rdN s.lam v := by
    intro v; rw [rdN_wrN, h.szl]
    by_cases hvk : k = v
    · subst hvk; simp [hk]
    · have : v ≠ k := fun e => hvk e.symm
      rw [if_neg (fun hh => hvk hh.1), if_neg this]
  have hicnt' : ∀ v, rdN (wrN (wrN s.icnt lk (rdN s.icnt lk - 1)) (lk-1)
        (rdN (wrN s.icnt lk (rdN s.icnt lk - 1)) (lk-1) + 1)) v =
      if v = lk - 1 then rdN s.icnt (lk-1) + 1 else if v = lk then rdN s.icnt lk - 1 else rdN s.icnt v := by
    intro v
    have e0 : rdN (wrN s.icnt lk (rdN s.icnt lk - 1)) (lk-1) = rdN s.icnt (lk-1) := by
      rw [rdN_wrN, if_neg (by omega)]
    rw [e0, rdN_wrN, size_wrN, h.szc]
    by_cases hv : lk - 1 = v
    · subst hv; simp [hlm1]
    · have : v ≠ lk - 1 := fun e => hv e.symm
      rw [if_neg (fun hh => hv hh.1), if_neg this, rdN_wrN, h.szc]
      by_cases hv2 : lk = v
      · subst hv2; simp [hlam0]
      · have : v ≠ lk := fun e => hv2 e.symm
        rw [if_neg (fun hh => hv2 hh.1), if_neg this]
  have hiptr' : ∀ v, rdN (wrN (wrN s.iptr lk (new + 1)) (lk-1)
        (rdN (wrN s.iptr lk (new + 1)) lk -
          rdN (wrN (wrN s.icnt lk (rdN s.icnt lk - 1)) (lk-1)
            (rdN (wrN s.icnt lk (rdN s.icnt lk - 1)) (lk-1) + 1)) (lk-1))) v =
      if v = lk - 1 then new - rdN s.icnt (lk-1) else if v = lk then new + 1 else rdN s.iptr v := by
    intro v
    have e1 : rdN (wrN s.iptr lk (new + 1)) lk = new + 1 := by
      rw [rdN_wrN, if_pos ⟨rfl, by rw [h.szp]; exact hlam0⟩]
    rw [e1, hicnt' (lk-1), if_pos rfl, rdN_wrN, size_wrN, h.szp]
    by_cases hv : lk - 1 = v
    · subst hv; rw [if_pos ⟨rfl, hlm1⟩, if_pos rfl]; omega
    · have : v ≠ lk - 1 := fun e => hv e.symm
      rw [if_neg (fun hh => hv hh.1), if_neg this, rdN_wrN, h.szp]
      by_cases hv2 : lk = v
      · subst hv2; simp [hlam0]
      · have : v ≠ lk := fun e => hv2 e.symm
        rw [if_neg (fun hh => hv2 hh.1), if_neg this]
  have hkold : rdN s.i2n old = k := hi2n_old
  rw [hkold]
  have hneq : ∀ p, p < n → p ≠ old → rdN s.i2n p ≠ k := by
    intro p hp hpo e
    have := (h.p1 p hp).2; rw [e, hold] at this; exact hpo this.symm
  have hneqb : ∀ p, p < n → p ≠ new → rdN s.i2n p ≠ b := by
    intro p hp hpn e
    have := (h.p1 p hp).2; rw [e, hn2i_b] at this; exact hpn this.symm
  have hbk : old ≠ new → b ≠ k := by
    intro hne e; rw [e] at hn2i_b; rw [hold] at hn2i_b; exact hne hn2i_b
  have hlamAt_new : lamAt s new = lk := hnew_blk.2
  have hLA : ∀ p, p < n →
      rdN (wrN s.lam k (lk-1)) (rdN (wrN (wrN s.i2n old b) new k) p) =
        if p = new then lk - 1 else lamAt s p := by
    intro p hp
    rw [hi2n' p]
    by_cases hpn : p = new
    · rw [if_pos hpn, if_pos hpn, hlam', if_pos rfl]
    · rw [if_neg hpn, if_neg hpn]
      by_cases hpo : p = old
      · rw [if_pos hpo, hlam', if_neg (hbk (by rw [← hpo]; exact hpn)), hlam_b, hpo, hlamAt_old]
      · rw [if_neg hpo, hlam', if_neg (hneq p hp hpo)]; rfl
  -- adjacency of the previous block: it ends right before `new`
  have hadj : 0 < rdN s.icnt (lk-1) → rdN s.iptr (lk-1) + rdN s.icnt (lk-1) = new := by
    intro hc
    -- last position of block lk-1
    have hq := h.blk' (lk-1) hlm1 (rdN s.iptr (lk-1) + rdN s.icnt (lk-1) - 1) (by omega) (by omega)
    generalize hqd : rdN s.iptr (lk-1) + rdN s.icnt (lk-1) - 1 = q at hq
    have hqlt : q < new := by
      by_cases hlt : q < new
      · exact hlt
      · exfalso
        by_cases heq : q = new
        · rw [heq, hlamAt_new] at hq; omega
        · have := h.sorted new q (by omega) hq.1
          rw [hq.2, hlamAt_new] at this; omega
    have hnpos : 1 ≤ new := by omega
    have hm1 : new - 1 < top1 := by omega
    have h1 := h.sorted (new-1) new (by omega) hnew_lt
    rw [hlamAt_new] at h1
    have h2 : lamAt s (new-1) ≠ lk := by
      intro e
      have := h.blk (new-1) hm1
      rw [e, hnew] at this; omega
    have h3 : lk - 1 ≤ lamAt s (new-1) := by
      by_cases heq : q = new - 1
      · rw [← heq, hq.2]; exact Nat.le_refl _
      · have := h.sorted q (new-1) (by omega) hm1
        rw [hq.2] at this; exact this
    have h4 : lamAt s (new-1) = lk - 1 := by omega
    have := h.blk (new-1) hm1
    rw [h4] at this; omega
  refine ⟨by simp [h.szl], by simp [h.szi], by simp [h.szn], by simp [h.szp], by simp [h.szc],
    h.top, ?_, ?_, ?_, ?_, ?_, ?_⟩
  · intro p hp
    show rdN (wrN (wrN s.i2n old b) new k) p < n ∧
      rdN (wrN (wrN s.n2i k new) b old) (rdN (wrN (wrN s.i2n old b) new k) p) = p
    rw [hi2n' p]
    by_cases hpn : p = new
    · rw [if_pos hpn]
      refine ⟨hk, ?_⟩
      rw [hn2i' k]
      by_cases hkb : k = b
      · rw [if_pos hkb]
        have : old = new := by
          by_cases e : old = new
          · exact e
          · exact absurd hkb.symm (hbk e)
        omega
      · rw [if_neg hkb, if_pos rfl]; exact hpn.symm
    · rw [if_neg hpn]
      by_cases hpo : p = old
      · rw [if_pos hpo]
        refine ⟨hbn, ?_⟩
        rw [hn2i' b, if_pos rfl]; exact hpo.symm
      · rw [if_neg hpo]
        refine ⟨(h.p1 p hp).1, ?_⟩
        rw [hn2i', if_neg (hneqb p hp hpn), if_neg (hneq p hp hpo)]
        exact (h.p1 p hp).2
  · intro v hv
    show rdN (wrN (wrN s.n2i k new) b old) v < n ∧
      rdN (wrN (wrN s.i2n old b) new k) (rdN (wrN (wrN s.n2i k new) b old) v) = v
    rw [hn2i' v]
    by_cases hvb : v = b
    · rw [if_pos hvb]
      refine ⟨hold_lt, ?_⟩
      rw [hi2n' old]
      by_cases hon : old = new
      · rw [if_pos hon]
        have : b = k := by rw [← hb, ← hon, hkold]
        omega
      · rw [if_neg hon, if_pos rfl]; exact hvb.symm
    · rw [if_neg hvb]
      by_cases hvk : v = k
      · rw [if_pos hvk]
        refine ⟨hnewn, ?_⟩
        rw [hi2n' new, if_pos rfl]; exact hvk.symm
      · rw [if_neg hvk]
        obtain ⟨q1, q2⟩ := h.p2 v hv
        refine ⟨q1, ?_⟩
        have hqn : rdN s.n2i v ≠ new := by
          intro e; rw [e, hb] at q2; exact hvb q2.symm
        have hqo : rdN s.n2i v ≠ old := by
          intro e; rw [e, hkold] at q2; exact hvk q2.symm
        rw [hi2n', if_neg hqn, if_neg hqo]; exact q2
  · intro v hv
    show rdN (wrN s.lam k (lk-1)) v < L
    rw [hlam' v]; split
    · exact hlm1
    · exact h.lamL v hv
  · -- blk
    intro p hp
    have hpn' : p < n := by omega
    rw [show lamAt _ p = rdN (wrN s.lam k (lk-1)) (rdN (wrN (wrN s.i2n old b) new k) p) from rfl]
    rw [hLA p hpn']
    by_cases hpn : p = new
    · rw [if_pos hpn]
      show rdN _ (lk-1) ≤ p ∧ p < rdN _ (lk-1) + rdN _ (lk-1)
      rw [hiptr' (lk-1), if_pos rfl, hicnt' (lk-1), if_pos rfl]
      by_cases hc : 0 < rdN s.icnt (lk-1)
      · have := hadj hc; omega
      · omega
    · rw [if_neg hpn]
      have ob := h.blk p hp
      generalize lamAt s p = v at ob ⊢
      show rdN _ v ≤ p ∧ p < rdN _ v + rdN _ v
      rw [hiptr' v, hicnt' v]
      by_cases hv1 : v = lk - 1
      · simp only [if_pos hv1]
        rw [hv1] at ob
        have := hadj (by omega)
        omega
      · simp only [if_neg hv1]
        by_cases hv2 : v = lk
        · simp only [if_pos hv2]; subst hv2; rw [hnew] at ob; omega
        · simp only [if_neg hv2]; exact ob
  · -- blk'
    intro v hv p hp1 hp2
    show p < top1 ∧ rdN (wrN s.lam k (lk-1)) (rdN (wrN (wrN s.i2n old b) new k) p) = v
    have hp1' : rdN (wrN (wrN s.iptr lk (new + 1)) (lk-1)
        (rdN (wrN s.iptr lk (new + 1)) lk -
          rdN (wrN (wrN s.icnt lk (rdN s.icnt lk - 1)) (lk-1)
            (rdN (wrN s.icnt lk (rdN s.icnt lk - 1)) (lk-1) + 1)) (lk-1))) v ≤ p := hp1
    have hp2' : p < rdN (wrN (wrN s.iptr lk (new + 1)) (lk-1)
        (rdN (wrN s.iptr lk (new + 1)) lk -
          rdN (wrN (wrN s.icnt lk (rdN s.icnt lk - 1)) (lk-1)
            (rdN (wrN s.icnt lk (rdN s.icnt lk - 1)) (lk-1) + 1)) (lk-1))) v +
        rdN (wrN (wrN s.icnt lk (rdN s.icnt lk - 1)) (lk-1)
            (rdN (wrN s.icnt lk (rdN s.icnt lk - 1)) (lk-1) + 1)) v := hp2
    rw [hiptr' v] at hp1' hp2'
    rw [hicnt' v] at hp2'
    by_cases hv1 : v = lk - 1
    · simp only [if_pos hv1] at hp1' hp2'
      by_cases hpn : p = new
      · refine ⟨by omega, ?_⟩
        rw [hLA p (by omega), if_pos hpn]; exact hv1.symm
      · have hc : 0 < rdN s.icnt (lk-1) := by
          by_cases hc : 0 < rdN s.icnt (lk-1)
          · exact hc
          · exfalso; omega
        have ha := hadj hc
        have := h.blk' (lk-1) hlm1 p (by omega) (by omega)
        refine ⟨this.1, ?_⟩
        rw [hLA p (by omega), if_neg hpn, this.2]; exact hv1.symm
    · simp only [if_neg hv1] at hp1' hp2'
      by_cases hv2 : v = lk
      · simp only [if_pos hv2] at hp1' hp2'
        subst hv2
        have := h.blk' v hlam0 p (by rw [hnew]; omega) (by rw [hnew]; omega)
        have hpn : p ≠ new := by omega
        refine ⟨this.1, ?_⟩
        rw [hLA p (by omega), if_neg hpn, this.2]
      · simp only [if_neg hv2] at hp1' hp2'
        have := h.blk' v hv p hp1' hp2'
        have hpn : p ≠ new := by
          intro e; rw [e, hlamAt_new] at this; exact hv2 this.2.symm
        refine ⟨this.1, ?_⟩
        rw [hLA p (by omega), if_neg hpn]; exact this.2
  · -- sorted
    intro p q hpq hq
    show rdN (wrN s.lam k (lk-1)) (rdN (wrN (wrN s.i2n old b) new k) p) ≤
         rdN (wrN s.lam k (lk-1)) (rdN (wrN (wrN s.i2n old b) new k) q)
    rw [hLA p (by omega), hLA q (by omega)]
    by_cases hpn : p = new
    · rw [if_pos hpn, if_neg (by omega)]
      have := h.sorted new q (by omega) hq
      rw [hlamAt_new] at this; omega
    · rw [if_neg hpn]
      by_cases hqn : q = new
      · rw [if_pos hqn]
        have h1 := h.sorted p new (by omega) hnew_lt
        rw [hlamAt_new] at h1
        have h2 : lamAt s p ≠ lk := by
          intro e
          have := h.blk p (by omega)
          rw [e, hnew] at this; omega
        omega
      · rw [if_neg hqn]; exact h.sorted p q hpq hq

#print axioms decrCore_inv
end PyamgV.RS
