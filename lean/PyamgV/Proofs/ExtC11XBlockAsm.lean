import PyamgV.Proofs.ExtC11XBlock
import Mathlib.Tactic.Ring
import Mathlib.Tactic.Linarith

/-! PyamgV (C11, extension E49): the index arithmetic of `block_approx_ideal_restriction_pass2`.
The positional writes of the kernel put block `(N_jb, N_ib)` of `A` at block position `(jb, ib)` of the
row-major array `A0` (`assembleA0_spec`) and `-A[c, N_bi][r, .]` at `b0[nd*r + bi*bs ..]`
(`assembleB0_spec`); read column-major, `A0` is the transpose of `A[N, N]`, so the `r`-th local system
says `Σ_{jb, t} x_r[jb*bs + t] A[N_jb, N_ib][t, cc] = -A[c, N_ib][r, cc]` (`solves_iff`). -/
namespace PyamgV.C11XB
open PyamgV.N PyamgV.C11M

theorem rdQ_set (a : Array Rat) (i j : Nat) (v : Rat) :
    rdQ (a.setIfInBounds i v) j = if i = j ∧ i < a.size then v else rdQ a j := by
  unfold rdQ
  rw [Array.getD_eq_getD_getElem?, Array.getD_eq_getD_getElem?, Array.getElem?_setIfInBounds]
  by_cases h : i = j
  · subst h
    by_cases h2 : i < a.size
    · simp [h2]
    · simp [h2]
  · simp [h]

/-! ### reading a position after a loop of positional writes -/

theorem foldl_range_size (step : Array Rat → Nat → Array Rat) (S : Nat)
    (hsize : ∀ arr i, arr.size = S → (step arr i).size = S) (N : Nat) (arr : Array Rat) (hs : arr.size = S) :
    ((List.range N).foldl step arr).size = S := by
  induction N with
  | zero => simpa using hs
  | succ k ih => rw [List.range_succ, List.foldl_append]; exact hsize _ _ ih

theorem foldl_range_untouched (step : Array Rat → Nat → Array Rat) (S N p : Nat)
    (hsize : ∀ arr i, arr.size = S → (step arr i).size = S)
    (hun : ∀ arr i, i < N → arr.size = S → rdQ (step arr i) p = rdQ arr p)
    (arr : Array Rat) (hs : arr.size = S) : rdQ ((List.range N).foldl step arr) p = rdQ arr p := by
  induction N with
  | zero => rfl
  | succ k ih =>
    rw [List.range_succ, List.foldl_append]
    simp only [List.foldl_cons, List.foldl_nil]
    rw [hun _ k (Nat.lt_succ_self k) (foldl_range_size step S hsize k arr hs)]
    exact ih (fun arr i hi => hun arr i (Nat.lt_succ_of_lt hi))

theorem foldl_range_touched (step : Array Rat → Nat → Array Rat) (S N p i : Nat) (v : Rat) (hi : i < N)
    (hsize : ∀ arr i, arr.size = S → (step arr i).size = S)
    (hto : ∀ arr, arr.size = S → rdQ (step arr i) p = v)
    (hun : ∀ arr i', i' < N → i' ≠ i → arr.size = S → rdQ (step arr i') p = rdQ arr p)
    (arr : Array Rat) (hs : arr.size = S) : rdQ ((List.range N).foldl step arr) p = v := by
  induction N with
  | zero => omega
  | succ k ih =>
    rw [List.range_succ, List.foldl_append]
    simp only [List.foldl_cons, List.foldl_nil]
    have hsz := foldl_range_size step S hsize k arr hs
    by_cases hik : i = k
    · subst hik; exact hto _ hsz
    · rw [hun _ k (Nat.lt_succ_self k) (fun h => hik h.symm) hsz]
      exact ih (by omega) (fun arr i' hi' => hun arr i' (Nat.lt_succ_of_lt hi'))

/-! ### the index maps are injective -/

theorem lt_mul_of {a b N B : Nat} (ha : a < N) (hb : b < B) : a * B + b < N * B := by
  have : (a + 1) * B ≤ N * B := Nat.mul_le_mul_right B ha
  rw [Nat.add_mul] at this
  omega

theorem pair_inj {B a b a' b' : Nat} (hb : b < B) (hb' : b' < B) (h : a * B + b = a' * B + b') :
    a = a' ∧ b = b' := by
  rcases Nat.lt_trichotomy a a' with hlt | heq | hgt
  · exfalso
    have : (a + 1) * B ≤ a' * B := Nat.mul_le_mul_right B hlt
    rw [Nat.add_mul] at this
    omega
  · subst heq; exact ⟨rfl, by omega⟩
  · exfalso
    have : (a' + 1) * B ≤ a * B := Nat.mul_le_mul_right B hgt
    rw [Nat.add_mul] at this
    omega

/-- position of entry `(br, bc)` of block `(jb, ib)` in `A0` (`nd = N * bs`) -/
def enc (bs nd jb br ib bc : Nat) : Nat := (jb * bs + br) * nd + ib * bs + bc

theorem enc_lt {bs N jb br ib bc : Nat} (hjb : jb < N) (hbr : br < bs) (hib : ib < N) (hbc : bc < bs) :
    enc bs (N * bs) jb br ib bc < N * bs * (N * bs) := by
  unfold enc
  have h1 : jb * bs + br < N * bs := lt_mul_of hjb hbr
  have h2 : ib * bs + bc < N * bs := lt_mul_of hib hbc
  have := lt_mul_of (B := N * bs) h1 h2
  omega

theorem enc_inj {bs N jb br ib bc jb' br' ib' bc' : Nat} (hbr : br < bs) (hib : ib < N) (hbc : bc < bs)
    (hbr' : br' < bs) (hib' : ib' < N) (hbc' : bc' < bs)
    (h : enc bs (N * bs) jb br ib bc = enc bs (N * bs) jb' br' ib' bc') :
    jb = jb' ∧ br = br' ∧ ib = ib' ∧ bc = bc' := by
  unfold enc at h
  have h2 : ib * bs + bc < N * bs := lt_mul_of hib hbc
  have h2' : ib' * bs + bc' < N * bs := lt_mul_of hib' hbc'
  obtain ⟨e1, e2⟩ := pair_inj (B := N * bs) (a := jb * bs + br) (a' := jb' * bs + br')
    (b := ib * bs + bc) (b' := ib' * bs + bc') h2 h2' (by omega)
  obtain ⟨e3, e4⟩ := pair_inj hbr hbr' e1
  obtain ⟨e5, e6⟩ := pair_inj hbc hbc' e2
  exact ⟨e3, e4, e5, e6⟩

/-! ### `putBlock` -/

theorem putBlock_size (A : BMat) (nd k jb ib : Nat) (a0 : Array Rat) : (putBlock A nd k jb ib a0).size = a0.size := by
  unfold putBlock
  apply foldl_range_size _ a0.size _ _ _ rfl
  intro arr br hs
  apply foldl_range_size _ a0.size _ _ _ hs
  intro arr bc hs
  simpa using hs

/-- positions outside block `(jb, ib)` are not written -/
theorem putBlock_other (A : BMat) (N k jb ib p : Nat) (a0 : Array Rat)
    (hp : ∀ br < A.bs, ∀ bc < A.bs, p ≠ enc A.bs (N * A.bs) jb br ib bc) :
    rdQ (putBlock A (N * A.bs) k jb ib a0) p = rdQ a0 p := by
  unfold putBlock
  apply foldl_range_untouched _ a0.size _ _ _ _ _ rfl
  · intro arr br hs
    apply foldl_range_size _ a0.size _ _ _ hs
    intro arr bc hs; simpa using hs
  · intro arr br hbr hs
    apply foldl_range_untouched _ a0.size _ _ _ _ _ hs
    · intro arr bc hs; simpa using hs
    · intro arr bc hbc _
      rw [rdQ_set, if_neg]
      rintro ⟨h1, _⟩
      exact hp br hbr bc hbc (by unfold enc; exact h1.symm)

/-- entry `(br, bc)` of block `(jb, ib)` is the entry `(br, bc)` of block number `k` -/
theorem putBlock_own (A : BMat) (N k jb ib br bc : Nat) (a0 : Array Rat) (hib : ib < N)
    (hbr : br < A.bs) (hbc : bc < A.bs) (hsz : enc A.bs (N * A.bs) jb br ib bc < a0.size) :
    rdQ (putBlock A (N * A.bs) k jb ib a0) (enc A.bs (N * A.bs) jb br ib bc) = A.blk k br bc := by
  unfold putBlock
  have hsize1 : ∀ (br : Nat) (arr : Array Rat), arr.size = a0.size →
      ((List.range A.bs).foldl (fun a0 bc =>
        a0.setIfInBounds ((jb * A.bs + br) * (N * A.bs) + ib * A.bs + bc) (A.blk k br bc)) arr).size = a0.size := by
    intro br arr hs
    apply foldl_range_size _ a0.size _ _ _ hs
    intro arr bc hs; simpa using hs
  apply foldl_range_touched _ a0.size A.bs _ br _ hbr _ _ _ _ rfl
  · intro arr br' hs; exact hsize1 br' arr hs
  · intro arr hs
    apply foldl_range_touched _ a0.size A.bs _ bc _ hbc _ _ _ _ hs
    · intro arr bc' hs; simpa using hs
    · intro arr hs
      rw [rdQ_set, if_pos]
      exact ⟨by unfold enc; rfl, by rw [hs]; unfold enc at hsz; exact hsz⟩
    · intro arr bc' hbc' hne _
      rw [rdQ_set, if_neg]
      rintro ⟨h1, _⟩
      have := (enc_inj (jb := jb) (jb' := jb) hbr hib hbc' hbr hib hbc (by unfold enc; exact h1)).2.2.2
      exact hne this
  · intro arr br' hbr' hne hs
    apply foldl_range_untouched _ a0.size _ _ _ _ _ hs
    · intro arr bc' hs; simpa using hs
    · intro arr bc' hbc' _
      rw [rdQ_set, if_neg]
      rintro ⟨h1, _⟩
      have := (enc_inj (jb := jb) (jb' := jb) hbr' hib hbc' hbr hib hbc (by unfold enc; exact h1)).2.1
      exact hne this

/-! ### `rowA0`, `assembleA0` -/

theorem rowA0_size (A : BMat) (nf : List Nat) (jb : Nat) (a0 : Array Rat) : (rowA0 A nf jb a0).size = a0.size := by
  unfold rowA0
  apply foldl_range_size _ a0.size _ _ _ rfl
  intro arr ib hs
  split
  · rw [putBlock_size]; exact hs
  · exact hs

theorem rowA0_other (A : BMat) (nf : List Nat) (jb p : Nat) (a0 : Array Rat)
    (hp : ∀ ib < nf.length, ∀ br < A.bs, ∀ bc < A.bs, p ≠ enc A.bs (nf.length * A.bs) jb br ib bc) :
    rdQ (rowA0 A nf jb a0) p = rdQ a0 p := by
  unfold rowA0
  apply foldl_range_untouched _ a0.size _ _ _ _ _ rfl
  · intro arr ib hs
    split
    · rw [putBlock_size]; exact hs
    · exact hs
  · intro arr ib hib _
    split
    · exact putBlock_other A nf.length _ jb ib p arr (hp ib hib)
    · rfl

theorem rowA0_own (A : BMat) (nf : List Nat) (jb ib br bc : Nat) (a0 : Array Rat) (hib : ib < nf.length)
    (hbr : br < A.bs) (hbc : bc < A.bs) (hsz : enc A.bs (nf.length * A.bs) jb br ib bc < a0.size) :
    rdQ (rowA0 A nf jb a0) (enc A.bs (nf.length * A.bs) jb br ib bc) =
      match A.find (nf.getD jb 0) (nf.getD ib 0) with
      | some k => A.blk k br bc
      | none => rdQ a0 (enc A.bs (nf.length * A.bs) jb br ib bc) := by
  unfold rowA0
  have hsize : ∀ (arr : Array Rat) (ib : Nat), arr.size = a0.size →
      (match A.find (nf.getD jb 0) (nf.getD ib 0) with
        | some k => putBlock A (nf.length * A.bs) k jb ib arr
        | none => arr).size = a0.size := by
    intro arr ib hs
    split
    · rw [putBlock_size]; exact hs
    · exact hs
  have hother : ∀ (arr : Array Rat) (ib' : Nat), ib' < nf.length → ib' ≠ ib → arr.size = a0.size →
      rdQ (match A.find (nf.getD jb 0) (nf.getD ib' 0) with
        | some k => putBlock A (nf.length * A.bs) k jb ib' arr
        | none => arr) (enc A.bs (nf.length * A.bs) jb br ib bc) =
      rdQ arr (enc A.bs (nf.length * A.bs) jb br ib bc) := by
    intro arr ib' hib' hne _
    split
    · apply putBlock_other
      intro br' hbr' bc' hbc' heq
      exact hne (enc_inj hbr hib hbc hbr' hib' hbc' heq).2.2.1.symm
    · rfl
  cases hf : A.find (nf.getD jb 0) (nf.getD ib 0) with
  | some k =>
    simp only
    apply foldl_range_touched _ a0.size nf.length _ ib _ hib hsize _ hother _ rfl
    intro arr hs
    rw [hf]
    exact putBlock_own A nf.length k jb ib br bc arr hib hbr hbc (by rw [hs]; exact hsz)
  | none =>
    simp only
    apply foldl_range_untouched _ a0.size _ _ hsize _ _ rfl
    intro arr ib' hib' hs
    by_cases hne : ib' = ib
    · subst hne; rw [hf]
    · exact hother arr ib' hib' hne hs

theorem assembleA0_size (A : BMat) (nf : List Nat) :
    (assembleA0 A nf).size = nf.length * A.bs * (nf.length * A.bs) := by
  unfold assembleA0
  apply foldl_range_size _ _ _ _ _ (by simp)
  intro arr jb hs
  rw [rowA0_size]; exact hs

/-- **`A0` holds block `(N_jb, N_ib)` of `A` at block position `(jb, ib)`, row-major** -/
theorem assembleA0_spec (A : BMat) (nf : List Nat) (jb ib br bc : Nat) (hjb : jb < nf.length)
    (hib : ib < nf.length) (hbr : br < A.bs) (hbc : bc < A.bs) :
    rdQ (assembleA0 A nf) ((jb * A.bs + br) * (nf.length * A.bs) + ib * A.bs + bc) =
      A.entry (nf.getD jb 0) (nf.getD ib 0) br bc := by
  have hlt := enc_lt hjb hbr hib hbc
  show rdQ (assembleA0 A nf) (enc A.bs (nf.length * A.bs) jb br ib bc) = _
  unfold assembleA0
  have hsize : ∀ (arr : Array Rat) (jb' : Nat), arr.size = nf.length * A.bs * (nf.length * A.bs) →
      (rowA0 A nf jb' arr).size = nf.length * A.bs * (nf.length * A.bs) := by
    intro arr jb' hs; rw [rowA0_size]; exact hs
  have hother : ∀ (arr : Array Rat) (jb' : Nat), jb' < nf.length → jb' ≠ jb →
      arr.size = nf.length * A.bs * (nf.length * A.bs) →
      rdQ (rowA0 A nf jb' arr) (enc A.bs (nf.length * A.bs) jb br ib bc) =
        rdQ arr (enc A.bs (nf.length * A.bs) jb br ib bc) := by
    intro arr jb' hjb' hne _
    apply rowA0_other
    intro ib' hib' br' hbr' bc' hbc' heq
    exact hne (enc_inj hbr hib hbc hbr' hib' hbc' heq).1.symm
  unfold BMat.entry
  cases hf : A.find (nf.getD jb 0) (nf.getD ib 0) with
  | some k =>
    simp only
    apply foldl_range_touched _ (nf.length * A.bs * (nf.length * A.bs)) nf.length _ jb _ hjb hsize _ hother _
      (by simp)
    intro arr hs
    rw [rowA0_own A nf jb ib br bc arr hib hbr hbc (by rw [hs]; exact hlt), hf]
  | none =>
    simp only
    rw [foldl_range_untouched _ (nf.length * A.bs * (nf.length * A.bs)) _ _ hsize _ _ (by simp)]
    · unfold rdQ; rw [Array.getD_eq_getD_getElem?, Array.getElem?_replicate]; split <;> rfl
    · intro arr jb' hjb' hs
      by_cases hne : jb' = jb
      · subst hne
        rw [rowA0_own A nf jb' ib br bc arr hib hbr hbc (by rw [hs]; exact hlt), hf]
      · exact hother arr jb' hjb' hne hs

/-! ### the right-hand sides -/

/-- position of entry `(r, cc)` of block `bi` in `b0` -/
def encB (bs nd r bi cc : Nat) : Nat := nd * r + bi * bs + cc

theorem encB_lt {bs N r bi cc : Nat} (hr : r < bs) (hbi : bi < N) (hcc : cc < bs) :
    encB bs (N * bs) r bi cc < N * bs * bs := by
  unfold encB
  have h2 : bi * bs + cc < N * bs := lt_mul_of hbi hcc
  have := lt_mul_of (B := N * bs) hr h2
  rw [Nat.mul_comm (N * bs) r, Nat.mul_comm (N * bs) bs]
  omega

theorem encB_inj {bs N r bi cc r' bi' cc' : Nat} (hbi : bi < N) (hcc : cc < bs) (hbi' : bi' < N) (hcc' : cc' < bs)
    (h : encB bs (N * bs) r bi cc = encB bs (N * bs) r' bi' cc') : r = r' ∧ bi = bi' ∧ cc = cc' := by
  unfold encB at h
  have h2 : bi * bs + cc < N * bs := lt_mul_of hbi hcc
  have h2' : bi' * bs + cc' < N * bs := lt_mul_of hbi' hcc'
  rw [Nat.mul_comm (N * bs) r, Nat.mul_comm (N * bs) r'] at h
  obtain ⟨e1, e2⟩ := pair_inj (B := N * bs) (a := r) (a' := r') (b := bi * bs + cc) (b' := bi' * bs + cc')
    h2 h2' (by omega)
  obtain ⟨e3, e4⟩ := pair_inj hcc hcc' e2
  exact ⟨e1, e3, e4⟩

theorem putRhs_size (A : BMat) (nd k bi : Nat) (b0 : Array Rat) : (putRhs A nd k bi b0).size = b0.size := by
  unfold putRhs
  apply foldl_range_size _ b0.size _ _ _ rfl
  intro arr r hs
  apply foldl_range_size _ b0.size _ _ _ hs
  intro arr cc hs
  simpa using hs

theorem putRhs_other (A : BMat) (N k bi p : Nat) (b0 : Array Rat)
    (hp : ∀ r < A.bs, ∀ cc < A.bs, p ≠ encB A.bs (N * A.bs) r bi cc) :
    rdQ (putRhs A (N * A.bs) k bi b0) p = rdQ b0 p := by
  unfold putRhs
  apply foldl_range_untouched _ b0.size _ _ _ _ _ rfl
  · intro arr r hs
    apply foldl_range_size _ b0.size _ _ _ hs
    intro arr cc hs; simpa using hs
  · intro arr r hr hs
    apply foldl_range_untouched _ b0.size _ _ _ _ _ hs
    · intro arr cc hs; simpa using hs
    · intro arr cc hcc _
      rw [rdQ_set, if_neg]
      rintro ⟨h1, _⟩
      exact hp r hr cc hcc (by unfold encB; exact h1.symm)

theorem putRhs_own (A : BMat) (N k bi r cc : Nat) (b0 : Array Rat) (hbi : bi < N)
    (hr : r < A.bs) (hcc : cc < A.bs) (hsz : encB A.bs (N * A.bs) r bi cc < b0.size) :
    rdQ (putRhs A (N * A.bs) k bi b0) (encB A.bs (N * A.bs) r bi cc) = -(A.blk k r cc) := by
  unfold putRhs
  apply foldl_range_touched _ b0.size A.bs _ r _ hr _ _ _ _ rfl
  · intro arr r' hs
    apply foldl_range_size _ b0.size _ _ _ hs
    intro arr cc hs; simpa using hs
  · intro arr hs
    apply foldl_range_touched _ b0.size A.bs _ cc _ hcc _ _ _ _ hs
    · intro arr cc' hs; simpa using hs
    · intro arr hs
      rw [rdQ_set, if_pos]
      exact ⟨by unfold encB; rfl, by rw [hs]; unfold encB at hsz; exact hsz⟩
    · intro arr cc' hcc' hne _
      rw [rdQ_set, if_neg]
      rintro ⟨h1, _⟩
      exact hne (encB_inj hbi hcc' hbi hcc (by unfold encB; exact h1)).2.2
  · intro arr r' hr' hne hs
    apply foldl_range_untouched _ b0.size _ _ _ _ _ hs
    · intro arr cc' hs; simpa using hs
    · intro arr cc' hcc' _
      rw [rdQ_set, if_neg]
      rintro ⟨h1, _⟩
      exact hne (encB_inj hbi hcc' hbi hcc (by unfold encB; exact h1)).1

theorem assembleB0_size (A : BMat) (c : Nat) (nf : List Nat) :
    (assembleB0 A c nf).size = nf.length * A.bs * A.bs := by
  unfold assembleB0
  apply foldl_range_size _ _ _ _ _ (by simp)
  intro arr bi hs
  split
  · rw [putRhs_size]; exact hs
  · exact hs

/-- **`b0[nd*r + bi*bs + cc] = -A[c, N_bi][r, cc]`** -/
theorem assembleB0_spec (A : BMat) (c : Nat) (nf : List Nat) (r bi cc : Nat) (hr : r < A.bs)
    (hbi : bi < nf.length) (hcc : cc < A.bs) :
    rdQ (assembleB0 A c nf) (nf.length * A.bs * r + bi * A.bs + cc) = -(A.entry c (nf.getD bi 0) r cc) := by
  have hlt := encB_lt hr hbi hcc
  show rdQ (assembleB0 A c nf) (encB A.bs (nf.length * A.bs) r bi cc) = _
  unfold assembleB0
  have hsize : ∀ (arr : Array Rat) (bi : Nat), arr.size = nf.length * A.bs * A.bs →
      (match A.find c (nf.getD bi 0) with
        | some k => putRhs A (nf.length * A.bs) k bi arr
        | none => arr).size = nf.length * A.bs * A.bs := by
    intro arr bi hs
    split
    · rw [putRhs_size]; exact hs
    · exact hs
  have hother : ∀ (arr : Array Rat) (bi' : Nat), bi' < nf.length → bi' ≠ bi → arr.size = nf.length * A.bs * A.bs →
      rdQ (match A.find c (nf.getD bi' 0) with
        | some k => putRhs A (nf.length * A.bs) k bi' arr
        | none => arr) (encB A.bs (nf.length * A.bs) r bi cc) =
      rdQ arr (encB A.bs (nf.length * A.bs) r bi cc) := by
    intro arr bi' hbi' hne _
    split
    · apply putRhs_other
      intro r' hr' cc' hcc' heq
      exact hne (encB_inj hbi hcc hbi' hcc' heq).2.1.symm
    · rfl
  unfold BMat.entry
  cases hf : A.find c (nf.getD bi 0) with
  | some k =>
    simp only
    apply foldl_range_touched _ (nf.length * A.bs * A.bs) nf.length _ bi _ hbi hsize _ hother _ (by simp)
    intro arr hs
    rw [hf]
    exact putRhs_own A nf.length k bi r cc arr hbi hr hcc (by rw [hs]; exact hlt)
  | none =>
    simp only
    refine (foldl_range_untouched _ (nf.length * A.bs * A.bs) _ _ hsize ?_ _ (by simp)).trans ?_
    · intro arr bi' hbi' hs
      by_cases hne : bi' = bi
      · subst hne; rw [hf]
      · exact hother arr bi' hbi' hne hs
    · unfold rdQ; rw [Array.getD_eq_getD_getElem?, Array.getElem?_replicate]; split <;> simp

end PyamgV.C11XB
