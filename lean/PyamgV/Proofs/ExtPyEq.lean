import PyamgV.Proofs.ExtPyDict
/-! PyamgV (extension E31): Python's `==` on the translator's value universe (`pyEq`,
`Model/ExtPyRt.lean`) is reflexive and symmetric on well-formed values (dictionaries with pairwise
distinct keys; floats are exact rationals, so there is no NaN). -/
namespace PyamgV.ExtPy

theorem wfD_mem (a : Kvs) (h : wfD a = true) : ∀ kv ∈ a, kv.2.wf = true := by
  induction a with
  | nil => simp
  | cons kv r ih =>
    obtain ⟨k, v⟩ := kv
    simp only [wfD, Bool.and_eq_true] at h
    intro kv' hm
    rcases List.mem_cons.mp hm with e | hm
    · subst e; exact h.1
    · exact ih h.2 kv' hm

theorem wf_dict (a : Kvs) (h : (PyVal.dict a).wf = true) : wfD a = true ∧ (keys a).Nodup := by
  simpa [PyVal.wf, keys] using h

mutual
theorem pyEq_refl : ∀ v : PyVal, v.wf = true → pyEq v v = true
  | .none, _ => rfl
  | .bool b, _ => by simp [pyEq]
  | .int i, _ => by simp [pyEq]
  | .float q, _ => by simp [pyEq]
  | .str s, _ => by simp [pyEq]
  | .obj t, _ => by simp [pyEq]
  | .list xs, h => by
    simp only [pyEq]
    exact pyEqL_refl xs (by simpa [PyVal.wf] using h)
  | .tuple xs, h => by
    simp only [pyEq]
    exact pyEqL_refl xs (by simpa [PyVal.wf] using h)
  | .dict a, h => by
    have hw := wf_dict a h
    rw [pyEq_dict_iff a a hw.2]
    intro k
    cases hl : a.lookup k with
    | none => rfl
    | some v => exact dictVals_refl a hw.1 (k, v) (mem_of_lookup a k v hl)
theorem pyEqL_refl : ∀ xs : List PyVal, wfL xs = true → pyEqL xs xs = true
  | [], _ => rfl
  | x :: r, h => by
    simp only [wfL, Bool.and_eq_true] at h
    simp only [pyEqL, Bool.and_eq_true]
    exact ⟨pyEq_refl x h.1, pyEqL_refl r h.2⟩
theorem dictVals_refl : ∀ a : List (String × PyVal), wfD a = true → ∀ kv ∈ a, pyEq kv.2 kv.2 = true
  | [], _ => by simp
  | (k, v) :: r, h => by
    simp only [wfD, Bool.and_eq_true] at h
    intro kv hm
    rcases List.mem_cons.mp hm with e | hm
    · subst e; exact pyEq_refl v h.1
    · exact dictVals_refl r h.2 kv hm
end

theorem optEq_symm_of (x y : Option PyVal) (h : ∀ v w, x = some v → y = some w → pyEq v w = pyEq w v) :
    optEq x y = optEq y x := by
  cases x <;> cases y <;> simp [optEq]
  exact h _ _ rfl rfl

theorem pyEq_dict_symm (a b : Kvs) (ha : (keys a).Nodup) (hb : (keys b).Nodup)
    (hv : ∀ kv ∈ a, ∀ kw ∈ b, pyEq kv.2 kw.2 = pyEq kw.2 kv.2) :
    pyEq (.dict a) (.dict b) = pyEq (.dict b) (.dict a) := by
  have flip : ∀ k, optEq (a.lookup k) (b.lookup k) = optEq (b.lookup k) (a.lookup k) := fun k =>
    optEq_symm_of _ _ (fun v w h1 h2 => hv (k, v) (mem_of_lookup a k v h1) (k, w) (mem_of_lookup b k w h2))
  have e : pyEq (.dict a) (.dict b) = true ↔ pyEq (.dict b) (.dict a) = true := by
    rw [pyEq_dict_iff a b ha, pyEq_dict_iff b a hb]
    exact ⟨fun h k => by rw [← flip]; exact h k, fun h k => by rw [flip]; exact h k⟩
  cases h1 : pyEq (.dict a) (.dict b) <;> cases h2 : pyEq (.dict b) (.dict a) <;> simp_all

mutual
theorem pyEq_symm : ∀ a b : PyVal, a.wf = true → b.wf = true → pyEq a b = pyEq b a
  | .none, b, _, _ => by cases b <;> rfl
  | .bool x, b, _, _ => by cases b <;> simp [pyEq] <;> exact BEq.comm
  | .int x, b, _, _ => by cases b <;> simp [pyEq] <;> exact BEq.comm
  | .float x, b, _, _ => by cases b <;> simp [pyEq] <;> exact BEq.comm
  | .str x, b, _, _ => by cases b <;> simp [pyEq] <;> exact BEq.comm
  | .obj x, b, _, _ => by cases b <;> simp [pyEq] <;> exact BEq.comm
  | .list xs, b, h, hb => by
    cases b <;> simp only [pyEq]
    rename_i ys
    exact pyEqL_symm xs ys (by simpa [PyVal.wf] using h) (by simpa [PyVal.wf] using hb)
  | .tuple xs, b, h, hb => by
    cases b <;> simp only [pyEq]
    rename_i ys
    exact pyEqL_symm xs ys (by simpa [PyVal.wf] using h) (by simpa [PyVal.wf] using hb)
  | .dict a, b, h, hb => by
    cases b with
    | dict b' =>
      have hw := wf_dict a h
      have hw' := wf_dict b' hb
      exact pyEq_dict_symm a b' hw.2 hw'.2
        (fun kv hm kw hm' => dictVals_symm a hw.1 kv hm kw.2 (wfD_mem b' hw'.1 kw hm'))
    | _ => simp only [pyEq]
theorem pyEqL_symm : ∀ xs ys : List PyVal, wfL xs = true → wfL ys = true → pyEqL xs ys = pyEqL ys xs
  | [], ys, _, _ => by cases ys <;> rfl
  | x :: r, ys, h, hy => by
    cases ys with
    | nil => rfl
    | cons y r' =>
      simp only [wfL, Bool.and_eq_true] at h hy
      simp only [pyEqL]
      rw [pyEq_symm x y h.1 hy.1, pyEqL_symm r r' h.2 hy.2]
theorem dictVals_symm : ∀ a : List (String × PyVal), wfD a = true →
    ∀ kv ∈ a, ∀ w : PyVal, w.wf = true → pyEq kv.2 w = pyEq w kv.2
  | [], _ => by simp
  | (k, v) :: r, h => by
    simp only [wfD, Bool.and_eq_true] at h
    intro kv hm w hw
    rcases List.mem_cons.mp hm with e | hm
    · subst e; exact pyEq_symm v w h.1 hw
    · exact dictVals_symm r h.2 kv hm w hw
end

end PyamgV.ExtPy
