import PyamgV.Model.ExtC19Coo
import PyamgV.Proofs.C19Diag
import Mathlib.Data.List.Sort

/-! PyamgV (C19, extension E26): the COO / fallback branch of `scale_rows` / `scale_columns`.

* `cooCsr_entry`: the conversion `csr_array(A)` (model `cooCsr`) keeps every matrix entry (duplicates of
  the COO storage summed);
* `cooCsrRow_sorted`: its rows are in canonical format (strictly ascending columns);
* `cooScale_rows_entry` / `cooScale_cols_entry`: the fallback branch computes `diag(v) A` / `A diag(v)`
  entry by entry, for every COO input. -/
namespace PyamgV.C19
set_option linter.unusedSectionVars false

variable {K : Type} [Field K] [DecidableEq K]

theorem mem_insCol (j x : Nat) : ∀ l : List Nat, x ∈ insCol j l ↔ x = j ∨ x ∈ l := by
  intro l
  induction l with
  | nil => simp [insCol]
  | cons c l ih =>
    unfold insCol
    by_cases h1 : j < c
    · rw [if_pos h1]; simp
    · rw [if_neg h1]
      by_cases h2 : j = c
      · rw [if_pos h2]; subst h2; simp
      · rw [if_neg h2]
        simp only [List.mem_cons, ih]
        tauto

theorem insCol_sorted (j : Nat) : ∀ l : List Nat, l.Pairwise (· < ·) → (insCol j l).Pairwise (· < ·) := by
  intro l
  induction l with
  | nil => intro _; simp [insCol]
  | cons c l ih =>
    intro h
    rw [List.pairwise_cons] at h
    unfold insCol
    by_cases h1 : j < c
    · rw [if_pos h1]
      refine List.pairwise_cons.mpr ⟨?_, List.pairwise_cons.mpr h⟩
      intro x hx
      rcases List.mem_cons.mp hx with e | e
      · omega
      · have := h.1 x e; omega
    · rw [if_neg h1]
      by_cases h2 : j = c
      · rw [if_pos h2]; exact List.pairwise_cons.mpr h
      · rw [if_neg h2]
        refine List.pairwise_cons.mpr ⟨?_, ih h.2⟩
        intro x hx
        rcases (mem_insCol j x l).mp hx with e | e
        · omega
        · exact h.1 x e

theorem colsOf_spec (r : Coo K) : ∀ (acc : List Nat), acc.Pairwise (· < ·) →
    (r.foldl (fun cols t => insCol t.2.1 cols) acc).Pairwise (· < ·) ∧
    ∀ x, x ∈ r.foldl (fun cols t => insCol t.2.1 cols) acc ↔ x ∈ acc ∨ ∃ t ∈ r, t.2.1 = x := by
  induction r with
  | nil => intro acc h; simp [h]
  | cons t r ih =>
    intro acc h
    rw [List.foldl_cons]
    obtain ⟨h1, h2⟩ := ih (insCol t.2.1 acc) (insCol_sorted _ _ h)
    refine ⟨h1, fun x => ?_⟩
    rw [h2 x, mem_insCol]
    constructor
    · rintro ((e | e) | ⟨u, hu, e⟩)
      · exact Or.inr ⟨t, List.mem_cons_self, e.symm⟩
      · exact Or.inl e
      · exact Or.inr ⟨u, List.mem_cons_of_mem _ hu, e⟩
    · rintro (e | ⟨u, hu, e⟩)
      · exact Or.inl (Or.inr e)
      · rcases List.mem_cons.mp hu with e' | e'
        · exact Or.inl (Or.inl (by rw [← e, e']))
        · exact Or.inr ⟨u, e', e⟩

/-- canonical format: the stored columns of a row of `csr_array(A)` are strictly ascending -/
theorem cooCsrRow_sorted (coo : Coo K) (i : Nat) : ((cooCsrRow coo i).map (·.1)).Pairwise (· < ·) := by
  unfold cooCsrRow colsOf
  simp only [List.map_map, Function.comp_def, List.map_id']
  exact (colsOf_spec _ [] List.Pairwise.nil).1

theorem entry_map_nodup (g : Nat → K) (j : Nat) : ∀ (cols : List Nat), cols.Pairwise (· < ·) →
    entry (cols.map fun c => (c, g c)) j = if j ∈ cols then g j else 0 := by
  intro cols
  induction cols with
  | nil => intro _; simp [entry, sumL]
  | cons c l ih =>
    intro h
    rw [List.pairwise_cons] at h
    have ih' := ih h.2
    unfold entry at ih' ⊢
    rw [sumL_sum] at ih' ⊢
    by_cases e : c = j
    · subst e
      have hn : c ∉ l := fun hm => Nat.lt_irrefl _ (h.1 c hm)
      rw [if_neg hn] at ih'
      simp only [List.map_cons, List.filter_cons, decide_true, if_true, List.sum_cons, ih', add_zero,
        List.mem_cons, true_or]
    · simp only [List.map_cons, List.filter_cons, e, decide_false, Bool.false_eq_true, if_false, ih', List.mem_cons]
      have : ¬ j = c := fun h => e h.symm
      simp [this]

/-- **`csr_array(A)` keeps the matrix**: entry `(i, j)` of the converted matrix (duplicates of a CSR row
summed by `entry`) is the COO entry (duplicates summed) -/
theorem cooCsr_entry (n : Nat) (coo : Coo K) (i j : Nat) (hi : i < n) :
    entry ((cooCsr n coo).getD i []) j = cooEntry coo i j := by
  have hrow : (cooCsr n coo).getD i [] = cooCsrRow coo i := by
    simp [cooCsr, List.getD_eq_getElem?_getD, hi]
  rw [hrow]
  unfold cooCsrRow
  simp only
  obtain ⟨hs, hm⟩ := colsOf_spec (coo.filter (·.1 = i)) [] List.Pairwise.nil
  rw [show colsOf (coo.filter (·.1 = i)) = (coo.filter (·.1 = i)).foldl (fun cols t => insCol t.2.1 cols) [] from rfl,
    entry_map_nodup _ j _ hs]
  have hff : (coo.filter (·.1 = i)).filter (·.2.1 = j) = coo.filter (fun t => t.1 = i ∧ t.2.1 = j) := by
    rw [List.filter_filter]
    apply List.filter_congr
    intro t _
    simp only [Bool.and_comm, Bool.decide_and]
  unfold cooEntry
  by_cases hmem : j ∈ (coo.filter (·.1 = i)).foldl (fun cols t => insCol t.2.1 cols) []
  · rw [if_pos hmem, hff]
  · rw [if_neg hmem]
    have hnone : coo.filter (fun t => t.1 = i ∧ t.2.1 = j) = [] := by
      rw [← hff, List.filter_eq_nil_iff]
      intro t ht hj
      apply hmem
      rw [hm j]
      exact Or.inr ⟨t, ht, by simpa using hj⟩
    rw [hnone]
    simp [sumL]

theorem cooCsr_length (n : Nat) (coo : Coo K) : (cooCsr n coo).length = n := by simp [cooCsr]

/-- **fallback branch of `scale_rows`** (COO and every other format): `(diag(v) A)[i, j] = v_i a_ij` -/
theorem cooScale_rows_entry (v : Array K) (n : Nat) (coo : Coo K) (i j : Nat) (hi : i < n) :
    entry ((cooScale true v n coo).getD i []) j = cooEntry coo i j * rd v i := by
  unfold cooScale
  rw [if_pos rfl, scaleMajor_getD, entry_scale, cooCsr_entry n coo i j hi]

/-- **fallback branch of `scale_columns`**: `(A diag(v))[i, j] = a_ij v_j` -/
theorem cooScale_cols_entry (v : Array K) (n : Nat) (coo : Coo K) (i j : Nat) (hi : i < n) :
    entry ((cooScale false v n coo).getD i []) j = cooEntry coo i j * rd v j := by
  unfold cooScale
  rw [if_neg (by simp), scaleMinor_getD, entry_scaleMinor, cooCsr_entry n coo i j hi]

/-- the structure after the fallback branch is the canonical CSR structure of the input -/
theorem cooScale_idx (b : Bool) (v : Array K) (n : Nat) (coo : Coo K) :
    idxOf (cooScale b v n coo) = idxOf (cooCsr n coo) := by
  unfold cooScale
  cases b
  · rw [if_neg (by simp), scaleMinor_idx]
  · rw [if_pos rfl, scaleMajor_idx]

#print axioms cooCsr_entry
#print axioms cooCsrRow_sorted
#print axioms cooScale_rows_entry
#print axioms cooScale_cols_entry

end PyamgV.C19
