import PyamgV.Generated.PyLogic2
import PyamgV.Model.ExtPy2Worlds
import PyamgV.Model.C01Solve
import PyamgV.Proofs.ExtPy2Tactic
/-! PyamgV (extension E42, property C01): the definition GENERATED from the working tree by `harness/py2lean2.py`
for `MultilevelSolver.solve` (pyamg/multilevel.py), run WITHOUT `accel` on a scenario of `C01.replayPy`
(Model/C01Solve.lean: iteration limit, tolerance, norms of the iterates, one-level / multilevel, `x0`, residual list,
callback, `return_info`), leaves exactly what the hand-written model `C01.solvePy` says: number of cycles, returned
`info`, content of the caller's residual list, iterates handed to the callback. -/
open PyamgV.ExtPy PyamgV.ExtPy2 PyamgV.Generated.PyLogic2 PyamgV.ExtPy2W
namespace PyamgV.ExtPy2Loop

/-- one stand-alone call of the generated `solve`: (result, trace) -/
def run (sc : LoopSc) : Except PyErr PyVal × List PyVal :=
  let o := PyM2.exec (multilevel_solve (loopWorld sc) (.obj "self") (.obj "b") (if sc.x0given then .obj "x0" else .none)
      (.float sc.tol) (.int sc.maxiter) (.str "V") .none (if sc.hasCb then .obj "cb" else .none)
      (if sc.hasRes then .obj "res" else .none) (.int 1) (.bool sc.returnInfo)) { trace := [], script := loopScript sc }
  (o.1, o.2.trace)

/-! ### reading the trace: what the caller sees -/

structure Acc where
  /-- position of the current iterate: number of multigrid cycles done (a one-level solve always gives position 1) -/
  pos : Nat := 0
  res : List (Option Rat) := []
  cbs : List Nat := []

def floatOf : PyVal → Option Rat
  | .float q => some q
  | _ => none

def step (a : Acc) (e : PyVal) : Acc :=
  match e with
  | .tuple [.str "call", .obj f, .list args, _] =>
    if f == "self._MultilevelSolver__solve" then { a with pos := a.pos + 1 }
    else if f == "self.coarse_solver" then { a with pos := 1 }
    else if f == "res.append" then { a with res := a.res ++ [args.head?.bind floatOf] }
    else if f == "cb" then { a with cbs := a.cbs ++ [a.pos] }
    else a
  | .tuple [.str "setitem", .obj "res", _, .list [v]] => { a with res := [floatOf v] }
  | _ => a

/-- the caller's view of a run in the vocabulary of `C01.PyOut`: position of the returned iterate, `info`, final
content of the residual list, positions of the iterates the callback saw -/
def decode (sc : LoopSc) (o : Except PyErr PyVal × List PyVal) : Option (C01.PyOut Nat (Option Rat)) :=
  let a := o.2.foldl step {}
  match o.1 with
  | .error _ => none
  | .ok v =>
    let info : Option (Option Nat) :=
      if sc.returnInfo then (match v with | .tuple [_, .int i] => some (some i.toNat) | _ => none)
      else (match v with | .obj _ => some none | _ => none)
    info.map (fun i => ⟨a.pos, i, if sc.hasRes then some a.res else none, a.cbs⟩)

def model (sc : LoopSc) : Option (C01.PyOut Nat (Option Rat)) :=
  C01.replayPy sc.maxiter sc.tol sc.normb sc.seq.toArray sc.oneLevel sc.x0given (if sc.hasRes then some [] else none)
    sc.hasCb sc.returnInfo

/-! ### the grids of scenarios -/

def bools : List Bool := [false, true]
/-- decreasing (reaches every tolerance of the grid at a different iteration), stagnating, increasing -/
def seqs : List (List Rat) := [[8, 4, 2, 1, 1/2, 1/4, 1/8], [3, 3, 3, 3, 3, 3, 3], [1, 2, 4, 8, 16, 32, 64]]

/-- grid 1 (the loop): iteration limit x tolerance x `‖b‖` (0: absolute tolerance) x norm sequence x one-level /
multilevel, with every option on -/
def gridLoop : List LoopSc :=
  [1, 2, 3, 5].flatMap fun mi => [(1 : Rat) / 2, 1 / 16, 1 / 1024].flatMap fun tol => [(0 : Rat), 1, 4].flatMap fun nb =>
  seqs.flatMap fun sq => bools.map fun one =>
    { maxiter := mi, tol := tol, normb := nb, seq := sq, oneLevel := one, x0given := true, hasRes := true, hasCb := true,
      returnInfo := true }

/-- grid 2 (the options): every combination of `x0`, `residuals`, `callback`, `return_info` x one-level / multilevel
on a run that stops by the tolerance (after 3 cycles) and one that stops by the iteration limit -/
def gridOptions : List LoopSc :=
  [((1 : Rat) / 2, 5), (1 / 1024, 3)].flatMap fun (tol, mi) => bools.flatMap fun one => bools.flatMap fun x0 =>
  bools.flatMap fun res => bools.flatMap fun cb => bools.map fun ri =>
    { maxiter := mi, tol := tol, normb := 4, seq := [8, 4, 2, 1, 1/2, 1/4, 1/8], oneLevel := one, x0given := x0,
      hasRes := res, hasCb := cb, returnInfo := ri }

/-- LINK to `C01.solvePy` (through its replay instance `C01.replayPy`), grid 1: the generated `solve` performs the
number of cycles, returns the `info`, leaves the residual history and calls the callback exactly as the model says -/
theorem loop_refines_solvePy : ∀ sc ∈ gridLoop, decode sc (run sc) = model sc := by decide +kernel

/-- LINK to `C01.solvePy`, grid 2: all combinations of the caller-visible options -/
theorem options_refine_solvePy : ∀ sc ∈ gridOptions, decode sc (run sc) = model sc := by decide +kernel

/-- the grids are not degenerate: nine different (cycles, info) outcomes occur, stops by tolerance (`info = 0`) after
3 and 5 cycles and by the iteration limit after 1, 2, 3 and 5 -/
theorem grid_covers :
    ((gridLoop.map (fun sc => (model sc).map (fun o => (o.x, o.info)))).eraseDups).length = 9 ∧
    model { maxiter := 5, tol := 1/2, normb := 4, seq := [8, 4, 2, 1, 1/2, 1/4, 1/8], oneLevel := false, x0given := false,
            hasRes := true, hasCb := true, returnInfo := true }
      = some { x := 3, info := some 0, residuals := some [some 8, some 4, some 2, some 1], cb := [1, 2, 3] } := by
  decide +kernel

end PyamgV.ExtPy2Loop
