import PyamgV.Proofs.Cycle
import Mathlib.Tactic.NoncommRing

/-! PyamgV: a cycle is a fixed linear iteration x ↦ x + M (b - A x)  (C03) -/
namespace PyamgV

variable {K : Type*} [Field K] [LinearOrder K] [IsStrictOrderedRing K]
variable {V : Type*} [AddCommGroup V] [Module K V]

def IsLinIter (A : V →ₗ[K] V) (f : V → V → V) (M : V →ₗ[K] V) : Prop :=
  ∀ x b, f x b = x + M (b - A x)

/-- operator of "first M₁ then M₂" -/
def compM (A M₁ M₂ : V →ₗ[K] V) : V →ₗ[K] V := M₁ + M₂ - M₂ ∘ₗ A ∘ₗ M₁

theorem IsLinIter.comp {A : V →ₗ[K] V} {f g : V → V → V} {M₁ M₂ : V →ₗ[K] V}
    (hf : IsLinIter A f M₁) (hg : IsLinIter A g M₂) :
    IsLinIter A (fun x b => g (f x b) b) (compM A M₁ M₂) := by
  intro x b
  show g (f x b) b = _
  rw [hg (f x b) b, hf x b]
  simp only [compM, map_add, map_sub, LinearMap.add_apply,
    LinearMap.sub_apply, LinearMap.comp_apply]
  abel

def iterM (A M : V →ₗ[K] V) : Nat → (V →ₗ[K] V) → (V →ₗ[K] V)
  | 0, M0 => M0
  | k+1, M0 => iterM A M k (compM A M0 M)

theorem IsLinIter.iter {A : V →ₗ[K] V} {f : V → V → V} {M : V →ₗ[K] V}
    (hf : IsLinIter A f M) (k : Nat) : ∀ (g : V → V → V) (M0 : V →ₗ[K] V), IsLinIter A g M0 →
      IsLinIter A (fun x b => iter f b k (g x b)) (iterM A M k M0) := by
  induction k with
  | zero => intro g M0 hg; simpa [PyamgV.iter, iterM] using hg
  | succ k ih =>
    intro g M0 hg
    have := ih (fun x b => f (g x b) b) (compM A M0 M) (hg.comp hf)
    simpa [PyamgV.iter, iterM] using this

/-- data needed to state the operator of a cycle: the smoothers' linear parts -/
structure LinLevel (K V : Type*) [Field K] [AddCommGroup V] [Module K V] extends Level K V where
  Qpre : V →ₗ[K] V
  Qpost : V →ₗ[K] V

/-- the textbook operator of a cycle, composed from the hierarchy's own pieces.
The coarsest level (`[]`) is a direct solve `S`, visited once whatever the cycle type. -/
def Mop (S : V →ₗ[K] V) : CType → List (LinLevel K V) → (V →ₗ[K] V)
  | _, [] => S
  | c, L :: rest =>
    let Ac := L.R ∘ₗ L.A ∘ₗ L.P
    let Mc : V →ₗ[K] V := match rest, c with
      | [], _ => S
      | _ :: _, .V => Mop S .V rest
      | _ :: _, .W => compM Ac (Mop S .W rest) (Mop S .W rest)
      | _ :: _, .F k => iterM Ac (Mop S .V rest) k (Mop S (.F k) rest)
    compM L.A (compM L.A L.Qpre (L.P ∘ₗ Mc ∘ₗ L.R)) L.Qpost

def WFL : (A : V →ₗ[K] V) → List (LinLevel K V) → Prop
  | _, [] => True
  | A, L :: rest => L.A = A ∧ IsLinIter A L.pre L.Qpre ∧ IsLinIter A L.post L.Qpost ∧
      WFL (L.R ∘ₗ A ∘ₗ L.P) rest

theorem IsLinIter.zero {A : V →ₗ[K] V} {f : V → V → V} {M : V →ₗ[K] V} (h : IsLinIter A f M)
    (b : V) : f 0 b = M b := by simp [h 0 b]

theorem iter_ignore (g : V → V) (rc : V) : ∀ k, iter (fun _ b => g b) rc k (g rc) = g rc := by
  intro k; induction k with
  | zero => rfl
  | succ k ih => simpa [PyamgV.iter] using ih

/-- one level on top of a coarse map `xcOf` that is linear in the coarse right-hand side -/
theorem twoGrid_isLinIter (L : LinLevel K V) (xcOf : V → V) (Mc : V →ₗ[K] V)
    (hpre : IsLinIter L.A L.pre L.Qpre) (hpost : IsLinIter L.A L.post L.Qpost)
    (hxc : ∀ rc, xcOf rc = Mc rc) :
    IsLinIter L.A (fun x b => L.post (L.pre x b + L.P (xcOf (L.R (b - L.A (L.pre x b))))) b)
      (compM L.A (compM L.A L.Qpre (L.P ∘ₗ Mc ∘ₗ L.R)) L.Qpost) := by
  have hmid : IsLinIter L.A (fun x b => x + L.P (xcOf (L.R (b - L.A x)))) (L.P ∘ₗ Mc ∘ₗ L.R) := by
    intro x b; simp [hxc]
  exact (hpre.comp hmid).comp hpost

theorem cyc_isLinIter (S : V →ₗ[K] V) :
    ∀ (Ls : List (LinLevel K V)) (c : CType) (L : LinLevel K V) (A : V →ₗ[K] V),
      WFL A (L :: Ls) →
      IsLinIter A (cyc (fun b => S b) c ((L :: Ls).map (·.toLevel))) (Mop S c (L :: Ls)) := by
  intro Ls
  induction Ls with
  | nil =>
    intro c L A h
    obtain ⟨hA, hpre, hpost, _⟩ := h
    subst hA
    have := twoGrid_isLinIter L (fun rc => S rc) S hpre hpost (fun _ => rfl)
    cases c with
    | V => simpa [cyc, Mop] using this
    | W => simpa [cyc, Mop] using this
    | F k =>
      have hi := iter_ignore (fun b => S b)
      simp only [List.map_cons, List.map_nil, cyc, Mop]
      simp only [hi]
      simpa using this
  | cons L' rest ih =>
    intro c L A h
    obtain ⟨hA, hpre, hpost, hrest⟩ := h
    subst hA
    have hc : ∀ c', IsLinIter (L.R ∘ₗ L.A ∘ₗ L.P)
        (cyc (fun b => S b) c' ((L' :: rest).map (·.toLevel))) (Mop S c' (L' :: rest)) :=
      fun c' => ih c' L' _ hrest
    cases c with
    | V =>
      have := twoGrid_isLinIter L (fun rc => cyc (fun b => S b) .V ((L' :: rest).map (·.toLevel)) 0 rc)
        (Mop S .V (L' :: rest)) hpre hpost (fun rc => (hc .V).zero rc)
      simpa [cyc, Mop] using this
    | W =>
      have h2 := (hc .W).comp (hc .W)
      have := twoGrid_isLinIter L
        (fun rc => cyc (fun b => S b) .W ((L' :: rest).map (·.toLevel))
          (cyc (fun b => S b) .W ((L' :: rest).map (·.toLevel)) 0 rc) rc)
        (compM (L.R ∘ₗ L.A ∘ₗ L.P) (Mop S .W (L' :: rest)) (Mop S .W (L' :: rest))) hpre hpost
        (fun rc => h2.zero rc)
      simpa [cyc, Mop] using this
    | F k =>
      have h2 := (hc .V).iter k _ _ (hc (.F k))
      have := twoGrid_isLinIter L
        (fun rc => iter (cyc (fun b => S b) .V ((L' :: rest).map (·.toLevel))) rc k
          (cyc (fun b => S b) (.F k) ((L' :: rest).map (·.toLevel)) 0 rc))
        (iterM (L.R ∘ₗ L.A ∘ₗ L.P) (Mop S .V (L' :: rest)) k (Mop S (.F k) (L' :: rest))) hpre hpost
        (fun rc => h2.zero rc)
      simpa [cyc, Mop] using this

/-- corollary: the exact solution is a fixed point of every cycle -/
theorem cyc_fixed_point (S : V →ₗ[K] V) (Ls : List (LinLevel K V)) (c : CType) (L : LinLevel K V)
    (h : WFL L.A (L :: Ls)) (xs b : V) (hb : L.A xs = b) :
    cyc (fun b => S b) c ((L :: Ls).map (·.toLevel)) xs b = xs := by
  have := cyc_isLinIter S Ls c L L.A h xs b
  rw [this, hb]; simp

#print axioms cyc_isLinIter
end PyamgV
