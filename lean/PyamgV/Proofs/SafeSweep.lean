/-! PyamgV (C17): bounds-safety **and termination** of the strided relaxation sweep
`for(I i = row_start; i != row_stop; i += row_step)` of `gauss_seidel` (relaxation.h:58), with a
checked model: every array access goes through `rdA`/`wrA`, which clear the `ok` flag when the
(signed) index is outside the array. Values are abstract (`α` with arbitrary operations), so the
theorem is about indices only. Core Lean only.

The admissibility condition on `(row_start, row_stop, row_step)` is what the theorem forces:
`row_stop` must be *reachable* from `row_start` in steps of `row_step` through rows `0..n-1`;
otherwise the C++ loop runs off the arrays (seen as a segfault in a probe). -/
namespace PyamgV.SafeSweep

set_option linter.unusedSectionVars false
variable {α : Type} [Inhabited α]

def rdA (a : Array α) (i : Int) (ok : Bool) : α × Bool :=
  if 0 ≤ i ∧ i.toNat < a.size then (a.getD i.toNat default, ok) else (default, false)

def wrA (a : Array α) (i : Int) (v : α) (ok : Bool) : Array α × Bool :=
  if 0 ≤ i ∧ i.toNat < a.size then (a.setIfInBounds i.toNat v, ok) else (a, false)

theorem rdA_ok (a : Array α) (i : Int) (ok : Bool) (h0 : 0 ≤ i) (h1 : i.toNat < a.size) :
    (rdA a i ok).2 = ok := by
  unfold rdA; rw [if_pos ⟨h0, h1⟩]

theorem wrA_ok (a : Array α) (i : Int) (v : α) (ok : Bool) (h0 : 0 ≤ i) (h1 : i.toNat < a.size) :
    (wrA a i v ok).2 = ok := by
  unfold wrA; rw [if_pos ⟨h0, h1⟩]

theorem wrA_size (a : Array α) (i : Int) (v : α) (ok : Bool) : (wrA a i v ok).1.size = a.size := by
  unfold wrA; split <;> simp

/-- abstract arithmetic of the kernel -/
structure Ops (α : Type) where
  mul : α → α → α
  add : α → α → α
  sub : α → α → α
  div : α → α → α
  zero : α
  isZero : α → Bool

structure Csr (α : Type) where
  n : Nat
  ap : Array Int
  aj : Array Int
  ax : Array α

/-- structural validity: `n` rows, `n` columns -/
structure WF (G : Csr α) : Prop where
  ap_size : G.ap.size = G.n + 1
  ap0 : 0 ≤ G.ap.getD 0 0
  mono : ∀ i, i < G.n → G.ap.getD i 0 ≤ G.ap.getD (i+1) 0
  last_j : G.ap.getD G.n 0 ≤ (G.aj.size : Int)
  last_x : G.ap.getD G.n 0 ≤ (G.ax.size : Int)
  cols : ∀ jj, jj < G.aj.size → 0 ≤ G.aj.getD jj 0 ∧ G.aj.getD jj 0 < (G.n : Int)

theorem ap_nonneg (G : Csr α) (h : WF G) : ∀ i, i ≤ G.n → 0 ≤ G.ap.getD i 0 := by
  intro i
  induction i with
  | zero => intro _; exact h.ap0
  | succ i ih => intro hi; exact Int.le_trans (ih (by omega)) (h.mono i (by omega))

theorem ap_le_last (G : Csr α) (h : WF G) : ∀ i, i ≤ G.n → G.ap.getD i 0 ≤ G.ap.getD G.n 0 := by
  intro i hi
  induction hd : G.n - i generalizing i with
  | zero => have : i = G.n := by omega
            subst this; exact Int.le_refl _
  | succ d ih =>
    have hlt : i < G.n := by omega
    exact Int.le_trans (h.mono i hlt) (ih (i+1) (by omega) (by omega))

/-- inner loop `for(jj = start; jj < end; jj++)` as a fold over the visited `jj` -/
def scan (o : Ops α) (G : Csr α) (i : Int) (x : Array α) (jjs : List Int)
    (acc : α × α × Bool) : α × α × Bool :=
  jjs.foldl (fun (acc : α × α × Bool) jj =>
    let (rsum, diag, ok) := acc
    let (j, ok) := rdA G.aj jj ok
    let (a, ok) := rdA G.ax jj ok
    if i = j then (rsum, a, ok)
    else
      let (xj, ok) := rdA x j ok
      (o.add rsum (o.mul a xj), diag, ok)) acc

def jjRange (s e : Int) : List Int := (List.range (e - s).toNat).map (fun (k : Nat) => s + (k : Int))

def gsRow (o : Ops α) (G : Csr α) (b : Array α) (i : Int) (st : Array α × Bool) :
    Array α × Bool :=
  let (x, ok) := st
  let (s, ok) := rdA G.ap i ok
  let (e, ok) := rdA G.ap (i+1) ok
  let (rsum, diag, ok) := scan o G i x (jjRange s e) (o.zero, o.zero, ok)
  if o.isZero diag then (x, ok)
  else
    let (bi, ok) := rdA b i ok
    wrA x i (o.div (o.sub bi rsum) diag) ok

/-- the outer loop, literally: `i != stop`, `i += step`; `fuel` bounds the unrolling and the
second component says whether the loop exited by itself -/
def sweep (o : Ops α) (G : Csr α) (b : Array α) (stop step : Int) :
    Nat → Int → Array α × Bool → (Array α × Bool) × Bool
  | 0, i, st => (st, decide (i = stop))
  | fuel+1, i, st =>
    if i = stop then (st, true)
    else sweep o G b stop step fuel (i + step) (gsRow o G b i st)

theorem scan_safe (o : Ops α) (G : Csr α) (hG : WF G) (i : Int) (x : Array α)
    (hx : x.size = G.n) (jjs : List Int)
    (hjj : ∀ jj ∈ jjs, 0 ≤ jj ∧ jj < (G.aj.size : Int) ∧ jj < (G.ax.size : Int))
    (acc : α × α × Bool) (hok : acc.2.2 = true) :
    (scan o G i x jjs acc).2.2 = true := by
  induction jjs generalizing acc with
  | nil => simpa [scan] using hok
  | cons jj rest ih =>
    obtain ⟨h0, h1, h2⟩ := hjj jj (by simp)
    have hrest : ∀ jj ∈ rest, 0 ≤ jj ∧ jj < (G.aj.size : Int) ∧ jj < (G.ax.size : Int) :=
      fun a ha => hjj a (by simp [ha])
    obtain ⟨rsum, diag, ok⟩ := acc
    simp only at hok
    subst hok
    have hj1 : jj.toNat < G.aj.size := by omega
    have hj2 : jj.toNat < G.ax.size := by omega
    unfold scan
    rw [List.foldl_cons]
    have e1 : rdA G.aj jj true = (G.aj.getD jj.toNat default, true) := by
      unfold rdA; rw [if_pos ⟨h0, hj1⟩]
    have e2 : rdA G.ax jj true = (G.ax.getD jj.toNat default, true) := by
      unfold rdA; rw [if_pos ⟨h0, hj2⟩]
    simp only [e1, e2]
    have hcol := hG.cols jj.toNat hj1
    have hd : G.aj.getD jj.toNat default = G.aj.getD jj.toNat 0 := rfl
    by_cases hij : i = G.aj.getD jj.toNat default
    · rw [if_pos hij]
      exact ih hrest _ rfl
    · rw [if_neg hij]
      have e3 : (rdA x (G.aj.getD jj.toNat default) true).2 = true := by
        apply rdA_ok
        · rw [hd]; exact hcol.1
        · rw [hd, hx]; omega
      have : ∀ p : α × Bool, p.2 = true → p = (p.1, true) := by
        intro p hp; exact Prod.ext rfl hp
      rw [this _ e3]
      exact ih hrest _ rfl

theorem gsRow_safe (o : Ops α) (G : Csr α) (hG : WF G) (b : Array α) (hb : b.size = G.n)
    (i : Int) (hi0 : 0 ≤ i) (hi1 : i < (G.n : Int)) (st : Array α × Bool)
    (hx : st.1.size = G.n) (hok : st.2 = true) :
    (gsRow o G b i st).2 = true ∧ (gsRow o G b i st).1.size = G.n := by
  obtain ⟨x, ok⟩ := st
  simp only at hx hok
  subst hok
  have hin : i.toNat < G.n := by omega
  have ha1 : i.toNat < G.ap.size := by rw [hG.ap_size]; omega
  have ha2 : (i+1).toNat < G.ap.size := by rw [hG.ap_size]; omega
  have e1 : rdA G.ap i true = (G.ap.getD i.toNat default, true) := by
    unfold rdA; rw [if_pos ⟨hi0, ha1⟩]
  have e2 : rdA G.ap (i+1) true = (G.ap.getD (i+1).toNat default, true) := by
    unfold rdA; rw [if_pos ⟨by omega, ha2⟩]
  have hs : (i+1).toNat = i.toNat + 1 := by omega
  have hd : ∀ k, G.ap.getD k default = G.ap.getD k 0 := fun _ => rfl
  -- the visited jj are inside Aj and Ax
  have hjj : ∀ jj ∈ jjRange (G.ap.getD i.toNat default) (G.ap.getD (i+1).toNat default),
      0 ≤ jj ∧ jj < (G.aj.size : Int) ∧ jj < (G.ax.size : Int) := by
    intro jj hjj
    unfold jjRange at hjj
    rw [List.mem_map] at hjj
    obtain ⟨k, hk, rfl⟩ := hjj
    rw [List.mem_range] at hk
    have h1 := ap_nonneg G hG i.toNat (by omega)
    have h2 := ap_le_last G hG (i.toNat + 1) (by omega)
    have h3 := hG.last_j
    have h4 := hG.last_x
    rw [hd, hd, hs] at hk
    rw [hd]
    omega
  unfold gsRow
  simp only [e1, e2]
  have hsc := scan_safe o G hG i x hx _ hjj (o.zero, o.zero, true) rfl
  generalize scan o G i x _ (o.zero, o.zero, true) = r at hsc
  obtain ⟨rsum, diag, ok'⟩ := r
  simp only at hsc
  subst hsc
  simp only
  by_cases hz : o.isZero diag = true
  · rw [if_pos hz]; exact ⟨rfl, hx⟩
  · rw [if_neg hz]
    have e3 : rdA b i true = (b.getD i.toNat default, true) := by
      unfold rdA; rw [if_pos ⟨hi0, by rw [hb]; exact hin⟩]
    simp only [e3]
    refine ⟨?_, ?_⟩
    · rw [wrA_ok _ _ _ _ hi0 (by rw [hx]; exact hin)]
    · rw [wrA_size]; exact hx

/-- admissible sweep ranges: `stop` is reached from `start` after exactly `k` steps, all visited
rows lie in `0..n-1`, and `stop` is not hit earlier (automatic when `step ≠ 0`) -/
structure Adm (n : Nat) (start stop step : Int) (k : Nat) : Prop where
  step_ne : step ≠ 0
  reach : stop = start + (k : Int) * step
  rows : ∀ j : Nat, j < k → 0 ≤ start + (j : Int) * step ∧ start + (j : Int) * step < (n : Int)

theorem adm_not_early {n : Nat} {start stop step : Int} {k : Nat} (h : Adm n start stop step k)
    (j : Nat) (hj : j < k) : start + (j : Int) * step ≠ stop := by
  intro he
  have h1 := h.reach
  have h2 : ((k : Int) - (j : Int)) * step = 0 := by
    rw [Int.sub_mul]; omega
  rcases Int.mul_eq_zero.mp h2 with h3 | h3
  · omega
  · exact h.step_ne h3

/-- **C17 for the strided Gauss–Seidel sweep**: for every structurally valid CSR matrix, vectors
of matching length and every admissible `(start, stop, step)`, the literal loop terminates by
itself (within `k` iterations) and no access leaves its array. -/
theorem sweep_safe (o : Ops α) (G : Csr α) (hG : WF G) (b : Array α) (hb : b.size = G.n)
    (stop step : Int) :
    ∀ (k : Nat) (start : Int), Adm G.n start stop step k →
    ∀ (fuel : Nat), k ≤ fuel → ∀ (st : Array α × Bool), st.1.size = G.n → st.2 = true →
      (sweep o G b stop step fuel start st).2 = true ∧
      (sweep o G b stop step fuel start st).1.2 = true ∧
      (sweep o G b stop step fuel start st).1.1.size = G.n := by
  intro k
  induction k with
  | zero =>
    intro start hadm fuel _ st hx hok
    have hs : start = stop := by have := hadm.reach; simp at this; exact this.symm
    cases fuel with
    | zero => unfold sweep; simp [hs, hok, hx]
    | succ f => unfold sweep; rw [if_pos hs]; exact ⟨rfl, hok, hx⟩
  | succ k ih =>
    intro start hadm fuel hf st hx hok
    cases fuel with
    | zero => omega
    | succ f =>
      have hne : start ≠ stop := by
        have := adm_not_early hadm 0 (by omega); simpa using this
      have hrow := hadm.rows 0 (by omega)
      have hz0 : start + ((0 : Nat) : Int) * step = start := by simp
      rw [hz0] at hrow
      unfold sweep
      rw [if_neg hne]
      obtain ⟨h1, h2⟩ := gsRow_safe o G hG b hb start hrow.1 hrow.2 st hx hok
      have hadm' : Adm G.n (start + step) stop step k := by
        refine ⟨hadm.step_ne, ?_, ?_⟩
        · have := hadm.reach
          rw [this]; push_cast; rw [Int.add_mul]; omega
        · intro j hj
          have := hadm.rows (j+1) (by omega)
          have e : start + step + (j : Int) * step = start + ((j + 1 : Nat) : Int) * step := by
            push_cast; rw [Int.add_mul]; omega
          rw [e]; exact this
      exact ih (start + step) hadm' f (by omega) _ h2 h1

/-- the two call shapes `relaxation.py` uses are admissible -/
theorem adm_forward (n : Nat) : Adm n 0 n 1 n :=
  ⟨by decide, by omega, fun j hj => by omega⟩

theorem adm_backward (n : Nat) : Adm n ((n : Int) - 1) (-1) (-1) n :=
  ⟨by decide, by omega, fun j hj => by omega⟩

#print axioms sweep_safe
end PyamgV.SafeSweep
