import PyamgV.Proofs.ExtC05BridgeC1

/-! PyamgV (C05, extension E23, complex case, part C2): **flag `True` ⇒ the executed matrix `denseM` over a
field with involution (the Gaussian rationals of the complex cycle model) is Hermitian.**

The second half of `Proofs/ExtC05RefineSym.lean` with `IsAdjS` in the place of `IsAdj`:
`SymHS` (Hermitian level matrices and coarsest matrix, `R = Pᴴ` as operators), the stored diagonal of a
Hermitian CSR operator is real (`diagFn_real`), `wfs_absS`, `coarseInv_symS`, and
`flag_denseM_hermitian`: `mget M i j = star (mget M j i)` whenever `denseM` returns `M` (V and W). -/
set_option linter.unusedSectionVars false
namespace PyamgV.CF.C05
open PyamgV PyamgV.C05 PyamgV.CF Finset

variable {F : Type} [Field F] [DecidableEq F] [StarRing F]

/-- Hermitian model hierarchy: every level matrix and the coarsest matrix are Hermitian and the restriction
is the conjugate transpose of the prolongation (as operators on the first `n` coordinates) -/
def SymHS (Ac : K.Csr F) : List (Lvl F) → Prop
  | [] => IsAdjS Ac.n Ac.n (csrOp Ac.n (rowOf Ac)) (csrOp Ac.n (rowOf Ac))
  | L :: rest =>
      IsAdjS L.A.n L.A.n (csrOp L.A.n (rowOf L.A)) (csrOp L.A.n (rowOf L.A)) ∧
      IsAdjS L.A.n L.R.n (csrOp L.P.n (rowOf L.P)) (csrOp L.R.n (rowOf L.R)) ∧
      SymHS Ac rest

def sizes : List (Lvl F) → List Nat
  | [] => []
  | L :: rest => L.R.n :: sizes rest

/-- a self-adjoint operator has a Hermitian matrix -/
theorem isAdjS_entries (n : Nat) (M : Op F) (h : IsAdjS n n M M) (i j : Nat) (hi : i < n) (hj : j < n) :
    M (Pi.single j 1) i = star (M (Pi.single i 1) j) := by
  have h1 := sdot_single_right n j hj (M (Pi.single i 1)) (1 : F)
  have h2 := sdot_single_left n i hi (M (Pi.single j 1)) (1 : F)
  rw [one_smul, mul_one] at h1
  rw [one_smul, star_one, one_mul] at h2
  rw [← h1, ← h2, h (Pi.single i 1) (Pi.single j 1)]

theorem rowDot_single (row : Row F) (i : Nat) :
    rowDot row (Pi.single i 1) = ((row.filter (fun cv => cv.1 = i)).map (·.2)).sum := by
  unfold rowDot
  induction row with
  | nil => simp
  | cons cv rest ih =>
    rw [List.map_cons, List.sum_cons, ih]
    by_cases h : cv.1 = i
    · rw [List.filter_cons_of_pos (by simpa using h), List.map_cons, List.sum_cons, h]
      simp
    · rw [List.filter_cons_of_neg (by simpa using h)]
      simp [Pi.single_apply, h]

/-- the stored diagonal of a Hermitian CSR operator is real -/
theorem diagFn_real (A : K.Csr F) (h : IsAdjS A.n A.n (csrOp A.n (rowOf A)) (csrOp A.n (rowOf A)))
    (i : Nat) (hi : i < A.n) : star (diagFn A i) = diagFn A i := by
  have h1 : diagFn A i = csrOp A.n (rowOf A) (Pi.single i 1) i := by
    rw [csrOp_apply _ _ _ _ hi, rowDot_single]
    rfl
  rw [h1]
  exact (isAdjS_entries A.n _ h i i hi hi).symm

theorem wfs_absS (Ac : K.Csr F) (S : Op F) (hSs : IsAdjS Ac.n Ac.n S S) (pre post : List Cfg) :
    ∀ (Ls : List (Lvl F)) (i n : Nat), PyamgV.C05.Shaped Ac.n n Ls → (∀ L ∈ Ls, LvlOK L) → SymHS Ac Ls →
      Installed pre post i Ls →
      (∀ j, i ≤ j → j < i + Ls.length → levelOk (preAt pre j) (postAt post j) = true) →
      WFSS S n (sizes Ls) (Ls.map absLvl) := by
  intro Ls
  induction Ls with
  | nil =>
    intro i n hs _ _ _ _
    have hn : n = Ac.n := hs
    subst hn
    exact hSs
  | cons L rest ih =>
    intro i n hs hok hsym hinst hlev
    obtain ⟨hAn, _, hC, hrest⟩ := hs
    obtain ⟨hCn, hdiag⟩ := hok L (by simp)
    obtain ⟨hA, hP, hsymr⟩ := hsym
    obtain ⟨hpre, hpost, hinstr⟩ := hinst
    subst hAn
    have hl := hlev i (Nat.le_refl i) (by simp)
    have hpart := levelOk_partner _ _ hl L.pre L.post hpre hpost
    have hadj := partner_adjointS L.A.n (csrOp L.A.n (rowOf L.A)) (diagFn L.A) L.C (fpts L.A L.C) hA
      (diagFn_real L.A hA) hC (fpts_lt L.A L.C) L.pre L.post hpart
    refine ⟨hA, hadj, hP, ?_⟩
    exact ih (i+1) L.R.n hrest (fun L' hL' => hok L' (by simp [hL'])) hsymr hinstr
      (fun j h1 h2 => hlev j (by omega) (by simp only [List.length_cons]; omega))

theorem symHS_coarse (Ac : K.Csr F) : ∀ (Ls : List (Lvl F)), SymHS Ac Ls →
    IsAdjS Ac.n Ac.n (csrOp Ac.n (rowOf Ac)) (csrOp Ac.n (rowOf Ac)) := by
  intro Ls
  induction Ls with
  | nil => intro h; exact h
  | cons L rest ih => intro h; exact ih h.2.2

/-- a right inverse of a Hermitian matrix is Hermitian -/
theorem coarseInv_symS (Ac : K.Csr F) (S : Op F) (hS : CoarseInv Ac S)
    (hA : IsAdjS Ac.n Ac.n (csrOp Ac.n (rowOf Ac)) (csrOp Ac.n (rowOf Ac))) :
    IsAdjS Ac.n Ac.n S S := by
  intro u v
  have h1 : sdot Ac.n (S u) v = sdot Ac.n (S u) (csrOp Ac.n (rowOf Ac) (S v)) := by
    unfold sdot
    apply Finset.sum_congr rfl
    intro i hi
    rw [hS.right v i (Finset.mem_range.1 hi)]
  have h2 : sdot Ac.n u (S v) = sdot Ac.n (csrOp Ac.n (rowOf Ac) (S u)) (S v) := by
    unfold sdot
    apply Finset.sum_congr rfl
    intro i hi
    rw [hS.right u i (Finset.mem_range.1 hi)]
  rw [h1, h2, ← hA (S u) (S v)]

/-- **C05 for the executed definition over a field with involution**, coarsest matrix invertible -/
theorem flag_denseM_hermitian_of_inv (ofRat : Rat → F) (hof : ∀ q, ofRat q = (q : F))
    (pre post : List Cfg) (hp : 1 ≤ pre.length) (hq : 1 ≤ post.length)
    (Ac : K.Csr F) (Ls : List (Lvl F))
    (hflag : flag pre post Ls.length = some true) (hinst : Installed pre post 0 Ls)
    (n : Nat) (hshape : PyamgV.C05.Shaped Ac.n n Ls) (hok : ∀ L ∈ Ls, LvlOK L) (hsym : SymHS Ac Ls)
    (S : Op F) (hS : CoarseInv Ac S)
    (c : Cyc) (M : Mat F) (h : denseM ofRat Ac c Ls = some M) :
    M.size = n ∧ ∀ i j, i < n → j < n → mget M i j = star (mget M j i) := by
  obtain ⟨hsz, hent⟩ := denseM_entries ofRat hof Ac S hS c Ls n hshape hok M h
  refine ⟨hsz, ?_⟩
  have hlev := flag_sound pre post Ls.length hp hq hflag
  have hwfs := wfs_absS Ac S (coarseInv_symS Ac S hS (symHS_coarse Ac Ls hsym)) pre post Ls 0 n hshape hok hsym hinst
    (fun j _ h2 => hlev j (by omega))
  obtain ⟨hV, hW⟩ := MopL_symS S (Ls.map absLvl) n (sizes Ls) hwfs
  have hadj : IsAdjS n n (precOp S c Ls) (precOp S c Ls) := by
    cases c with
    | V => exact hV
    | W => exact hW
  intro i j hi hj
  rw [hent i j hi hj, hent j i hj hi]
  exact isAdjS_entries n _ hadj i j hi hj

/-- **C05 for the executed definition over a field with involution, final form.** `pre`, `post`: the lists
handed to `change_smoothers`; `Ls`, `Ac`: a model hierarchy carrying the smoothers they install, of matching
shapes, one stored non-zero diagonal entry per row, Hermitian level matrices and coarsest matrix, `R = Pᴴ`
(`SymHS`). If the decision table reports `symmetric_smoothing = True`, then **whenever `denseM` returns a
matrix `M` -- V- and W-cycle -- `M` is Hermitian: `M i j = star (M j i)`.** -/
theorem flag_denseM_hermitian (ofRat : Rat → F) (hof : ∀ q, ofRat q = (q : F))
    (pre post : List Cfg) (hp : 1 ≤ pre.length) (hq : 1 ≤ post.length)
    (Ac : K.Csr F) (Ls : List (Lvl F))
    (hflag : flag pre post Ls.length = some true) (hinst : Installed pre post 0 Ls)
    (n : Nat) (hshape : PyamgV.C05.Shaped Ac.n n Ls) (hok : ∀ L ∈ Ls, LvlOK L) (hsym : SymHS Ac Ls)
    (c : Cyc) (M : Mat F) (h : denseM ofRat Ac c Ls = some M) :
    M.size = n ∧ ∀ i j, i < n → j < n → mget M i j = star (mget M j i) := by
  refine ⟨denseM_size ofRat Ac c Ls n hshape M h, ?_⟩
  intro i j hi hj
  have hS := denseM_coarseInv ofRat Ac c Ls n (by omega) hshape M h
  exact (flag_denseM_hermitian_of_inv ofRat hof pre post hp hq Ac Ls hflag hinst n hshape hok hsym
    (coarseS Ac) hS c M h).2 i j hi hj

#print axioms flag_denseM_hermitian
end PyamgV.CF.C05
