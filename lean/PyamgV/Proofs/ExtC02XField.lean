import PyamgV.Proofs.ExtComplexGs
import PyamgV.Proofs.C02Jacobi
import PyamgV.Proofs.ExtC02XRefine

/-! PyamgV (extension E35, property C02): the array-refinement lemmas of `Proofs/C02Refine.lean`,
`Proofs/C02Jacobi.lean`, `Proofs/Jacobi.lean` over an **arbitrary field with decidable equality**
(no order): there they are stated in a section that carries an ordered field, so they cannot be used for
the Gaussian rationals `CRat`.  Same statements, same proofs (the order is never used). -/
set_option linter.unusedSectionVars false
set_option linter.unusedVariables false
namespace PyamgV.C02X
open PyamgV

variable {R : Type} [Field R] [DecidableEq R]

theorem fn_wr (x : Array R) (i : Nat) (v : R) (hi : i < x.size) :
    fn (K.wr x i v) = Function.update (fn x) i v := fn_wr_field x i v hi
theorem rowScan_spec (i : Nat) (row : Row R) (x : Nat → R) :
    ∀ (acc : R × R),
      (row.foldl (fun acc cv => if cv.1 = i then (acc.1, cv.2) else (acc.1 + cv.2 * x cv.1, acc.2)) acc).1
        = acc.1 + ((row.filter (fun cv => cv.1 ≠ i)).map (fun cv => cv.2 * x cv.1)).sum ∧
      (row.foldl (fun acc cv => if cv.1 = i then (acc.1, cv.2) else (acc.1 + cv.2 * x cv.1, acc.2)) acc).2
        = (((row.filter (fun cv => cv.1 = i)).map (·.2)).getLast?).getD acc.2 := rowScan_spec_field i row x
theorem rowDot_split (i : Nat) (row : Row R) (x : Nat → R) (d : R) (hd : HasDiag i row d) :
    rowDot row x = ((row.filter (fun cv => cv.1 ≠ i)).map (fun cv => cv.2 * x cv.1)).sum + d * x i :=
  rowDot_split_field i row x d hd

theorem fn_map_range (n : Nat) (f : Nat → R) (i : Nat) :
    fn ((Array.range n).map f) i = if i < n then f i else 0 := by
  unfold fn K.rd
  by_cases h : i < n
  · simp [h]
  · simp [h]

theorem size_map_range (n : Nat) (f : Nat → R) : ((Array.range n).map f).size = n := by simp

theorem foldl_add_eq_sum {β : Type} (l : List β) (g : β → R) (s : R) :
    l.foldl (fun s j => s + g j) s = s + (l.map g).sum := by
  induction l generalizing s with
  | nil => simp
  | cons a l ih => simp only [List.foldl_cons, List.map_cons, List.sum_cons]; rw [ih]; ring

theorem spmv_size (A : K.Csr R) (x : Array R) : (C02.spmv A x).size = A.n := by
  unfold C02.spmv; simp

theorem fn_zero_of_size (x : Array R) (i : Nat) (h : x.size ≤ i) : fn x i = 0 := by
  unfold fn K.rd; simp [h]

theorem vsub_refines (x y : Array R) (h : y.size ≤ x.size) : fn (C02.vsub x y) = fn x - fn y := by
  funext i
  unfold C02.vsub
  rw [fn_map_range]
  by_cases hi : i < x.size
  · simp [hi, fn]
  · have h1 := fn_zero_of_size x i (by omega)
    have h2 := fn_zero_of_size y i (by omega)
    simp [hi, h1, h2]

theorem vadd_refines (x y : Array R) (h : y.size ≤ x.size) : fn (C02.vadd x y) = fn x + fn y := by
  funext i
  unfold C02.vadd
  rw [fn_map_range]
  by_cases hi : i < x.size
  · simp [hi, fn]
  · have h1 := fn_zero_of_size x i (by omega)
    have h2 := fn_zero_of_size y i (by omega)
    simp [hi, h1, h2]


theorem zeros_refines (n : Nat) : fn (C02.zeros n : Array R) = 0 := by
  funext i
  unfold C02.zeros fn K.rd
  by_cases h : i < n <;> simp [h]


/-! Part 2: the SOR kernel model refines `sorSweepFn` (as `gaussSeidel_refines` for Gauss-Seidel);
the drivers of relaxation.py are one sweep over a concatenated row order. -/

/-- one row of the executable SOR kernel = one row of the proof model -/
theorem sorStep_refines (ω : R) (A : K.Csr R) (b x : Array R) (i : Nat) (hi : i < x.size) :
    fn ((fun (x : Array R) (i : Nat) =>
      let (rsum, diag) := (A.jjs i).foldl (fun (acc : R × R) jj =>
        let j := K.rdN A.aj jj
        if i = j then (acc.1, K.rd A.ax jj) else (acc.1 + K.rd A.ax jj * K.rd x j, acc.2))
        ((0:R), (0:R))
      if diag = 0 then x else K.wr x i (ω * ((K.rd b i - rsum) / diag) + (1 - ω) * K.rd x i)) x i) =
    sorRowFn ω i (rowOf A i) (fn b) (fn x) := by
  have hscan : (A.jjs i).foldl (fun (acc : R × R) jj =>
        let j := K.rdN A.aj jj
        if i = j then (acc.1, K.rd A.ax jj) else (acc.1 + K.rd A.ax jj * K.rd x j, acc.2))
        ((0:R), (0:R)) = rowScan i (rowOf A i) (fn x) := by
    unfold rowScan rowOf
    rw [List.foldl_map]
    apply List.foldl_ext
    intro acc jj _
    by_cases h : i = K.rdN A.aj jj
    · simp only [h, if_true]
    · have h' : ¬ K.rdN A.aj jj = i := fun e => h e.symm
      simp only [h, h', if_false]
      rfl
  simp only
  rw [hscan]
  unfold sorRowFn
  rw [show rowScan i (rowOf A i) (fn x) = ((rowScan i (rowOf A i) (fn x)).1,
    (rowScan i (rowOf A i) (fn x)).2) from rfl]
  simp only
  by_cases hd : (rowScan i (rowOf A i) (fn x)).2 = 0
  · rw [if_pos hd, if_pos hd]
  · rw [if_neg hd, if_neg hd, fn_wr _ _ _ hi]
    rfl

/-- **the executable SOR sweep refines `sorSweepFn`** -/
theorem sorGaussSeidel_refines (ω : R) (A : K.Csr R) (b : Array R) :
    ∀ (rows : List Nat) (x : Array R), (∀ i ∈ rows, i < x.size) →
      (K.sorGaussSeidel ω A b rows x).size = x.size ∧
      fn (K.sorGaussSeidel ω A b rows x) = sorSweepFn ω (rowOf A) (fn b) rows (fn x) := by
  intro rows
  induction rows with
  | nil => intro x _; exact ⟨rfl, rfl⟩
  | cons i rows ih =>
    intro x hrows
    have hi : i < x.size := hrows i (by simp)
    unfold K.sorGaussSeidel sorSweepFn
    rw [List.foldl_cons, List.foldl_cons]
    have hstep := sorStep_refines ω A b x i hi
    simp only at hstep
    have hsz : ((fun (x : Array R) (i : Nat) =>
        let (rsum, diag) := (A.jjs i).foldl (fun (acc : R × R) jj =>
          let j := K.rdN A.aj jj
          if i = j then (acc.1, K.rd A.ax jj) else (acc.1 + K.rd A.ax jj * K.rd x j, acc.2))
          ((0:R), (0:R))
        if diag = 0 then x else K.wr x i (ω * ((K.rd b i - rsum) / diag) + (1 - ω) * K.rd x i)) x i).size
          = x.size := by
      simp only
      split
      · rfl
      · simp [K.wr]
    have := ih _ (fun j hj => by rw [hsz]; exact hrows j (by simp [hj]))
    unfold K.sorGaussSeidel sorSweepFn at this
    refine ⟨this.1.trans hsz, ?_⟩
    rw [this.2, hstep]

/-- the rows visited by `relaxation.gauss_seidel(A, x, b, iterations, sweep)`, in order -/
theorem gs_iter (A : K.Csr R) (b : Array R) (o : List Nat) (k : Nat) (x : Array R) :
    K.iter (fun x => K.gaussSeidel A b o x) k x = K.gaussSeidel A b (List.replicate k o).flatten x := by
  unfold K.gaussSeidel; exact iter_foldl_flatten _ _ _ _

theorem sor_iter (ω : R) (A : K.Csr R) (b : Array R) (o : List Nat) (k : Nat) (x : Array R) :
    K.iter (fun x => K.sorGaussSeidel ω A b o x) k x =
      K.sorGaussSeidel ω A b (List.replicate k o).flatten x := by
  unfold K.sorGaussSeidel; exact iter_foldl_flatten _ _ _ _

theorem gs_append (A : K.Csr R) (b : Array R) (o₁ o₂ : List Nat) (x : Array R) :
    K.gaussSeidel A b o₂ (K.gaussSeidel A b o₁ x) = K.gaussSeidel A b (o₁ ++ o₂) x := by
  unfold K.gaussSeidel; rw [List.foldl_append]

theorem sor_append (ω : R) (A : K.Csr R) (b : Array R) (o₁ o₂ : List Nat) (x : Array R) :
    K.sorGaussSeidel ω A b o₂ (K.sorGaussSeidel ω A b o₁ x) = K.sorGaussSeidel ω A b (o₁ ++ o₂) x := by
  unfold K.sorGaussSeidel; rw [List.foldl_append]

/-- the Python driver is one kernel sweep over `pyOrder` (plain kernel iff `ω = 1`) -/
theorem pyGaussSeidel_eq (ω : R) (A : K.Csr R) (b : Array R) (iters : Nat) (sw : K.Sweep) (x : Array R) :
    K.pyGaussSeidel ω A b iters sw x =
      if ω = 1 then K.gaussSeidel A b (pyOrder A.n iters sw) x
      else K.sorGaussSeidel ω A b (pyOrder A.n iters sw) x := by
  by_cases hω : ω = 1
  · rw [if_pos hω]
    have hp : ∀ bw, K.gsPass ω A b bw = fun x => K.gaussSeidel A b (K.dirRows A.n bw) x := by
      intro bw; funext x; simp [K.gsPass, hω]
    cases sw <;> simp only [K.pyGaussSeidel, pyOrder, hp]
    · exact gs_iter _ _ _ _ _
    · exact gs_iter _ _ _ _ _
    · simp only [gs_append]; exact gs_iter _ _ _ _ _
  · rw [if_neg hω]
    have hp : ∀ bw, K.gsPass ω A b bw = fun x => K.sorGaussSeidel ω A b (K.dirRows A.n bw) x := by
      intro bw; funext x; simp [K.gsPass, hω]
    cases sw <;> simp only [K.pyGaussSeidel, pyOrder, hp]
    · exact sor_iter _ _ _ _ _ _
    · exact sor_iter _ _ _ _ _ _
    · simp only [sor_append]; exact sor_iter _ _ _ _ _ _


theorem jacRow_formula (ω : R) (i : Nat) (row : Row R) (b temp x : Nat → R) (d : R)
    (hd : HasDiag i row d) (hd0 : d ≠ 0) :
    jacRowFn ω i row b temp x i = temp i + ω * ((b i - rowDot row temp) / d) ∧
    ∀ j, j ≠ i → jacRowFn ω i row b temp x j = x j := by
  obtain ⟨h1, h2⟩ := rowScan_spec i row temp (0, 0)
  have hdiag : (rowScan i row temp).2 = d := by
    unfold rowScan; rw [h2]; unfold HasDiag at hd; rw [hd]; simp
  have hrs : (rowScan i row temp).1 =
      ((row.filter (fun cv => cv.1 ≠ i)).map (fun cv => cv.2 * temp cv.1)).sum := by
    unfold rowScan; rw [h1]; simp
  unfold jacRowFn
  rw [show rowScan i row temp = ((rowScan i row temp).1, (rowScan i row temp).2) from rfl]
  simp only [hdiag, hd0, if_false]
  constructor
  · rw [Function.update_self, hrs, rowDot_split i row temp d hd]
    field_simp
    ring
  · intro j hj; rw [Function.update_of_ne hj]


/-- the copy phase `temp[i] = x[i]` over the swept rows -/
theorem copy_refines (x : Array R) :
    ∀ (rows : List Nat) (t : Array R), t.size = x.size → (∀ i ∈ rows, i < x.size) →
      (rows.foldl (fun t i => K.wr t i (K.rd x i)) t).size = x.size ∧
      ∀ j, fn (rows.foldl (fun t i => K.wr t i (K.rd x i)) t) j = if j ∈ rows then fn x j else fn t j := by
  intro rows
  induction rows with
  | nil => intro t ht _; exact ⟨ht, fun j => by simp⟩
  | cons i rest ih =>
    intro t ht hrows
    have hi : i < t.size := by rw [ht]; exact hrows i (by simp)
    have hsz : (K.wr t i (K.rd x i)).size = x.size := by simp [K.wr, ht]
    obtain ⟨h1, h2⟩ := ih (K.wr t i (K.rd x i)) hsz (fun j hj => hrows j (by simp [hj]))
    rw [List.foldl_cons]
    refine ⟨h1, fun j => ?_⟩
    rw [h2 j, fn_wr _ _ _ hi]
    by_cases hjr : j ∈ rest
    · simp [hjr]
    · by_cases hji : j = i
      · subst hji; simp [hjr, fn]
      · simp [hjr, hji, Function.update_of_ne hji]

/-- one row of the executable Jacobi kernel = `jacRowFn` -/
theorem jacStep_refines (ω : R) (A : K.Csr R) (b temp x : Array R) (i : Nat) (hi : i < x.size) :
    fn ((fun (x : Array R) (i : Nat) =>
      let (rsum, diag) := (A.jjs i).foldl (fun (acc : R × R) jj =>
        let j := K.rdN A.aj jj
        if i = j then (acc.1, K.rd A.ax jj) else (acc.1 + K.rd A.ax jj * K.rd temp j, acc.2))
        ((0:R), (0:R))
      if diag = 0 then x else K.wr x i ((1 - ω) * K.rd temp i + ω * ((K.rd b i - rsum) / diag))) x i) =
    jacRowFn ω i (rowOf A i) (fn b) (fn temp) (fn x) := by
  have hscan : (A.jjs i).foldl (fun (acc : R × R) jj =>
        let j := K.rdN A.aj jj
        if i = j then (acc.1, K.rd A.ax jj) else (acc.1 + K.rd A.ax jj * K.rd temp j, acc.2))
        ((0:R), (0:R)) = rowScan i (rowOf A i) (fn temp) := by
    unfold rowScan rowOf
    rw [List.foldl_map]
    apply List.foldl_ext
    intro acc jj _
    by_cases h : i = K.rdN A.aj jj
    · simp only [h, if_true]
    · have h' : ¬ K.rdN A.aj jj = i := fun e => h e.symm
      simp only [h, h', if_false]
      rfl
  simp only
  rw [hscan]
  unfold jacRowFn
  rw [show rowScan i (rowOf A i) (fn temp) = ((rowScan i (rowOf A i) (fn temp)).1,
    (rowScan i (rowOf A i) (fn temp)).2) from rfl]
  simp only
  by_cases hd : (rowScan i (rowOf A i) (fn temp)).2 = 0
  · rw [if_pos hd, if_pos hd]
  · rw [if_neg hd, if_neg hd, fn_wr _ _ _ hi]
    rfl

/-- the row loop of the Jacobi kernel with the frozen copy `temp` -/
theorem jacLoop_refines (ω : R) (A : K.Csr R) (b temp : Array R) :
    ∀ (rows : List Nat) (x : Array R), (∀ i ∈ rows, i < x.size) →
      (rows.foldl (fun x i =>
        let (rsum, diag) := (A.jjs i).foldl (fun (acc : R × R) jj =>
          let j := K.rdN A.aj jj
          if i = j then (acc.1, K.rd A.ax jj) else (acc.1 + K.rd A.ax jj * K.rd temp j, acc.2))
          ((0:R), (0:R))
        if diag = 0 then x else K.wr x i ((1 - ω) * K.rd temp i + ω * ((K.rd b i - rsum) / diag))) x).size
        = x.size ∧
      fn (rows.foldl (fun x i =>
        let (rsum, diag) := (A.jjs i).foldl (fun (acc : R × R) jj =>
          let j := K.rdN A.aj jj
          if i = j then (acc.1, K.rd A.ax jj) else (acc.1 + K.rd A.ax jj * K.rd temp j, acc.2))
          ((0:R), (0:R))
        if diag = 0 then x else K.wr x i ((1 - ω) * K.rd temp i + ω * ((K.rd b i - rsum) / diag))) x) =
      jacSweepFn ω (rowOf A) (fn b) (fn temp) rows (fn x) := by
  intro rows
  induction rows with
  | nil => intro x _; exact ⟨rfl, rfl⟩
  | cons i rows ih =>
    intro x hrows
    have hi : i < x.size := hrows i (by simp)
    unfold jacSweepFn
    rw [List.foldl_cons, List.foldl_cons]
    have hstep := jacStep_refines ω A b temp x i hi
    simp only at hstep
    have hsz : ((fun (x : Array R) (i : Nat) =>
        let (rsum, diag) := (A.jjs i).foldl (fun (acc : R × R) jj =>
          let j := K.rdN A.aj jj
          if i = j then (acc.1, K.rd A.ax jj) else (acc.1 + K.rd A.ax jj * K.rd temp j, acc.2))
          ((0:R), (0:R))
        if diag = 0 then x else K.wr x i ((1 - ω) * K.rd temp i + ω * ((K.rd b i - rsum) / diag))) x i).size
          = x.size := by
      simp only
      split
      · rfl
      · simp [K.wr]
    have := ih _ (fun j hj => by rw [hsz]; exact hrows j (by simp [hj]))
    unfold jacSweepFn at this
    refine ⟨this.1.trans hsz, ?_⟩
    rw [this.2, hstep]

/-- the whole kernel call `jacobi(Ap, Aj, Ax, x, b, temp, 0, n, 1, omega)` with `x.size = n` -/
theorem jacobi_refines (ω : R) (A : K.Csr R) (b x : Array R) (n : Nat) (hx : x.size = n) :
    (K.jacobi ω A b (List.range n) (Array.replicate x.size 0) x).size = n ∧
    fn (K.jacobi ω A b (List.range n) (Array.replicate x.size 0) x) =
      jacSweepFn ω (rowOf A) (fn b) (fn x) (List.range n) (fn x) := by
  have hrows : ∀ i ∈ List.range n, i < x.size := fun i hi => by rw [hx]; simpa using hi
  obtain ⟨_, hc2⟩ := copy_refines x (List.range n) (Array.replicate x.size 0) (by simp) hrows
  have htemp : fn ((List.range n).foldl (fun t i => K.wr t i (K.rd x i)) (Array.replicate x.size 0)) = fn x := by
    funext j
    rw [hc2 j]
    by_cases hj : j ∈ List.range n
    · simp [hj]
    · have : x.size ≤ j := by rw [hx]; simpa using hj
      rw [if_neg hj, fn_zero_of_size x j this]
      exact fn_zero_of_size _ j (by simpa using this)
  unfold K.jacobi
  simp only
  obtain ⟨h1, h2⟩ := jacLoop_refines ω A b
    ((List.range n).foldl (fun t i => K.wr t i (K.rd x i)) (Array.replicate x.size 0)) (List.range n) x hrows
  refine ⟨by rw [h1, hx], ?_⟩
  rw [h2, htemp]

/-- with one stored non-zero diagonal per row, a sweep over rows `< n` writes the Jacobi values on the
swept rows and leaves the others -/
theorem jacSweep_formula (ω : R) (n : Nat) (rows : Nat → Row R) (diag : Nat → R)
    (hdiag : ∀ i, i < n → HasDiag i (rows i) (diag i) ∧ diag i ≠ 0) (b temp : Nat → R) :
    ∀ (order : List Nat), (∀ i ∈ order, i < n) → ∀ (y : Nat → R) (j : Nat),
      jacSweepFn ω rows b temp order y j =
        if j ∈ order then temp j + ω * ((b j - rowDot (rows j) temp) / diag j) else y j := by
  intro order
  induction order with
  | nil => intro _ y j; simp [jacSweepFn]
  | cons i rest ih =>
    intro horder y j
    have hi : i < n := horder i (by simp)
    obtain ⟨f1, f2⟩ := jacRow_formula ω i (rows i) b temp y (diag i) (hdiag i hi).1 (hdiag i hi).2
    have := ih (fun k hk => horder k (by simp [hk])) (jacRowFn ω i (rows i) b temp y) j
    unfold jacSweepFn at this ⊢
    rw [List.foldl_cons, this]
    by_cases hjr : j ∈ rest
    · simp [hjr]
    · by_cases hji : j = i
      · subst hji; simp [hjr, f1]
      · simp [hjr, hji, f2 j hji]


end PyamgV.C02X
