import PyamgV.Proofs.Cycle
import PyamgV.Proofs.Misc
import PyamgV.Proofs.SolveLoop

/-! PyamgV (C02): theorems that discharge the hypotheses of `cyc_nonexp` from what the code
establishes, and carry the cycle statement over to the stand-alone solve.

* `NonExp.congr/comp/foldl` : non-expansive iterations are closed under composition (pre-smoother
  lists, `iterations = k`, symmetric sweeps, successive subspace corrections).
* `subspace_step_nonexp`, `schwarz_step_nonexp`, `schwarz_sweep_nonexp` : exact subspace corrections
  (block Gauss-Seidel, multiplicative Schwarz; any blocks, overlapping or not, any order).
* `richardson_nonexp` : `x + ω (b − A x)` under `ω·⟨A r, r⟩ ≤ 2⟨r, r⟩`.
* `cycle_nonexp_of_galerkin` : `cyc_nonexp` with the well-formedness hypothesis replaced by what
  the constructors establish level by level -- `R` adjoint to `P`, coarse matrix `R A P`, smoothers
  non-expansive for the level's own energy form, coarse problems solvable, exact coarsest solve.
* `solve_energy_monotone` : the loop of `MultilevelSolver.solve` (model `PyamgV.solve`) returns an
  iterate whose error energy is not larger than that of `x0`; the iterates handed to the callback
  have non-increasing error energy. -/
namespace PyamgV

variable {K : Type*} [Field K] [LinearOrder K] [IsStrictOrderedRing K]
variable {V : Type*} [AddCommGroup V] [Module K V]

theorem NonExp.congr {E E' : EForm K V} {A : V →ₗ[K] V} {f : V → V → V}
    (h : ∀ v, E.en v = E'.en v) (hf : NonExp E A f) : NonExp E' A f := by
  intro x b xs hb
  rw [← h, ← h]; exact hf x b xs hb

theorem NonExp.id (E : EForm K V) (A : V →ₗ[K] V) : NonExp E A (fun x _ => x) := by
  intro x b xs _; exact le_refl _

/-- first `f`, then `g` -/
theorem NonExp.comp {E : EForm K V} {A : V →ₗ[K] V} {f g : V → V → V}
    (hf : NonExp E A f) (hg : NonExp E A g) : NonExp E A (fun x b => g (f x b) b) := by
  intro x b xs hb
  exact le_trans (hg (f x b) b xs hb) (hf x b xs hb)

/-- a list of steps applied one after the other (a sweep; several sweeps; `iterations = k`) -/
theorem NonExp.foldl {E : EForm K V} {A : V →ₗ[K] V} (steps : List (V → V → V))
    (h : ∀ s ∈ steps, NonExp E A s) :
    NonExp E A (fun x b => steps.foldl (fun x s => s x b) x) := by
  induction steps with
  | nil => exact NonExp.id E A
  | cons s rest ih =>
    intro x b xs hb
    simp only [List.foldl_cons]
    have h1 := h s (by simp) x b xs hb
    have h2 := ih (fun t ht => h t (by simp [ht])) (s x b) b xs hb
    exact le_trans h2 h1

/-- **exact subspace correction** (one block of block Gauss-Seidel, one subdomain of multiplicative
Schwarz): the step adds `I y` where `y` solves the local problem
`a(I y, I z) = a(x* − x, I z)` for all `z` (i.e. `Iᵀ A I y = Iᵀ (b − A x)`). -/
theorem subspace_step_nonexp {W : Type*} [AddCommGroup W] [Module K W]
    (E : EForm K V) (A : V →ₗ[K] V) (I : W →ₗ[K] V) (step : V → V → V)
    (hstep : ∀ x b xs, A xs = b →
      ∃ y, step x b = x + I y ∧ ∀ z, E.a (I y) (I z) = E.a (xs - x) (I z)) :
    NonExp E A step := by
  intro x b xs hb
  obtain ⟨y, hy, horth⟩ := hstep x b xs hb
  have : xs - step x b = (xs - x) - I y := by rw [hy]; abel
  rw [this]
  apply cgc_nonexpansive E I (xs - x) y y horth
  have : I (y - y) = 0 := by simp
  rw [this]
  have h0 : E.en (0 : V) = 0 := by simp [EForm.en]
  rw [h0]; exact E.nonneg _

/-- the same in the operator form of the code: `x ← x + I S Iᵀ (b − A x)` with `Iᵀ` the adjoint of
the injection `I` (Euclidean forms `e` on the space, `ew` on the subdomain) and `S` an exact
inverse of the subdomain matrix `Iᵀ A I` on the range of `Iᵀ` (`inv_subblock`, `Dinv`). -/
theorem schwarz_step_nonexp (e ew : EForm K V) (A I It S : V →ₗ[K] V) (hs hp)
    (hadj : IsAdj e ew I It)
    (hS : ∀ r, (It ∘ₗ A ∘ₗ I) (S (It r)) = It r) :
    NonExp (e.ofOp A hs hp) A (fun x b => x + I (S (It (b - A x)))) := by
  apply subspace_step_nonexp (e.ofOp A hs hp) A I
  intro x b xs hb
  refine ⟨S (It (b - A x)), rfl, ?_⟩
  intro z
  show e.a (A (I (S (It (b - A x))))) (I z) = e.a (A (xs - x)) (I z)
  have hr : b - A x = A (xs - x) := by rw [← hb]; simp
  have h1 : ∀ u, e.a u (I z) = ew.a (It u) z := by
    intro u; rw [e.symm, hadj z u, ew.symm]
  rw [h1, h1]
  have := hS (b - A x)
  simp only [LinearMap.comp_apply] at this
  rw [this, hr]

/-- one subdomain of a sweep: injection, its adjoint, the stored inverse -/
structure Subdomain (K V : Type*) [Field K] [AddCommGroup V] [Module K V] where
  I : V →ₗ[K] V
  It : V →ₗ[K] V
  S : V →ₗ[K] V

/-- **multiplicative Schwarz / block Gauss-Seidel sweep, any order**: successive exact subdomain
corrections never increase the energy of the error (subdomains may overlap, repeat, be visited
forward, backward or both). -/
theorem schwarz_sweep_nonexp (e ew : EForm K V) (A : V →ₗ[K] V) (hs hp)
    (subs : List (Subdomain K V))
    (h : ∀ s ∈ subs, IsAdj e ew s.I s.It ∧ ∀ r, (s.It ∘ₗ A ∘ₗ s.I) (s.S (s.It r)) = s.It r) :
    NonExp (e.ofOp A hs hp) A
      (fun x b => subs.foldl (fun x s => x + s.I (s.S (s.It (b - A x)))) x) := by
  have := NonExp.foldl (E := e.ofOp A hs hp) (A := A)
    (subs.map (fun s => fun x b => x + s.I (s.S (s.It (b - A x)))))
    (by
      intro t ht
      obtain ⟨s, hsm, rfl⟩ := List.mem_map.1 ht
      exact schwarz_step_nonexp e ew A s.I s.It s.S hs hp (h s hsm).1 (h s hsm).2)
  intro x b xs hb
  have h2 := this x b xs hb
  simp only [List.foldl_map] at h2
  exact h2

/-- Richardson `x ← x + ω (b − A x)` (the `richardson` smoother: `polynomial` with the single
coefficient `ω = omega/ρ(A)`): non-expansive when `ω·⟨A r, r⟩ ≤ 2⟨r, r⟩`, i.e. `ω·λ_max(A) ≤ 2`. -/
theorem richardson_nonexp (e : EForm K V) (A : V →ₗ[K] V) (hs hp) (ω : K) (h0 : 0 ≤ ω)
    (hD : ∀ r, ω * e.a (A r) r ≤ 2 * e.a r r) :
    NonExp (e.ofOp A hs hp) A (fun x b => x + ω • (b - A x)) := by
  have := jacobi_nonexp e A LinearMap.id hs hp ω h0 (by intro r; simpa [EForm.en, EForm.ofOp] using hD r)
  simpa using this

/-! ### the cycle theorem with an energy-exact coarsest solve

`WFH` (Proofs/Cycle.lean) asks `solve b = x*` for *every* solution `x*` of the coarsest system, which
needs an injective coarsest matrix.  On a uniform carrier (`Nat → K`, coordinates beyond the level's
size unused) and for rank-deficient `P` (pseudo-inverse coarse solve) no matrix is injective; what
the proof needs is only that the coarse solve leaves an error of zero energy. -/

/-- as `WFH`, but the coarsest solve is exact *in the energy norm* -/
def WFH' (solve : V → V) : (A : V →ₗ[K] V) → (E : EForm K V) → List (Level K V) → Prop
  | A, E, [] => ∀ b xs, A xs = b → E.en (xs - solve b) = 0
  | A, E, L :: rest =>
      L.A = A ∧ NonExp E A L.pre ∧ NonExp E A L.post ∧
      (∀ e w, (L.R ∘ₗ A ∘ₗ L.P) w = L.R (A e) → ∀ v, E.a (L.P w) (L.P v) = E.a e (L.P v)) ∧
      (∀ e, ∃ w, (L.R ∘ₗ A ∘ₗ L.P) w = L.R (A e)) ∧
      WFH' solve (L.R ∘ₗ A ∘ₗ L.P) (E.pull L.P) rest

theorem WFH.toWFH' (solve : V → V) :
    ∀ (Ls : List (Level K V)) (A : V →ₗ[K] V) (E : EForm K V), WFH solve A E Ls → WFH' solve A E Ls := by
  intro Ls
  induction Ls with
  | nil =>
    intro A E h b xs hb
    rw [h b xs hb]; simp [EForm.en]
  | cons L rest ih =>
    intro A E h
    obtain ⟨hA, hpre, hpost, horth, hsolv, hrest⟩ := h
    exact ⟨hA, hpre, hpost, horth, hsolv, ih _ _ hrest⟩

/-- `cyc_nonexp` under the weaker hypothesis (same proof; the coarsest case uses `en = 0`) -/
theorem cyc_nonexp' (solve : V → V) (c : CType) :
    ∀ (Ls : List (Level K V)) (A : V →ₗ[K] V) (E : EForm K V),
      WFH' solve A E Ls → NonExp E A (cyc solve c Ls) := by
  intro Ls
  induction Ls generalizing c with
  | nil =>
    intro A E h x b xs hb
    simp only [cyc]
    rw [h b xs hb]; exact E.nonneg _
  | cons L rest ih =>
    intro A E h x b xs hb
    obtain ⟨hA, hpre, hpost, horth, hsolv, hrest⟩ := h
    subst hA
    have hcoarse : ∀ c', NonExp (E.pull L.P) (L.R ∘ₗ L.A ∘ₗ L.P) (cyc solve c' rest) :=
      fun c' => ih c' _ _ hrest
    set x1 := L.pre x b with hx1
    set e1 := xs - x1 with he1
    have hrc : L.R (b - L.A x1) = L.R (L.A e1) := by
      rw [he1, ← hb]; simp only [map_sub]
    obtain ⟨w, hw⟩ := hsolv e1
    have hxc : ∀ xc : V, (E.pull L.P).en (w - xc) ≤ (E.pull L.P).en (w - 0) →
        E.en (xs - L.post (x1 + L.P xc) b) ≤ E.en (xs - x) := by
      intro xc hle
      have h1 := hpost (x1 + L.P xc) b xs hb
      have h2 : E.en (xs - (x1 + L.P xc)) ≤ E.en e1 := by
        have : xs - (x1 + L.P xc) = e1 - L.P xc := by rw [he1]; abel
        rw [this]
        apply cgc_nonexpansive E L.P e1 w xc (horth e1 w hw)
        simpa using hle
      exact le_trans h1 (le_trans h2 (hpre x b xs hb))
    have hwb : (L.R ∘ₗ L.A ∘ₗ L.P) w = L.R (b - L.A x1) := by rw [hrc]; exact hw
    cases c with
    | V =>
      simp only [cyc]
      exact hxc _ (hcoarse .V 0 _ w hwb)
    | W =>
      simp only [cyc]
      refine hxc _ (le_trans (hcoarse .W _ _ w hwb) (hcoarse .W 0 _ w hwb))
    | F k =>
      simp only [cyc]
      refine hxc _ (le_trans ((hcoarse .V).iter k _ _ w hwb) (hcoarse (.F k) 0 _ w hwb))

/-! ### the cycle theorem from what the constructors establish -/

/-- the form enters `WFH'` only through its values -/
theorem WFH'.congr (solve : V → V) :
    ∀ (Ls : List (Level K V)) (A : V →ₗ[K] V) (E E' : EForm K V),
      (∀ u v, E.a u v = E'.a u v) → WFH' solve A E Ls → WFH' solve A E' Ls := by
  intro Ls
  induction Ls with
  | nil =>
    intro A E E' hE h b xs hb
    have := h b xs hb
    unfold EForm.en at *; rw [← hE]; exact this
  | cons L rest ih =>
    intro A E E' hE h
    obtain ⟨hA, hpre, hpost, horth, hsolv, hrest⟩ := h
    have hen : ∀ v, E.en v = E'.en v := fun v => hE v v
    refine ⟨hA, hpre.congr hen, hpost.congr hen, ?_, hsolv, ?_⟩
    · intro err w hw v; rw [← hE, ← hE]; exact horth err w hw v
    · apply ih _ (E.pull L.P) (E'.pull L.P) _ hrest
      intro u v; simp [EForm.pull, hE]

/-- the Galerkin coarse matrix is symmetric for the coarse Euclidean form -/
theorem galerkin_sym (e ec : EForm K V) (A P R : V →ₗ[K] V) (hs : IsAdj e e A A)
    (hadj : IsAdj e ec P R) : IsAdj ec ec (R ∘ₗ A ∘ₗ P) (R ∘ₗ A ∘ₗ P) := by
  have := (hadj.flip.comp hs).comp hadj
  simpa [LinearMap.comp_assoc] using this

/-- ... and positive semidefinite -/
theorem galerkin_psd (e ec : EForm K V) (A P R : V →ₗ[K] V) (hp : ∀ v, 0 ≤ e.a (A v) v)
    (hadj : IsAdj e ec P R) : ∀ v, 0 ≤ ec.a ((R ∘ₗ A ∘ₗ P) v) v := by
  intro v
  have : ec.a ((R ∘ₗ A ∘ₗ P) v) v = e.a (A (P v)) (P v) := by
    simp only [LinearMap.comp_apply]
    rw [ec.symm, ← hadj v (A (P v)), e.symm]
  rw [this]; exact hp (P v)

/-- what a constructor establishes below a level with Euclidean form `e` and matrix `A`: per level
`R` adjoint to `P`, smoothers non-expansive *for that level's own energy form*, solvable coarse
problems; the next level's matrix is the Galerkin product; the coarsest solve is exact in the
energy norm (`solve b = x*` suffices). -/
def WFG (solve : V → V) : EForm K V → (V →ₗ[K] V) → List (EForm K V × Level K V) → Prop
  | e, A, [] => ∀ b xs, A xs = b → e.a (A (xs - solve b)) (xs - solve b) = 0
  | e, A, (ec, L) :: rest =>
      L.A = A ∧ IsAdj e ec L.P L.R ∧
      (∀ hs hp, NonExp (e.ofOp A hs hp) A L.pre) ∧
      (∀ hs hp, NonExp (e.ofOp A hs hp) A L.post) ∧
      (∀ r, ∃ w, (L.R ∘ₗ A ∘ₗ L.P) w = L.R r) ∧
      WFG solve ec (L.R ∘ₗ A ∘ₗ L.P) rest

theorem WFG.toWFH' (solve : V → V) :
    ∀ (Ls : List (EForm K V × Level K V)) (e : EForm K V) (A : V →ₗ[K] V) (hs hp),
      WFG solve e A Ls → WFH' solve A (e.ofOp A hs hp) (Ls.map Prod.snd) := by
  intro Ls
  induction Ls with
  | nil => intro e A hs hp h; exact h
  | cons eL rest ih =>
    obtain ⟨ec, L⟩ := eL
    intro e A hs hp h
    obtain ⟨hA, hadj, hpre, hpost, hsolv, hrest⟩ := h
    have h1 : ∀ u v, e.a u (L.P v) = ec.a (L.R u) v := by
      intro u v; rw [e.symm, hadj v u, ec.symm]
    refine ⟨hA, hpre hs hp, hpost hs hp, ?_, fun err => hsolv (A err), ?_⟩
    · intro err w hw v
      show e.a (A (L.P w)) (L.P v) = e.a (A err) (L.P v)
      rw [h1, h1]
      have : L.R (A (L.P w)) = L.R (A err) := by simpa using hw
      rw [this]
    · have hsc := galerkin_sym e ec A L.P L.R hs hadj
      have hpc := galerkin_psd e ec A L.P L.R hp hadj
      have := ih ec (L.R ∘ₗ A ∘ₗ L.P) hsc hpc hrest
      apply WFH'.congr solve _ _ _ _ _ this
      intro u v
      show ec.a ((L.R ∘ₗ A ∘ₗ L.P) u) v = e.a (A (L.P u)) (L.P v)
      rw [h1]; rfl

/-- **C02, cycle level**: on a hierarchy as the constructors build it (Galerkin, `R` adjoint to
`P`, non-expansive smoothers per level, exact coarsest solve) every V-, W- and F(k)-cycle of any
depth maps an error to an error of no larger energy, for every `b` and `x`. -/
theorem cycle_nonexp_of_galerkin (solve : V → V) (c : CType)
    (Ls : List (EForm K V × Level K V)) (e : EForm K V) (A : V →ₗ[K] V) (hs hp)
    (h : WFG solve e A Ls) :
    NonExp (e.ofOp A hs hp) A (cyc solve c (Ls.map Prod.snd)) :=
  cyc_nonexp' solve c _ A _ (WFG.toWFH' solve Ls e A hs hp h)

/-! ### the stand-alone solve (`PyamgV.solve` lives in `Type`) -/

section solve
variable {K : Type*} [Field K] [LinearOrder K] [IsStrictOrderedRing K]
variable {V : Type} [AddCommGroup V] [Module K V]

omit [AddCommGroup V] in
theorem iter_succ' (f : V → V → V) (b : V) (k : Nat) (x : V) :
    iter f b (k + 1) x = f (iter f b k x) b := by
  induction k generalizing x with
  | zero => rfl
  | succ k ih => simp only [PyamgV.iter] at *; exact ih (f x b)

omit [AddCommGroup V] in
theorem iterate_eq_iter (f : V → V → V) (b : V) (k : Nat) (x : V) :
    iterate (fun x => f x b) k x = iter f b k x := by
  induction k generalizing x with
  | zero => rfl
  | succ k ih => simp only [iterate, PyamgV.iter]; exact ih (f x b)

/-- the error energy of successive cycles is monotonically non-increasing -/
theorem cycles_monotone {E : EForm K V} {A : V →ₗ[K] V} {f : V → V → V} (h : NonExp E A f)
    (x0 b xs : V) (hb : A xs = b) (k : Nat) :
    E.en (xs - iter f b (k + 1) x0) ≤ E.en (xs - iter f b k x0) := by
  rw [iter_succ']; exact h _ b xs hb

/-- **C02, solve level**: with a non-expansive cycle the loop of `MultilevelSolver.solve`
(`maxiter ≥ 1`, any tolerance test) returns an iterate whose error energy does not exceed that of
`x0` (it never diverges), and the iterates seen by the callback have non-increasing error energy. -/
theorem solve_energy_monotone {E : EForm K V} {A : V →ₗ[K] V} {f : V → V → V} (h : NonExp E A f)
    {R : Type} (resnorm : V → R) (below : R → Bool) (maxiter : Nat) (hm : maxiter ≥ 1)
    (x0 b xs : V) (hb : A xs = b) :
    ∃ o k, solve (fun x => f x b) resnorm below maxiter x0 = some o ∧ 1 ≤ k ∧ k ≤ maxiter ∧
      o.x = iter f b k x0 ∧
      E.en (xs - o.x) ≤ E.en (xs - x0) ∧
      o.cb = (List.range k).map (fun j => iter f b (j + 1) x0) ∧
      ∀ j, E.en (xs - iter f b (j + 1) x0) ≤ E.en (xs - iter f b j x0) := by
  obtain ⟨o, k, h1, h2, h3, h4, _, h6, _⟩ := solve_spec (fun x => f x b) resnorm below maxiter x0 hm
  refine ⟨o, k, h1, h2, h3, ?_, ?_, ?_, fun j => cycles_monotone h x0 b xs hb j⟩
  · rw [h4, iterate_eq_iter]
  · rw [h4, iterate_eq_iter]; exact h.iter k x0 b xs hb
  · rw [h6]; apply List.map_congr_left; intro j _; exact iterate_eq_iter f b (j + 1) x0

end solve
end PyamgV
