import PyamgV.Model.ExtC04YLoop
import PyamgV.Proofs.ExtSpmmMat
import PyamgV.Proofs.ExtC04XCheck
import PyamgV.Proofs.ExtC04XSparse
/-! PyamgV (extension E54, property C04): the row filter on a STORED CSR matrix (`C04Y.filterCsr` =
`filter_matrix_rows(diagonal=True)`: the C19 kernel model on every stored row, then `eliminate_zeros()`) has the
dense meaning of the filter the checker `checkHierF` applies to the dense matrix (`C04X.filterMat`), provided no
stored row lists a column twice -- and the rows of a sparse product never do (`mul_nodupRows`). -/
namespace PyamgV.C04Y
open PyamgV PyamgV.Spmm PyamgV.C04 PyamgV.C04X

/-- no column twice in a stored row -/
def NodupRows (A : Csr CRat) : Prop := ∀ i, ((A.row i).map (·.1)).Nodup

theorem toMat_eq (A : Csr CRat) : toMat A = CRatInst.toMatC A := rfl

/-! ### the rows of `A @ B` list no column twice -/

theorem emitted_keys_sublist (T : List Nat) (sums : Array CRat) :
    ((emitted T sums).map (·.1)).Sublist T := by
  induction T with
  | nil => simp [emitted]
  | cons k T ih =>
    unfold emitted at ih ⊢
    rw [List.filterMap_cons]
    by_cases hz : rd sums k = 0
    · simp only [hz, if_true]
      exact List.Sublist.cons _ ih
    · simp only [hz, if_false, List.map_cons]
      exact List.Sublist.cons_cons _ ih

theorem mulRow_nodup (A B : Csr CRat) (hB : B.ColsOK) (i : Nat) : ((mulRow A B i).map (·.1)).Nodup := by
  obtain ⟨hinv, _, _⟩ := Acc.foldl_add_spec (contrib A B i) (contrib_lt A B hB i) (Acc.init_inv (α := CRat) B.cols)
  rw [← accumRow_eq] at hinv
  unfold mulRow
  generalize accumRow A B i (Acc.init B.cols) = s at hinv
  obtain ⟨sums', mark', e1, _⟩ := drain_fold s.touched hinv.nodup [] s.sums s.mark
  unfold drain
  rw [e1]
  simp only [List.nil_append]
  exact (emitted_keys_sublist s.touched s.sums).nodup hinv.nodup

theorem mul_nodupRows (A B : Csr CRat) (hB : B.wf = true) : NodupRows (mul A B) := by
  intro i
  rw [mul_row A B (B.wf_colsOK hB)]
  by_cases hi : i < A.rows
  · rw [if_pos hi]; exact mulRow_nodup A B (B.wf_colsOK hB) i
  · rw [if_neg hi]; simp

theorem galerkin_nodupRows (R A P : Csr CRat) (hP : P.wf = true) : NodupRows (galerkin R A P) :=
  mul_nodupRows _ P hP

/-! ### the kernel model keeps the stored columns -/

theorem ite_key (c : Prop) [Decidable c] (cv : Nat × CRat) : (if c then (cv.1, (0 : CRat)) else cv).1 = cv.1 := by
  split <;> rfl

theorem filterRowDiag_keys (θ : Rat) (lump : Bool) (i : Nat) (r : C19.RowOf CRat) :
    (C19.filterRowDiag CRat.normSq θ lump i r).map (·.1) = r.map (·.1) := by
  unfold C19.filterRowDiag
  simp only
  cases lump with
  | false =>
    simp only [Bool.false_eq_true, if_false, List.map_map]
    apply List.map_congr_left
    intro cv _
    simp only [Function.comp]
    exact ite_key _ cv
  | true =>
    simp only [if_true]
    split
    · rfl
    · rename_i k _
      apply List.ext_getElem
      · simp
      · intro n h1 h2
        simp only [List.getElem_map, List.getElem_modify]
        split
        · exact ite_key _ _
        · exact ite_key _ _

/-! ### `filterCsr`: shape, well-formedness, meaning -/

@[simp] theorem filterCsr_rows (θ : Rat) (lump : Bool) (A : Csr CRat) : (filterCsr θ lump A).rows = A.rows := rfl
@[simp] theorem filterCsr_cols (θ : Rat) (lump : Bool) (A : Csr CRat) : (filterCsr θ lump A).cols = A.cols := rfl

theorem filterCsr_wf (θ : Rat) (lump : Bool) (A : Csr CRat) (hA : A.wf = true) : (filterCsr θ lump A).wf = true := by
  unfold filterCsr
  apply ofRows_wf
  · simp
  · intro l hl e he
    rw [List.mem_map] at hl
    obtain ⟨i, _, rfl⟩ := hl
    have he' := (List.mem_filter.1 he).1
    have hk : e.1 ∈ (C19.filterRowDiag CRat.normSq θ lump i (A.row i)).map (·.1) := List.mem_map.2 ⟨e, he', rfl⟩
    rw [filterRowDiag_keys] at hk
    obtain ⟨e0, he0, hk0⟩ := List.mem_map.1 hk
    rw [← hk0]
    exact A.wf_colsOK hA i e0 he0

theorem filterCsr_row (θ : Rat) (lump : Bool) (A : Csr CRat) (i : Nat) (hi : i < A.rows) :
    (filterCsr θ lump A).row i = (C19.filterRowDiag CRat.normSq θ lump i (A.row i)).filter fun e => e.2 ≠ 0 := by
  unfold filterCsr
  rw [ofRows_row]
  simp [List.getD_eq_getElem?_getD, hi]

theorem filterCsr_nodupRows (θ : Rat) (lump : Bool) (A : Csr CRat) (hA : NodupRows A) : NodupRows (filterCsr θ lump A) := by
  intro i
  by_cases hi : i < A.rows
  · rw [filterCsr_row θ lump A i hi]
    have h := hA i
    rw [← filterRowDiag_keys θ lump i (A.row i)] at h
    exact (List.Sublist.map _ List.filter_sublist).nodup h
  · unfold filterCsr
    rw [ofRows_row]
    simp [List.getD_eq_getElem?_getD, Nat.le_of_not_lt hi]

/-- `C19.entry` (the matrix entry of a stored row) is the key sum of the sparse algebra -/
theorem entry_eq_ksum (r : C19.RowOf CRat) (j : Nat) : C19.entry r j = ksum r j := by
  induction r with
  | nil => rfl
  | cons a l ih => rw [entry_cons, ksum_cons, ih]

theorem ksum_filter_nz (r : List (Nat × CRat)) (j : Nat) : ksum (r.filter fun e => e.2 ≠ 0) j = ksum r j := by
  induction r with
  | nil => rfl
  | cons a l ih =>
    rw [List.filter_cons]
    by_cases hz : a.2 = 0
    · simp only [hz, ne_eq, not_true_eq_false, decide_false, Bool.false_eq_true, if_false]
      rw [ih, ksum_cons, hz]; simp
    · simp only [hz, ne_eq, not_false_eq_true, decide_true, if_true]
      rw [ksum_cons, ksum_cons, ih]

theorem val_eq_ksum (A : Csr CRat) (i j : Nat) (hi : i < A.rows) : A.val i j = ksum (A.row i) j := by
  unfold Csr.val
  rw [if_pos hi, rowVal_eq_ksum]

/-- **the filter on the stored matrix and the filter on the dense matrix agree entry by entry**: `M` any dense matrix
with the meaning of `X` (the checker's reference product, or `toMat X` itself) -/
theorem filterCsr_meaning (θ : Rat) (lump : Bool) (X : Csr CRat) (M : Mat) (hX : X.wf = true) (hsq : X.rows = X.cols)
    (hnd : NodupRows X) (hr : M.rows = X.rows) (hc : M.cols = X.cols)
    (hM : ∀ i k, i < X.rows → k < X.cols → M.ent i k = X.val i k)
    (i j : Nat) (hi : i < X.rows) (hj : j < X.cols) :
    (toMat (filterCsr θ lump X)).ent i j = (filterMat θ lump M).ent i j := by
  rw [toMat_eq, CRatInst.toMatC_ent _ i j (by simpa using hi) (by simpa using hj)]
  show (filterCsr θ lump X).val i j = _
  rw [val_eq_ksum _ i j (by simpa using hi), filterCsr_row θ lump X i hi, ksum_filter_nz, ← entry_eq_ksum]
  apply sparse_filter_meaning θ lump M i (X.row i) (hnd i)
  · intro cv hcv; rw [hc]; exact X.wf_colsOK hX i cv hcv
  · intro k hk
    rw [hc] at hk
    rw [hM i k hi hk, entry_eq_ksum, val_eq_ksum X i k hi]
  · rw [hr]; exact hi
  · rw [hc, ← hsq]; exact hi
  · rw [hc]; exact hj

theorem toMat_ent (A : Csr CRat) (i j : Nat) (hi : i < A.rows) (hj : j < A.cols) : (toMat A).ent i j = A.val i j :=
  CRatInst.toMatC_ent A i j hi hj

theorem toMat_wf (A : Csr CRat) : (toMat A).wf = true := CRatInst.toMatC_wf A

#print axioms filterCsr_meaning
#print axioms mul_nodupRows
end PyamgV.C04Y
