import PyamgV.Proofs.ExtC11RefineFF
import PyamgV.Proofs.ExtC11RefineClassicalRows

/-! PyamgV (C11, extension E6): the modified classical operator end to end — array model of
`remove_strong_FF_connections`, `eliminate_zeros`, array model of
`rs_classical_interpolation_pass1/2(modified = true)` — against the proof-side operator
`C11.classicalModP` (which removes the F–F connections itself). -/
namespace PyamgV.C11X
open PyamgV.N PyamgV.C11 PyamgV.C11M

theorem filter_nz_id (r : List (Nat × Rat)) (h : ∀ cv ∈ r, cv.2 ≠ 0) :
    r.filter (fun cv => decide (cv.2 ≠ 0)) = r := by
  rw [List.filter_eq_self]
  intro cv hcv
  simpa using h cv hcv

/-- for a strength matrix without stored zeros in row `i`: the row after
`remove_strong_FF_connections` + `eliminate_zeros` is exactly `removeFFRow` -/
theorem removeFF_row_nz (S : Csr) (split : Array Int) (hv : Valid split S.n)
    (hap : ∀ i < S.n, rdN S.ap i ≤ rdN S.ap (i + 1))
    (hcols : ∀ i < S.n, ∀ jj ∈ S.jjs i, rdN S.aj jj < S.n) {i : Nat} (hi : i < S.n)
    (hF : isC split i = false) (hnz : ∀ jj ∈ S.jjs i, rdQ S.ax jj ≠ 0) :
    (rowOf (removeFFCsr S split) i).filter (fun cv => decide (cv.2 ≠ 0)) =
      removeFFRow (isC split) (rowOf S) i := by
  rw [removeFF_row S split hv hap hcols hi hF]
  apply filter_nz_id
  intro cv hcv
  have := mem_removeFFRow hcv
  simp only [rowOf, List.mem_map] at this
  obtain ⟨jj, hjj, rfl⟩ := this
  exact hnz jj hjj

/-- **modified classical interpolation, kernels end to end = `classicalModP`.**  `S` is the strength
matrix (valid CSR, columns below `n`, no stored zeros), `S'` any CSR matrix whose rows are the
rows of `S` after the array model of `remove_strong_FF_connections` and `eliminate_zeros`.  Then
row `i` of the CSR triple produced by the array models of pass 1 and pass 2 (`modified = true`) on
`S'` has the coarse columns of row `i` of `classicalModP … (rowOf S)` and its weights wherever the
kernel does not divide by zero. -/
theorem classicalMod_kernels_refine (eps : Rat) (A S S' : Csr) (split : Array Int) (hn : S.n = A.n)
    (hv : Valid split A.n)
    (hap : ∀ i < S.n, rdN S.ap i ≤ rdN S.ap (i + 1))
    (hcols : ∀ i < S.n, ∀ jj ∈ S.jjs i, rdN S.aj jj < S.n)
    (hnz : ∀ i < S.n, ∀ jj ∈ S.jjs i, rdQ S.ax jj ≠ 0)
    (hS' : ∀ i < A.n, rowOf S' i = (rowOf (removeFFCsr S split) i).filter (fun cv => decide (cv.2 ≠ 0)))
    {i : Nat} (hi : i < A.n) :
    List.Forall₂ (fun (m : Int × Option Rat) (p : Nat × Rat) => m.1 = (p.1 : Int) ∧ ∀ x, m.2 = some x → x = p.2)
      (rowAt (-1 : Int) (none : Option Rat) (classicalPass1 A.n S' split)
        (classicalPass2 eps true A S' split (classicalPass1 A.n S' split)).1
        (classicalPass2 eps true A S' split (classicalPass1 A.n S' split)).2 i)
      ((classicalModP eps (isC split) A.n (rowOf A) (rowOf S)).getD i []) := by
  have hcols' : ∀ i < A.n, ∀ jj ∈ S'.jjs i, rdN S'.aj jj < A.n := by
    intro i hi jj hjj
    have hmem : (rdN S'.aj jj, rdQ S'.ax jj) ∈ rowOf S' i := by
      unfold rowOf
      exact List.mem_map.2 ⟨jj, hjj, rfl⟩
    rw [hS' i hi] at hmem
    have := (List.mem_filter.1 hmem).1
    simp only [rowOf, List.mem_map] at this
    obtain ⟨jj', hjj', e⟩ := this
    have hc : rdN (removeFFCsr S split).aj jj' < S.n := hcols i (by omega) jj' hjj'
    have e1 : rdN (removeFFCsr S split).aj jj' = rdN S'.aj jj := congrArg Prod.fst e
    omega
  rw [classicalPass2_refines_modified eps A S' split hv hcols' hi]
  apply classicalModPOptRow_forall₂ eps (isC split) A.n (rowOf A) (rowOf S) (rowOf S') hi
  intro hF
  rw [hS' i hi]
  exact removeFF_row_nz S split (by rw [hn]; exact hv) hap hcols (by omega) hF (hnz i (by omega))

end PyamgV.C11X
