import PyamgV.Proofs.ExtC20Spectrum
import PyamgV.Proofs.ExtC20PoissonFE

/-! PyamgV (C20, extension E21): the spectrum of the **FE** Poisson matrices of the `stencil_grid` model.
`A_FE = 3^N I - W`, `W = ⊗_i tridiag(1,1,1)` and `tridiag(1,1,1) = 3 I - tridiag(-1,2,-1)`, so the products of
1-D eigenvectors of `tridiag(-1,2,-1)` (eigenvalues `l_i`) are eigenvectors of `A_FE` for `3^N - Π_i (3 - l_i)`;
with the Chebyshev roots `l_i = 2 - 2 c_i` this is `3^N - Π_i (1 + 2 c_i)`. -/
namespace PyamgV.C20
open PyamgV.Stencil Finset

/-- `M` is the Kronecker product `T ⊗ M'` on indices `p = c P + r` -/
def KronProd {R : Type} [CommRing R] (g P : Nat) (M T M' : Nat → Nat → R) : Prop :=
  ∀ c c' r r', c < g → c' < g → r < P → r' < P → M (c * P + r) (c' * P + r') = T c c' * M' r r'

/-- a product of an eigenvector of `T` and one of `M'` is an eigenvector of `T ⊗ M'` for the product of the
eigenvalues -/
theorem mv_kronprod_eigen {R : Type} [CommRing R] (g P : Nat) (hP : 0 < P) (M T M' : Nat → Nat → R)
    (h : KronProd g P M T M') (u w : Nat → R) (lam mu : R)
    (hu : ∀ c < g, mv g T u c = lam * u c) (hw : ∀ r < P, mv P M' w r = mu * w r)
    (p : Nat) (hp : p < g * P) :
    mv (g * P) M (fun p => u (p / P) * w (p % P)) p = (lam * mu) * (u (p / P) * w (p % P)) := by
  have hc : p / P < g := (Nat.div_lt_iff_lt_mul hP).2 hp
  have hr : p % P < P := Nat.mod_lt _ hP
  have hp' : p = p / P * P + p % P := (Nat.div_add_mod' p P).symm
  generalize p / P = c at *
  generalize p % P = r at *
  subst hp'
  have d1 : ∀ c' r', r' < P → (c' * P + r') / P = c' := by
    intro c' r' h'
    rw [Nat.mul_comm, Nat.mul_add_div hP, Nat.div_eq_of_lt h']; rfl
  have d2 : ∀ c' r', r' < P → (c' * P + r') % P = r' := by
    intro c' r' h'
    rw [Nat.mul_comm, Nat.mul_add_mod, Nat.mod_eq_of_lt h']
  have e : mv (g * P) M (fun p => u (p / P) * w (p % P)) (c * P + r) = mv g T u c * mv P M' w r := by
    unfold mv
    rw [sum_range_mul, Finset.sum_mul]
    apply Finset.sum_congr rfl
    intro c' hc'
    rw [Finset.mul_sum]
    apply Finset.sum_congr rfl
    intro r' hr'
    have hr'' := Finset.mem_range.1 hr'
    show M (c * P + r) (c' * P + r') * (u ((c' * P + r') / P) * w ((c' * P + r') % P)) = _
    rw [h c c' r r' hc (Finset.mem_range.1 hc') hr hr'', d1 c' r' hr'', d2 c' r' hr'']
    ring
  rw [e, hu c hc, hw r hr]; ring

section field
variable {K : Type} [Field K] [CharZero K]

/-- `tridiag(1, 1, 1)` over a commutative ring -/
def triJR {R : Type} [CommRing R] (c c' : Nat) : R := if c = c' ∨ c + 1 = c' ∨ c' + 1 = c then 1 else 0

omit [CharZero K] in
theorem triJ_cast (c c' : Nat) : ((triJ c c' : Rat) : K) = triJR c c' := by
  unfold triJ triJR
  split_ifs <;> simp

theorem triJR_eq {R : Type} [CommRing R] (c c' : Nat) :
    (triJR c c' : R) = (if c = c' then 3 else 0) - triR c c' := by
  unfold triJR triR
  by_cases h0 : c = c'
  · subst h0; simp; ring
  · by_cases h1 : c + 1 = c' ∨ c' + 1 = c
    · have : c = c' ∨ c + 1 = c' ∨ c' + 1 = c := Or.inr h1
      rw [if_pos this, if_neg h0, if_neg h0, if_pos h1]; ring
    · have : ¬ (c = c' ∨ c + 1 = c' ∨ c' + 1 = c) := by
        rintro (h | h)
        · exact h0 h
        · exact h1 h
      rw [if_neg this, if_neg h0, if_neg h0, if_neg h1]; ring

/-- an eigenvector of `tridiag(-1,2,-1)` for `l` is an eigenvector of `tridiag(1,1,1)` for `3 - l` -/
theorem mv_triJR {R : Type} [CommRing R] (g : Nat) (u : Nat → R) (l : R) (h : ∀ c < g, mv g triR u c = l * u c) :
    ∀ c < g, mv g triJR u c = (3 - l) * u c := by
  intro c hc
  have := h c hc
  unfold mv at this ⊢
  have e : ∀ q ∈ range g, (triJR c q : R) * u q = (if c = q then 3 * u q else 0) - triR c q * u q := by
    intro q _
    rw [triJR_eq, sub_mul]
    congr 1
    split <;> simp
  rw [Finset.sum_congr rfl e, Finset.sum_sub_distrib, sum_pick g c hc, this]
  ring

theorem wsum_nil : wsum [] 0 0 = 1 := by
  have h1 := fe_split [] 0 0
  have h2 : feEntry [] 0 0 = 0 := by
    have := poisson_diag [] true 0 (by simp [prod])
    simpa [centre, poissonStencil, feEntry] using this
  rw [h2, if_pos ⟨rfl, by simp [prod]⟩] at h1
  simp at h1
  linarith

theorem wsum_kron_cast (g : Nat) (gs : List Nat) :
    KronProd g (prod gs) (castM (wsum (g :: gs)) : Nat → Nat → K) triJR (castM (wsum gs)) := by
  intro c c' r r' hc hc' hr hr'
  unfold castM
  rw [wsum_kron g gs c c' r r' hc hc' hr hr', Rat.cast_mul, triJ_cast]

/-- tensor-product eigenvectors of the coupling pattern `W` -/
theorem w_tensor_eigen : ∀ (grid : List Nat) (us : List (Nat → K)) (ls : List K), EigList grid us ls →
    ∀ p < prod grid, mv (prod grid) (castM (wsum grid)) (tvec grid us) p =
      (ls.map fun l => 3 - l).prod * tvec grid us p := by
  intro grid
  induction grid with
  | nil =>
    intro us ls h p hp
    cases us with
    | cons u us => cases ls <;> exact absurd h (by simp [EigList])
    | nil =>
      cases ls with
      | cons l ls => exact absurd h (by simp [EigList])
      | nil =>
        have hp0 : p = 0 := by simp only [prod, List.foldl_nil] at hp; omega
        subst hp0
        simp [mv, prod, castM, wsum_nil, tvec]
  | cons g gs ih =>
    intro us ls h p hp
    cases us with
    | nil => cases ls <;> exact absurd h (by simp [EigList])
    | cons u us =>
      cases ls with
      | nil => exact absurd h (by simp [EigList])
      | cons l ls =>
        obtain ⟨h1, h2⟩ := h
        rw [Stencil.prod_cons] at hp ⊢
        have hpos : 0 < prod gs := by
          rcases Nat.eq_zero_or_pos (prod gs) with h0 | h0
          · rw [h0] at hp; omega
          · exact h0
        have := mv_kronprod_eigen g (prod gs) hpos (castM (wsum (g :: gs))) triJR (castM (wsum gs))
          (wsum_kron_cast g gs) u (tvec gs us) (3 - l) ((ls.map fun l => 3 - l).prod)
          (mv_triJR g u l h1) (ih us ls h2) p hp
        rw [List.map_cons, List.prod_cons]
        exact this

/-- **tensor-product lift, FE**: products of 1-D eigenvectors of `tridiag(-1,2,-1)` (eigenvalues `l_i`) are
eigenvectors of the FE Poisson matrix of the model for `3^N - Π_i (3 - l_i)` -/
theorem poissonFE_tensor_eigen (grid : List Nat) (us : List (Nat → K)) (ls : List K)
    (h : EigList grid us ls) (p : Nat) (hp : p < prod grid) :
    rowdotK (stencilGrid grid (poissonFE grid.length)) (tvec grid us) p =
      ((3 : K) ^ grid.length - (ls.map fun l => 3 - l).prod) * tvec grid us p := by
  rw [rowdotK_eq_mv (prod grid) _ (fun t ht => (poissonFE_inrange grid t ht).2)]
  have hw := w_tensor_eigen grid us ls h p hp
  unfold mv at hw ⊢
  have e : ∀ q ∈ range (prod grid), (castM (entry (stencilGrid grid (poissonFE grid.length))) p q : K) * tvec grid us q =
      (if p = q then (3 : K) ^ grid.length * tvec grid us q else 0) - castM (wsum grid) p q * tvec grid us q := by
    intro q _
    have := fe_split grid p q
    unfold feEntry at this
    unfold castM
    rw [this, Rat.cast_sub, sub_mul]
    congr 1
    by_cases hpq : p = q
    · rw [if_pos ⟨hpq, hp⟩, if_pos hpq]; push_cast; ring
    · rw [if_neg (fun h' => hpq h'.1), if_neg hpq]; simp
  rw [Finset.sum_congr rfl e, Finset.sum_sub_distrib, sum_pick _ p hp, hw]
  ring

/-- **closed-form spectrum of the FE Poisson matrix of the model**: for roots `c_i` of `U_{g_i}` the vector
`v(p) = Π_i U_{coords_i(p)}(c_i)` satisfies `A v = (3^N - Π_i (1 + 2 c_i)) v` -/
theorem poissonFE_spectrum (grid : List Nat) (cs : List K)
    (h : List.Forall₂ (fun g c => chebU c g = 0) grid cs) (p : Nat) (hp : p < prod grid) :
    rowdotK (stencilGrid grid (poissonFE grid.length)) (tvec grid (cs.map chebU)) p =
      ((3 : K) ^ grid.length - (cs.map fun c => 1 + 2 * c).prod) * tvec grid (cs.map chebU) p := by
  rw [poissonFE_tensor_eigen grid _ _ (eigList_cheb grid cs h) p hp, List.map_map]
  have e : ((fun l : K => 3 - l) ∘ fun c => 2 - 2 * c) = fun c => 1 + 2 * c := by
    funext c; simp only [Function.comp]; ring
  rw [e]

end field

end PyamgV.C20
