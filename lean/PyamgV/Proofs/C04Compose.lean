import PyamgV.Proofs.C04Loop
import PyamgV.Proofs.C04Check
/-! PyamgV (C04): the loop theorem and the hierarchy specification put together — if every successful
step of the coarsening loop produces a level related to its parent as the property demands (`PairOK`:
shapes, strict decrease, Galerkin product, `R` vs `P`), the hierarchy the loop returns satisfies the
specification `HierOK` that the proved checker decides on the output of the real constructors.
Core only. -/
namespace PyamgV.C04
open PyamgV.Coarsen

/-- what `HierOK` asks of the coarsest level -/
def BaseOK (l : Lvl) : Prop := l.A.wf = true ∧ l.A.rows = l.A.cols ∧ 0 < l.A.rows

theorem PairOK.baseFine {sym : Sym} {tol : Rat} {f : Lvl} {cA : Mat} (h : PairOK sym tol f cA) :
    BaseOK f := ⟨h.wf.1, h.squareF, Nat.lt_of_le_of_lt (Nat.zero_le _) h.decr⟩

theorem hierOK_snoc (sym : Sym) (tol : Rat) (f c : Lvl) (hp : PairOK sym tol f c.A) (hc : BaseOK c) :
    ∀ ls : List Lvl, HierOK sym tol (ls ++ [f]) → HierOK sym tol (ls ++ [f, c]) := by
  intro ls
  induction ls with
  | nil => intro _; exact ⟨hp, hc⟩
  | cons x ls ih =>
    cases ls with
    | nil =>
      intro h
      exact ⟨h.1, hp, hc⟩
    | cons y ls' =>
      intro h
      exact ⟨h.1, ih h.2⟩

/-- a coarsest-first list whose consecutive levels are `PairOK` and whose head is a proper coarsest
level is, read finest first, a hierarchy in the sense of `HierOK` -/
theorem hierOK_of_linked (sym : Sym) (tol : Rat) (lv : List Lvl)
    (hl : Linked (fun f c => PairOK sym tol f c.A) lv) :
    ∀ a rest, lv = a :: rest → BaseOK a → HierOK sym tol lv.reverse := by
  induction hl with
  | nil => intro a rest h; cases h
  | single a => intro a' rest h hb; cases h; exact hb
  | @cons a b rest hrel _ ih =>
    intro a' rest' h hb
    obtain ⟨rfl, rfl⟩ := List.cons.inj h
    have h1 := ih b rest rfl hrel.baseFine
    have : (a :: b :: rest).reverse = rest.reverse ++ [b, a] := by simp
    rw [this]
    apply hierOK_snoc sym tol b a hrel hb
    simpa using h1

/-- **composition**: started on a proper finest level, with a step that establishes `PairOK` and
returns proper levels, the loop returns a hierarchy satisfying `HierOK` (finest first) -/
theorem build_hierOK (sym : Sym) (tol : Rat) (size : Lvl → Nat) (extend : Lvl → Option Lvl)
    (maxLevels maxCoarse : Nat)
    (hext : ∀ l l', extend l = some l' → PairOK sym tol l l'.A ∧ BaseOK l')
    (l0 : Lvl) (h0 : BaseOK l0) (fuel : Nat) :
    HierOK sym tol (build size extend maxLevels maxCoarse fuel [l0]).reverse := by
  have inv := build_induct size extend maxLevels maxCoarse
    (fun lv => Linked (fun f c => PairOK sym tol f c.A) lv ∧ ∃ a rest, lv = a :: rest ∧ BaseOK a)
    (by
      intro last rest nxt h _ _ he
      obtain ⟨hp, hb⟩ := hext last nxt he
      exact ⟨Linked.cons hp h.1, nxt, last :: rest, rfl, hb⟩)
    fuel [l0] ⟨Linked.single l0, l0, [], rfl, h0⟩
  obtain ⟨hl, a, rest, he, hb⟩ := inv
  exact hierOK_of_linked sym tol _ hl a rest he hb

#print axioms build_hierOK
end PyamgV.C04
