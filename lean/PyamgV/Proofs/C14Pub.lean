import PyamgV.Proofs.C14

/-! PyamgV (C14): the public functions `classical_strength_of_connection` and
`symmetric_strength_of_connection` as modelled in `Model/C14.lean` (kernel + `np.abs` +
`scale_rows_by_largest_entry` + `eliminate_zeros`): the common contract and the rule at the level
of the returned matrix. -/
namespace PyamgV.C14
open PyamgV PyamgV.N

variable {α : Type}

theorem absRow_cols (nrm : α → Rat) (row : RowOf α) : (absRow nrm row).map Prod.fst = row.map Prod.fst := by
  unfold absRow; simp [List.map_map, Function.comp_def]

theorem absRow_nonneg (nrm : α → Rat) (hn : ∀ a, 0 ≤ nrm a) (row : RowOf α) : ∀ cv ∈ absRow nrm row, 0 ≤ cv.2 := by
  intro cv hcv
  unfold absRow at hcv
  obtain ⟨c, _, rfl⟩ := List.mem_map.1 hcv
  exact hn _

/-- row `i` of a row-wise operation is the operation applied to row `i` with index `i` -/
theorem mapRows_getElem? {β : Type} (f : Nat → RowOf α → RowOf β) (rows : List (RowOf α)) (i : Nat) :
    (mapRows f rows)[i]? = (rows[i]?).map (f i) := by
  unfold mapRows
  simp [List.getElem?_map, List.getElem?_zipIdx]
  cases rows[i]? <;> simp

/-- **the tail of every measure** (`np.abs`/non-negative data, then `scale_rows_by_largest_entry`):
the pattern is untouched, entries lie in `[0,1]`, and a row with an entry of norm `≥ tiny`
attains `1` -/
theorem tail_contract (nrm : α → Rat) (hn : ∀ a, 0 ≤ nrm a) (tiny : Rat) (ht : 0 < tiny) (r : RowOf α) :
    (scaleRow tiny (absRow nrm r)).map Prod.fst = r.map Prod.fst ∧
    (∀ cv ∈ scaleRow tiny (absRow nrm r), 0 ≤ cv.2 ∧ cv.2 ≤ 1) ∧
    ((∃ c ∈ r, tiny ≤ nrm c.2) → ∃ cv ∈ scaleRow tiny (absRow nrm r), cv.2 = 1) := by
  have h := scaleRow_contract tiny ht (absRow nrm r) (absRow_nonneg nrm hn r)
  refine ⟨by rw [scaleRow_cols, absRow_cols], h.1, ?_⟩
  rintro ⟨c, hc, hct⟩
  apply h.2
  exact ⟨(c.1, nrm c.2), by unfold absRow; exact List.mem_map.2 ⟨c, hc, rfl⟩, hct⟩

/-- **rule at the level of the returned matrix**: column `j` occurs in row `i` of
`classical_strength_of_connection(A, θ)` iff some stored entry of that column is non-zero and is
the diagonal or passes the threshold -/
theorem pubClassicalRow_col_iff (nrm absf : α → Rat) (tinyK tiny θ : Rat) (ht : 0 < tiny)
    (i : Nat) (row : RowOf α) (j : Nat) :
    j ∈ (pubClassicalRow nrm absf tinyK tiny θ i row).map Prod.fst ↔
      ∃ cv ∈ row, cv.1 = j ∧ absf cv.2 ≠ 0 ∧ (j = i ∨ nrm cv.2 ≥ θ * maxOff nrm tinyK i row) := by
  unfold pubClassicalRow elimZeros
  rw [scaleRow_eq tiny ht]
  have hm : 0 < rowMax absQ tiny (absRow absf (socRow nrm tinyK θ i row)) :=
    lt_of_lt_of_le ht (rowMax_ge absQ tiny _).1
  constructor
  · intro h
    obtain ⟨cv, hcv, rfl⟩ := List.mem_map.1 h
    obtain ⟨hmem, hnz⟩ := List.mem_filter.1 hcv
    obtain ⟨c, hc, rfl⟩ := List.mem_map.1 hmem
    unfold absRow at hc
    obtain ⟨c0, hc0, rfl⟩ := List.mem_map.1 hc
    have hr := (socRow_rule nrm tinyK θ i row c0).1 hc0
    refine ⟨c0, hr.1, rfl, ?_, ?_⟩
    · intro h0
      simp only [h0, zero_div, ne_eq, not_true_eq_false, decide_false] at hnz
      exact absurd hnz (by simp)
    · exact hr.2
  · rintro ⟨c0, hc0, rfl, hnz, hk⟩
    apply List.mem_map.2
    refine ⟨(c0.1, absf c0.2 / rowMax absQ tiny (absRow absf (socRow nrm tinyK θ i row))), ?_, rfl⟩
    apply List.mem_filter.2
    constructor
    · apply List.mem_map.2
      refine ⟨(c0.1, absf c0.2), ?_, rfl⟩
      unfold absRow
      exact List.mem_map.2 ⟨c0, (socRow_rule nrm tinyK θ i row c0).2 ⟨hc0, hk⟩, rfl⟩
    · simp only [ne_eq, decide_eq_true_eq]
      exact div_ne_zero hnz (ne_of_gt hm)

/-- pattern containment (columns, with order and multiplicity) -/
theorem pubClassicalRow_cols_sublist (nrm absf : α → Rat) (tinyK tiny θ : Rat) (i : Nat) (row : RowOf α) :
    ((pubClassicalRow nrm absf tinyK tiny θ i row).map Prod.fst).Sublist (row.map Prod.fst) := by
  unfold pubClassicalRow elimZeros
  refine List.Sublist.trans (List.Sublist.map _ List.filter_sublist) ?_
  rw [scaleRow_cols, absRow_cols]
  exact List.Sublist.map _ (socRow_sublist nrm tinyK θ i row)

/-- the diagonal is kept wherever the input stores a non-zero one -/
theorem pubClassicalRow_diag (nrm absf : α → Rat) (tinyK tiny θ : Rat) (ht : 0 < tiny)
    (i : Nat) (row : RowOf α) (v : α) (h : (i, v) ∈ row) (hv : absf v ≠ 0) :
    i ∈ (pubClassicalRow nrm absf tinyK tiny θ i row).map Prod.fst :=
  (pubClassicalRow_col_iff nrm absf tinyK tiny θ ht i row i).2 ⟨(i, v), h, rfl, hv, Or.inl rfl⟩

/-- **entries in (0,1], every non-empty row attains 1** (no subnormal entries) -/
theorem pubClassicalRow_contract (nrm absf : α → Rat) (habs : ∀ a, 0 ≤ absf a) (tinyK tiny θ : Rat)
    (ht : 0 < tiny) (i : Nat) (row : RowOf α) (hsub : ∀ cv ∈ row, absf cv.2 = 0 ∨ tiny ≤ absf cv.2) :
    (∀ cv ∈ pubClassicalRow nrm absf tinyK tiny θ i row, 0 < cv.2 ∧ cv.2 ≤ 1) ∧
    (pubClassicalRow nrm absf tinyK tiny θ i row ≠ [] →
      ∃ cv ∈ pubClassicalRow nrm absf tinyK tiny θ i row, cv.2 = 1) := by
  have hc := scaleRow_contract tiny ht (absRow absf (socRow nrm tinyK θ i row))
    (absRow_nonneg absf habs _)
  have hm : 0 < rowMax absQ tiny (absRow absf (socRow nrm tinyK θ i row)) :=
    lt_of_lt_of_le ht (rowMax_ge absQ tiny _).1
  unfold pubClassicalRow elimZeros
  constructor
  · intro cv hcv
    obtain ⟨hmem, hnz⟩ := List.mem_filter.1 hcv
    have := hc.1 cv hmem
    simp only [ne_eq, decide_eq_true_eq] at hnz
    exact ⟨lt_of_le_of_ne this.1 (Ne.symm hnz), this.2⟩
  · intro hne
    obtain ⟨cv, hcv⟩ := List.exists_mem_of_ne_nil _ hne
    obtain ⟨hmem, hnz⟩ := List.mem_filter.1 hcv
    simp only [ne_eq, decide_eq_true_eq] at hnz
    -- the non-zero scaled entry comes from a stored entry with non-zero, hence normal, modulus
    obtain ⟨c, hcm, rfl⟩ := (scaleRow_zero_iff tiny ht _ cv).1 hmem
    have hc2 : c.2 ≠ 0 := by
      intro h0; apply hnz; simp [h0]
    have hct : tiny ≤ c.2 := by
      unfold absRow at hcm
      obtain ⟨c0, hc0, rfl⟩ := List.mem_map.1 hcm
      rcases hsub c0 (socRow_sublist nrm tinyK θ i row |>.subset hc0) with h | h
      · exact absurd h hc2
      · exact h
    obtain ⟨w, hw, hw1⟩ := hc.2 ⟨c, hcm, hct⟩
    exact ⟨w, List.mem_filter.2 ⟨hw, by simp [hw1]⟩, hw1⟩

/-- `diags[j]` used by the symmetric kernel for row `j < n` is the norm of the summed stored
diagonal of row `j` -/
theorem symmetric_row (nrm nsq : α → Rat) (add : α → α → α) (zero : α) (θ : Rat)
    (rows : List (RowOf α)) (i : Nat) :
    (symmetric nrm nsq add zero θ rows)[i]? =
      (rows[i]?).map (symRow nsq θ
        (fun j => ((rows[j]?).map (diagNorm nrm add zero j)).getD 0) i) := by
  unfold symmetric
  rw [mapRows_getElem?]
  congr 1
  funext r
  congr 1
  funext j
  simp [List.getElem?_map, List.getElem?_zipIdx, Array.getD_eq_getD_getElem?]
  cases rows[j]? <;> simp

theorem diagNorm_nonneg (nrm : α → Rat) (hn : ∀ a, 0 ≤ nrm a) (add : α → α → α) (zero : α) (i : Nat)
    (row : RowOf α) : 0 ≤ diagNorm nrm add zero i row := hn _

end PyamgV.C14
