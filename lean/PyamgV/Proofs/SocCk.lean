import PyamgV.Proofs.Ck

/-! PyamgV (C17, "output cursor" pattern): bounds-safety of
`classical_strength_of_connection_abs` (ruge_stuben.h): the kernel appends to `Sj`/`Sx` at a
cursor `nnz` that is not derived from the loop index. The writes are in range because at most
one output entry is produced per input entry *and* the rows tile the index space in order:
invariant `nnz + Ap[0] ≤ jj` at entry `jj`, which needs the row pointer to be non-decreasing.
Output buffers sized as `pyamg/strength.py` allocates them (`Sj`, `Sx` like `A.indices`, `Sp`
of length `n+1`). Scalars abstract. Core Lean only, in the `Ck` style. -/
namespace PyamgV.SocCk
open PyamgV.Ck

variable {α : Type} [Inhabited α]

structure Ops (α : Type) where
  norm : α → α
  max : α → α → α
  ge : α → α → Bool
  mul : α → α → α
  tiny : α

structure Csr (α : Type) where
  n : Nat
  ap : Array Int
  aj : Array Int
  ax : Array α

structure WF (G : Csr α) : Prop where
  ap_size : G.ap.size = G.n + 1
  ap0 : 0 ≤ G.ap.getD 0 0
  mono : ∀ i, i < G.n → G.ap.getD i 0 ≤ G.ap.getD (i+1) 0
  last_j : G.ap.getD G.n 0 ≤ (G.aj.size : Int)
  ax_size : G.ax.size = G.aj.size

theorem ap_ge0 (G : Csr α) (h : WF G) : ∀ i, i ≤ G.n → G.ap.getD 0 0 ≤ G.ap.getD i 0 := by
  intro i
  induction i with
  | zero => intro _; exact Int.le_refl _
  | succ i ih => intro hi; exact Int.le_trans (ih (by omega)) (h.mono i (by omega))

theorem ap_le_last (G : Csr α) (h : WF G) : ∀ i, i ≤ G.n → G.ap.getD i 0 ≤ G.ap.getD G.n 0 := by
  intro i hi
  induction hd : G.n - i generalizing i with
  | zero => have : i = G.n := by omega
            subst this; exact Int.le_refl _
  | succ d ih =>
    have hlt : i < G.n := by omega
    exact Int.le_trans (h.mono i hlt) (ih (i+1) (by omega) (by omega))

/-- output state: `Sj`, `Sx`, cursor -/
abbrev Out (α : Type) := Array Int × Array α × Int

/-- first inner loop: the running maximum (reads only) -/
def maxOff (o : Ops α) (G : Csr α) (i s e : Int) : Ck α :=
  forRange s e o.tiny (fun jj m => do
    let j ← Ck.rd G.aj jj
    let a ← Ck.rd G.ax jj
    if j ≠ i then pure (o.max m (o.norm a)) else pure m)

/-- the body of the second inner loop for entry `jj` -/
def emit (o : Ops α) (G : Csr α) (i : Int) (thr : α) (jj : Int) (st : Out α) : Ck (Out α) := do
  let j ← Ck.rd G.aj jj
  let a ← Ck.rd G.ax jj
  let st ← (if o.ge (o.norm a) thr ∧ j ≠ i then do
      let sj ← Ck.wr st.1 st.2.2 j
      let sx ← Ck.wr st.2.1 st.2.2 a
      pure ((sj, sx, st.2.2 + 1) : Out α)
    else pure st)
  if j = i then do
    let sj ← Ck.wr st.1 st.2.2 j
    let sx ← Ck.wr st.2.1 st.2.2 a
    pure (sj, sx, st.2.2 + 1)
  else pure st

/-- cursor invariant at input position `jj` (sizes are those of the input index array) -/
def Inv (G : Csr α) (jj : Int) (st : Out α) : Prop :=
  st.1.size = G.aj.size ∧ st.2.1.size = G.aj.size ∧ 0 ≤ st.2.2 ∧ st.2.2 + G.ap.getD 0 0 ≤ jj

theorem emit_safe (o : Ops α) (G : Csr α) (hG : WF G) (i : Int) (thr : α) (jj : Int)
    (h0 : 0 ≤ jj) (h1 : jj.toNat < G.aj.size) (st : Out α) (hI : Inv G jj st) :
    Safe (emit o G i thr jj st) (Inv G (jj + 1)) := by
  obtain ⟨hs1, hs2, hn0, hcur⟩ := hI
  have hap0 := hG.ap0
  have hcurlt : st.2.2.toNat < G.aj.size := by omega
  unfold emit
  refine Safe.bind (rd_safe G.aj jj h0 h1) (fun j _ => ?_)
  refine Safe.bind (rd_safe G.ax jj h0 (by rw [hG.ax_size]; exact h1)) (fun a _ => ?_)
  by_cases hc : o.ge (o.norm a) thr = true ∧ j ≠ i
  · -- first `if` fires; the second cannot (j ≠ i)
    rw [if_pos hc]
    refine Safe.bind (P := fun st' : Out α => st'.1.size = G.aj.size ∧ st'.2.1.size = G.aj.size ∧
        st'.2.2 = st.2.2 + 1) ?_ (fun st' hst' => ?_)
    · refine Safe.bind (wr_safe st.1 st.2.2 j hn0 (by rw [hs1]; exact hcurlt)) (fun sj hsj => ?_)
      refine Safe.bind (wr_safe st.2.1 st.2.2 a hn0 (by rw [hs2]; exact hcurlt)) (fun sx hsx => ?_)
      exact Safe.pure ⟨by rw [hsj, hs1], by rw [hsx, hs2], rfl⟩
    · rw [if_neg hc.2]
      exact Safe.pure ⟨hst'.1, hst'.2.1, by rw [hst'.2.2]; omega, by rw [hst'.2.2]; omega⟩
  · rw [if_neg hc]
    refine Safe.bind (P := fun st' : Out α => st' = st) (Safe.pure rfl) (fun st' hst' => ?_)
    subst hst'
    by_cases hji : j = i
    · rw [if_pos hji]
      refine Safe.bind (wr_safe st'.1 st'.2.2 j hn0 (by rw [hs1]; exact hcurlt)) (fun sj hsj => ?_)
      refine Safe.bind (wr_safe st'.2.1 st'.2.2 a hn0 (by rw [hs2]; exact hcurlt)) (fun sx hsx => ?_)
      exact Safe.pure ⟨by rw [hsj, hs1], by rw [hsx, hs2], by show 0 ≤ st'.2.2 + 1; omega,
        by show st'.2.2 + 1 + G.ap.getD 0 0 ≤ jj + 1; omega⟩
    · rw [if_neg hji]
      exact Safe.pure ⟨hs1, hs2, hn0, by omega⟩

/-- one row: both inner loops and `Sp[i+1] = nnz` -/
def row (o : Ops α) (theta : α) (G : Csr α) (i : Int) (st : Array Int × Out α) :
    Ck (Array Int × Out α) := do
  let s ← Ck.rd G.ap i
  let e ← Ck.rd G.ap (i+1)
  let m ← maxOff o G i s e
  let out ← forRange s e st.2 (emit o G i (o.mul theta m))
  let sp ← Ck.wr st.1 (i+1) out.2.2
  pure (sp, out)

theorem row_safe (o : Ops α) (theta : α) (G : Csr α) (hG : WF G) (i : Int) (hi0 : 0 ≤ i)
    (hi1 : i < (G.n : Int)) (st : Array Int × Out α) (hsp : st.1.size = G.n + 1)
    (hI : Inv G (G.ap.getD i.toNat 0) st.2) :
    Safe (row o theta G i st)
      (fun st' => st'.1.size = G.n + 1 ∧ Inv G (G.ap.getD (i.toNat + 1) 0) st'.2) := by
  have hin : i.toNat < G.n := by omega
  have hs1 : (i+1).toNat = i.toNat + 1 := by omega
  have a0 := ap_ge0 G hG i.toNat (by omega)
  have a1 := hG.ap0
  have a2 := ap_le_last G hG (i.toNat + 1) (by omega)
  have a3 := hG.last_j
  have a4 := hG.mono i.toNat hin
  unfold row
  refine Safe.bind (rd_safe G.ap i hi0 (by rw [hG.ap_size]; omega)) (fun s hs => ?_)
  refine Safe.bind (rd_safe G.ap (i+1) (by omega) (by rw [hG.ap_size]; omega)) (fun e he => ?_)
  rw [hs1] at he
  have hs' : s = G.ap.getD i.toNat 0 := hs
  have he' : e = G.ap.getD (i.toNat + 1) 0 := he
  refine Safe.bind (P := fun _ => True) ?_ (fun m _ => ?_)
  · unfold maxOff
    apply forRange_safe (fun _ => True) s e _ _ trivial
    intro jj h1 h2 acc _
    have hj0 : 0 ≤ jj := by omega
    have hj1 : jj.toNat < G.aj.size := by omega
    refine Safe.bind (rd_safe G.aj jj hj0 hj1) (fun j _ => ?_)
    refine Safe.bind (rd_safe G.ax jj hj0 (by rw [hG.ax_size]; exact hj1)) (fun a _ => ?_)
    split <;> exact Safe.pure trivial
  · -- second loop with the position-indexed invariant: generalise over the end point
    have hloop : ∀ (d : Nat), s + (d : Int) ≤ e →
        Safe ((List.range d).foldl (fun (acc : Ck (Out α)) (k : Nat) =>
          acc >>= emit o G i (o.mul theta m) (s + (k : Int))) (pure st.2)) (Inv G (s + (d : Int))) := by
      intro d
      induction d with
      | zero => intro _; exact Safe.pure (by simpa [hs'] using hI)
      | succ d ih =>
        intro hd
        rw [List.range_succ, List.foldl_append]
        simp only [List.foldl_cons, List.foldl_nil]
        have hd' : s + (d : Int) ≤ e := by omega
        refine Safe.bind (ih hd') (fun st1 hst1 => ?_)
        have hjj0 : 0 ≤ s + (d : Int) := by omega
        have hjj1 : (s + (d : Int)).toNat < G.aj.size := by omega
        have := emit_safe o G hG i (o.mul theta m) (s + (d : Int)) hjj0 hjj1 st1 hst1
        have e1 : s + (d : Int) + 1 = s + ((d + 1 : Nat) : Int) := by omega
        rw [e1] at this; exact this
    have hfor : Safe (forRange s e st.2 (emit o G i (o.mul theta m))) (Inv G e) := by
      unfold forRange
      have := hloop (e - s).toNat (by omega)
      have e2 : s + ((e - s).toNat : Int) = e := by omega
      rw [e2] at this; exact this
    refine Safe.bind hfor (fun out hout => ?_)
    refine Safe.bind (wr_safe st.1 (i+1) out.2.2 (by omega) (by rw [hsp]; omega)) (fun sp hspw => ?_)
    exact Safe.pure ⟨by rw [hspw, hsp], by rw [← he']; exact hout⟩

/-- the whole kernel -/
def kernel (o : Ops α) (theta : α) (G : Csr α) (sp : Array Int) (sj : Array Int) (sx : Array α) :
    Ck (Array Int × Out α) := do
  let sp ← Ck.wr sp 0 0
  forRange 0 (G.n : Int) (sp, (sj, sx, (0 : Int))) (row o theta G)

/-- **C17 for `classical_strength_of_connection_abs`** -/
theorem kernel_safe (o : Ops α) (theta : α) (G : Csr α) (hG : WF G)
    (sp sj : Array Int) (sx : Array α) (hsp : sp.size = G.n + 1) (hsj : sj.size = G.aj.size)
    (hsx : sx.size = G.aj.size) :
    Safe (kernel o theta G sp sj sx) (fun st => st.1.size = G.n + 1) := by
  unfold kernel
  refine Safe.bind (wr_safe sp 0 0 (Int.le_refl 0) (by rw [hsp]; omega)) (fun sp' hsp' => ?_)
  have hloop : ∀ (d : Nat), d ≤ G.n →
      Safe ((List.range d).foldl (fun (acc : Ck (Array Int × Out α)) (k : Nat) =>
        acc >>= row o theta G (0 + (k : Int))) (pure (sp', (sj, sx, (0 : Int)))))
        (fun st => st.1.size = G.n + 1 ∧ Inv G (G.ap.getD d 0) st.2) := by
    intro d
    induction d with
    | zero =>
      intro _
      exact Safe.pure ⟨by rw [hsp', hsp], hsj, hsx, Int.le_refl 0, by show (0 : Int) + _ ≤ _; omega⟩
    | succ d ih =>
      intro hd
      rw [List.range_succ, List.foldl_append]
      simp only [List.foldl_cons, List.foldl_nil]
      refine Safe.bind (ih (by omega)) (fun st hst => ?_)
      have e0 : (0 : Int) + (d : Int) = (d : Int) := by omega
      rw [e0]
      have := row_safe o theta G hG (d : Int) (by omega) (by omega) st hst.1
        (by simpa using hst.2)
      simpa using this
  unfold forRange
  have := hloop ((G.n : Int) - 0).toNat (by omega)
  exact Safe.mono this (fun st h => h.1)

#print axioms kernel_safe
end PyamgV.SocCk
