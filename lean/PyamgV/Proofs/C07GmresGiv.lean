import PyamgV.Proofs.C07GmresArn
import PyamgV.Proofs.Givens

/-! PyamgV (C07, GMRES with modified Gram–Schmidt): the list-based Givens bookkeeping of the executable
model (`rotL`, `applyRots`, the incremental update of the rotated columns and of the right-hand side `g`,
`backSub`) read as functions `Nat → K` is the abstract sweep `Givens.Q` / a solved triangular system. -/
namespace PyamgV.C07
open Finset

variable {K : Type} [Field K] [LinearOrder K] [IsStrictOrderedRing K]

/-- a list read as a function, `0` outside -/
def F (u : List K) : Nat → K := fun l => u.getD l 0

theorem F_append_zero (u : List K) : F (u ++ [0]) = F u := by
  funext l
  simp only [F, List.getD_eq_getElem?_getD, List.getElem?_append]
  by_cases h : l < u.length
  · simp [h]
  · simp only [h, if_false]
    have : u[l]? = none := List.getElem?_eq_none (by omega)
    rw [this]
    by_cases h2 : l - u.length = 0
    · simp [h2]
    · have : ([0] : List K)[l - u.length]? = none := List.getElem?_eq_none (by simp; omega)
      simp [this]

theorem F_append_lt (u w : List K) (l : Nat) (h : l < u.length) : F (u ++ w) l = F u l := by
  simp [F, List.getD_eq_getElem?_getD, List.getElem?_append, h]

theorem F_append_len (u : List K) (x : K) : F (u ++ [x]) u.length = x := by
  simp [F, List.getD_eq_getElem?_getD]

theorem F_set (u : List K) (i : Nat) (x : K) (hi : i < u.length) (l : Nat) :
    F (u.set i x) l = if l = i then x else F u l := by
  simp only [F, List.getD_eq_getElem?_getD, List.getElem?_set]
  by_cases h : i = l
  · subst h; simp [hi]
  · have : ¬ l = i := fun h' => h h'.symm
    simp [h, this]

theorem length_rotL (i : Nat) (c s : K) (u : List K) : (rotL i c s u).length = u.length := by
  simp [rotL]

theorem F_rotL (i : Nat) (c s : K) (u : List K) (h : i + 1 < u.length) :
    F (rotL i c s u) = Givens.rot i c s (F u) := by
  funext l
  unfold rotL
  simp only
  rw [F_set _ _ _ (by simp; omega), F_set _ _ _ (by omega)]
  unfold Givens.rot
  by_cases h1 : l = i + 1
  · subst h1; simp [F]
  · by_cases h2 : l = i
    · subst h2; simp [F]
    · simp [h1, h2]

theorem applyRots_length : ∀ (i : Nat) (cs sn u : List K), (applyRots i cs sn u).length = u.length
  | _, [], _, _ => by simp [applyRots]
  | _, _ :: _, [], _ => by simp [applyRots]
  | i, c :: cs, s :: sn, u => by
    simp only [applyRots]; rw [applyRots_length (i+1) cs sn, length_rotL]

theorem applyRots_snoc : ∀ (i : Nat) (cs sn : List K) (c s : K) (u : List K), cs.length = sn.length →
    applyRots i (cs ++ [c]) (sn ++ [s]) u = rotL (i + cs.length) c s (applyRots i cs sn u)
  | i, [], [], c, s, u, _ => by simp [applyRots]
  | _, [], _ :: _, _, _, _, h => by simp at h
  | _, _ :: _, [], _, _, _, h => by simp at h
  | i, c' :: cs, s' :: sn, c, s, u, h => by
    simp only [List.cons_append, applyRots, List.length_cons]
    rw [applyRots_snoc (i+1) cs sn c s _ (by simpa using h)]
    congr 1; omega

/-- `Q` only reads the first `m` rotation coefficients -/
theorem Q_congr (c s c' s' : Nat → K) : ∀ m, (∀ j, j < m → c j = c' j ∧ s j = s' j) →
    ∀ u : Nat → K, Givens.Q c s m u = Givens.Q c' s' m u
  | 0, _, _ => rfl
  | m+1, h, u => by
    simp only [Givens.Q]
    rw [Q_congr c s c' s' m (fun j hj => h j (by omega)) u, (h m (by omega)).1, (h m (by omega)).2]

/-- the list-based sweep is the abstract sweep -/
theorem F_applyRots (cs sn : List K) (hlen : cs.length = sn.length) (u : List K)
    (hu : cs.length < u.length) :
    F (applyRots 0 cs sn u) = Givens.Q (F cs) (F sn) cs.length (F u) := by
  induction cs using List.reverseRecOn generalizing sn with
  | nil => cases sn <;> simp [applyRots, Givens.Q]
  | append_singleton cs c ih =>
    rcases List.eq_nil_or_concat sn with rfl | ⟨sn', s, rfl⟩
    · simp at hlen
    · have hl : cs.length = sn'.length := by simpa using hlen
      rw [List.concat_eq_append] at *
      rw [applyRots_snoc 0 cs sn' c s u hl, Nat.zero_add]
      rw [F_rotL _ _ _ _ (by rw [applyRots_length]; simp at hu; omega)]
      rw [ih sn' hl (by simp at hu; omega)]
      simp only [List.length_append, List.length_singleton, Givens.Q]
      rw [F_append_len, hl, F_append_len, ← hl]
      congr 1
      apply Q_congr
      intro j hj
      exact ⟨(F_append_lt cs [c] j hj).symm, (F_append_lt sn' [s] j (by omega)).symm⟩

theorem rot_id (i : Nat) (u : Nat → K) : Givens.rot i 1 0 u = u := by
  funext l; simp only [Givens.rot]; split_ifs with h1 h2
  · subst h1; ring
  · subst h2; ring
  · rfl

/-! ### one step of the Givens bookkeeping of `gmresStep` -/

/-- the new rotated column and right-hand side of `gmresStep`, as functions: rotation `k` applied to the
column rotated by the previous rotations, and to the previous right-hand side -/
theorem step_giv (sqrt : K → K) (cs sn g col : List K) (k : Nat) (hcs : cs.length = k) (hsn : sn.length = k)
    (hg : g.length = k + 1) (hcol : col.length = k + 2) (rotflag : Bool) :
    let rc := applyRots 0 cs sn col
    let hj := rc.getD k 0
    let hj1 := rc.getD (k + 1) 0
    let cssn := if rotflag then lartgO sqrt hj hj1 else ((1 : K), (0 : K))
    let rc' := if rotflag then (rc.set k (cssn.1 * hj + cssn.2 * hj1)).set (k + 1) 0 else rc
    let g' := if rotflag then rotL k cssn.1 cssn.2 (g ++ [0]) else g ++ [0]
    F rc' = Givens.rot k cssn.1 cssn.2 (Givens.Q (F cs) (F sn) k (F col)) ∧
    F g' = Givens.rot k cssn.1 cssn.2 (F g) ∧ rc'.length = k + 2 ∧ g'.length = k + 2 := by
  intro rc hj hj1 cssn rc' g'
  have hrcl : rc.length = k + 2 := by simp only [rc]; rw [applyRots_length, hcol]
  have hFrc : F rc = Givens.Q (F cs) (F sn) k (F col) := by
    have := F_applyRots cs sn (by rw [hcs, hsn]) col (by rw [hcs, hcol]; omega)
    rw [hcs] at this; exact this
  cases rotflag with
  | false =>
    simp only [Bool.false_eq_true, if_false, cssn, rc', g']
    refine ⟨?_, ?_, hrcl, by simp [hg]⟩
    · rw [rot_id, hFrc]
    · rw [rot_id, F_append_zero]
  | true =>
    simp only [if_true, cssn, rc', g']
    refine ⟨?_, ?_, by simp [hrcl], by rw [length_rotL]; simp [hg]⟩
    · rw [← hFrc]
      funext l
      rw [F_set _ _ _ (by simp; omega), F_set _ _ _ (by omega)]
      unfold Givens.rot
      by_cases h1 : l = k + 1
      · subst h1
        have hz := lartg_zero sqrt hj hj1
        have hne : ¬ (k + 1 = k) := by omega
        rw [if_pos rfl, if_neg hne, if_pos rfl]
        exact hz.symm
      · by_cases h2 : l = k
        · subst h2; simp [h1, hj, hj1, F]
        · simp [h1, h2]
    · rw [F_rotL _ _ _ _ (by simp [hg]), F_append_zero]

/-- the same, for the helper `givensUpdate` of the model -/
theorem givensUpdate_spec (sqrt : K → K) (nz : K → Bool) (lastFull : Bool) (cs sn g col : List K) (k : Nat)
    (hcs : cs.length = k) (hsn : sn.length = k) (hg : g.length = k + 1) (hcol : col.length = k + 2) :
    let u := givensUpdate sqrt nz lastFull k cs sn g col
    F u.rc = Givens.rot k u.c u.s (Givens.Q (F cs) (F sn) k (F col)) ∧
    F u.g = Givens.rot k u.c u.s (F g) ∧ u.rc.length = k + 2 ∧ u.g.length = k + 2 :=
  step_giv sqrt cs sn g col k hcs hsn hg hcol
    (!lastFull && nz ((applyRots 0 cs sn col).getD (k + 1) 0))

/-- the rotation chosen by `givensUpdate` is a unit rotation -/
theorem givensUpdate_unit (sqrt : K → K) (hsq : ∀ a, 0 ≤ a → sqrt a * sqrt a = a) (nz : K → Bool)
    (hnz : ∀ a, nz a = true → a ≠ 0) (lastFull : Bool) (cs sn g col : List K) (k : Nat) :
    let u := givensUpdate sqrt nz lastFull k cs sn g col
    u.c * u.c + u.s * u.s = 1 := by
  intro u
  simp only [u, givensUpdate]
  split_ifs with h
  · apply lartg_unit sqrt hsq
    rw [Bool.and_eq_true] at h
    have hb := hnz _ h.2
    intro h0
    have h1 := hsq _ (add_nonneg (mul_self_nonneg ((applyRots 0 cs sn col).getD k 0))
      (mul_self_nonneg ((applyRots 0 cs sn col).getD (k + 1) 0)))
    rw [h0, mul_zero] at h1
    have h2 : (applyRots 0 cs sn col).getD (k + 1) 0 * (applyRots 0 cs sn col).getD (k + 1) 0 = 0 := by
      have := mul_self_nonneg ((applyRots 0 cs sn col).getD k 0)
      have := mul_self_nonneg ((applyRots 0 cs sn col).getD (k + 1) 0)
      linarith
    exact hb (mul_self_eq_zero.mp h2)
  · simp

/-- … and it zeroes the subdiagonal entry (unless this is the skipped last iteration of a full cycle) -/
theorem givensUpdate_zero (sqrt : K → K) (nz : K → Bool) (hnz : ∀ a, nz a = false → a = 0)
    (cs sn g col : List K) (k : Nat) (hcs : cs.length = k) (hsn : sn.length = k) (hcol : col.length = k + 2) :
    let u := givensUpdate sqrt nz false k cs sn g col
    Givens.rot k u.c u.s (Givens.Q (F cs) (F sn) k (F col)) (k + 1) = 0 := by
  intro u
  have hFrc : F (applyRots 0 cs sn col) = Givens.Q (F cs) (F sn) k (F col) := by
    have := F_applyRots cs sn (by rw [hcs, hsn]) col (by rw [hcs, hcol]; omega)
    rw [hcs] at this; exact this
  rw [← hFrc]
  simp only [u, givensUpdate, Givens.rot]
  have hne : ¬ (k + 1 = k) := by omega
  rw [if_neg hne, if_pos trivial]
  by_cases h : (!false && nz ((applyRots 0 cs sn col).getD (k + 1) 0)) = true
  · rw [if_pos h]; exact lartg_zero sqrt _ _
  · rw [if_neg h]
    simp only [Bool.not_false, Bool.true_and, Bool.not_eq_true] at h
    have := hnz _ h
    simp only [F]
    rw [this]; ring

end PyamgV.C07
