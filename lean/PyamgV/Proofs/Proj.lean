import Mathlib.LinearAlgebra.Matrix.NonsingularInverse

/-! PyamgV (T7): the constraint projection of `satisfy_constraints` annihilates `B`. -/
namespace PyamgV
open Matrix

variable {K : Type*} [Field K] {m n k : Type*} [Fintype m] [Fintype n] [Fintype k]
  [DecidableEq n] [DecidableEq k]

/-- `U ← U − (U B) (BᵀB)⁻¹ Bᵀ` gives `U B = 0` when `BᵀB` is invertible (real case; for complex
data replace `ᵀ` by `ᴴ`, identical proof). -/
theorem proj_constraint (U : Matrix m n K) (B : Matrix n k K) (h : IsUnit (Bᵀ * B).det) :
    (U - U * B * (Bᵀ * B)⁻¹ * Bᵀ) * B = 0 := by
  rw [Matrix.sub_mul]
  have : U * B * (Bᵀ * B)⁻¹ * Bᵀ * B = U * B := by
    rw [Matrix.mul_assoc (U * B * (Bᵀ * B)⁻¹), Matrix.mul_assoc (U * B), Matrix.nonsing_inv_mul _ h,
      Matrix.mul_one]
  rw [this, sub_self]

/-- consequence used by C10: adding any projected update leaves `P B` unchanged -/
theorem update_keeps_PB (P U : Matrix m n K) (B : Matrix n k K) (h : IsUnit (Bᵀ * B).det) (α : K) :
    (P + α • (U - U * B * (Bᵀ * B)⁻¹ * Bᵀ)) * B = P * B := by
  rw [Matrix.add_mul, Matrix.smul_mul, proj_constraint U B h, smul_zero, add_zero]

#print axioms update_keeps_PB
end PyamgV
