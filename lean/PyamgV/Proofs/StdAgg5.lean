import PyamgV.Proofs.StdAgg4

/-! PyamgV (C12): `standard_aggregation` pass 3 and the final theorem (symmetric pattern). -/
namespace PyamgV.Agg
open PyamgV

/-- renumbering of an already aggregated entry in pass 3 -/
def conv (n : Nat) (xi : Int) : Int :=
  if xi > 0 then xi - 1 else if xi = -(n : Int) then -1 else -xi - 1

def pass3Step (G : Graph) (s : St) (i : Nat) : St :=
  let xi := rd s.x i
  if xi ≠ 0 then { s with x := wr s.x i (conv G.n xi) }
  else
    { x := (G.adj i).foldl (fun x j => if rd x j = 0 then wr x j s.next else x) (wr s.x i s.next),
      y := wr s.y s.next.toNat (i : Int), next := s.next + 1 }

def pass3 (G : Graph) (s : St) : St := (List.range G.n).foldl (pass3Step G) s

structure P3 (G : Graph) (s2 : St) (t : Nat) (s : St) : Prop where
  size : s.x.size = G.n
  y : s.y = s2.y
  next : s.next = s2.next
  later : ∀ i, t ≤ i → rd s.x i = rd s2.x i
  conv : ∀ i, i < t → i < G.n → rd s.x i = conv G.n (rd s2.x i)

theorem pass3Step_inv (G : Graph) (s2 : St) (hnz : ∀ i, i < G.n → rd s2.x i ≠ 0)
    (t : Nat) (ht : t < G.n) (s : St) (h : P3 G s2 t s) : P3 G s2 (t+1) (pass3Step G s t) := by
  unfold pass3Step
  have hxt : rd s.x t = rd s2.x t := h.later t (Nat.le_refl t)
  have hne : rd s.x t ≠ 0 := by rw [hxt]; exact hnz t ht
  show P3 G s2 (t+1) (if rd s.x t ≠ 0 then { s with x := wr s.x t (Agg.conv G.n (rd s.x t)) } else _)
  rw [if_pos hne]
  have hts : t < s.x.size := by rw [h.size]; exact ht
  have hnew : ∀ k, rd (wr s.x t (Agg.conv G.n (rd s.x t))) k =
      if k = t then Agg.conv G.n (rd s.x t) else rd s.x k := by
    intro k; rw [rd_wr]
    by_cases hkt : t = k
    · subst hkt; simp [hts]
    · have : k ≠ t := fun e => hkt e.symm
      simp [hkt, this]
  refine ⟨by simp [h.size], h.y, h.next, ?_, ?_⟩
  · intro i hi
    show rd (wr s.x t (Agg.conv G.n (rd s.x t))) i = rd s2.x i
    rw [hnew, if_neg (by omega)]; exact h.later i (by omega)
  · intro i hi hin
    show rd (wr s.x t (Agg.conv G.n (rd s.x t))) i = Agg.conv G.n (rd s2.x i)
    rw [hnew]
    by_cases hit : i = t
    · subst hit; rw [if_pos rfl, hxt]
    · rw [if_neg hit]; exact h.conv i (by omega) hin

theorem pass3_inv (G : Graph) (s2 : St) (hsz : s2.x.size = G.n)
    (hnz : ∀ i, i < G.n → rd s2.x i ≠ 0) : P3 G s2 G.n (pass3 G s2) := by
  unfold pass3
  refine foldl_range_inv (fun k s => P3 G s2 k s) _ G.n s2 ⟨hsz, rfl, rfl, fun _ _ => rfl, fun i hi => by omega⟩ ?_
  intro k s hk hp; exact pass3Step_inv G s2 hnz k hk s hp

/-- the whole kernel: returns (x, y, number of aggregates) -/
def standardAggregation (G : Graph) : Array Int × Array Int × Int :=
  let s1 := pass1 G
  let s2 : St := { x := pass2 G s1.x, y := s1.y, next := s1.next - 1 }
  let s3 := pass3 G s2
  (s3.x, s3.y, s3.next)

/-- **C12, standard aggregation** (symmetric strength pattern, `n ≥ 1`):
ids are `-1` (unaggregated) or `0..k-1`; unaggregated = exactly the nodes without off-diagonal
neighbours; every aggregate `a < k` has its root `y[a]` inside it (so no aggregate is empty and
roots are distinct). -/
theorem standardAggregation_spec (G : Graph) (hG : GraphOK G) (hn : 1 ≤ G.n) :
    let r := standardAggregation G
    let x := r.1; let y := r.2.1; let k := r.2.2
    (0 ≤ k ∧ k + 1 ≤ G.n) ∧
    (∀ i, i < G.n → rd x i = -1 ∨ (0 ≤ rd x i ∧ rd x i < k)) ∧
    (∀ i, i < G.n → (rd x i = -1 ↔ Isolated G i)) ∧
    (∀ a : Int, 0 ≤ a → a < k → 0 ≤ rd y a.toNat ∧ (rd y a.toNat).toNat < G.n ∧
        rd x (rd y a.toNat).toNat = a) := by
  intro r x y k
  obtain ⟨hP, _⟩ := pass1_PQ G hG
  have hcnt := pass1_count G hG hn
  have hnz1 : ∀ i, i < G.n → rd (pass1 G).x i = 0 → ∃ j ∈ G.adj i, j ≠ i ∧ 1 ≤ rd (pass1 G).x j :=
    fun i hi h0 => hP.zero i hi hi h0
  have hP2 := pass2_inv G (pass1 G).x hP.xsize hnz1
  have hnz2 : ∀ i, i < G.n → rd (pass2 G (pass1 G).x) i ≠ 0 := fun i hi => hP2.done i hi hi
  have hP3 := pass3_inv G { x := pass2 G (pass1 G).x, y := (pass1 G).y, next := (pass1 G).next - 1 }
    hP2.size hnz2
  have hx : ∀ i, i < G.n → rd x i = conv G.n (rd (pass2 G (pass1 G).x) i) := fun i hi => hP3.conv i hi hi
  have hy : y = (pass1 G).y := hP3.y
  have hk : k = (pass1 G).next - 1 := hP3.next
  have hn1 := hP.next1
  -- value of every final entry, by cases on the pass-1 entry
  have hval : ∀ i, i < G.n →
      (rd (pass1 G).x i = -(G.n : Int) ∧ rd x i = -1) ∨
      (1 ≤ rd (pass1 G).x i ∧ rd (pass1 G).x i < (pass1 G).next ∧ rd x i = rd (pass1 G).x i - 1) ∨
      (rd (pass1 G).x i = 0 ∧ ∃ j ∈ G.adj i, 1 ≤ rd (pass1 G).x j ∧ rd (pass1 G).x j < (pass1 G).next ∧
          rd x i = rd (pass1 G).x j - 1) := by
    intro i hi
    rcases hP.vals i hi with h0 | h0 | h0
    · right; right
      obtain ⟨j, hj, hj1, hje⟩ := hP2.att i hi h0 (hnz2 i hi)
      have hjn := hG.bound i hi j hj
      have hjlt : rd (pass1 G).x j < (pass1 G).next := by
        rcases hP.vals j hjn with h' | h' | h' <;> omega
      refine ⟨h0, j, hj, hj1, hjlt, ?_⟩
      rw [hx i hi, hje]; unfold conv
      rw [if_neg (by omega), if_neg (by omega)]; omega
    · left
      refine ⟨h0, ?_⟩
      rw [hx i hi, hP2.keep i (by omega), h0]; unfold conv
      rw [if_neg (by omega), if_pos rfl]
    · right; left
      refine ⟨h0.1, h0.2, ?_⟩
      rw [hx i hi, hP2.keep i (by omega)]; unfold conv
      rw [if_pos (by omega)]
  refine ⟨⟨by omega, by omega⟩, ?_, ?_, ?_⟩
  · intro i hi
    rcases hval i hi with ⟨_, h⟩ | ⟨h1, h2, h3⟩ | ⟨_, j, _, h1, h2, h3⟩
    · exact Or.inl h
    · right; omega
    · right; omega
  · intro i hi
    constructor
    · intro hm1
      rcases hval i hi with ⟨h0, _⟩ | ⟨h1, h2, h3⟩ | ⟨_, j, _, h1, h2, h3⟩
      · exact (hP.iso i hi h0).1
      · omega
      · omega
    · intro hiso
      have := hP.isoC i hi hi hiso
      rcases hval i hi with ⟨_, h⟩ | ⟨h1, h2, h3⟩ | ⟨h0, _⟩
      · exact h
      · omega
      · omega
  · intro a ha0 hak
    obtain ⟨r0, rt, rx⟩ := hP.root (a + 1) (by omega) (by omega)
    have e1 : (a + 1 - 1).toNat = a.toNat := by omega
    rw [e1] at r0 rt rx
    rw [hy]
    refine ⟨r0, rt, ?_⟩
    rcases hval _ rt with ⟨h0, _⟩ | ⟨h1, h2, h3⟩ | ⟨h0, _⟩
    · omega
    · omega
    · omega

#print axioms standardAggregation_spec
end PyamgV.Agg
