import PyamgV.Proofs.C17Safe2

/-! PyamgV (C17): `symmetric_strength_of_connection` (smoothed_aggregation.h) in the `Ck` style.
Two phases: the diagonal norms `diags` (a private `std::vector<F> diags(n_row)`), then the
output-cursor loop (`Sj[nnz] = j; Sx[nnz] = Aij; nnz++`).  As for the classical measure the
writes are in range because at most one entry is emitted per input entry and the rows tile the
index space in order: invariant `nnz + Ap[0] ≤ jj` at input position `jj`.  The read `diags[j]`
needs the column indices in range. Output buffers sized as `pyamg/strength.py` allocates them
(`Sp` like `A.indptr`, `Sj`/`Sx` like `A.indices`/`A.data`). Core Lean only. -/
namespace PyamgV.C17
open PyamgV.Ck

set_option linter.unusedSectionVars false
variable {α : Type} [Inhabited α]

/-- extra scalar operations of the symmetric measure -/
structure SymOps (α : Type) where
  normsq : α → α
  ge : α → α → Bool

/-- output state: `Sj`, `Sx`, cursor `nnz` -/
abbrev SOut (α : Type) := Array Int × Array α × Int

/-- phase 1: `diags[i] = |sum of the stored diagonal entries of row i|` -/
def symDiags (o : KOps α) (G : Csr α) : Ck (Array α) :=
  forRange 0 (G.n : Int) (Array.replicate G.n default) (fun i (d : Array α) => do
    let s ← rd G.ap i
    let e ← rd G.ap (i+1)
    let dg ← forRange s e o.zero (fun jj (acc : α) => do
      let j ← rd G.aj jj
      if j = i then do
        let a ← rd G.ax jj
        pure (o.add acc a)
      else pure acc)
    wr d i (o.norm dg))

/-- phase 2, one input entry -/
def symEmit (o : KOps α) (so : SymOps α) (G : Csr α) (diags : Array α) (i : Int) (eps : α) (jj : Int)
    (st : SOut α) : Ck (SOut α) := do
  let j ← rd G.aj jj
  let a ← rd G.ax jj
  if i = j then do
    let sj ← wr st.1 st.2.2 j
    let sx ← wr st.2.1 st.2.2 a
    pure (sj, sx, st.2.2 + 1)
  else do
    let dj ← rd diags j
    if so.ge (so.normsq a) (o.mul eps dj) then do
      let sj ← wr st.1 st.2.2 j
      let sx ← wr st.2.1 st.2.2 a
      pure (sj, sx, st.2.2 + 1)
    else pure st

/-- phase 2, one row: `eps_Aii = theta*theta*diags[i]`, the entries, `Sp[i+1] = nnz` -/
def symRow (o : KOps α) (so : SymOps α) (theta : α) (G : Csr α) (diags : Array α) (i : Int)
    (st : Array Int × SOut α) : Ck (Array Int × SOut α) := do
  let di ← rd diags i
  let s ← rd G.ap i
  let e ← rd G.ap (i+1)
  let out ← forRange s e st.2 (symEmit o so G diags i (o.mul (o.mul theta theta) di))
  let sp ← wr st.1 (i+1) out.2.2
  pure (sp, out)

/-- the whole kernel -/
def symSoc (o : KOps α) (so : SymOps α) (theta : α) (G : Csr α) (sp sj : Array Int) (sx : Array α) :
    Ck (Array Int × SOut α) := do
  let diags ← symDiags o G
  let sp ← wr sp 0 0
  forRange 0 (G.n : Int) (sp, (sj, sx, (0 : Int))) (symRow o so theta G diags)

/-! ### safety -/

theorem symDiags_safe (o : KOps α) (G : Csr α) {m : Nat} (hG : WFm G m) :
    Safe (symDiags o G) (fun d => d.size = G.n) := by
  unfold symDiags
  apply forRange_safe (fun d : Array α => d.size = G.n) 0 (G.n : Int) _ _ (by simp)
  intro i i0 i1 d hd
  have hin : i.toNat < G.n := by omega
  have hs1 : (i+1).toNat = i.toNat + 1 := by omega
  refine Safe.bind (rd_safe G.ap i i0 (by rw [hG.ap_size]; omega)) (fun s hs => ?_)
  refine Safe.bind (rd_safe G.ap (i+1) (by omega) (by rw [hG.ap_size]; omega)) (fun e he => ?_)
  rw [hs1] at he
  refine Safe.bind (P := fun _ => True) ?_ (fun dg _ => ?_)
  · apply forRange_safe (fun _ => True) s e _ _ trivial
    intro jj j1 j2 acc _
    have hr := row_range_m G hG i.toNat hin jj (by rw [hs] at j1; exact j1) (by rw [he] at j2; exact j2)
    refine Safe.bind (rd_safe G.aj jj hr.1 hr.2.1) (fun j _ => ?_)
    by_cases hji : j = i
    · rw [if_pos hji]
      exact Safe.bind (rd_safe G.ax jj hr.1 hr.2.2) (fun _ _ => Safe.pure trivial)
    · rw [if_neg hji]; exact Safe.pure trivial
  · exact Safe.mono (wr_safe d i _ i0 (by rw [hd]; exact hin)) (fun a' h => by rw [h, hd])

/-- cursor invariant at input position `jj` -/
def SInv (G : Csr α) (jj : Int) (st : SOut α) : Prop :=
  st.1.size = G.aj.size ∧ st.2.1.size = G.aj.size ∧ 0 ≤ st.2.2 ∧ st.2.2 + G.ap.getD 0 0 ≤ jj

theorem symEmit_safe (o : KOps α) (so : SymOps α) (G : Csr α) (hG : WFm G G.n) (diags : Array α)
    (hd : diags.size = G.n) (i : Int) (eps : α) (jj : Int) (h0 : 0 ≤ jj) (hj : jj.toNat < G.aj.size)
    (hx : jj.toNat < G.ax.size) (st : SOut α) (hst : SInv G jj st) :
    Safe (symEmit o so G diags i eps jj st) (SInv G (jj + 1)) := by
  obtain ⟨hs1, hs2, hn0, hcur⟩ := hst
  have ha0 := hG.ap0
  have hw0 : 0 ≤ st.2.2 := hn0
  have hw1 : st.2.2.toNat < st.1.size := by rw [hs1]; omega
  have hw2 : st.2.2.toNat < st.2.1.size := by rw [hs2]; omega
  unfold symEmit
  refine Safe.bind (rd_safe G.aj jj h0 hj) (fun j hjv => ?_)
  refine Safe.bind (rd_safe G.ax jj h0 hx) (fun a _ => ?_)
  have emit : Safe (do
      let sj ← wr st.1 st.2.2 j
      let sx ← wr st.2.1 st.2.2 a
      pure ((sj, sx, st.2.2 + 1) : SOut α)) (SInv G (jj + 1)) := by
    refine Safe.bind (wr_safe st.1 st.2.2 j hw0 hw1) (fun sj hsj => ?_)
    refine Safe.bind (wr_safe st.2.1 st.2.2 a hw0 hw2) (fun sx hsx => ?_)
    exact Safe.pure ⟨by rw [hsj, hs1], by rw [hsx, hs2], by show 0 ≤ st.2.2 + 1; omega,
      by show st.2.2 + 1 + G.ap.getD 0 0 ≤ jj + 1; omega⟩
  by_cases hij : i = j
  · rw [if_pos hij]; exact emit
  · rw [if_neg hij]
    have hc := hG.cols jj.toNat hj
    have hj' : j = G.aj.getD jj.toNat 0 := hjv
    refine Safe.bind (rd_safe diags j (by rw [hj']; exact hc.1) (by rw [hj', hd]; omega)) (fun dj _ => ?_)
    by_cases hge : so.ge (so.normsq a) (o.mul eps dj) = true
    · rw [if_pos hge]; exact emit
    · rw [if_neg hge]; exact Safe.pure ⟨hs1, hs2, hn0, by omega⟩

theorem ap_ge0_m {m : Nat} (G : Csr α) (h : WFm G m) : ∀ i, i ≤ G.n → G.ap.getD 0 0 ≤ G.ap.getD i 0 := by
  intro i
  induction i with
  | zero => intro _; exact Int.le_refl _
  | succ i ih => intro hi; exact Int.le_trans (ih (by omega)) (h.mono i (by omega))

theorem symRow_safe (o : KOps α) (so : SymOps α) (theta : α) (G : Csr α) (hG : WFm G G.n)
    (diags : Array α) (hd : diags.size = G.n) (i : Int) (hi0 : 0 ≤ i) (hi1 : i < (G.n : Int))
    (st : Array Int × SOut α) (hsp : st.1.size = G.n + 1) (hst : SInv G (G.ap.getD i.toNat 0) st.2) :
    Safe (symRow o so theta G diags i st)
      (fun st' => st'.1.size = G.n + 1 ∧ SInv G (G.ap.getD (i.toNat + 1) 0) st'.2) := by
  have hin : i.toNat < G.n := by omega
  have hs1 : (i+1).toNat = i.toNat + 1 := by omega
  unfold symRow
  refine Safe.bind (rd_safe diags i hi0 (by rw [hd]; exact hin)) (fun di _ => ?_)
  refine Safe.bind (rd_safe G.ap i hi0 (by rw [hG.ap_size]; omega)) (fun s hs => ?_)
  refine Safe.bind (rd_safe G.ap (i+1) (by omega) (by rw [hG.ap_size]; omega)) (fun e he => ?_)
  rw [hs1] at he
  have hs' : s = G.ap.getD i.toNat 0 := hs
  have he' : e = G.ap.getD (i.toNat + 1) 0 := he
  have hse : s ≤ e := by rw [hs', he']; exact hG.mono i.toNat hin
  refine Safe.bind (P := SInv G e) ?_ (fun out hout => ?_)
  · apply forRange_safe_idx (SInv G) s e hse _ _ (by rw [hs']; exact hst)
    intro jj j1 j2 st' hst'
    have hr := row_range_m G hG i.toNat hin jj (by rw [hs'] at j1; exact j1) (by rw [he'] at j2; exact j2)
    exact symEmit_safe o so G hG diags hd i _ jj hr.1 hr.2.1 hr.2.2 st' hst'
  · obtain ⟨o1, o2, o3, o4⟩ := hout
    refine Safe.bind (wr_safe st.1 (i+1) out.2.2 (by omega) (by rw [hsp]; omega)) (fun sp hspw => ?_)
    exact Safe.pure ⟨by rw [hspw, hsp], by rw [← he']; exact ⟨o1, o2, o3, o4⟩⟩

/-- **`symmetric_strength_of_connection`**: for every well-formed square CSR matrix and output
buffers `Sp` (n+1), `Sj`, `Sx` (as long as `Aj`) no access leaves its array -/
theorem symSoc_safe (o : KOps α) (so : SymOps α) (theta : α) (G : Csr α) (hG : WFm G G.n)
    (sp sj : Array Int) (sx : Array α) (hsp : sp.size = G.n + 1) (hsj : sj.size = G.aj.size)
    (hsx : sx.size = G.aj.size) :
    Safe (symSoc o so theta G sp sj sx) (fun st => st.1.size = G.n + 1) := by
  unfold symSoc
  refine Safe.bind (symDiags_safe o G hG) (fun diags hd => ?_)
  refine Safe.bind (wr_safe sp 0 0 (Int.le_refl 0) (by rw [hsp]; omega)) (fun sp' hsp' => ?_)
  have key := forRange_safe_idx
    (fun (i : Int) (st : Array Int × SOut α) => st.1.size = G.n + 1 ∧ SInv G (G.ap.getD i.toNat 0) st.2)
    0 (G.n : Int) (by omega) (sp', (sj, sx, (0 : Int))) (symRow o so theta G diags)
    ⟨by rw [hsp', hsp], hsj, hsx, Int.le_refl 0, by show (0 : Int) + _ ≤ _; simp⟩
    (fun i i0 i1 st hst => by
      have h1 : (i + 1).toNat = i.toNat + 1 := by omega
      rw [h1]
      exact symRow_safe o so theta G hG diags hd i i0 i1 st hst.1 hst.2)
  exact Safe.mono key (fun st h => h.1)

end PyamgV.C17
