import Mathlib.Algebra.BigOperators.Intervals
import Mathlib.Algebra.BigOperators.Ring.Finset
import Mathlib.Algebra.Order.BigOperators.Group.Finset
import Mathlib.Tactic.Ring
import Mathlib.Tactic.Linarith

/-! PyamgV (C20, extension E21): finite sums over `0..n-1` as used for matrices given by an entry
function `M : Nat → Nat → R` — matrix-vector product `mv`, quadratic form `qf`, the splitting of an index
`p = c * P + r` of a `g * P` range into `(c, r)`, and the **Kronecker-sum structure**
`M (cP+r) (c'P+r') = [r = r'] T c c' + [c = c'] M' r r'` with its two consequences: `mv`/`qf` of `M`
split into the parts of `T` (along the first coordinate) and `M'` (along the rest), and products of
eigenvectors are eigenvectors with the sum of the eigenvalues. Pure algebra, no model involved. -/
namespace PyamgV.C20
open Finset

/-- a list sum over `List.range` as a `Finset` sum -/
theorem list_range_sum {R : Type} [AddCommMonoid R] (n : Nat) (f : Nat → R) :
    ((List.range n).map f).sum = ∑ i ∈ range n, f i := by
  induction n with
  | zero => simp
  | succ n ih => rw [List.range_succ, List.map_append, List.sum_append, ih, Finset.sum_range_succ]; simp

/-- `Σ_{p < g P} f p = Σ_{c < g} Σ_{r < P} f (c P + r)` -/
theorem sum_range_mul {R : Type} [AddCommMonoid R] (g P : Nat) (f : Nat → R) :
    ∑ p ∈ range (g * P), f p = ∑ c ∈ range g, ∑ r ∈ range P, f (c * P + r) := by
  induction g with
  | zero => simp
  | succ g ih =>
    rw [Nat.succ_mul, Finset.sum_range_add, ih, Finset.sum_range_succ]

theorem sum_pick {R : Type} [AddCommMonoid R] (n k : Nat) (hk : k < n) (f : Nat → R) :
    (∑ i ∈ range n, if k = i then f i else 0) = f k := by
  rw [Finset.sum_ite_eq]; simp [hk]

theorem sum_pick' {R : Type} [AddCommMonoid R] (n k : Nat) (hk : k < n) (f : Nat → R) :
    (∑ i ∈ range n, if i = k then f i else 0) = f k := by
  rw [Finset.sum_ite_eq']; simp [hk]

/-- matrix-vector product, component `p`, of the leading `n × n` block -/
def mv {R : Type} [CommRing R] (n : Nat) (M : Nat → Nat → R) (x : Nat → R) (p : Nat) : R :=
  ∑ q ∈ range n, M p q * x q

/-- quadratic form `xᵀ M x` of the leading `n × n` block -/
def qf {R : Type} [CommRing R] (n : Nat) (M : Nat → Nat → R) (x : Nat → R) : R :=
  ∑ p ∈ range n, x p * mv n M x p

/-- `M` is the Kronecker sum `T ⊗ I + I ⊗ M'` on indices `p = c P + r`, `c < g`, `r < P` -/
def KronSum {R : Type} [CommRing R] (g P : Nat) (M T M' : Nat → Nat → R) : Prop :=
  ∀ c c' r r', c < g → c' < g → r < P → r' < P →
    M (c * P + r) (c' * P + r') = (if r = r' then T c c' else 0) + (if c = c' then M' r r' else 0)

theorem mv_kron {R : Type} [CommRing R] (g P : Nat) (M T M' : Nat → Nat → R) (h : KronSum g P M T M')
    (x : Nat → R) (c r : Nat) (hc : c < g) (hr : r < P) :
    mv (g * P) M x (c * P + r) =
      mv g T (fun c' => x (c' * P + r)) c + mv P M' (fun r' => x (c * P + r')) r := by
  unfold mv
  rw [sum_range_mul]
  have e : ∀ c' ∈ range g, (∑ r' ∈ range P, M (c * P + r) (c' * P + r') * x (c' * P + r')) =
      T c c' * x (c' * P + r) + (if c = c' then ∑ r' ∈ range P, M' r r' * x (c * P + r') else 0) := by
    intro c' hc'
    have hc'' := Finset.mem_range.1 hc'
    have e1 : ∀ r' ∈ range P, M (c * P + r) (c' * P + r') * x (c' * P + r') =
        (if r = r' then T c c' * x (c' * P + r') else 0) + (if c = c' then M' r r' * x (c' * P + r') else 0) := by
      intro r' hr'
      rw [h c c' r r' hc hc'' hr (Finset.mem_range.1 hr'), add_mul]
      congr 1 <;> split <;> simp
    rw [Finset.sum_congr rfl e1, Finset.sum_add_distrib, sum_pick P r hr]
    congr 1
    by_cases hcc : c = c'
    · subst hcc; simp
    · simp [hcc]
  rw [Finset.sum_congr rfl e, Finset.sum_add_distrib, sum_pick g c hc]

theorem qf_kron {R : Type} [CommRing R] (g P : Nat) (M T M' : Nat → Nat → R) (h : KronSum g P M T M')
    (x : Nat → R) :
    qf (g * P) M x =
      (∑ r ∈ range P, qf g T (fun c => x (c * P + r))) + ∑ c ∈ range g, qf P M' (fun r => x (c * P + r)) := by
  unfold qf
  rw [sum_range_mul]
  have e : ∀ c ∈ range g, (∑ r ∈ range P, x (c * P + r) * mv (g * P) M x (c * P + r)) =
      (∑ r ∈ range P, x (c * P + r) * mv g T (fun c' => x (c' * P + r)) c) +
        ∑ r ∈ range P, x (c * P + r) * mv P M' (fun r' => x (c * P + r')) r := by
    intro c hc
    rw [← Finset.sum_add_distrib]
    apply Finset.sum_congr rfl
    intro r hr
    rw [mv_kron g P M T M' h x c r (Finset.mem_range.1 hc) (Finset.mem_range.1 hr), mul_add]
  rw [Finset.sum_congr rfl e, Finset.sum_add_distrib, Finset.sum_comm]

/-- **eigenvectors of a Kronecker sum**: a product of an eigenvector of `T` and one of `M'` is an
eigenvector of `M` for the sum of the eigenvalues -/
theorem mv_kron_eigen {R : Type} [CommRing R] (g P : Nat) (hP : 0 < P) (M T M' : Nat → Nat → R)
    (h : KronSum g P M T M') (u w : Nat → R) (lam mu : R)
    (hu : ∀ c < g, mv g T u c = lam * u c) (hw : ∀ r < P, mv P M' w r = mu * w r)
    (p : Nat) (hp : p < g * P) :
    mv (g * P) M (fun p => u (p / P) * w (p % P)) p = (lam + mu) * (u (p / P) * w (p % P)) := by
  have hc : p / P < g := (Nat.div_lt_iff_lt_mul hP).2 hp
  have hr : p % P < P := Nat.mod_lt _ hP
  have hp' : p = p / P * P + p % P := (Nat.div_add_mod' p P).symm
  generalize p / P = c at *
  generalize p % P = r at *
  subst hp'
  rw [mv_kron g P M T M' h _ c r hc hr]
  have d1 : ∀ c' r', r' < P → (c' * P + r') / P = c' := by
    intro c' r' h'
    rw [Nat.mul_comm, Nat.mul_add_div hP, Nat.div_eq_of_lt h']; rfl
  have d2 : ∀ c' r', r' < P → (c' * P + r') % P = r' := by
    intro c' r' h'
    rw [Nat.mul_comm, Nat.mul_add_mod, Nat.mod_eq_of_lt h']
  have e1 : mv g T (fun c' => u ((c' * P + r) / P) * w ((c' * P + r) % P)) c = w r * mv g T u c := by
    unfold mv
    rw [Finset.mul_sum]
    apply Finset.sum_congr rfl
    intro c' _
    show T c c' * (u ((c' * P + r) / P) * w ((c' * P + r) % P)) = _
    rw [d1 c' r hr, d2 c' r hr]; ring
  have e2 : mv P M' (fun r' => u ((c * P + r') / P) * w ((c * P + r') % P)) r = u c * mv P M' w r := by
    unfold mv
    rw [Finset.mul_sum]
    apply Finset.sum_congr rfl
    intro r' hr'
    show M' r r' * (u ((c * P + r') / P) * w ((c * P + r') % P)) = _
    rw [d1 c r' (Finset.mem_range.1 hr'), d2 c r' (Finset.mem_range.1 hr')]; ring
  rw [e1, e2, hu c hc, hw r hr]; ring

end PyamgV.C20
