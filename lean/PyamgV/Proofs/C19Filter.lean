import PyamgV.Model.C19Utils
import Mathlib.Algebra.Order.Ring.Rat
import Mathlib.Algebra.BigOperators.Group.List.Basic
import Mathlib.Tactic.Ring
import Mathlib.Tactic.Linarith
import Mathlib.Tactic.LinearCombination

/-! PyamgV (C19): the executable filter models of `Model/C19Utils.lean` equal their definitions.

* `socAbsRow_spec` / `filterRowsMax_getD`: the `classical_strength_of_connection_abs` loop applied
  to indices shifted past the diagonal keeps exactly the entries with
  `|a|^2 >= theta^2 * max_k |a_k|^2`, the maximum taken over ALL stored entries of the slice;
* `rowMaxSq_ge`, `rowMaxSq_attained`: that maximum is an upper bound and is attained;
* `filterRowDiag_plain`: the diagonal rule zeroes exactly the entries below `theta |a_ii|`;
* `filterRowDiag_lump_sum`: lumping preserves the row sum. -/
namespace PyamgV.C19

section maxrule
variable {α : Type}

/-- `max_k |a_k|^2` over the stored entries of a slice (0 for an empty slice) -/
def rowMaxSq (nsq : α → Rat) (r : RowOf α) : Rat := r.foldl (fun m cv => max m (nsq cv.2)) 0

theorem foldl_append_filter {β : Type} (p : β → Prop) [DecidablePred p] (l acc : List β) :
    l.foldl (fun out x => if p x then out ++ [x] else out) acc = acc ++ l.filter p := by
  induction l generalizing acc with
  | nil => simp
  | cons a l ih =>
    simp only [List.foldl_cons, List.filter_cons]
    by_cases h : p a
    · simp [h, ih]
    · simp [h, ih]

theorem foldl_max_ge_init (nsq : α → Rat) (r : RowOf α) (m0 : Rat) :
    m0 ≤ r.foldl (fun m cv => max m (nsq cv.2)) m0 := by
  induction r generalizing m0 with
  | nil => simp
  | cons a l ih => exact le_trans (le_max_left _ _) (ih _)

theorem foldl_max_ge_mem (nsq : α → Rat) (r : RowOf α) (m0 : Rat) (cv : Nat × α) (h : cv ∈ r) :
    nsq cv.2 ≤ r.foldl (fun m cv => max m (nsq cv.2)) m0 := by
  induction r generalizing m0 with
  | nil => cases h
  | cons a l ih =>
    simp only [List.foldl_cons]
    rcases List.mem_cons.mp h with h | h
    · subst h; exact le_trans (le_max_right _ _) (foldl_max_ge_init nsq l _)
    · exact ih _ h

/-- the row maximum bounds every stored entry -/
theorem rowMaxSq_ge (nsq : α → Rat) (r : RowOf α) (cv : Nat × α) (h : cv ∈ r) : nsq cv.2 ≤ rowMaxSq nsq r :=
  foldl_max_ge_mem nsq r 0 cv h

theorem foldl_max_attained (nsq : α → Rat) (r : RowOf α) (m0 : Rat) :
    r.foldl (fun m cv => max m (nsq cv.2)) m0 = m0 ∨
      ∃ cv ∈ r, r.foldl (fun m cv => max m (nsq cv.2)) m0 = nsq cv.2 := by
  induction r generalizing m0 with
  | nil => left; rfl
  | cons a l ih =>
    simp only [List.foldl_cons]
    rcases ih (max m0 (nsq a.2)) with h | ⟨cv, hm, h⟩
    · rcases max_choice m0 (nsq a.2) with h2 | h2
      · left; rw [h, h2]
      · right; exact ⟨a, List.mem_cons_self, by rw [h, h2]⟩
    · right; exact ⟨cv, List.mem_cons_of_mem _ hm, h⟩

/-- ... and is attained by a stored entry (or is the start value 0) -/
theorem rowMaxSq_attained (nsq : α → Rat) (r : RowOf α) :
    rowMaxSq nsq r = 0 ∨ ∃ cv ∈ r, rowMaxSq nsq r = nsq cv.2 := foldl_max_attained nsq r 0

/-- **the index-shift trick is right**: with every minor index moved past the slice number, the
strength kernel's loop is the plain threshold filter over all stored entries -/
theorem socAbsRow_spec (nsq : α → Rat) (θ : Rat) (shift i : Nat) (hi : i < shift) (r : RowOf α) :
    socAbsRow nsq θ shift i r = r.filter (fun cv => nsq cv.2 ≥ θ * θ * rowMaxSq nsq r) := by
  unfold socAbsRow
  have hne : ∀ cv ∈ r.map (fun cv => (cv.1 + shift, cv.2)), cv.1 ≠ i := by
    intro cv h
    rcases List.mem_map.mp h with ⟨c, _, rfl⟩
    simp only
    omega
  have hmx : (r.map (fun cv => (cv.1 + shift, cv.2))).foldl (fun m cv => if cv.1 ≠ i then max m (nsq cv.2) else m) 0
      = rowMaxSq nsq r := by
    unfold rowMaxSq
    rw [List.foldl_map]
    apply List.foldl_ext
    intro m cv _
    have : cv.1 + shift ≠ i := by omega
    simp [this]
  simp only [hmx]
  have hloop : ∀ (l : List (Nat × α)) (acc : List (Nat × α)), (∀ cv ∈ l, cv.1 ≠ i) →
      l.foldl (fun out cv =>
        let out := if nsq cv.2 ≥ θ * θ * rowMaxSq nsq r ∧ cv.1 ≠ i then out ++ [cv] else out
        if cv.1 = i then out ++ [cv] else out) acc
      = acc ++ l.filter (fun cv => nsq cv.2 ≥ θ * θ * rowMaxSq nsq r) := by
    intro l
    induction l with
    | nil => intro acc _; simp
    | cons a l ih =>
      intro acc h
      have ha : a.1 ≠ i := h a List.mem_cons_self
      simp only [List.foldl_cons, List.filter_cons]
      rw [ih _ (fun cv hc => h cv (List.mem_cons_of_mem _ hc))]
      by_cases hp : nsq a.2 ≥ θ * θ * rowMaxSq nsq r
      · simp [hp, ha]
      · simp [hp, ha]
  rw [hloop _ [] hne, List.nil_append, List.filter_map, List.map_map]
  have : ((fun cv : Nat × α => (cv.1 - shift, cv.2)) ∘ fun cv : Nat × α => (cv.1 + shift, cv.2)) = id := by
    funext cv; simp
  rw [this, List.map_id]
  rfl

/-- row `i` of `filter_matrix_rows(A, theta)` (column `i` of `filter_matrix_columns`): exactly the
stored entries with `|a|^2 >= theta^2 max |a_k|^2` -/
theorem filterRowsMax_getD (nsq : α → Rat) (θ : Rat) (rows : Rows α) (i : Nat) (hi : i < rows.length) :
    (filterRowsMax nsq θ rows).getD i [] =
      (rows.getD i []).filter (fun cv => nsq cv.2 ≥ θ * θ * rowMaxSq nsq (rows.getD i [])) := by
  unfold filterRowsMax
  simp only [List.getD_eq_getElem?_getD, List.getElem?_mapIdx, List.getElem?_eq_getElem hi, Option.map_some,
    Option.getD_some]
  exact socAbsRow_spec nsq θ rows.length i hi _

end maxrule

section diagrule
variable {K : Type} [Field K] [DecidableEq K]

/-- the plain diagonal rule: every stored entry below `theta * |first stored diagonal entry|` is zeroed,
nothing else changes (no stored diagonal: nothing is below the threshold 0 as `nsq >= 0`) -/
theorem filterRowDiag_plain (nsq : K → Rat) (θ : Rat) (i : Nat) (r : RowOf K) :
    filterRowDiag nsq θ false i r =
      r.map (fun cv => if nsq cv.2 < θ * θ * (match r.findIdx? (·.1 = i) with
        | none => 0 | some k => nsq ((r.getD k (0, 0)).2)) then (cv.1, (0 : K)) else cv) := by
  unfold filterRowDiag
  rfl

theorem sumL_eq_sum (l : List K) : sumL l = l.sum := by
  unfold sumL
  rw [List.sum_eq_foldl]

theorem sum_zeroed (p : Nat × K → Prop) [DecidablePred p] (r : RowOf K) :
    ((r.map (fun cv => if p cv then (cv.1, (0 : K)) else cv)).map (·.2)).sum + ((r.filter p).map (·.2)).sum
      = (r.map (·.2)).sum := by
  induction r with
  | nil => simp
  | cons a l ih =>
    by_cases h : p a
    · simp only [List.map_cons, List.sum_cons, List.filter_cons, h, if_true, decide_true]
      linear_combination ih
    · simp only [List.map_cons, List.sum_cons, List.filter_cons, h, if_false, decide_false]
      simp only [Bool.false_eq_true, if_false]
      linear_combination ih

theorem sum_modify (s : K) (z : RowOf K) (k : Nat) (hk : k < z.length) :
    ((z.modify k (fun cv => (cv.1, cv.2 + s))).map (·.2)).sum = (z.map (·.2)).sum + s := by
  induction z generalizing k with
  | nil => simp at hk
  | cons a l ih =>
    cases k with
    | zero => simp [List.modify_cons]; ring
    | succ k =>
      have hk' : k < l.length := by simpa using hk
      simp only [List.modify_succ_cons, List.map_cons, List.sum_cons, ih k hk']
      ring

/-- **lumping preserves the row sum** (the dropped off-diagonal entries are added to the first
stored diagonal entry; without a stored diagonal entry the row is unchanged) -/
theorem filterRowDiag_lump_sum (nsq : K → Rat) (θ : Rat) (i : Nat) (r : RowOf K) :
    sumL ((filterRowDiag nsq θ true i r).map (·.2)) = sumL (r.map (·.2)) := by
  rw [sumL_eq_sum, sumL_eq_sum]
  unfold filterRowDiag
  simp only [if_true]
  cases hd : r.findIdx? (·.1 = i) with
  | none => simp
  | some k =>
    simp only
    have hk : k < r.length := by
      have := List.findIdx?_eq_some_iff_findIdx_eq.mp hd
      exact this.1
    rw [sum_modify _ _ _ (by simpa using hk), sumL_eq_sum]
    exact sum_zeroed _ r

end diagrule

#print axioms socAbsRow_spec
#print axioms filterRowsMax_getD
#print axioms filterRowDiag_lump_sum
end PyamgV.C19
