/-! PyamgV: counting-sort combinatorics (for the initial bucket state of `rs_cf_splitting`).
`lamf i` is the key of node `i`, `cnt v t` the number of nodes `< t` with key `v`, `P v` the
prefix sum of the histogram, `pos i = P (lamf i) + cnt (lamf i) i` the slot of node `i`. Core only. -/
namespace PyamgV.CS

variable (lamf : Nat → Nat)

def cnt (v : Nat) : Nat → Nat
  | 0 => 0
  | t+1 => cnt v t + (if lamf t = v then 1 else 0)

def P (n : Nat) : Nat → Nat
  | 0 => 0
  | v+1 => P n v + cnt lamf v n

def pos (n : Nat) (i : Nat) : Nat := P lamf n (lamf i) + cnt lamf (lamf i) i

theorem cnt_mono (v : Nat) {s t : Nat} (h : s ≤ t) : cnt lamf v s ≤ cnt lamf v t := by
  induction t with
  | zero => have : s = 0 := by omega
            subst this; exact Nat.le_refl _
  | succ t ih =>
    by_cases hs : s = t + 1
    · subst hs; exact Nat.le_refl _
    · have := ih (by omega); simp only [cnt]; omega

theorem cnt_lt (n i : Nat) (hi : i < n) : cnt lamf (lamf i) i < cnt lamf (lamf i) n := by
  have h1 : cnt lamf (lamf i) (i+1) = cnt lamf (lamf i) i + 1 := by simp [cnt]
  have h2 := cnt_mono lamf (lamf i) (show i + 1 ≤ n by omega)
  omega

theorem P_mono (n : Nat) {v w : Nat} (h : v ≤ w) : P lamf n v ≤ P lamf n w := by
  induction w with
  | zero => have : v = 0 := by omega
            subst this; exact Nat.le_refl _
  | succ w ih =>
    by_cases hv : v = w + 1
    · subst hv; exact Nat.le_refl _
    · have := ih (by omega); simp only [P]; omega

/-- total: if all keys of the first `t` nodes are `< L`, the counts up to `L` sum to `t` -/
def Pt (t : Nat) : Nat → Nat
  | 0 => 0
  | v+1 => Pt t v + cnt lamf v t

theorem Pt_succ (t : Nat) (m : Nat) :
    Pt lamf (t+1) m = Pt lamf t m + (if lamf t < m then 1 else 0) := by
  induction m with
  | zero => simp [Pt]
  | succ m ih =>
    simp only [Pt, cnt, ih]
    by_cases h1 : lamf t < m
    · have : lamf t ≠ m := by omega
      have h2 : lamf t < m + 1 := by omega
      simp [h1, this, h2]; omega
    · by_cases h2 : lamf t = m
      · have h3 : lamf t < m + 1 := by omega
        simp [h1, h2, h3]; omega
      · have h3 : ¬ lamf t < m + 1 := by omega
        simp [h1, h2, h3]

theorem Pt_total (L : Nat) : ∀ t, (∀ i, i < t → lamf i < L) → Pt lamf t L = t := by
  intro t
  induction t with
  | zero =>
    intro _
    have : ∀ m, Pt lamf 0 m = 0 := by
      intro m; induction m with
      | zero => rfl
      | succ m ih => simp [Pt, cnt, ih]
    exact this L
  | succ t ih =>
    intro h
    rw [Pt_succ, ih (fun i hi => h i (by omega))]
    simp [h t (by omega)]

theorem P_eq_Pt (n v : Nat) : P lamf n v = Pt lamf n v := by
  induction v with
  | zero => rfl
  | succ v ih => simp [P, Pt, ih]

theorem P_total (n L : Nat) (h : ∀ i, i < n → lamf i < L) : P lamf n L = n := by
  rw [P_eq_Pt]; exact Pt_total lamf L n h

/-- every slot is below `n` -/
theorem pos_lt (n L : Nat) (h : ∀ i, i < n → lamf i < L) (i : Nat) (hi : i < n) : pos lamf n i < n := by
  unfold pos
  have h1 := cnt_lt lamf n i hi
  have h2 : P lamf n (lamf i) + cnt lamf (lamf i) n = P lamf n (lamf i + 1) := rfl
  have h3 := P_mono lamf n (show lamf i + 1 ≤ L from h i hi)
  have h4 := P_total lamf n L h
  omega

/-- slots are distinct -/
theorem pos_inj (n : Nat) (i j : Nat) (hi : i < n) (hj : j < n) (h : pos lamf n i = pos lamf n j) : i = j := by
  unfold pos at h
  by_cases hv : lamf i = lamf j
  · rw [hv] at h
    have hc : cnt lamf (lamf j) i = cnt lamf (lamf j) j := by omega
    -- equal counts for two nodes with the same key force equal indices
    by_cases hij : i < j
    · exfalso
      have h1 : cnt lamf (lamf j) (i+1) = cnt lamf (lamf j) i + 1 := by simp [cnt, hv]
      have h2 := cnt_mono lamf (lamf j) (show i + 1 ≤ j by omega)
      omega
    · by_cases hji : j < i
      · exfalso
        have h1 : cnt lamf (lamf j) (j+1) = cnt lamf (lamf j) j + 1 := by simp [cnt]
        have h2 := cnt_mono lamf (lamf j) (show j + 1 ≤ i by omega)
        omega
      · omega
  · exfalso
    by_cases hlt : lamf i < lamf j
    · have h1 := cnt_lt lamf n i hi
      have h2 : P lamf n (lamf i) + cnt lamf (lamf i) n = P lamf n (lamf i + 1) := rfl
      have h3 := P_mono lamf n (show lamf i + 1 ≤ lamf j by omega)
      omega
    · have h1 := cnt_lt lamf n j hj
      have h2 : P lamf n (lamf j) + cnt lamf (lamf j) n = P lamf n (lamf j + 1) := rfl
      have h3 := P_mono lamf n (show lamf j + 1 ≤ lamf i by omega)
      omega

/-- discrete intermediate value: every count below `cnt v t` is attained at a node with key `v` -/
theorem cnt_surj (v : Nat) : ∀ t c, c < cnt lamf v t → ∃ i, i < t ∧ lamf i = v ∧ cnt lamf v i = c := by
  intro t
  induction t with
  | zero => intro c h; simp [cnt] at h
  | succ t ih =>
    intro c h
    simp only [cnt] at h
    by_cases hc : c < cnt lamf v t
    · obtain ⟨i, hi, h1, h2⟩ := ih c hc
      exact ⟨i, by omega, h1, h2⟩
    · by_cases hv : lamf t = v
      · simp only [hv, if_true] at h
        exact ⟨t, by omega, hv, by omega⟩
      · simp only [hv, if_false] at h; omega

/-- every slot in the block of key `v` is the slot of a node with key `v` -/
theorem block_surj (n v p : Nat) (h1 : P lamf n v ≤ p) (h2 : p < P lamf n v + cnt lamf v n) :
    ∃ i, i < n ∧ lamf i = v ∧ pos lamf n i = p := by
  obtain ⟨i, hi, hv, hc⟩ := cnt_surj lamf v n (p - P lamf n v) (by omega)
  refine ⟨i, hi, hv, ?_⟩
  unfold pos; rw [hv, hc]; omega

/-- every position below `P n m` lies in the block of some key `< m` -/
theorem find_block (n : Nat) : ∀ m p, p < P lamf n m →
    ∃ v, v < m ∧ P lamf n v ≤ p ∧ p < P lamf n v + cnt lamf v n := by
  intro m
  induction m with
  | zero => intro p h; simp [P] at h
  | succ m ih =>
    intro p h
    by_cases hp : p < P lamf n m
    · obtain ⟨v, hv, h1, h2⟩ := ih p hp
      exact ⟨v, by omega, h1, h2⟩
    · exact ⟨m, by omega, by omega, by simpa [P] using h⟩

/-- slots are onto `[0, n)` -/
theorem pos_surj (n L : Nat) (h : ∀ i, i < n → lamf i < L) (p : Nat) (hp : p < n) :
    ∃ i, i < n ∧ pos lamf n i = p := by
  have := P_total lamf n L h
  obtain ⟨v, _, h1, h2⟩ := find_block lamf n L p (by omega)
  obtain ⟨i, hi, _, hpi⟩ := block_surj lamf n v p h1 h2
  exact ⟨i, hi, hpi⟩

#print axioms pos_inj
#print axioms pos_surj
end PyamgV.CS
