import PyamgV.Model.ExtC02XCycle
import PyamgV.Proofs.C02Model

/-! PyamgV (extension E35, property C02): the cycle recursion on *operator levels* (`C02X.cycleO`).

* `cycle_eq_cycleO`  : the executable CSR cycle model `C02.cycle` IS `cycleO` on `toO` levels (one definition).
* `cycleO_refines`   : for any *reading* `ρ : Array α → V` of arrays as vectors of a `K`-module that turns the
  model's `vsub`, `vadd`, `zeros` into `-`, `+`, `0`, and any levels whose five pieces refine (through `ρ`) the
  pieces of abstract levels `Level K V`, the model cycle read through `ρ` is the abstract recursion `cyc`.
  Instances: `ρ = fn` over an ordered field (the real model, `cycle_refines`), `ρ = toPair ∘ fn` over `CRat`
  (complex model, `Proofs/ExtC02XComplex.lean`), `ρ = fn` with BSR block smoothers (`Proofs/ExtC02XBlockCycle.lean`). -/
set_option linter.unusedSectionVars false
namespace PyamgV.C02X
open PyamgV

section model
variable {α : Type} [Add α] [Sub α] [Mul α] [Div α] [OfNat α 0] [OfNat α 1] [DecidableEq α]

/-- **one definition**: the CSR cycle model is the operator-level cycle on `toO` levels -/
theorem cycle_eq_cycleO (solve : Array α → Array α) :
    ∀ (ls : List (C02.Lvl α)) (c : C02.Cyc) (cpl : Nat) (x b : Array α),
      C02.cycle solve c cpl ls x b = cycleO solve c cpl (ls.map toO) x b := by
  intro ls
  induction ls with
  | nil => intro c cpl x b; rfl
  | cons L rest ih =>
    intro c cpl x b
    cases rest with
    | nil => cases c <;> rfl
    | cons L' rest' =>
      conv_lhs => unfold C02.cycle
      conv_rhs => rw [List.map_cons]; unfold cycleO
      simp only [ih, toO, List.map_cons]
      cases c <;> rfl

theorem vsub_size (x y : Array α) : (C02.vsub x y).size = x.size := by unfold C02.vsub; simp
theorem vadd_size (x y : Array α) : (C02.vadd x y).size = x.size := by unfold C02.vadd; simp
theorem zeros_size (n : Nat) : (C02.zeros n : Array α).size = n := by unfold C02.zeros; simp

end model

section refine
variable {α : Type} [Add α] [Sub α] [Mul α] [Div α] [OfNat α 0] [OfNat α 1] [DecidableEq α]
variable {K : Type*} [Field K] {V : Type*} [AddCommGroup V] [Module K V]

/-- a reading of arrays as vectors that respects the vector operations of the cycle model -/
structure Reading (α : Type) [Add α] [Sub α] [OfNat α 0] (V : Type*) [AddCommGroup V] where
  ρ : Array α → V
  sub : ∀ x y : Array α, y.size ≤ x.size → ρ (C02.vsub x y) = ρ x - ρ y
  add : ∀ x y : Array α, y.size ≤ x.size → ρ (C02.vadd x y) = ρ x + ρ y
  zero : ∀ n : Nat, ρ (C02.zeros n) = 0

/-- the five pieces of an operator level refine those of an abstract level, on vectors of the level's size
`n` and the next level's size `m` -/
structure RefL (rd : Reading α V) (L : OLvl α) (L' : Level K V) (n m : Nat) : Prop where
  A : ∀ x : Array α, x.size = n → (L.A x).size = n ∧ rd.ρ (L.A x) = L'.A (rd.ρ x)
  R : ∀ r : Array α, r.size = n → (L.R r).size = m ∧ rd.ρ (L.R r) = L'.R (rd.ρ r)
  P : ∀ cx : Array α, cx.size = m → (L.P cx).size = n ∧ rd.ρ (L.P cx) = L'.P (rd.ρ cx)
  pre : ∀ b x : Array α, b.size = n → x.size = n →
    (L.pre b x).size = n ∧ rd.ρ (L.pre b x) = L'.pre (rd.ρ x) (rd.ρ b)
  post : ∀ b x : Array α, b.size = n → x.size = n →
    (L.post b x).size = n ∧ rd.ρ (L.post b x) = L'.post (rd.ρ x) (rd.ρ b)

/-- level by level, with sizes chaining down to the size `nc` of the coarsest problem -/
def RefH (rd : Reading α V) (nc : Nat) : Nat → List (OLvl α) → List (Level K V) → Prop
  | n, [], [] => n = nc
  | n, L :: ls, L' :: ls' => ∃ m, RefL rd L L' n m ∧ RefH rd nc m ls ls'
  | _, [], _ :: _ => False
  | _, _ :: _, [] => False

theorem iterN_refines (rd : Reading α V) (f : Array α → Array α) (g : V → V) (m : Nat)
    (h : ∀ cx : Array α, cx.size = m → (f cx).size = m ∧ rd.ρ (f cx) = g (rd.ρ cx)) :
    ∀ (k : Nat) (cx : Array α), cx.size = m →
      (C02.iterN f k cx).size = m ∧
      rd.ρ (C02.iterN f k cx) = PyamgV.iter (fun x _ => g x) (0 : V) k (rd.ρ cx) := by
  intro k
  induction k with
  | zero => intro cx hcx; exact ⟨hcx, rfl⟩
  | succ k ih =>
    intro cx hcx
    obtain ⟨h1, h2⟩ := h cx hcx
    have := ih (f cx) h1
    simp only [C02.iterN, PyamgV.iter]
    rw [← h2]; exact this

theorem iter_congr_b (f : V → V → V) (b : V) :
    ∀ (k : Nat) (x : V), PyamgV.iter (fun x _ => f x b) (0 : V) k x = PyamgV.iter f b k x := by
  intro k
  induction k with
  | zero => intro x; rfl
  | succ k ih => intro x; simp only [PyamgV.iter]; exact ih _

/-- **the operator-level cycle model, read through `ρ`, is the abstract recursion `cyc`** (and keeps the sizes) -/
theorem cycleO_refines (rd : Reading α V) (solve : Array α → Array α) (solveF : V → V) (nc : Nat)
    (hsolve : ∀ b : Array α, b.size = nc → (solve b).size = nc ∧ rd.ρ (solve b) = solveF (rd.ρ b)) :
    ∀ (ls : List (OLvl α)) (ls' : List (Level K V)) (c : C02.Cyc) (cpl n : Nat) (x b : Array α),
      RefH rd nc n ls ls' → x.size = n → b.size = n →
      (cycleO solve c cpl ls x b).size = n ∧
      rd.ρ (cycleO solve c cpl ls x b) = cyc solveF (ctype c cpl) ls' (rd.ρ x) (rd.ρ b) := by
  intro ls
  induction ls with
  | nil =>
    intro ls' c cpl n x b hs hx hb
    cases ls' with
    | cons _ _ => exact absurd hs (by simp [RefH])
    | nil =>
      have hn : n = nc := hs
      subst hn
      obtain ⟨h1, h2⟩ := hsolve b hb
      simp only [cycleO, cyc]
      exact ⟨h1, h2⟩
  | cons L rest ih =>
    intro ls' c cpl n x b hs hx hb
    cases ls' with
    | nil => exact absurd hs (by simp [RefH])
    | cons L' rest' =>
    obtain ⟨m, hL, hrest⟩ := hs
    -- pre-smoothing
    obtain ⟨hx1n, hx1⟩ := hL.pre b x hb hx
    set x1 := L.pre b x with hx1def
    -- residual and coarse right-hand side
    obtain ⟨hAs, hAf⟩ := hL.A x1 hx1n
    set residual := C02.vsub b (L.A x1) with hres
    have hress : residual.size = n := by rw [hres, vsub_size, hb]
    have hresf : rd.ρ residual = rd.ρ b - L'.A (rd.ρ x1) := by
      rw [hres, rd.sub _ _ (by rw [hAs, hb]), hAf]
    obtain ⟨hcbs, hcbf⟩ := hL.R residual hress
    set cb := L.R residual with hcb
    have hz : (C02.zeros cb.size : Array α).size = m := by rw [zeros_size, hcbs]
    have hzf : rd.ρ (C02.zeros cb.size : Array α) = 0 := rd.zero _
    -- the coarse iterate
    have hcoarse : ∃ cx : Array α, cx.size = m ∧
        cycleO solve c cpl (L :: rest) x b = L.post b (C02.vadd x1 (L.P cx)) ∧
        rd.ρ cx = (match ctype c cpl with
          | .V => cyc solveF .V rest' 0 (rd.ρ cb)
          | .W => cyc solveF .W rest' (cyc solveF .W rest' 0 (rd.ρ cb)) (rd.ρ cb)
          | .F k => PyamgV.iter (cyc solveF .V rest') (rd.ρ cb) k
                      (cyc solveF (.F k) rest' 0 (rd.ρ cb))) := by
      cases rest with
      | nil =>
        cases rest' with
        | cons _ _ => exact absurd hrest (by simp [RefH])
        | nil =>
          have hm : m = nc := hrest
          obtain ⟨h1, h2⟩ := hsolve cb (by rw [hcbs, hm])
          refine ⟨solve cb, by rw [h1, hm], rfl, ?_⟩
          rw [h2]
          cases c <;> simp only [ctype, cyc]
          exact (iter_ignore solveF (rd.ρ cb) cpl).symm
      | cons L2 rest2 =>
        cases c with
        | V =>
          obtain ⟨h1, h2⟩ := ih rest' .V 1 m _ cb hrest hz hcbs
          refine ⟨_, h1, rfl, ?_⟩
          rw [h2, hzf]; rfl
        | W =>
          obtain ⟨h1, h2⟩ := ih rest' .W 1 m _ cb hrest hz hcbs
          obtain ⟨h3, h4⟩ := ih rest' .W 1 m _ cb hrest h1 hcbs
          refine ⟨_, h3, rfl, ?_⟩
          rw [h4, h2, hzf]; rfl
        | F =>
          obtain ⟨h1, h2⟩ := ih rest' .F cpl m _ cb hrest hz hcbs
          have hstep : ∀ cx : Array α, cx.size = m →
              (cycleO solve .V 1 (L2 :: rest2) cx cb).size = m ∧
              rd.ρ (cycleO solve .V 1 (L2 :: rest2) cx cb) =
                cyc solveF .V rest' (rd.ρ cx) (rd.ρ cb) := by
            intro cx hcx
            exact ih rest' .V 1 m cx cb hrest hcx hcbs
          obtain ⟨h3, h4⟩ := iterN_refines rd _ (fun g => cyc solveF .V rest' g (rd.ρ cb))
            m hstep cpl _ h1
          refine ⟨_, h3, rfl, ?_⟩
          rw [h4, iter_congr_b, h2, hzf]; rfl
    obtain ⟨cx, hcxs, hcyc, hcxf⟩ := hcoarse
    rw [hcyc]
    obtain ⟨hPs, hPf⟩ := hL.P cx hcxs
    set x2 := C02.vadd x1 (L.P cx) with hx2
    have hx2s : x2.size = n := by rw [hx2, vadd_size, hx1n]
    have hx2f : rd.ρ x2 = rd.ρ x1 + L'.P (rd.ρ cx) := by
      rw [hx2, rd.add _ _ (by rw [hPs, hx1n]), hPf]
    obtain ⟨hps, hpf⟩ := hL.post b x2 hb hx2s
    refine ⟨hps, ?_⟩
    rw [hpf, hx2f, hcxf, hx1, hcbf, hresf, hx1]
    cases c <;> simp only [ctype, cyc]

end refine

#print axioms cycle_eq_cycleO
#print axioms cycleO_refines
end PyamgV.C02X
