import PyamgV.Proofs.MisParTerm
import PyamgV.Proofs.Bfs

/-! PyamgV (C18/C17): the parallel MIS sweep terminates — every pass that starts with an active
node decides at least one, so after at most `n` passes no node is active (weights in a total
order, ties broken by index exactly as the kernel does). Completes `misParallel_correct`, which
is conditional on "no node active at the end". Core Lean only. -/
namespace PyamgV

variable {W : Type} [LT W] [DecidableRel (α := W) (· < ·)] [DecidableEq W]

/-- total strict order on the weights -/
structure WOrd (W : Type) [LT W] : Prop where
  irr : ∀ a : W, ¬ a < a
  asym : ∀ a b : W, a < b → ¬ b < a
  trans : ∀ a b c : W, a < b → b < c → a < c
  tri : ∀ a b : W, a < b ∨ a = b ∨ b < a

/-- `i` beats `j` in the kernel's (weight, index) order -/
def beats (y : Nat → W) (i j : Nat) : Prop := y j < y i ∨ (y j = y i ∧ j ≤ i)

theorem beats_total (hW : WOrd W) (y : Nat → W) (i j : Nat) : beats y i j ∨ beats y j i := by
  unfold beats
  rcases hW.tri (y i) (y j) with h | h | h
  · exact Or.inr (Or.inl h)
  · by_cases hij : j ≤ i
    · exact Or.inl (Or.inr ⟨h.symm, hij⟩)
    · exact Or.inr (Or.inr ⟨h, by omega⟩)
  · exact Or.inl (Or.inl h)

theorem beats_trans (hW : WOrd W) (y : Nat → W) (i j k : Nat) (h1 : beats y i j)
    (h2 : beats y j k) : beats y i k := by
  unfold beats at *
  rcases h1 with h1 | ⟨h1, h1'⟩ <;> rcases h2 with h2 | ⟨h2, h2'⟩
  · exact Or.inl (hW.trans _ _ _ h2 h1)
  · left; rw [h2]; exact h1
  · left; rw [← h1]; exact h2
  · right; exact ⟨h2.trans h1, by omega⟩

/-- a non-empty list has an element that beats all the others -/
theorem exists_max (hW : WOrd W) (y : Nat → W) : ∀ (l : List Nat), l ≠ [] →
    ∃ m ∈ l, ∀ j ∈ l, beats y m j := by
  intro l
  induction l with
  | nil => intro h; exact absurd rfl h
  | cons a as ih =>
    intro _
    by_cases has : as = []
    · subst has
      refine ⟨a, by simp, ?_⟩
      intro j hj
      have : j = a := by simpa using hj
      subst this
      exact Or.inr ⟨rfl, Nat.le_refl _⟩
    · obtain ⟨m, hm, hmax⟩ := ih has
      rcases beats_total hW y a m with h | h
      · refine ⟨a, by simp, ?_⟩
        intro j hj
        rcases List.mem_cons.1 hj with rfl | hj
        · exact Or.inr ⟨rfl, Nat.le_refl _⟩
        · exact beats_trans hW y _ _ _ h (hmax j hj)
      · refine ⟨m, by simp [hm], ?_⟩
        intro j hj
        rcases List.mem_cons.1 hj with rfl | hj
        · exact h
        · exact hmax j hj

/-- a run of steps keeps sizes and decided nodes -/
theorem steps_mono (G : Graph) (hG : GraphOK G) (act C F : Int) (hCA : C ≠ act) (hFA : F ≠ act)
    (y : Nat → W) : ∀ (l : List Nat), (∀ i ∈ l, i < G.n) → ∀ x : Array Int, x.size = G.n →
      (l.foldl (parStep G act C F y) x).size = G.n ∧
      ∀ m, rd x m ≠ act → rd (l.foldl (parStep G act C F y) x) m ≠ act := by
  intro l
  induction l with
  | nil => intro _ x hx; exact ⟨hx, fun _ h => h⟩
  | cons i is ih =>
    intro hl x hx
    have hi : i < G.n := hl i (by simp)
    have hb : ∀ j ∈ G.adj i, j < x.size := by
      intro j hj; rw [hx]; exact hG.bound i hi j hj
    have hs := parStep_size G act C F hFA y x i hb
    obtain ⟨h1, h2⟩ := ih (fun k hk => hl k (by simp [hk])) (parStep G act C F y x i)
      (by rw [hs]; exact hx)
    rw [List.foldl_cons]
    exact ⟨h1, fun m hm => h2 m (parStep_mono G act C F hCA hFA y x i m hb hm)⟩

/-- the lexicographic maximum among the active nodes is decided by the pass -/
theorem steps_decide (hW : WOrd W) (G : Graph) (hG : GraphOK G) (act C F : Int) (hCA : C ≠ act)
    (hFA : F ≠ act) (y : Nat → W) (m : Nat) (hm : m < G.n) :
    ∀ (l : List Nat), (∀ i ∈ l, i < G.n) → m ∈ l → ∀ x : Array Int, x.size = G.n →
      (∀ j ∈ G.adj m, rd x j = act → beats y m j) →
      rd (l.foldl (parStep G act C F y) x) m ≠ act := by
  intro l
  induction l with
  | nil => intro _ h; simp at h
  | cons i is ih =>
    intro hl hmem x hx hmax
    have hi : i < G.n := hl i (by simp)
    have hb : ∀ j ∈ G.adj i, j < x.size := by
      intro j hj; rw [hx]; exact hG.bound i hi j hj
    have hs := parStep_size G act C F hFA y x i hb
    have hrest : ∀ k ∈ is, k < G.n := fun k hk => hl k (by simp [hk])
    rw [List.foldl_cons]
    by_cases him : i = m
    · subst him
      have hdec := parStep_decides hW.irr hW.asym G act C F hCA hFA y x i (by rw [hx]; exact hi) hb
        hmax
      exact (steps_mono G hG act C F hCA hFA y is hrest _ (by rw [hs]; exact hx)).2 i hdec
    · have hmem' : m ∈ is := by
        rcases List.mem_cons.1 hmem with h | h
        · exact absurd h.symm him
        · exact h
      apply ih hrest hmem' _ (by rw [hs]; exact hx)
      intro j hj hja
      apply hmax j hj
      -- active after the step ⇒ active before
      apply Classical.byContradiction
      intro hn
      exact parStep_mono G act C F hCA hFA y x i j hb hn hja

/-- number of active nodes -/
def nAct (n : Nat) (act : Int) (x : Array Int) : Nat :=
  (List.range n).countP (fun v => decide (rd x v = act))

/-- **a pass with an active node decides at least one** -/
theorem parPass_decreases (hW : WOrd W) (G : Graph) (hG : GraphOK G) (act C F : Int)
    (hCA : C ≠ act) (hFA : F ≠ act) (y : Nat → W) (x : Array Int) (hx : x.size = G.n)
    (hsome : ∃ i, i < G.n ∧ rd x i = act) :
    (parPass G act C F y x).size = G.n ∧
    nAct G.n act (parPass G act C F y x) < nAct G.n act x := by
  have hrange : ∀ i ∈ List.range G.n, i < G.n := fun i hi => List.mem_range.1 hi
  obtain ⟨hsz, hmono⟩ := steps_mono G hG act C F hCA hFA y (List.range G.n) hrange x hx
  refine ⟨hsz, ?_⟩
  -- the maximum among the active nodes
  obtain ⟨i0, hi0, ha0⟩ := hsome
  have hne : (List.range G.n).filter (fun v => decide (rd x v = act)) ≠ [] := by
    intro h
    have : i0 ∈ (List.range G.n).filter (fun v => decide (rd x v = act)) := by
      rw [List.mem_filter]; exact ⟨List.mem_range.2 hi0, by simpa using ha0⟩
    rw [h] at this; simp at this
  obtain ⟨m, hm, hmax⟩ := exists_max hW y _ hne
  rw [List.mem_filter] at hm
  have hmn : m < G.n := List.mem_range.1 hm.1
  have hma : rd x m = act := by simpa using hm.2
  have hdec := steps_decide hW G hG act C F hCA hFA y m hmn (List.range G.n) hrange hm.1 x hx
    (by
      intro j hj hja
      apply hmax j
      rw [List.mem_filter]
      exact ⟨List.mem_range.2 (hG.bound m hmn j hj), by simpa using hja⟩)
  unfold nAct parPass
  apply PyamgV.Bfs.countP_lt (v0 := m)
  · intro v _ hp
    have hp' : rd (List.foldl (parStep G act C F y) x (List.range G.n)) v = act := by
      simpa using hp
    apply Classical.byContradiction
    intro hn
    have : rd x v ≠ act := by simpa using hn
    exact hmono v this hp'
  · exact hm.1
  · simpa using hma
  · simpa using hdec

/-- **termination**: after `n` passes no node is active -/
theorem parIter_terminates (hW : WOrd W) (G : Graph) (hG : GraphOK G) (act C F : Int)
    (hCA : C ≠ act) (hFA : F ≠ act) (y : Nat → W) :
    ∀ (k : Nat) (x : Array Int), x.size = G.n → nAct G.n act x ≤ k →
      ∀ i, i < G.n → rd (parIter G act C F y k x) i ≠ act := by
  intro k
  induction k with
  | zero =>
    intro x _ hk i hi hia
    have : 0 < nAct G.n act x := by
      unfold nAct
      apply List.countP_pos_iff.2
      exact ⟨i, List.mem_range.2 hi, by simpa [parIter] using hia⟩
    omega
  | succ k ih =>
    intro x hx hk
    show ∀ i, i < G.n → rd (parIter G act C F y k (parPass G act C F y x)) i ≠ act
    by_cases hsome : ∃ i, i < G.n ∧ rd x i = act
    · obtain ⟨hsz, hlt⟩ := parPass_decreases hW G hG act C F hCA hFA y x hx hsome
      exact ih _ hsz (by omega)
    · -- nothing active: the pass changes nothing relevant
      have hrange : ∀ i ∈ List.range G.n, i < G.n := fun i hi => List.mem_range.1 hi
      obtain ⟨hsz, hmono⟩ := steps_mono G hG act C F hCA hFA y (List.range G.n) hrange x hx
      apply ih _ hsz
      have : nAct G.n act (parPass G act C F y x) = 0 := by
        unfold nAct
        apply List.countP_eq_zero.2
        intro v hv
        have hv' := List.mem_range.1 hv
        have hx0 : rd x v ≠ act := fun h => hsome ⟨v, hv', h⟩
        have h1 : rd (parPass G act C F y x) v ≠ act := hmono v hx0
        simpa using h1
      have h0 : nAct G.n act (List.foldl (parStep G act C F y) x (List.range G.n)) = 0 := this
      rw [h0]; exact Nat.zero_le k

/-- **parallel MIS, total**: `n` passes always suffice, and the result is a maximal independent
set — for any weights in a total order (PMIS/PMISc weights, Luby's random weights, …). -/
theorem misParallel_total (hW : WOrd W) (G : Graph) (hG : GraphOK G) (act C F : Int)
    (hCA : C ≠ act) (hFA : F ≠ act) (hCF : C ≠ F) (y : Nat → W)
    (x0 : Array Int) (hsz : x0.size = G.n) (hact : ∀ i, i < G.n → rd x0 i = act) :
    let x := parIter G act C F y G.n x0
    (∀ i j, i < G.n → j ∈ G.adj i → j ≠ i → rd x i = C → rd x j ≠ C) ∧
    (∀ i, i < G.n → rd x i = C ∨ (rd x i = F ∧ ∃ j ∈ G.adj i, j ≠ i ∧ rd x j = C)) := by
  intro x
  have hle : nAct G.n act x0 ≤ G.n := by
    unfold nAct
    have := List.countP_le_length (p := fun v => decide (rd x0 v = act)) (l := List.range G.n)
    simpa using this
  have hterm := parIter_terminates hW G hG act C F hCA hFA y G.n x0 hsz hle
  exact misParallel_correct G hG act C F hCA hFA hCF y x0 hsz hact G.n hterm

#print axioms parIter_terminates
#print axioms misParallel_total
end PyamgV
