import PyamgV.Proofs.ExtCGHh

/-! PyamgV (extension E43, properties C06/C07): **complex FGMRES and GMRES(Householder)** -- the executable models
`cfgStep`, `cghStep` (`Model/ExtCGGmres.lean`) over a `K`-module with a definite Hermitian form, an orthonormal
coordinate family and an exact square root: the Householder--Arnoldi invariant `CHhInv` (unconditional) joined with the
rotated-basis invariant `RB` of the Givens bookkeeping (under "the estimate `g[k]` is non-zero", which certifies that
every rotation so far was live).

* `cgiv_live`, `rb_congr`, `hhrb_step` -- the generic pieces;
* FGMRES: `cfSeq_inv`, `cfSeq_live`, `cfgmres_estimate` (C06: `‖b − A x_{m+1}‖² = |g[m+1]|²`), `cfgmres_optimal`
  (C07: minimal over `x₀ + span{z_0 … z_m}`, `z_j = pre j (v_j)` for *any* maps `pre j`);
* GMRES(Householder): `chornerO_eq` (the Horner scheme returns `Σ y_j v_j`), `cghSeq_inv`, `cghSeq_live`,
  `cgmres_hh_estimate`, `cgmres_hh_optimal_krylov` (minimal over `x₀ + K_{m+1}(M A, M r₀)`). -/
set_option linter.unusedSectionVars false
set_option linter.unusedVariables false
namespace PyamgV.ExtCG
open PyamgV.C07 PyamgV.CHerm PyamgV.C07.CH Finset

variable {K : Type} [Field K] [StarRing K] [DecidableEq K]
variable {F₀ : Type} [Field F₀] [LinearOrder F₀] [IsStrictOrderedRing F₀]
variable {V : Type} [AddCommGroup V] [Module K V]

local notation "gF" => PyamgV.C07.F

/-! ### generic pieces -/

/-- a non-zero new entry of `g` ⇒ the rotation was live and the previous entry was non-zero -/
theorem cgiv_live (sqrt : K → K) (k : Nat) (cs sn g col : List K) (hlg : g.length = k + 1)
    (h : gF (cgivensUpdate star sqrt nzK false k cs sn g col).g (k + 1) ≠ 0) :
    nzK (gF (capplyRots star 0 cs sn col) (k + 1)) = true ∧ gF g k ≠ 0 := by
  by_cases hnz : nzK (gF (capplyRots star 0 cs sn col) (k + 1)) = true
  · refine ⟨hnz, ?_⟩
    rw [cgivensUpdate_rot sqrt k cs sn g col hnz] at h
    simp only at h
    intro h0
    apply h
    have hgl : (g ++ [0]).length = k + 2 := by simp [hlg]
    rw [F_crotL k _ _ (g ++ [0]) (by rw [hgl]; omega), if_neg (by omega), if_pos rfl]
    have h1 : gF (g ++ [0]) (k + 1) = 0 := by rw [← hlg]; exact gF_append_len g 0
    rw [h1, gF_append_lt g [0] k (by rw [hlg]; omega), h0]; ring
  · exfalso
    have hnz' : nzK (gF (capplyRots star 0 cs sn col) (k + 1)) = false := by simpa using hnz
    rw [cgivensUpdate_norot sqrt k cs sn g col hnz'] at h
    apply h
    show gF (g ++ [0]) (k + 1) = 0
    rw [← hlg]; exact gF_append_len g 0

/-- `RB` only looks at `v_0 … v_k` and `z_0 … z_{k-1}` -/
theorem rb_congr (E : HForm K F₀ V) (B : V →ₗ[K] V) (r0 : V) (k : Nat) (v z v' z' : Nat → V) (cs sn : List K)
    (rcols : List (List K)) (g : List K) (u : Nat → V) (p : V)
    (hv : ∀ l, l ≤ k → v' l = v l) (hz : ∀ j, j < k → z' j = z j)
    (h : RB E B r0 k v z cs sn rcols g u p) : RB E B r0 k v' z' cs sn rcols g u p := by
  refine ⟨h.lcs, h.lsn, h.lg, h.lrc, h.res, ?_, h.tri, h.diag, h.pp, h.uu, h.up, ?_, ?_⟩
  · intro j hj; rw [hz j hj]; exact h.rel j hj
  · intro w hw
    exact h.inh w (fun l hl => by rw [← hv l hl]; exact hw l hl)
  · intro hh hl
    rw [← h.chg hh hl]
    exact sum_congr rfl (fun l hl' => by rw [hv l (by have := mem_range.1 hl'; omega)])

variable (A AH M : V →ₗ[K] V) (E : HForm K F₀ V) (Eb : Nat → V)
variable (R : ReMap K F₀) (hER : ∀ z, E.re z = R.re z) (sqrt : K → K) (hS : ExactSqrt R sqrt)
variable (hdef : ∀ v, E.h v v = 0 → v = 0)

local notation "sg" => csgn (star : K → K) sqrt nzK

include hS in
/-- **one inner iteration of a Householder model with a non-zero new estimate keeps the rotated-basis invariant** -/
theorem hhrb_step {n : Nat} (hE : COrthoFam E Eb n) (B : V →ₗ[K] V) (k : Nat) (hk : k + 1 < n) (β : K) (r : V)
    (ws zs : List V) (cols : List (List K)) (w' z' : V) (col : List K)
    (iH' : CHhInv E Eb B (k + 1) β r (ws ++ [w']) (zs ++ [z']) (cols ++ [col]))
    (hstab : ∀ l, l ≤ k → chhL E (ws ++ [w']).reverse (Eb l) = chhL E ws.reverse (Eb l))
    (hlz : zs.length = k) (hlc : cols.length = k) (hcl : col.length = k + 2)
    (cs sn : List K) (rcols : List (List K)) (g : List K) (u : Nat → V) (p : V)
    (hRB : RB E B r k (fun l => chhL E ws.reverse (Eb l)) (fun j => zs.getD j 0) cs sn rcols g u p)
    (hnz : nzK (gF (capplyRots star 0 cs sn col) (k + 1)) = true) :
    ∃ u' p', RB E B r (k + 1) (fun l => chhL E (ws ++ [w']).reverse (Eb l)) (fun j => (zs ++ [z']).getD j 0)
      (cs ++ [(cgivensUpdate star sqrt nzK false k cs sn g col).c])
      (sn ++ [(cgivensUpdate star sqrt nzK false k cs sn g col).s])
      (rcols ++ [(cgivensUpdate star sqrt nzK false k cs sn g col).rc])
      (cgivensUpdate star sqrt nzK false k cs sn g col).g u' p' := by
  rw [cgivensUpdate_rot sqrt k cs sn g col hnz]
  simp only
  set rc0 := capplyRots star 0 cs sn col with hrc0
  have hj1 : gF rc0 (k + 1) ≠ 0 := nzK_true hnz
  obtain ⟨hcr, hunit, hzero⟩ := clartg_spec R sqrt hS (gF rc0 k) (gF rc0 (k + 1)) hj1
  have hRB' : RB E B r k (fun l => chhL E (ws ++ [w']).reverse (Eb l)) (fun j => (zs ++ [z']).getD j 0)
      cs sn rcols g u p :=
    rb_congr E B r k _ _ _ _ cs sn rcols g u p (fun l hl => hstab l hl)
      (fun j hj => getD_append_lt' _ _ _ _ (by rw [hlz]; exact hj)) hRB
  have horth := fun i j hi hj => iH'.orth hE hk i j hi hj
  have hrel := iH'.rel k (by omega)
  have e1 : (zs ++ [z']).getD k 0 = z' := by rw [← hlz]; exact getD_append_len' _ _ _
  have e2 : (cols ++ [col]).getD k [] = col := by rw [← hlc]; exact getD_append_len' _ _ _
  rw [e2] at hrel
  refine ⟨_, _, rb_step E B r k _ _ cs sn rcols g u p hRB'
    (by have := horth (k + 1) (k + 1) (le_refl _) (le_refl _); rwa [if_pos rfl] at this)
    (fun l hl => by have := horth l (k + 1) (by omega) (le_refl _); rwa [if_neg (by omega)] at this)
    col hcl hrel _ _ hcr hunit hzero hj1⟩

/-! ### shapes -/

structure HShape (k : Nat) (s : HhSt K V) : Prop where
  lrc : s.rcols.length = k
  lcs : s.cs.length = k
  lsn : s.sn.length = k
  lg : s.g.length = k + 1
  lxs : s.xs.length = k

/-- what a non-zero estimate certifies for a Householder model -/
structure HLive (B : V →ₗ[K] V) (r : V) (β : K) (k : Nat) (s : HhSt K V) : Prop where
  beta : β ≠ 0
  sub : ∀ j, j < k → gF (s.cols.getD j []) (j + 1) ≠ 0
  rb : ∃ u p, RB E B r k (fun l => chhL E s.ws.reverse (Eb l)) (fun j => s.zs.getD j 0) s.cs s.sn s.rcols s.g u p

/-- the directions are the preconditioned Arnoldi vectors -/
def CFgDir (pre : Nat → V → V) (k : Nat) (ws zs : List V) : Prop :=
  ∀ j, j < k → zs.getD j 0 = pre j (chhL E ws.reverse (Eb j))

variable (n : Nat) (pre : Nat → V → V) (b x0 : V)

/-! ### FGMRES -/

/-- the states of the complex FGMRES model over the module -/
def cfSeq (k : Nat) : HhSt K V :=
  iter (cfgStep (HOps.ofHerm A AH M E Eb) star sqrt sg nzK n pre x0) k
    (hhInit (HOps.ofHerm A AH M E Eb) sqrt sg (b - A x0))

/-- `−beta` of the code: `g[0]` -/
def cfBeta : K := -(sg (E.h (Eb 0) (b - A x0)) * sqrt (E.h (b - A x0) (b - A x0)))

local notation "Sf" => cfSeq A AH M E Eb sqrt n pre b x0
local notation "βf" => cfBeta A E Eb sqrt b x0

variable (hE : COrthoFam E Eb n)

include hER hS hdef hE in
/-- **every state `k < n` of the FGMRES model carries the Householder--Arnoldi invariant** -/
theorem cfSeq_inv : ∀ k, k < n →
    CHhInv E Eb A k βf (b - A x0) (Sf k).ws (Sf k).zs (Sf k).cols ∧
    CFgDir E Eb pre k (Sf k).ws (Sf k).zs ∧ HShape k (Sf k) := by
  intro k
  induction k with
  | zero =>
    intro hn
    obtain ⟨h1, h2⟩ := chhInv_init A AH M R hER sqrt hS hdef hE hn A (b - A x0)
    exact ⟨h1, fun j hj => by omega, ⟨rfl, rfl, rfl, rfl, rfl⟩⟩
  | succ k ih =>
    intro hk
    obtain ⟨iH, iD, iS⟩ := ih (by omega)
    have hstep : Sf (k+1) = cfgStep (HOps.ofHerm A AH M E Eb) star sqrt sg nzK n pre x0 (Sf k) := rfl
    rw [hstep]
    generalize Sf k = s at iH iD iS
    have hA : (HOps.ofHerm A AH M E Eb).o.A = fun v => A v := rfl
    simp only [cfgStep, hA]
    rw [iH.lcols]
    obtain ⟨sH, sz, sl, sstab⟩ := chhInv_step A AH M R hER sqrt hS hdef hE A k hk _ _ s.ws s.zs s.cols iH (pre k) x0
    refine ⟨sH, ?_, ⟨by simp [iS.lrc], by simp [iS.lcs], by simp [iS.lsn], ?_, by simp [iS.lxs]⟩⟩
    · intro j hj
      by_cases hjk : j < k
      · rw [getD_append_lt' _ _ _ _ (by rw [iH.lzs]; exact hjk), sstab j (by omega)]
        exact iD j hjk
      · have : j = k := by omega
        subst this
        have := getD_append_len' s.zs
          (chhArnoldi (HOps.ofHerm A AH M E Eb) star sqrt sg nzK n (pre j) (fun v => A v) s.ws j x0).z (0 : V)
        rw [iH.lzs] at this
        rw [sstab j (le_refl j)]
        exact this.trans sz
    · rw [cgivensUpdate_g_length, iS.lg]

include hER hS hdef hE in
/-- **a non-zero `g[k]` certifies live rotations and the rotated-basis invariant** -/
theorem cfSeq_live : ∀ k, k < n → gF (Sf k).g k ≠ 0 → HLive E Eb A (b - A x0) βf k (Sf k) := by
  intro k
  induction k with
  | zero =>
    intro hn hg0
    obtain ⟨iH, _, _⟩ := cfSeq_inv A AH M E Eb R hER sqrt hS hdef n pre b x0 hE 0 hn
    obtain ⟨_, h2⟩ := chhInv_init A AH M R hER sqrt hS hdef hE hn A (b - A x0)
    have hg : (Sf 0).g = [βf] := h2
    refine ⟨by rw [hg] at hg0; simpa [C07.F] using hg0, fun j hj => by omega, fun _ => 0,
      chhL E (Sf 0).ws.reverse (Eb 0), ?_⟩
    have h0 : (Sf 0).rcols = [] ∧ (Sf 0).cs = [] ∧ (Sf 0).sn = [] := ⟨rfl, rfl, rfl⟩
    rw [hg, h0.1, h0.2.1, h0.2.2]
    exact rb_init E A _ _ _ _ iH.hr0 (by have := iH.orth hE hn 0 0 (le_refl 0) (le_refl 0); rwa [if_pos rfl] at this)
  | succ k ih =>
    intro hk hgk
    obtain ⟨iH, _, iS⟩ := cfSeq_inv A AH M E Eb R hER sqrt hS hdef n pre b x0 hE k (by omega)
    obtain ⟨iH', _, _⟩ := cfSeq_inv A AH M E Eb R hER sqrt hS hdef n pre b x0 hE (k + 1) hk
    have hstep : Sf (k+1) = cfgStep (HOps.ofHerm A AH M E Eb) star sqrt sg nzK n pre x0 (Sf k) := rfl
    have hlf : (k + 1 == n) = false := by simp; omega
    rw [hstep] at hgk iH' ⊢
    set s := Sf k with hs
    have hA : (HOps.ofHerm A AH M E Eb).o.A = fun v => A v := rfl
    simp only [cfgStep, hA, iH.lcols, hlf] at hgk iH' ⊢
    obtain ⟨_, _, sl, sstab⟩ := chhInv_step A AH M R hER sqrt hS hdef hE A k hk _ _ s.ws s.zs s.cols iH (pre k) x0
    set a := chhArnoldi (HOps.ofHerm A AH M E Eb) star sqrt sg nzK n (pre k) (fun v => A v) s.ws k x0 with ha
    obtain ⟨hnz, hg0⟩ := cgiv_live sqrt k s.cs s.sn s.g a.col iS.lg hgk
    obtain ⟨hbeta, hsub, u, p, hRB⟩ := ih (by omega) hg0
    refine ⟨hbeta, ?_, hhrb_step E Eb R sqrt hS hE A k hk _ _ s.ws s.zs s.cols a.w a.z a.col iH' sstab iH.lzs iH.lcols sl
      s.cs s.sn s.rcols s.g u p hRB hnz⟩
    intro j hj
    by_cases hjk : j < k
    · rw [getD_append_lt' _ _ _ _ (by rw [iH.lcols]; exact hjk)]; exact hsub j hjk
    · have : j = k := by omega
      subst this
      rw [← iH.lcols, getD_append_len', iH.lcols,
        ← capplyRots_high 0 s.cs s.sn a.col (j + 1) (by rw [iS.lcs]; omega)]
      exact nzK_true hnz

/-- the iterate recorded in inner iteration `m` -/
def xF (m : Nat) : V := (Sf (m + 1)).xs.getLast?.getD x0

include hER hS hdef hE in
theorem xF_eq (m : Nat) (hm : m + 1 < n) :
    xF A AH M E Eb sqrt n pre b x0 m = x0 + ∑ j ∈ range (m + 1),
      gF (backSub (Sf (m + 1)).rcols (Sf (m + 1)).g (m + 1) []) j • (Sf (m + 1)).zs.getD j 0 := by
  obtain ⟨iH, _, _⟩ := cfSeq_inv A AH M E Eb R hER sqrt hS hdef n pre b x0 hE m (by omega)
  obtain ⟨iH', _, _⟩ := cfSeq_inv A AH M E Eb R hER sqrt hS hdef n pre b x0 hE (m + 1) hm
  have hx : (Sf (m + 1)).xs = (Sf m).xs ++ [combO (Ops.ofHerm A AH M E) x0
      (backSub (Sf (m + 1)).rcols (Sf (m + 1)).g ((Sf m).cols.length + 1) []) (Sf (m + 1)).zs] := rfl
  unfold xF
  rw [hx, iH.lcols, combO_eq_lsum, lsum_eq_sum _ _ (by rw [backSub_length, iH'.lzs]), iH'.lzs]
  simp

include hER hS hdef hE in
/-- **C06 clause for complex `fgmres`**: `‖b − A x_{m+1}‖² = |g[m+1]|²` for the iterate handed to `callback` -/
theorem cfgmres_estimate (m : Nat) (hmn : m + 1 < n) (hg : gF (Sf (m + 1)).g (m + 1) ≠ 0) :
    E.en (b - A (xF A AH M E Eb sqrt n pre b x0 m)) =
      E.re (star (gF (Sf (m + 1)).g (m + 1)) * gF (Sf (m + 1)).g (m + 1)) := by
  obtain ⟨u, p, hRB⟩ := (cfSeq_live A AH M E Eb R hER sqrt hS hdef n pre b x0 hE (m + 1) hmn hg).rb
  have h := rb_estimate E A b x0 (m + 1) _ _ _ _ _ _ u p hRB
  rw [xF_eq A AH M E Eb R hER sqrt hS hdef n pre b x0 hE m hmn]
  exact h

include hER hS hdef hE in
/-- **C07 clause for complex `fgmres`**: the iterate minimises the norm of the true residual over
`x₀ + span{z_0 … z_m}`; the directions are `z_j = pre j (v_j)` with `v_0 … v_m` orthonormal, for any maps `pre j` -/
theorem cfgmres_optimal (m : Nat) (hmn : m + 1 < n) (hg : gF (Sf (m + 1)).g (m + 1) ≠ 0) :
    (∃ v : Nat → V, (∀ i j, i ≤ m + 1 → j ≤ m + 1 → E.h (v i) (v j) = if i = j then 1 else 0) ∧
      (∀ j, j < m + 1 → (Sf (m + 1)).zs.getD j 0 = pre j (v j)) ∧ b - A x0 = βf • v 0) ∧
    xF A AH M E Eb sqrt n pre b x0 m - x0 ∈
      Submodule.span K ((fun j => (Sf (m + 1)).zs.getD j 0) '' {j | j < m + 1}) ∧
    ∀ x', x' - x0 ∈ Submodule.span K ((fun j => (Sf (m + 1)).zs.getD j 0) '' {j | j < m + 1}) →
      E.en (b - A (xF A AH M E Eb sqrt n pre b x0 m)) ≤ E.en (b - A x') := by
  obtain ⟨iH, iD, _⟩ := cfSeq_inv A AH M E Eb R hER sqrt hS hdef n pre b x0 hE (m + 1) hmn
  obtain ⟨u, p, hRB⟩ := (cfSeq_live A AH M E Eb R hER sqrt hS hdef n pre b x0 hE (m + 1) hmn hg).rb
  have h := rb_optimal E A b x0 (m + 1) _ _ _ _ _ _ u p hRB
  rw [xF_eq A AH M E Eb R hER sqrt hS hdef n pre b x0 hE m hmn]
  refine ⟨⟨fun l => chhL E (Sf (m + 1)).ws.reverse (Eb l), fun i j hi hj => iH.orth hE hmn i j hi hj, iD, iH.hr0⟩,
    ?_, h⟩
  rw [add_sub_cancel_left]
  exact Submodule.sum_mem _ (fun j hj => Submodule.smul_mem _ _
    (Submodule.subset_span ⟨j, mem_range.1 hj, rfl⟩))

#print axioms cfgmres_estimate
#print axioms cfgmres_optimal
/-! ### GMRES with Householder orthogonalisation -/

/-- the Horner scheme, in closed form -/
theorem chornerO_eq : ∀ (ws : List V) (ys : List K) (j : Nat), ys.length ≤ ws.length →
    hornerO (HOps.ofHerm A AH M E Eb) (0 : V) j ws ys =
      ∑ i ∈ range ys.length, gF ys i • chhL E (ws.take (i + 1)).reverse (Eb (j + i))
  | [], [], _, _ => by simp [hornerO]
  | [], _ :: _, _, h => by simp at h
  | _ :: _, [], _, _ => by simp [hornerO]
  | w :: ws, y :: ys, j, h => by
    have ih := chornerO_eq ws ys (j + 1) (by simpa using h)
    simp only [hornerO]
    have ho : (HOps.ofHerm A AH M E Eb).o = Ops.ofHerm A AH M E := rfl
    have hadd : ∀ u v : V, (HOps.ofHerm A AH M E Eb).o.add u v = u + v := fun _ _ => rfl
    have hsm : ∀ (c : K) (v : V), (HOps.ofHerm A AH M E Eb).o.smul c v = c • v := fun _ _ => rfl
    have hbas : (HOps.ofHerm A AH M E Eb).basis j = Eb j := rfl
    rw [hadd, hsm, hbas, ho, creflO_eq, ih, map_add, map_sum, List.length_cons, Finset.sum_range_succ']
    simp only [C07.F, List.getD_cons_succ, List.getD_cons_zero, List.take_succ_cons, List.reverse_cons, map_smul]
    congr 1
    · refine Finset.sum_congr rfl (fun i _ => ?_)
      rw [chhL_append]
      simp only [LinearMap.comp_apply]
      rw [show j + 1 + i = j + (i + 1) by omega]

variable {E Eb} in
/-- by the leading zeros, `v_i = P_0 ⋯ P_i E_i` does not depend on the later reflectors -/
theorem chhL_take_eq {B : V →ₗ[K] V} {k : Nat} {β : K} {r : V} {ws zs : List V} {cols : List (List K)}
    (h : CHhInv E Eb B k β r ws zs cols) (i : Nat) (_hi : i ≤ k) :
    chhL E (ws.take (i + 1)).reverse (Eb i) = chhL E ws.reverse (Eb i) := by
  conv_rhs => rw [← List.take_append_drop (i + 1) ws, List.reverse_append, chhL_append_list]
  simp only [LinearMap.comp_apply]
  congr 1
  symm
  apply chhL_fix
  intro w hw
  rw [List.mem_reverse] at hw
  obtain ⟨d, hd, rfl⟩ := List.getElem_of_mem hw
  rw [List.getElem_drop]
  apply E.orth_symm
  have hlen : i + 1 + d < ws.length := by
    rw [List.length_drop] at hd; omega
  have := h.lead (i + 1 + d) i (by rw [h.lws] at hlen; omega) (by omega)
  rwa [List.getD_eq_getElem _ _ hlen] at this

/-- the states of the complex GMRES(Householder) model over the module -/
def cghSeq (k : Nat) : HhSt K V :=
  iter (cghStep (HOps.ofHerm A AH M E Eb) star sqrt sg nzK n x0) k
    (hhInit (HOps.ofHerm A AH M E Eb) sqrt sg (M (b - A x0)))

/-- `−beta` of the code -/
def cghBeta : K := -(sg (E.h (Eb 0) (M (b - A x0))) * sqrt (E.h (M (b - A x0)) (M (b - A x0))))

local notation "Sh" => cghSeq A AH M E Eb sqrt n b x0
local notation "βh" => cghBeta A M E Eb sqrt b x0

include hER hS hdef hE in
theorem cghSeq_inv : ∀ k, k < n →
    CHhInv E Eb (M ∘ₗ A) k βh (M (b - A x0)) (Sh k).ws (Sh k).zs (Sh k).cols ∧
    CFgDir E Eb (fun _ v => v) k (Sh k).ws (Sh k).zs ∧ HShape k (Sh k) := by
  intro k
  induction k with
  | zero =>
    intro hn
    obtain ⟨h1, h2⟩ := chhInv_init A AH M R hER sqrt hS hdef hE hn (M ∘ₗ A) (M (b - A x0))
    exact ⟨h1, fun j hj => by omega, ⟨rfl, rfl, rfl, rfl, rfl⟩⟩
  | succ k ih =>
    intro hk
    obtain ⟨iH, iD, iS⟩ := ih (by omega)
    have hstep : Sh (k+1) = cghStep (HOps.ofHerm A AH M E Eb) star sqrt sg nzK n x0 (Sh k) := rfl
    rw [hstep]
    generalize Sh k = s at iH iD iS
    have hB : (fun v => (HOps.ofHerm A AH M E Eb).o.M ((HOps.ofHerm A AH M E Eb).o.A v)) =
        fun v => (M ∘ₗ A) v := rfl
    simp only [cghStep, hB]
    rw [iH.lcols]
    obtain ⟨sH, sz, sl, sstab⟩ := chhInv_step A AH M R hER sqrt hS hdef hE (M ∘ₗ A) k hk _ _ s.ws s.zs s.cols iH
      (fun v => v) x0
    refine ⟨sH, ?_, ⟨by simp [iS.lrc], by simp [iS.lcs], by simp [iS.lsn], ?_, by simp [iS.lxs]⟩⟩
    · intro j hj
      by_cases hjk : j < k
      · rw [getD_append_lt' _ _ _ _ (by rw [iH.lzs]; exact hjk), sstab j (by omega)]
        exact iD j hjk
      · have : j = k := by omega
        subst this
        have := getD_append_len' s.zs
          (chhArnoldi (HOps.ofHerm A AH M E Eb) star sqrt sg nzK n (fun v => v) (fun v => (M ∘ₗ A) v) s.ws j x0).z
          (0 : V)
        rw [iH.lzs] at this
        rw [sstab j (le_refl j)]
        exact this.trans sz
    · rw [cgivensUpdate_g_length, iS.lg]

include hER hS hdef hE in
theorem cghSeq_live : ∀ k, k < n → gF (Sh k).g k ≠ 0 → HLive E Eb (M ∘ₗ A) (M (b - A x0)) βh k (Sh k) := by
  intro k
  induction k with
  | zero =>
    intro hn hg0
    obtain ⟨iH, _, _⟩ := cghSeq_inv A AH M E Eb R hER sqrt hS hdef n b x0 hE 0 hn
    obtain ⟨_, h2⟩ := chhInv_init A AH M R hER sqrt hS hdef hE hn (M ∘ₗ A) (M (b - A x0))
    have hg : (Sh 0).g = [βh] := h2
    refine ⟨by rw [hg] at hg0; simpa [C07.F] using hg0, fun j hj => by omega, fun _ => 0,
      chhL E (Sh 0).ws.reverse (Eb 0), ?_⟩
    have h0 : (Sh 0).rcols = [] ∧ (Sh 0).cs = [] ∧ (Sh 0).sn = [] := ⟨rfl, rfl, rfl⟩
    rw [hg, h0.1, h0.2.1, h0.2.2]
    exact rb_init E (M ∘ₗ A) _ _ _ _ iH.hr0
      (by have := iH.orth hE hn 0 0 (le_refl 0) (le_refl 0); rwa [if_pos rfl] at this)
  | succ k ih =>
    intro hk hgk
    obtain ⟨iH, _, iS⟩ := cghSeq_inv A AH M E Eb R hER sqrt hS hdef n b x0 hE k (by omega)
    obtain ⟨iH', _, _⟩ := cghSeq_inv A AH M E Eb R hER sqrt hS hdef n b x0 hE (k + 1) hk
    have hstep : Sh (k+1) = cghStep (HOps.ofHerm A AH M E Eb) star sqrt sg nzK n x0 (Sh k) := rfl
    have hlf : (k + 1 == n) = false := by simp; omega
    rw [hstep] at hgk iH' ⊢
    set s := Sh k with hs
    have hB : (fun v => (HOps.ofHerm A AH M E Eb).o.M ((HOps.ofHerm A AH M E Eb).o.A v)) =
        fun v => (M ∘ₗ A) v := rfl
    simp only [cghStep, hB, iH.lcols, hlf] at hgk iH' ⊢
    obtain ⟨_, _, sl, sstab⟩ := chhInv_step A AH M R hER sqrt hS hdef hE (M ∘ₗ A) k hk _ _ s.ws s.zs s.cols iH
      (fun v => v) x0
    set a := chhArnoldi (HOps.ofHerm A AH M E Eb) star sqrt sg nzK n (fun v => v) (fun v => (M ∘ₗ A) v) s.ws k x0
      with ha
    obtain ⟨hnz, hg0⟩ := cgiv_live sqrt k s.cs s.sn s.g a.col iS.lg hgk
    obtain ⟨hbeta, hsub, u, p, hRB⟩ := ih (by omega) hg0
    refine ⟨hbeta, ?_, hhrb_step E Eb R sqrt hS hE (M ∘ₗ A) k hk _ _ s.ws s.zs s.cols a.w a.z a.col iH' sstab iH.lzs
      iH.lcols sl s.cs s.sn s.rcols s.g u p hRB hnz⟩
    intro j hj
    by_cases hjk : j < k
    · rw [getD_append_lt' _ _ _ _ (by rw [iH.lcols]; exact hjk)]; exact hsub j hjk
    · have : j = k := by omega
      subst this
      rw [← iH.lcols, getD_append_len', iH.lcols,
        ← capplyRots_high 0 s.cs s.sn a.col (j + 1) (by rw [iS.lcs]; omega)]
      exact nzK_true hnz

/-- the iterate recorded in inner iteration `m` -/
def xH (m : Nat) : V := (Sh (m + 1)).xs.getLast?.getD x0

include hER hS hdef hE in
theorem xH_eq (m : Nat) (hm : m + 1 < n) :
    xH A AH M E Eb sqrt n b x0 m = x0 + ∑ j ∈ range (m + 1),
      gF (backSub (Sh (m + 1)).rcols (Sh (m + 1)).g (m + 1) []) j • (Sh (m + 1)).zs.getD j 0 := by
  obtain ⟨iH, _, _⟩ := cghSeq_inv A AH M E Eb R hER sqrt hS hdef n b x0 hE m (by omega)
  obtain ⟨iH', iD', _⟩ := cghSeq_inv A AH M E Eb R hER sqrt hS hdef n b x0 hE (m + 1) hm
  have hx : (Sh (m + 1)).xs = (Sh m).xs ++ [x0 + hornerO (HOps.ofHerm A AH M E Eb) ((0 : K) • x0) 0 (Sh m).ws
      (backSub (Sh (m + 1)).rcols (Sh (m + 1)).g ((Sh m).cols.length + 1) [])] := rfl
  have hws : (Sh (m + 1)).ws = (Sh m).ws ++ [((Sh (m + 1)).ws.getLast?).getD 0] := by
    have : ∃ w, (Sh (m + 1)).ws = (Sh m).ws ++ [w] := ⟨_, rfl⟩
    obtain ⟨w, hw⟩ := this
    rw [hw]; simp
  unfold xH
  rw [hx, iH.lcols, zero_smul, chornerO_eq A AH M E Eb _ _ 0 (by rw [backSub_length, iH.lws]), backSub_length]
  simp only [List.getLast?_append, List.getLast?_singleton, Option.getD_some, Option.some_or, Nat.zero_add]
  congr 1
  refine sum_congr rfl (fun j hj => ?_)
  have hjm := mem_range.1 hj
  rw [iD' j hjm, ← chhL_take_eq iH' j (by omega), hws, List.take_append_of_le_length (by rw [iH.lws]; omega)]

include hER hS hdef hE in
/-- **C06 clause for complex `gmres_householder`**: `‖M (b − A x_{m+1})‖² = |g[m+1]|²` -/
theorem cgmres_hh_estimate (m : Nat) (hmn : m + 1 < n) (hg : gF (Sh (m + 1)).g (m + 1) ≠ 0) :
    E.en (M (b - A (xH A AH M E Eb sqrt n b x0 m))) =
      E.re (star (gF (Sh (m + 1)).g (m + 1)) * gF (Sh (m + 1)).g (m + 1)) := by
  obtain ⟨u, p, hRB⟩ := (cghSeq_live A AH M E Eb R hER sqrt hS hdef n b x0 hE (m + 1) hmn hg).rb
  have hr0 : M (b - A x0) = M b - (M ∘ₗ A) x0 := by simp [map_sub]
  rw [hr0] at hRB
  have h := rb_estimate E (M ∘ₗ A) (M b) x0 (m + 1) _ _ _ _ _ _ u p hRB
  rw [← xH_eq A AH M E Eb R hER sqrt hS hdef n b x0 hE m hmn] at h
  rw [← h]
  simp [map_sub]

include hER hS hdef hE in
/-- **C07 clause for complex `gmres_householder`**: the iterate handed to `callback` lies in
`x₀ + K_{m+1}(M A, M r₀)` and minimises the norm of the preconditioned residual over it -/
theorem cgmres_hh_optimal_krylov (m : Nat) (hmn : m + 1 < n) (hg : gF (Sh (m + 1)).g (m + 1) ≠ 0) :
    xH A AH M E Eb sqrt n b x0 m - x0 ∈ ckry (M ∘ₗ A) (M (b - A x0)) (m + 1) ∧
    ∀ x', x' - x0 ∈ ckry (M ∘ₗ A) (M (b - A x0)) (m + 1) →
      E.en (M (b - A (xH A AH M E Eb sqrt n b x0 m))) ≤ E.en (M (b - A x')) := by
  obtain ⟨iH, iD, _⟩ := cghSeq_inv A AH M E Eb R hER sqrt hS hdef n b x0 hE (m + 1) hmn
  have L := cghSeq_live A AH M E Eb R hER sqrt hS hdef n b x0 hE (m + 1) hmn hg
  obtain ⟨u, p, hRB⟩ := L.rb
  have hr0 : M (b - A x0) = M b - (M ∘ₗ A) x0 := by simp [map_sub]
  -- the directions are the Arnoldi vectors, which span the Krylov space
  have hzv : ∀ j, j < m + 1 → (Sh (m + 1)).zs.getD j 0 = chhL E (Sh (m + 1)).ws.reverse (Eb j) := iD
  have hspan : Submodule.span K ((fun j => (Sh (m + 1)).zs.getD j 0) '' {j | j < m + 1}) =
      ckry (M ∘ₗ A) (M (b - A x0)) (m + 1) := by
    have hset : {j : Nat | j < m + 1} = {i | i ≤ m} := by ext i; simp [Nat.lt_succ_iff]
    have himg : (fun j => (Sh (m + 1)).zs.getD j 0) '' {j | j < m + 1} =
        (fun l => chhL E (Sh (m + 1)).ws.reverse (Eb l)) '' {j | j < m + 1} :=
      Set.image_congr (fun j hj => hzv j hj)
    unfold ckry
    rw [himg, hset]
    refine arnoldi_span_krylov (M ∘ₗ A) (fun l => chhL E (Sh (m + 1)).ws.reverse (Eb l))
      (fun l j => gF ((Sh (m + 1)).cols.getD j []) l) (M (b - A x0)) βh L.beta iH.hr0 m ?_
      (fun j hj => L.sub j (by omega))
    intro j hj
    have := iH.rel j (by omega)
    rw [hzv j (by omega)] at this
    rw [this]
    symm
    apply sum_subset (range_subset_range.2 (by omega))
    intro l _ hnl
    rw [gF_out _ _ (by rw [iH.collen j (by omega)]; have := mt mem_range.2 hnl; omega), zero_smul]
  rw [hr0] at hRB
  have h := rb_optimal E (M ∘ₗ A) (M b) x0 (m + 1) _ _ _ _ _ _ u p hRB
  rw [← xH_eq A AH M E Eb R hER sqrt hS hdef n b x0 hE m hmn, hspan] at h
  refine ⟨?_, fun x' hx' => by simpa [map_sub] using h x' hx'⟩
  rw [← hspan, xH_eq A AH M E Eb R hER sqrt hS hdef n b x0 hE m hmn, add_sub_cancel_left]
  exact Submodule.sum_mem _ (fun j hj => Submodule.smul_mem _ _
    (Submodule.subset_span ⟨j, mem_range.1 hj, rfl⟩))

#print axioms cgmres_hh_estimate
#print axioms cgmres_hh_optimal_krylov
end PyamgV.ExtCG
